import Juniper.Proofs.PipeStep
/-!
The inductive invariant of the Pipe LTS behind the safety clauses of C10: per sender, what was
handed to the channel (delivered ++ buffered ++ in flight) is a sublist of what the sender's calls
were started with; nothing acknowledged before the sender's `Close` leaves `delivered ++ buf`.
-/
namespace Juniper.Proofs.Pipe
open Juniper.Facts Juniper.Gen.Pipe Juniper.Model.Pipe

/-- The messages of sender `i` in a list, in order. -/
def ofSender (i : Nat) (l : List Msg) : List Msg := l.filter (fun m => m.sender == i)

/-- The message of the call in flight, if any. -/
def inflight (sd : Sender) : List Msg :=
  match sd.pc.msg? with
  | some m => [m]
  | none => []

/-- No `send` arm in a table. -/
def noSendArm (t : List Arm) : Bool := t.all fun a => match a with
  | .send _ => false
  | _ => true

structure SInv (L : List Msg) (i : Nat) (sd : Sender) : Prop where
  tags : ∀ m ∈ sd.sent, m.sender = i
  seqs : sd.sent.map (·.seq) = List.range sd.sent.length
  sub : (ofSender i L ++ inflight sd).Sublist sd.sent

structure Inv (st : State) : Prop where
  cap : st.buf.length ≤ st.cap
  snd : ∀ i sd, st.senders[i]? = some sd → SInv (st.delivered ++ st.buf) i sd
  rng : ∀ m ∈ st.delivered ++ st.buf, m.sender < st.senders.length
  held : ∀ m ∈ st.ackedBC, m ∈ st.delivered ∨ m ∈ st.buf
  drain : st.rpc = .drain → st.senderDone = true
  /-- the receiver gets the values in the order in which their sends on the channel succeeded -/
  fifoAck : st.delivered ++ st.buf = st.acked

theorem ofSender_append (i : Nat) (a b : List Msg) : ofSender i (a ++ b) = ofSender i a ++ ofSender i b := by
  simp [ofSender, List.filter_append]

theorem ofSender_single_self (m : Msg) : ofSender m.sender [m] = [m] := by simp [ofSender]

theorem ofSender_single_ne {i : Nat} {m : Msg} (h : m.sender ≠ i) : ofSender i [m] = [] := by
  simp [ofSender, h]

theorem inv_init (n b : Nat) : Inv (init n b) := by
  refine ⟨by simp [init], ?_, by simp [init], by simp [init], by simp [init], by simp [init]⟩
  intro i sd h
  simp only [init, List.getElem?_replicate] at h
  split at h
  · simp at h
    subst h
    exact ⟨by simp, by simp, by simp [ofSender, inflight, SPc.msg?, init]⟩
  · simp at h

theorem getElem?_setSender (st : State) (i j : Nat) (sd : Sender) :
    (st.setSender i sd).senders[j]? = if i = j then (if i < st.senders.length then some sd else none) else st.senders[j]? := by
  simp [State.setSender, List.getElem?_set]

/-- Replacing sender `i` (which exists) by a record that satisfies its invariant keeps `Inv`. -/
theorem inv_setSender {st : State} {i : Nat} {sd sd' : Sender} (h : Inv st)
    (_hsd : st.senders[i]? = some sd) (h' : SInv (st.delivered ++ st.buf) i sd') :
    Inv (st.setSender i sd') := by
  refine ⟨h.cap, ?_, ?_, h.held, h.drain, h.fifoAck⟩
  · intro j sdj hj
    rw [getElem?_setSender] at hj
    split at hj
    · rename_i hij
      subst hij
      split at hj
      · simp at hj; subst hj; exact h'
      · simp at hj
    · exact h.snd j sdj hj
  · intro m hm
    have := h.rng m hm
    simpa [State.setSender] using this

theorem sinv_shrink {L : List Msg} {i : Nat} {sd sd' : Sender} (h : SInv L i sd)
    (hs : sd'.sent = sd.sent) (hpc : sd'.pc.msg? = none ∨ sd'.pc.msg? = sd.pc.msg?) : SInv L i sd' := by
  refine ⟨by rw [hs]; exact h.tags, by rw [hs]; exact h.seqs, ?_⟩
  rw [hs]
  rcases hpc with hp | hp
  · have : inflight sd' = [] := by simp [inflight, hp]
    rw [this, List.append_nil]
    exact (List.sublist_append_left _ _).trans h.sub
  · have : inflight sd' = inflight sd := by simp [inflight, hp]
    rw [this]; exact h.sub

theorem sinv_start {L : List Msg} {i : Nat} {sd : Sender} {v : Int} {c : Bool} {pc : SPc} (h : SInv L i sd)
    (hidle : sd.pc = .idle) (hpc : pc.msg? = some ⟨i, sd.sent.length, v⟩) :
    SInv L i { pc := pc, ctx := c, sent := sd.sent ++ [⟨i, sd.sent.length, v⟩] } := by
  refine ⟨?_, ?_, ?_⟩
  · intro m hm
    simp only [List.mem_append, List.mem_singleton] at hm
    rcases hm with hm | hm
    · exact h.tags m hm
    · subst hm; rfl
  · simp [List.range_succ, h.seqs]
  · have h0 : inflight sd = [] := by simp [inflight, hidle, SPc.msg?]
    have hs := h.sub
    rw [h0, List.append_nil] at hs
    simp only [inflight, hpc]
    exact List.Sublist.append hs (List.Sublist.refl _)

/-- The message in flight carries its sender's index. -/
theorem inflight_sender {L : List Msg} {i : Nat} {sd : Sender} {m : Msg} (h : SInv L i sd)
    (hm : sd.pc.msg? = some m) : m.sender = i := by
  apply h.tags
  apply h.sub.subset
  simp [inflight, hm]

/-- Appending the message in flight of sender `i` to the committed list, sender `i` going idle. -/
theorem sinv_commit_self {L : List Msg} {i : Nat} {sd sd' : Sender} {m : Msg} (h : SInv L i sd)
    (hm : sd.pc.msg? = some m) (hs : sd'.sent = sd.sent) (hpc : sd'.pc.msg? = none) :
    SInv (L ++ [m]) i sd' := by
  have hmi := inflight_sender h hm
  refine ⟨by rw [hs]; exact h.tags, by rw [hs]; exact h.seqs, ?_⟩
  have h1 : inflight sd' = [] := by simp [inflight, hpc]
  have h2 : inflight sd = [m] := by simp [inflight, hm]
  rw [hs, h1, List.append_nil, ofSender_append]
  have : ofSender i [m] = [m] := by rw [← hmi]; exact ofSender_single_self m
  rw [this]
  have := h.sub
  rwa [h2] at this

theorem sinv_commit_other {L : List Msg} {j : Nat} {sdj : Sender} {m : Msg} (h : SInv L j sdj)
    (hne : m.sender ≠ j) : SInv (L ++ [m]) j sdj := by
  refine ⟨h.tags, h.seqs, ?_⟩
  rw [ofSender_append, ofSender_single_ne hne, List.append_nil]
  exact h.sub

/-- A table without `send` arm does not offer, and firing `.send` from the other tables returns. -/
theorem after_send_idle {pc : SPc} {ch : String} (hT1 : noSendArm trySendArms1 = true)
    (htab : (tableOf pc).contains (.send ch) = true) : (pc.after (.send ch)).msg? = none := by
  cases pc with
  | idle => simp [tableOf] at htab
  | try1 m =>
    exfalso
    simp only [tableOf] at htab
    have := List.all_eq_true.mp hT1 (.send ch) (by simpa using htab)
    simp at this
  | send m p => unfold SPc.after; split <;> simp [SPc.fallThrough, SPc.msg?]
  | try2 m => unfold SPc.after; split <;> simp [SPc.fallThrough, SPc.msg?]

/-- The committed list grows by the message in flight of sender `i`; the other components of the
state (apart from the ghost acknowledgement logs and the receiver's pc) are those of `st`. -/
theorem inv_commit {st st' : State} {i : Nat} {sd : Sender} {m : Msg} {pc' : SPc} (h : Inv st)
    (hsd : st.senders[i]? = some sd) (hm : sd.pc.msg? = some m) (hpc : pc'.msg? = none)
    (hsenders : st'.senders = st.senders.set i { sd with pc := pc' })
    (hL : st'.delivered ++ st'.buf = (st.delivered ++ st.buf) ++ [m])
    (hcap : st'.buf.length ≤ st'.cap)
    (hheld : ∀ x ∈ st'.ackedBC, x ∈ st'.delivered ∨ x ∈ st'.buf)
    (hdrain : st'.rpc = .drain → st'.senderDone = true)
    (hack : st'.acked = st.acked ++ [m]) : Inv st' := by
  have hi := h.snd i sd hsd
  have hmi := inflight_sender hi hm
  have hlt : i < st.senders.length := by
    have := (List.getElem?_eq_some_iff.mp hsd).1
    exact this
  refine ⟨hcap, ?_, ?_, hheld, hdrain, by rw [hL, hack, h.fifoAck]⟩
  · intro j sdj hj
    rw [hL]
    rw [hsenders, List.getElem?_set] at hj
    split at hj
    · rename_i hij
      subst hij
      simp at hj
      subst hj
      exact sinv_commit_self hi hm rfl hpc
    · rename_i hij
      exact sinv_commit_other (h.snd j sdj hj) (by rw [hmi]; exact hij)
  · intro x hx
    rw [hL] at hx
    rw [hsenders, List.length_set]
    simp only [List.mem_append, List.mem_singleton] at hx
    rcases hx with hx | hx
    · exact h.rng x (by simpa using hx)
    · subst hx; rw [hmi]; exact hlt

theorem mem_commit_ackedBC {st : State} {m x : Msg} (h : x ∈ (commit st m).ackedBC) :
    x ∈ st.ackedBC ∨ x = m := by
  unfold commit at h
  by_cases hd : st.senderDone = true
  · simp [hd] at h; exact Or.inl h
  · simp [hd] at h; exact h

theorem canHandoff_facts {st : State} {sd : Sender} (h : canHandoff st sd = true) :
    st.cap = 0 ∧ (tableOf sd.pc).contains (.send chData) = true ∧ accepts st = true := by
  simp [canHandoff, offers] at h
  exact ⟨h.1.1.1, by simpa using h.1.1.2, h.1.2⟩

/-- `Inv` is preserved by every step. The only fact about the regenerated tables it needs: the first
`select` of `TrySend` has no `send` arm (otherwise a value could enter the channel twice). -/
theorem inv_step {st st' : State} {l : Label} (hT1 : noSendArm trySendArms1 = true)
    (h : Inv st) (hs : step st l = some st') : Inv st' := by
  cases l with
  | startSend i v c =>
    obtain ⟨sd, hsd, hidle, rfl⟩ := step_startCall (by simpa [step] using hs)
    exact inv_setSender h hsd (sinv_start (h.snd i sd hsd) hidle (by simp [SPc.msg?]))
  | startTry i v c =>
    obtain ⟨sd, hsd, hidle, rfl⟩ := step_startCall (by simpa [step] using hs)
    exact inv_setSender h hsd (sinv_start (h.snd i sd hsd) hidle (by simp [SPc.msg?]))
  | startNext c =>
    simp only [step] at hs
    split at hs
    · rename_i hc
      simp at hs; subst hs
      exact ⟨h.cap, h.snd, h.rng, h.held, by simp, h.fifoAck⟩
    · simp at hs
  | cancelSender i =>
    obtain ⟨sd, hsd, rfl⟩ := step_cancelSender hs
    exact inv_setSender h hsd (sinv_shrink (h.snd i sd hsd) rfl (Or.inr rfl))
  | cancelNext =>
    simp only [step] at hs
    split at hs
    · simp at hs
    · simp at hs; subst hs
      exact ⟨h.cap, h.snd, h.rng, h.held, h.drain, h.fifoAck⟩
  | closeSender e =>
    simp only [step] at hs
    split at hs
    · simp at hs
    · simp at hs; subst hs
      exact ⟨h.cap, h.snd, h.rng, h.held, by simp, h.fifoAck⟩
  | closeRecv =>
    simp only [step] at hs
    split at hs
    · simp at hs; subst hs
      exact ⟨h.cap, h.snd, h.rng, h.held, h.drain, h.fifoAck⟩
    · simp at hs
  | sender i a =>
    obtain ⟨sd, m, hsd, hm, htab, hcase⟩ := step_sender hs
    rcases hcase with ⟨rfl, _⟩ | ⟨ch, rfl, hr, rfl⟩
    · exact inv_setSender h hsd (sinv_shrink (h.snd i sd hsd) rfl (by
        rcases after_msg sd.pc a with h1 | h1
        · exact Or.inl h1
        · exact Or.inr h1))
    · have hlen : st.buf.length < st.cap := by
        simp [sReady] at hr; exact hr.2
      apply inv_commit h hsd hm (after_send_idle hT1 htab) (pc' := sd.pc.after (.send ch))
      · simp [commit, State.setSender]
      · simp [commit, State.setSender]
      · simp [commit, State.setSender]; omega
      · intro x hx
        have hx' : x ∈ st.ackedBC ∨ x = m := mem_commit_ackedBC (st := st.setSender i _) hx
        show x ∈ st.delivered ∨ x ∈ st.buf ++ [m]
        rcases hx' with hx' | hx'
        · rcases h.held x hx' with h1 | h1
          · exact Or.inl h1
          · exact Or.inr (by simp [h1])
        · exact Or.inr (by simp [hx'])
      · simpa [commit, State.setSender] using h.drain
      · simp [commit, State.setSender]
  | handoff i =>
    obtain ⟨sd, m, hsd, hm, hc, rfl⟩ := step_handoff hs
    obtain ⟨hcap0, htab, _⟩ := canHandoff_facts hc
    have hbuf : st.buf = [] := by
      have := h.cap
      rw [hcap0] at this
      exact List.eq_nil_of_length_eq_zero (by omega)
    apply inv_commit h hsd hm (after_send_idle hT1 htab) (pc' := sd.pc.after (.send chData))
    · simp [commit, State.setSender]
    · simp [commit, State.setSender, hbuf]
    · simp [commit, State.setSender, hbuf]
    · intro x hx
      have hx' : x ∈ st.ackedBC ∨ x = m := mem_commit_ackedBC (st := st.setSender i _) hx
      show x ∈ st.delivered ++ [m] ∨ x ∈ st.buf
      rcases hx' with hx' | hx'
      · rcases h.held x hx' with h1 | h1
        · exact Or.inl (by simp [h1])
        · exact Or.inr h1
      · exact Or.inl (by simp [hx'])
    · simp [commit, State.setSender]
    · simp [commit, State.setSender]
  | park i =>
    obtain ⟨sd, m, hsd, hpc, _, rfl⟩ := step_park hs
    exact inv_setSender h hsd (sinv_shrink (h.snd i sd hsd) rfl (Or.inr (by simp [hpc, SPc.msg?])))
  | parkRecv =>
    obtain ⟨_, _, rfl⟩ := step_parkRecv hs
    exact ⟨h.cap, h.snd, h.rng, h.held, by simp, h.fifoAck⟩
  | recv a =>
    obtain ⟨_, hcase⟩ := step_recv hs
    rcases hcase with ⟨m, rest, _, hbuf, rfl⟩ | ⟨_, hsd, _, _, rfl⟩ | ⟨_, _, _, rfl⟩ | ⟨ch, _, _, _, rfl⟩ | ⟨_, _, _, rfl⟩
    · have hL : st.delivered ++ [m] ++ rest = st.delivered ++ st.buf := by simp [hbuf]
      refine ⟨?_, ?_, ?_, ?_, by simp, by rw [← h.fifoAck, hbuf]; simp⟩
      · have := h.cap; simp [hbuf] at this ⊢; omega
      · intro j sdj hj
        show SInv (st.delivered ++ [m] ++ rest) j sdj
        rw [hL]; exact h.snd j sdj hj
      · intro x hx
        have : x ∈ st.delivered ++ st.buf := by rw [← hL]; exact hx
        exact h.rng x this
      · intro x hx
        rcases h.held x hx with h1 | h1
        · exact Or.inl (by simp [h1])
        · rw [hbuf] at h1
          simp only [List.mem_cons] at h1
          rcases h1 with h1 | h1
          · exact Or.inl (by simp [h1])
          · exact Or.inr h1
    · exact ⟨h.cap, h.snd, h.rng, h.held, fun _ => hsd, h.fifoAck⟩
    · exact ⟨h.cap, h.snd, h.rng, h.held, by simp [reportEnd], h.fifoAck⟩
    · exact ⟨h.cap, h.snd, h.rng, h.held, by simp, h.fifoAck⟩
    · exact ⟨h.cap, h.snd, h.rng, h.held, by simp [reportEnd], h.fifoAck⟩

theorem inv_reach {n b : Nat} {st : State} (hT1 : noSendArm trySendArms1 = true)
    (hr : Reach (init n b) st) : Inv st := by
  induction hr with
  | refl => exact inv_init n b
  | step _ hs ih => exact inv_step hT1 ih hs

end Juniper.Proofs.Pipe
