import Juniper.Proofs.TreeGet
/-!
# The ideal sorted map is a map (C01): `sget` after `sput`

`sput` / `serase` / `sget` (`Proofs/TreeSpec.lean`) are the specification `history_refines` compares the
B-tree with. These lemmas say that the specification itself behaves as the property text says: a
lookup under a key *equivalent* to the one put sees the value put; a lookup under any other key is
not affected.
-/
namespace Juniper.Proofs.Tree
open Juniper.Model.BTree

variable {K V : Type} {cmp : K → K → Int}

theorem sget_sput_same_aux (hc : StrictWeak cmp) {k k' : K} (v : V) (he : cmp k' k = 0) :
    ∀ L : List (K × V), (sget cmp k' (sput cmp k v L)).map (·.2) = some v
  | [] => by simp [sput, sget, he]
  | (a, va) :: rest => by
    unfold sput
    by_cases h1 : cmp k a < 0
    · simp [h1, sget, he]
    · by_cases h2 : cmp k a = 0
      · have h3 : cmp k' a = 0 := hc.eq_trans he h2
        simp [h1, h2, sget, h3]
      · have h3 : 0 < cmp k a := by omega
        have h4 : 0 < cmp k' a := hc.gt_of_eq_of_gt he h3
        have h5 : ¬ cmp k' a < 0 := by omega
        have h6 : ¬ cmp k' a = 0 := by omega
        simp only [h1, h2, if_false, sget, h5, h6]
        exact sget_sput_same_aux hc v he rest

theorem sget_sput_other_aux (hc : StrictWeak cmp) {k k' : K} (v : V) (hne : cmp k' k ≠ 0) :
    ∀ L : List (K × V), sget cmp k' (sput cmp k v L) = sget cmp k' L
  | [] => by
    by_cases h : cmp k' k < 0
    · simp [sput, sget, h]
    · simp [sput, sget, h, hne]
  | (a, va) :: rest => by
    unfold sput
    by_cases h1 : cmp k a < 0
    · simp only [h1, if_true]
      by_cases h : cmp k' k < 0
      · have : cmp k' a < 0 := hc.lt_trans h h1
        simp [sget, h, this]
      · simp [sget, h, hne]
    · by_cases h2 : cmp k a = 0
      · simp only [h1, h2, if_false, if_true]
        have h3 : cmp k' a ≠ 0 := fun e => hne (hc.eq_trans e (hc.eq_symm h2))
        by_cases h4 : cmp k' a < 0
        · simp [sget, h4]
        · simp [sget, h4, h3]
      · simp only [h1, h2, if_false]
        by_cases h4 : cmp k' a < 0
        · simp [sget, h4]
        · by_cases h5 : cmp k' a = 0
          · simp [sget, h4, h5]
          · simp only [sget, h4, h5, if_false]
            exact sget_sput_other_aux hc v hne rest

end Juniper.Proofs.Tree

namespace Juniper.Proofs.Tree
open Juniper.Model.BTree Juniper.Gen.Tree

/-- a coarse order on `Int`: keys are equivalent when they agree up to the last decimal digit
(equivalent ≠ equal; used by the non-vacuity examples of `Props/C01.lean`) -/
def coarse (a b : Int) : Int := a / 10 - b / 10

theorem coarse_strictWeak : StrictWeak coarse :=
  ⟨by intro a b; unfold coarse; omega, by intro a b c; unfold coarse; omega⟩

/-- a well-formed tree holding more than `maxKVs` entries has at least two levels -/
theorem height_pos_of_large {K V : Type} {cmp : K → K → Int} {t : Tree K V} (hw : WF cmp t)
    (hl : maxKVs < ((toList t.root).length : Int)) : 0 < height t.root := by
  obtain ⟨h, hbal, hmax, hroot⟩ := hw.bal
  rw [height_of_bal _ h hbal]
  cases h with
  | succ h => omega
  | zero =>
    exfalso
    cases hr : t.root with
    | mk id kvs kids =>
      rw [hr] at hbal hmax hl
      have := bal_zero.mp hbal
      subst this
      rw [toList_leaf] at hl
      simp only [node_n] at hmax
      omega

end Juniper.Proofs.Tree
