import Juniper.Proofs.HelpersBasic
import Juniper.Model.HelpersSort
/-! `xmaps`: finite maps as association lists, sets as lists (C19). -/
namespace Juniper.Proofs.Helpers
open Juniper.Model.Helpers Juniper.Spec.Helpers Juniper.Gen.Helpers

variable {κ ν : Type} [DecidableEq κ]

theorem mget_nil (k : κ) : mget ([] : List (κ × ν)) k = none := rfl

theorem mget_cons (p : κ × ν) (m : List (κ × ν)) (k : κ) :
    mget (p :: m) k = if p.1 = k then some p.2 else mget m k := by
  unfold mget
  rw [List.find?_cons]
  by_cases h : p.1 = k <;> simp [h]

theorem mget_filter_of (m : List (κ × ν)) (k' : κ) (q : κ × ν → Bool) (hq : ∀ p, p.1 = k' → q p = true) :
    mget (m.filter q) k' = mget m k' := by
  induction m with
  | nil => rfl
  | cons p m ih =>
    rw [List.filter_cons]
    by_cases hp : p.1 = k'
    · rw [if_pos (hq p hp), mget_cons, mget_cons, if_pos hp, if_pos hp]
    · by_cases hqp : q p = true
      · rw [if_pos hqp, mget_cons, mget_cons, if_neg hp, if_neg hp, ih]
      · rw [if_neg hqp, mget_cons, if_neg hp, ih]

theorem mget_mput (m : List (κ × ν)) (k k' : κ) (v : ν) :
    mget (mput m k v) k' = if k' = k then some v else mget m k' := by
  unfold mput
  rw [mget_cons]
  by_cases h : k' = k
  · subst h; simp
  · have h' : ¬ k = k' := fun e => h e.symm
    rw [if_neg h', if_neg h]
    apply mget_filter_of
    intro p hp
    simp only [ne_eq, decide_eq_true_eq]
    intro e; exact h (hp ▸ e)

theorem mget_some_mem {m : List (κ × ν)} {k : κ} {v : ν} (h : mget m k = some v) : (k, v) ∈ m := by
  induction m with
  | nil => simp [mget_nil] at h
  | cons p m ih =>
    rw [mget_cons] at h
    by_cases hp : p.1 = k
    · simp [hp] at h; simp [← hp, ← h]
    · simp [hp] at h; exact List.mem_cons_of_mem _ (ih h)

theorem mget_isSome_iff (m : List (κ × ν)) (k : κ) : (mget m k).isSome = true ↔ ∃ v, (k, v) ∈ m := by
  induction m with
  | nil => simp [mget_nil]
  | cons p m ih =>
    rw [mget_cons]
    by_cases hp : p.1 = k
    · simp only [hp, ↓reduceIte, Option.isSome_some, List.mem_cons, true_iff]
      exact ⟨p.2, Or.inl (by rw [← hp])⟩
    · simp only [hp, ↓reduceIte, ih, List.mem_cons]
      constructor
      · rintro ⟨v, hv⟩; exact ⟨v, Or.inr hv⟩
      · rintro ⟨v, hv | hv⟩
        · exact absurd (congrArg Prod.fst hv).symm hp
        · exact ⟨v, hv⟩

/-! ## Reverse -/

omit [DecidableEq κ] in
theorem rs_flag (ok : Bool) (o : Option κ) : (if rsDup o.isSome then rsDupVal else ok) = (ok && o.isNone) := by
  cases o <;> cases ok <;> rfl

omit [DecidableEq κ] in
theorem fkv_flag (ok : Bool) (o : Option ν) : (if fkvDup o.isSome then fkvDupVal else ok) = (ok && o.isNone) := by
  cases o <;> cases ok <;> rfl

theorem mapReverse_spec [DecidableEq ν] (m : List (κ × ν)) (k : κ) (v : ν) :
    k ∈ (mget (mapReverse m) v).getD [] ↔ (k, v) ∈ m := by
  induction m with
  | nil => simp [mapReverse, mget_nil]
  | cons p m ih =>
    obtain ⟨k0, v0⟩ := p
    simp only [mapReverse, mapRevBody, ↓reduceIte, mget_mput, List.mem_cons, Prod.mk.injEq]
    by_cases hv : v = v0
    · subst hv; simp [ih]
    · simp [hv, ih]

/-! ## ReverseSingle -/

theorem mapReverseSingle_spec [DecidableEq ν] (m : List (κ × ν)) :
    (∀ v k, mget (mapReverseSingle m).1 v = some k → (k, v) ∈ m) ∧
    (∀ v, (mget (mapReverseSingle m).1 v).isSome = true ↔ ∃ k, (k, v) ∈ m) ∧
    ((mapReverseSingle m).2 = true ↔ (m.map Prod.snd).Nodup) := by
  induction m with
  | nil => simp [mapReverseSingle, mget_nil, rsOk0]
  | cons p m ih =>
    obtain ⟨k0, v0⟩ := p
    obtain ⟨ih1, ih2, ih3⟩ := ih
    simp only [mapReverseSingle, rsBody, ↓reduceIte, rs_flag]
    refine ⟨?_, ?_, ?_⟩
    · intro v k h
      rw [mget_mput] at h
      by_cases hv : v = v0
      · simp [hv] at h; simp [hv, h]
      · simp [hv] at h; exact List.mem_cons_of_mem _ (ih1 v k h)
    · intro v
      rw [mget_mput]
      by_cases hv : v = v0
      · simp only [hv, ↓reduceIte, Option.isSome_some, List.mem_cons, Prod.mk.injEq, and_true, true_iff]
        exact ⟨k0, Or.inl rfl⟩
      · simp only [hv, ↓reduceIte, ih2, List.mem_cons, Prod.mk.injEq, and_false, false_or]
    · simp only [Bool.and_eq_true, ih3, List.map_cons, List.nodup_cons, List.mem_map]
      have : (mget (mapReverseSingle m).1 v0).isNone = true ↔ ¬ ∃ a, a ∈ m ∧ a.2 = v0 := by
        have key := ih2 v0
        cases hget : mget (mapReverseSingle m).1 v0 with
        | none =>
          simp only [hget, Option.isSome_none, Bool.false_eq_true, false_iff, not_exists] at key
          simp only [Option.isNone_none, true_iff, not_exists, not_and]
          intro a ha hv
          exact key a.1 (by rw [← hv]; exact ha)
        | some k =>
          simp only [hget, Option.isSome_some, true_iff] at key
          obtain ⟨k', hk'⟩ := key
          simp only [Option.isNone_some, Bool.false_eq_true, false_iff]
          exact fun hn => hn ⟨(k', v0), hk', rfl⟩
      rw [this]
      exact And.comm

/-! ## ToIndex -/

theorem toIndexFrom_spec (hb : toIndexBody = ["m[keys[i]] = i"]) (i : Nat) (ks : List κ) (m : List (κ × Nat)) (k : κ) :
    (k ∉ ks → mget (toIndexFrom i ks m) k = mget m k) ∧
    (k ∈ ks → ∃ j : Nat, mget (toIndexFrom i ks m) k = some (i + j) ∧ ks[j]? = some k ∧ ∀ j', j < j' → ks[j']? ≠ some k) := by
  induction ks generalizing i m with
  | nil => simp [toIndexFrom]
  | cons x xs ih =>
    simp only [toIndexFrom, if_pos hb]
    obtain ⟨ih1, ih2⟩ := ih (i + 1) (mput m x i)
    refine ⟨?_, ?_⟩
    · intro hk
      simp only [List.mem_cons, not_or] at hk
      rw [ih1 hk.2, mget_mput]; simp [hk.1]
    · intro hk
      by_cases hxs : k ∈ xs
      · obtain ⟨j, h1, h2, h3⟩ := ih2 hxs
        refine ⟨j + 1, by rw [h1]; congr 1; omega, by simpa using h2, ?_⟩
        intro j' hj'
        cases j' with
        | zero => omega
        | succ j'' => simpa using h3 j'' (by omega)
      · have hkx : k = x := by
          rcases List.mem_cons.mp hk with h | h
          · exact h
          · exact absurd h hxs
        refine ⟨0, ?_, by simp [hkx], ?_⟩
        · rw [ih1 hxs, mget_mput]; simp [hkx]
        · intro j' hj'
          cases j' with
          | zero => omega
          | succ j'' =>
            simp only [List.getElem?_cons_succ]
            intro h
            exact hxs (List.mem_of_getElem? h)

theorem toIndex_spec (keys : List κ) (k : κ) :
    (k ∉ keys → mget (toIndex keys) k = none) ∧
    (k ∈ keys → ∃ j : Nat, mget (toIndex keys) k = some j ∧ keys[j]? = some k ∧ ∀ j', j < j' → keys[j']? ≠ some k) := by
  have := toIndexFrom_spec rfl 0 keys [] k      -- the loop body is `m[keys[i]] = i`
  simp only [Nat.zero_add, mget_nil] at this
  exact this

/-! ## FromKeysAndValues -/

theorem fromKVLoop_get (hb : fkvBody = ["if ok {", "allOk = false", "}", "m[keys[i]] = values[i]"]) (ks : List κ) (vs : List ν) (m : List (κ × ν)) (ok : Bool) (hl : ks.length = vs.length) (k : κ) :
    (k ∉ ks → mget (fromKVLoop ks vs m ok).1 k = mget m k) ∧
    (k ∈ ks → ∃ (j : Nat) (v : ν), mget (fromKVLoop ks vs m ok).1 k = some v ∧ ks[j]? = some k ∧ vs[j]? = some v) := by
  induction ks generalizing vs m ok with
  | nil =>
    cases vs with
    | nil => simp [fromKVLoop]
    | cons _ _ => simp at hl
  | cons x xs ih =>
    cases vs with
    | nil => simp at hl
    | cons v vs =>
      simp only [List.length_cons, Nat.add_right_cancel_iff] at hl
      simp only [fromKVLoop, if_pos hb, fkv_flag]
      obtain ⟨ih1, ih2⟩ := ih vs (mput m x v) (ok && (mget m x).isNone) hl
      refine ⟨?_, ?_⟩
      · intro hk
        simp only [List.mem_cons, not_or] at hk
        rw [ih1 hk.2, mget_mput]; simp [hk.1]
      · intro hk
        by_cases hxs : k ∈ xs
        · obtain ⟨j, w, h1, h2, h3⟩ := ih2 hxs
          refine ⟨j + 1, w, h1, ?_, ?_⟩
          · simpa using h2
          · simpa using h3
        · have hkx : k = x := by
            rcases List.mem_cons.mp hk with h | h
            · exact h
            · exact absurd h hxs
          refine ⟨0, v, ?_, by simp [hkx], by simp⟩
          rw [ih1 hxs, mget_mput]; simp [hkx]

theorem fromKVLoop_ok (hb : fkvBody = ["if ok {", "allOk = false", "}", "m[keys[i]] = values[i]"]) (ks : List κ) (vs : List ν) (m : List (κ × ν)) (ok : Bool) (hl : ks.length = vs.length) :
    ((fromKVLoop ks vs m ok).2 = true ↔ ok = true ∧ ks.Nodup ∧ ∀ x ∈ ks, mget m x = none) := by
  induction ks generalizing vs m ok with
  | nil =>
    cases vs with
    | nil => simp [fromKVLoop]
    | cons _ _ => simp at hl
  | cons x xs ih =>
    cases vs with
    | nil => simp at hl
    | cons v vs =>
      simp only [List.length_cons, Nat.add_right_cancel_iff] at hl
      simp only [fromKVLoop, if_pos hb, fkv_flag]
      rw [ih vs (mput m x v) (ok && (mget m x).isNone) hl]
      simp only [Bool.and_eq_true, List.nodup_cons, List.mem_cons, forall_eq_or_imp, Option.isNone_iff_eq_none]
      constructor
      · rintro ⟨⟨h1, h2⟩, h3, h4⟩
        refine ⟨h1, ⟨?_, h3⟩, h2, ?_⟩
        · intro hx
          have := h4 x hx
          rw [mget_mput] at this; simp at this
        · intro y hy
          have := h4 y hy
          rw [mget_mput] at this
          by_cases hyx : y = x
          · simp [hyx] at this
          · simpa [hyx] using this
      · rintro ⟨h1, ⟨h2, h3⟩, h4, h5⟩
        refine ⟨⟨h1, h4⟩, h3, ?_⟩
        intro y hy
        rw [mget_mput]
        have : y ≠ x := fun e => h2 (e ▸ hy)
        simp [this, h5 y hy]

theorem fromKeysAndValues_spec (keys : List κ) (values : List ν) :
    (fromKeysAndValues keys values = none ↔ keys.length ≠ values.length) ∧
    (∀ m ok, fromKeysAndValues keys values = some (m, ok) →
      (ok = true ↔ keys.Nodup) ∧
      (∀ k, k ∉ keys → mget m k = none) ∧
      (∀ k, k ∈ keys → ∃ (j : Nat) (v : ν), mget m k = some v ∧ keys[j]? = some k ∧ values[j]? = some v)) := by
  unfold fromKeysAndValues
  have hp : fkvPanics keys.length values.length = decide (keys.length ≠ values.length) := by
    simp only [fkvPanics, ne_eq, decide_not, Int.natCast_inj]
  rw [hp, show fkvOk0 = true from rfl]
  simp only [decide_eq_true_eq]
  by_cases hl : keys.length = values.length
  · simp only [hl, ne_eq, not_true_eq_false, ↓reduceIte, reduceCtorEq, Option.some.injEq, true_and]
    intro m ok h
    have hm : m = (fromKVLoop keys values [] true).1 := by rw [h]
    have hok : ok = (fromKVLoop keys values [] true).2 := by rw [h]
    subst hm hok
    refine ⟨?_, ?_, ?_⟩
    · rw [fromKVLoop_ok rfl keys values [] true hl]
      simp [mget_nil]
    · intro k hk; have := (fromKVLoop_get rfl keys values [] true hl k).1 hk; simpa [mget_nil] using this
    · intro k hk; exact (fromKVLoop_get rfl keys values [] true hl k).2 hk
  · simp [hl]


/-! ## the inner loop of `Intersection` / `Intersects` -/

/-- `missScan` with the mirrored pieces (`j < len(sets)`, `!ok`, `include = false; break`, `j++`):
`include` survives iff `k` is in every set from index `j` on; no index panic, the fuel suffices. -/
theorem missScan_spec (loop : Int → Int → Bool) (miss : Bool → Bool) (missVal breaks : Bool) (incs : Nat)
    (hl : ∀ j n, loop j n = decide (j < n)) (hm : ∀ b, miss b = !b) (hv : missVal = false) (hb : breaks = true)
    (hi : incs = 1) (k : κ) (sets : List (List κ)) :
    ∀ (fuel j : Nat) (inc : Bool), j ≤ sets.length → sets.length - j < fuel →
      missScan loop miss missVal breaks incs k sets fuel (j : Int) inc =
        some (inc && (sets.drop j).all (fun t => decide (k ∈ t))) := by
  subst hv hb hi
  intro fuel
  induction fuel with
  | zero => intro j inc _ hf; omega
  | succ fuel ih =>
    intro j inc hj hf
    simp only [missScan, hl, hm, decide_eq_true_eq, Int.ofNat_lt, if_true]
    by_cases hlt : j < sets.length
    · rw [if_pos hlt, getI_of_lt sets j hlt]
      simp only
      have hd : sets.drop j = sets[j] :: sets.drop (j + 1) := List.drop_eq_getElem_cons hlt
      by_cases hk : k ∈ sets[j]
      · have : ((j : Int) + ((1 : Nat) : Int)) = ((j + 1 : Nat) : Int) := by omega
        simp only [hk, decide_true, Bool.not_true, Bool.false_eq_true, if_false, this]
        rw [ih (j + 1) inc (by omega) (by omega), hd, List.all_cons]
        simp only [hk, decide_true, Bool.true_and]
      · simp only [hk, decide_false, Bool.not_false, if_true]
        rw [hd, List.all_cons]
        simp only [hk, decide_false, Bool.false_and, Bool.and_false]
    · rw [if_neg hlt]
      have : sets.drop j = [] := List.drop_eq_nil_of_le (by omega)
      simp [this]

/-! ## Sets -/

theorem mem_foldl_insert (set out : List κ) (x : κ) :
    x ∈ set.foldl (fun out k => if k ∈ out then out else out ++ [k]) out ↔ x ∈ out ∨ x ∈ set := by
  induction set generalizing out with
  | nil => simp
  | cons k ks ih =>
    simp only [List.foldl_cons, ih, List.mem_cons]
    by_cases hk : k ∈ out
    · simp only [hk, ↓reduceIte]
      constructor
      · rintro (h | h); exact Or.inl h; exact Or.inr (Or.inr h)
      · rintro (h | h | h); exact Or.inl h; exact Or.inl (h ▸ hk); exact Or.inr h
    · simp only [hk, ↓reduceIte, List.mem_append, List.mem_singleton]
      constructor
      · rintro ((h | h) | h); exact Or.inl h; exact Or.inr (Or.inl h); exact Or.inr (Or.inr h)
      · rintro (h | h | h); exact Or.inl (Or.inl h); exact Or.inl (Or.inr h); exact Or.inr h

theorem mem_setUnion_aux (sets : List (List κ)) (out : List κ) (x : κ) :
    x ∈ sets.foldl (fun out set => set.foldl (fun out k => if k ∈ out then out else out ++ [k]) out) out ↔
      x ∈ out ∨ ∃ s ∈ sets, x ∈ s := by
  induction sets generalizing out with
  | nil => simp
  | cons s ss ih =>
    simp only [List.foldl_cons, ih, mem_foldl_insert, List.mem_cons, exists_eq_or_imp]
    constructor
    · rintro ((h | h) | h); exact Or.inl h; exact Or.inr (Or.inl h); exact Or.inr (Or.inr h)
    · rintro (h | h | h); exact Or.inl (Or.inl h); exact Or.inl (Or.inr h); exact Or.inr h

theorem mem_setUnion (sets : List (List κ)) (x : κ) : x ∈ setUnion sets ↔ ∃ s ∈ sets, x ∈ s := by
  unfold setUnion
  simp only [unionBody, ↓reduceIte]      -- the body of the outer loop is the inner `for k := range set` loop
  rw [mem_setUnion_aux]; simp

omit [DecidableEq κ] in
theorem mem_insertBySize (s : List κ) (ts : List (List κ)) (t : List κ) :
    t ∈ insertBySize s ts ↔ t = s ∨ t ∈ ts := by
  induction ts with
  | nil => simp [insertBySize]
  | cons u us ih =>
    simp only [insertBySize]
    split
    · simp
    · simp only [List.mem_cons, ih]
      constructor
      · rintro (h | h | h); exact Or.inr (Or.inl h); exact Or.inl h; exact Or.inr (Or.inr h)
      · rintro (h | h | h); exact Or.inr (Or.inl h); exact Or.inl h; exact Or.inr (Or.inr h)

omit [DecidableEq κ] in
theorem mem_sortBySize (sets : List (List κ)) (t : List κ) : t ∈ sortBySize sets ↔ t ∈ sets := by
  induction sets with
  | nil => simp [sortBySize]
  | cons s ss ih =>
    simp only [sortBySize, List.foldr_cons, List.mem_cons] at *
    rw [mem_insertBySize, ih]

theorem interKeys_spec (sorted : List (List κ)) (P : κ → Bool)
    (hinc : ∀ k, interInclude k sorted = some (P k)) (hst : ∀ b, interStores b = b) :
    ∀ ks, interKeys sorted ks = some (ks.filter P) := by
  intro ks
  induction ks with
  | nil => rfl
  | cons k ks ih =>
    simp only [interKeys, hinc, ih, hst, List.filter_cons]

theorem intsKeys_spec (sorted : List (List κ)) (P : κ → Bool)
    (hinc : ∀ k, intsInclude k sorted = some (P k)) (hh : ∀ b, intsHit b = b) (ht : intsHitRet = true)
    (he : intsEndRet = false) :
    ∀ ks, intsKeys sorted ks = some (ks.any P) := by
  intro ks
  induction ks with
  | nil => simp [intsKeys, he]
  | cons k ks ih =>
    simp only [intsKeys, hinc, ih, hh, ht, List.any_cons]
    cases P k <;> simp

/-- `Intersection` never panics and returns exactly the common members. -/
theorem mem_setIntersection (sets : List (List κ)) :
    ∃ r, setIntersection sets = some r ∧ ∀ x, x ∈ r ↔ sets ≠ [] ∧ ∀ s ∈ sets, x ∈ s := by
  -- the model, through the regenerated pieces of `xmaps.Intersection` (guards, `j := 1`, `j < len(sets)`,
  -- `j++`, `include = false; break`, `if include`, the sort by size)
  have heq : setIntersection sets = some (match sortBySize sets with
      | [] => []
      | s0 :: rest => s0.filter (fun k => rest.all (fun t => decide (k ∈ t)))) := by
    unfold setIntersection
    cases sets with
    | nil => rfl
    | cons a as =>
      have : interEmpty ((a :: as).length : Int) = false := by
        simp only [interEmpty, List.length_cons, decide_eq_false_iff_not]; omega
      rw [this]
      simp only [Bool.false_eq_true, ↓reduceIte, interSortsBySize]
      cases sortBySize (a :: as) with
      | nil => rfl
      | cons s0 rest =>
        simp only
        refine interKeys_spec (s0 :: rest) _ (fun k => ?_) (fun _ => rfl) s0
        have := missScan_spec interLoop interMiss interMissVal interMissBreaks interIncs
          (fun _ _ => rfl) (fun _ => rfl) rfl rfl rfl k (s0 :: rest) ((s0 :: rest).length + 1) 1 interInclude0
          (by simp) (by simp only [List.length_cons]; omega)
        simpa [interInclude, interJ0, interInclude0] using this
  refine ⟨_, heq, fun x => ?_⟩
  have hm := mem_sortBySize sets
  cases hs : sortBySize sets with
  | nil =>
    have : sets = [] := by
      cases sets with
      | nil => rfl
      | cons a _ => have := (hm a).mpr (List.mem_cons_self ..); rw [hs] at this; simp at this
    simp [this]
  | cons s0 rest =>
    rw [hs] at hm
    simp only [List.mem_filter, List.all_eq_true, decide_eq_true_eq]
    constructor
    · rintro ⟨h0, hr⟩
      refine ⟨?_, ?_⟩
      · intro he; subst he; have := (hm s0).mp (List.mem_cons_self ..); simp at this
      · intro s hs'
        rcases List.mem_cons.mp ((hm s).mpr hs') with h | h
        · exact h ▸ h0
        · exact hr s h
    · rintro ⟨_, h⟩
      exact ⟨h s0 ((hm s0).mp (List.mem_cons_self ..)), fun t ht => h t ((hm t).mp (List.mem_cons_of_mem _ ht))⟩

/-- `Intersects` never panics and answers whether the sets have a common member. -/
theorem setIntersects_iff (sets : List (List κ)) :
    ∃ b, setIntersects sets = some b ∧ (b = true ↔ sets ≠ [] ∧ ∃ x, ∀ s ∈ sets, x ∈ s) := by
  have heq : setIntersects sets = some (match sortBySize sets with
      | [] => false
      | s0 :: rest => s0.any (fun k => rest.all (fun t => decide (k ∈ t)))) := by
    unfold setIntersects
    cases sets with
    | nil => rfl
    | cons a as =>
      have : intsEmpty ((a :: as).length : Int) = false := by
        simp only [intsEmpty, List.length_cons, decide_eq_false_iff_not]; omega
      rw [this]
      simp only [Bool.false_eq_true, ↓reduceIte, intsSortsBySize]
      cases sortBySize (a :: as) with
      | nil => rfl
      | cons s0 rest =>
        simp only
        refine intsKeys_spec (s0 :: rest) _ (fun k => ?_) (fun _ => rfl) rfl rfl s0
        have := missScan_spec intsLoop intsMiss intsMissVal intsMissBreaks intsIncs
          (fun _ _ => rfl) (fun _ => rfl) rfl rfl rfl k (s0 :: rest) ((s0 :: rest).length + 1) 1 intsInclude0
          (by simp) (by simp only [List.length_cons]; omega)
        simpa [intsInclude, intsJ0, intsInclude0] using this
  refine ⟨_, heq, ?_⟩
  have hm := mem_sortBySize sets
  cases hs : sortBySize sets with
  | nil =>
    have : sets = [] := by
      cases sets with
      | nil => rfl
      | cons a _ => have := (hm a).mpr (List.mem_cons_self ..); rw [hs] at this; simp at this
    simp [this]
  | cons s0 rest =>
    rw [hs] at hm
    simp only [List.any_eq_true, List.all_eq_true, decide_eq_true_eq]
    constructor
    · rintro ⟨x, h0, hr⟩
      refine ⟨?_, x, ?_⟩
      · intro he; subst he; have := (hm s0).mp (List.mem_cons_self ..); simp at this
      · intro s hs'
        rcases List.mem_cons.mp ((hm s).mpr hs') with h | h
        · exact h ▸ h0
        · exact hr s h
    · rintro ⟨_, x, h⟩
      exact ⟨x, h s0 ((hm s0).mp (List.mem_cons_self ..)), fun t ht => h t ((hm t).mp (List.mem_cons_of_mem _ ht))⟩

theorem mem_setDifference (a b : List κ) (x : κ) : x ∈ setDifference a b ↔ x ∈ a ∧ x ∉ b := by
  simp [setDifference, diffBody, diffKeeps]

end Juniper.Proofs.Helpers
