import Juniper.Proofs.PipeInv
/-!
No call blocks forever (C10), in the form "when the return condition of a pending call holds, a
step of that call is enabled, every step of a call moves it strictly towards its return, and the
condition is stable". Scheduler fairness (an enabled step of a goroutine is eventually taken) is
trusted.
-/
namespace Juniper.Proofs.Pipe
open Juniper.Facts Juniper.Gen.Pipe Juniper.Model.Pipe

/-- How many own steps a sender call has in front of it at most (poll/park, then the arm that fires). -/
def stage : SPc → Nat
  | .idle => 0
  | .send _ true => 1
  | .send _ false => 2
  | .try2 _ => 1
  | .try1 _ => 2

/-- How many own steps `Next` has in front of it at most (`next` polling → parked → drain → returned). -/
def rstage : RPc → Nat
  | .idle => 0
  | .drain => 1
  | .next true => 2
  | .next false => 3

theorem rstage_next_ge (p : Bool) : 2 ≤ rstage (.next p) := by cases p <;> simp [rstage]

theorem stage_after_lt {pc : SPc} {m : Msg} (a : Arm) (h : pc.msg? = some m) : stage (pc.after a) < stage pc := by
  cases pc with
  | idle => simp [SPc.msg?] at h
  | send m p => cases p <;> (unfold SPc.after; split <;> simp [stage, SPc.fallThrough])
  | try1 m => unfold SPc.after; split <;> simp [stage, SPc.fallThrough]
  | try2 m => unfold SPc.after; split <;> simp [stage, SPc.fallThrough]

theorem after_parked (pc : SPc) (a : Arm) : (pc.after a).parked = false := by
  unfold SPc.after
  split
  · cases pc <;> simp [SPc.fallThrough, SPc.parked]
  · simp [SPc.parked]

/-- An arm of the `select` of `Send` always returns. -/
theorem after_send_pc (m : Msg) (p : Bool) (a : Arm) : (SPc.send m p).after a = .idle := by
  unfold SPc.after; split <;> simp [SPc.fallThrough]

/-! ### Introduction lemmas for `step` -/

theorem step_sender_recv {st : State} {i : Nat} {sd : Sender} {m : Msg} {ch : String}
    (hsd : st.senders[i]? = some sd) (hm : sd.pc.msg? = some m)
    (htab : (tableOf sd.pc).contains (.recv ch) = true) (hr : sReady st sd (.recv ch) = true) :
    step st (.sender i (.recv ch)) = some (st.setSender i { sd with pc := sd.pc.after (.recv ch) }) := by
  simp only [step, hsd, hm, htab, hr, if_true]

theorem step_sender_send {st : State} {i : Nat} {sd : Sender} {m : Msg} {ch : String}
    (hsd : st.senders[i]? = some sd) (hm : sd.pc.msg? = some m)
    (htab : (tableOf sd.pc).contains (.send ch) = true) (hr : sReady st sd (.send ch) = true) :
    step st (.sender i (.send ch)) =
      some { commit (st.setSender i { sd with pc := sd.pc.after (.send ch) }) m with buf := st.buf ++ [m] } := by
  simp only [step, hsd, hm, htab, hr, if_true]

theorem step_sender_dflt {st : State} {i : Nat} {sd : Sender} {m : Msg}
    (hsd : st.senders[i]? = some sd) (hm : sd.pc.msg? = some m)
    (htab : (tableOf sd.pc).contains .dflt = true) (hr : sDefaultReady st sd = true) :
    step st (.sender i .dflt) = some (st.setSender i { sd with pc := sd.pc.after .dflt }) := by
  simp only [step, hsd, hm, htab, hr, if_true]

theorem step_handoff_intro {st : State} {i : Nat} {sd : Sender} {m : Msg}
    (hsd : st.senders[i]? = some sd) (hm : sd.pc.msg? = some m) (hc : canHandoff st sd = true) :
    step st (.handoff i) =
      some { commit (st.setSender i { sd with pc := sd.pc.after (.send chData) }) m with
             rpc := .idle, delivered := st.delivered ++ [m] } := by
  simp only [step, hsd, hm, hc, if_true]

theorem step_park_intro {st : State} {i : Nat} {sd : Sender} {m : Msg}
    (hsd : st.senders[i]? = some sd) (hpc : sd.pc = .send m false) (hr : sDefaultReady st sd = true) :
    step st (.park i) = some (st.setSender i { sd with pc := .send m true }) := by
  simp only [step, hsd]
  rw [hpc]
  simp [hr]

theorem lt_of_getElem?_some {st : State} {i : Nat} {sd : Sender} (h : st.senders[i]? = some sd) :
    i < st.senders.length := (List.getElem?_eq_some_iff.mp h).1

theorem getElem?_setSender_self {st : State} {i : Nat} {sd sd' : Sender} (h : st.senders[i]? = some sd) :
    (st.setSender i sd').senders[i]? = some sd' := by
  simp [getElem?_setSender, lt_of_getElem?_some h]

/-- The labels that are steps of sender goroutine `i` itself. -/
def ownLabel (i : Nat) (l : Label) : Prop := l = .handoff i ∨ l = .park i ∨ ∃ a, l = .sender i a

/-- Every own step of a sender call moves it strictly towards its return; it is an arm that fires
(`pc.after a`) or the parking of a polling `Send`; the call's context flag is untouched. -/
theorem sender_step_progress {st st' : State} {i : Nat} {sd : Sender} {l : Label}
    (hsd : st.senders[i]? = some sd) (hl : ownLabel i l)
    (hs : step st l = some st') :
    ∃ sd', st'.senders[i]? = some sd' ∧ stage sd'.pc < stage sd.pc ∧ sd'.ctx = sd.ctx ∧
      ((∃ a, sd'.pc = sd.pc.after a) ∨ (∃ m, sd.pc = .send m false ∧ sd'.pc = .send m true)) := by
  rcases hl with rfl | rfl | ⟨a, rfl⟩
  · obtain ⟨sd0, m, hsd0, hm, _, rfl⟩ := step_handoff hs
    rw [hsd] at hsd0; cases hsd0
    exact ⟨_, getElem?_setSender_self (st := st) hsd, stage_after_lt _ hm, rfl, Or.inl ⟨_, rfl⟩⟩
  · obtain ⟨sd0, m, hsd0, hpc, _, rfl⟩ := step_park hs
    rw [hsd] at hsd0; cases hsd0
    exact ⟨_, getElem?_setSender_self (st := st) hsd, by simp [hpc, stage], rfl, Or.inr ⟨m, hpc, rfl⟩⟩
  · obtain ⟨sd0, m, hsd0, hm, _, hcase⟩ := step_sender hs
    rw [hsd] at hsd0; cases hsd0
    rcases hcase with ⟨rfl, _⟩ | ⟨ch, rfl, _, rfl⟩
    · exact ⟨_, getElem?_setSender_self hsd, stage_after_lt _ hm, rfl, Or.inl ⟨_, rfl⟩⟩
    · exact ⟨_, getElem?_setSender_self (st := st) hsd, stage_after_lt _ hm, rfl, Or.inl ⟨_, rfl⟩⟩

/-! ### Send -/

structure SendFacts : Prop where
  ctxArm : sendArms.contains (.recv chCtx) = true
  streamArm : sendArms.contains (.recv chStreamDone) = true
  senderArm : sendArms.contains (.recv chSenderDone) = true

/-- The return condition of a pending `Send`. -/
def SendCond (st : State) (sd : Sender) : Prop :=
  st.streamDone = true ∨ st.senderDone = true ∨ sd.ctx = true

theorem send_enabled {st : State} {i : Nat} {sd : Sender} {m : Msg} {p : Bool} (hF : SendFacts)
    (hsd : st.senders[i]? = some sd) (hpc : sd.pc = .send m p) (hc : SendCond st sd) :
    ∃ a st' sd', step st (.sender i a) = some st' ∧ st'.senders[i]? = some sd' ∧ sd'.pc = .idle := by
  have hm : sd.pc.msg? = some m := by rw [hpc]; rfl
  have hidle : ∀ a, ({ sd with pc := sd.pc.after a } : Sender).pc = .idle := by
    intro a; show sd.pc.after a = .idle; rw [hpc]; exact after_send_pc m p a
  rcases hc with h | h | h
  · exact ⟨.recv chStreamDone, _, _, step_sender_recv hsd hm (by rw [hpc]; exact hF.streamArm)
      (by simp [sReady, h, chCtx, chStreamDone, chSenderDone]), getElem?_setSender_self hsd, hidle _⟩
  · exact ⟨.recv chSenderDone, _, _, step_sender_recv hsd hm (by rw [hpc]; exact hF.senderArm)
      (by simp [sReady, h, chCtx, chStreamDone, chSenderDone]), getElem?_setSender_self hsd, hidle _⟩
  · exact ⟨.recv chCtx, _, _, step_sender_recv hsd hm (by rw [hpc]; exact hF.ctxArm)
      (by simp [sReady, h, chCtx, chStreamDone, chSenderDone]), getElem?_setSender_self hsd, hidle _⟩

/-- `streamDone` and `senderDone` are never reset. -/
theorem flags_mono {st st' : State} {l : Label} (hs : step st l = some st') :
    (st.streamDone = true → st'.streamDone = true) ∧ (st.senderDone = true → st'.senderDone = true) := by
  cases l with
  | startSend i v c =>
    obtain ⟨sd, _, _, rfl⟩ := step_startCall (by simpa [step] using hs); exact ⟨id, id⟩
  | startTry i v c =>
    obtain ⟨sd, _, _, rfl⟩ := step_startCall (by simpa [step] using hs); exact ⟨id, id⟩
  | startNext c =>
    simp only [step] at hs; split at hs
    · simp at hs; subst hs; exact ⟨id, id⟩
    · simp at hs
  | cancelSender i => obtain ⟨sd, _, rfl⟩ := step_cancelSender hs; exact ⟨id, id⟩
  | cancelNext =>
    simp only [step] at hs; split at hs
    · simp at hs
    · simp at hs; subst hs; exact ⟨id, id⟩
  | closeSender e =>
    simp only [step] at hs; split at hs
    · simp at hs
    · simp at hs; subst hs; exact ⟨id, fun _ => rfl⟩
  | closeRecv =>
    simp only [step] at hs; split at hs
    · simp at hs; subst hs; exact ⟨fun _ => rfl, id⟩
    · simp at hs
  | sender i a =>
    obtain ⟨sd, m, _, _, _, hcase⟩ := step_sender hs
    rcases hcase with ⟨rfl, _⟩ | ⟨ch, rfl, _, rfl⟩ <;> exact ⟨id, id⟩
  | handoff i => obtain ⟨sd, m, _, _, _, rfl⟩ := step_handoff hs; exact ⟨id, id⟩
  | park i => obtain ⟨sd, m, _, _, _, rfl⟩ := step_park hs; exact ⟨id, id⟩
  | parkRecv => obtain ⟨_, _, rfl⟩ := step_parkRecv hs; exact ⟨id, id⟩
  | recv a =>
    obtain ⟨_, hcase⟩ := step_recv hs
    rcases hcase with ⟨m, rest, _, _, rfl⟩ | ⟨_, _, _, _, rfl⟩ | ⟨_, _, _, rfl⟩ | ⟨ch, _, _, _, rfl⟩ | ⟨_, _, _, rfl⟩ <;>
      exact ⟨id, id⟩

/-- What a step can do to the record of sender `i`: nothing, or start a call (only when idle), or
expire the context of the call in flight, or advance the call (stage decreases). -/
theorem sender_frame {st st' : State} {l : Label} {i : Nat} {sd : Sender}
    (hsd : st.senders[i]? = some sd) (hs : step st l = some st') :
    ∃ sd', st'.senders[i]? = some sd' ∧
      (sd' = sd ∨ (sd.pc = .idle ∧ sd'.pc ≠ .idle) ∨ (sd' = { sd with ctx := true } ∧ sd.pc ≠ .idle) ∨
        (stage sd'.pc < stage sd.pc ∧ sd'.ctx = sd.ctx ∧
          ((∃ a, sd'.pc = sd.pc.after a) ∨ (∃ m, sd.pc = .send m false ∧ sd'.pc = .send m true)))) := by
  have hset : ∀ (j : Nat) (x : Sender), j ≠ i → (st.setSender j x).senders[i]? = some sd := by
    intro j x hj
    rw [getElem?_setSender]; simp [hj, hsd]
  cases l with
  | startSend j v c =>
    obtain ⟨sd0, hsd0, hidle, rfl⟩ := step_startCall (by simpa [step] using hs)
    by_cases hj : j = i
    · subst hj; rw [hsd] at hsd0; cases hsd0
      exact ⟨_, getElem?_setSender_self hsd, Or.inr (Or.inl ⟨hidle, by simp⟩)⟩
    · exact ⟨sd, hset j _ hj, Or.inl rfl⟩
  | startTry j v c =>
    obtain ⟨sd0, hsd0, hidle, rfl⟩ := step_startCall (by simpa [step] using hs)
    by_cases hj : j = i
    · subst hj; rw [hsd] at hsd0; cases hsd0
      exact ⟨_, getElem?_setSender_self hsd, Or.inr (Or.inl ⟨hidle, by simp⟩)⟩
    · exact ⟨sd, hset j _ hj, Or.inl rfl⟩
  | startNext c =>
    simp only [step] at hs; split at hs
    · simp at hs; subst hs; exact ⟨sd, hsd, Or.inl rfl⟩
    · simp at hs
  | cancelSender j =>
    have hs' := hs
    obtain ⟨sd0, hsd0, rfl⟩ := step_cancelSender hs
    by_cases hj : j = i
    · subst hj; rw [hsd] at hsd0; cases hsd0
      refine ⟨_, getElem?_setSender_self hsd, Or.inr (Or.inr (Or.inl ⟨rfl, ?_⟩))⟩
      intro hidle
      simp [step, hsd, hidle] at hs'
    · exact ⟨sd, hset j _ hj, Or.inl rfl⟩
  | cancelNext =>
    simp only [step] at hs; split at hs
    · simp at hs
    · simp at hs; subst hs; exact ⟨sd, hsd, Or.inl rfl⟩
  | closeSender e =>
    simp only [step] at hs; split at hs
    · simp at hs
    · simp at hs; subst hs; exact ⟨sd, hsd, Or.inl rfl⟩
  | closeRecv =>
    simp only [step] at hs; split at hs
    · simp at hs; subst hs; exact ⟨sd, hsd, Or.inl rfl⟩
    · simp at hs
  | sender j a =>
    by_cases hj : j = i
    · subst hj
      obtain ⟨sd', h1, h2⟩ := sender_step_progress hsd (Or.inr (Or.inr ⟨a, rfl⟩)) hs
      exact ⟨sd', h1, Or.inr (Or.inr (Or.inr h2))⟩
    · obtain ⟨sd0, m, _, _, _, hcase⟩ := step_sender hs
      rcases hcase with ⟨rfl, _⟩ | ⟨ch, rfl, _, rfl⟩
      · exact ⟨sd, hset j _ hj, Or.inl rfl⟩
      · exact ⟨sd, hset j _ hj, Or.inl rfl⟩
  | handoff j =>
    by_cases hj : j = i
    · subst hj
      obtain ⟨sd', h1, h2⟩ := sender_step_progress hsd (Or.inl rfl) hs
      exact ⟨sd', h1, Or.inr (Or.inr (Or.inr h2))⟩
    · obtain ⟨sd0, m, _, _, _, rfl⟩ := step_handoff hs
      exact ⟨sd, hset j _ hj, Or.inl rfl⟩
  | park j =>
    by_cases hj : j = i
    · subst hj
      obtain ⟨sd', h1, h2⟩ := sender_step_progress hsd (Or.inr (Or.inl rfl)) hs
      exact ⟨sd', h1, Or.inr (Or.inr (Or.inr h2))⟩
    · obtain ⟨sd0, m, _, _, _, rfl⟩ := step_park hs
      exact ⟨sd, hset j _ hj, Or.inl rfl⟩
  | parkRecv =>
    obtain ⟨_, _, rfl⟩ := step_parkRecv hs
    exact ⟨sd, hsd, Or.inl rfl⟩
  | recv a =>
    obtain ⟨_, hcase⟩ := step_recv hs
    rcases hcase with ⟨m, rest, _, _, rfl⟩ | ⟨_, _, _, _, rfl⟩ | ⟨_, _, _, rfl⟩ | ⟨ch, _, _, _, rfl⟩ | ⟨_, _, _, rfl⟩ <;>
      exact ⟨sd, hsd, Or.inl rfl⟩

/-- While the `Send` is pending its return condition cannot be withdrawn. -/
theorem send_cond_stable {st st' : State} {l : Label} {i : Nat} {sd : Sender} {m : Msg} {p : Bool}
    (hsd : st.senders[i]? = some sd) (hpc : sd.pc = .send m p) (hc : SendCond st sd)
    (hs : step st l = some st') :
    ∃ sd', st'.senders[i]? = some sd' ∧ (sd'.pc = .idle ∨ ((∃ p', sd'.pc = .send m p') ∧ SendCond st' sd')) := by
  obtain ⟨hst, hsn⟩ := flags_mono hs
  obtain ⟨sd', hsd', hcase⟩ := sender_frame hsd hs
  refine ⟨sd', hsd', ?_⟩
  have keep : ∀ c : Bool, c = sd.ctx ∨ c = true → (st'.streamDone = true ∨ st'.senderDone = true ∨ c = true) := by
    intro c hcc
    rcases hc with h | h | h
    · exact Or.inl (hst h)
    · exact Or.inr (Or.inl (hsn h))
    · rcases hcc with rfl | rfl
      · exact Or.inr (Or.inr h)
      · exact Or.inr (Or.inr rfl)
  rcases hcase with rfl | ⟨hidle, _⟩ | ⟨rfl, _⟩ | ⟨_, hctx, hown⟩
  · right; exact ⟨⟨p, hpc⟩, keep _ (Or.inl rfl)⟩
  · rw [hpc] at hidle; cases hidle
  · right; exact ⟨⟨p, hpc⟩, Or.inr (Or.inr rfl)⟩
  · rcases hown with ⟨a, ha⟩ | ⟨m', hm', hp'⟩
    · left; rw [ha, hpc]; exact after_send_pc m p a
    · right
      rw [hpc] at hm'
      cases hm'
      exact ⟨⟨true, hp'⟩, keep _ (Or.inl hctx)⟩

/-- A `Send` that has not yet parked never waits: an arm of its `select` fires, it meets a parked `Next`,
or it parks. -/
theorem send_poll_enabled {st : State} {i : Nat} {sd : Sender} {m : Msg}
    (hsd : st.senders[i]? = some sd) (hpc : sd.pc = .send m false) :
    ∃ l st', ownLabel i l ∧ step st l = some st' := by
  have hm : sd.pc.msg? = some m := by rw [hpc]; rfl
  cases hany : (tableOf sd.pc).any (sReady st sd) with
  | true =>
    obtain ⟨a, ha, hr⟩ := List.any_eq_true.mp hany
    have hcont : (tableOf sd.pc).contains a = true := by simpa using ha
    cases a with
    | recv ch => exact ⟨_, _, Or.inr (Or.inr ⟨_, rfl⟩), step_sender_recv hsd hm hcont hr⟩
    | send ch => exact ⟨_, _, Or.inr (Or.inr ⟨_, rfl⟩), step_sender_send hsd hm hcont hr⟩
    | dflt => simp [sReady] at hr
  | false =>
    cases hh : canHandoff st sd with
    | true => exact ⟨_, _, Or.inl rfl, step_handoff_intro hsd hm hh⟩
    | false =>
      have hall : (tableOf sd.pc).all (fun a => !sReady st sd a) = true := by
        rw [List.all_eq_true]
        intro a ha
        have := List.any_eq_false.mp hany a ha
        simpa using this
      have hd : sDefaultReady st sd = true := by simp [sDefaultReady, hall, hh]
      exact ⟨_, _, Or.inr (Or.inl rfl), step_park_intro hsd hpc hd⟩

/-! ### TrySend -/

structure TryFacts : Prop where
  noSend1 : noSendArm trySendArms1 = true
  dflt1 : trySendArms1.contains .dflt = true
  dflt2 : trySendArms2.contains .dflt = true

theorem sReady_arm {st : State} {sd : Sender} {a : Arm} (h : sReady st sd a = true) :
    (∃ ch, a = .recv ch) ∨ (∃ ch, a = .send ch) := by
  cases a with
  | recv ch => exact Or.inl ⟨ch, rfl⟩
  | send ch => exact Or.inr ⟨ch, rfl⟩
  | dflt => simp [sReady] at h

/-- A pending `TrySend` always has an enabled step of its own, whatever the other goroutines do. -/
theorem trySend_enabled {st : State} {i : Nat} {sd : Sender} {m : Msg} (hF : TryFacts)
    (hsd : st.senders[i]? = some sd) (hpc : sd.pc = .try1 m ∨ sd.pc = .try2 m) :
    ∃ l st', ownLabel i l ∧ step st l = some st' := by
  have hm : sd.pc.msg? = some m := by rcases hpc with h | h <;> (rw [h]; rfl)
  cases hany : (tableOf sd.pc).any (sReady st sd) with
  | true =>
    obtain ⟨a, ha, hr⟩ := List.any_eq_true.mp hany
    have hcont : (tableOf sd.pc).contains a = true := by simpa using ha
    rcases sReady_arm hr with ⟨ch, rfl⟩ | ⟨ch, rfl⟩
    · exact ⟨_, _, Or.inr (Or.inr ⟨_, rfl⟩), step_sender_recv hsd hm hcont hr⟩
    · exact ⟨_, _, Or.inr (Or.inr ⟨_, rfl⟩), step_sender_send hsd hm hcont hr⟩
  | false =>
    cases hh : canHandoff st sd with
    | true => exact ⟨_, _, Or.inl rfl, step_handoff_intro hsd hm hh⟩
    | false =>
      have hall : (tableOf sd.pc).all (fun a => !sReady st sd a) = true := by
        rw [List.all_eq_true]
        intro a ha
        have := List.any_eq_false.mp hany a ha
        simpa using this
      have hd : sDefaultReady st sd = true := by simp [sDefaultReady, hall, hh]
      have htab : (tableOf sd.pc).contains .dflt = true := by
        rcases hpc with h | h <;> rw [h]
        · exact hF.dflt1
        · exact hF.dflt2
      exact ⟨_, _, Or.inr (Or.inr ⟨_, rfl⟩), step_sender_dflt hsd hm htab hd⟩

/-! ### Next -/

structure NextFacts : Prop where
  ctxArm : nextArms.contains (.recv chCtx) = true
  dataArm : nextArms.contains (.recv chData) = true
  senderArm : nextArms.contains (.recv chSenderDone) = true
  drainData : nextDrains = true → nextDrainArms.contains (.recv chData) = true
  drainDflt : nextDrains = true → nextDrainArms.contains .dflt = true
  drainOnly : nextDrainArms.all (fun a => a == .recv chData || a == .dflt) = true

/-- The return condition of a pending `Next`: a value is available (buffered, or a rendez-vous with a
sender on the unbuffered channel is possible), the sender is closed, or the context expired. -/
def NextCond (st : State) : Prop :=
  st.buf ≠ [] ∨ (∃ sd ∈ st.senders, canHandoff st sd = true) ∨ st.senderDone = true ∨ st.rctx = true

/-- The labels that are steps of the receiver's call. -/
def isRecvLabel : Label → Bool
  | .recv _ | .handoff _ | .parkRecv => true
  | _ => false

theorem step_recv_pop {st : State} {m : Msg} {rest : List Msg}
    (htab : (rtableOf st.rpc).contains (.recv chData) = true) (hbuf : st.buf = m :: rest) :
    step st (.recv (.recv chData)) =
      some { st with buf := rest, delivered := st.delivered ++ [m], rpc := .idle } := by
  have htab' : Arm.recv chData ∈ rtableOf st.rpc := by simpa using htab
  simp [step, htab', rReady, hbuf, chData, chCtx, chSenderDone]

theorem handoff_of_mem {st : State} {sd : Sender} (hmem : sd ∈ st.senders) (hc : canHandoff st sd = true) :
    ∃ i st', step st (.handoff i) = some st' ∧ st'.rpc = .idle := by
  obtain ⟨i, hi⟩ := List.mem_iff_getElem?.mp hmem
  obtain ⟨_, htab, _⟩ := canHandoff_facts hc
  have hm : ∃ m, sd.pc.msg? = some m := by
    cases hp : sd.pc with
    | idle => rw [hp] at htab; simp [tableOf] at htab
    | send m p => exact ⟨m, rfl⟩
    | try1 m => exact ⟨m, rfl⟩
    | try2 m => exact ⟨m, rfl⟩
  obtain ⟨m, hm⟩ := hm
  exact ⟨i, _, step_handoff_intro hi hm hc, rfl⟩

/-- Any ready arm of the receiver's select can fire, and firing it moves `Next` towards its return. -/
theorem recv_arm_enabled {st : State} {a : Arm} (htab : (rtableOf st.rpc).contains a = true)
    (hr : rReady st a = true) : ∃ st', step st (.recv a) = some st' ∧ rstage st'.rpc < rstage st.rpc := by
  have hpos : 0 < rstage st.rpc := by
    cases h : st.rpc with
    | idle => simp [h, rtableOf] at htab
    | drain => simp [rstage]
    | next p => cases p <;> simp [rstage]
  cases a with
  | dflt => simp [rReady] at hr
  | send ch => simp [rReady] at hr
  | recv ch =>
    by_cases hd : ch = chData
    · subst hd
      have hb : st.buf ≠ [] := by
        intro hb
        simp [rReady, hb, chData, chCtx, chSenderDone] at hr
      cases hbuf : st.buf with
      | nil => exact absurd hbuf hb
      | cons m rest => exact ⟨_, step_recv_pop htab hbuf, by simpa [rstage] using hpos⟩
    · by_cases hsd : ch = chSenderDone
      · subst hsd
        have htab' : Arm.recv chSenderDone ∈ rtableOf st.rpc := by simpa using htab
        cases hc : (st.rpc.isNext && nextDrains) with
        | true =>
          refine ⟨{ st with rpc := .drain }, ?_, ?_⟩
          · simp [step, htab', hr, hc, chData, chSenderDone]
          · simp only [Bool.and_eq_true] at hc
            cases h : st.rpc with
            | next p => cases p <;> simp [rstage]
            | idle => simp [h, RPc.isNext] at hc
            | drain => simp [h, RPc.isNext] at hc
        | false =>
          refine ⟨reportEnd st, ?_, by simpa [reportEnd, rstage] using hpos⟩
          simp [step, htab', hr, hc, chData, chSenderDone]
      · have htab' : Arm.recv ch ∈ rtableOf st.rpc := by simpa using htab
        refine ⟨{ st with rpc := .idle }, ?_, by simpa [rstage] using hpos⟩
        simp [step, htab', hr, hd, hsd]

/-- A pending `Next` (polling or parked) whose return condition holds has an enabled step, and every
such step moves it strictly towards its return. -/
theorem next_enabled {st : State} {p : Bool} (hF : NextFacts) (hpc : st.rpc = .next p) (hc : NextCond st) :
    ∃ l st', isRecvLabel l = true ∧ step st l = some st' ∧ rstage st'.rpc < rstage st.rpc := by
  have hge := rstage_next_ge p
  have tab : ∀ a, nextArms.contains a = true → (rtableOf st.rpc).contains a = true := by
    intro a ha; rw [hpc]; exact ha
  rcases hc with h | ⟨sd, hmem, hh⟩ | h | h
  · obtain ⟨st', hs, hlt⟩ := recv_arm_enabled (a := .recv chData) (tab _ hF.dataArm)
      (by cases hb : st.buf with
          | nil => exact absurd hb h
          | cons m r => simp [rReady, hb, chData, chCtx, chSenderDone])
    exact ⟨_, st', rfl, hs, hlt⟩
  · obtain ⟨i, st', hs, hr⟩ := handoff_of_mem hmem hh
    exact ⟨_, st', rfl, hs, by rw [hr, hpc]; cases p <;> simp [rstage]⟩
  · obtain ⟨st', hs, hlt⟩ := recv_arm_enabled (a := .recv chSenderDone) (tab _ hF.senderArm)
      (by simp [rReady, h, chData, chCtx, chSenderDone])
    exact ⟨_, st', rfl, hs, hlt⟩
  · obtain ⟨st', hs, hlt⟩ := recv_arm_enabled (a := .recv chCtx) (tab _ hF.ctxArm)
      (by simp [rReady, h, chData, chCtx, chSenderDone])
    exact ⟨_, st', rfl, hs, hlt⟩

/-- A select of the receiver that is still polling never waits: an arm fires, it meets a parked
sender, or (nothing ready) the outer select parks. -/
theorem next_poll_enabled {st : State} (hpc : st.rpc = .next false) :
    ∃ l st', isRecvLabel l = true ∧ step st l = some st' ∧ rstage st'.rpc < rstage st.rpc := by
  cases hany : (rtableOf st.rpc).any (rReady st) with
  | true =>
    obtain ⟨a, ha, hr⟩ := List.any_eq_true.mp hany
    obtain ⟨st', hs, hlt⟩ := recv_arm_enabled (a := a) (by simpa using ha) hr
    exact ⟨_, st', rfl, hs, hlt⟩
  | false =>
    cases hh : st.senders.any (canHandoff st) with
    | true =>
      obtain ⟨sd, hmem, hc⟩ := List.any_eq_true.mp hh
      obtain ⟨i, st', hs, hr⟩ := handoff_of_mem hmem hc
      exact ⟨_, st', rfl, hs, by rw [hr, hpc]; simp [rstage]⟩
    | false =>
      have hall : (rtableOf st.rpc).all (fun a => !rReady st a) = true := by
        rw [List.all_eq_true]
        intro a ha
        have := List.any_eq_false.mp hany a ha
        simpa using this
      refine ⟨.parkRecv, { st with rpc := .next true }, rfl, ?_, by rw [hpc]; simp [rstage]⟩
      simp [step, hpc, rDefaultReady, hh]
      simpa [hpc] using hall

/-- The drain never waits: it pops, takes a hand-off from a parked `Send`, or falls to `default` and reports. -/
theorem drain_enabled {st : State} (hF : NextFacts) (hdr : nextDrains = true) (hpc : st.rpc = .drain) :
    ∃ l st', isRecvLabel l = true ∧ step st l = some st' ∧ st'.rpc = .idle := by
  cases hb : st.buf with
  | cons m rest =>
    exact ⟨_, _, rfl, step_recv_pop (by rw [hpc]; exact hF.drainData hdr) hb, rfl⟩
  | nil =>
    cases hany : st.senders.any (canHandoff st) with
    | true =>
      obtain ⟨sd, hmem, hh⟩ := List.any_eq_true.mp hany
      obtain ⟨i, st', hs, hr⟩ := handoff_of_mem hmem hh
      exact ⟨_, st', rfl, hs, hr⟩
    | false =>
      have htab : Arm.dflt ∈ rtableOf RPc.drain := by simpa [rtableOf] using hF.drainDflt hdr
      have hall : (rtableOf st.rpc).all (fun a => !rReady st a) = true := by
        rw [hpc]
        simp only [rtableOf]
        rw [List.all_eq_true]
        intro a ha
        have := List.all_eq_true.mp hF.drainOnly a ha
        simp only [Bool.or_eq_true, beq_iff_eq] at this
        rcases this with rfl | rfl
        · simp [rReady, hb, chData, chCtx, chSenderDone]
        · simp [rReady]
      refine ⟨.recv .dflt, reportEnd st, rfl, ?_, rfl⟩
      simp [step, hpc, rDefaultReady, hany]
      exact ⟨htab, by simpa [hpc] using hall⟩

/-- While `Next` is at its main select, the stable part of its return condition (a buffered
value, the sender's `Close`, the expired context) cannot be withdrawn. -/
theorem next_cond_stable {st st' : State} {l : Label} (hpc : st.rpc.isNext = true)
    (hc : st.buf ≠ [] ∨ st.senderDone = true ∨ st.rctx = true) (hs : step st l = some st') :
    st'.rpc.isNext = false ∨ (st'.buf ≠ [] ∨ st'.senderDone = true ∨ st'.rctx = true) := by
  cases l with
  | startSend i v c =>
    obtain ⟨sd, _, _, rfl⟩ := step_startCall (by simpa [step] using hs); exact Or.inr hc
  | startTry i v c =>
    obtain ⟨sd, _, _, rfl⟩ := step_startCall (by simpa [step] using hs); exact Or.inr hc
  | startNext c =>
    simp only [step] at hs; split at hs
    · rename_i h; rw [h.1] at hpc; simp [RPc.isNext] at hpc
    · simp at hs
  | cancelSender i => obtain ⟨sd, _, rfl⟩ := step_cancelSender hs; exact Or.inr hc
  | cancelNext =>
    simp only [step] at hs; split at hs
    · simp at hs
    · simp at hs; subst hs; exact Or.inr (Or.inr (Or.inr rfl))
  | closeSender e =>
    simp only [step] at hs; split at hs
    · simp at hs
    · simp at hs; subst hs; exact Or.inr (Or.inr (Or.inl rfl))
  | closeRecv =>
    simp only [step] at hs; split at hs
    · simp at hs; subst hs; exact Or.inr hc
    · simp at hs
  | sender i a =>
    obtain ⟨sd, m, _, _, _, hcase⟩ := step_sender hs
    rcases hcase with ⟨rfl, _⟩ | ⟨ch, rfl, _, rfl⟩
    · exact Or.inr hc
    · exact Or.inr (Or.inl (by simp))
  | handoff i =>
    obtain ⟨sd, m, _, _, _, rfl⟩ := step_handoff hs
    exact Or.inl (by simp [RPc.isNext])
  | park i => obtain ⟨sd, m, _, _, _, rfl⟩ := step_park hs; exact Or.inr hc
  | parkRecv => obtain ⟨_, _, rfl⟩ := step_parkRecv hs; exact Or.inr hc
  | recv a =>
    obtain ⟨_, hcase⟩ := step_recv hs
    rcases hcase with ⟨m, rest, _, _, rfl⟩ | ⟨_, _, _, _, rfl⟩ | ⟨_, _, _, rfl⟩ | ⟨ch, _, _, _, rfl⟩ | ⟨_, _, _, rfl⟩ <;>
      exact Or.inl (by simp [reportEnd, RPc.isNext])

end Juniper.Proofs.Pipe
