import Juniper.Proofs.PipeInv
/-!
No call blocks forever (C10), in the form "when the return condition of a pending call holds, a
step of that call is enabled, every step of a call moves it strictly towards its return, and the
condition is stable". Scheduler fairness (an enabled step of a goroutine is eventually taken) is
trusted.
-/
namespace Juniper.Proofs.Pipe
open Juniper.Facts Juniper.Gen.Pipe Juniper.Model.Pipe

/-- How many `select` statements a sender call still has in front of it. -/
def stage : SPc → Nat
  | .idle => 0
  | .send _ => 1
  | .try2 _ => 1
  | .try1 _ => 2

def rstage : RPc → Nat
  | .idle => 0
  | .drain => 1
  | .next => 2

theorem stage_after_lt {pc : SPc} {m : Msg} (a : Arm) (h : pc.msg? = some m) : stage (pc.after a) < stage pc := by
  cases pc <;> simp [SPc.msg?] at h <;> (unfold SPc.after; split <;> simp [stage, SPc.fallThrough])

/-! ### Introduction lemmas for `step` -/

theorem step_sender_recv {st : State} {i : Nat} {sd : Sender} {m : Msg} {ch : String}
    (hsd : st.senders[i]? = some sd) (hm : sd.pc.msg? = some m)
    (htab : (tableOf sd.pc).contains (.recv ch) = true) (hr : sReady st sd (.recv ch) = true) :
    step st (.sender i (.recv ch)) = some (st.setSender i { sd with pc := sd.pc.after (.recv ch) }) := by
  simp only [step, hsd, hm, htab, hr, if_true]

theorem step_sender_send {st : State} {i : Nat} {sd : Sender} {m : Msg} {ch : String}
    (hsd : st.senders[i]? = some sd) (hm : sd.pc.msg? = some m)
    (htab : (tableOf sd.pc).contains (.send ch) = true) (hr : sReady st sd (.send ch) = true) :
    step st (.sender i (.send ch)) =
      some { commit (st.setSender i { sd with pc := sd.pc.after (.send ch) }) m with buf := st.buf ++ [m] } := by
  simp only [step, hsd, hm, htab, hr, if_true]

theorem step_sender_dflt {st : State} {i : Nat} {sd : Sender} {m : Msg}
    (hsd : st.senders[i]? = some sd) (hm : sd.pc.msg? = some m)
    (htab : (tableOf sd.pc).contains .dflt = true) (hr : sDefaultReady st sd = true) :
    step st (.sender i .dflt) = some (st.setSender i { sd with pc := sd.pc.after .dflt }) := by
  simp only [step, hsd, hm, htab, hr, if_true]

theorem step_handoff_intro {st : State} {i : Nat} {sd : Sender} {m : Msg}
    (hsd : st.senders[i]? = some sd) (hm : sd.pc.msg? = some m) (hc : canHandoff st sd = true) :
    step st (.handoff i) =
      some { commit (st.setSender i { sd with pc := sd.pc.after (.send chData) }) m with
             rpc := .idle, delivered := st.delivered ++ [m] } := by
  simp only [step, hsd, hm, hc, if_true]

theorem lt_of_getElem?_some {st : State} {i : Nat} {sd : Sender} (h : st.senders[i]? = some sd) :
    i < st.senders.length := (List.getElem?_eq_some_iff.mp h).1

theorem getElem?_setSender_self {st : State} {i : Nat} {sd sd' : Sender} (h : st.senders[i]? = some sd) :
    (st.setSender i sd').senders[i]? = some sd' := by
  simp [getElem?_setSender, lt_of_getElem?_some h]

/-- Every own step of a sender call moves it strictly towards its return. -/
theorem sender_step_progress {st st' : State} {i : Nat} {sd : Sender} {l : Label}
    (hsd : st.senders[i]? = some sd) (hl : l = .handoff i ∨ ∃ a, l = .sender i a)
    (hs : step st l = some st') :
    ∃ sd', st'.senders[i]? = some sd' ∧ stage sd'.pc < stage sd.pc := by
  rcases hl with rfl | ⟨a, rfl⟩
  · obtain ⟨sd0, m, hsd0, hm, _, rfl⟩ := step_handoff hs
    rw [hsd] at hsd0; cases hsd0
    exact ⟨_, getElem?_setSender_self (st := st) hsd, stage_after_lt _ hm⟩
  · obtain ⟨sd0, m, hsd0, hm, _, hcase⟩ := step_sender hs
    rw [hsd] at hsd0; cases hsd0
    rcases hcase with ⟨rfl, _⟩ | ⟨ch, rfl, _, rfl⟩
    · exact ⟨_, getElem?_setSender_self hsd, stage_after_lt _ hm⟩
    · exact ⟨_, getElem?_setSender_self (st := st) hsd, stage_after_lt _ hm⟩

/-! ### Send -/

structure SendFacts : Prop where
  ctxArm : sendArms.contains (.recv chCtx) = true
  streamArm : sendArms.contains (.recv chStreamDone) = true
  senderArm : sendArms.contains (.recv chSenderDone) = true

/-- The return condition of a pending `Send`. -/
def SendCond (st : State) (sd : Sender) : Prop :=
  st.streamDone = true ∨ st.senderDone = true ∨ sd.ctx = true

theorem send_enabled {st : State} {i : Nat} {sd : Sender} {m : Msg} (hF : SendFacts)
    (hsd : st.senders[i]? = some sd) (hpc : sd.pc = .send m) (hc : SendCond st sd) :
    ∃ a st', step st (.sender i a) = some st' := by
  have hm : sd.pc.msg? = some m := by rw [hpc]; rfl
  rcases hc with h | h | h
  · exact ⟨.recv chStreamDone, _, step_sender_recv hsd hm (by rw [hpc]; exact hF.streamArm)
      (by simp [sReady, h, chCtx, chStreamDone, chSenderDone])⟩
  · exact ⟨.recv chSenderDone, _, step_sender_recv hsd hm (by rw [hpc]; exact hF.senderArm)
      (by simp [sReady, h, chCtx, chStreamDone, chSenderDone])⟩
  · exact ⟨.recv chCtx, _, step_sender_recv hsd hm (by rw [hpc]; exact hF.ctxArm)
      (by simp [sReady, h, chCtx, chStreamDone, chSenderDone])⟩

/-- `streamDone` and `senderDone` are never reset. -/
theorem flags_mono {st st' : State} {l : Label} (hs : step st l = some st') :
    (st.streamDone = true → st'.streamDone = true) ∧ (st.senderDone = true → st'.senderDone = true) := by
  cases l with
  | startSend i v c =>
    obtain ⟨sd, _, _, rfl⟩ := step_startCall (by simpa [step] using hs); exact ⟨id, id⟩
  | startTry i v c =>
    obtain ⟨sd, _, _, rfl⟩ := step_startCall (by simpa [step] using hs); exact ⟨id, id⟩
  | startNext c =>
    simp only [step] at hs; split at hs
    · simp at hs; subst hs; exact ⟨id, id⟩
    · simp at hs
  | cancelSender i => obtain ⟨sd, _, rfl⟩ := step_cancelSender hs; exact ⟨id, id⟩
  | cancelNext =>
    simp only [step] at hs; split at hs
    · simp at hs
    · simp at hs; subst hs; exact ⟨id, id⟩
  | closeSender e =>
    simp only [step] at hs; split at hs
    · simp at hs
    · simp at hs; subst hs; exact ⟨id, fun _ => rfl⟩
  | closeRecv =>
    simp only [step] at hs; split at hs
    · simp at hs; subst hs; exact ⟨fun _ => rfl, id⟩
    · simp at hs
  | sender i a =>
    obtain ⟨sd, m, _, _, _, hcase⟩ := step_sender hs
    rcases hcase with ⟨rfl, _⟩ | ⟨ch, rfl, _, rfl⟩ <;> exact ⟨id, id⟩
  | handoff i => obtain ⟨sd, m, _, _, _, rfl⟩ := step_handoff hs; exact ⟨id, id⟩
  | recv a =>
    obtain ⟨_, hcase⟩ := step_recv hs
    rcases hcase with ⟨m, rest, _, _, rfl⟩ | ⟨_, _, _, _, rfl⟩ | ⟨_, _, _, rfl⟩ | ⟨ch, _, _, _, rfl⟩ | ⟨_, _, _, rfl⟩ <;>
      exact ⟨id, id⟩

/-- What a step can do to the record of sender `i`: nothing, or start a call (only when idle), or
expire the context of the call in flight, or advance the call (stage decreases). -/
theorem sender_frame {st st' : State} {l : Label} {i : Nat} {sd : Sender}
    (hsd : st.senders[i]? = some sd) (hs : step st l = some st') :
    ∃ sd', st'.senders[i]? = some sd' ∧
      (sd' = sd ∨ (sd.pc = .idle ∧ sd'.pc ≠ .idle) ∨ (sd' = { sd with ctx := true } ∧ sd.pc ≠ .idle) ∨
        stage sd'.pc < stage sd.pc) := by
  have hset : ∀ (j : Nat) (x : Sender), j ≠ i → (st.setSender j x).senders[i]? = some sd := by
    intro j x hj
    rw [getElem?_setSender]; simp [hj, hsd]
  cases l with
  | startSend j v c =>
    obtain ⟨sd0, hsd0, hidle, rfl⟩ := step_startCall (by simpa [step] using hs)
    by_cases hj : j = i
    · subst hj; rw [hsd] at hsd0; cases hsd0
      exact ⟨_, getElem?_setSender_self hsd, Or.inr (Or.inl ⟨hidle, by simp⟩)⟩
    · exact ⟨sd, hset j _ hj, Or.inl rfl⟩
  | startTry j v c =>
    obtain ⟨sd0, hsd0, hidle, rfl⟩ := step_startCall (by simpa [step] using hs)
    by_cases hj : j = i
    · subst hj; rw [hsd] at hsd0; cases hsd0
      exact ⟨_, getElem?_setSender_self hsd, Or.inr (Or.inl ⟨hidle, by simp⟩)⟩
    · exact ⟨sd, hset j _ hj, Or.inl rfl⟩
  | startNext c =>
    simp only [step] at hs; split at hs
    · simp at hs; subst hs; exact ⟨sd, hsd, Or.inl rfl⟩
    · simp at hs
  | cancelSender j =>
    have hs' := hs
    obtain ⟨sd0, hsd0, rfl⟩ := step_cancelSender hs
    by_cases hj : j = i
    · subst hj; rw [hsd] at hsd0; cases hsd0
      refine ⟨_, getElem?_setSender_self hsd, Or.inr (Or.inr (Or.inl ⟨rfl, ?_⟩))⟩
      intro hidle
      simp [step, hsd, hidle] at hs'
    · exact ⟨sd, hset j _ hj, Or.inl rfl⟩
  | cancelNext =>
    simp only [step] at hs; split at hs
    · simp at hs
    · simp at hs; subst hs; exact ⟨sd, hsd, Or.inl rfl⟩
  | closeSender e =>
    simp only [step] at hs; split at hs
    · simp at hs
    · simp at hs; subst hs; exact ⟨sd, hsd, Or.inl rfl⟩
  | closeRecv =>
    simp only [step] at hs; split at hs
    · simp at hs; subst hs; exact ⟨sd, hsd, Or.inl rfl⟩
    · simp at hs
  | sender j a =>
    by_cases hj : j = i
    · subst hj
      obtain ⟨sd', h1, h2⟩ := sender_step_progress hsd (Or.inr ⟨a, rfl⟩) hs
      exact ⟨sd', h1, Or.inr (Or.inr (Or.inr h2))⟩
    · obtain ⟨sd0, m, _, _, _, hcase⟩ := step_sender hs
      rcases hcase with ⟨rfl, _⟩ | ⟨ch, rfl, _, rfl⟩
      · exact ⟨sd, hset j _ hj, Or.inl rfl⟩
      · exact ⟨sd, hset j _ hj, Or.inl rfl⟩
  | handoff j =>
    by_cases hj : j = i
    · subst hj
      obtain ⟨sd', h1, h2⟩ := sender_step_progress hsd (Or.inl rfl) hs
      exact ⟨sd', h1, Or.inr (Or.inr (Or.inr h2))⟩
    · obtain ⟨sd0, m, _, _, _, rfl⟩ := step_handoff hs
      exact ⟨sd, hset j _ hj, Or.inl rfl⟩
  | recv a =>
    obtain ⟨_, hcase⟩ := step_recv hs
    rcases hcase with ⟨m, rest, _, _, rfl⟩ | ⟨_, _, _, _, rfl⟩ | ⟨_, _, _, rfl⟩ | ⟨ch, _, _, _, rfl⟩ | ⟨_, _, _, rfl⟩ <;>
      exact ⟨sd, hsd, Or.inl rfl⟩

/-- While the `Send` is pending its return condition cannot be withdrawn. -/
theorem send_cond_stable {st st' : State} {l : Label} {i : Nat} {sd : Sender} {m : Msg}
    (hsd : st.senders[i]? = some sd) (hpc : sd.pc = .send m) (hc : SendCond st sd)
    (hs : step st l = some st') :
    ∃ sd', st'.senders[i]? = some sd' ∧ (sd'.pc = .idle ∨ (sd'.pc = .send m ∧ SendCond st' sd')) := by
  obtain ⟨hst, hsn⟩ := flags_mono hs
  obtain ⟨sd', hsd', hcase⟩ := sender_frame hsd hs
  refine ⟨sd', hsd', ?_⟩
  rcases hcase with rfl | ⟨hidle, _⟩ | ⟨rfl, _⟩ | hlt
  · right
    refine ⟨hpc, ?_⟩
    rcases hc with h | h | h
    · exact Or.inl (hst h)
    · exact Or.inr (Or.inl (hsn h))
    · exact Or.inr (Or.inr h)
  · rw [hpc] at hidle; cases hidle
  · right; exact ⟨hpc, Or.inr (Or.inr rfl)⟩
  · left
    rw [hpc] at hlt
    cases hp : sd'.pc <;> simp [hp, stage] at hlt ⊢

/-! ### TrySend -/

structure TryFacts : Prop where
  noSend1 : noSendArm trySendArms1 = true
  dflt1 : trySendArms1.contains .dflt = true
  dflt2 : trySendArms2.contains .dflt = true

theorem sReady_arm {st : State} {sd : Sender} {a : Arm} (h : sReady st sd a = true) :
    (∃ ch, a = .recv ch) ∨ (∃ ch, a = .send ch) := by
  cases a with
  | recv ch => exact Or.inl ⟨ch, rfl⟩
  | send ch => exact Or.inr ⟨ch, rfl⟩
  | dflt => simp [sReady] at h

/-- A pending `TrySend` always has an enabled step of its own, whatever the other goroutines do. -/
theorem trySend_enabled {st : State} {i : Nat} {sd : Sender} {m : Msg} (hF : TryFacts)
    (hsd : st.senders[i]? = some sd) (hpc : sd.pc = .try1 m ∨ sd.pc = .try2 m) :
    ∃ l st', (l = .handoff i ∨ ∃ a, l = .sender i a) ∧ step st l = some st' := by
  have hm : sd.pc.msg? = some m := by rcases hpc with h | h <;> (rw [h]; rfl)
  cases hany : (tableOf sd.pc).any (sReady st sd) with
  | true =>
    obtain ⟨a, ha, hr⟩ := List.any_eq_true.mp hany
    have hcont : (tableOf sd.pc).contains a = true := by simpa using ha
    rcases sReady_arm hr with ⟨ch, rfl⟩ | ⟨ch, rfl⟩
    · exact ⟨_, _, Or.inr ⟨_, rfl⟩, step_sender_recv hsd hm hcont hr⟩
    · exact ⟨_, _, Or.inr ⟨_, rfl⟩, step_sender_send hsd hm hcont hr⟩
  | false =>
    cases hh : canHandoff st sd with
    | true => exact ⟨_, _, Or.inl rfl, step_handoff_intro hsd hm hh⟩
    | false =>
      have hall : (tableOf sd.pc).all (fun a => !sReady st sd a) = true := by
        rw [List.all_eq_true]
        intro a ha
        have := List.any_eq_false.mp hany a ha
        simpa using this
      have hd : sDefaultReady st sd = true := by simp [sDefaultReady, hall, hh]
      have htab : (tableOf sd.pc).contains .dflt = true := by
        rcases hpc with h | h <;> rw [h]
        · exact hF.dflt1
        · exact hF.dflt2
      exact ⟨_, _, Or.inr ⟨_, rfl⟩, step_sender_dflt hsd hm htab hd⟩

/-! ### Next -/

structure NextFacts : Prop where
  ctxArm : nextArms.contains (.recv chCtx) = true
  dataArm : nextArms.contains (.recv chData) = true
  senderArm : nextArms.contains (.recv chSenderDone) = true
  drainData : nextDrains = true → nextDrainArms.contains (.recv chData) = true
  drainDflt : nextDrains = true → nextDrainArms.contains .dflt = true
  drainOnly : nextDrainArms.all (fun a => a == .recv chData || a == .dflt) = true

/-- The return condition of a pending `Next`: a value is available (buffered, or offered by a
sender parked on the unbuffered channel), the sender is closed, or the context expired. -/
def NextCond (st : State) : Prop :=
  st.buf ≠ [] ∨ (∃ sd ∈ st.senders, canHandoff st sd = true) ∨ st.senderDone = true ∨ st.rctx = true

def isRecvLabel : Label → Bool
  | .recv _ | .handoff _ => true
  | _ => false

theorem step_recv_pop {st : State} {m : Msg} {rest : List Msg}
    (htab : (rtableOf st.rpc).contains (.recv chData) = true) (hbuf : st.buf = m :: rest) :
    step st (.recv (.recv chData)) =
      some { st with buf := rest, delivered := st.delivered ++ [m], rpc := .idle } := by
  have htab' : Arm.recv chData ∈ rtableOf st.rpc := by simpa using htab
  simp [step, htab', rReady, hbuf, chData, chCtx, chSenderDone]

theorem handoff_of_mem {st : State} {sd : Sender} (hmem : sd ∈ st.senders) (hc : canHandoff st sd = true) :
    ∃ i st', step st (.handoff i) = some st' ∧ st'.rpc = .idle := by
  obtain ⟨i, hi⟩ := List.mem_iff_getElem?.mp hmem
  obtain ⟨_, htab, _⟩ := canHandoff_facts hc
  have hm : ∃ m, sd.pc.msg? = some m := by
    cases hp : sd.pc with
    | idle => rw [hp] at htab; simp [tableOf] at htab
    | send m => exact ⟨m, rfl⟩
    | try1 m => exact ⟨m, rfl⟩
    | try2 m => exact ⟨m, rfl⟩
  obtain ⟨m, hm⟩ := hm
  exact ⟨i, _, step_handoff_intro hi hm hc, rfl⟩

/-- A pending `Next` whose return condition holds has an enabled step, and every step of the
receiver moves `Next` strictly towards its return (`next → drain → returned`). -/
theorem next_enabled {st : State} (hF : NextFacts) (hpc : st.rpc = .next) (hc : NextCond st) :
    ∃ l st', isRecvLabel l = true ∧ step st l = some st' ∧ rstage st'.rpc < rstage st.rpc := by
  rcases hc with h | ⟨sd, hmem, hh⟩ | h | h
  · cases hb : st.buf with
    | nil => exact absurd hb h
    | cons m rest =>
      refine ⟨_, _, rfl, step_recv_pop (by rw [hpc]; exact hF.dataArm) hb, ?_⟩
      simp [hpc, rstage]
  · obtain ⟨i, st', hs, hr⟩ := handoff_of_mem hmem hh
    exact ⟨_, st', rfl, hs, by simp [hr, hpc, rstage]⟩
  · cases hb : st.buf with
    | cons m rest =>
      refine ⟨_, _, rfl, step_recv_pop (by rw [hpc]; exact hF.dataArm) hb, ?_⟩
      simp [hpc, rstage]
    | nil =>
      have htab : Arm.recv chSenderDone ∈ rtableOf st.rpc := by rw [hpc]; simpa [rtableOf] using hF.senderArm
      have htab2 : Arm.recv chSenderDone ∈ rtableOf RPc.next := by simpa [rtableOf] using hF.senderArm
      by_cases hd : nextDrains = true
      · refine ⟨.recv (.recv chSenderDone), { st with rpc := .drain }, rfl, ?_, by simp [hpc, rstage]⟩
        simp [step, htab2, rReady, h, hpc, hd, chData, chCtx, chSenderDone]
      · refine ⟨.recv (.recv chSenderDone), reportEnd st, rfl, ?_, by simp [hpc, rstage, reportEnd]⟩
        simp [step, htab, rReady, h, hd, chData, chCtx, chSenderDone]
  · cases hb : st.buf with
    | cons m rest =>
      refine ⟨_, _, rfl, step_recv_pop (by rw [hpc]; exact hF.dataArm) hb, ?_⟩
      simp [hpc, rstage]
    | nil =>
      have htab : Arm.recv chCtx ∈ rtableOf st.rpc := by rw [hpc]; simpa [rtableOf] using hF.ctxArm
      refine ⟨.recv (.recv chCtx), { st with rpc := .idle }, rfl, ?_, by simp [hpc, rstage]⟩
      simp [step, htab, rReady, h, chData, chCtx, chSenderDone]

/-- The drain never waits: it pops, takes a hand-off, or falls to `default` and reports. -/
theorem drain_enabled {st : State} (hF : NextFacts) (hdr : nextDrains = true) (hpc : st.rpc = .drain) :
    ∃ l st', isRecvLabel l = true ∧ step st l = some st' ∧ st'.rpc = .idle := by
  cases hb : st.buf with
  | cons m rest =>
    exact ⟨_, _, rfl, step_recv_pop (by rw [hpc]; exact hF.drainData hdr) hb, rfl⟩
  | nil =>
    cases hany : st.senders.any (canHandoff st) with
    | true =>
      obtain ⟨sd, hmem, hh⟩ := List.any_eq_true.mp hany
      obtain ⟨i, st', hs, hr⟩ := handoff_of_mem hmem hh
      exact ⟨_, st', rfl, hs, hr⟩
    | false =>
      have htab : Arm.dflt ∈ rtableOf RPc.drain := by simpa [rtableOf] using hF.drainDflt hdr
      have hall : (rtableOf st.rpc).all (fun a => !rReady st a) = true := by
        rw [hpc]
        simp only [rtableOf]
        rw [List.all_eq_true]
        intro a ha
        have := List.all_eq_true.mp hF.drainOnly a ha
        simp only [Bool.or_eq_true, beq_iff_eq] at this
        rcases this with rfl | rfl
        · simp [rReady, hb, chData, chCtx, chSenderDone]
        · simp [rReady]
      refine ⟨.recv .dflt, reportEnd st, rfl, ?_, rfl⟩
      simp [step, hpc, rDefaultReady, hany]
      exact ⟨htab, by simpa [hpc] using hall⟩

/-- While `Next` is parked in its main select, the stable part of its return condition (a buffered
value, the sender's `Close`, the expired context) cannot be withdrawn. -/
theorem next_cond_stable {st st' : State} {l : Label} (hpc : st.rpc = .next)
    (hc : st.buf ≠ [] ∨ st.senderDone = true ∨ st.rctx = true) (hs : step st l = some st') :
    st'.rpc ≠ .next ∨ (st'.buf ≠ [] ∨ st'.senderDone = true ∨ st'.rctx = true) := by
  cases l with
  | startSend i v c =>
    obtain ⟨sd, _, _, rfl⟩ := step_startCall (by simpa [step] using hs); exact Or.inr hc
  | startTry i v c =>
    obtain ⟨sd, _, _, rfl⟩ := step_startCall (by simpa [step] using hs); exact Or.inr hc
  | startNext c =>
    simp only [step] at hs; split at hs
    · rename_i h; rw [hpc] at h; simp at h
    · simp at hs
  | cancelSender i => obtain ⟨sd, _, rfl⟩ := step_cancelSender hs; exact Or.inr hc
  | cancelNext =>
    simp only [step] at hs; split at hs
    · simp at hs
    · simp at hs; subst hs; exact Or.inr (Or.inr (Or.inr rfl))
  | closeSender e =>
    simp only [step] at hs; split at hs
    · simp at hs
    · simp at hs; subst hs; exact Or.inr (Or.inr (Or.inl rfl))
  | closeRecv =>
    simp only [step] at hs; split at hs
    · simp at hs; subst hs; exact Or.inr hc
    · simp at hs
  | sender i a =>
    obtain ⟨sd, m, _, _, _, hcase⟩ := step_sender hs
    rcases hcase with ⟨rfl, _⟩ | ⟨ch, rfl, _, rfl⟩
    · exact Or.inr hc
    · exact Or.inr (Or.inl (by simp))
  | handoff i =>
    obtain ⟨sd, m, _, _, _, rfl⟩ := step_handoff hs
    exact Or.inl (by simp)
  | recv a =>
    obtain ⟨_, hcase⟩ := step_recv hs
    rcases hcase with ⟨m, rest, _, _, rfl⟩ | ⟨_, _, _, _, rfl⟩ | ⟨_, _, _, rfl⟩ | ⟨ch, _, _, _, rfl⟩ | ⟨_, _, _, rfl⟩ <;>
      exact Or.inl (by simp [reportEnd])

end Juniper.Proofs.Pipe
