import Juniper.Model.Watch
/-!
# Helper lemmas for C18: typed map, Watchable, Future, Lazy
-/
namespace Juniper.Proofs.Watch
open Juniper.Model.Watch
open Juniper.Gen.Watch (AssertForm)

/-- the assertion forms and guards the typed-map theorems are about (what the source says today) -/
def MapCfg.std : MapCfg :=
  { loadAssert := .commaOk, loadGuard := true, ladAssert := .commaOk, ladGuard := true,
    losAssert := .commaOk, losGuard := false, swapAssert := .commaOk, swapGuard := false,
    rangeBody := [.assertKey .commaOk, .assertVal .commaOk, .retCallback], forwards := true }

/-!
Tie 1 (the regenerated facts are the ones the proofs are about) is discharged INSIDE every property
theorem of `Props/C18.lean` (`have hgen : MapCfg.gen = MapCfg.std := by decide`, likewise `WCfg`,
`FCfg`, `lazyOnceGen`), so that a changed fact breaks the property theorems themselves; the lemmas
of this file are about the `std` configurations.
-/

/-- **what the typed-map theorems need of the classified bodies** (audit C18 F7: stated so that behaviourally
identical sources are accepted). Every assertion is of the comma-ok form (`t, _ := x.(V)`: the nil interface reads
back as the zero value); the `Range` closure asserts key and value comma-ok and returns the callback's result; every
body has the call-[guard]-assert-return shape and the other methods forward (`forwards`). The absent-key guard
`if !ok { return zero, false }` is **free** in `Load`, `LoadAndDelete` and `Swap` — with a comma-ok assertion it changes
nothing, because there sync.Map answers `(nil, false)` for an absent key (`guarded_commaOk`) — but it must be
**absent** in `LoadOrStore`, where `loaded = false` comes with the value just stored, not with nil. -/
def MapCfg.sound (cfg : MapCfg) : Bool :=
  cfg.loadAssert == .commaOk && cfg.ladAssert == .commaOk && cfg.losAssert == .commaOk && cfg.swapAssert == .commaOk
    && !cfg.losGuard && cfg.rangeBody == MapCfg.std.rangeBody && cfg.forwards

section Typed
set_option linter.unusedSectionVars false
variable {K UK V UV : Type} [DecidableEq UK] [DecidableEq UV]

/-- with a comma-ok assertion the guard is immaterial: the result is sync.Map's, read back -/
theorem guarded_commaOk (vk : Kind V UV) (g : Bool) (v : Any UV) (ok : Bool) (h : ok = false → v = none) :
    guarded vk .commaOk g v ok = .ok (vk.ofAny v, ok) := by
  unfold guarded
  cases g <;> cases ok <;> simp [assertT, Out.map, Kind.ofAny, h]

theorem load_absent (m : SMap UK UV) (k : Any UK) : (m.load k).2 = false → (m.load k).1 = none := by
  unfold SMap.load; split <;> simp

theorem loadAndDelete_absent (m : SMap UK UV) (k : Any UK) :
    (m.loadAndDelete k).2.2 = false → (m.loadAndDelete k).2.1 = none := by
  unfold SMap.loadAndDelete; split <;> simp

/-- `sync.Map.Range` over a closure without effects of its own is `visitWhile` -/
theorem rangeG_pure {α : Type} (g : Any UK → Any UV → Bool) (h : Any UK → Any UV → α) (l : List (Any UK × Any UV)) :
    rangeG (fun k v => .ok ([h k v], g k v)) l = .ok ((visitWhile g l).map (fun p => h p.1 p.2)) := by
  induction l with
  | nil => rfl
  | cons p rest ih =>
    simp only [rangeG, visitWhile]
    cases hg : g p.1 p.2
    · simp
    · simp [ih, Out.map]

/-- one invocation of today's closure: assert key and value (comma-ok), `return f(key, value)` -/
theorem closureRun_std (kk : Kind K UK) (vk : Kind V UV) (f : K → V → Bool) (k : Any UK) (v : Any UV) :
    closureRun kk vk f k v MapCfg.std.rangeBody {} = .ok ([(kk.ofAny k, vk.ofAny v)], f (kk.ofAny k) (vk.ofAny v)) := by
  simp [MapCfg.std, closureRun, assertT]

theorem swap_absent (m : SMap UK UV) (k : Any UK) (v : Any UV) :
    (m.swap k v).2.2 = false → (m.swap k v).2.1 = none := by
  unfold SMap.swap; split <;> simp

theorem tRange_std (kk : Kind K UK) (vk : Kind V UV) (m : SMap UK UV) (f : K → V → Bool) :
    tRange MapCfg.std kk vk m f =
      .ok ((m.rangeWith (fun k v => f (kk.ofAny k) (vk.ofAny v))).map (fun p => (kk.ofAny p.1, vk.ofAny p.2))) := by
  unfold tRange SMap.rangeWith
  simp only [closureRun_std]
  exact rangeG_pure (fun k v => f (kk.ofAny k) (vk.ofAny v)) (fun k v => (kk.ofAny k, vk.ofAny v)) m.range

/-- the typed wrapper with ANY sound configuration returns what sync.Map returns, read back into the type parameters -/
theorem typed_of_sound (cfg : MapCfg) (hs : MapCfg.sound cfg = true) (kk : Kind K UK) (vk : Kind V UV) (m : SMap UK UV) (k : K)
    (v : V) (f : K → V → Bool) :
    tLoad cfg kk vk m k = (m, .ok (vk.ofAny (m.load (kk.toAny k)).1, (m.load (kk.toAny k)).2)) ∧
    tLoadAndDelete cfg kk vk m k =
      ((m.loadAndDelete (kk.toAny k)).1,
        .ok (vk.ofAny (m.loadAndDelete (kk.toAny k)).2.1, (m.loadAndDelete (kk.toAny k)).2.2)) ∧
    tLoadOrStore cfg kk vk m k v =
      ((m.loadOrStore (kk.toAny k) (vk.toAny v)).1,
        .ok (vk.ofAny (m.loadOrStore (kk.toAny k) (vk.toAny v)).2.1, (m.loadOrStore (kk.toAny k) (vk.toAny v)).2.2)) ∧
    tSwap cfg kk vk m k v =
      ((m.swap (kk.toAny k) (vk.toAny v)).1,
        .ok (vk.ofAny (m.swap (kk.toAny k) (vk.toAny v)).2.1, (m.swap (kk.toAny k) (vk.toAny v)).2.2)) ∧
    tRange cfg kk vk m f =
      .ok ((m.rangeWith (fun k' v' => f (kk.ofAny k') (vk.ofAny v'))).map (fun p => (kk.ofAny p.1, vk.ofAny p.2))) := by
  simp only [MapCfg.sound, Bool.and_eq_true, beq_iff_eq, Bool.not_eq_true'] at hs
  obtain ⟨⟨⟨⟨⟨⟨h1, h2⟩, h3⟩, h4⟩, h5⟩, h6⟩, _⟩ := hs
  refine ⟨?_, ?_, ?_, ?_, ?_⟩
  · simp only [tLoad, h1]
    rw [guarded_commaOk vk _ _ _ (load_absent m _)]
  · simp only [tLoadAndDelete, h2]
    rw [guarded_commaOk vk _ _ _ (loadAndDelete_absent m _)]
  · simp only [tLoadOrStore, h3, h5, guarded, Bool.false_and, Bool.false_eq_true, if_false, assertT, Out.map]
  · simp only [tSwap, h4]
    rw [guarded_commaOk vk _ _ _ (swap_absent m _ _)]
  · have : tRange cfg kk vk m f = tRange MapCfg.std kk vk m f := by simp only [tRange, h6]
    rw [this]; exact tRange_std kk vk m f

/-- a value stored through the wrapper is found again (sync.Map's `Store` then `Load` of the same key) -/
theorem smap_load_store (m : SMap UK UV) (a : Any UK) (b : Any UV) : (m.store a b).load a = (b, true) := by
  have hfind : (m.put a b).find a = some b := by
    unfold SMap.put
    split
    · rename_i hsome
      unfold SMap.find at hsome ⊢
      induction m with
      | nil => simp at hsome
      | cons p rest ih =>
        by_cases hp : p.1 = a
        · simp [hp]
        · have hp' : (p.1 == a) = false := by simpa using hp
          simp only [List.map_cons, hp', Bool.false_eq_true, if_false, List.find?_cons]
          simp only [List.find?_cons, hp'] at hsome
          exact ih hsome
    · rename_i hnone
      unfold SMap.find at hnone ⊢
      have hn : m.find? (fun p => p.1 == a) = none := by
        cases h : m.find? (fun p => p.1 == a) with
        | none => rfl
        | some x => simp [h] at hnone
      simp [List.find?_append, hn]
  simp [SMap.store, SMap.load, hfind]

end Typed

/-! ## Watchable: inversion of `wstep WCfg.std` -/

/-- the state right after `Set(v)`'s `Swap` -/
def swapState (s : WState) (i : Nat) (v : Int) : WState :=
  setSetter { s with ptr := some s.cells.length, hist := s.hist ++ [v],
                     cells := s.cells ++ [{ val := some v, closed := false, epoch := (s.hist ++ [v]).length }] } i (.swapped s.ptr)

theorem wstep_swap {s s' : WState} {i : Nat} (h : wstep WCfg.std s (.swap i) = some s') :
    ∃ v, s.setters[i]? = some (v, .idle) ∧ s' = swapState s i v := by
  simp only [wstep] at h
  split at h
  · rename_i v hv
    exact ⟨v, hv, by simpa [swapState] using h.symm⟩
  · cases h

theorem wstep_close {s s' : WState} {i : Nat} (h : wstep WCfg.std s (.close i) = some s') :
    ∃ v old, s.setters[i]? = some (v, .swapped old) ∧
      ((old = none ∧ s' = setSetter s i .done) ∨
       ∃ oc, old = some oc ∧
        (((cellAt s oc).closed = true ∧ s' = setSetter s i .panicked) ∨
         ((cellAt s oc).closed = false ∧
            s' = setSetter { s with cells := s.cells.set oc { cellAt s oc with closed := true } } i .done))) := by
  simp only [wstep, WCfg.std, Bool.not_true, Bool.false_eq_true, if_false, if_true] at h
  split at h
  · rename_i v old hv
    refine ⟨v, old, hv, ?_⟩
    split at h
    · left; exact ⟨rfl, by simpa using h.symm⟩
    · rename_i oc
      right
      refine ⟨oc, rfl, ?_⟩
      split at h
      · rename_i hc; left; exact ⟨hc, by simpa using h.symm⟩
      · rename_i hc; right; exact ⟨by simpa using hc, by simpa using h.symm⟩
  · cases h

theorem wstep_load {s s' : WState} {j : Nat} (h : wstep WCfg.std s (.load j) = some s') :
    s.readers[j]? = some .idle ∧
      ((∃ c, s.ptr = some c ∧ s' = setReader s j (.done c s.hist.length)) ∨ (s.ptr = none ∧ s' = setReader s j .sawNil)) := by
  simp only [wstep] at h
  split at h
  · rename_i hr
    refine ⟨hr, ?_⟩
    split at h
    · rename_i c hc; left; exact ⟨c, hc, by simpa using h.symm⟩
    · rename_i hc; right; exact ⟨hc, by simpa using h.symm⟩
  · cases h

/-- the state after a successful `CompareAndSwap(nil, emptyInner)` -/
def casState (s : WState) (j : Nat) : WState :=
  setReader { s with ptr := some s.cells.length,
                     cells := s.cells ++ [{ val := none, closed := false, epoch := s.hist.length }] } j
    (.done s.cells.length s.hist.length)

theorem wstep_cas {s s' : WState} {j : Nat} (h : wstep WCfg.std s (.cas j) = some s') :
    s.readers[j]? = some .sawNil ∧
      ((s.ptr = none ∧ s' = casState s j) ∨ (∃ c, s.ptr = some c ∧ s' = setReader s j .casFailed)) := by
  simp only [wstep, WCfg.std, if_true] at h
  split at h
  · rename_i hr
    refine ⟨hr, ?_⟩
    split at h
    · rename_i hc; left; exact ⟨hc, by simpa [casState] using h.symm⟩
    · rename_i c hc; right; exact ⟨c, hc, by simpa using h.symm⟩
  · cases h

theorem wstep_reload {s s' : WState} {j : Nat} (h : wstep WCfg.std s (.reload j) = some s') :
    s.readers[j]? = some .casFailed ∧
      ((∃ c, s.ptr = some c ∧ s' = setReader s j (.done c s.hist.length)) ∨ (s.ptr = none ∧ s' = setReader s j .panicked)) := by
  simp only [wstep] at h
  split at h
  · rename_i hr
    refine ⟨hr, ?_⟩
    split at h
    · rename_i c hc; left; exact ⟨c, hc, by simpa using h.symm⟩
    · rename_i hc; right; exact ⟨hc, by simpa using h.symm⟩
  · cases h

/-! ## Watchable: the invariant -/

/-- some `Set` call has swapped cell `c` out and has not yet closed its channel -/
def Closing (s : WState) (c : Nat) : Prop := ∃ (i : Nat) (v : Int), s.setters[i]? = some (v, .swapped (some c))

structure WatchInv (s : WState) : Prop where
  ptr_last : ∀ c, s.ptr = some c → c + 1 = s.cells.length
  ptr_none : s.ptr = none → s.cells = [] ∧ s.hist = []
  cell : ∀ (c : Nat) (ce : Cell), s.cells[c]? = some ce →
      ce.epoch ≤ s.hist.length ∧ ce.val = latest (s.hist.take ce.epoch) ∧
      (c + 1 = s.cells.length → ce.epoch = s.hist.length ∧ ce.closed = false) ∧
      (c + 1 < s.cells.length → ce.epoch < s.hist.length ∧ (ce.closed = true ∨ Closing s c))
  setter : ∀ (i : Nat) (v : Int) (oc : Nat), s.setters[i]? = some (v, .swapped (some oc)) → oc + 1 < s.cells.length
  reader : ∀ (j c lin : Nat), s.readers[j]? = some (.done c lin) → ∃ ce, s.cells[c]? = some ce ∧ ce.epoch = lin

theorem winv_init (vals : List Int) (r : Nat) : WatchInv (winit vals r) := by
  refine ⟨by simp [winit], by simp [winit], by simp [winit], ?_, ?_⟩
  · intro i v oc h
    simp only [winit, List.getElem?_map] at h
    cases hv : vals[i]? <;> simp [hv] at h
  · intro j c lin h
    simp only [winit, List.getElem?_replicate] at h
    split at h <;> cases h

theorem latest_append (h : List Int) (v : Int) : latest (h ++ [v]) = some v := by
  simp [latest]

theorem setSetter_get (s : WState) (i k : Nat) (pc : SetPc) :
    (setSetter s i pc).setters[k]? = (s.setters[k]?).map (fun p => if i = k then (p.1, pc) else p) := by
  simp [setSetter, List.getElem?_modify]

/-- a `Closing` witness survives a change of another setter -/
theorem closing_setSetter {s : WState} {i c : Nat} {pc : SetPc} (t : WState) (ht : t.setters = (setSetter s i pc).setters)
    (hc : Closing s c) (hi : ∀ v, s.setters[i]? ≠ some (v, .swapped (some c))) : Closing t c := by
  obtain ⟨k, v, hk⟩ := hc
  refine ⟨k, v, ?_⟩
  rw [ht, setSetter_get, hk]
  have : i ≠ k := fun e => hi v (e ▸ hk)
  simp [this]

theorem winv_swap {s s' : WState} {i : Nat} (hI : WatchInv s) (h : wstep WCfg.std s (.swap i) = some s') : WatchInv s' := by
  obtain ⟨v, hv, rfl⟩ := wstep_swap h
  have hlen : (swapState s i v).cells.length = s.cells.length + 1 := by simp [swapState, setSetter]
  have hhist : (swapState s i v).hist = s.hist ++ [v] := rfl
  have hcells : (swapState s i v).cells = s.cells ++ [{ val := some v, closed := false, epoch := (s.hist ++ [v]).length }] := rfl
  refine ⟨?_, ?_, ?_, ?_, ?_⟩
  · intro c hc
    have : some s.cells.length = some c := hc
    rw [hlen]; simp at this; omega
  · intro hc; cases hc
  · intro c ce hce
    rw [hcells, List.getElem?_append] at hce
    rw [hlen, hhist]
    split at hce
    · rename_i hlt
      obtain ⟨h1, h2, h3, h4⟩ := hI.cell c ce hce
      refine ⟨by simp; omega, ?_, by intro; omega, fun _ => ⟨by simp; omega, ?_⟩⟩
      · rw [List.take_append_of_le_length h1]; exact h2
      · by_cases hlast : c + 1 = s.cells.length
        · -- the cell that was current: the swapping setter now holds it
          right
          refine ⟨i, v, ?_⟩
          have hp : s.ptr = some c := by
            cases hptr : s.ptr with
            | none => have := (hI.ptr_none hptr).1; simp [this] at hlt
            | some c' => have := hI.ptr_last c' hptr; congr; omega
          show (setSetter _ i (.swapped s.ptr)).setters[i]? = _
          rw [setSetter_get]; simp [hv, hp]
        · rcases (h4 (by omega)).2 with hcl | hcl
          · exact .inl hcl
          · right
            refine closing_setSetter (s := s) (i := i) (pc := .swapped s.ptr) _ rfl hcl ?_
            intro v' hv'; rw [hv] at hv'; cases hv'
    · rename_i hge
      have hc : c = s.cells.length := by
        have := (List.getElem?_eq_some_iff.mp hce).1; simp at this; omega
      subst hc
      simp at hce; subst hce
      refine ⟨by simp, ?_, fun _ => ⟨by simp, rfl⟩, by intro; omega⟩
      rw [List.take_of_length_le (by simp)]
      exact (latest_append s.hist v).symm
  · intro k v' oc hk
    rw [hlen]
    have hk' : (setSetter _ i (.swapped s.ptr)).setters[k]? = _ := hk
    rw [setSetter_get] at hk'
    cases hs : s.setters[k]? with
    | none => simp [hs] at hk'
    | some p =>
      simp only [hs, Option.map_some, Option.some.injEq] at hk'
      split at hk'
      · simp only [Prod.mk.injEq, SetPc.swapped.injEq] at hk'
        have := hI.ptr_last oc hk'.2; omega
      · subst hk'; have := hI.setter k _ oc hs; omega
  · intro j c lin hj
    have hj' : s.readers[j]? = some (.done c lin) := hj
    obtain ⟨ce, hce, he⟩ := hI.reader j c lin hj'
    refine ⟨ce, ?_, he⟩
    rw [hcells, List.getElem?_append_left (List.getElem?_eq_some_iff.mp hce).1]; exact hce

/-- only the pc of setter `i` changes, and it does not end up in `swapped (some _)` -/
theorem winv_setSetter_done {s : WState} {i : Nat} {pc : SetPc} (hI : WatchInv s)
    (hpc : ∀ oc, pc ≠ .swapped (some oc))
    (hkeep : ∀ c ce, s.cells[c]? = some ce → c + 1 < s.cells.length → Closing s c → (∃ v, s.setters[i]? = some (v, .swapped (some c))) → ce.closed = true) :
    WatchInv (setSetter s i pc) := by
  refine ⟨hI.ptr_last, hI.ptr_none, ?_, ?_, hI.reader⟩
  · intro c ce hce
    obtain ⟨h1, h2, h3, h4⟩ := hI.cell c ce hce
    refine ⟨h1, h2, h3, fun hlt => ⟨(h4 hlt).1, ?_⟩⟩
    rcases (h4 hlt).2 with hcl | hcl
    · exact .inl hcl
    · by_cases hi : ∃ v, s.setters[i]? = some (v, .swapped (some c))
      · exact .inl (hkeep c ce hce hlt hcl hi)
      · right
        exact closing_setSetter (s := s) (i := i) (pc := pc) _ rfl hcl (fun v hv => hi ⟨v, hv⟩)
  · intro k v oc hk
    rw [setSetter_get] at hk
    cases hs : s.setters[k]? with
    | none => simp [hs] at hk
    | some p =>
      simp only [hs, Option.map_some, Option.some.injEq] at hk
      split at hk
      · simp only [Prod.mk.injEq] at hk
        exact absurd hk.2 (hpc oc)
      · subst hk; exact hI.setter k _ oc hs

theorem winv_close {s s' : WState} {i : Nat} (hI : WatchInv s) (h : wstep WCfg.std s (.close i) = some s') : WatchInv s' := by
  obtain ⟨v, old, hv, hcase⟩ := wstep_close h
  rcases hcase with ⟨rfl, rfl⟩ | ⟨oc, rfl, ⟨hcl, rfl⟩ | ⟨hcl, rfl⟩⟩
  · refine winv_setSetter_done hI (by simp) ?_
    intro c ce _ _ _ ⟨v', hv'⟩
    rw [hv] at hv'; cases hv'
  · refine winv_setSetter_done hI (by simp) ?_
    intro c ce hce _ _ ⟨v', hv'⟩
    rw [hv] at hv'
    simp only [Option.some.injEq, Prod.mk.injEq, SetPc.swapped.injEq] at hv'
    obtain ⟨_, rfl⟩ := hv'
    simpa [cellAt, hce] using hcl
  · -- the channel of the old cell is closed now
    have hoc := hI.setter i v oc hv
    have hI2 : WatchInv { s with cells := s.cells.set oc { cellAt s oc with closed := true } } := by
      refine ⟨by simpa using hI.ptr_last, ?_, ?_, by simpa using hI.setter, ?_⟩
      · intro hp
        have := hI.ptr_none hp
        simp [this.1] at hoc
      · intro c ce hce
        have hce' : (s.cells.set oc { cellAt s oc with closed := true })[c]? = some ce := hce
        rw [List.getElem?_set] at hce'
        show _ ∧ _ ∧ (c + 1 = (s.cells.set oc _).length → _) ∧ (c + 1 < (s.cells.set oc _).length → _)
        rw [List.length_set]
        split at hce'
        · rename_i hoc'
          subst hoc'
          split at hce'
          · rename_i hlt
            have hget : s.cells[oc]? = some (cellAt s oc) := by
              simp [cellAt, List.getElem?_eq_getElem hlt]
            obtain ⟨h1, h2, h3, h4⟩ := hI.cell oc (cellAt s oc) hget
            simp only [Option.some.injEq] at hce'
            subst hce'
            exact ⟨h1, h2, by intro; omega, fun hlt' => ⟨(h4 hlt').1, .inl rfl⟩⟩
          · cases hce'
        · obtain ⟨h1, h2, h3, h4⟩ := hI.cell c ce hce'
          refine ⟨h1, h2, h3, fun hlt => ⟨(h4 hlt).1, ?_⟩⟩
          rcases (h4 hlt).2 with hc | ⟨k, v', hk⟩
          · exact .inl hc
          · exact .inr ⟨k, v', hk⟩
      · intro j c lin hj
        obtain ⟨ce, hce, he⟩ := hI.reader j c lin hj
        show ∃ ce, (s.cells.set oc _)[c]? = some ce ∧ _
        rw [List.getElem?_set]
        by_cases hoc' : oc = c
        · subst hoc'
          simp only [if_true, (List.getElem?_eq_some_iff.mp hce).1]
          refine ⟨_, rfl, ?_⟩
          simpa [cellAt, hce] using he
        · simp only [hoc', if_false]
          exact ⟨ce, hce, he⟩
    refine winv_setSetter_done hI2 (by simp) ?_
    intro c ce hce _ _ ⟨v', hv'⟩
    have hv'' : s.setters[i]? = some (v', .swapped (some c)) := hv'
    rw [hv] at hv''
    simp only [Option.some.injEq, Prod.mk.injEq, SetPc.swapped.injEq] at hv''
    obtain ⟨_, rfl⟩ := hv''
    have hce' : (s.cells.set oc { cellAt s oc with closed := true })[oc]? = some ce := hce
    rw [List.getElem?_set] at hce'
    simp only [if_true] at hce'
    split at hce'
    · simp only [Option.some.injEq] at hce'; subst hce'; rfl
    · cases hce'

/-- only reader `j` changes -/
theorem winv_setReader {s : WState} {j : Nat} {pc : ValPc} (hI : WatchInv s)
    (hpc : ∀ c lin, pc = .done c lin → ∃ ce, s.cells[c]? = some ce ∧ ce.epoch = lin) :
    WatchInv (setReader s j pc) := by
  refine ⟨hI.ptr_last, hI.ptr_none, hI.cell, hI.setter, ?_⟩
  intro k c lin hk
  have hk' : (s.readers.set j pc)[k]? = some (.done c lin) := hk
  rw [List.getElem?_set] at hk'
  split at hk'
  · split at hk'
    · simp only [Option.some.injEq] at hk'; exact hpc c lin hk'
    · cases hk'
  · exact hI.reader k c lin hk'

theorem winv_ptr_cell {s : WState} (hI : WatchInv s) {c : Nat} (hp : s.ptr = some c) :
    ∃ ce, s.cells[c]? = some ce ∧ ce.epoch = s.hist.length ∧ ce.closed = false := by
  have hl := hI.ptr_last c hp
  have hlt : c < s.cells.length := by omega
  refine ⟨s.cells[c], List.getElem?_eq_getElem hlt, ?_⟩
  exact (hI.cell c _ (List.getElem?_eq_getElem hlt)).2.2.1 hl

theorem winv_step {s s' : WState} {l : WLabel} (hI : WatchInv s) (h : wstep WCfg.std s l = some s') : WatchInv s' := by
  cases l with
  | swap i => exact winv_swap hI h
  | close i => exact winv_close hI h
  | load j =>
    obtain ⟨_, hcase⟩ := wstep_load h
    rcases hcase with ⟨c, hp, rfl⟩ | ⟨_, rfl⟩
    · refine winv_setReader hI ?_
      intro c' lin he
      simp only [ValPc.done.injEq] at he
      obtain ⟨rfl, rfl⟩ := he
      obtain ⟨ce, h1, h2, _⟩ := winv_ptr_cell hI hp
      exact ⟨ce, h1, h2⟩
    · exact winv_setReader hI (by intro c lin he; cases he)
  | reload j =>
    obtain ⟨_, hcase⟩ := wstep_reload h
    rcases hcase with ⟨c, hp, rfl⟩ | ⟨_, rfl⟩
    · refine winv_setReader hI ?_
      intro c' lin he
      simp only [ValPc.done.injEq] at he
      obtain ⟨rfl, rfl⟩ := he
      obtain ⟨ce, h1, h2, _⟩ := winv_ptr_cell hI hp
      exact ⟨ce, h1, h2⟩
    · exact winv_setReader hI (by intro c lin he; cases he)
  | cas j =>
    obtain ⟨_, hcase⟩ := wstep_cas h
    rcases hcase with ⟨hp, rfl⟩ | ⟨c, _, rfl⟩
    · obtain ⟨hc, hh⟩ := hI.ptr_none hp
      have hI2 : WatchInv { s with ptr := some s.cells.length, cells := s.cells ++ [{ val := none, closed := false, epoch := s.hist.length }] } := by
        refine ⟨?_, (by intro h; cases h), ?_, ?_, ?_⟩
        · intro c h
          have : some s.cells.length = some c := h
          simp [hc] at this ⊢; omega
        · intro c ce hce
          have hce' : (s.cells ++ [{ val := none, closed := false, epoch := s.hist.length }])[c]? = some ce := hce
          simp only [hc, hh, List.nil_append, List.length_nil] at hce'
          have h0 : c = 0 := by
            have := (List.getElem?_eq_some_iff.mp hce').1; simp at this; omega
          subst h0
          simp at hce'; subst hce'
          simp [hc, hh, latest]
        · intro i v oc hi
          have := hI.setter i v oc hi
          simp [hc] at this
        · intro k c lin hk
          obtain ⟨ce, hce, _⟩ := hI.reader k c lin hk
          simp [hc] at hce
      refine winv_setReader hI2 ?_
      intro c lin he
      simp only [ValPc.done.injEq] at he
      obtain ⟨rfl, rfl⟩ := he
      exact ⟨{ val := none, closed := false, epoch := s.hist.length }, by simp [hc], rfl⟩
    · exact winv_setReader hI (by intro c lin he; cases he)

theorem winv_reach {s : WState} (h : WReach WCfg.std s) : WatchInv s := by
  induction h with
  | init vals r => exact winv_init vals r
  | step l _ hs ih => exact winv_step ih hs

/-! ## Future -/

theorem setFiller_get (s : FState) (i k : Nat) (pc : FillPc) :
    (setFiller s i pc).fillers[k]? = (s.fillers[k]?).map (fun p => if i = k then (p.1, pc) else p) := by
  simp [setFiller, List.getElem?_modify]

theorem setWaiter_get (s : FState) (j k : Nat) (pc : WaitPc) :
    (setWaiter s j pc).waiters[k]? = (s.waiters[k]?).map (fun w => if j = k then { w with pc := pc } else w) := by
  simp [setWaiter, List.getElem?_modify]

/-- the values the `Fill` calls of this run carry (fixed at the start) -/
def fvals (s : FState) : List Int := s.fillers.map (·.1)

theorem fvals_setFiller (s : FState) (i : Nat) (pc : FillPc) : fvals (setFiller s i pc) = fvals s := by
  apply List.ext_getElem?
  intro k
  simp only [fvals, List.getElem?_map, setFiller_get]
  cases s.fillers[k]? with
  | none => rfl
  | some p => by_cases h : i = k <;> simp [h]

structure FutInv (v : Int) (s : FState) : Prop where
  vals : fvals s = [v]
  filled_x : ∀ (i : Nat) (v' : Int) (pc : FillPc), s.fillers[i]? = some (v', pc) → pc ≠ .idle → s.x = some v
  closed_x : s.closed = true → s.x = some v
  passed : ∀ (j : Nat) (w : FWaiter), s.waiters[j]? = some w → w.pc = .passed → s.closed = true
  doneVal : ∀ (j : Nat) (w : FWaiter) (r : Option Int), s.waiters[j]? = some w → w.pc = .done (.val r) → r = some v
  doneErr : ∀ (j : Nat) (w : FWaiter), s.waiters[j]? = some w → w.pc = .done .ctxErr → w.withCtx = true ∧ w.cancelled = true

theorem finv_init (v : Int) (ws : List Bool) : FutInv v (finit [v] ws) := by
  refine ⟨rfl, ?_, by simp [finit], ?_, ?_, ?_⟩
  · intro i v' pc h hne
    simp only [finit, List.map_cons, List.map_nil] at h
    cases i with
    | zero => simp at h; exact absurd h.2.symm hne
    | succ i => simp at h
  · intro j w hw hp
    simp only [finit, List.getElem?_map] at hw
    cases hb : ws[j]? <;> simp [hb] at hw
    subst hw; simp at hp
  · intro j w r hw hp
    simp only [finit, List.getElem?_map] at hw
    cases hb : ws[j]? <;> simp [hb] at hw
    subst hw; simp at hp
  · intro j w hw hp
    simp only [finit, List.getElem?_map] at hw
    cases hb : ws[j]? <;> simp [hb] at hw
    subst hw; simp at hp

/-- a filler entry of a one-`Fill` run carries the value `v` -/
theorem filler_val {v : Int} {s : FState} (hv : fvals s = [v]) {i : Nat} {v' : Int} {pc : FillPc}
    (h : s.fillers[i]? = some (v', pc)) : v' = v := by
  have : (fvals s)[i]? = some v' := by simp [fvals, h]
  rw [hv] at this
  cases i with
  | zero => simpa using this.symm
  | succ i => simp at this

theorem finv_setWaiter {v : Int} {s : FState} {j : Nat} {w : FWaiter} {pc : WaitPc} (hI : FutInv v s)
    (hw : s.waiters[j]? = some w)
    (h1 : pc = .passed → s.closed = true) (h2 : ∀ r, pc = .done (.val r) → r = some v)
    (h3 : pc = .done .ctxErr → w.withCtx = true ∧ w.cancelled = true) : FutInv v (setWaiter s j pc) := by
  have key : ∀ (k : Nat) (w' : FWaiter), (setWaiter s j pc).waiters[k]? = some w' →
      (s.waiters[k]? = some w' ∧ j ≠ k) ∨ (j = k ∧ w' = { w with pc := pc }) := by
    intro k w' hk
    rw [setWaiter_get] at hk
    cases hs : s.waiters[k]? with
    | none => simp [hs] at hk
    | some w0 =>
      simp only [hs, Option.map_some, Option.some.injEq] at hk
      by_cases hjk : j = k
      · subst hjk
        have : w0 = w := by simpa [hw] using hs.symm
        subst this
        right; exact ⟨rfl, by simpa using hk.symm⟩
      · left; simp only [hjk, if_false] at hk; subst hk; exact ⟨rfl, hjk⟩
  refine ⟨hI.vals, hI.filled_x, hI.closed_x, ?_, ?_, ?_⟩
  · intro k w' hk hp
    rcases key k w' hk with ⟨h, _⟩ | ⟨_, rfl⟩
    · exact hI.passed k w' h hp
    · exact h1 hp
  · intro k w' r hk hp
    rcases key k w' hk with ⟨h, _⟩ | ⟨_, rfl⟩
    · exact hI.doneVal k w' r h hp
    · exact h2 r hp
  · intro k w' hk hp
    rcases key k w' hk with ⟨h, _⟩ | ⟨_, rfl⟩
    · exact hI.doneErr k w' h hp
    · exact h3 hp

theorem finv_step {v : Int} {s s' : FState} {l : FLabel} (hI : FutInv v s) (h : fstep FCfg.std s l = some s') :
    FutInv v s' := by
  cases l with
  | fill1 i =>
    simp only [fstep, FCfg.std, if_true] at h
    split at h
    · rename_i v' hv'
      have := filler_val hI.vals hv'
      subst this
      simp only [Option.some.injEq] at h
      subst h
      refine ⟨by rw [fvals_setFiller]; exact hI.vals, fun _ _ _ _ _ => rfl, fun _ => rfl, hI.passed, hI.doneVal, hI.doneErr⟩
    · cases h
  | fill2 i =>
    simp only [fstep] at h
    split at h
    · rename_i v' hv'
      have hx := hI.filled_x i v' .stored hv' (by simp)
      simp only [doClose] at h
      split at h
      · rename_i s1 hs1
        split at hs1
        · cases hs1
        · simp only [Option.some.injEq] at hs1 h
          subst hs1; subst h
          refine ⟨by rw [fvals_setFiller]; exact hI.vals, fun _ _ _ _ _ => hx, fun _ => hx, fun _ _ _ _ => rfl, hI.doneVal, hI.doneErr⟩
      · simp only [Option.some.injEq] at h
        subst h
        exact ⟨by rw [fvals_setFiller]; exact hI.vals, fun _ _ _ _ _ => hx, hI.closed_x, hI.passed, hI.doneVal, hI.doneErr⟩
    · rename_i v' hv'
      have hx := hI.filled_x i v' .closedIt hv' (by simp)
      simp only [Option.some.injEq] at h
      subst h
      have := filler_val hI.vals hv'
      subst this
      exact ⟨by rw [fvals_setFiller]; exact hI.vals, fun _ _ _ _ _ => rfl, fun _ => rfl, hI.passed, hI.doneVal, hI.doneErr⟩
    · cases h
  | call j =>
    simp only [fstep] at h
    split at h
    · rename_i w hw
      split at h
      · simp only [Option.some.injEq] at h; subst h
        exact finv_setWaiter hI hw (by simp) (by simp) (by simp)
      · cases h
    · cases h
  | recv j =>
    simp only [fstep] at h
    split at h
    · rename_i w hw
      split at h
      · rename_i hc
        simp only [Option.some.injEq] at h; subst h
        simp only [Bool.and_eq_true, decide_eq_true_eq] at hc
        exact finv_setWaiter hI hw (fun _ => hc.2) (by simp) (by simp)
      · cases h
    · cases h
  | read j =>
    simp only [fstep] at h
    split at h
    · rename_i w hw
      split at h
      · rename_i hp
        simp only [Option.some.injEq] at h; subst h
        have hx := hI.closed_x (hI.passed j w hw hp)
        exact finv_setWaiter hI hw (by simp) (by intro r hr; simp at hr; rw [← hr]; exact hx) (by simp)
      · cases h
    · cases h
  | giveUp j =>
    simp only [fstep] at h
    split at h
    · rename_i w hw
      split at h
      · rename_i hc
        simp only [Option.some.injEq] at h; subst h
        simp only [Bool.and_eq_true, decide_eq_true_eq] at hc
        exact finv_setWaiter hI hw (by simp) (by simp) (fun _ => ⟨hc.1.2, hc.2⟩)
      · cases h
    · cases h
  | cancel j =>
    simp only [fstep] at h
    split at h
    · rename_i w hw
      split at h
      · cases h
      · simp only [Option.some.injEq] at h; subst h
        have key : ∀ (k : Nat) (w' : FWaiter), (s.waiters.modify j (fun w => { w with cancelled := true }))[k]? = some w' →
            ∃ w0, s.waiters[k]? = some w0 ∧ w'.pc = w0.pc ∧ w'.withCtx = w0.withCtx ∧ (w0.cancelled = true → w'.cancelled = true) := by
          intro k w' hk
          rw [List.getElem?_modify] at hk
          cases hs : s.waiters[k]? with
          | none => simp [hs] at hk
          | some w0 =>
            simp only [hs, Option.map_eq_map, Option.map_some, Option.some.injEq] at hk
            refine ⟨w0, rfl, ?_⟩
            split at hk <;> subst hk <;> simp
        refine ⟨hI.vals, hI.filled_x, hI.closed_x, ?_, ?_, ?_⟩
        · intro k w' hk hp
          obtain ⟨w0, h0, hpc, _, _⟩ := key k w' hk
          exact hI.passed k w0 h0 (hpc ▸ hp)
        · intro k w' r hk hp
          obtain ⟨w0, h0, hpc, _, _⟩ := key k w' hk
          exact hI.doneVal k w0 r h0 (hpc ▸ hp)
        · intro k w' hk hp
          obtain ⟨w0, h0, hpc, hctx, hcan⟩ := key k w' hk
          have := hI.doneErr k w0 h0 (hpc ▸ hp)
          exact ⟨hctx ▸ this.1, hcan this.2⟩
    · cases h

theorem fstep_fvals {cfg : FCfg} {s s' : FState} {l : FLabel} (h : fstep cfg s l = some s') : fvals s' = fvals s := by
  cases l <;> simp only [fstep] at h
  case fill1 i =>
    split at h
    · split at h
      · cases h; rw [fvals_setFiller]; rfl
      · split at h
        · rename_i s1 hs1
          cases h; rw [fvals_setFiller]
          simp only [doClose] at hs1; split at hs1 <;> cases hs1; rfl
        · cases h; rw [fvals_setFiller]
    · cases h
  case fill2 i =>
    split at h
    · split at h
      · rename_i s1 hs1
        cases h; rw [fvals_setFiller]
        simp only [doClose] at hs1; split at hs1 <;> cases hs1; rfl
      · cases h; rw [fvals_setFiller]
    · cases h; rw [fvals_setFiller]; rfl
    · cases h
  all_goals
    split at h
    · split at h <;> first | cases h; rfl | cases h
    · cases h

theorem finv_reach {v : Int} {s : FState} (h : FReach FCfg.std s) (hv : fvals s = [v]) : FutInv v s := by
  induction h with
  | init vals ws =>
    have : vals = [v] := by
      have : fvals (finit vals ws) = vals := by simp [fvals, finit, List.map_map, Function.comp_def]
      rw [this] at hv; exact hv
    subst this
    exact finv_init v ws
  | step l _ hs ih => exact finv_step (ih (by rw [← fstep_fvals hs]; exact hv)) hs

/-! ## Lazy = sync.OnceValue -/

structure LazyInv (s : LState) : Prop where
  fresh : s.once = .fresh → s.runs = 0 ∧ ∀ (j : Nat) (c : CallPc), s.callers[j]? = some c → c = .idle
  running : s.once = .running → s.runs = 1 ∧ (∀ (j : Nat) (r : LOut), s.callers[j]? ≠ some (.done r)) ∧
      ∀ (j k : Nat), s.callers[j]? = some .inF → s.callers[k]? = some .inF → j = k
  done : ∀ v, s.once = .done v → s.runs = 1 ∧ (∀ (j : Nat) (r : LOut), s.callers[j]? = some (.done r) → r = v) ∧
      ∀ (j : Nat), s.callers[j]? ≠ some .inF

theorem linv_init (n : Nat) : LazyInv (linit n) := by
  refine ⟨fun _ => ⟨rfl, ?_⟩, by simp [linit], by simp [linit]⟩
  intro j c h
  simp only [linit, List.getElem?_replicate] at h
  split at h <;> cases h; rfl

theorem linv_step {s s' : LState} {l : LLabel} (hI : LazyInv s) (h : lstep true s l = some s') : LazyInv s' := by
  cases l with
  | enter j =>
    simp only [lstep, Bool.not_true, Bool.false_eq_true, if_false] at h
    split at h
    · rename_i hj
      split at h
      · -- first call: starts running f
        rename_i ho
        cases h
        obtain ⟨hr, hall⟩ := hI.fresh ho
        refine ⟨by simp, fun _ => ⟨by simp [hr], ?_, ?_⟩, by simp⟩
        · intro k r hk
          simp only [List.getElem?_set] at hk
          split at hk
          · split at hk <;> cases hk
          · have := hall k _ hk; cases this
        · intro a b ha hb
          simp only [List.getElem?_set] at ha hb
          split at ha
          · rename_i e1
            split at hb
            · rename_i e2; omega
            · have := hall b _ hb; cases this
          · have := hall a _ ha; cases this
      · rename_i ho
        cases h
        obtain ⟨hr, hnd, huniq⟩ := hI.running ho
        refine ⟨by simp [ho], fun _ => ⟨hr, ?_, ?_⟩, by simp [ho]⟩
        · intro k r hk
          simp only [List.getElem?_set] at hk
          split at hk
          · split at hk <;> cases hk
          · exact hnd k r hk
        · intro a b ha hb
          simp only [List.getElem?_set] at ha hb
          split at ha
          · split at ha <;> cases ha
          · split at hb
            · split at hb <;> cases hb
            · exact huniq a b ha hb
      · rename_i v ho
        cases h
        obtain ⟨hr, hd, hnf⟩ := hI.done v ho
        refine ⟨by simp [ho], by simp [ho], ?_⟩
        intro v' hv'
        have : v' = v := by simpa [ho] using hv'.symm
        subst this
        refine ⟨hr, ?_, ?_⟩
        · intro k r hk
          simp only [List.getElem?_set] at hk
          split at hk
          · split at hk
            · simpa using hk.symm
            · cases hk
          · exact hd k r hk
        · intro k hk
          simp only [List.getElem?_set] at hk
          split at hk
          · split at hk <;> cases hk
          · exact hnf k hk
    · cases h
  | finish j v =>
    simp only [lstep] at h
    split at h
    · rename_i hj
      cases h
      have ho : s.once = .running := by
        cases hs : s.once with
        | fresh => have := (hI.fresh hs).2 j _ hj; cases this
        | running => rfl
        | done v' => exact absurd hj ((hI.done v' hs).2.2 j)
      obtain ⟨hr, hnd, huniq⟩ := hI.running ho
      refine ⟨by simp, by simp, ?_⟩
      intro v' hv'
      have : v' = v := by simpa using hv'.symm
      subst this
      refine ⟨hr, ?_, ?_⟩
      · intro k r hk
        simp only [List.getElem?_set] at hk
        split at hk
        · split at hk
          · simpa using hk.symm
          · cases hk
        · exact absurd hk (hnd k r)
      · intro k hk
        simp only [List.getElem?_set] at hk
        split at hk
        · split at hk <;> cases hk
        · rename_i hne
          exact hne (huniq j k hj hk)
    · cases h
  | wake j =>
    simp only [lstep] at h
    split at h
    · rename_i v hj ho
      cases h
      obtain ⟨hr, hd, hnf⟩ := hI.done v ho
      refine ⟨by simp [ho], by simp [ho], ?_⟩
      intro v' hv'
      have : v' = v := by simpa [ho] using hv'.symm
      subst this
      refine ⟨hr, ?_, ?_⟩
      · intro k r hk
        simp only [List.getElem?_set] at hk
        split at hk
        · split at hk
          · simpa using hk.symm
          · cases hk
        · exact hd k r hk
      · intro k hk
        simp only [List.getElem?_set] at hk
        split at hk
        · split at hk <;> cases hk
        · exact hnf k hk
    · cases h

theorem linv_reach {s : LState} (h : LReach true s) : LazyInv s := by
  induction h with
  | init n => exact linv_init n
  | step l _ hs ih => exact linv_step ih hs

end Juniper.Proofs.Watch
