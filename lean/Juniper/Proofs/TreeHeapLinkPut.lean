import Juniper.Proofs.TreeHeapLinkSplit
/-!
# Linking the two B-tree models (C03): `Put`

`ins_sim`: by induction over the functional `ins` (top-down), the heap model's `Put` (descent, then
bottom-up through parent pointers) does to the store exactly what `ins` does to the subtree:

* the descent arrives at the node where `ins` bottoms out;
* `found`: the one value slot is written;
* `one`: the bottom-up phase (`putLeaf`: leaf insert, or `overfill` cascading up to a node with room
  below or at this subtree's root) succeeds and leaves the new subtree in the store;
* `split`: the bottom-up phase, having split this subtree's root into the two halves `l`, `r` that
  `ins` returns, continues with `up` at this node.
-/
namespace Juniper.Proofs.TreeHeapLink
open Juniper Juniper.Model.BTree Juniper.Model.BTreeSlotsOps Juniper.Proofs.Tree Juniper.Proofs.TreeSlotsOps

variable {K V : Type}

/-! ## constants -/

theorem capInt : (keysCap : Int) = Gen.Tree.keysLen ∧ Gen.Tree.keysLen = Gen.Tree.maxKVs ∧
    Gen.Tree.leftN.toNat = Gen.Tree.medianIdx.toNat ∧ (Gen.Tree.rightFirstIdx 0).toNat = Gen.Tree.medianIdx.toNat + 1 ∧
    (Gen.Tree.rightFirstChildIdx 0).toNat = Gen.Tree.medianIdx.toNat + 1 ∧
    Gen.Tree.medianIdx.toNat + 1 + Gen.Tree.rightN.toNat = keysCap + 1 := by decide

theorem full_iff (n : Nat) : Gen.Tree.full (n : Int) = decide (n = keysCap) := by
  have := capInt.1
  simp only [Gen.Tree.full, decide_eq_decide]
  omega

/-- `overfillNode` on a full node, in the normal form of `splitNode_*_rep` -/
theorem overfillNode_eq (cmp : K → K → Int) (id : Nat) (kvs : List (K × V)) (kids : List (Node K V)) (kv : K × V)
    (afterK : Option (Node K V)) (fresh : Nat) (hfull : kvs.length = keysCap)
    (hk : (kids = [] ∧ afterK = none) ∨ (kids.length = kvs.length + 1 ∧ afterK.isSome)) :
    overfillNode cmp id kvs kids kv afterK fresh =
      (.mk id ((insertAt kvs (lowerIdx Gen.Tree.amalgamLess cmp kv.1 kvs) kv).take Gen.Tree.medianIdx.toNat)
          ((match afterK with
            | none => kids
            | some r => insertAt kids (lowerIdx Gen.Tree.amalgamLess cmp kv.1 kvs + 1) r).take (Gen.Tree.medianIdx.toNat + 1)),
       (insertAt kvs (lowerIdx Gen.Tree.amalgamLess cmp kv.1 kvs) kv).getD Gen.Tree.medianIdx.toNat kv,
       .mk fresh ((insertAt kvs (lowerIdx Gen.Tree.amalgamLess cmp kv.1 kvs) kv).drop (Gen.Tree.medianIdx.toNat + 1))
          ((match afterK with
            | none => kids
            | some r => insertAt kids (lowerIdx Gen.Tree.amalgamLess cmp kv.1 kvs + 1) r).drop (Gen.Tree.medianIdx.toNat + 1))) := by
  obtain ⟨c1, c2, c3, c4, c5, c6⟩ := capInt
  have hall : (insertAt kvs (lowerIdx Gen.Tree.amalgamLess cmp kv.1 kvs) kv).length = keysCap + 1 := by
    rw [length_insertAt, hfull]
  unfold overfillNode
  simp only [c3, c4, c5, extraChildPos_eq]
  generalize Gen.Tree.medianIdx.toNat = m at *
  generalize Gen.Tree.rightN.toNat = rn at *
  generalize insertAt kvs (lowerIdx Gen.Tree.amalgamLess cmp kv.1 kvs) kv = all at *
  have h1 : (all.drop (m + 1)).take rn = all.drop (m + 1) := by
    apply List.take_of_length_le; simp only [List.length_drop, hall]; omega
  rw [h1]
  rcases hk with ⟨rfl, rfl⟩ | ⟨hl, ha⟩
  · simp
  · obtain ⟨r, rfl⟩ := Option.isSome_iff_exists.mp ha
    simp only
    have h2 : ((insertAt kids (lowerIdx Gen.Tree.amalgamLess cmp kv.1 kvs + 1) r).drop (m + 1)).take (rn + 1) =
        (insertAt kids (lowerIdx Gen.Tree.amalgamLess cmp kv.1 kvs + 1) r).drop (m + 1) := by
      apply List.take_of_length_le; simp only [List.length_drop, length_insertAt, hl, hfull]; omega
    rw [h2]

/-- identities of the roots of what `ins` returns -/
theorem ins_shape (cmp : K → K → Int) (k : K) (v : V) (x : Node K V) (fresh : Nat) :
    match (ins cmp k v x fresh).1 with
    | .crash => True
    | .found x' => x'.id = x.id
    | .one x' => x'.id = x.id
    | .split l _ r => l.id = x.id ∧ r.id + 1 = (ins cmp k v x fresh).2 ∧ fresh ≤ r.id := by
  fun_induction ins cmp k v x fresh with
  | case1 => simp [Node.id]
  | case2 => simp [Node.id]
  | case3 id kvs kids i hs hleaf hroom r => simp [r, overfillNode, Node.id]
  | case4 => simp
  | case5 id kvs kids i hs hinner c hc f hres ih => simp
  | case6 id kvs kids i hs hinner c hc c' f hres ih => simp [Node.id]
  | case7 id kvs kids i hs hinner c hc c' f hres ih => simp [Node.id]
  | case8 id kvs kids i hs hinner c hc l sep r f hres kids1 hroom ih => simp [Node.id]
  | case9 id kvs kids i hs hinner c hc l sep r f hres kids1 hroom s ih =>
    rw [hres] at ih
    simp only at ih
    simp only [s, overfillNode, Node.id]
    exact ⟨trivial, trivial, by omega⟩

/-! ## lists -/

theorem map_replaceAt {α β : Type} (f : α → β) (l : List α) (i : Nat) (x : α) :
    (replaceAt l i x).map f = replaceAt (l.map f) i (f x) := by
  simp [replaceAt, List.map_take, List.map_drop]

theorem map_insertAt {α β : Type} (f : α → β) (l : List α) (i : Nat) (x : α) :
    (insertAt l i x).map f = insertAt (l.map f) i (f x) := by
  simp [insertAt, List.map_take, List.map_drop]

theorem replaceAt_self {α : Type} {l : List α} {i : Nat} {x : α} (h : l[i]? = some x) : replaceAt l i x = l :=
  (split_at_getElem? h).1.symm

theorem mem_replaceAt' {α : Type} {l : List α} {i : Nat} {x y : α} (h : y ∈ replaceAt l i x) :
    y = x ∨ y ∈ l.take i ∨ y ∈ l.drop (i + 1) := by
  simp only [replaceAt, List.mem_append, List.mem_cons] at h
  rcases h with h | h | h
  · exact Or.inr (Or.inl h)
  · exact Or.inl h
  · exact Or.inr (Or.inr h)

/-- the identities of the children when child `i` is replaced by a node with the same identity -/
theorem map_id_replaceAt {kids : List (Node K V)} {i : Nat} {c c' : Node K V} (hc : kids[i]? = some c)
    (hid : c'.id = c.id) : (replaceAt kids i c').map Node.id = kids.map Node.id := by
  rw [map_replaceAt, hid]
  exact replaceAt_self (by simp [hc])

theorem not_mem_take_of_mem_drop {l : List Nat} (hnd : l.Nodup) {n a : Nat} (h : a ∈ l.drop n) : a ∉ l.take n := by
  rw [← List.take_append_drop n l] at hnd
  exact fun ht => (List.nodup_append.mp hnd).2.2 a ht a h rfl

/-! ## siblings -/

theorem sibling_cnt {kids : List (Node K V)} {i : Nat} {c d : Node K V} (hc : kids[i]? = some c)
    (hd : d ∈ kids.take i ∨ d ∈ kids.drop (i + 1)) (j : Nat) : cnt j d + cnt j c ≤ cntK j kids := by
  rw [cntK_at hc j]
  rcases hd with hd | hd
  · have := cnt_le_cntK hd j; omega
  · have := cnt_le_cntK hd j; omega

/-- the children other than child `i` stay in the store when nothing outside the subtree of child `i`
changes -/
theorem siblings_keep {g g' : Store K V} {id : Nat} {kids : List (Node K V)} {i : Nat} {c : Node K V}
    (hc : kids[i]? = some c) (hsub : ∀ d ∈ kids, Sub g (some id) d) (hnd : ∀ j, cntK j kids ≤ 1)
    (hfr : ∀ j, cnt j c = 0 → 0 < cntK j kids → g' j = g j) :
    ∀ d, (d ∈ kids.take i ∨ d ∈ kids.drop (i + 1)) → Sub g' (some id) d := by
  intro d hd
  have hdk : d ∈ kids := by
    rcases hd with hd | hd
    · exact List.mem_of_mem_take hd
    · exact List.mem_of_mem_drop hd
  refine Sub.congr d (fun j hj => hfr j ?_ ?_) (hsub d hdk)
  · have := sibling_cnt hc hd j; have := hnd j; omega
  · have := cnt_le_cntK hdk j; omega

/-! ## the statement -/

/-- nothing outside the subtree `x` (and the freshly allocated objects) has changed -/
structure Frame (h h' : Heap K V) (x : Node K V) : Prop where
  get : ∀ j, cnt j x = 0 → j < h.nodes.length → h'.get j = h.get j
  root : h'.root = h.root
  size : h'.size = h.size
  gen : h'.gen = h.gen

/-- `Put` once the descent has arrived at the leaf `curr` (object `xs`) without finding the key -/
def putLeaf (cmp : K → K → Int) (fuel : Nat) (h : Heap K V) (curr : Nat) (xs : SNode K V Nat) (k : K) (v : V) :
    Option (Heap K V) :=
  if Gen.Tree.putInsertsDirect (Gen.Tree.full xs.n) then
    (toIdx xs.n).bind fun n => (Heap.lowerFrom Gen.Tree.insertLess cmp k xs.keys n 0).bind fun i =>
      h.step (.leafInsert curr i k v) [curr]
  else Heap.overfill cmp fuel h curr k v none

/-- what the heap model does below the subtree `x` of height `ht`, by outcome of `ins` -/
def InsSim (cmp : K → K → Int) (k : K) (v : V) (h : Heap K V) (p : Option Nat) (ht : Nat) (x : Node K V) :
    InsRes K V × Nat → Prop
  | (.crash, _) => False
  | (.found x', _) => ∃ curr idx xs h',
      (∀ fuel, ht + 1 ≤ fuel → Heap.descend cmp k h fuel x.id = some (curr, idx, true)) ∧ h.get curr = some xs ∧
      h.step (.setValue curr idx v) [curr] = some h' ∧ Sub h'.get p x' ∧ Frame h h' x ∧
      h'.nodes.length = h.nodes.length
  | (.one x', f) => ∃ curr idx xs h',
      (∀ fuel, ht + 1 ≤ fuel → Heap.descend cmp k h fuel x.id = some (curr, idx, false)) ∧ h.get curr = some xs ∧
      (∀ fuel, ht + 1 ≤ fuel → putLeaf cmp fuel h curr xs k v = some h') ∧ Sub h'.get p x' ∧ Frame h h' x ∧
      h'.nodes.length = f
  | (.split l sep r, f) => ∃ curr idx xs h1,
      (∀ fuel, ht + 1 ≤ fuel → Heap.descend cmp k h fuel x.id = some (curr, idx, false)) ∧ h.get curr = some xs ∧
      (∀ fuel, putLeaf cmp (fuel + ht + 1) h curr xs k v = up cmp fuel h1 x.id sep.1 sep.2 r.id) ∧
      Sub h1.get p l ∧ Sub h1.get none r ∧ Frame h h1 x ∧ h1.nodes.length = f

/-- one level of the descent -/
theorem descend_here {cmp : K → K → Int} {k : K} {h : Heap K V} {id : Nat} {sx : SNode K V Nat} {kvs : List (K × V)}
    {cids : List Nat} (hx : h.get id = some sx) (hr : NodeRep sx kvs cids) (fuel : Nat) :
    Heap.descend cmp k h (fuel + 1) id =
      if (searchNode cmp k kvs).2 then some (id, (searchNode cmp k kvs).1, true)
      else if cids = [] then some (id, (searchNode cmp k kvs).1, false)
      else match cids[(searchNode cmp k kvs).1]? with
        | some c => Heap.descend cmp k h fuel c
        | none => none := by
  rw [Heap.descend]
  simp only [bind, pure, hx, Option.bind_some, searchNode_rep cmp k hr]
  split
  · rfl
  · by_cases hc : cids = []
    · have : sx.isLeaf = true := hr.isLeaf_iff.mpr hc
      simp [hc, this]
    · have hl : sx.isLeaf = false := isLeaf_of_rep_cons hr.hkids hc
      simp only [hl, hc, if_false, Bool.false_eq_true]
      cases hg : cids[(searchNode cmp k kvs).1]? with
      | none =>
        have hge : cids.length ≤ (searchNode cmp k kvs).1 := by
          rcases Nat.lt_or_ge (searchNode cmp k kvs).1 cids.length with hlt | hge
          · rw [List.getElem?_eq_getElem hlt] at hg; cases hg
          · exact hge
        rcases Nat.lt_or_ge (searchNode cmp k kvs).1 childrenCap with hlt | hge2
        · rw [hr.hkids.get_tail hge hlt]; rfl
        · rw [List.getElem?_eq_none (by rw [hr.hkids.length]; exact hge2)]; rfl
      | some c =>
        have hlt : (searchNode cmp k kvs).1 < cids.length := (List.getElem?_eq_some_iff.mp hg).1
        have := hr.hkids.get_live hlt
        rw [this]
        have hc' : cids[(searchNode cmp k kvs).1] = c := (List.getElem?_eq_some_iff.mp hg).2
        simp [hc']

/-! ## the three continuations of `up` -/

/-- the parent has room: the separator and the new right node go in behind child `i` -/
theorem up_room (cmp : K → K → Int) {h1 : Heap K V} {cid id rid : Nat} {sl sx sr : SNode K V Nat}
    {kvs : List (K × V)} {cids : List Nat} {i : Nat} (sk : K) (sv : V)
    (hcr : cid ≠ h1.root) (hl : h1.get cid = some sl) (hlp : sl.parent = some id) (hx : h1.get id = some sx)
    (hr : NodeRep sx kvs cids) (hint : cids.length = kvs.length + 1) (hnd : cids.Nodup) (hi : cids[i]? = some cid)
    (hroom : kvs.length < keysCap) (hrid : h1.get rid = some sr) (hne : rid ≠ id) :
    ∃ h3 x2, (∀ fuel, up cmp fuel h1 cid sk sv rid = some h3) ∧ Same h1 h3 ∧
      NodeRep x2 (insertAt kvs i (sk, sv)) (insertAt cids (i + 1) rid) ∧ x2.parent = sx.parent ∧
      ∀ j, h3.get j = if j = rid then some (withParent (some id) sr) else if j = id then some x2 else h1.get j := by
  have hil : i < cids.length := (List.getElem?_eq_some_iff.mp hi).1
  have hidx : indexOf sx.kids cid = some i := by
    have := indexOf_rep hr.hkids hnd hil
    rwa [(List.getElem?_eq_some_iff.mp hi).2] at this
  obtain ⟨h2, x2, hstep, hsame2, hr2, hp2, hg2⟩ := step_parentInsert hx hr hint (idx := i) (by omega) hroom sk sv rid [id]
  have hpres : ∀ c ∈ [rid], (h2.get c).isSome := by
    intro c hc
    simp only [List.mem_singleton] at hc
    subst hc
    rw [hg2]; simp [hne, hrid]
  obtain ⟨h3, hsp, hsame3, hg3⟩ := setParents_spec (some id) [rid] h2 hpres
  have hroomb : Gen.Tree.overfillParentHasRoom (Gen.Tree.full sx.n) = true := by
    rw [hr.hn, full_iff]
    have : ¬ kvs.length = keysCap := by omega
    simp [Gen.Tree.overfillParentHasRoom, this]
  refine ⟨h3, x2, ?_, hsame2.trans hsame3, hr2, hp2, ?_⟩
  · intro fuel
    unfold up
    simp only [if_neg hcr, bind, pure, hl, hlp, hx, Option.bind_some, hroomb, if_true, hidx, hstep]
    exact hsp
  · intro j
    rw [hg3, hg2]
    by_cases hj : j = rid
    · subst hj; simp [hne, hrid]
    · simp [hj]

/-- the parent is full: the next round of `overfill` one level up -/
theorem up_full (cmp : K → K → Int) (fuel : Nat) {h1 : Heap K V} {cid id rid : Nat} {sl sx : SNode K V Nat}
    {kvs : List (K × V)} {cids : List Nat} (sk : K) (sv : V)
    (hcr : cid ≠ h1.root) (hl : h1.get cid = some sl) (hlp : sl.parent = some id) (hx : h1.get id = some sx)
    (hr : NodeRep sx kvs cids) (hfull : kvs.length = keysCap) :
    up cmp fuel h1 cid sk sv rid = Heap.overfill cmp fuel h1 id sk sv (some rid) := by
  have hroomb : Gen.Tree.overfillParentHasRoom (Gen.Tree.full sx.n) = false := by
    rw [hr.hn, full_iff]
    simp [Gen.Tree.overfillParentHasRoom, hfull]
  unfold up
  simp only [if_neg hcr, bind, pure, hl, hlp, hx, Option.bind_some, hroomb]
  rfl

/-- the split node was the root: a new root above the two halves -/
theorem up_root (cmp : K → K → Int) {h1 : Heap K V} {cid rid : Nat} {sl sr : SNode K V Nat} (sk : K) (sv : V)
    (hcr : cid = h1.root) (hl : h1.get cid = some sl) (hrid : h1.get rid = some sr) (hne : cid ≠ rid) :
    ∃ h3 x2, (∀ fuel, up cmp fuel h1 cid sk sv rid = some h3) ∧ h3.root = h1.nodes.length ∧ h3.size = h1.size ∧
      h3.gen = h1.gen ∧ h3.nodes.length = h1.nodes.length + 1 ∧ NodeRep x2 [(sk, sv)] [cid, rid] ∧ x2.parent = none ∧
      ∀ j, h3.get j =
        if j = cid then some (withParent (some h1.nodes.length) sl)
        else if j = rid then some (withParent (some h1.nodes.length) sr)
        else if j = h1.nodes.length then some x2 else h1.get j := by
  obtain ⟨h2, x2, hstep, hroot2, hsize2, hgen2, hlen2, hr2, hp2, hg2⟩ := step_newRoot h1 sk sv cid rid [h1.nodes.length]
  have h1c : cid ≠ h1.nodes.length := by have := get_lt hl; omega
  have h1r : rid ≠ h1.nodes.length := by have := get_lt hrid; omega
  have hpres : ∀ c ∈ [cid, rid], (h2.get c).isSome := by
    intro c hc
    simp only [List.mem_cons, List.not_mem_nil, or_false] at hc
    rcases hc with rfl | rfl
    · rw [hg2]; simp [h1c, hl]
    · rw [hg2]; simp [h1r, hrid]
  obtain ⟨h3, hsp, hsame3, hg3⟩ := setParents_spec (some h1.nodes.length) [cid, rid] h2 hpres
  refine ⟨Heap.event { h3 with root := h1.nodes.length } "newroot", x2, ?_, rfl, ?_, ?_, ?_, hr2, hp2, ?_⟩
  · intro fuel
    unfold up
    simp only [if_pos hcr, bind, pure, hstep, Option.bind_some]
    have : h2.setParents [some cid, some rid] (some h1.nodes.length) = some h3 := hsp
    rw [this]
    rfl
  · show h3.size = h1.size
    rw [hsame3.size, hsize2]
  · show h3.gen = h1.gen
    rw [hsame3.gen, hgen2]
  · show h3.nodes.length = h1.nodes.length + 1
    rw [hsame3.len, hlen2]
  · intro j
    show h3.get j = _
    rw [hg3, hg2]
    by_cases hjc : j = cid
    · subst hjc; simp [h1c, hl]
    · by_cases hjr : j = rid
      · subst hjr; simp [hjc, h1r, hrid]
      · simp [hjc, hjr]

end Juniper.Proofs.TreeHeapLink
