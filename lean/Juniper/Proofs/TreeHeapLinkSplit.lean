import Juniper.Proofs.TreeHeapLinkStore
/-!
# Linking the two B-tree models (C03): searching inside a node, one round of `overfill`

* the slot-level loops `Heap.searchNode`, `Heap.lowerFrom`, `indexOf` on a represented node give what the
  list-level `searchNode`, `lowerIdx` and the position of the child give;
* `overfill_step`: one round of `Heap.overfill` on a full node (leaf or inner) succeeds, splits the node
  as `overfillNode` does, re-parents the children of both halves and continues with `Heap.up` (the rest
  of the loop body: new root / separator insert into the parent / next round one level up).
-/
namespace Juniper.Proofs.TreeHeapLink
open Juniper Juniper.Model.BTree Juniper.Model.BTreeSlotsOps Juniper.Proofs.Tree Juniper.Proofs.TreeSlotsOps

variable {K V : Type}

/-! ## searching -/

theorem searchFrom_eq (cmp : K → K → Int) (k : K) (keys : Slots K) : ∀ (kvs : List (K × V)) (i : Nat),
    (∀ j (hj : j < kvs.length), keys[i + j]? = some (some (kvs[j]).1)) →
    Heap.searchFrom cmp k keys kvs.length i = some ((searchNode cmp k kvs).1 + i, (searchNode cmp k kvs).2)
  | [], i, _ => by simp [Heap.searchFrom, searchNode]
  | (k', v') :: rest, i, hk => by
    have h0 := hk 0 (by simp)
    simp only [Nat.add_zero, List.getElem_cons_zero] at h0
    have hrest : ∀ j (hj : j < rest.length), keys[i + 1 + j]? = some (some (rest[j]).1) := by
      intro j hj
      have := hk (j + 1) (by simp; omega)
      simp only [List.getElem_cons_succ] at this
      rw [← this]; congr 1; omega
    have ih := searchFrom_eq cmp k keys rest (i + 1) hrest
    simp only [List.length_cons, Heap.searchFrom, h0, searchNode]
    split
    · simp
    · split
      · simp
      · rw [ih]; simp; omega

theorem lowerFrom_eq (p : Int → Bool) (cmp : K → K → Int) (k : K) (keys : Slots K) : ∀ (kvs : List (K × V)) (i : Nat),
    (∀ j (hj : j < kvs.length), keys[i + j]? = some (some (kvs[j]).1)) →
    Heap.lowerFrom p cmp k keys kvs.length i = some (lowerIdx p cmp k kvs + i)
  | [], i, _ => by simp [Heap.lowerFrom, lowerIdx]
  | (k', v') :: rest, i, hk => by
    have h0 := hk 0 (by simp)
    simp only [Nat.add_zero, List.getElem_cons_zero] at h0
    have hrest : ∀ j (hj : j < rest.length), keys[i + 1 + j]? = some (some (rest[j]).1) := by
      intro j hj
      have := hk (j + 1) (by simp; omega)
      simp only [List.getElem_cons_succ] at this
      rw [← this]; congr 1; omega
    have ih := lowerFrom_eq p cmp k keys rest (i + 1) hrest
    simp only [List.length_cons, Heap.lowerFrom, h0, lowerIdx]
    split
    · simp
    · rw [ih]; simp; omega

theorem rep_keys_get {x : SNode K V Nat} {kvs : List (K × V)} {kids : List Nat} (hr : NodeRep x kvs kids) :
    ∀ j (hj : j < kvs.length), x.keys[0 + j]? = some (some (kvs[j]).1) := by
  intro j hj
  have := hr.hkeys.get_live (i := j) (by simpa using hj)
  simpa using this

/-- `searchNode` on a represented node -/
theorem searchNode_rep (cmp : K → K → Int) (k : K) {x : SNode K V Nat} {kvs : List (K × V)} {kids : List Nat}
    (hr : NodeRep x kvs kids) : Heap.searchNode cmp k x = some (searchNode cmp k kvs) := by
  unfold Heap.searchNode
  rw [hr.hn, toIdx_natCast, Option.bind_some, searchFrom_eq cmp k x.keys kvs 0 (rep_keys_get hr)]
  simp

theorem lowerFrom_rep (p : Int → Bool) (cmp : K → K → Int) (k : K) {x : SNode K V Nat} {kvs : List (K × V)} {kids : List Nat}
    (hr : NodeRep x kvs kids) : Heap.lowerFrom p cmp k x.keys kvs.length 0 = some (lowerIdx p cmp k kvs) := by
  rw [lowerFrom_eq p cmp k x.keys kvs 0 (rep_keys_get hr)]
  simp

/-- `xslices.Index(parent.children[:], c)` finds the position of a child -/
theorem indexOf_rep {a : Slots Nat} {cap : Nat} {l : List Nat} (hr : Rep a cap l) (hnd : l.Nodup) {i : Nat}
    (hi : i < l.length) : indexOf a l[i] = some i := by
  have hlen := hr.length
  have hcap := hr.2
  have hia : i < a.length := by omega
  have hfi : a.findIdx (· == some l[i]) = i := by
    rw [List.findIdx_eq hia]
    constructor
    · have := hr.get_live hi
      rw [List.getElem?_eq_getElem hia] at this
      simp only [Option.some.injEq] at this
      simp [this]
    · intro j hji
      have hj : j < l.length := by omega
      have := hr.get_live hj
      rw [List.getElem?_eq_getElem (by omega)] at this
      simp only [Option.some.injEq] at this
      rw [this]
      simp only [beq_eq_false_iff_ne, ne_eq, Option.some.injEq]
      exact (List.pairwise_iff_getElem.mp hnd) j i hj hi hji
  simp only [indexOf, hfi, hia, if_true]

/-! ## the split step -/

/-- the children of the amalgam: the old children with the new right node behind position `e` -/
def amalKids (cids : List Nat) (e : Nat) : Option Nat → List Nat
  | none => cids
  | some r0 => insertAt cids (e + 1) r0

theorem step_split {h : Heap K V} {i e : Nat} {x : SNode K V Nat} {kvs : List (K × V)} {cids : List Nat}
    {afterK : Option Nat}
    (hx : h.get i = some x) (hr : NodeRep x kvs cids) (hfull : kvs.length = keysCap) (he : e ≤ keysCap)
    (hk : (cids = [] ∧ afterK = none) ∨ (cids.length = kvs.length + 1 ∧ afterK.isSome))
    (k : K) (v : V) (w : List Nat) :
    ∃ h' l' r', splitNode x e (some k) (some v) afterK =
        some (l', some ((insertAt kvs e (k, v)).getD Gen.Tree.medianIdx.toNat (k, v)).1,
              some ((insertAt kvs e (k, v)).getD Gen.Tree.medianIdx.toNat (k, v)).2, r') ∧
      h.step (.split i e k v afterK) w = some h' ∧ h'.root = h.root ∧ h'.size = h.size ∧ h'.gen = h.gen ∧
      h'.nodes.length = h.nodes.length + 1 ∧
      NodeRep l' ((insertAt kvs e (k, v)).take Gen.Tree.medianIdx.toNat)
        ((amalKids cids e afterK).take (Gen.Tree.medianIdx.toNat + 1)) ∧
      NodeRep r' ((insertAt kvs e (k, v)).drop (Gen.Tree.medianIdx.toNat + 1))
        ((amalKids cids e afterK).drop (Gen.Tree.medianIdx.toNat + 1)) ∧
      l'.parent = x.parent ∧ r'.parent = none ∧
      ∀ j, h'.get j = if j = h.nodes.length then some r' else if j = i then some l' else h.get j := by
  have hx0 : getNode h.nodes i = some x := hx
  have g1 : x.n = keysCap := by rw [hr.hn, hfull]
  have hmlt : Gen.Tree.medianIdx.toNat < (insertAt kvs e (k, v)).length := by
    rw [length_insertAt, hfull]
    have := split_nums.1
    omega
  have hsep : (insertAt kvs e (k, v))[Gen.Tree.medianIdx.toNat]? =
      some ((insertAt kvs e (k, v)).getD Gen.Tree.medianIdx.toNat (k, v)) := by
    rw [List.getD_eq_getElem?_getD, List.getElem?_eq_getElem hmlt]; simp
  -- the node-level result
  have hsplit : ∃ l' r', splitNode x e (some k) (some v) afterK =
        some (l', some ((insertAt kvs e (k, v)).getD Gen.Tree.medianIdx.toNat (k, v)).1,
              some ((insertAt kvs e (k, v)).getD Gen.Tree.medianIdx.toNat (k, v)).2, r') ∧
      NodeRep l' ((insertAt kvs e (k, v)).take Gen.Tree.medianIdx.toNat)
        ((amalKids cids e afterK).take (Gen.Tree.medianIdx.toNat + 1)) ∧
      NodeRep r' ((insertAt kvs e (k, v)).drop (Gen.Tree.medianIdx.toNat + 1))
        ((amalKids cids e afterK).drop (Gen.Tree.medianIdx.toNat + 1)) ∧
      (x.isLeaf = true ∨ afterK.isSome = true) := by
    rcases hk with ⟨hc, ha⟩ | ⟨hc, ha⟩
    · subst hc; subst ha
      obtain ⟨l', r', hs, hl, hrr⟩ := splitNode_leaf_rep hr hfull he k v none (by decide) (by decide) (by decide)
        (by decide) (by decide)
      refine ⟨l', r', ?_, by simp only [amalKids, List.take_nil]; exact hl,
        by simp only [amalKids, List.drop_nil]; exact hrr, Or.inl (hr.isLeaf_iff.mpr rfl)⟩
      rw [hs]
      have : (kvs.take e ++ (k, v) :: kvs.drop e) = insertAt kvs e (k, v) := rfl
      rw [this, hsep]; rfl
    · obtain ⟨r0, rfl⟩ := Option.isSome_iff_exists.mp ha
      obtain ⟨l', r', hs, hl, hrr⟩ := splitNode_inner_rep hr hfull hc he k v r0 (by decide) (by decide) (by decide)
        (by decide) (by decide) (by decide)
      refine ⟨l', r', ?_, hl, hrr, Or.inr rfl⟩
      rw [hs]
      have : (kvs.take e ++ (k, v) :: kvs.drop e) = insertAt kvs e (k, v) := rfl
      rw [this, hsep]; rfl
  obtain ⟨l', r', hs, hl, hrr, hkind⟩ := hsplit
  have ha : applyOp h.nodes (.split i e k v afterK) = some (h.nodes.set i (some l') ++ [some r']) := by
    simp [applyOp, hx0, g1, he, hkind, hs]
  obtain ⟨hp1, hp2⟩ := splitNode_parent hs
  refine ⟨_, l', r', hs, step_some ha, rfl, rfl, rfl, by simp, hl, hrr, hp1, hp2, ?_⟩
  intro j
  show getNode (h.nodes.set i (some l') ++ [some r']) j = _
  rw [getNode_snoc, getNode_set (get_lt hx)]
  simp only [List.length_set]
  rfl

/-! ## one round of `overfill` -/

/-- the rest of the body of `overfill`'s loop once the node `xid` has been split into itself and the
fresh node `rid` with separator `(sk, sv)`: a new root, or the separator goes into the parent, or the
parent is full and is split in the next round. -/
def up (cmp : K → K → Int) (fuel : Nat) (h : Heap K V) (xid : Nat) (sk : K) (sv : V) (rid : Nat) : Option (Heap K V) :=
  if xid = h.root then do
    let pid := h.nodes.length
    let h ← h.step (.newRoot sk sv xid rid) [pid]
    let h ← h.setParents [some xid, some rid] (some pid)
    pure (Heap.event { h with root := pid } "newroot")
  else do
    let left ← h.get xid
    let pid ← left.parent
    let p ← h.get pid
    if Gen.Tree.overfillParentHasRoom (Gen.Tree.full p.n) then
      let idx ← indexOf p.kids xid
      let h ← h.step (.parentInsert pid idx sk sv rid) [pid]
      h.setParents [some rid] (some pid)
    else
      Heap.overfill cmp fuel h pid sk sv (some rid)

theorem overfill_step (cmp : K → K → Int) {h : Heap K V} {xid : Nat} {x : SNode K V Nat}
    {kvs : List (K × V)} {cids : List Nat} (k : K) (v : V) {afterK : Option Nat}
    (hx : h.get xid = some x) (hr : NodeRep x kvs cids) (hfull : kvs.length = keysCap)
    (hk : (cids = [] ∧ afterK = none) ∨ (cids.length = kvs.length + 1 ∧ afterK.isSome))
    (hpres : ∀ c ∈ amalKids cids (lowerIdx Gen.Tree.amalgamLess cmp k kvs) afterK, (h.get c).isSome)
    (hxk : xid ∉ amalKids cids (lowerIdx Gen.Tree.amalgamLess cmp k kvs) afterK) :
    ∃ h1 l' r',
      (∀ fuel, Heap.overfill cmp (fuel + 1) h xid k v afterK =
        up cmp fuel h1 xid
          ((insertAt kvs (lowerIdx Gen.Tree.amalgamLess cmp k kvs) (k, v)).getD Gen.Tree.medianIdx.toNat (k, v)).1
          ((insertAt kvs (lowerIdx Gen.Tree.amalgamLess cmp k kvs) (k, v)).getD Gen.Tree.medianIdx.toNat (k, v)).2
          h.nodes.length) ∧
      h1.root = h.root ∧ h1.size = h.size ∧ h1.gen = h.gen ∧ h1.nodes.length = h.nodes.length + 1 ∧
      NodeRep l' ((insertAt kvs (lowerIdx Gen.Tree.amalgamLess cmp k kvs) (k, v)).take Gen.Tree.medianIdx.toNat)
        ((amalKids cids (lowerIdx Gen.Tree.amalgamLess cmp k kvs) afterK).take (Gen.Tree.medianIdx.toNat + 1)) ∧
      l'.parent = x.parent ∧
      NodeRep r' ((insertAt kvs (lowerIdx Gen.Tree.amalgamLess cmp k kvs) (k, v)).drop (Gen.Tree.medianIdx.toNat + 1))
        ((amalKids cids (lowerIdx Gen.Tree.amalgamLess cmp k kvs) afterK).drop (Gen.Tree.medianIdx.toNat + 1)) ∧
      r'.parent = none ∧
      ∀ j, h1.get j =
        if j ∈ (amalKids cids (lowerIdx Gen.Tree.amalgamLess cmp k kvs) afterK).take (Gen.Tree.medianIdx.toNat + 1) then
          (h.get j).map (withParent (some xid))
        else if j ∈ (amalKids cids (lowerIdx Gen.Tree.amalgamLess cmp k kvs) afterK).drop (Gen.Tree.medianIdx.toNat + 1) then
          (h.get j).map (withParent (some h.nodes.length))
        else if j = h.nodes.length then some r' else if j = xid then some l' else h.get j := by
  generalize he : lowerIdx Gen.Tree.amalgamLess cmp k kvs = e at *
  have hele : e ≤ keysCap := by rw [← he, ← hfull]; exact lowerIdx_le _ _ _ _
  obtain ⟨h0, l', r', hs, hstep, hroot, hsize, hgen, hlen, hl, hrr, hp1, hp2, hg0⟩ :=
    step_split hx hr hfull hele hk k v [xid, h.nodes.length]
  have hkl : x.keys.length = kvs.length := by rw [hr.hkeys.length, hfull]
  have hlow : Heap.lowerFrom Gen.Tree.amalgamLess cmp k x.keys x.keys.length 0 = some e := by
    rw [hkl, lowerFrom_rep _ cmp k hr, he]
  -- lengths of the halves
  have hall : (insertAt kvs e (k, v)).length = keysCap + 1 := by rw [length_insertAt, hfull]
  obtain ⟨n1, n2, n3, _⟩ := split_nums
  have hln : toIdx l'.n = some ((insertAt kvs e (k, v)).take Gen.Tree.medianIdx.toNat).length := toIdx_eq hl.hn
  have hrn : toIdx r'.n = some ((insertAt kvs e (k, v)).drop (Gen.Tree.medianIdx.toNat + 1)).length := toIdx_eq hrr.hn
  -- the re-parenting of the children
  have hsp : ∃ h1, (if x.isLeaf = true then some (h0.event ("split-" ++ Heap.level x)) else
        ((h0.event ("split-" ++ Heap.level x)).setParents
          (r'.kids.take (((insertAt kvs e (k, v)).drop (Gen.Tree.medianIdx.toNat + 1)).length + 1)) (some h.nodes.length)).bind
          fun h => h.setParents (l'.kids.take (((insertAt kvs e (k, v)).take Gen.Tree.medianIdx.toNat).length + 1)) (some xid)) = some h1 ∧
      h1.root = h0.root ∧ h1.size = h0.size ∧ h1.gen = h0.gen ∧ h1.nodes.length = h0.nodes.length ∧
      ∀ j, h1.get j =
        if j ∈ (amalKids cids e afterK).take (Gen.Tree.medianIdx.toNat + 1) then (h0.get j).map (withParent (some xid))
        else if j ∈ (amalKids cids e afterK).drop (Gen.Tree.medianIdx.toNat + 1) then
          (h0.get j).map (withParent (some h.nodes.length))
        else h0.get j := by
    rcases hk with ⟨hc, ha⟩ | ⟨hc, ha⟩
    · subst hc; subst ha
      have hlf : x.isLeaf = true := hr.isLeaf_iff.mpr rfl
      refine ⟨h0.event ("split-" ++ Heap.level x), by rw [if_pos hlf], rfl, rfl, rfl, rfl, ?_⟩
      intro j; simp [amalKids]
    · obtain ⟨r0, rfl⟩ := Option.isSome_iff_exists.mp ha
      have hne : cids ≠ [] := by intro h0'; subst h0'; simp at hc
      have hlf : x.isLeaf = false := isLeaf_of_rep_cons hr.hkids hne
      have hak : (amalKids cids e (some r0)).length = keysCap + 2 := by
        simp only [amalKids, length_insertAt, hc, hfull]
      obtain ⟨s1, s2, s3, s4⟩ := split_shape (insertAt kvs e (k, v)) (amalKids cids e (some r0)) hall hak n1
      have hrk : r'.kids.take (((insertAt kvs e (k, v)).drop (Gen.Tree.medianIdx.toNat + 1)).length + 1) =
          ((amalKids cids e (some r0)).drop (Gen.Tree.medianIdx.toNat + 1)).map some := by
        rw [← s4]; exact hrr.hkids.take
      have hlk : l'.kids.take (((insertAt kvs e (k, v)).take Gen.Tree.medianIdx.toNat).length + 1) =
          ((amalKids cids e (some r0)).take (Gen.Tree.medianIdx.toNat + 1)).map some := by
        rw [← s3]; exact hl.hkids.take
      have hpres0 : ∀ c ∈ amalKids cids e (some r0), (h0.get c).isSome := by
        intro c hc'
        have hp := hpres c hc'
        obtain ⟨y, hy⟩ := Option.isSome_iff_exists.mp hp
        have h1 : c ≠ h.nodes.length := by have := get_lt hy; omega
        have h2 : c ≠ xid := fun hh => hxk (hh ▸ hc')
        rw [hg0]; simp [h1, h2, hp]
      obtain ⟨ha, hsa, hsamea, hga⟩ := setParents_spec (some h.nodes.length)
        ((amalKids cids e (some r0)).drop (Gen.Tree.medianIdx.toNat + 1)) (h0.event ("split-" ++ Heap.level x))
        (fun c hc' => by simpa using hpres0 c (List.mem_of_mem_drop hc'))
      obtain ⟨hb, hsb, hsameb, hgb⟩ := setParents_spec (some xid)
        ((amalKids cids e (some r0)).take (Gen.Tree.medianIdx.toNat + 1)) ha
        (fun c hc' => by
          rw [hga]
          have := hpres0 c (List.mem_of_mem_take hc')
          split
          · simpa using this
          · simpa using this)
      refine ⟨hb, ?_, ?_, ?_, ?_, ?_, ?_⟩
      · rw [if_neg (by simp [hlf]), hrk, hlk, hsa, Option.bind_some, hsb]
      · rw [hsameb.root, hsamea.root]; rfl
      · rw [hsameb.size, hsamea.size]; rfl
      · rw [hsameb.gen, hsamea.gen]; rfl
      · rw [hsameb.len, hsamea.len]; rfl
      · intro j
        rw [hgb, hga]
        simp only [event_get]
        by_cases h1 : j ∈ (amalKids cids e (some r0)).take (Gen.Tree.medianIdx.toNat + 1)
        · simp only [h1, if_true]
          split
          · simp [Option.map_map, Function.comp_def]
          · rfl
        · simp only [h1, if_false]
  obtain ⟨h1, hsp1, hroot1, hsize1, hgen1, hlen1, hg1⟩ := hsp
  refine ⟨h1, l', r', ?_, by rw [hroot1, hroot], by rw [hsize1, hsize], by rw [hgen1, hgen], by rw [hlen1, hlen],
    hl, hp1, hrr, hp2, ?_⟩
  · -- the computation
    intro fuel
    unfold Heap.overfill
    simp only [bind, pure, hx, Option.bind_some, hlow, hs, hstep, hrn, hln, hsp1]
    rfl
  · intro j
    rw [hg1, hg0]
    by_cases h1' : j ∈ (amalKids cids e afterK).take (Gen.Tree.medianIdx.toNat + 1)
    · have hm := List.mem_of_mem_take h1'
      obtain ⟨y, hy⟩ := Option.isSome_iff_exists.mp (hpres j hm)
      have e1 : j ≠ h.nodes.length := by have := get_lt hy; omega
      have e2 : j ≠ xid := fun hh => hxk (hh ▸ hm)
      simp [h1', e1, e2]
    · by_cases h2' : j ∈ (amalKids cids e afterK).drop (Gen.Tree.medianIdx.toNat + 1)
      · have hm := List.mem_of_mem_drop h2'
        obtain ⟨y, hy⟩ := Option.isSome_iff_exists.mp (hpres j hm)
        have e1 : j ≠ h.nodes.length := by have := get_lt hy; omega
        have e2 : j ≠ xid := fun hh => hxk (hh ▸ hm)
        simp [h1', h2', e1, e2]
      · simp [h1', h2']

end Juniper.Proofs.TreeHeapLink
