import Juniper.Generated.Helpers
/-!
# Statement shapes of the helpers whose loop structure is mirrored by hand (C19)

The models in `Model/Helpers*.lean` take their guards, bounds, index expressions, initial and returned
values from `Juniper.Gen.Helpers`; what is written by hand there is the *shape* of the loops: which
statement follows which, what is inside which loop or branch. This file pins that shape: for every
such helper the flattened statement list of the Go function, regenerated on every run
(`Gen.Helpers.shape*`), must be the list recorded here, i.e. the code the hand-written model was
written against. A statement added, dropped, moved or edited in one of these functions makes the
corresponding `shape_*` theorem fail (a broken tie that names the helper); the correspondence check
and the monitors then look for a behavioural difference. The lists were produced by `gofacts` from
the tree the models describe; they are never edited by hand except together with the model.
-/
namespace Juniper.Proofs.Helpers.Shapes
open Juniper.Gen.Helpers

theorem shapeAll_pinned : shapeAll = ["for i := range s { if !f(s[i]) { return false } }",
  "return true"] := rfl

theorem shapeChunk_pinned : shapeChunk = ["if chunkSize <= 0 {",
  "panic(\"xslices.Chunk: chunkSize must be positive\")",
  "}",
  "n := 0",
  "if len(s) > 0 {",
  "n = (len(s)-1)/chunkSize + 1",
  "}",
  "out := make([][]T, n)",
  "for i := range out { start := i * chunkSize end := len(s) if len(s)-start > chunkSize { end = start + chunkSize } out[i] = s[start:end] }",
  "return out"] := rfl

theorem shapeCountFunc_pinned : shapeCountFunc = ["n := 0",
  "for _, s := range s { if f(s) { n++ } }",
  "return n"] := rfl

theorem shapeFill_pinned : shapeFill = ["for i := range s { s[i] = x }"] := rfl

theorem shapeGroup_pinned : shapeGroup = ["m := make(map[U][]T)",
  "for i := range s { g := f(s[i]) m[g] = append(m[g], s[i]) }",
  "return m"] := rfl

theorem shapeJoin_pinned : shapeJoin = ["n := 0",
  "for i := range in { n += len(in[i]) }",
  "out := make([]T, 0, n)",
  "for i := range in { out = append(out, in[i]...) }",
  "return out"] := rfl

theorem shapeLastIndex_pinned : shapeLastIndex = ["for i >= 0 {",
  "if s[i] == x {",
  "return i",
  "}",
  "}",
  "return -1"] := rfl

theorem shapeLastIndexFunc_pinned : shapeLastIndexFunc = ["for i >= 0 {",
  "if f(s[i]) {",
  "return i",
  "}",
  "}",
  "return -1"] := rfl

theorem shapeMap_pinned : shapeMap = ["out := make([]U, len(s))",
  "for i := range s { out[i] = f(s[i]) }",
  "return out"] := rfl

theorem shapePartition_pinned : shapePartition = ["i := 0",
  "j := len(s) - 1",
  "for {",
  "for i < j {",
  "if !f(s[i]) {",
  "i++",
  "} else {",
  "break",
  "}",
  "}",
  "for j > i {",
  "if f(s[j]) {",
  "j--",
  "} else {",
  "break",
  "}",
  "}",
  "if i >= j {",
  "break",
  "}",
  "s[i], s[j] = s[j], s[i]",
  "i++",
  "j--",
  "}",
  "if i < len(s) && !f(s[i]) {",
  "i++",
  "}",
  "return i"] := rfl

theorem shapeReduce_pinned : shapeReduce = ["out := initial",
  "for i := range s { out = f(out, s[i]) }",
  "return out"] := rfl

theorem shapeRemoveUnordered_pinned : shapeRemoveUnordered = ["keepStart := len(s) - n",
  "removeEnd := idx + n",
  "if removeEnd > keepStart {",
  "keepStart = removeEnd",
  "}",
  "copy(s[idx:], s[keepStart:])",
  "Clear(s[len(s)-n:])",
  "return s[:len(s)-n]"] := rfl

theorem shapeRepeat_pinned : shapeRepeat = ["out := make([]T, n)",
  "for i := range out { out[i] = s }",
  "return out"] := rfl

theorem shapeReverse_pinned : shapeReverse = ["for i < len(s)/2 {",
  "s[i], s[len(s)-i-1] = s[len(s)-i-1], s[i]",
  "}"] := rfl

theorem shapeRuns_pinned : shapeRuns = ["var runs [][]T",
  "start := 0",
  "end := 0",
  "if len(s) > 0 {",
  "end = 1",
  "}",
  "for i < len(s) {",
  "if same(s[i-1], s[i]) {",
  "end = i + 1",
  "} else {",
  "runs = append(runs, s[start:end])",
  "start = i",
  "end = i + 1",
  "}",
  "}",
  "if end > 0 {",
  "runs = append(runs, s[start:])",
  "}",
  "return runs"] := rfl

theorem shapeShrink_pinned : shapeShrink = ["if cap(s)-len(s) > n {",
  "x2 := make([]T, len(s)+n)",
  "copy(x2, s)",
  "return x2[:len(s)]",
  "}",
  "return s"] := rfl

theorem shapeUnique_pinned : shapeUnique = ["return uniqueInto([]T{}, s)"] := rfl

theorem shapeUniqueInPlace_pinned : shapeUniqueInPlace = ["filtered := uniqueInto(s[:0], s)",
  "Clear(s[len(filtered):])",
  "return filtered"] := rfl

theorem shapeUniqueInto_pinned : shapeUniqueInto = ["m := make(map[T]struct{}, len(s))",
  "for i := range s { _, ok := m[s[i]] if !ok { into = append(into, s[i]) m[s[i]] = struct{}{} } }",
  "return into"] := rfl

theorem shapeSearch_pinned : shapeSearch = ["return sort.Search(len(x), func(i int) bool { return less(item, x[i]) || !less(x[i], item) })"] := rfl

theorem shapeMergeNext_pinned : shapeMergeNext = ["if iter.h.Len() == 0 {",
  "var zero T",
  "return zero, false",
  "}",
  "item := iter.h.Pop()",
  "nextItem, ok := iter.in[item.source].Next()",
  "if ok {",
  "iter.h.Push(valueAndSource[T]{nextItem, item.source})",
  "}",
  "return item.value, true"] := rfl

theorem shapeMerge_pinned : shapeMerge = ["initial := make([]valueAndSource[T], 0, len(in))",
  "for i := range in { item, ok := in[i].Next() if !ok { continue } initial = append(initial, valueAndSource[T]{item, i}) }",
  "h := heap.New( func(a, b valueAndSource[T]) bool { return less(a.value, b.value) }, func(a valueAndSource[T], i int) {}, initial, )",
  "return &mergeIterator[T]{ in: in, h: h, }"] := rfl

theorem shapeMergeSlices_pinned : shapeMergeSlices = ["n := 0",
  "for i := range in { n += len(in[i]) }",
  "out = xslices.Grow(out[:0], n)",
  "iter := Merge(less, xslices.Map(in, iterator.Slice[T])...)",
  "for {",
  "item, ok := iter.Next()",
  "if !ok {",
  "break",
  "}",
  "out = append(out, item)",
  "}",
  "return out"] := rfl

theorem shapeMinK_pinned : shapeMinK = ["h := heap.New[T](heap.Less[T](Reverse(less)), func(a T, i int) {}, nil)",
  "for {",
  "item, ok := iter.Next()",
  "if !ok {",
  "break",
  "}",
  "h.Push(item)",
  "if h.Len() > k {",
  "h.Pop()",
  "}",
  "}",
  "out := make([]T, h.Len())",
  "for i >= 0 {",
  "out[i] = h.Pop()",
  "}",
  "return out"] := rfl

theorem shapeMapReverse_pinned : shapeMapReverse = ["result := make(map[V][]K, len(m))",
  "for k, v := range m { result[v] = append(result[v], k) }",
  "return result"] := rfl

theorem shapeReverseSingle_pinned : shapeReverseSingle = ["result := make(map[V]K, len(m))",
  "allOk := true",
  "for k, v := range m { if _, ok := result[v]; ok { allOk = false } result[v] = k }",
  "return result, allOk"] := rfl

theorem shapeToIndex_pinned : shapeToIndex = ["m := make(map[K]int, len(keys))",
  "for i := range keys { m[keys[i]] = i }",
  "return m"] := rfl

theorem shapeFromKeysAndValues_pinned : shapeFromKeysAndValues = ["if len(keys) != len(values) {",
  "panic(fmt.Sprintf(\"len(keys)=%d, len(values)=%d\", len(keys), len(values)))",
  "}",
  "m := make(map[K]V, len(keys))",
  "allOk := true",
  "for i := range keys { if _, ok := m[keys[i]]; ok { allOk = false } m[keys[i]] = values[i] }",
  "return m, allOk"] := rfl

theorem shapeSetFromSlice_pinned : shapeSetFromSlice = ["result := make(Set[T], len(items))",
  "for _, k := range items { result[k] = struct{}{} }",
  "return result"] := rfl

theorem shapeUnion_pinned : shapeUnion = ["size := 0",
  "for _, set := range sets { if len(set) > size { size = len(set) } }",
  "out := make(S, size)",
  "for _, set := range sets { for k := range set { out[k] = struct{}{} } }",
  "return out"] := rfl

theorem shapeIntersection_pinned : shapeIntersection = ["out := make(S)",
  "if len(sets) == 0 {",
  "return out",
  "}",
  "sets = xslices.Clone(sets)",
  "xsort.Slice(sets, func(a, b S) bool { return len(a) < len(b) })",
  "for k := range sets[0] { include := true for j := 1; j < len(sets); j++ { if _, ok := sets[j][k]; !ok { include = false break } } if include { out[k] = struct{}{} } }",
  "return out"] := rfl

theorem shapeIntersects_pinned : shapeIntersects = ["if len(sets) == 0 {",
  "return false",
  "}",
  "sets = xslices.Clone(sets)",
  "xsort.Slice(sets, func(a, b S) bool { return len(a) < len(b) })",
  "for k := range sets[0] { include := true for j := 1; j < len(sets); j++ { if _, ok := sets[j][k]; !ok { include = false break } } if include { return true } }",
  "return false"] := rfl

theorem shapeDifference_pinned : shapeDifference = ["size := len(a) - len(b)",
  "if size < 0 {",
  "size = 0",
  "}",
  "result := make(S, size)",
  "for k := range a { if _, ok := b[k]; !ok { result[k] = struct{}{} } }",
  "return result"] := rfl

theorem shapeWithStack_pinned : shapeWithStack = ["if err == nil {",
  "return nil",
  "}",
  "var attached withStack",
  "if errors.As(err, &attached) {",
  "return err",
  "}",
  "var buf [64]uintptr",
  "var ptrs []uintptr",
  "skip := 2",
  "for {",
  "n := runtime.Callers(skip, buf[:])",
  "ptrs = append(ptrs, buf[:n]...)",
  "if n < len(buf) {",
  "break",
  "}",
  "skip += n",
  "}",
  "return withStack{ inner: err, pc: ptrs, }"] := rfl

theorem shapeUnwrap_pinned : shapeUnwrap = ["return err.inner"] := rfl

theorem shapeRShuffle_pinned : shapeRShuffle = ["r.Shuffle(len(a), func(i, j int) { a[i], a[j] = a[j], a[i] })"] := rfl

theorem shapeRSample_pinned : shapeRSample = ["out := make([]int, k)",
  "samp := newSampler(r, k)",
  "for {",
  "next, replace := samp.Next()",
  "if next >= n {",
  "break",
  "}",
  "out[replace] = next",
  "}",
  "if n < k {",
  "out = out[:n]",
  "}",
  "rShuffle(r, out)",
  "return out"] := rfl

theorem shapeRSampleSlice_pinned : shapeRSampleSlice = ["out := make([]T, k)",
  "samp := newSampler(r, k)",
  "for {",
  "next, replace := samp.Next()",
  "if next >= len(a) {",
  "break",
  "}",
  "out[replace] = a[next]",
  "}",
  "if len(a) < k {",
  "out = out[:len(a)]",
  "}",
  "rShuffle(r, out)",
  "return out"] := rfl

theorem shapeRSampleIterator_pinned : shapeRSampleIterator = ["out := make([]T, k)",
  "i := 0",
  "samp := newSampler(r, k)",
  "Outer: for { next, replace := samp.Next() for { item, ok := iter.Next() if !ok { break Outer } if i == next { out[replace] = item i++ break } i++ } }",
  "if i < k {",
  "out = out[:i]",
  "}",
  "rShuffle(r, out)",
  "return out"] := rfl

theorem shapeRSampleStream_pinned : shapeRSampleStream = ["defer s.Close()",
  "out := make([]T, k)",
  "i := 0",
  "samp := newSampler(r, k)",
  "Outer: for { next, replace := samp.Next() for { item, err := s.Next(ctx) if err == stream.End { break Outer } else if err != nil { return nil, err } if i == next { out[replace] = item i++ break } i++ } }",
  "if i < k {",
  "out = out[:i]",
  "}",
  "rShuffle(r, out)",
  "return out, nil"] := rfl

theorem shapeSamplerNext_pinned : shapeSamplerNext = ["if s.i < s.k {",
  "j := s.i",
  "s.i++",
  "return j, j",
  "}",
  "if s.first && s.i == s.k {",
  "s.i--",
  "s.first = false",
  "}",
  "skip := math.Floor(math.Log(s.r.Float64()) / math.Log1p(-s.w))",
  "if math.IsInf(skip, 0) || math.IsNaN(skip) || skip >= float64(math.MaxInt-s.i) {",
  "return math.MaxInt, 0",
  "}",
  "s.i += int(skip) + 1",
  "s.w *= math.Exp(math.Log(s.r.Float64()) / float64(s.k))",
  "return s.i, s.r.Intn(s.k)"] := rfl

theorem shapeNewSampler_pinned : shapeNewSampler = ["return sampler[R]{ i: 0, first: true, w: math.Exp(math.Log(r.Float64()) / float64(k)), k: k, r: r, }"] := rfl

end Juniper.Proofs.Helpers.Shapes
