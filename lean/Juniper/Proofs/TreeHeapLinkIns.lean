import Juniper.Proofs.TreeHeapLinkPut
/-!
# Linking the two B-tree models (C03): `Put`, the induction over `ins`
-/
namespace Juniper.Proofs.TreeHeapLink
open Juniper Juniper.Model.BTree Juniper.Model.BTreeSlotsOps Juniper.Proofs.Tree Juniper.Proofs.TreeSlotsOps

variable {K V : Type}

theorem ne_of_cnt {id j : Nat} {kvs : List (K × V)} {kids : List (Node K V)} {c : Node K V}
    (hcnt : cnt j (Node.mk id kvs kids) ≤ 1) (hc : c ∈ kids) (hj : 0 < cnt j c) : j ≠ id := by
  intro e
  subst e
  rw [cnt_mk] at hcnt
  have := cnt_le_cntK hc j
  simp at hcnt
  omega

theorem cntK_le_one {id : Nat} {kvs : List (K × V)} {kids : List (Node K V)}
    (hcnt : ∀ j, cnt j (Node.mk id kvs kids) ≤ 1) : ∀ j, cntK j kids ≤ 1 := by
  intro j
  have := hcnt j
  rw [cnt_mk] at this
  omega

theorem cnt_id_child {id : Nat} {kvs : List (K × V)} {kids : List (Node K V)} {c : Node K V}
    (hcnt : ∀ j, cnt j (Node.mk id kvs kids) ≤ 1) (hc : c ∈ kids) : cnt id c = 0 := by
  have := hcnt id
  rw [cnt_mk] at this
  have := cnt_le_cntK hc id
  simp at *
  omega

/-- the facts about child `i` of an inner node that every inner case of the induction needs -/
theorem inner_facts {h : Heap K V} {p : Option Nat} {ht : Nat} {id : Nat} {kvs : List (K × V)}
    {kids : List (Node K V)} {i : Nat} {c : Node K V} (hne : kids ≠ [])
    (hb : Bal ht (.mk id kvs kids)) (hcnt : ∀ j, cnt j (Node.mk id kvs kids) ≤ 1)
    (hlt : ∀ j, 0 < cnt j (Node.mk id kvs kids) → j < h.nodes.length)
    (hroot : ∀ c ∈ (Node.mk id kvs kids).kids, cnt h.root c = 0)
    (hsub : Sub h.get p (.mk id kvs kids)) (hc : kids[i]? = some c) :
    ∃ ht' sx, ht = ht' + 1 ∧ kids.length = kvs.length + 1 ∧ h.get id = some sx ∧ sx.parent = p ∧
      NodeRep sx kvs (kids.map Node.id) ∧ (∀ d ∈ kids, Sub h.get (some id) d) ∧
      Bal ht' c ∧ c.n ≤ Gen.Tree.maxKVs ∧ (∀ j, cnt j c ≤ 1) ∧ (∀ j, 0 < cnt j c → j < h.nodes.length) ∧
      (∀ d ∈ c.kids, cnt h.root d = 0) ∧ cnt id c = 0 ∧ c.id ≠ h.root ∧ (kids.map Node.id)[i]? = some c.id ∧
      (∀ j, cntK j kids ≤ 1) ∧ c ∈ kids ∧ (kids.map Node.id).Nodup ∧ i < kids.length := by
  obtain ⟨ht', rfl, hlen, hall⟩ := bal_inner hne hb
  obtain ⟨sx, hx, hpar, hr, hkids⟩ := sub_mk.mp hsub
  have hcm := List.mem_of_getElem? hc
  have hck := cntK_le_one hcnt
  have hrc : cnt h.root c = 0 := hroot c hcm
  refine ⟨ht', sx, rfl, hlen, hx, hpar, hr, hkids, (hall c hcm).1, (hall c hcm).2.2, ?_, ?_, ?_,
    cnt_id_child hcnt hcm, ?_, by simp [hc], hck, hcm, kids_ids_nodup hck, (List.getElem?_eq_some_iff.mp hc).1⟩
  · intro j; have := hck j; have := cnt_le_cntK hcm j; omega
  · intro j hj; exact hlt j (by have := cnt_child_le (id := id) (kvs := kvs) hcm j; omega)
  · intro d hd
    obtain ⟨cid, ckvs, ckids⟩ := c
    simp only [Node.kids] at hd
    have := cnt_child_le (id := cid) (kvs := ckvs) hd h.root
    omega
  · intro e
    have := cnt_self c
    rw [e] at this
    omega


/-- identity facts about the two halves `l`, `r` that a split of the child `c` returns -/
theorem split_id_facts {c l r : Node K V} {fresh f id len : Nat}
    (hcr0 : ∀ i, resCnt i (InsRes.split l sep r) = cnt i c + isNew fresh f i ∨ (InsRes.split l sep r) = InsRes.crash)
    (hltc : ∀ j, 0 < cnt j c → j < len) (hfresh : fresh = len) (hidc : cnt id c = 0) (hidlt : id < len)
    (hrid1 : r.id + 1 = f) (hrid2 : fresh ≤ r.id) :
    cnt id l = 0 ∧ cnt id r = 0 ∧ cnt r.id l = 0 ∧ cnt r.id r ≤ 1 := by
  have hcr : ∀ j, cnt j l + cnt j r = cnt j c + isNew fresh f j := by
    intro j
    rcases hcr0 j with h | h
    · exact h
    · cases h
  have hold : ∀ j, len ≤ j → cnt j c = 0 := by
    intro j hj
    rcases Nat.eq_zero_or_pos (cnt j c) with h0 | hp
    · exact h0
    · have := hltc j hp; omega
  have h1 := hcr id
  have h2 := hcr r.id
  have h3 := hold r.id (by omega)
  have h4 := cnt_self r
  simp only [isNew] at h1 h2
  split at h1 <;> split at h2 <;> omega

theorem descend_inner {cmp : K → K → Int} {k : K} {h : Heap K V} {id : Nat} {sx : SNode K V Nat} {kvs : List (K × V)}
    {kids : List (Node K V)} {i : Nat} {c : Node K V} (hx : h.get id = some sx) (hr : NodeRep sx kvs (kids.map Node.id))
    (hs : searchNode cmp k kvs = (i, false)) (hne : kids ≠ []) (hc : (kids.map Node.id)[i]? = some c.id) (fuel : Nat) :
    Heap.descend cmp k h (fuel + 1) id = Heap.descend cmp k h fuel c.id := by
  rw [descend_here hx hr, hs]
  have : kids.map Node.id ≠ [] := by simpa using hne
  simp [this, hc]

theorem ins_sim (cmp : K → K → Int) (k : K) (v : V) (x : Node K V) (fresh : Nat) :
    ∀ (ht : Nat) (h : Heap K V) (p : Option Nat), Bal ht x → x.n ≤ Gen.Tree.maxKVs →
      (∀ j, cnt j x ≤ 1) → (∀ j, 0 < cnt j x → j < h.nodes.length) → (∀ c ∈ x.kids, cnt h.root c = 0) →
      fresh = h.nodes.length → Sub h.get p x → InsSim cmp k v h p ht x (ins cmp k v x fresh) := by
  fun_induction ins cmp k v x fresh with
  | case1 id kvs kids i hs =>
    intro ht h p hb hn hcnt hlt hroot hfresh hsub
    obtain ⟨sx, hx, hpar, hr, hkids⟩ := sub_mk.mp hsub
    have hi : i < kvs.length := by
      have := searchNode_found_lt cmp k kvs (by rw [hs]); rw [hs] at this; exact this
    obtain ⟨h', x', hstep, hsame, hr', hp', hg'⟩ := step_setValue hx hr hi v [id]
    simp only [InsSim]
    refine ⟨id, i, sx, h', ?_, hx, hstep, ?_, ?_, hsame.len⟩
    · intro fuel hf
      obtain ⟨f', rfl⟩ : ∃ f', fuel = f' + 1 := ⟨fuel - 1, by omega⟩
      simp only [Node.id]
      rw [descend_here hx hr, hs]; simp
    · refine sub_mk.mpr ⟨x', by rw [hg']; simp, hp'.trans hpar, ?_, ?_⟩
      · rw [setVal_eq (List.getElem?_eq_getElem hi)]; exact hr'
      · intro c hc
        refine Sub.congr c (fun j hj => ?_) (hkids c hc)
        rw [hg']
        have : j ≠ id := ne_of_cnt (hcnt j) hc hj
        simp [this]
    · refine ⟨?_, hsame.root, hsame.size, hsame.gen⟩
      intro j hj _
      rw [hg']
      have : j ≠ id := by intro e; subst e; rw [cnt_mk] at hj; simp at hj
      simp [this]
  | case2 id kvs kids i hs hleaf hroom =>
    intro ht h p hb hn hcnt hlt hroot hfresh hsub
    have hk : kids = [] := List.isEmpty_iff.mp hleaf
    subst hk
    obtain ⟨sx, hx, hpar, hr, hkids⟩ := sub_mk.mp hsub
    simp only [List.map_nil] at hr
    have hnf : kvs.length ≠ keysCap := by
      intro e
      rw [full_iff, e] at hroom
      simp [Gen.Tree.putInsertsDirect] at hroom
    have hlt' : kvs.length < keysCap := by
      have := capInt.1; have := capInt.2.1
      simp only [node_n] at hn
      omega
    obtain ⟨h', x', hstep, hsame, hr', hp', hg'⟩ := step_leafInsert hx hr
      (lowerIdx_le Gen.Tree.insertLess cmp k kvs) hlt' k v [id]
    simp only [InsSim]
    refine ⟨id, i, sx, h', ?_, hx, ?_, ?_, ?_, by rw [hsame.len, hfresh]⟩
    · intro fuel hf
      obtain ⟨f', rfl⟩ : ∃ f', fuel = f' + 1 := ⟨fuel - 1, by omega⟩
      simp only [Node.id]
      rw [descend_here hx hr, hs]; simp
    · intro fuel _
      unfold putLeaf
      rw [hr.hn, if_pos hroom, toIdx_natCast, Option.bind_some, lowerFrom_rep _ cmp k hr, Option.bind_some]
      exact hstep
    · exact sub_mk.mpr ⟨x', by rw [hg']; simp, hp'.trans hpar, by simp only [List.map_nil]; exact hr', by simp⟩
    · refine ⟨?_, hsame.root, hsame.size, hsame.gen⟩
      intro j hj _
      rw [hg']
      have : j ≠ id := by intro e; subst e; rw [cnt_mk] at hj; simp at hj
      simp [this]
  | case3 id kvs kids i hs hleaf hroom r =>
    intro ht h p hb hn hcnt hlt hroot hfresh hsub
    have hk : kids = [] := List.isEmpty_iff.mp hleaf
    subst hk
    have h0 := bal_leaf_iff.mp hb
    subst h0
    obtain ⟨sx, hx, hpar, hr, hkids⟩ := sub_mk.mp hsub
    simp only [List.map_nil] at hr
    have hfull : kvs.length = keysCap := by
      rcases Nat.lt_or_ge kvs.length keysCap with hl | hg
      · exfalso; apply hroom
        have : ¬ kvs.length = keysCap := by omega
        rw [full_iff]; simp [Gen.Tree.putInsertsDirect, this]
      · have := capInt.1; have := capInt.2.1
        simp only [node_n] at hn
        omega
    have hroom' : Gen.Tree.putInsertsDirect (Gen.Tree.full sx.n) = false := by
      rw [hr.hn, full_iff]; simp [Gen.Tree.putInsertsDirect, hfull]
    have hreq : r = overfillNode cmp id kvs [] (k, v) none fresh := rfl
    rw [overfillNode_eq cmp id kvs [] (k, v) none fresh hfull (Or.inl ⟨rfl, rfl⟩)] at hreq
    simp only [List.take_nil, List.drop_nil] at hreq
    simp only [InsSim, hreq, Node.id]
    obtain ⟨h1, l', r', hov, hroot1, hsize1, hgen1, hlen1, hl, hpl, hrr, hpr, hg1⟩ :=
      overfill_step cmp k v hx hr hfull (Or.inl ⟨rfl, rfl⟩) (by simp [amalKids]) (by simp [amalKids])
    simp only [amalKids, List.take_nil, List.drop_nil, List.not_mem_nil, if_false] at hl hrr hg1
    have hidlt : id < h.nodes.length := get_lt hx
    refine ⟨id, i, sx, h1, ?_, hx, ?_, ?_, ?_, ?_, by rw [hlen1, hfresh]⟩
    · intro fuel hf
      obtain ⟨f', rfl⟩ : ∃ f', fuel = f' + 1 := ⟨fuel - 1, by omega⟩
      rw [descend_here hx hr, hs]; simp
    · intro fuel
      unfold putLeaf
      rw [hroom', hfresh]
      exact hov fuel
    · refine sub_mk.mpr ⟨l', ?_, hpl.trans hpar, by simpa using hl, by simp⟩
      rw [hg1]
      have : id ≠ h.nodes.length := by omega
      simp [this]
    · refine sub_mk.mpr ⟨r', ?_, hpr, by simpa using hrr, by simp⟩
      rw [hg1, hfresh]; simp
    · refine ⟨?_, hroot1, hsize1, hgen1⟩
      intro j hj hjl
      rw [hg1]
      have h1' : j ≠ id := by intro e; subst e; rw [cnt_mk] at hj; simp at hj
      have h2' : j ≠ h.nodes.length := by omega
      simp [h1', h2']
  | case4 id kvs kids i hs hinner hnone =>
    intro ht h p hb hn hcnt hlt hroot hfresh hsub
    have hne : kids ≠ [] := by simpa using hinner
    obtain ⟨h', rfl, hlen, hall⟩ := bal_inner hne hb
    have := searchNode_le cmp k kvs
    rw [hs] at this
    have : i < kids.length := by simp at this; omega
    simp at hnone
    omega
  | case5 id kvs kids i hs hinner c hc f hres ih =>
    intro ht h p hb hn hcnt hlt hroot hfresh hsub
    have hne : kids ≠ [] := by simpa using hinner
    obtain ⟨ht', sx, rfl, hlen, hx, hpar, hr, hkids, hbc, hnc, hcntc, hltc, hrootc, hidc, hcroot, hci, hck, hcm, hnd, hil⟩ :=
      inner_facts hne hb hcnt hlt hroot hsub hc
    have := ih ht' h (some id) hbc hnc hcntc hltc hrootc hfresh (hkids c hcm)
    rw [hres] at this
    exact this.elim
  | case6 id kvs kids i hs hinner c hc c' f hres ih =>
    intro ht h p hb hn hcnt hlt hroot hfresh hsub
    have hne : kids ≠ [] := by simpa using hinner
    obtain ⟨ht', sx, rfl, hlen, hx, hpar, hr, hkids, hbc, hnc, hcntc, hltc, hrootc, hidc, hcroot, hci, hck, hcm, hnd, hil⟩ :=
      inner_facts hne hb hcnt hlt hroot hsub hc
    have hih := ih ht' h (some id) hbc hnc hcntc hltc hrootc hfresh (hkids c hcm)
    have hsh := ins_shape cmp k v c fresh
    rw [hres] at hih hsh
    simp only [InsSim] at hih hsh ⊢
    obtain ⟨curr, idx, xs, h', hdesc, hxs, hstep, hsub', hfr, hlen'⟩ := hih
    have hidlt : id < h.nodes.length := get_lt hx
    refine ⟨curr, idx, xs, h', ?_, hxs, hstep, ?_, ?_, hlen'⟩
    · intro fuel hf
      obtain ⟨f', rfl⟩ : ∃ f', fuel = f' + 1 := ⟨fuel - 1, by omega⟩
      simp only [Node.id]
      rw [descend_inner hx hr hs hne hci]
      exact hdesc f' (by omega)
    · refine sub_mk.mpr ⟨sx, ?_, hpar, ?_, ?_⟩
      · rw [hfr.get id hidc hidlt]; exact hx
      · rw [map_id_replaceAt hc hsh]; exact hr
      · intro d hd
        rcases mem_replaceAt' hd with rfl | hd
        · exact hsub'
        · exact siblings_keep hc hkids hck (fun j hj hk => hfr.get j hj (hlt j (by rw [cnt_mk]; omega))) d hd
    · refine ⟨?_, hfr.root, hfr.size, hfr.gen⟩
      intro j hj hjl
      exact hfr.get j (by have := cnt_child_le (id := id) (kvs := kvs) hcm j; omega) hjl
  | case7 id kvs kids i hs hinner c hc c' f hres ih =>
    intro ht h p hb hn hcnt hlt hroot hfresh hsub
    have hne : kids ≠ [] := by simpa using hinner
    obtain ⟨ht', sx, rfl, hlen, hx, hpar, hr, hkids, hbc, hnc, hcntc, hltc, hrootc, hidc, hcroot, hci, hck, hcm, hnd, hil⟩ :=
      inner_facts hne hb hcnt hlt hroot hsub hc
    have hih := ih ht' h (some id) hbc hnc hcntc hltc hrootc hfresh (hkids c hcm)
    have hsh := ins_shape cmp k v c fresh
    rw [hres] at hih hsh
    simp only [InsSim] at hih hsh ⊢
    obtain ⟨curr, idx, xs, h', hdesc, hxs, hput, hsub', hfr, hlen'⟩ := hih
    have hidlt : id < h.nodes.length := get_lt hx
    refine ⟨curr, idx, xs, h', ?_, hxs, fun fuel hf => hput fuel (by omega), ?_, ?_, hlen'⟩
    · intro fuel hf
      obtain ⟨f', rfl⟩ : ∃ f', fuel = f' + 1 := ⟨fuel - 1, by omega⟩
      simp only [Node.id]
      rw [descend_inner hx hr hs hne hci]
      exact hdesc f' (by omega)
    · refine sub_mk.mpr ⟨sx, ?_, hpar, ?_, ?_⟩
      · rw [hfr.get id hidc hidlt]; exact hx
      · rw [map_id_replaceAt hc hsh]; exact hr
      · intro d hd
        rcases mem_replaceAt' hd with rfl | hd
        · exact hsub'
        · exact siblings_keep hc hkids hck (fun j hj hk => hfr.get j hj (hlt j (by rw [cnt_mk]; omega))) d hd
    · refine ⟨?_, hfr.root, hfr.size, hfr.gen⟩
      intro j hj hjl
      exact hfr.get j (by have := cnt_child_le (id := id) (kvs := kvs) hcm j; omega) hjl
  | case8 id kvs kids i hs hinner c hc l sep r f hres kids1 hroom ih =>
    intro ht h p hb hn hcnt hlt hroot hfresh hsub
    have hne : kids ≠ [] := by simpa using hinner
    obtain ⟨ht', sx, rfl, hlen, hx, hpar, hr, hkids, hbc, hnc, hcntc, hltc, hrootc, hidc, hcroot, hci, hck, hcm, hnd, hil⟩ :=
      inner_facts hne hb hcnt hlt hroot hsub hc
    have hih := ih ht' h (some id) hbc hnc hcntc hltc hrootc hfresh (hkids c hcm)
    have hsh := ins_shape cmp k v c fresh
    have hids := ins_ids cmp k v c fresh ht' hbc hnc
    rw [hres] at hih hsh hids
    simp only [InsSim] at hih hsh ⊢
    obtain ⟨curr, idx, xs, h1, hdesc, hxs, hput, hsubl, hsubr, hfr, hlen1⟩ := hih
    obtain ⟨hlid, hrid1, hrid2⟩ := hsh
    obtain ⟨hff, hcr0⟩ := hids
    have hidlt : id < h.nodes.length := get_lt hx
    obtain ⟨hidl, hidr, hrl, hrr1⟩ := split_id_facts hcr0 hltc hfresh hidc hidlt hrid1 hrid2
    obtain ⟨sl, hsl, hslp, _⟩ := hsubl.root
    obtain ⟨sr, hsr, hsrp, _⟩ := hsubr.root
    rw [hlid] at hsl
    have hx1 : h1.get id = some sx := by rw [hfr.get id hidc hidlt]; exact hx
    have hroomk : kvs.length < keysCap := by
      rcases Nat.lt_or_ge kvs.length keysCap with hl | hg
      · exact hl
      · exfalso
        have hcap := capInt.1; have := capInt.2.1
        simp only [node_n] at hn
        have : kvs.length = keysCap := by omega
        rw [full_iff, this] at hroom
        simp [Gen.Tree.overfillParentHasRoom] at hroom
    have hrne : r.id ≠ id := by omega
    obtain ⟨h3, x2, hup, hsame3, hr2, hp2, hg3⟩ := up_room cmp sep.1 sep.2 (by rw [hfr.root]; exact hcroot) hsl hslp hx1 hr
      (by simpa using hlen) hnd hci hroomk hsr hrne
    have e1 : (Gen.Tree.parentSepIdx (i : Int)).toNat = i := by simp [Gen.Tree.parentSepIdx]
    have e2 : (Gen.Tree.parentRightIdx (i : Int)).toNat = i + 1 := by simp only [Gen.Tree.parentRightIdx]; omega
    rw [e1, e2]
    have hk1 : kids1 = replaceAt kids i l := rfl
    refine ⟨curr, idx, xs, h3, ?_, hxs, ?_, ?_, ?_, by rw [hsame3.len]; exact hlen1⟩
    · intro fuel hf
      obtain ⟨f', rfl⟩ : ∃ f', fuel = f' + 1 := ⟨fuel - 1, by omega⟩
      simp only [Node.id]
      rw [descend_inner hx hr hs hne hci]
      exact hdesc f' (by omega)
    · intro fuel hf
      have := hput (fuel - (ht' + 1))
      rw [show fuel - (ht' + 1) + ht' + 1 = fuel by omega] at this
      rw [this]
      exact hup _
    · refine sub_mk.mpr ⟨x2, ?_, hp2.trans hpar, ?_, ?_⟩
      · rw [hg3]; simp [hrne.symm]
      · rw [map_insertAt, hk1, map_id_replaceAt hc hlid]; exact hr2
      · intro d hd
        rcases mem_insertAt hd with rfl | hd
        · refine Sub.reparent hsubr hrr1 ?_ ?_
          · rw [hg3]; simp [hsr]
          · intro j hj hjr
            rw [hg3]
            have : j ≠ id := by intro e; subst e; omega
            simp [hjr, this]
        · rcases mem_replaceAt' hd with rfl | hd
          · refine Sub.congr _ (fun j hj => ?_) hsubl
            rw [hg3]
            have h1' : j ≠ r.id := by intro e; subst e; omega
            have h2' : j ≠ id := by intro e; subst e; omega
            simp [h1', h2']
          · refine siblings_keep hc hkids hck (fun j hj hk => ?_) d hd
            have hjl : j < h.nodes.length := hlt j (by rw [cnt_mk]; omega)
            rw [hg3]
            have h1' : j ≠ r.id := by omega
            have h2' : j ≠ id := by
              intro e; subst e
              have := hcnt j; rw [cnt_mk] at this; simp at this; omega
            simp only [h1', h2', if_false]
            exact hfr.get j hj hjl
    · refine ⟨?_, by rw [hsame3.root, hfr.root], by rw [hsame3.size, hfr.size], by rw [hsame3.gen, hfr.gen]⟩
      intro j hj hjl
      rw [hg3]
      have h1' : j ≠ r.id := by omega
      have h2' : j ≠ id := by intro e; subst e; rw [cnt_mk] at hj; simp at hj
      simp only [h1', h2', if_false]
      exact hfr.get j (by have := cnt_child_le (id := id) (kvs := kvs) hcm j; omega) hjl
  | case9 id kvs kids i hs hinner c hc l sep r f hres kids1 hroom s ih =>
    intro ht h p hb hn hcnt hlt hroot hfresh hsub
    obtain ⟨sk, sv⟩ := sep
    have hne : kids ≠ [] := by simpa using hinner
    obtain ⟨ht', sx, rfl, hlen, hx, hpar, hr, hkids, hbc, hnc, hcntc, hltc, hrootc, hidc, hcroot, hci, hck, hcm, hnd, hil⟩ :=
      inner_facts hne hb hcnt hlt hroot hsub hc
    have hih := ih ht' h (some id) hbc hnc hcntc hltc hrootc hfresh (hkids c hcm)
    have hsh := ins_shape cmp k v c fresh
    have hids := ins_ids cmp k v c fresh ht' hbc hnc
    rw [hres] at hih hsh hids
    simp only [InsSim] at hih hsh
    obtain ⟨curr, idx, xs, h1, hdesc, hxs, hput, hsubl, hsubr, hfr, hlen1⟩ := hih
    obtain ⟨hlid, hrid1, hrid2⟩ := hsh
    obtain ⟨hff, hcr0⟩ := hids
    have hidlt : id < h.nodes.length := get_lt hx
    obtain ⟨hidl, hidr, hrl, hrr1⟩ := split_id_facts hcr0 hltc hfresh hidc hidlt hrid1 hrid2
    have hcr : ∀ j, cnt j l + cnt j r = cnt j c + isNew fresh f j := by
      intro j
      rcases hcr0 j with h' | h'
      · exact h'
      · cases h'
    obtain ⟨sl, hsl, hslp, _⟩ := hsubl.root
    obtain ⟨sr, hsr, hsrp, _⟩ := hsubr.root
    rw [hlid] at hsl
    have hx1 : h1.get id = some sx := by rw [hfr.get id hidc hidlt]; exact hx
    have hfull : kvs.length = keysCap := by
      rcases Nat.lt_or_ge kvs.length keysCap with hl | hg
      · exfalso; apply hroom
        have : ¬ kvs.length = keysCap := by omega
        rw [full_iff]; simp [Gen.Tree.overfillParentHasRoom, this]
      · have := capInt.1; have := capInt.2.1
        simp only [node_n] at hn
        omega
    have hk1 : kids1 = replaceAt kids i l := rfl
    have hk1len : kids1.length = kvs.length + 1 := by rw [hk1, length_replaceAt _ _ _ hil]; exact hlen
    have hk1map : kids1.map Node.id = kids.map Node.id := by rw [hk1]; exact map_id_replaceAt hc hlid
    have hseq : s = overfillNode cmp id kvs kids1 (sk, sv) (some r) f := rfl
    rw [overfillNode_eq cmp id kvs kids1 (sk, sv) (some r) f hfull (Or.inr ⟨hk1len, rfl⟩)] at hseq
    simp only at hseq
    generalize he : lowerIdx Gen.Tree.amalgamLess cmp sk kvs = e at hseq
    -- the forest of the children of the amalgam
    have hforest : ∀ j, cntK j (insertAt kids1 (e + 1) r) = cntK j kids + isNew fresh f j := by
      intro j
      rw [cntK_insertAt, hk1, cntK_replaceAt]
      have := cntK_at hc j
      have := hcr j
      omega
    have hkold : ∀ j, h.nodes.length ≤ j → cntK j kids = 0 := by
      intro j hj
      rcases Nat.eq_zero_or_pos (cntK j kids) with h0 | hp
      · exact h0
      · have := hlt j (by rw [cnt_mk]; omega); omega
    have hfnd : ∀ j, cntK j (insertAt kids1 (e + 1) r) ≤ 1 := by
      intro j
      rw [hforest]
      have h1' := hck j
      simp only [isNew]
      split
      · have := hkold j (by omega); omega
      · omega
    have hfid : cntK id (insertAt kids1 (e + 1) r) = 0 := by
      rw [hforest]
      have := hcnt id
      rw [cnt_mk] at this
      simp only [isNew]
      split
      · omega
      · simp at this; omega
    have hmapK : (insertAt kids1 (e + 1) r).map Node.id = amalKids (kids.map Node.id) e (some r.id) := by
      rw [map_insertAt, hk1map]; rfl
    have hallsub : ∀ d ∈ insertAt kids1 (e + 1) r, ∃ q, Sub h1.get q d := by
      intro d hd
      rcases mem_insertAt hd with rfl | hd
      · exact ⟨none, hsubr⟩
      · rcases mem_replaceAt' hd with rfl | hd
        · exact ⟨some id, hsubl⟩
        · exact ⟨some id, siblings_keep hc hkids hck
            (fun j hj hk => hfr.get j hj (hlt j (by rw [cnt_mk]; omega))) d hd⟩
    have hpres : ∀ c' ∈ amalKids (kids.map Node.id) (lowerIdx Gen.Tree.amalgamLess cmp sk kvs) (some r.id),
        (h1.get c').isSome := by
      rw [he, ← hmapK]
      intro c' hc'
      obtain ⟨d, hd, rfl⟩ := List.mem_map.mp hc'
      obtain ⟨q, hq⟩ := hallsub d hd
      obtain ⟨sd, hsd, _⟩ := hq.root
      simp [hsd]
    have hxk : id ∉ amalKids (kids.map Node.id) (lowerIdx Gen.Tree.amalgamLess cmp sk kvs) (some r.id) := by
      rw [he, ← hmapK]
      intro hm
      obtain ⟨d, hd, hdi⟩ := List.mem_map.mp hm
      have h1' := cnt_self d
      rw [hdi] at h1'
      have := cnt_le_cntK hd id
      omega
    obtain ⟨h2, l', r', hov, hroot2, hsize2, hgen2, hlen2, hl, hpl, hrr, hpr, hg2⟩ :=
      overfill_step cmp sk sv hx1 hr hfull (Or.inr ⟨by simpa using hlen, rfl⟩) hpres hxk
    rw [he, ← hmapK] at hl hrr hg2
    rw [he] at hov
    simp only [InsSim, hseq, Node.id]
    -- strictly inside one tree of the forest nothing changes
    have hinside : ∀ d ∈ insertAt kids1 (e + 1) r, ∀ j, 0 < cnt j d → j ≠ d.id → h2.get j = h1.get j := by
      intro d hd j hj hjd
      have hnotin : j ∉ (insertAt kids1 (e + 1) r).map Node.id := by
        intro hm
        obtain ⟨d', hd', hdj⟩ := List.mem_map.mp hm
        exact forest_strict hfnd hd hd' hj hjd hdj
      obtain ⟨q, hq⟩ := hallsub d hd
      obtain ⟨y, hy⟩ := Option.isSome_iff_exists.mp (Sub.present d hq j hj)
      have h1' : j ≠ h1.nodes.length := by have := get_lt hy; omega
      have h2' : j ≠ id := by
        intro e'; subst e'
        have := cnt_le_cntK hd j; omega
      rw [hg2]
      have n1 : j ∉ ((insertAt kids1 (e + 1) r).map Node.id).take (Gen.Tree.medianIdx.toNat + 1) :=
        fun hm => hnotin (List.mem_of_mem_take hm)
      have n2 : j ∉ ((insertAt kids1 (e + 1) r).map Node.id).drop (Gen.Tree.medianIdx.toNat + 1) :=
        fun hm => hnotin (List.mem_of_mem_drop hm)
      simp only [n1, n2, h1', h2', if_false]
    have hidne : id ≠ h1.nodes.length := by rw [hlen1]; omega
    have hidnot : id ∉ (insertAt kids1 (e + 1) r).map Node.id := by
      rw [hmapK, ← he]; exact hxk
    refine ⟨curr, idx, xs, h2, ?_, hxs, ?_, ?_, ?_, ?_, by rw [hlen2, hlen1]⟩
    · intro fuel hf
      obtain ⟨f', rfl⟩ : ∃ f', fuel = f' + 1 := ⟨fuel - 1, by omega⟩
      rw [descend_inner hx hr hs hne hci]
      exact hdesc f' (by omega)
    · intro fuel
      have := hput (fuel + 1)
      rw [show fuel + (ht' + 1) + 1 = fuel + 1 + ht' + 1 by omega, this,
        up_full cmp (fuel + 1) sk sv (by rw [hfr.root]; exact hcroot) hsl hslp hx1 hr hfull, hov fuel, hlen1]
    · -- the left half
      refine sub_mk.mpr ⟨l', ?_, hpl.trans hpar, by rw [List.map_take]; exact hl, ?_⟩
      · rw [hg2]
        have n1 : id ∉ ((insertAt kids1 (e + 1) r).map Node.id).take (Gen.Tree.medianIdx.toNat + 1) :=
          fun hm => hidnot (List.mem_of_mem_take hm)
        have n2 : id ∉ ((insertAt kids1 (e + 1) r).map Node.id).drop (Gen.Tree.medianIdx.toNat + 1) :=
          fun hm => hidnot (List.mem_of_mem_drop hm)
        simp only [n1, n2, hidne, if_false, if_true]
      · intro d hd
        have hdm := List.mem_of_mem_take hd
        obtain ⟨q, hq⟩ := hallsub d hdm
        refine Sub.reparent hq (by have := cnt_le_cntK hdm d.id; have := hfnd d.id; omega) ?_ (hinside d hdm)
        rw [hg2, if_pos (by rw [← List.map_take]; exact List.mem_map_of_mem hd)]
    · -- the right half
      refine sub_mk.mpr ⟨r', ?_, hpr, by rw [List.map_drop]; exact hrr, ?_⟩
      · rw [hg2]
        have hfne : f ≠ id := by omega
        have n1 : f ∉ ((insertAt kids1 (e + 1) r).map Node.id).take (Gen.Tree.medianIdx.toNat + 1) := by
          intro hm
          obtain ⟨d, hd, hdf⟩ := List.mem_map.mp (List.mem_of_mem_take hm)
          obtain ⟨q, hq⟩ := hallsub d hd
          obtain ⟨sd, hsd, _⟩ := hq.root
          have := get_lt hsd; omega
        have n2 : f ∉ ((insertAt kids1 (e + 1) r).map Node.id).drop (Gen.Tree.medianIdx.toNat + 1) := by
          intro hm
          obtain ⟨d, hd, hdf⟩ := List.mem_map.mp (List.mem_of_mem_drop hm)
          obtain ⟨q, hq⟩ := hallsub d hd
          obtain ⟨sd, hsd, _⟩ := hq.root
          have := get_lt hsd; omega
        simp only [n1, n2, hlen1, if_false, if_true]
      · intro d hd
        have hdm := List.mem_of_mem_drop hd
        obtain ⟨q, hq⟩ := hallsub d hdm
        refine Sub.reparent hq (by have := cnt_le_cntK hdm d.id; have := hfnd d.id; omega) ?_ (hinside d hdm)
        have hin : d.id ∈ ((insertAt kids1 (e + 1) r).map Node.id).drop (Gen.Tree.medianIdx.toNat + 1) := by
          rw [← List.map_drop]; exact List.mem_map_of_mem hd
        rw [hg2, if_neg (not_mem_take_of_mem_drop (kids_ids_nodup hfnd) hin), if_pos hin, hlen1]
    · refine ⟨?_, by rw [hroot2, hfr.root], by rw [hsize2, hfr.size], by rw [hgen2, hfr.gen]⟩
      intro j hj hjl
      have hjc : cnt j c = 0 := by have := cnt_child_le (id := id) (kvs := kvs) hcm j; omega
      have hnotin : j ∉ (insertAt kids1 (e + 1) r).map Node.id := by
        intro hm
        obtain ⟨d, hd, hdj⟩ := List.mem_map.mp hm
        have h1' := cnt_self d
        rw [hdj] at h1'
        have h2' := cnt_le_cntK hd j
        have h3' := hforest j
        rw [cnt_mk] at hj
        simp only [isNew] at h3'
        split at h3' <;> omega
      have n1 : j ∉ ((insertAt kids1 (e + 1) r).map Node.id).take (Gen.Tree.medianIdx.toNat + 1) :=
        fun hm => hnotin (List.mem_of_mem_take hm)
      have n2 : j ∉ ((insertAt kids1 (e + 1) r).map Node.id).drop (Gen.Tree.medianIdx.toNat + 1) :=
        fun hm => hnotin (List.mem_of_mem_drop hm)
      have h1' : j ≠ h1.nodes.length := by rw [hlen1]; omega
      have h2' : j ≠ id := by intro e'; subst e'; rw [cnt_mk] at hj; simp at hj
      rw [hg2]
      simp only [n1, n2, h1', h2', if_false]
      exact hfr.get j hjc hjl

end Juniper.Proofs.TreeHeapLink
