import Juniper.Proofs.TreeAccessBase
/-!
# Access-level model (C01, concurrent clause): the parent pointers

`ParRep m t`: in the memory `m` every child of a node of `t` points back to that node and the root's parent
pointer is nil. `memOf_parRep`: the heap image `memOf t` of a tree with pairwise distinct node identities has
that property. (The parent pointers are read by the cursor moves of the range readers only; no modelled
operation writes them.)
-/
namespace Juniper.Proofs.TreeAccess
open Juniper.Gen.Tree Juniper.Model.BTree Juniper.Model.BTreeAccess Juniper.Proofs.Tree

variable {K V : Type}

/-- the identities of the proper descendants -/
def desc (x : Node K V) : List Nat := (x.kids.map ids).flatten

theorem ids_eq_cons_desc (x : Node K V) : ids x = x.id :: desc x := by
  obtain ⟨id, kvs, kids⟩ := x; simp [ids, desc, Node.id, Node.kids]

theorem desc_sub_ids {x : Node K V} {a : Nat} (h : a ∈ desc x) : a ∈ ids x := by
  rw [ids_eq_cons_desc]; exact List.mem_cons_of_mem _ h

def ParRep (m : Mem K V) (t : Tree K V) : Prop :=
  m.parent t.root.id = none ∧ ∀ y, Sub t.root y → ∀ c ∈ y.kids, m.parent c.id = some y.id

theorem kid_id_mem_desc {y c : Node K V} (hc : c ∈ y.kids) : c.id ∈ desc y := by
  simp only [desc, List.mem_flatten, List.mem_map]
  refine ⟨ids c, ⟨c, hc, rfl⟩, ?_⟩
  rw [ids_eq_cons_desc]; exact List.mem_cons_self

/-- storing a subtree changes parent pointers of its proper descendants only -/
theorem parent_frame :
    (∀ (x : Node K V) (m : Mem K V), ∀ a, a ∉ desc x → (storeNode x m).parent a = m.parent a) ∧
    (∀ (kids : List (Node K V)) (m : Mem K V), ∀ a, a ∉ (kids.map desc).flatten → (storeKids kids m).parent a = m.parent a) := by
  have key : ∀ (id : Nat) (kvs : List (K × V)) (kids : List (Node K V)) (m : Mem K V),
      (∀ a, a ∉ (kids.map desc).flatten → (storeKids kids
        { m with
          n := fun b => if b = id then (kvs.length : Int) else m.n b
          key := fun b j => if b = id then (kvs[j]?).map (·.1) else m.key b j
          val := fun b j => if b = id then (kvs[j]?).map (·.2) else m.val b j
          child := fun b j => if b = id then (kids[j]?).map Node.id else m.child b j
          parent := fun b => if kids.any (fun c => c.id == b) then some id else m.parent b }).parent a =
        (if kids.any (fun c => c.id == a) then some id else m.parent a)) →
      ∀ a, a ∉ desc (Node.mk id kvs kids) → (storeNode (.mk id kvs kids) m).parent a = m.parent a := by
    intro id kvs kids m ih a ha
    simp only [desc, Node.kids, List.mem_flatten, List.mem_map, not_exists, not_and] at ha
    have h1 : kids.any (fun c => c.id == a) = false := by
      rw [Bool.eq_false_iff]
      intro h
      obtain ⟨c, hc, he⟩ := List.any_eq_true.mp h
      have : a = c.id := by simpa using (beq_iff_eq.mp he).symm
      exact ha (ids c) ⟨c, hc, rfl⟩ (by rw [this, ids_eq_cons_desc]; exact List.mem_cons_self)
    have h2 : a ∉ (kids.map desc).flatten := by
      simp only [List.mem_flatten, List.mem_map, not_exists, not_and]
      rintro l ⟨c, hc, rfl⟩ hm
      exact ha (ids c) ⟨c, hc, rfl⟩ (desc_sub_ids hm)
    simp only [storeNode]
    rw [ih a h2, h1]; rfl
  constructor
  · intro x m
    apply storeNode.induct
      (motive_1 := fun x m => ∀ a, a ∉ desc x → (storeNode x m).parent a = m.parent a)
      (motive_2 := fun kids m => ∀ a, a ∉ (kids.map desc).flatten → (storeKids kids m).parent a = m.parent a)
    · intro id kvs kids m ih
      exact key id kvs kids m (fun a ha => ih a ha)
    · intro m a _; rfl
    · intro c cs m ih1 ih2 a ha
      simp only [List.map_cons, List.flatten_cons, List.mem_append, not_or] at ha
      simp only [storeKids]
      rw [ih2 a ha.2, ih1 a ha.1]
  · intro kids m
    apply storeKids.induct
      (motive_1 := fun x m => ∀ a, a ∉ desc x → (storeNode x m).parent a = m.parent a)
      (motive_2 := fun kids m => ∀ a, a ∉ (kids.map desc).flatten → (storeKids kids m).parent a = m.parent a)
    · intro id kvs kids m ih
      exact key id kvs kids m (fun a ha => ih a ha)
    · intro m a _; rfl
    · intro c cs m ih1 ih2 a ha
      simp only [List.map_cons, List.flatten_cons, List.mem_append, not_or] at ha
      simp only [storeKids]
      rw [ih2 a ha.2, ih1 a ha.1]

/-- in a list of subtrees with pairwise distinct identities, an identity of one subtree is not a proper
descendant of any of them unless it is one in its own subtree -/
theorem not_mem_desc_of_nodup {kids : List (Node K V)} (hn : ((kids.map ids).flatten).Nodup) {c : Node K V} (hc : c ∈ kids) :
    c.id ∉ (kids.map desc).flatten := by
  induction kids with
  | nil => cases hc
  | cons d ds ih =>
    simp only [List.map_cons, List.flatten_cons, List.nodup_append] at hn
    obtain ⟨hn1, hn2, hdis⟩ := hn
    simp only [List.map_cons, List.flatten_cons, List.mem_append, not_or]
    rcases List.mem_cons.mp hc with rfl | hm
    · constructor
      · rw [ids_eq_cons_desc] at hn1
        exact (List.nodup_cons.mp hn1).1
      · simp only [List.mem_flatten, List.mem_map, not_exists, not_and]
        rintro l ⟨c', hc', rfl⟩ hmem
        exact hdis c.id (by rw [ids_eq_cons_desc]; exact List.mem_cons_self) c.id
          (List.mem_flatten.mpr ⟨ids c', List.mem_map.mpr ⟨c', hc', rfl⟩, desc_sub_ids hmem⟩) rfl
    · constructor
      · intro hmem
        exact hdis c.id (desc_sub_ids hmem) c.id
          (List.mem_flatten.mpr ⟨ids c, List.mem_map.mpr ⟨c, hm, rfl⟩, by rw [ids_eq_cons_desc]; exact List.mem_cons_self⟩) rfl
      · exact ih hn2 hm

theorem sub_kid_mem_desc {x y c : Node K V} (h : Sub x y) (hc : c ∈ y.kids) : c.id ∈ desc x := by
  induction h with
  | refl x => exact kid_id_mem_desc hc
  | @kid x c' y hm _ ih =>
    simp only [desc, List.mem_flatten, List.mem_map]
    exact ⟨ids c', ⟨c', hm, rfl⟩, desc_sub_ids (ih hc)⟩

/-- storing a subtree with pairwise distinct identities makes every child point back to its parent -/
theorem store_parent (x : Node K V) (m : Mem K V) :
    (ids x).Nodup → ∀ y, Sub x y → ∀ c ∈ y.kids, (storeNode x m).parent c.id = some y.id := by
  apply storeNode.induct
    (motive_1 := fun x m => (ids x).Nodup → ∀ y, Sub x y → ∀ c ∈ y.kids, (storeNode x m).parent c.id = some y.id)
    (motive_2 := fun kids m => ((kids.map ids).flatten).Nodup → ∀ c0 ∈ kids, ∀ y, Sub c0 y → ∀ c ∈ y.kids,
      (storeKids kids m).parent c.id = some y.id)
  · intro id kvs kids m ih hn y hy c hc
    simp only [ids, List.nodup_cons] at hn
    obtain ⟨hnot, hk⟩ := hn
    simp only [storeNode]
    rcases hy.inv with rfl | ⟨c0, hc0, hs⟩
    · simp only [Node.kids] at hc
      rw [parent_frame.2 kids _ c.id (not_mem_desc_of_nodup hk hc)]
      have : kids.any (fun c' => c'.id == c.id) = true := List.any_eq_true.mpr ⟨c, hc, by simp⟩
      show (if kids.any (fun c' => c'.id == c.id) = true then some id else m.parent c.id) = some id
      rw [this]; rfl
    · exact ih hk c0 hc0 y hs c hc
  · intro m _ c0 hc0; cases hc0
  · intro d ds m ih1 ih2 hn c0 hc0 y hy c hc
    simp only [List.map_cons, List.flatten_cons, List.nodup_append] at hn
    obtain ⟨hn1, hn2, hdis⟩ := hn
    simp only [storeKids]
    rcases List.mem_cons.mp hc0 with rfl | hmem
    · have hcd : c.id ∈ ids c0 := desc_sub_ids (sub_kid_mem_desc hy hc)
      have hnot : c.id ∉ (ds.map desc).flatten := by
        simp only [List.mem_flatten, List.mem_map, not_exists, not_and]
        rintro l ⟨c', hc', rfl⟩ hm
        exact hdis c.id hcd c.id (List.mem_flatten.mpr ⟨ids c', List.mem_map.mpr ⟨c', hc', rfl⟩, desc_sub_ids hm⟩) rfl
      rw [parent_frame.2 ds _ c.id hnot]
      exact ih1 hn1 y hy c hc
    · exact ih2 hn2 c0 hmem y hy c hc

/-- the heap image of a tree with pairwise distinct node identities has correct parent pointers -/
theorem memOf_parRep (t : Tree K V) (hn : (ids t.root).Nodup) : ParRep (memOf t) t := by
  refine ⟨?_, fun y hy c hc => store_parent t.root _ hn y hy c hc⟩
  unfold memOf
  rw [parent_frame.1 t.root _ t.root.id (by
    have := hn; rw [ids_eq_cons_desc] at this; exact (List.nodup_cons.mp this).1)]
  rfl

/-! ## key slots behind the live prefix -/

/-- storing a subtree leaves the key slots behind the live prefix of its nodes at the zero value -/
theorem store_keytail (x : Node K V) (m : Mem K V) :
    (ids x).Nodup → ∀ y, Sub x y → ∀ i, y.kvs.length ≤ i → (storeNode x m).key y.id i = none := by
  apply storeNode.induct
    (motive_1 := fun x m => (ids x).Nodup → ∀ y, Sub x y → ∀ i, y.kvs.length ≤ i → (storeNode x m).key y.id i = none)
    (motive_2 := fun kids m => ((kids.map ids).flatten).Nodup → ∀ c ∈ kids, ∀ y, Sub c y → ∀ i, y.kvs.length ≤ i →
      (storeKids kids m).key y.id i = none)
  · intro id kvs kids m ih hn y hy i hi
    simp only [ids, List.nodup_cons] at hn
    obtain ⟨hnot, hk⟩ := hn
    simp only [storeNode]
    rcases hy.inv with rfl | ⟨c, hc, hs⟩
    · have hf := store_frame.2 kids
        { m with
          n := fun b => if b = id then (kvs.length : Int) else m.n b
          key := fun b j => if b = id then (kvs[j]?).map (·.1) else m.key b j
          val := fun b j => if b = id then (kvs[j]?).map (·.2) else m.val b j
          child := fun b j => if b = id then (kids[j]?).map Node.id else m.child b j
          parent := fun b => if kids.any (fun c => c.id == b) then some id else m.parent b } id hnot
      have hk0 := hf.2.1 i
      simp only [Node.kvs] at hi
      show (storeKids kids _).key id i = none
      rw [hk0]
      simp [List.getElem?_eq_none hi]
    · exact ih hk c hc y hs i hi
  · intro m _ c hc; cases hc
  · intro c cs m ih1 ih2 hn c' hc' y hy i hi
    simp only [List.map_cons, List.flatten_cons, List.nodup_append] at hn
    obtain ⟨hn1, hn2, hdis⟩ := hn
    simp only [storeKids]
    rcases List.mem_cons.mp hc' with rfl | hmem
    · have hid := hy.id_mem
      have hnot : y.id ∉ (cs.map ids).flatten := fun h => hdis _ hid _ h rfl
      have hf := store_frame.2 cs (storeNode c' m) y.id hnot
      rw [hf.2.1 i]
      exact ih1 hn1 y hy i hi
    · exact ih2 hn2 c' hmem y hy i hi

/-- what the range readers rely on besides `Rep`: the parent pointers and zero key slots behind the live prefixes -/
def AuxRep (m : Mem K V) (t : Tree K V) : Prop :=
  ParRep m t ∧ ∀ y, Sub t.root y → ∀ i, y.kvs.length ≤ i → m.key y.id i = none

theorem memOf_auxRep (t : Tree K V) (hn : (ids t.root).Nodup) : AuxRep (memOf t) t :=
  ⟨memOf_parRep t hn, fun y hy i hi => store_keytail t.root _ hn y hy i hi⟩

end Juniper.Proofs.TreeAccess
