import Juniper.Proofs.TreeIterScript
import Juniper.Proofs.TreeIterProps
/-!
# Script-level form of the iterator clauses (C02, audit C02-F5)

`Proofs/TreeIterProps.lean` proves the clauses of C02 for one `Next` of the specification's resume-key iterator;
`Proofs/TreeIterScript.lean` proves that the model refines that iterator step by step along any script. This file
composes the two *formally*: for one iterator slot `j` and any script that interleaves `Put` / `Delete`, the creation
and the `Next` calls of any other iterators, and `Next` calls on `j`, the list of what `j`'s `Next` calls returned
(`sviews`: each with the contents of the map at that moment) is strictly monotone in the iterator's direction, inside
both bounds, present at the moment of the call, and sticky after the first "exhausted"; and the model's
observations are, call by call, the same answers (equivalent key, the current value).
-/
namespace Juniper.Proofs.Tree
open Juniper.Model.BTree Juniper.Gen.Tree

variable {K V : Type} {cmp : K → K → Int}

/-- slot `j`'s view of a specification run: for each `Next` on the live slot `j`, the contents of the map at that
moment and what the call returned -/
def sviews (cmp : K → K → Int) (j : Nat) : SSt K V → List (Step K V) → List (List (K × V) × Option (K × V))
  | _, [] => []
  | s, st :: sts =>
    match st with
    | .next i =>
      if i = j then
        match s.its j with
        | some it => (s.L, (snext cmp s.L it).2) :: sviews cmp j (sstep cmp s st).1 sts
        | none => sviews cmp j (sstep cmp s st).1 sts
      else sviews cmp j (sstep cmp s st).1 sts
    | _ => sviews cmp j (sstep cmp s st).1 sts

/-- the results of slot `j`'s `Next` calls in a list of observations (model or specification) -/
def yieldsOf {β : Type} (j : Nat) : List (Step K V) → List (Obs β) → List (Option β)
  | .next i :: sts, .yielded r :: os => if i = j then r :: yieldsOf j sts os else yieldsOf j sts os
  | _ :: sts, _ :: os => yieldsOf j sts os
  | _, _ => []

/-- slot `j` is not re-created by the script -/
def NoMk (j : Nat) (sts : List (Step K V)) : Prop := ∀ f lo hi, Step.mk j f lo hi ∉ sts

/-- "once it reports exhaustion it keeps doing so": after the first `none` only `none`s -/
def Sticky {β : Type} : List (Option β) → Prop
  | [] => True
  | none :: l => ∀ y ∈ l, y = none
  | some _ :: l => Sticky l

theorem sviews_yields (cmp : K → K → Int) (j : Nat) : ∀ (sts : List (Step K V)) (s : SSt K V),
    (sviews cmp j s sts).map (·.2) = yieldsOf j sts (srun cmp s sts).2 := by
  intro sts
  induction sts with
  | nil => intro s; rfl
  | cons st sts ih =>
    intro s
    cases st with
    | mutate m => simp only [sviews, srun, sstep, yieldsOf]; exact ih _
    | mk i f lo hi =>
      simp only [sviews, srun, yieldsOf]
      by_cases hz : lo.kind = none ∨ hi.kind = none
      · simp only [sstep, hz, if_true]; exact ih _
      · simp only [sstep, hz, if_false]; exact ih _
    | next i =>
      simp only [sviews, srun]
      by_cases hij : i = j
      · subst hij
        cases hit : s.its i with
        | none => simp only [sstep, hit, if_true, yieldsOf]; exact ih _
        | some it =>
          simp only [sstep, hit, if_true, yieldsOf, List.map_cons]
          rw [ih]
      · cases hit : s.its i with
        | none => simp only [sstep, hit, hij, if_false, yieldsOf]; exact ih _
        | some it => simp only [sstep, hit, hij, if_false, yieldsOf]; exact ih _

/-- `Next` changes neither the direction nor the far bound of an iterator -/
theorem snext_meta (cmp : K → K → Int) (L : List (K × V)) (it : SIter K) :
    (snext cmp L it).1.fwd = it.fwd ∧ (snext cmp L it).1.stop = it.stop := by
  rcases snext_cases cmp L it with ⟨_, _, g⟩ | ⟨_, ⟨r, _, g⟩ | ⟨r, e, _, _, g⟩ | ⟨r, e, _, _, _, g⟩⟩ <;>
    rw [g] <;> exact ⟨rfl, rfl⟩

theorem sorted_specMut (hs : StrictWeak cmp) {L : List (K × V)} (hL : Sorted cmp L) (m : Mut K V) :
    Sorted cmp (specMut cmp L m) := by
  cases m with
  | put k v => exact sorted_sput hs hL
  | del k => exact sorted_serase hL

/-- an exhausted iterator shows "exhausted" for the rest of the script -/
theorem sviews_exhausted (j : Nat) : ∀ (sts : List (Step K V)) (s : SSt K V) (it : SIter K),
    s.its j = some it → NoMk j sts → (∀ L' : List (K × V), snext cmp L' it = (it, none)) →
    ∀ v ∈ sviews cmp j s sts, v.2 = none := by
  intro sts
  induction sts with
  | nil => intro s it _ _ _ v hv; simp [sviews] at hv
  | cons st sts ih =>
    intro s it hit hno hex
    have hno' : NoMk j sts := fun f lo hi hm => hno f lo hi (List.mem_cons_of_mem _ hm)
    cases st with
    | mutate m => simp only [sviews]; exact ih _ it (by simpa [sstep] using hit) hno' hex
    | mk i f lo hi =>
      have hij : j ≠ i := by
        intro h; subst h; exact hno f lo hi (by simp)
      simp only [sviews]
      refine ih _ it ?_ hno' hex
      by_cases hz : lo.kind = none ∨ hi.kind = none
      · simpa [sstep, hz] using hit
      · simpa [sstep, hz, setSlot, hij] using hit
    | next i =>
      simp only [sviews]
      by_cases hij : i = j
      · subst hij
        simp only [hit, if_true]
        intro v hv
        rcases List.mem_cons.mp hv with rfl | hv
        · simp [hex]
        · refine ih _ it ?_ hno' hex v hv
          simp [sstep, hit, setSlot, hex]
      · simp only [hij, if_false]
        refine ih _ it ?_ hno' hex
        cases hi : s.its i with
        | none => simpa [sstep, hi] using hit
        | some it' => simpa [sstep, hi, setSlot, Ne.symm hij] using hit

/-- **The clauses of C02 for one iterator along a whole script** (specification side). `b` is the key the iterator
yielded last, if any. -/
theorem sviews_clauses (hs : StrictWeak cmp) (j : Nat) (lo hi : Bound K) (fwd : Bool) (stop : Option (CmpOp × K)) :
    ∀ (sts : List (Step K V)) (s : SSt K V) (it : SIter K) (b : Option K),
      Sorted cmp s.L → s.its j = some it → it.fwd = fwd → it.stop = stop → NoMk j sts →
      (∀ k, it.resume = some k → nearFn cmp fwd lo hi k = true) →
      (∀ b0, b = some b0 → ∀ (L : List (K × V)) it' e, Sorted cmp L → snext cmp L it = (it', some e) →
        dcmp cmp fwd b0 e.1 < 0) →
      (∀ v ∈ sviews cmp j s sts, ∀ e, v.2 = some e →
        e ∈ v.1 ∧ nearFn cmp fwd lo hi e.1 = true ∧ keepFn cmp stop e.1 = true ∧
          ∀ b0, b = some b0 → dcmp cmp fwd b0 e.1 < 0) ∧
      ((sviews cmp j s sts).filterMap (·.2)).Pairwise (fun a c => dcmp cmp fwd a.1 c.1 < 0) ∧
      Sticky ((sviews cmp j s sts).map (·.2)) := by
  have hd := dcmp_strictWeak hs fwd
  intro sts
  induction sts with
  | nil =>
    intro s it b _ _ _ _ _ _ _
    exact ⟨by intro v hv; simp [sviews] at hv, by simp [sviews], by simp [sviews, Sticky]⟩
  | cons st sts ih =>
    intro s it b hL hit hf hst hno hnear hb
    have hno' : NoMk j sts := fun f lo hi hm => hno f lo hi (List.mem_cons_of_mem _ hm)
    cases st with
    | mutate m =>
      simp only [sviews]
      exact ih _ it b (by simpa [sstep] using sorted_specMut hs hL m) (by simpa [sstep] using hit) hf hst hno' hnear hb
    | mk i f lo' hi' =>
      have hij : j ≠ i := by
        intro h; subst h; exact hno f lo' hi' (by simp)
      simp only [sviews]
      by_cases hz : lo'.kind = none ∨ hi'.kind = none
      · exact ih _ it b (by simpa [sstep, hz] using hL) (by simpa [sstep, hz] using hit) hf hst hno' hnear hb
      · exact ih _ it b (by simpa [sstep, hz] using hL) (by simpa [sstep, hz, setSlot, hij] using hit) hf hst hno' hnear hb
    | next i =>
      simp only [sviews]
      by_cases hij : i = j
      · subst hij
        simp only [hit, if_true]
        -- the call on our slot
        rcases hn : snext cmp s.L it with ⟨it1, out⟩
        have hmeta := snext_meta cmp s.L it
        rw [hn] at hmeta
        have hf1 : it1.fwd = fwd := by rw [hmeta.1, hf]
        have hst1 : it1.stop = stop := by rw [hmeta.2, hst]
        have hs1 : (sstep cmp s (.next i)).1.its i = some it1 := by simp [sstep, hit, hn, setSlot]
        have hL1 : Sorted cmp (sstep cmp s (.next i)).1.L := by simpa [sstep, hit] using hL
        have hnear1 : ∀ k, it1.resume = some k → nearFn cmp fwd lo hi k = true := by
          have := (snext_near hs hL lo hi (it := it) (by rw [hf]; exact hnear) hn).2.2
          rw [hf1] at this; exact this
        cases out with
        | none =>
          have hex : ∀ L' : List (K × V), snext cmp L' it1 = (it1, none) := snext_exhaustion_sticky hs hL hn
          have hall := sviews_exhausted (cmp := cmp) i sts _ it1 hs1 hno' hex
          refine ⟨?_, ?_, ?_⟩
          · intro v hv e he
            rcases List.mem_cons.mp hv with rfl | hv
            · cases he
            · rw [hall v hv] at he; cases he
          · have : (sviews cmp i (sstep cmp s (.next i)).1 sts).filterMap (·.2) = [] := by
              apply List.filterMap_eq_nil_iff.mpr
              intro v hv; exact hall v hv
            simp [this]
          · simp only [List.map_cons, Sticky]
            intro y hy
            obtain ⟨v, hv, rfl⟩ := List.mem_map.mp hy
            exact hall v hv
        | some e =>
          have hpres := snext_yield_present hs hL hn
          have hne := (snext_near hs hL lo hi (it := it) (by rw [hf]; exact hnear) hn).1 e rfl
          rw [hf] at hne
          have hbe : ∀ b0, b = some b0 → dcmp cmp fwd b0 e.1 < 0 := fun b0 hb0 => hb b0 hb0 s.L it1 e hL hn
          have hb1 : ∀ b0, some e.1 = some b0 → ∀ (L : List (K × V)) it' e', Sorted cmp L → snext cmp L it1 = (it', some e') →
              dcmp cmp fwd b0 e'.1 < 0 := by
            intro b0 hb0 L it' e' hL' hn'
            cases hb0
            have := snext_strict_monotone hs hL hL' hn hn'
            rw [hf] at this; exact this
          obtain ⟨r1, r2, r3⟩ := ih _ it1 (some e.1) hL1 hs1 hf1 hst1 hno' hnear1 hb1
          refine ⟨?_, ?_, ?_⟩
          · intro v hv e' he'
            rcases List.mem_cons.mp hv with rfl | hv
            · simp only [Option.some.injEq] at he'; subst he'
              exact ⟨hpres.1, hne, by rw [← hst]; exact hpres.2, hbe⟩
            · obtain ⟨q1, q2, q3, q4⟩ := r1 v hv e' he'
              refine ⟨q1, q2, q3, fun b0 hb0 => ?_⟩
              exact hd.lt_trans (hbe b0 hb0) (q4 e.1 rfl)
          · simp only [List.filterMap_cons]
            refine List.pairwise_cons.mpr ⟨?_, r2⟩
            intro c hc
            obtain ⟨v, hv, hvc⟩ := List.mem_filterMap.mp hc
            exact (r1 v hv c hvc).2.2.2 e.1 rfl
          · simp only [List.map_cons, Sticky]; exact r3
      · simp only [hij, if_false]
        refine ih _ it b ?_ ?_ hf hst hno' hnear hb
        · cases hi' : s.its i with
          | none => simpa [sstep, hi'] using hL
          | some it' => simpa [sstep, hi'] using hL
        · cases hi' : s.its i with
          | none => simpa [sstep, hi'] using hit
          | some it' => simpa [sstep, hi', setSlot, Ne.symm hij] using hit

/-- **"No key that stays in the collection … until the iterator has moved past it is skipped", along a script**
(specification side). From a state in which the iterator still owes `x` (a fresh iterator owes every entry inside its
near bound, `smk_owes`; after yielding `y` it owes every entry beyond `y`, `snext_owes_beyond`), for as long as the entry
`x` is in the map whenever slot `j` is asked: the answers are keys strictly before `x`, then `x` itself — never
"exhausted", never a key beyond `x` before `x` has been yielded. -/
theorem sviews_no_skip (hs : StrictWeak cmp) (j : Nat) (fwd : Bool) (stop : Option (CmpOp × K)) (x : K × V)
    (hkx : keepFn cmp stop x.1 = true)
    (hmono : ∀ a b, dcmp cmp fwd a b < 0 → keepFn cmp stop b = true → keepFn cmp stop a = true) :
    ∀ (sts : List (Step K V)) (s : SSt K V) (it : SIter K),
      Sorted cmp s.L → s.its j = some it → it.fwd = fwd → it.stop = stop → NoMk j sts → Owes cmp it x.1 →
      (∀ v ∈ sviews cmp j s sts, x ∈ v.1) →
      (∃ pre post, (sviews cmp j s sts).map (·.2) = pre ++ some x :: post ∧
          ∀ y ∈ pre, ∃ e, y = some e ∧ dcmp cmp fwd e.1 x.1 < 0) ∨
      (∀ y ∈ (sviews cmp j s sts).map (·.2), ∃ e, y = some e ∧ dcmp cmp fwd e.1 x.1 < 0) := by
  intro sts
  induction sts with
  | nil => intro s it _ _ _ _ _ _ _; right; intro y hy; simp [sviews] at hy
  | cons st sts ih =>
    intro s it hL hit hf hst hno ho hpers
    have hno' : NoMk j sts := fun f lo hi hm => hno f lo hi (List.mem_cons_of_mem _ hm)
    cases st with
    | mutate m =>
      simp only [sviews] at hpers ⊢
      exact ih _ it (by simpa [sstep] using sorted_specMut hs hL m) (by simpa [sstep] using hit) hf hst hno' ho hpers
    | mk i f lo' hi' =>
      have hij : j ≠ i := by
        intro h; subst h; exact hno f lo' hi' (by simp)
      simp only [sviews] at hpers ⊢
      by_cases hz : lo'.kind = none ∨ hi'.kind = none
      · exact ih _ it (by simpa [sstep, hz] using hL) (by simpa [sstep, hz] using hit) hf hst hno' ho hpers
      · exact ih _ it (by simpa [sstep, hz] using hL) (by simpa [sstep, hz, setSlot, hij] using hit) hf hst hno' ho hpers
    | next i =>
      simp only [sviews] at hpers ⊢
      by_cases hij : i = j
      · subst hij
        simp only [hit, if_true] at hpers ⊢
        have hx : x ∈ s.L := hpers (s.L, (snext cmp s.L it).2) (by simp)
        have hL1 : Sorted cmp (sstep cmp s (.next i)).1.L := by simpa [sstep, hit] using hL
        rcases snext_no_skip hs hL hx ho (by rw [hst]; exact hkx) (by rw [hf, hst]; exact hmono) with
          ⟨it', hn⟩ | ⟨it', e, hn, hlt, ho', hf', hst'⟩
        · left
          exact ⟨[], (sviews cmp i (sstep cmp s (.next i)).1 sts).map (·.2), by simp [hn], by intro y hy; simp at hy⟩
        · have hs1 : (sstep cmp s (.next i)).1.its i = some it' := by simp [sstep, hit, hn, setSlot]
          rw [hf] at hlt
          rcases ih _ it' hL1 hs1 (by rw [hf', hf]) (by rw [hst', hst]) hno' ho'
            (fun v hv => hpers v (List.mem_cons_of_mem _ hv)) with ⟨pre, post, h1, h2⟩ | h
          · left
            refine ⟨some e :: pre, post, by simp [hn, h1], ?_⟩
            intro y hy
            rcases List.mem_cons.mp hy with rfl | hy
            · exact ⟨e, rfl, hlt⟩
            · exact h2 y hy
          · right
            intro y hy
            simp only [List.map_cons, hn, List.mem_cons] at hy
            rcases hy with rfl | hy
            · exact ⟨e, rfl, hlt⟩
            · exact h y hy
      · simp only [hij, if_false] at hpers ⊢
        refine ih _ it ?_ ?_ hf hst hno' ho hpers
        · cases hi' : s.its i with
          | none => simpa [sstep, hi'] using hL
          | some it' => simpa [sstep, hi'] using hL
        · cases hi' : s.its i with
          | none => simpa [sstep, hi'] using hit
          | some it' => simpa [sstep, hi', setSlot, Ne.symm hij] using hit

/-! ## the model's observations are the same answers, call by call -/

/-- call-by-call agreement of two lists of `Next` results -/
def OutAll (cmp : K → K → Int) : List (Option (K × Option V)) → List (Option (K × V)) → Prop
  | [], [] => True
  | a :: as, b :: bs => OutRel cmp a b ∧ OutAll cmp as bs
  | _, _ => False

theorem yieldsOf_rel (j : Nat) : ∀ (sts : List (Step K V)) (os : List (Obs (K × Option V))) (ss : List (Obs (K × V))),
    ObsAll cmp os ss → OutAll cmp (yieldsOf j sts os) (yieldsOf j sts ss) := by
  intro sts
  induction sts with
  | nil => intro os ss _; cases os <;> cases ss <;> simp [yieldsOf, OutAll]
  | cons st sts ih =>
    intro os ss h
    cases os with
    | nil => cases ss with
      | nil => simp [yieldsOf, OutAll]
      | cons b bs => exact absurd h (by simp [ObsAll])
    | cons a as =>
      cases ss with
      | nil => exact absurd h (by simp [ObsAll])
      | cons b bs =>
        obtain ⟨h1, h2⟩ := h
        have hrest := ih as bs h2
        cases a with
        | nothing =>
          cases b with
          | nothing => cases st <;> simp only [yieldsOf] <;> exact hrest
          | panic => simp [ObsRel] at h1
          | yielded rb => simp [ObsRel] at h1
        | panic =>
          cases b with
          | nothing => simp [ObsRel] at h1
          | panic => cases st <;> simp only [yieldsOf] <;> exact hrest
          | yielded rb => simp [ObsRel] at h1
        | yielded ra =>
          cases b with
          | nothing => simp [ObsRel] at h1
          | panic => simp [ObsRel] at h1
          | yielded rb =>
            cases st with
            | mutate m => simp only [yieldsOf]; exact hrest
            | mk i f lo hi => simp only [yieldsOf]; exact hrest
            | next i =>
              simp only [yieldsOf]
              by_cases hij : i = j
              · simp only [hij, if_true]; exact ⟨h1, hrest⟩
              · simp only [hij, if_false]; exact hrest

theorem outAll_mem : ∀ (ys : List (Option (K × Option V))) (zs : List (Option (K × V))),
    OutAll cmp ys zs → ∀ a ∈ ys.filterMap id, ∃ e ∈ zs.filterMap id, cmp a.1 e.1 = 0 ∧ a.2 = some e.2 := by
  intro ys
  induction ys with
  | nil => intro zs _ a ha; simp at ha
  | cons y ys ih =>
    intro zs h a ha
    cases zs with
    | nil => simp [OutAll] at h
    | cons z zs =>
      obtain ⟨h1, h2⟩ := h
      cases y with
      | none =>
        cases z with
        | none =>
          simp only [List.filterMap_cons, id] at ha ⊢
          exact ih zs h2 a ha
        | some e => simp [OutRel] at h1
      | some y0 =>
        cases z with
        | none => simp [OutRel] at h1
        | some e =>
          simp only [List.filterMap_cons, id, List.mem_cons] at ha ⊢
          rcases ha with rfl | ha
          · exact ⟨e, Or.inl rfl, h1⟩
          · obtain ⟨e', he', q⟩ := ih zs h2 a ha
            exact ⟨e', Or.inr he', q⟩

/-- strict monotonicity carries over from the specification's answers to the model's (equivalent keys) -/
theorem outAll_pairwise (hs : StrictWeak cmp) (fwd : Bool) :
    ∀ (ys : List (Option (K × Option V))) (zs : List (Option (K × V))), OutAll cmp ys zs →
      (zs.filterMap id).Pairwise (fun a c => dcmp cmp fwd a.1 c.1 < 0) →
      (ys.filterMap id).Pairwise (fun a c => dcmp cmp fwd a.1 c.1 < 0) := by
  have hd := dcmp_strictWeak hs fwd
  have heq : ∀ {a b : K}, cmp a b = 0 → dcmp cmp fwd a b = 0 := by
    intro a b h; cases fwd
    · simp only [dcmp, Bool.false_eq_true, if_false]; exact hs.eq_symm h
    · simp only [dcmp, if_true]; exact h
  intro ys
  induction ys with
  | nil => intro zs _ _; simp
  | cons y ys ih =>
    intro zs h hp
    cases zs with
    | nil => simp [OutAll] at h
    | cons z zs =>
      obtain ⟨h1, h2⟩ := h
      cases y with
      | none =>
        cases z with
        | none =>
          simp only [List.filterMap_cons, id] at hp ⊢
          exact ih zs h2 hp
        | some e => simp [OutRel] at h1
      | some y0 =>
        cases z with
        | none => simp [OutRel] at h1
        | some e =>
          simp only [List.filterMap_cons, id] at hp ⊢
          have hp' := List.pairwise_cons.mp hp
          refine List.pairwise_cons.mpr ⟨?_, ih zs h2 hp'.2⟩
          intro c hc
          obtain ⟨e', he', q, _⟩ := outAll_mem ys zs h2 c hc
          have h3 := hp'.1 e' he'
          exact hd.lt_of_lt_of_eq (hd.lt_of_eq_of_lt (heq h1.1) h3) (hd.eq_symm (heq q))

theorem outAll_sticky : ∀ (ys : List (Option (K × Option V))) (zs : List (Option (K × V))), OutAll cmp ys zs →
    Sticky zs → Sticky ys := by
  have allnone : ∀ (ys : List (Option (K × Option V))) (zs : List (Option (K × V))), OutAll cmp ys zs →
      (∀ z ∈ zs, z = none) → ∀ y ∈ ys, y = none := by
    intro ys
    induction ys with
    | nil => intro zs _ _ y hy; simp at hy
    | cons y ys ih =>
      intro zs h hz y' hy'
      cases zs with
      | nil => simp [OutAll] at h
      | cons z zs =>
        obtain ⟨h1, h2⟩ := h
        have hz0 := hz z (by simp)
        subst hz0
        rcases List.mem_cons.mp hy' with rfl | hy'
        · cases y' with
          | none => rfl
          | some y0 => simp [OutRel] at h1
        · exact ih zs h2 (fun z hz' => hz z (by simp [hz'])) y' hy'
  intro ys
  induction ys with
  | nil => intro zs _ _; simp [Sticky]
  | cons y ys ih =>
    intro zs h hst
    cases zs with
    | nil => simp [OutAll] at h
    | cons z zs =>
      obtain ⟨h1, h2⟩ := h
      cases y with
      | none =>
        cases z with
        | none => simp only [Sticky] at hst ⊢; exact allnone ys zs h2 hst
        | some e => simp [OutRel] at h1
      | some y0 =>
        cases z with
        | none => simp [OutRel] at h1
        | some e => simp only [Sticky] at hst ⊢; exact ih zs h2 hst

end Juniper.Proofs.Tree
