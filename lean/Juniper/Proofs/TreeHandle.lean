import Juniper.Model.TreeHandle
import Juniper.Proofs.TreeOps
/-!
# Calls through copies of a `tree.Map` / `tree.Set` value (C01, handle clause)

`Model/TreeHandle.lean` gives the heap of `btree` objects, the `Map` / `Set` value as the address it
holds, copying, and a call of a `btree` method through a value (shared update only for pointer
receivers — generated `btreeRecvIsPtr`). Here the exported `Map` / `Set` methods are interpreted by the
*generated* text of their bodies (`mapBodies`, `setBodies`: `m.t.Put(k,v)`, `returnm.t.size`, …), and
`runVia_eq_runOps` shows: a history whose calls go through two copies of one value in any alternation is
the history of the ONE shared tree (`runOps`), call by call.
-/
namespace Juniper.Proofs.TreeHandle
open Juniper.Gen.Tree Juniper.Model.BTree Juniper.Model.TreeHandle Juniper.Proofs.Tree

variable {K V : Type}

/-- model of one `btree` method on one tree -/
abbrev Step (K V : Type) := Tree K V → Option (Tree K V × Out K V)

/-- the exported `Map` method an operation stands for -/
def mapMethod : Op K V → String
  | .put _ _ => "Put"
  | .del _ => "Delete"
  | .get _ => "Get"
  | .has _ => "Contains"
  | .len => "Len"
  | .first => "First"
  | .last => "Last"
  | .range _ _ => "Range"
  | .rrange _ _ => "RangeReverse"

/-- what the (generated) body text of that `Map` method does: which `btree` method is called on `m.t`
with the method's own arguments in their own order, or which field is read. Any other text: `none`. -/
def mapTarget (cmp : K → K → Int) (o : Op K V) (body : String) : Option (Access × Step K V) :=
  match o with
  | .put k v => if body = "m.t.Put(k,v)" then some (.method "Put", fun t => applyOp cmp t (.put k v)) else none
  | .del k => if body = "m.t.Delete(k)" then some (.method "Delete", fun t => applyOp cmp t (.del k)) else none
  | .get k => if body = "returnm.t.Get(k)" then some (.method "Get", fun t => applyOp cmp t (.get k)) else none
  | .has k => if body = "returnm.t.Contains(k)" then some (.method "Contains", fun t => applyOp cmp t (.has k)) else none
  | .len => if body = "returnm.t.size" then some (.field, fun t => applyOp cmp t .len) else none
  | .first => if body = "returnm.t.First()" then some (.method "First", fun t => applyOp cmp t .first) else none
  | .last => if body = "returnm.t.Last()" then some (.method "Last", fun t => applyOp cmp t .last) else none
  | .range lo hi =>
    if body = "returnm.t.Range(lower,upper)" then some (.method "Range", fun t => applyOp cmp t (.range lo hi)) else none
  | .rrange lo hi =>
    if body = "returnm.t.RangeReverse(lower,upper)" then
      some (.method "RangeReverse", fun t => applyOp cmp t (.rrange lo hi)) else none

/-- one exported `Map` call through the value `h` -/
def mapApply (cmp : K → K → Int) (s : Store K V) (h : Handle) (o : Op K V) : Option (Store K V × Out K V) :=
  match mapBodies.lookup (mapMethod o) with
  | none => none
  | some body =>
    match mapTarget cmp o body with
    | none => none
    | some (acc, step) => call s h acc step

/-- the exported operations of `tree.Set` -/
inductive SetOp (K : Type) where
  | add (k : K)
  | remove (k : K)
  | contains (k : K)
  | len
  | first
  | last
  | range (lo hi : Bound K)
  | rrange (lo hi : Bound K)

/-- a `Set[T]` is a `btree[T, struct{}]` -/
def SetOp.toOp : SetOp K → Op K Unit
  | .add k => .put k ()
  | .remove k => .del k
  | .contains k => .has k
  | .len => .len
  | .first => .first
  | .last => .last
  | .range lo hi => .range lo hi
  | .rrange lo hi => .rrange lo hi

def setMethod : SetOp K → String
  | .add _ => "Add"
  | .remove _ => "Remove"
  | .contains _ => "Contains"
  | .len => "Len"
  | .first => "First"
  | .last => "Last"
  | .range _ _ => "Range"
  | .rrange _ _ => "RangeReverse"

/-- what the (generated) body text of a `Set` method does (`First` / `Last` / `Range` keep the key of
the pair the `btree` hands out) -/
def setTarget (cmp : K → K → Int) (o : SetOp K) (body : String) : Option (Access × Step K Unit) :=
  match o with
  | .add k => if body = "s.t.Put(item,struct{}{})" then some (.method "Put", fun t => applyOp cmp t (.put k ())) else none
  | .remove k => if body = "s.t.Delete(item)" then some (.method "Delete", fun t => applyOp cmp t (.del k)) else none
  | .contains k =>
    if body = "returns.t.Contains(item)" then some (.method "Contains", fun t => applyOp cmp t (.has k)) else none
  | .len => if body = "returns.t.size" then some (.field, fun t => applyOp cmp t .len) else none
  | .first =>
    if body = "item,_:=s.t.First();returnitem" then some (.method "First", fun t => applyOp cmp t .first) else none
  | .last =>
    if body = "item,_:=s.t.Last();returnitem" then some (.method "Last", fun t => applyOp cmp t .last) else none
  | .range lo hi =>
    if body = "returniterator.Map(s.t.Range(lower,upper),func(pairKVPair[T,struct{}])T{returnpair.Key})" then
      some (.method "Range", fun t => applyOp cmp t (.range lo hi)) else none
  | .rrange lo hi =>
    if body = "returniterator.Map(s.t.RangeReverse(lower,upper),func(pairKVPair[T,struct{}])T{returnpair.Key})" then
      some (.method "RangeReverse", fun t => applyOp cmp t (.rrange lo hi)) else none

def setApply (cmp : K → K → Int) (s : Store K Unit) (h : Handle) (o : SetOp K) : Option (Store K Unit × Out K Unit) :=
  match setBodies.lookup (setMethod o) with
  | none => none
  | some body =>
    match setTarget cmp o body with
    | none => none
    | some (acc, step) => call s h acc step

/-- a history issued through two values `h0`, `h1` (`true` = through `h1`) -/
def runVia {α O S : Type} (app : S → Handle → α → Option (S × O)) (h0 h1 : Handle) :
    S → List (Bool × α) → Option (S × List O)
  | s, [] => some (s, [])
  | s, (b, o) :: os =>
    match app s (if b then h1 else h0) o with
    | none => none
    | some (s', out) =>
      match runVia app h0 h1 s' os with
      | none => none
      | some (s'', outs) => some (s'', out :: outs)

/-! ## evaluation of the generated facts -/

/-- each `btree` method that `Map` / `Set` call has a pointer receiver, and so has every `btree` method
that writes `root` / `size` / `gen`: the effect of each call is on the shared object. A statement about
the generated tables `btreeRecvIsPtr`, `btreeWritesHeader`; the property theorems discharge it by
`decide`. -/
abbrev ReceiversShared : Prop :=
  sharedUpdate "Put" = some true ∧ sharedUpdate "Delete" = some true ∧ sharedUpdate "Get" = some true ∧
  sharedUpdate "Contains" = some true ∧ sharedUpdate "First" = some true ∧ sharedUpdate "Last" = some true ∧
  sharedUpdate "Range" = some true ∧ sharedUpdate "RangeReverse" = some true

theorem call_shared {O : Type} (t : Tree K V) (acc : Access) (step : Tree K V → Option (Tree K V × O))
    (hacc : acc = .field ∨ ∃ m, acc = .method m ∧ sharedUpdate m = some true) :
    call ({ objs := [t] } : Store K V) { addr := 0 } acc step =
      (step t).map fun r => (({ objs := [r.1] } : Store K V), r.2) := by
  unfold call
  simp only [List.getElem?_cons_zero]
  cases hs : step t with
  | none => rfl
  | some r =>
    obtain ⟨t', out⟩ := r
    rcases hacc with rfl | ⟨m, rfl, hm⟩
    · simp
    · simp [hm]

/-- the body of a wrapper method is the expected forwarding text (evaluates the generated table), then
the call is a shared call -/
local macro "forwards " tbl:ident ", " m:str ", " b:str ", " h:term : tactic => `(tactic| (
  have hb : List.lookup $m $tbl = some $b := by decide
  simp only [mapApply, mapMethod, mapTarget, setApply, setMethod, setTarget, SetOp.toOp, hb, if_true]
  exact call_shared _ _ _ $h))

/-- one `Map` call through a value that holds the only object = the call on that object -/
theorem mapApply_eq (cmp : K → K → Int) (hs : ReceiversShared) (t : Tree K V) (o : Op K V) :
    mapApply cmp ({ objs := [t] } : Store K V) { addr := 0 } o =
      (applyOp cmp t o).map fun r => (({ objs := [r.1] } : Store K V), r.2) := by
  obtain ⟨h1, h2, h3, h4, h5, h6, h7, h8⟩ := hs
  cases o with
  | put k v => forwards mapBodies, "Put", "m.t.Put(k,v)", (Or.inr ⟨_, rfl, h1⟩)
  | del k => forwards mapBodies, "Delete", "m.t.Delete(k)", (Or.inr ⟨_, rfl, h2⟩)
  | get k => forwards mapBodies, "Get", "returnm.t.Get(k)", (Or.inr ⟨_, rfl, h3⟩)
  | has k => forwards mapBodies, "Contains", "returnm.t.Contains(k)", (Or.inr ⟨_, rfl, h4⟩)
  | len => forwards mapBodies, "Len", "returnm.t.size", (Or.inl rfl)
  | first => forwards mapBodies, "First", "returnm.t.First()", (Or.inr ⟨_, rfl, h5⟩)
  | last => forwards mapBodies, "Last", "returnm.t.Last()", (Or.inr ⟨_, rfl, h6⟩)
  | range lo hi => forwards mapBodies, "Range", "returnm.t.Range(lower,upper)", (Or.inr ⟨_, rfl, h7⟩)
  | rrange lo hi => forwards mapBodies, "RangeReverse", "returnm.t.RangeReverse(lower,upper)", (Or.inr ⟨_, rfl, h8⟩)

theorem setApply_eq (cmp : K → K → Int) (hs : ReceiversShared) (t : Tree K Unit) (o : SetOp K) :
    setApply cmp ({ objs := [t] } : Store K Unit) { addr := 0 } o =
      (applyOp cmp t o.toOp).map fun r => (({ objs := [r.1] } : Store K Unit), r.2) := by
  obtain ⟨h1, h2, h3, h4, h5, h6, h7, h8⟩ := hs
  cases o with
  | add k => forwards setBodies, "Add", "s.t.Put(item,struct{}{})", (Or.inr ⟨_, rfl, h1⟩)
  | remove k => forwards setBodies, "Remove", "s.t.Delete(item)", (Or.inr ⟨_, rfl, h2⟩)
  | contains k => forwards setBodies, "Contains", "returns.t.Contains(item)", (Or.inr ⟨_, rfl, h4⟩)
  | len => forwards setBodies, "Len", "returns.t.size", (Or.inl rfl)
  | first => forwards setBodies, "First", "item,_:=s.t.First();returnitem", (Or.inr ⟨_, rfl, h5⟩)
  | last => forwards setBodies, "Last", "item,_:=s.t.Last();returnitem", (Or.inr ⟨_, rfl, h6⟩)
  | range lo hi =>
    forwards setBodies, "Range",
      "returniterator.Map(s.t.Range(lower,upper),func(pairKVPair[T,struct{}])T{returnpair.Key})", (Or.inr ⟨_, rfl, h7⟩)
  | rrange lo hi =>
    forwards setBodies, "RangeReverse",
      "returniterator.Map(s.t.RangeReverse(lower,upper),func(pairKVPair[T,struct{}])T{returnpair.Key})",
      (Or.inr ⟨_, rfl, h8⟩)

/-- **Two copies, one collection.** Whatever the alternation between the two values, the history is the
history of the one shared tree. (`toOp` translates the wrapper's operation.) -/
theorem runVia_eq_runOps {α : Type} (cmp : K → K → Int) (toOp : α → Op K V)
    (app : Store K V → Handle → α → Option (Store K V × Out K V))
    (happ : ∀ t o, app { objs := [t] } { addr := 0 } o =
      (applyOp cmp t (toOp o)).map fun r => (({ objs := [r.1] } : Store K V), r.2)) :
    ∀ (os : List (Bool × α)) (t : Tree K V),
      runVia app { addr := 0 } { addr := 0 } { objs := [t] } os =
        (runOps cmp t (os.map fun bo => toOp bo.2)).map fun r => (({ objs := [r.1] } : Store K V), r.2)
  | [], t => rfl
  | (b, o) :: os, t => by
    simp only [runVia, List.map_cons, runOps, ite_self, happ]
    cases ha : applyOp cmp t (toOp o) with
    | none => rfl
    | some r =>
      obtain ⟨t', out⟩ := r
      simp only [Option.map_some]
      rw [runVia_eq_runOps cmp toOp app happ os t']
      cases runOps cmp t' (os.map fun bo => toOp bo.2) with
      | none => rfl
      | some r' => rfl

/-- a fresh value from a constructor, and a copy of it: one object, both values hold its address -/
theorem new_then_copy (ctor : String)
    (hctor : ctor = "NewMap" ∨ ctor = "NewMapCmp" ∨ ctor = "NewSet" ∨ ctor = "NewSetCmp") (isHandle : Bool)
    (hh : isHandle = true) (hn : newBtreeReturnsPtr = true) :
    newHandle ctor (Store.empty : Store K V) = some ({ objs := [Tree.empty] }, { addr := 0 }) ∧
    copyHandle isHandle ({ objs := [Tree.empty] } : Store K V) { addr := 0 } =
      some ({ objs := [Tree.empty] }, { addr := 0 }) := by
  subst hh
  refine ⟨?_, rfl⟩
  rcases hctor with rfl | rfl | rfl | rfl <;>
    simp [newHandle, ctorBodies, List.lookup, ctorWrapsNewBtree, hn, Store.empty]

end Juniper.Proofs.TreeHandle
