import Juniper.Proofs.StreamDen
/-!
# Every caller's-goroutine combinator of `stream.go` denotes its list function, faults included (C07, C08)

One lemma per combinator: `SDen soft m cost s L t → SDen soft (C m) (cost ∘ inner) st (C_spec L t).1 (C_spec L t).2`.
The spec functions say what a failure does to the output: everything determined by the items before
the failure is delivered, then the failure itself.
-/
namespace Juniper.Proofs.StreamDen
open Juniper.Model.Stream Juniper.Spec Juniper.Gen.Comb
universe u v w x
variable {σ : Type u} {σ' : Type w} {α β : Type v} {γ : Type x} {soft : Err → Bool}

theorem afterS_append (m : SM σ α) (a b : List Bool) (s : σ) : afterS m (a ++ b) s = afterS m b (afterS m a s) := by
  induction a generalizing s with
  | nil => rfl
  | cons c a ih => simp only [List.cons_append, afterS]; exact ih _

theorem SEnded.afterS {m : SM σ α} {s : σ} (h : SEnded m s) (cs : List Bool) : SEnded m (afterS m cs s) := by
  intro ds
  have := h (cs ++ ds)
  rwa [afterS_append] at this

/-- an invariant that forces the end and is preserved by every step gives `SEnded` -/
theorem sended_of_inv {m : SM σ α} (P : σ → Prop)
    (hstep : ∀ s, P s → CtxOk m s ∧ (m.step s true).1 = .end_ ∧ ∀ c, P (m.step s c).2) {s : σ} (h0 : P s) :
    SEnded m s := by
  intro cs
  induction cs generalizing s with
  | nil => exact ⟨(hstep s h0).1, (hstep s h0).2.1⟩
  | cons c cs ih => exact ih ((hstep s h0).2.2 c)

/-- a state that answers the end under every context and does not move has ended -/
theorem sended_fixed {m : SM σ α} {s : σ} (h : ∀ c, m.step s c = (.end_, s)) : SEnded m s :=
  sended_of_inv (fun t => t = s) (by
    intro t ht
    subst ht
    exact ⟨Or.inr (by rw [h, h]), by rw [h], fun c => by rw [h]⟩) rfl

/-- Once the inner stream has ended, a wrapper that (under an invariant `Q` on its own state)
answers the end under a live context, respects `CtxOk`, and either leaves its inner state alone or
moves it as the inner machine does, has ended too; the cost stays put. -/
theorem sended_wrapper {m : SM σ α} {m' : SM σ' γ} {cost : σ → Nat} (proj : σ' → σ) (Q : σ' → Prop)
    (hsim : ∀ t, Q t → SEnded m (proj t) →
      CtxOk m' t ∧ (m'.step t true).1 = .end_ ∧
        ∀ c, Q (m'.step t c).2 ∧ (proj (m'.step t c).2 = (m.step (proj t) c).2 ∨ proj (m'.step t c).2 = proj t))
    {t : σ'} (hQ : Q t) (he : SEnded m (proj t)) (hc : ∀ cs, cost (afterS m cs (proj t)) = cost (proj t)) :
    SEnded m' t ∧ ∀ cs, cost (proj (afterS m' cs t)) = cost (proj t) := by
  constructor
  · exact sended_of_inv (fun t => Q t ∧ SEnded m (proj t)) (by
      intro t ⟨hq, het⟩
      obtain ⟨h1, h2, h3⟩ := hsim t hq het
      refine ⟨h1, h2, fun c => ⟨(h3 c).1, ?_⟩⟩
      rcases (h3 c).2 with h | h
      · rw [h]; exact het.any c
      · rw [h]; exact het) ⟨hQ, he⟩
  · have key : ∀ cs (t : σ'), Q t → SEnded m (proj t) → ∃ ds, proj (afterS m' cs t) = afterS m ds (proj t) := by
      intro cs
      induction cs with
      | nil => intro t _ _; exact ⟨[], rfl⟩
      | cons c cs ih =>
        intro t hq het
        obtain ⟨_, _, h3⟩ := hsim t hq het
        simp only [afterS]
        rcases (h3 c).2 with h | h
        · obtain ⟨ds, hds⟩ := ih _ (h3 c).1 (by rw [h]; exact het.any c)
          exact ⟨c :: ds, by rw [hds, h]; rfl⟩
        · obtain ⟨ds, hds⟩ := ih _ (h3 c).1 (by rw [h]; exact het)
          exact ⟨ds, by rw [hds, h]⟩
    intro cs
    obtain ⟨ds, hds⟩ := key cs t hQ he
    rw [hds]
    exact hc ds

/-- an ended machine whose cost no longer moves denotes the empty sequence -/
theorem sden_of_ended {m : SM σ α} {cost : σ → Nat} {s : σ} (he : SEnded m s)
    (hc : ∀ cs, cost (afterS m cs s) = cost s) : SDen soft m cost s [] (.end_ (cost s)) := by
  obtain ⟨s', hs, he'⟩ := he.live
  have h1 : cost s' = cost s := by have := hc [true]; simpa [afterS, hs] using this
  have hc' : ∀ cs, cost (afterS m cs s') = cost s' := by
    intro cs
    have := hc (true :: cs)
    simp only [afterS, hs] at this
    rw [this, h1]
  have := SDen.done (soft := soft) (cost := cost) he.ctxOk hs he' hc'
  rwa [h1] at this

/-! ## the scripted source -/

/-- items of a fault script up to its first hard failure. `er = true`: transient failures cost
nothing (they are erased); `er = false`: the view of a consumer that gives up at the first failure. -/
def scriptItems (er : Bool) (p : Nat) : List (Ev α) → List (α × Nat)
  | [] => []
  | .item a :: r => (a, p + 1) :: scriptItems er (p + 1) r
  | .transient _ :: r => if er then scriptItems er p r else []
  | .fatal _ :: _ => []

def scriptTerm (er : Bool) (p : Nat) : List (Ev α) → Term
  | [] => .end_ p
  | .item _ :: r => scriptTerm er (p + 1) r
  | .transient n :: r => if er then scriptTerm er p r else .fail (.transient n)
  | .fatal n :: _ => .fail (.fatal n)

/-- erase the transient failures of a script -/
def eraseT : List (Ev α) → List (Ev α)
  | [] => []
  | .transient _ :: r => eraseT r
  | e :: r => e :: eraseT r

theorem scriptItems_eraseT (er : Bool) (p : Nat) (sc : List (Ev α)) :
    scriptItems er p (eraseT sc) = scriptItems true p sc := by
  induction sc generalizing p with
  | nil => rfl
  | cons e r ih => cases e <;> simp [eraseT, scriptItems, ih]

theorem scriptTerm_eraseT (er : Bool) (p : Nat) (sc : List (Ev α)) :
    scriptTerm er p (eraseT sc) = scriptTerm true p sc := by
  induction sc generalizing p with
  | nil => rfl
  | cons e r ih => cases e <;> simp [eraseT, scriptTerm, ih]

theorem src_ctxOk (sc : List (Ev α)) (c p a : Nat) : CtxOk (src (α := α)) ⟨sc, c, p, 0, a⟩ := by
  left
  simp [src, srcStep]

theorem src_sended (c p a : Nat) : SEnded (src (α := α)) ⟨[], c, p, 0, a⟩ :=
  sended_of_inv (fun s : Src α => s.script = [] ∧ s.closes = 0) (by
    intro s ⟨h1, h2⟩
    obtain ⟨sc, c, p, cl, a⟩ := s
    simp only at h1 h2
    subst h1 h2
    refine ⟨src_ctxOk _ _ _ _, by simp [src, srcStep], fun c => ?_⟩
    cases c <;> simp [src, srcStep]) ⟨rfl, rfl⟩

theorem src_pulled_const (c p a : Nat) (cs : List Bool) :
    (afterS (src (α := α)) cs ⟨[], c, p, 0, a⟩).pulled = p := by
  induction cs generalizing c a with
  | nil => rfl
  | cons b cs ih =>
    cases b
    · simpa [afterS, src, srcStep] using ih c a
    · simpa [afterS, src, srcStep] using ih (c + 1) a

/-- A scripted source (not yet closed) denotes the items of its script up to the first hard failure;
the `i`-th item costs `i` pulls. Transient failures are soft (`er = true`) or hard (`er = false`). -/
theorem src_sden (er : Bool) (hT : ∀ n, soft (.transient n) = er) (hF : ∀ n, soft (.fatal n) = false)
    (sc : List (Ev α)) (c p a : Nat) :
    SDen soft src (fun s : Src α => s.pulled) ⟨sc, c, p, 0, a⟩ (scriptItems er p sc) (scriptTerm er p sc) := by
  induction sc generalizing c p with
  | nil =>
    exact .done (cost := fun s : Src α => s.pulled) (s' := (⟨[], c + 1, p, 0, a⟩ : Src α)) (src_ctxOk _ _ _ _) (by simp [src, srcStep]) (src_sended _ _ _) (src_pulled_const _ _ _)
  | cons e r ih =>
    cases e with
    | item x =>
      exact .item (s' := (⟨r, c + 1, p + 1, 0, a⟩ : Src α)) (src_ctxOk _ _ _ _) (by simp [src, srcStep]) (ih _ _)
    | transient n =>
      cases er with
      | true =>
        simp only [scriptItems, scriptTerm, if_true]
        exact .soft (e := .transient n) (s' := (⟨r, c + 1, p, 0, a⟩ : Src α)) (src_ctxOk _ _ _ _) (by simp [src, srcStep]) (hT n) (ih _ _)
      | false =>
        simp only [scriptItems, scriptTerm]
        exact .fail (e := .transient n) (s' := (⟨r, c + 1, p, 0, a⟩ : Src α)) (src_ctxOk _ _ _ _) (by simp [src, srcStep]) (hT n)
    | fatal n =>
      exact .fail (e := .fatal n) (s' := (⟨.fatal n :: r, c + 1, p, 0, a⟩ : Src α)) (src_ctxOk _ _ _ _) (by simp [src, srcStep]) (hF n)

/-! ## Map, Filter -/

/-- `Map` with a failing callback: the images of the items before the first failure, then that failure. -/
def mapS (f : α → Except Err β) : List (α × Nat) → Term → List (β × Nat) × Term
  | [], t => ([], t)
  | (a, c) :: L, t =>
    match f a with
    | .error e => ([], .fail e)
    | .ok b => ((b, c) :: (mapS f L t).1, (mapS f L t).2)

theorem map_ctxOk (f : α → Except Err β) {m : SM σ α} {st : Wrap σ} (h : CtxOk m st.inner) : CtxOk (map f m) st := by
  rcases h with h | h
  · left; simp [map, h]
  · right; simp [map, h]

theorem map_sended (f : α → Except Err β) {m : SM σ α} {cost : σ → Nat} {s : σ} (he : SEnded m s)
    (hc : ∀ cs, cost (afterS m cs s) = cost s) :
    SEnded (map f m) ⟨s⟩ ∧ ∀ cs, cost (afterS (map f m) cs ⟨s⟩).inner = cost s :=
  sended_wrapper (m := m) (m' := map f m) (cost := cost) (fun st => st.inner) (fun _ => True) (by
    intro t _ het
    obtain ⟨t', hx, _⟩ := het.live
    refine ⟨map_ctxOk f het.ctxOk, by simp [map, hx], fun c => ⟨trivial, Or.inl ?_⟩⟩
    rcases hy : m.step t.inner c with ⟨r, u⟩
    cases r <;> simp [map, hy] <;> split <;> rfl) (t := ⟨s⟩) trivial he hc

theorem map_sden (f : α → Except Err β) (hf : ∀ a e, f a = .error e → soft e = false)
    {m : SM σ α} {cost : σ → Nat} {s : σ} {L : List (α × Nat)} {t : Term} (h : SDen soft m cost s L t) :
    SDen soft (map f m) (fun st => cost st.inner) ⟨s⟩ (mapS f L t).1 (mapS f L t).2 := by
  have _tie := Skeleton.Tie.stMap
  induction h with
  | @skip s s' L t hc hs _ ih => exact .skip (s' := ⟨s'⟩) (map_ctxOk f hc) (by simp [map, hs]) ih
  | @soft s s' e L t hc hs he _ ih => exact .soft (e := e) (s' := ⟨s'⟩) (map_ctxOk f hc) (by simp [map, hs]) he ih
  | @item s s' a L t hc hs _ ih =>
    simp only [mapS]
    cases hfa : f a with
    | error e => exact .fail (e := e) (s' := ⟨s'⟩) (map_ctxOk f hc) (by simp [map, hs, hfa]) (hf a e hfa)
    | ok b => exact .item (a := b) (s' := ⟨s'⟩) (map_ctxOk f hc) (by simp [map, hs, hfa]) ih
  | @fail s s' e hc hs he => exact .fail (e := e) (s' := ⟨s'⟩) (map_ctxOk f hc) (by simp [map, hs]) he
  | @done s s' hc hs he hk =>
    have hw := map_sended (cost := cost) f he hk
    exact .done (cost := fun st : Wrap σ => cost st.inner) (s' := ⟨s'⟩) (map_ctxOk f hc) (by simp [map, hs]) hw.1 hw.2

/-- `Filter` with a failing callback. -/
def filterS (keep : α → Except Err Bool) : List (α × Nat) → Term → List (α × Nat) × Term
  | [], t => ([], t)
  | (a, c) :: L, t =>
    match keep a with
    | .error e => ([], .fail e)
    | .ok true => ((a, c) :: (filterS keep L t).1, (filterS keep L t).2)
    | .ok false => filterS keep L t

theorem filter_ctxOk (keep : α → Except Err Bool) {m : SM σ α} {st : Wrap σ} (h : CtxOk m st.inner) :
    CtxOk (filter keep m) st := by
  rcases h with h | h
  · left; simp [filter, h]
  · right; simp [filter, h]

theorem filter_sended (keep : α → Except Err Bool) {m : SM σ α} {cost : σ → Nat} {s : σ} (he : SEnded m s)
    (hc : ∀ cs, cost (afterS m cs s) = cost s) :
    SEnded (filter keep m) ⟨s⟩ ∧ ∀ cs, cost (afterS (filter keep m) cs ⟨s⟩).inner = cost s :=
  sended_wrapper (m := m) (m' := filter keep m) (cost := cost) (fun st => st.inner) (fun _ => True) (by
    intro t _ het
    obtain ⟨t', hx, _⟩ := het.live
    refine ⟨filter_ctxOk keep het.ctxOk, by simp [filter, hx], fun c => ⟨trivial, Or.inl ?_⟩⟩
    rcases hy : m.step t.inner c with ⟨r, u⟩
    cases r <;> simp [filter, hy]
    split <;> rfl) (t := ⟨s⟩) trivial he hc

theorem filter_sden (keep : α → Except Err Bool) (hf : ∀ a e, keep a = .error e → soft e = false)
    {m : SM σ α} {cost : σ → Nat} {s : σ} {L : List (α × Nat)} {t : Term} (h : SDen soft m cost s L t) :
    SDen soft (filter keep m) (fun st => cost st.inner) ⟨s⟩ (filterS keep L t).1 (filterS keep L t).2 := by
  have _tie := Skeleton.Tie.stFilter
  induction h with
  | @skip s s' L t hc hs _ ih => exact .skip (s' := ⟨s'⟩) (filter_ctxOk keep hc) (by simp [filter, hs]) ih
  | @soft s s' e L t hc hs he _ ih => exact .soft (e := e) (s' := ⟨s'⟩) (filter_ctxOk keep hc) (by simp [filter, hs]) he ih
  | @item s s' a L t hc hs _ ih =>
    simp only [filterS]
    cases hfa : keep a with
    | error e => exact .fail (e := e) (s' := ⟨s'⟩) (filter_ctxOk keep hc) (by simp [filter, hs, hfa]) (hf a e hfa)
    | ok b =>
      cases b with
      | true => exact .item (a := a) (s' := ⟨s'⟩) (filter_ctxOk keep hc) (by simp [filter, hs, hfa]) ih
      | false => exact .skip (s' := ⟨s'⟩) (filter_ctxOk keep hc) (by simp [filter, hs, hfa]) ih
  | @fail s s' e hc hs he => exact .fail (e := e) (s' := ⟨s'⟩) (filter_ctxOk keep hc) (by simp [filter, hs]) he
  | @done s s' hc hs he hk =>
    have hw := filter_sended (cost := cost) keep he hk
    exact .done (cost := fun st : Wrap σ => cost st.inner) (s' := ⟨s'⟩) (filter_ctxOk keep hc) (by simp [filter, hs]) hw.1 hw.2


/-! ## Chunk -/

/-- chunks of annotated items; a trailing partial chunk is delivered only if the source *ended*
(a failure drops it: it is not an output that the items seen so far determine) -/
def chunkGoS (n : Nat) : List α → List (α × Nat) → Term → List (List α × Nat)
  | pend, [], .end_ e => if pend.length > 0 then [(pend, e)] else []
  | _, [], .fail _ => []
  | pend, (a, c) :: L, t =>
    if (pend ++ [a]).length = n then (pend ++ [a], c) :: chunkGoS n [] L t else chunkGoS n (pend ++ [a]) L t

theorem chunk_ctxOk (size : Int) {m : SM σ α} {st : ChunkSt σ α} (h : CtxOk m st.inner) : CtxOk (chunk size m) st := by
  rcases h with h | h
  · left; simp [chunk, h]
  · right; simp [chunk, h]

theorem chunk_sended (size : Int) {m : SM σ α} {cost : σ → Nat} {s : σ} (he : SEnded m s)
    (hc : ∀ cs, cost (afterS m cs s) = cost s) :
    SEnded (chunk size m) ⟨s, []⟩ ∧ ∀ cs, cost (afterS (chunk size m) cs ⟨s, []⟩).inner = cost s :=
  sended_wrapper (m := m) (m' := chunk size m) (cost := cost) (fun st => st.inner) (fun st => st.pend = []) (by
    intro t hq het
    obtain ⟨t', hx, _⟩ := het.live
    refine ⟨chunk_ctxOk size het.ctxOk, by simp [chunk, hx, hq, stChunkFlush], fun c => ?_⟩
    rcases het.ctxOk with hk | hk
    · cases c with
      | true => simp [chunk, hx, hq, stChunkFlush]
      | false => simp [chunk, hk, hq]
    · have : m.step t.inner c = (.end_, t') := by cases c <;> simp [hk, hx]
      simp [chunk, this, hq, stChunkFlush]) (t := ⟨s, []⟩) rfl he hc

theorem chunk_sden (n : Nat) {m : SM σ α} {cost : σ → Nat} {s : σ} {L : List (α × Nat)} {t : Term}
    (h : SDen soft m cost s L t) (pend : List α) :
    SDen soft (chunk (n : Int) m) (fun st => cost st.inner) ⟨s, pend⟩ (chunkGoS n pend L t) t := by
  have _tie := Skeleton.Tie.stChunk
  induction h generalizing pend with
  | @skip s s' L t hc hs _ ih =>
    exact .skip (s' := (⟨s', pend⟩ : ChunkSt σ α)) (chunk_ctxOk _ hc) (by simp [chunk, hs]) (ih pend)
  | @soft s s' e L t hc hs he _ ih =>
    exact .soft (e := e) (s' := (⟨s', pend⟩ : ChunkSt σ α)) (chunk_ctxOk _ hc) (by simp [chunk, hs]) he (ih pend)
  | @item s s' a L t hc hs _ ih =>
    simp only [chunkGoS]
    by_cases hf : (pend ++ [a]).length = n
    · rw [if_pos hf]
      exact .item (a := pend ++ [a]) (s' := (⟨s', []⟩ : ChunkSt σ α)) (chunk_ctxOk _ hc)
        (by simp at hf; simp [chunk, hs, stChunkFull]; omega) (ih [])
    · rw [if_neg hf]
      exact .skip (s' := (⟨s', pend ++ [a]⟩ : ChunkSt σ α)) (chunk_ctxOk _ hc)
        (by simp at hf; simp [chunk, hs, stChunkFull]; omega) (ih _)
  | @fail s s' e hc hs he =>
    simp only [chunkGoS]
    exact .fail (e := e) (s' := (⟨s', pend⟩ : ChunkSt σ α)) (chunk_ctxOk _ hc) (by simp [chunk, hs]) he
  | @done s s' hc hs he hk =>
    simp only [chunkGoS]
    have hw := chunk_sended (cost := cost) (n : Int) he hk
    by_cases hp : pend.length > 0
    · rw [if_pos hp]
      have hne : pend ≠ [] := by intro h; simp [h] at hp
      have hd := sden_of_ended (soft := soft) (cost := fun st : ChunkSt σ α => cost st.inner) hw.1 hw.2
      exact .item (a := pend) (s' := (⟨s', []⟩ : ChunkSt σ α)) (chunk_ctxOk _ hc)
        (by simp [chunk, hs, stChunkFlush, hne]) hd
    · rw [if_neg hp]
      have hnil : pend = [] := by cases pend with | nil => rfl | cons _ _ => simp at hp
      subst hnil
      exact .done (cost := fun st : ChunkSt σ α => cost st.inner) (s' := (⟨s', []⟩ : ChunkSt σ α)) (chunk_ctxOk _ hc)
        (by simp [chunk, hs, stChunkFlush]) hw.1 hw.2


/-! ## Compact -/

theorem compact_ctxOk (eq : α → α → Bool) {m : SM σ α} {st : CompactSt σ α} (h : CtxOk m st.inner) :
    CtxOk (compact eq m) st := by
  rcases h with h | h
  · left; simp [compact, h]
  · right; simp [compact, h]

theorem compact_sended (eq : α → α → Bool) {m : SM σ α} {cost : σ → Nat} {s : σ} (f : Bool) (p : Option α)
    (he : SEnded m s) (hc : ∀ cs, cost (afterS m cs s) = cost s) :
    SEnded (compact eq m) ⟨s, f, p⟩ ∧ ∀ cs, cost (afterS (compact eq m) cs ⟨s, f, p⟩).inner = cost s :=
  sended_wrapper (m := m) (m' := compact eq m) (cost := cost) (fun st => st.inner) (fun _ => True) (by
    intro t _ het
    obtain ⟨t', hx, _⟩ := het.live
    refine ⟨compact_ctxOk eq het.ctxOk, by simp [compact, hx], fun c => ⟨trivial, ?_⟩⟩
    rcases het.ctxOk with hk | hk
    · cases c with
      | true => simp [compact, hx]
      | false => simp [compact, hk]
    · have : m.step t.inner c = (.end_, t') := by cases c <;> simp [hk, hx]
      simp [compact, this]) (t := ⟨s, f, p⟩) trivial he hc

theorem compact_sden (eq : α → α → Bool) {m : SM σ α} {cost : σ → Nat} {s : σ} {L : List (α × Nat)} {t : Term}
    (h : SDen soft m cost s L t) (P : Option (α × Nat)) :
    SDen soft (compact eq m) (fun st => cost st.inner) ⟨s, P.isNone, P.map Prod.fst⟩
      (Seq.compactGo (fun p q => eq p.1 q.1) P L) t := by
  have _tie := Skeleton.Tie.stCompact
  induction h generalizing P with
  | @skip s s' L t hc hs _ ih =>
    exact .skip (s' := (⟨s', P.isNone, P.map Prod.fst⟩ : CompactSt σ α)) (compact_ctxOk eq hc) (by simp [compact, hs]) (ih P)
  | @soft s s' e L t hc hs he _ ih =>
    exact .soft (e := e) (s' := (⟨s', P.isNone, P.map Prod.fst⟩ : CompactSt σ α)) (compact_ctxOk eq hc)
      (by simp [compact, hs]) he (ih P)
  | @item s s' a L t hc hs _ ih =>
    cases P with
    | none =>
      simp only [Seq.compactGo]
      exact .item (a := a) (s' := (⟨s', false, some a⟩ : CompactSt σ α)) (compact_ctxOk eq hc)
        (by simp [compact, hs, stCompactSetsPrev, stCompactClearsFirst]) (ih (some (a, cost s')))
    | some p =>
      simp only [Seq.compactGo]
      by_cases hq : eq p.1 a = true
      · rw [if_pos hq]
        exact .skip (s' := (⟨s', false, some p.1⟩ : CompactSt σ α)) (compact_ctxOk eq hc)
          (by simp [compact, hs, hq]) (ih (some p))
      · rw [if_neg hq]
        exact .item (a := a) (s' := (⟨s', false, some a⟩ : CompactSt σ α)) (compact_ctxOk eq hc)
          (by simp [compact, hs, hq, stCompactSetsPrev]) (ih (some (a, cost s')))
  | @fail s s' e hc hs he =>
    have : Seq.compactGo (fun (p q : α × Nat) => eq p.1 q.1) P [] = [] := by cases P <;> rfl
    rw [this]
    exact .fail (e := e) (s' := (⟨s', P.isNone, P.map Prod.fst⟩ : CompactSt σ α)) (compact_ctxOk eq hc)
      (by simp [compact, hs]) he
  | @done s s' hc hs he hk =>
    have : Seq.compactGo (fun (p q : α × Nat) => eq p.1 q.1) P [] = [] := by cases P <;> rfl
    rw [this]
    have hw := compact_sended (cost := cost) eq P.isNone (P.map Prod.fst) he hk
    exact .done (cost := fun st : CompactSt σ α => cost st.inner) (s' := (⟨s', P.isNone, P.map Prod.fst⟩ : CompactSt σ α))
      (compact_ctxOk eq hc) (by simp [compact, hs]) hw.1 hw.2

/-! ## First -/

/-- how `First(s, k)` terminates: after `k` items with the end (no further pull), otherwise as the source does -/
def firstTermS : Nat → Nat → List (α × Nat) → Term → Term
  | c0, 0, _, _ => .end_ c0
  | _, _ + 1, [], t => t
  | _, k + 1, (_, c) :: L, t => firstTermS c k L t

theorem firstTermS_succ (c0 c1 k : Nat) (L : List (α × Nat)) (t : Term) :
    firstTermS c0 (k + 1) L t = firstTermS c1 (k + 1) L t := by
  cases L with
  | nil => rfl
  | cons p L => obtain ⟨a, c⟩ := p; rfl

theorem first_ctxOk {m : SM σ α} {st : FirstSt σ} (h : CtxOk m st.inner) : CtxOk (first m) st := by
  by_cases hx : stFirstDone st.x = true
  · right; simp [first, hx]
  · rcases h with h | h
    · left; simp [first, hx, h]
    · right; simp [first, hx, h]

theorem first_zero {m : SM σ α} {cost : σ → Nat} (s : σ) (x : Int) (hx : x ≤ 0) :
    SDen soft (first m) (fun st => cost st.inner) ⟨s, x⟩ [] (.end_ (cost s)) := by
  have hfix : ∀ c, (first m).step ⟨s, x⟩ c = (.end_, ⟨s, x⟩) := by intro c; simp [first, stFirstDone, hx]
  have he := sended_fixed hfix
  have hc : ∀ cs, (fun st : FirstSt σ => cost st.inner) (afterS (first m) cs ⟨s, x⟩) = cost s := by
    intro cs
    have : afterS (first m) cs ⟨s, x⟩ = ⟨s, x⟩ := by
      induction cs with
      | nil => rfl
      | cons c cs ih => simp only [afterS, hfix]; exact ih
    rw [this]
  exact sden_of_ended (soft := soft) (cost := fun st : FirstSt σ => cost st.inner) he hc

theorem first_sden {m : SM σ α} {cost : σ → Nat} {s : σ} {L : List (α × Nat)} {t : Term}
    (h : SDen soft m cost s L t) (x : Int) :
    SDen soft (first m) (fun st => cost st.inner) ⟨s, x⟩ (L.take x.toNat) (firstTermS (cost s) x.toNat L t) := by
  have _tie := Skeleton.Tie.stFirst
  induction h generalizing x with
  | @skip s s' L t hc hs _ ih =>
    by_cases hx : x ≤ 0
    · have h0 : x.toNat = 0 := by omega
      rw [h0]; simpa [firstTermS] using first_zero (m := m) (cost := cost) s x hx
    · obtain ⟨k, hk⟩ : ∃ k, x.toNat = k + 1 := ⟨x.toNat - 1, by omega⟩
      have := ih x
      rw [hk] at this ⊢
      rw [firstTermS_succ (cost s) (cost s')]
      exact .skip (s' := (⟨s', x⟩ : FirstSt σ)) (first_ctxOk hc) (by simp [first, stFirstDone, hx, hs]) this
  | @soft s s' e L t hc hs he _ ih =>
    by_cases hx : x ≤ 0
    · have h0 : x.toNat = 0 := by omega
      rw [h0]; simpa [firstTermS] using first_zero (m := m) (cost := cost) s x hx
    · obtain ⟨k, hk⟩ : ∃ k, x.toNat = k + 1 := ⟨x.toNat - 1, by omega⟩
      have := ih x
      rw [hk] at this ⊢
      rw [firstTermS_succ (cost s) (cost s')]
      exact .soft (e := e) (s' := (⟨s', x⟩ : FirstSt σ)) (first_ctxOk hc) (by simp [first, stFirstDone, hx, hs]) he this
  | @item s s' a L t hc hs _ ih =>
    by_cases hx : x ≤ 0
    · have h0 : x.toNat = 0 := by omega
      rw [h0]; simpa [firstTermS] using first_zero (m := m) (cost := cost) s x hx
    · have h1 : x.toNat = (x - 1).toNat + 1 := by omega
      rw [h1]
      simp only [List.take_succ_cons, firstTermS]
      exact .item (a := a) (s' := (⟨s', x - 1⟩ : FirstSt σ)) (first_ctxOk hc)
        (by simp [first, stFirstDone, hx, hs, stFirstDecrements]) (ih (x - 1))
  | @fail s s' e hc hs he =>
    by_cases hx : x ≤ 0
    · have h0 : x.toNat = 0 := by omega
      rw [h0]; simpa [firstTermS] using first_zero (m := m) (cost := cost) s x hx
    · obtain ⟨k, hk⟩ : ∃ k, x.toNat = k + 1 := ⟨x.toNat - 1, by omega⟩
      rw [hk]
      simp only [List.take_nil, firstTermS]
      exact .fail (e := e) (s' := (⟨s', x⟩ : FirstSt σ)) (first_ctxOk hc) (by simp [first, stFirstDone, hx, hs]) he
  | @done s s' hc hs he hk =>
    by_cases hx : x ≤ 0
    · have h0 : x.toNat = 0 := by omega
      rw [h0]; simpa [firstTermS] using first_zero (m := m) (cost := cost) s x hx
    · obtain ⟨k, hk'⟩ : ∃ k, x.toNat = k + 1 := ⟨x.toNat - 1, by omega⟩
      rw [hk']
      simp only [List.take_nil, firstTermS]
      have hw := sended_wrapper (m := m) (m' := first m) (cost := cost) (fun st => st.inner) (fun _ => True) (by
        intro u _ het
        obtain ⟨u', hx', _⟩ := het.live
        refine ⟨first_ctxOk het.ctxOk, ?_, fun c => ⟨trivial, ?_⟩⟩
        · by_cases hd : stFirstDone u.x = true
          · simp [first, hd]
          · simp [first, hd, hx']
        · by_cases hd : stFirstDone u.x = true
          · right; simp [first, hd]
          · left
            rcases hy : m.step u.inner c with ⟨r, v⟩
            cases r <;> simp [first, hd, hy]) (t := ⟨s', x⟩) trivial he hk
      exact .done (cost := fun st : FirstSt σ => cost st.inner) (s' := (⟨s', x⟩ : FirstSt σ)) (first_ctxOk hc)
        (by simp [first, stFirstDone, hx, hs]) hw.1 hw.2


/-! ## While -/

/-- `While` with a failing callback: the passing prefix, then the end (with the first item that fails
the test), or the callback's failure. -/
def whileS (f : α → Except Err Bool) : List (α × Nat) → Term → List (α × Nat) × Term
  | [], t => ([], t)
  | (a, c) :: L, t =>
    match f a with
    | .error e => ([], .fail e)
    | .ok false => ([], .end_ c)
    | .ok true => ((a, c) :: (whileS f L t).1, (whileS f L t).2)

theorem while_ctxOk (f : α → Except Err Bool) {m : SM σ α} {st : WhileSt σ α} (h : CtxOk m st.inner) :
    CtxOk (while_ f m) st := by
  by_cases hd : stWhileDone st.done = true
  · right; simp [while_, hd]
  · by_cases hp : stWhilePulls st.held.isSome = true
    · rcases h with h | h
      · left; simp [while_, hd, hp, h]
      · right; simp [while_, hd, hp, h]
    · right; simp [while_, hd, hp]

theorem while_sden (f : α → Except Err Bool) (hf : ∀ a e, f a = .error e → soft e = false)
    {m : SM σ α} {cost : σ → Nat} {s : σ} {L : List (α × Nat)} {t : Term} (h : SDen soft m cost s L t) :
    SDen soft (while_ f m) (fun st => cost st.inner) ⟨s, none, false⟩ (whileS f L t).1 (whileS f L t).2 := by
  have _tie := Skeleton.Tie.stWhile
  induction h with
  | @skip s s' L t hc hs _ ih =>
    exact .skip (s' := (⟨s', none, false⟩ : WhileSt σ α)) (while_ctxOk f hc)
      (by simp [while_, stWhileDone, stWhilePulls, hs]) ih
  | @soft s s' e L t hc hs he _ ih =>
    exact .soft (e := e) (s' := (⟨s', none, false⟩ : WhileSt σ α)) (while_ctxOk f hc)
      (by simp [while_, stWhileDone, stWhilePulls, hs]) he ih
  | @item s s' a L t hc hs _ ih =>
    simp only [whileS]
    cases hfa : f a with
    | error e =>
      exact .fail (e := e) (s' := (⟨s', some a, false⟩ : WhileSt σ α)) (while_ctxOk f hc)
        (by simp [while_, stWhileDone, stWhilePulls, hs, hfa, stWhileSetsHas]) (hf a e hfa)
    | ok b =>
      cases b with
      | true =>
        exact .item (a := a) (s' := (⟨s', none, false⟩ : WhileSt σ α)) (while_ctxOk f hc)
          (by simp [while_, stWhileDone, stWhilePulls, hs, hfa, stWhileSetsHas, stWhileClearsHas]) ih
      | false =>
        have hfix : ∀ c, (while_ f m).step ⟨s', some a, true⟩ c = (.end_, ⟨s', some a, true⟩) := by
          intro c; simp [while_, stWhileDone]
        have hfixed : ∀ cs, afterS (while_ f m) cs ⟨s', some a, true⟩ = ⟨s', some a, true⟩ := by
          intro cs
          induction cs with
          | nil => rfl
          | cons c cs ih => simp only [afterS, hfix]; exact ih
        exact .done (cost := fun st : WhileSt σ α => cost st.inner) (s' := (⟨s', some a, true⟩ : WhileSt σ α))
          (while_ctxOk f hc)
          (by simp [while_, stWhileDone, stWhilePulls, hs, hfa, stWhileSetsHas, stWhileSetsDone])
          (sended_fixed hfix) (fun cs => by rw [hfixed cs])
  | @fail s s' e hc hs he =>
    exact .fail (e := e) (s' := (⟨s', none, false⟩ : WhileSt σ α)) (while_ctxOk f hc)
      (by simp [while_, stWhileDone, stWhilePulls, hs]) he
  | @done s s' hc hs he hk =>
    have hw := sended_wrapper (m := m) (m' := while_ f m) (cost := cost) (fun st => st.inner)
      (fun st => st.held = none ∧ st.done = false) (by
        intro u hq het
        obtain ⟨u', hx, _⟩ := het.live
        obtain ⟨ui, uh, ud⟩ := u
        simp only at hq hx
        obtain ⟨rfl, rfl⟩ := hq
        refine ⟨while_ctxOk f het.ctxOk, by simp [while_, stWhileDone, stWhilePulls, hx], fun c => ?_⟩
        rcases het.ctxOk with hk | hk
        · cases c with
          | true => simp [while_, stWhileDone, stWhilePulls, hx]
          | false => simp only at hk; simp [while_, stWhileDone, stWhilePulls, hk]
        · have : m.step ui c = (.end_, u') := by cases c <;> simp_all
          simp [while_, stWhileDone, stWhilePulls, this]) (t := ⟨s', none, false⟩) ⟨rfl, rfl⟩ he hk
    exact .done (cost := fun st : WhileSt σ α => cost st.inner) (s' := (⟨s', none, false⟩ : WhileSt σ α))
      (while_ctxOk f hc) (by simp [while_, stWhileDone, stWhilePulls, hs]) hw.1 hw.2

/-! ## FlattenSlices -/

theorem flattenSlices_ctxOk {m : SM σ (List α)} {st : FlattenSlicesSt σ α} (h : CtxOk m st.inner) :
    CtxOk (flattenSlices m) st := by
  obtain ⟨s, buf⟩ := st
  cases buf with
  | cons a r => right; simp [flattenSlices]
  | nil =>
    rcases h with h | h
    · left; simp only at h; simp [flattenSlices, h]
    · right; simp only at h; simp [flattenSlices, h]

theorem flattenSlices_buffer {m : SM σ (List α)} {cost : σ → Nat} {s : σ} (buf : List α) {L : List (α × Nat)} {t : Term}
    (hc : CtxOk m s) (h : SDen soft (flattenSlices m) (fun st => cost st.inner) ⟨s, []⟩ L t) :
    SDen soft (flattenSlices m) (fun st => cost st.inner) ⟨s, buf⟩ (buf.map (fun a => (a, cost s)) ++ L) t := by
  induction buf with
  | nil => exact h
  | cons a r ih =>
    exact .item (a := a) (s' := (⟨s, r⟩ : FlattenSlicesSt σ α)) (flattenSlices_ctxOk (st := ⟨s, a :: r⟩) hc)
      (by simp [flattenSlices]) ih

theorem flattenSlices_sden {m : SM σ (List α)} {cost : σ → Nat} {s : σ} {L : List (List α × Nat)} {t : Term}
    (h : SDen soft m cost s L t) :
    SDen soft (flattenSlices m) (fun st => cost st.inner) ⟨s, []⟩
      (L.flatMap fun p => p.1.map fun a => (a, p.2)) t := by
  have _tie := Skeleton.Tie.stFlattenSlices
  induction h with
  | @skip s s' L t hc hs _ ih =>
    exact .skip (s' := (⟨s', []⟩ : FlattenSlicesSt σ α)) (flattenSlices_ctxOk hc) (by simp [flattenSlices, hs]) ih
  | @soft s s' e L t hc hs he _ ih =>
    exact .soft (e := e) (s' := (⟨s', []⟩ : FlattenSlicesSt σ α)) (flattenSlices_ctxOk hc) (by simp [flattenSlices, hs]) he ih
  | @item s s' xs L t hc hs h' ih =>
    simp only [List.flatMap_cons]
    exact .skip (s' := (⟨s', xs⟩ : FlattenSlicesSt σ α)) (flattenSlices_ctxOk hc) (by simp [flattenSlices, hs])
      (flattenSlices_buffer xs h'.ctxOk ih)
  | @fail s s' e hc hs he =>
    exact .fail (e := e) (s' := (⟨s', []⟩ : FlattenSlicesSt σ α)) (flattenSlices_ctxOk hc) (by simp [flattenSlices, hs]) he
  | @done s s' hc hs he hk =>
    have hw := sended_wrapper (m := m) (m' := flattenSlices m) (cost := cost) (fun st => st.inner)
      (fun st => st.buffer = []) (by
        intro u hq het
        obtain ⟨u', hx, _⟩ := het.live
        obtain ⟨ui, ub⟩ := u
        simp only at hq hx
        subst hq
        refine ⟨flattenSlices_ctxOk het.ctxOk, by simp [flattenSlices, hx], fun c => ?_⟩
        rcases het.ctxOk with hk | hk
        · cases c with
          | true => simp [flattenSlices, hx]
          | false => simp only at hk; simp [flattenSlices, hk]
        · have : m.step ui c = (.end_, u') := by cases c <;> simp_all
          simp [flattenSlices, this]) (t := ⟨s', []⟩) rfl he hk
    exact .done (cost := fun st : FlattenSlicesSt σ α => cost st.inner) (s' := (⟨s', []⟩ : FlattenSlicesSt σ α))
      (flattenSlices_ctxOk hc) (by simp [flattenSlices, hs]) hw.1 hw.2

variable {τ : Type w}

/-! ## Peekable -/

theorem peek_ctxOk {m : SM σ α} {p : PeekSt σ α} (h : CtxOk m p.inner) : CtxOk (withPeek m) p := by
  obtain ⟨s, curr⟩ := p
  cases curr with
  | some a => right; simp [withPeek, peekNext, stPeekNextHas]
  | none =>
    rcases h with h | h
    · left; simp only at h; simp [withPeek, peekNext, stPeekNextHas, h]
    · right; simp only at h; simp [withPeek, peekNext, stPeekNextHas, h]

theorem peek_sden {m : SM σ α} {cost : σ → Nat} {s : σ} {L : List (α × Nat)} {t : Term}
    (h : SDen soft m cost s L t) : SDen soft (withPeek m) (fun st => cost st.inner) ⟨s, none⟩ L t := by
  have _tie := Skeleton.Tie.stPeek
  induction h with
  | @skip s s' L t hc hs _ ih =>
    exact .skip (s' := (⟨s', none⟩ : PeekSt σ α)) (peek_ctxOk hc) (by simp [withPeek, peekNext, stPeekNextHas, hs]) ih
  | @soft s s' e L t hc hs he _ ih =>
    exact .soft (e := e) (s' := (⟨s', none⟩ : PeekSt σ α)) (peek_ctxOk hc) (by simp [withPeek, peekNext, stPeekNextHas, hs]) he ih
  | @item s s' a L t hc hs _ ih =>
    exact .item (a := a) (s' := (⟨s', none⟩ : PeekSt σ α)) (peek_ctxOk hc) (by simp [withPeek, peekNext, stPeekNextHas, hs]) ih
  | @fail s s' e hc hs he =>
    exact .fail (e := e) (s' := (⟨s', none⟩ : PeekSt σ α)) (peek_ctxOk hc) (by simp [withPeek, peekNext, stPeekNextHas, hs]) he
  | @done s s' hc hs he hk =>
    have hw := sended_wrapper (m := m) (m' := withPeek m) (cost := cost) (fun st => st.inner)
      (fun st => st.curr = none) (by
        intro u hq het
        obtain ⟨u', hx, _⟩ := het.live
        obtain ⟨ui, uc⟩ := u
        simp only at hq hx
        subst hq
        refine ⟨peek_ctxOk het.ctxOk, by simp [withPeek, peekNext, stPeekNextHas, hx], fun c => ?_⟩
        simp [withPeek, peekNext, stPeekNextHas]) (t := ⟨s', none⟩) rfl he hk
    exact .done (cost := fun st : PeekSt σ α => cost st.inner) (s' := (⟨s', none⟩ : PeekSt σ α))
      (peek_ctxOk hc) (by simp [withPeek, peekNext, stPeekNextHas, hs]) hw.1 hw.2

/-- with an item buffered, it comes first, whatever the context, at no further cost -/
theorem peek_sden_has {m : SM σ α} {cost : σ → Nat} {s : σ} {L : List (α × Nat)} {t : Term} (a : α)
    (h : SDen soft m cost s L t) : SDen soft (withPeek m) (fun st => cost st.inner) ⟨s, some a⟩ ((a, cost s) :: L) t :=
  .item (a := a) (s' := (⟨s, none⟩ : PeekSt σ α)) (peek_ctxOk (p := ⟨s, some a⟩) h.ctxOk)
    (by simp [withPeek, peekNext, stPeekNextHas, stPeekNextClearsHas]) (peek_sden h)

/-- `Peek` under a live context never changes what the stream denotes; it answers the first item,
the end, a soft failure (nothing lost), or the hard failure the stream denotes. -/
theorem peekPeek_sden {m : SM σ α} {cost : σ → Nat} {s : σ} {L : List (α × Nat)} {t : Term}
    (h : SDen soft m cost s L t) :
    (∃ e, (peekPeek m ⟨s, none⟩ true).1 = .err e ∧ soft e = false ∧ L = [] ∧ t = .fail e) ∨
    ((peekPeek m ⟨s, none⟩ true).1 = .end_ ∧ L = [] ∧ ∃ e, t = .end_ e) ∨
    (SDen soft (withPeek m) (fun st => cost st.inner) (peekPeek m ⟨s, none⟩ true).2 L t ∧
      ((peekPeek m ⟨s, none⟩ true).1 = .skip ∨ (∃ e, (peekPeek m ⟨s, none⟩ true).1 = .err e ∧ soft e = true) ∨
        ∃ a c L', L = (a, c) :: L' ∧ (peekPeek m ⟨s, none⟩ true).1 = .item a)) := by
  have _tie := Skeleton.Tie.stPeek
  cases h with
  | @skip _ s' _ _ hc hs h' =>
    right; right
    exact ⟨by simpa [peekPeek, stPeekPulls, hs] using peek_sden h', Or.inl (by simp [peekPeek, stPeekPulls, hs])⟩
  | @soft _ s' e _ _ hc hs he h' =>
    right; right
    exact ⟨by simpa [peekPeek, stPeekPulls, hs] using peek_sden h',
      Or.inr (Or.inl ⟨e, by simp [peekPeek, stPeekPulls, hs], he⟩)⟩
  | @item _ s' a L' _ hc hs h' =>
    right; right
    exact ⟨by simpa [peekPeek, stPeekPulls, hs, stPeekSetsHas] using peek_sden_has a h',
      Or.inr (Or.inr ⟨a, _, L', rfl, by simp [peekPeek, stPeekPulls, hs]⟩)⟩
  | @fail _ s' e hc hs he =>
    left
    exact ⟨e, by simp [peekPeek, stPeekPulls, hs], he, rfl, rfl⟩
  | @done _ s' hc hs he hk =>
    right; left
    exact ⟨by simp [peekPeek, stPeekPulls, hs], rfl, _, rfl⟩

/-! ## Flatten, Join -/

theorem flatten_ctxOk_none {mo : SM σ τ} {mi : SM τ α} {so : σ} {fin : List τ} (h : CtxOk mo so) :
    CtxOk (flatten mo mi) ⟨so, none, fin⟩ := by
  rcases h with h | h
  · left; simp [flatten, h]
  · right; simp [flatten, h]

theorem flatten_ctxOk_some {mo : SM σ τ} {mi : SM τ α} {so : σ} {x : τ} {fin : List τ} (h : CtxOk mi x) :
    CtxOk (flatten mo mi) ⟨so, some x, fin⟩ := by
  rcases h with h | h
  · left; simp [flatten, h]
  · right; simp [flatten, h]

/-- outputs / termination of one inner stream followed by `rest` / `t`: a failing inner stream ends everything -/
def innerOut (ti : Term) (A rest : List (α × Nat)) : List (α × Nat) :=
  match ti with
  | .fail _ => A
  | .end_ _ => A ++ rest

def innerTerm (ti t : Term) : Term :=
  match ti with
  | .fail e => .fail e
  | .end_ _ => t

/-- what `Flatten` yields: the inner sequences one after the other; a failing inner stream ends it -/
def flattenS (D : τ → List α × Term) : List (τ × Nat) → Term → List (α × Nat) × Term
  | [], t => ([], t)
  | (x, k) :: Lo, t =>
    (innerOut (D x).2 ((D x).1.map (fun a => (a, k))) (flattenS D Lo t).1, innerTerm (D x).2 (flattenS D Lo t).2)

theorem flatten_inner {mo : SM σ τ} {mi : SM τ α} {co : σ → Nat} {ci : τ → Nat} {so : σ} {x : τ}
    {Li : List (α × Nat)} {ti : Term} (hi : SDen soft mi ci x Li ti) (fin : List τ)
    {rest : List (α × Nat)} {t : Term}
    (hr : ∀ fin', SDen soft (flatten mo mi) (fun st => co st.outer) ⟨so, none, fin'⟩ rest t) :
    SDen soft (flatten mo mi) (fun st => co st.outer) ⟨so, some x, fin⟩
      (innerOut ti (Li.map (fun p => (p.1, co so))) rest) (innerTerm ti t) := by
  induction hi with
  | @skip x x' Li ti hc hs _ ih =>
    exact .skip (s' := (⟨so, some x', fin⟩ : FlattenSt σ τ)) (flatten_ctxOk_some hc) (by simp [flatten, hs]) ih
  | @soft x x' e Li ti hc hs he _ ih =>
    exact .soft (e := e) (s' := (⟨so, some x', fin⟩ : FlattenSt σ τ)) (flatten_ctxOk_some hc) (by simp [flatten, hs]) he ih
  | @item x x' a Li ti hc hs _ ih =>
    have key : innerOut ti (((a, ci x') :: Li).map (fun p => (p.1, co so))) rest =
        (a, co so) :: innerOut ti (Li.map (fun p => (p.1, co so))) rest := by
      cases ti <;> simp [innerOut]
    rw [key]
    exact .item (a := a) (s' := (⟨so, some x', fin⟩ : FlattenSt σ τ)) (flatten_ctxOk_some hc) (by simp [flatten, hs]) ih
  | @fail x x' e hc hs he =>
    simp only [List.map_nil, innerOut, innerTerm]
    exact .fail (e := e) (s' := (⟨so, some x', fin⟩ : FlattenSt σ τ)) (flatten_ctxOk_some hc) (by simp [flatten, hs]) he
  | @done x x' hc hs _ _ =>
    simp only [List.map_nil, innerOut, innerTerm, List.nil_append]
    exact .skip (s' := (⟨so, none, fin ++ [mi.close x']⟩ : FlattenSt σ τ)) (flatten_ctxOk_some hc)
      (by simp [flatten, hs, stFlattenClosesEnded, stFlattenClearsCurr]) (hr _)

/-- `Flatten`: every inner stream `x` yielded by the outer one denotes `D x`. -/
theorem flatten_sden {mo : SM σ τ} {mi : SM τ α} {co : σ → Nat} (D : τ → List α × Term) {so : σ}
    {Lo : List (τ × Nat)} {t : Term} (ho : SDen soft mo co so Lo t)
    (hD : ∀ p ∈ Lo, ∃ (ci : τ → Nat) (Li : List (α × Nat)), SDen soft mi ci p.1 Li (D p.1).2 ∧ Li.map Prod.fst = (D p.1).1)
    (fin : List τ) :
    SDen soft (flatten mo mi) (fun st => co st.outer) ⟨so, none, fin⟩ (flattenS D Lo t).1 (flattenS D Lo t).2 := by
  have _tie := Skeleton.Tie.stFlatten
  induction ho generalizing fin with
  | @skip s s' L t hc hs _ ih =>
    exact .skip (s' := (⟨s', none, fin⟩ : FlattenSt σ τ)) (flatten_ctxOk_none hc) (by simp [flatten, hs]) (ih hD fin)
  | @soft s s' e L t hc hs he _ ih =>
    exact .soft (e := e) (s' := (⟨s', none, fin⟩ : FlattenSt σ τ)) (flatten_ctxOk_none hc) (by simp [flatten, hs]) he (ih hD fin)
  | @item s s' x L t hc hs _ ih =>
    obtain ⟨ci, Li, hi, hLi⟩ := hD (x, co s') (by simp)
    have hrest := fun fin' => ih (fun p hp => hD p (by simp [hp])) fin'
    have := flatten_inner (mo := mo) (co := co) (so := s') hi fin hrest
    simp only [flattenS]
    refine .skip (s' := (⟨s', some x, fin⟩ : FlattenSt σ τ)) (flatten_ctxOk_none hc) (by simp [flatten, hs]) ?_
    rw [← hLi, List.map_map]
    exact this
  | @fail s s' e hc hs he =>
    exact .fail (e := e) (s' := (⟨s', none, fin⟩ : FlattenSt σ τ)) (flatten_ctxOk_none hc) (by simp [flatten, hs]) he
  | @done s s' hc hs he hk =>
    have hw := sended_wrapper (m := mo) (m' := flatten mo mi) (cost := co) (fun st => st.outer)
      (fun st => st.curr = none) (by
        intro u hq het
        obtain ⟨u', hx, _⟩ := het.live
        obtain ⟨uo, uc, uf⟩ := u
        simp only at hq hx
        subst hq
        refine ⟨flatten_ctxOk_none het.ctxOk, by simp [flatten, hx], fun c => ?_⟩
        rcases het.ctxOk with hk | hk
        · cases c with
          | true => simp [flatten, hx]
          | false => simp [flatten, hk]
        · have : mo.step uo c = (.end_, u') := by cases c <;> simp_all
          simp [flatten, this]) (t := ⟨s', none, fin⟩) rfl he hk
    exact .done (cost := fun st : FlattenSt σ τ => co st.outer) (s' := (⟨s', none, fin⟩ : FlattenSt σ τ))
      (flatten_ctxOk_none hc) (by simp [flatten, hs]) hw.1 hw.2


/-! ## Join -/

theorem join_ctxOk_cons {m : SM σ α} {s : σ} {r fin : List σ} (h : CtxOk m s) : CtxOk (join m) ⟨s :: r, fin⟩ := by
  rcases h with h | h
  · left; simp [join, h]
  · right; simp [join, h]

theorem join_nil_fixed {m : SM σ α} (fin : List σ) (c : Bool) : (join m).step ⟨[], fin⟩ c = (.end_, ⟨[], fin⟩) := by
  simp [join]

def joinS (D : σ → List α × Term) : List σ → List (α × Nat) × Term
  | [] => ([], .end_ 0)
  | s :: r => (innerOut (D s).2 ((D s).1.map (fun a => (a, 0))) (joinS D r).1, innerTerm (D s).2 (joinS D r).2)

theorem join_head {m : SM σ α} {ci : σ → Nat} {s : σ} {Li : List (α × Nat)} {ti : Term} (hi : SDen soft m ci s Li ti)
    (r fin : List σ) {rest : List (α × Nat)} {t : Term}
    (hr : ∀ fin', SDen soft (join m) (fun _ => 0) ⟨r, fin'⟩ rest t) :
    SDen soft (join m) (fun _ => 0) ⟨s :: r, fin⟩ (innerOut ti (Li.map (fun p => (p.1, 0))) rest) (innerTerm ti t) := by
  induction hi with
  | @skip x x' Li ti hc hs _ ih =>
    exact .skip (s' := (⟨x' :: r, fin⟩ : JoinSt σ)) (join_ctxOk_cons hc) (by simp [join, hs]) ih
  | @soft x x' e Li ti hc hs he _ ih =>
    exact .soft (e := e) (s' := (⟨x' :: r, fin⟩ : JoinSt σ)) (join_ctxOk_cons hc) (by simp [join, hs]) he ih
  | @item x x' a Li ti hc hs _ ih =>
    have key : innerOut ti (((a, ci x') :: Li).map (fun p => (p.1, 0))) rest =
        (a, 0) :: innerOut ti (Li.map (fun p => (p.1, 0))) rest := by
      cases ti <;> simp [innerOut]
    rw [key]
    exact .item (cost := fun _ => 0) (a := a) (s' := (⟨x' :: r, fin⟩ : JoinSt σ)) (join_ctxOk_cons hc) (by simp [join, hs]) ih
  | @fail x x' e hc hs he =>
    simp only [List.map_nil, innerOut, innerTerm]
    exact .fail (e := e) (s' := (⟨x' :: r, fin⟩ : JoinSt σ)) (join_ctxOk_cons hc) (by simp [join, hs]) he
  | @done x x' hc hs _ _ =>
    simp only [List.map_nil, innerOut, innerTerm, List.nil_append]
    exact .skip (s' := (⟨r, fin ++ [m.close x']⟩ : JoinSt σ)) (join_ctxOk_cons hc)
      (by simp [join, hs, stJoinClosesEnded, stJoinAdvances]) (hr _)

/-- `Join(streams...)`: the concatenation; a failing stream ends it. -/
theorem join_sden {m : SM σ α} (D : σ → List α × Term) (ss : List σ)
    (hD : ∀ s ∈ ss, ∃ (ci : σ → Nat) (Li : List (α × Nat)), SDen soft m ci s Li (D s).2 ∧ Li.map Prod.fst = (D s).1)
    (fin : List σ) : SDen soft (join m) (fun _ => 0) ⟨ss, fin⟩ (joinS D ss).1 (joinS D ss).2 := by
  have _tie := Skeleton.Tie.stJoin
  induction ss generalizing fin with
  | nil =>
    have hfix : ∀ c, (join m).step ⟨[], fin⟩ c = (.end_, ⟨[], fin⟩) := join_nil_fixed fin
    exact sden_of_ended (soft := soft) (cost := fun _ => 0) (sended_fixed hfix) (fun _ => rfl)
  | cons s r ih =>
    obtain ⟨ci, Li, hi, hLi⟩ := hD s (by simp)
    have := join_head hi r fin (fun fin' => ih (fun s hs => hD s (by simp [hs])) fin')
    simp only [joinS]
    rw [← hLi, List.map_map]
    exact this

end Juniper.Proofs.StreamDen
