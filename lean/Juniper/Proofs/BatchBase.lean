import Juniper.Model.Batch
/-!
Helper lemmas for C11 (stream.Batch): the code facts the proofs are about, the proof script shared by
all per-label preservation lemmas, and the first inductive invariant (control state, timer, clock).
-/
namespace Juniper.Proofs.Batch
open Juniper.Model.Batch

/-- The code facts the proofs are about (what `code` evaluates to on the repaired tree). -/
def good : Code where
  loopRecvC := true
  loopRecvTimer := true
  loopRecvWaiting := true
  flushAbortArm := true
  flushSendArm := true
  prodSendArm := true
  prodCancelArm := true
  outerRecv := true
  outerAnnounce := true
  outerCtx := true
  innerRecv := true
  innerCtx := true
  fullStopsTimer := true
  firstSetsStart := true
  firstStartsTimer := true
  timerArmClearsTimerC := true
  waitElapsedStopsTimer := true
  waitNotElapsedStartsTimer := true
  waitEmptySetsFlag := true
  flushClearsWaitingAtEmpty := true
  stopTimerClearsTimerC := true
  startTimerStopsFirst := true
  startTimerSetsTimerC := true
  batcherClosesBatchC := true
  producerRecordsErr := true
  producerClosesSource := true
  producerClosesC := true
  guardBareLive := false
  guardWrapLive := false
  guardOtherLive := false
  guardBareClosed := true
  guardWrapClosed := false
  guardOtherClosed := false
  guardDeadlineExpired := false
  bgOrigin := .plainCancel
  bgCancelOnlyInClose := true
  srcNextGetsBg := true
  bgCtxUsesPinned := true

/-! The generated guards, over the model's natural-number state. -/
theorem firstItemCond_nat (n : Nat) : (Gen.Batch.firstItemCond (n : Int) = true) ↔ n = 1 := by
  simp only [Gen.Batch.firstItemCond, decide_eq_true_eq]; omega
theorem endFlushCond_nat (n : Nat) : (Gen.Batch.endFlushCond (n : Int) = true) ↔ 0 < n := by
  simp only [Gen.Batch.endFlushCond, decide_eq_true_eq]; omega
theorem waitNonEmptyCond_nat (n : Nat) : (Gen.Batch.waitNonEmptyCond (n : Int) = true) ↔ 0 < n := by
  simp only [Gen.Batch.waitNonEmptyCond, decide_eq_true_eq]; omega
theorem waitElapsed_nat (now bs mw : Nat) :
    (Gen.Batch.waitElapsed ((now : Int) - (bs : Int)) (mw : Int) = true) ↔ bs + mw < now := by
  simp only [Gen.Batch.waitElapsed, decide_eq_true_eq]; omega
theorem timerDur_nat (now bs mw : Nat) :
    (Gen.Batch.timerDur ((now : Int) - (bs : Int)) (mw : Int)).toNat = bs + mw - now := by
  simp only [Gen.Batch.timerDur]; omega
/-- `timer.Reset` is given the same duration as `time.NewTimer`. -/
theorem timerResetDur_eq : Gen.Batch.timerResetDur = Gen.Batch.timerDur := rfl

macro "unfold_step" " at " h:ident : tactic => `(tactic| (
  simp only [step, good, bgDone, Code.bgMayEnd, bne_self_eq_false, Bool.false_or, Bool.false_and, Bool.or_false,
    Bool.false_eq_true, false_and, afterFull, startTimer, stopTimer, since, firstItemCond_nat, timerDur_nat,
    endFlushCond_nat, waitNonEmptyCond_nat, waitElapsed_nat, decide_eq_true_eq,
    Bool.and_eq_true, Bool.or_eq_true, Bool.not_true, Bool.or_true, Bool.true_and, Bool.and_true,
    if_true, if_false, and_true, true_and, ite_true, ite_false] at $h:ident))

macro "close_inv" : tactic => `(tactic| (constructor <;> (try dsimp only) <;> grind))


structure Inv1 (cfg : Cfg) (s : State) : Prop where
  c1 : s.bgCancelled = true → s.cons = .idle
  t1a : ∀ r, s.bpc = .flush r → r ≠ .srcEnd → s.timer = .idle
  t_set : (s.bpc = .sel ∨ s.bpc = .inFull) → s.timer ≠ .idle → s.timerCSet = true
  t_ne : (s.bpc = .sel ∨ s.bpc = .inFull) → s.timer ≠ .idle → 0 < s.batch.length
  t_len : s.bpc = .inFull → s.timer ≠ .idle → 2 ≤ s.batch.length
  t_armed : (s.bpc = .sel ∨ s.bpc = .inFull) → ∀ t, s.timer = .armed t →
    t = s.batchStart + cfg.maxWait ∨ (s.batchStart + cfg.maxWait ≤ t ∧ t ≤ s.now)
  t_fired : (s.bpc = .sel ∨ s.bpc = .inFull) → s.timer = .fired → s.batchStart + cfg.maxWait ≤ s.now
  n1 : ∀ r, s.bpc = .flush r → 0 < s.batch.length
  n2 : s.bpc = .inFull → 0 < s.batch.length
  u0 : s.batchStart ≤ s.now
  u3 : s.firstAt ≤ s.now
  u1 : (s.bpc = .flush .timer ∨ s.bpc = .flush .waiter) → s.batchStart + cfg.maxWait ≤ s.now

theorem inv1_init (cfg : Cfg) : Inv1 cfg init := by
  constructor <;> simp [init]



theorem inv1_srcRet {cfg : Cfg} {s s' : State} (ev : _) (hi : Inv1 cfg s)
    (h : step good cfg s (.srcRet ev) = some s') : Inv1 cfg s' := by
  obtain ⟨c1, t1a, t_set, t_ne, t_len, t_armed, t_fired, n1, n2, u0, u3, u1⟩ := hi
  unfold_step at h <;> (repeat' split at h) <;> cases h <;> close_inv

theorem inv1_srcCancelErr {cfg : Cfg} {s s' : State} (w : _) (hi : Inv1 cfg s)
    (h : step good cfg s (.srcCancelErr w) = some s') : Inv1 cfg s' := by
  obtain ⟨c1, t1a, t_set, t_ne, t_len, t_armed, t_fired, n1, n2, u0, u3, u1⟩ := hi
  unfold_step at h <;> (repeat' split at h) <;> cases h <;> close_inv

theorem inv1_nextCall {cfg : Cfg} {s s' : State} (live : _) (hi : Inv1 cfg s)
    (h : step good cfg s (.nextCall live) = some s') : Inv1 cfg s' := by
  obtain ⟨c1, t1a, t_set, t_ne, t_len, t_armed, t_fired, n1, n2, u0, u3, u1⟩ := hi
  unfold_step at h <;> (repeat' split at h) <;> cases h <;> close_inv

theorem inv1_ctxExpire {cfg : Cfg} {s s' : State} (hi : Inv1 cfg s)
    (h : step good cfg s (.ctxExpire) = some s') : Inv1 cfg s' := by
  obtain ⟨c1, t1a, t_set, t_ne, t_len, t_armed, t_fired, n1, n2, u0, u3, u1⟩ := hi
  unfold_step at h <;> (repeat' split at h) <;> cases h <;> close_inv

theorem inv1_tick {cfg : Cfg} {s s' : State} (d : _) (hi : Inv1 cfg s)
    (h : step good cfg s (.tick d) = some s') : Inv1 cfg s' := by
  obtain ⟨c1, t1a, t_set, t_ne, t_len, t_armed, t_fired, n1, n2, u0, u3, u1⟩ := hi
  unfold_step at h <;> (repeat' split at h) <;> cases h <;> close_inv

theorem inv1_close {cfg : Cfg} {s s' : State} (hi : Inv1 cfg s)
    (h : step good cfg s (.close) = some s') : Inv1 cfg s' := by
  obtain ⟨c1, t1a, t_set, t_ne, t_len, t_armed, t_fired, n1, n2, u0, u3, u1⟩ := hi
  unfold_step at h <;> (repeat' split at h) <;> cases h <;> close_inv

theorem inv1_bgEnds {cfg : Cfg} {s s' : State} (hi : Inv1 cfg s)
    (h : step good cfg s (.bgEnds) = some s') : Inv1 cfg s' := by
  obtain ⟨c1, t1a, t_set, t_ne, t_len, t_armed, t_fired, n1, n2, u0, u3, u1⟩ := hi
  unfold_step at h <;> (repeat' split at h) <;> cases h <;> close_inv

theorem inv1_prodCancelled {cfg : Cfg} {s s' : State} (hi : Inv1 cfg s)
    (h : step good cfg s (.prodCancelled) = some s') : Inv1 cfg s' := by
  obtain ⟨c1, t1a, t_set, t_ne, t_len, t_armed, t_fired, n1, n2, u0, u3, u1⟩ := hi
  unfold_step at h <;> (repeat' split at h) <;> cases h <;> close_inv

theorem inv1_prodSend {cfg : Cfg} {s s' : State} (hi : Inv1 cfg s)
    (h : step good cfg s (.prodSend) = some s') : Inv1 cfg s' := by
  obtain ⟨c1, t1a, t_set, t_ne, t_len, t_armed, t_fired, n1, n2, u0, u3, u1⟩ := hi
  unfold_step at h <;> (repeat' split at h) <;> cases h <;> close_inv

theorem inv1_prodSendCancel {cfg : Cfg} {s s' : State} (hi : Inv1 cfg s)
    (h : step good cfg s (.prodSendCancel) = some s') : Inv1 cfg s' := by
  obtain ⟨c1, t1a, t_set, t_ne, t_len, t_armed, t_fired, n1, n2, u0, u3, u1⟩ := hi
  unfold_step at h <;> (repeat' split at h) <;> cases h <;> close_inv

theorem inv1_prodCloseC {cfg : Cfg} {s s' : State} (hi : Inv1 cfg s)
    (h : step good cfg s (.prodCloseC) = some s') : Inv1 cfg s' := by
  obtain ⟨c1, t1a, t_set, t_ne, t_len, t_armed, t_fired, n1, n2, u0, u3, u1⟩ := hi
  unfold_step at h <;> (repeat' split at h) <;> cases h <;> close_inv

theorem inv1_prodCloseSrc {cfg : Cfg} {s s' : State} (hi : Inv1 cfg s)
    (h : step good cfg s (.prodCloseSrc) = some s') : Inv1 cfg s' := by
  obtain ⟨c1, t1a, t_set, t_ne, t_len, t_armed, t_fired, n1, n2, u0, u3, u1⟩ := hi
  unfold_step at h <;> (repeat' split at h) <;> cases h <;> close_inv

theorem inv1_fullRet {cfg : Cfg} {s s' : State} (b : _) (hi : Inv1 cfg s)
    (h : step good cfg s (.fullRet b) = some s') : Inv1 cfg s' := by
  obtain ⟨c1, t1a, t_set, t_ne, t_len, t_armed, t_fired, n1, n2, u0, u3, u1⟩ := hi
  unfold_step at h <;> (repeat' split at h) <;> cases h <;> close_inv

theorem inv1_recvCClosed {cfg : Cfg} {s s' : State} (hi : Inv1 cfg s)
    (h : step good cfg s (.recvCClosed) = some s') : Inv1 cfg s' := by
  obtain ⟨c1, t1a, t_set, t_ne, t_len, t_armed, t_fired, n1, n2, u0, u3, u1⟩ := hi
  unfold_step at h <;> (repeat' split at h) <;> cases h <;> close_inv

theorem inv1_recvTimer {cfg : Cfg} {s s' : State} (hi : Inv1 cfg s)
    (h : step good cfg s (.recvTimer) = some s') : Inv1 cfg s' := by
  obtain ⟨c1, t1a, t_set, t_ne, t_len, t_armed, t_fired, n1, n2, u0, u3, u1⟩ := hi
  unfold_step at h <;> (repeat' split at h) <;> cases h <;> close_inv

theorem inv1_flushAbort {cfg : Cfg} {s s' : State} (hi : Inv1 cfg s)
    (h : step good cfg s (.flushAbort) = some s') : Inv1 cfg s' := by
  obtain ⟨c1, t1a, t_set, t_ne, t_len, t_armed, t_fired, n1, n2, u0, u3, u1⟩ := hi
  unfold_step at h <;> (repeat' split at h) <;> cases h <;> close_inv

theorem inv1_batchExit {cfg : Cfg} {s s' : State} (hi : Inv1 cfg s)
    (h : step good cfg s (.batchExit) = some s') : Inv1 cfg s' := by
  obtain ⟨c1, t1a, t_set, t_ne, t_len, t_armed, t_fired, n1, n2, u0, u3, u1⟩ := hi
  unfold_step at h <;> (repeat' split at h) <;> cases h <;> close_inv

theorem inv1_announce {cfg : Cfg} {s s' : State} (hi : Inv1 cfg s)
    (h : step good cfg s (.announce) = some s') : Inv1 cfg s' := by
  obtain ⟨c1, t1a, t_set, t_ne, t_len, t_armed, t_fired, n1, n2, u0, u3, u1⟩ := hi
  unfold_step at h <;> (repeat' split at h) <;> cases h <;> close_inv

theorem inv1_deliver {cfg : Cfg} {s s' : State} (hi : Inv1 cfg s)
    (h : step good cfg s (.deliver) = some s') : Inv1 cfg s' := by
  obtain ⟨c1, t1a, t_set, t_ne, t_len, t_armed, t_fired, n1, n2, u0, u3, u1⟩ := hi
  unfold_step at h <;> (repeat' split at h) <;> cases h <;> close_inv

theorem inv1_consClosed {cfg : Cfg} {s s' : State} (hi : Inv1 cfg s)
    (h : step good cfg s (.consClosed) = some s') : Inv1 cfg s' := by
  obtain ⟨c1, t1a, t_set, t_ne, t_len, t_armed, t_fired, n1, n2, u0, u3, u1⟩ := hi
  unfold_step at h <;> (repeat' split at h) <;> cases h <;> close_inv

theorem inv1_consCtx {cfg : Cfg} {s s' : State} (hi : Inv1 cfg s)
    (h : step good cfg s (.consCtx) = some s') : Inv1 cfg s' := by
  obtain ⟨c1, t1a, t_set, t_ne, t_len, t_armed, t_fired, n1, n2, u0, u3, u1⟩ := hi
  unfold_step at h <;> (repeat' split at h) <;> cases h <;> close_inv

theorem inv1_timerExpire {cfg : Cfg} {s s' : State} (hi : Inv1 cfg s)
    (h : step good cfg s (.timerExpire) = some s') : Inv1 cfg s' := by
  obtain ⟨c1, t1a, t_set, t_ne, t_len, t_armed, t_fired, n1, n2, u0, u3, u1⟩ := hi
  unfold_step at h <;> (repeat' split at h) <;> cases h <;> close_inv

theorem inv1_closeReturn {cfg : Cfg} {s s' : State} (hi : Inv1 cfg s)
    (h : step good cfg s (.closeReturn) = some s') : Inv1 cfg s' := by
  obtain ⟨c1, t1a, t_set, t_ne, t_len, t_armed, t_fired, n1, n2, u0, u3, u1⟩ := hi
  unfold_step at h <;> (repeat' split at h) <;> cases h <;> close_inv

theorem inv1_step {cfg : Cfg} {s s' : State} {l : Label} (hi : Inv1 cfg s)
    (h : step good cfg s l = some s') : Inv1 cfg s' := by
  cases l with
  | srcRet ev => exact inv1_srcRet ev hi h
  | srcCancelErr w => exact inv1_srcCancelErr w hi h
  | nextCall live => exact inv1_nextCall live hi h
  | ctxExpire => exact inv1_ctxExpire hi h
  | tick d => exact inv1_tick d hi h
  | close => exact inv1_close hi h
  | bgEnds => exact inv1_bgEnds hi h
  | prodCancelled => exact inv1_prodCancelled hi h
  | prodSend => exact inv1_prodSend hi h
  | prodSendCancel => exact inv1_prodSendCancel hi h
  | prodCloseC => exact inv1_prodCloseC hi h
  | prodCloseSrc => exact inv1_prodCloseSrc hi h
  | fullRet b => exact inv1_fullRet b hi h
  | recvCClosed => exact inv1_recvCClosed hi h
  | recvTimer => exact inv1_recvTimer hi h
  | flushAbort => exact inv1_flushAbort hi h
  | batchExit => exact inv1_batchExit hi h
  | announce => exact inv1_announce hi h
  | deliver => exact inv1_deliver hi h
  | consClosed => exact inv1_consClosed hi h
  | consCtx => exact inv1_consCtx hi h
  | timerExpire => exact inv1_timerExpire hi h
  | closeReturn => exact inv1_closeReturn hi h

theorem inv1_reach {cfg : Cfg} {s : State} (h : Reach good cfg s) : Inv1 cfg s := by
  induction h with
  | init => exact inv1_init cfg
  | step l _ hs ih => exact inv1_step ih hs

end Juniper.Proofs.Batch
