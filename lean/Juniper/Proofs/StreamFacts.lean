import Juniper.Generated.Comb
/-!
# Presence facts of `stream.go` / `xrand.go` that the C09 theorems rest on (tie lemmas)

Each lemma is proved by evaluating the regenerated definition (`by decide`). The theorems of
`Props/C09.lean` and the `Forwards` / `*_reach` lemmas they are built from *use* these lemmas in their
proofs: delete the statement from the Go source (or, for the `defer`s, move it behind an early return:
the fact says "the first statement of the function is `defer s.Close()`") and the lemma of that name
fails, together with every theorem that depends on it. None of them is a hypothesis of a theorem.
-/
namespace Juniper.Proofs.StreamDen
open Juniper.Gen.Comb

theorem stPeekCloseForwards_fact : stPeekCloseForwards = true := by decide
theorem stChunkCloseForwards_fact : stChunkCloseForwards = true := by decide
theorem stCompactCloseForwards_fact : stCompactCloseForwards = true := by decide
theorem stFilterCloseForwards_fact : stFilterCloseForwards = true := by decide
theorem stMapCloseForwards_fact : stMapCloseForwards = true := by decide
theorem stFirstCloseForwards_fact : stFirstCloseForwards = true := by decide
theorem stWhileCloseForwards_fact : stWhileCloseForwards = true := by decide
theorem stFlattenSlicesCloseForwards_fact : stFlattenSlicesCloseForwards = true := by decide
theorem stFlattenCloseForwards_fact : stFlattenCloseForwards = true := by decide
theorem stRunsCloseForwards_fact : stRunsCloseForwards = true := by decide

/-- `flattenStream.Close` closes the current inner stream: `if s.curr != nil { s.curr.Close() }` -/
theorem stFlattenCloseCurr_fact : stFlattenCloseCurr = true ∧ stFlattenCloseCond = "s.curr != nil" := by decide
/-- `flattenStream.Next` closes an inner stream that ended and forgets it -/
theorem stFlattenClosesEnded_fact : stFlattenClosesEnded = true := by decide
theorem stFlattenClearsCurr_fact : stFlattenClearsCurr = true := by decide
/-- `joinStream.Close` closes every remaining argument: `for i := range s.remaining { s.remaining[i].Close() }` -/
theorem stJoinCloseForwards_fact :
    stJoinCloseForwards = true ∧ stJoinCloseRange = "s.remaining" ∧ stJoinCloseStmt = "{ s.remaining[i].Close() }" := by
  decide
/-- `joinStream.Next` closes an argument that ended and drops it -/
theorem stJoinClosesEnded_fact : stJoinClosesEnded = true := by decide
theorem stJoinAdvances_fact : stJoinAdvances = true := by decide

/-- the first statement of every reducer (and of `xrand.rSampleStream`) is `defer s.Close()` -/
theorem stCollectDefersClose_fact : stCollectDefersClose = true := by decide
theorem stReduceDefersClose_fact : stReduceDefersClose = true := by decide
theorem stLastDefersClose_fact : stLastDefersClose = true := by decide
theorem stOneDefersClose_fact : stOneDefersClose = true := by decide
theorem sampleStreamDefersClose_fact : sampleStreamDefersClose = true := by decide

end Juniper.Proofs.StreamDen
