import Juniper.Model.ParMap
/-! Basic facts for the `parallel.MapStream` / `MapIterator` models: the regenerated guards, channel
capacities and `select` tables mean what the proofs assume (`Code.Sound`), clamping arithmetic. -/
namespace Juniper.Proofs.ParMap
open Juniper.Gen Juniper.Facts Juniper.Model.ParMap

/-- The sites regenerated from `parallel.MapStream` / `mapStream.Next` / `mapStream.Close` are the
ones the proofs are about (guards, capacities of `in` / `ready` / `c`, the four `select` tables,
`defer s.Close()`, `defer close(in)`, `close(c)`, the token release). -/
theorem stream_code_sound : Stream.code.Sound := by
  constructor <;> first | decide | (intros; rfl)

/-- The sites regenerated from `parallel.MapIterator` / `mapIterator.Next`. -/
theorem iter_code_sound : Iter.code.Sound := by
  constructor <;> first | decide | (intros; rfl)

theorem loopCount_lt (cond : Int → Bool) (p : Int) (hc : ∀ j, cond j = decide (j < p)) :
    ∀ (fuel : Nat) (j : Int), 0 ≤ j → (p - j).toNat ≤ fuel → loopCount cond fuel j = (p - j).toNat := by
  intro fuel
  induction fuel with
  | zero => intro j _ h; simp [loopCount]; omega
  | succ f ih =>
    intro j hj h
    simp only [loopCount, hc]
    by_cases hlt : j < p
    · simp [hlt]
      rw [ih (j + 1) (by omega) (by omega)]
      omega
    · simp [hlt]; omega

end Juniper.Proofs.ParMap
