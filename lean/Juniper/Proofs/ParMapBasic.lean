import Juniper.Model.ParMap
import Juniper.Proofs.SkeletonPar
/-! Basic facts for the `parallel.MapStream` / `MapIterator` models: the regenerated guards, channel
capacities and `select` tables mean what the proofs assume (`Code.Sound`), clamping arithmetic. -/
namespace Juniper.Proofs.ParMap
open Juniper.Gen Juniper.Facts Juniper.Model.ParMap
open Juniper.Proofs.SkeletonPar (under pskelMapStream_ties pskelMapIterator_ties)

/-- The sites regenerated from `parallel.MapStream` / `mapStream.Next` / `mapStream.Close` are the
ones the proofs are about (guards, capacities of `in` / `ready` / `c`, the four `select` tables,
`defer s.Close()`, `defer close(in)`, `close(c)`, the token release), for bodies whose control
skeletons (MapStream top level, dispatcher, worker, `Next`, `Close`) are the ones `Stream.step` hard-wires. -/
theorem stream_code_sound : Stream.code.Sound :=
  under pskelMapStream_ties (by constructor <;> first | decide | (intros; rfl))

/-- The sites regenerated from `parallel.MapIterator` / `mapIterator.Next`, for bodies whose control
skeletons (top level, dispatcher, worker, `Next`) are the ones `Iter.step` hard-wires. -/
theorem iter_code_sound : Iter.code.Sound :=
  under pskelMapIterator_ties (by constructor <;> first | decide | (intros; rfl))

theorem loopCount_lt (cond : Int → Bool) (p : Int) (hc : ∀ j, cond j = decide (j < p)) :
    ∀ (fuel : Nat) (j : Int), 0 ≤ j → (p - j).toNat ≤ fuel → loopCount cond fuel j = (p - j).toNat := by
  intro fuel
  induction fuel with
  | zero => intro j _ h; simp [loopCount]; omega
  | succ f ih =>
    intro j hj h
    simp only [loopCount, hc]
    by_cases hlt : j < p
    · simp [hlt]
      rw [ih (j + 1) (by omega) (by omega)]
      omega
    · simp [hlt]; omega

end Juniper.Proofs.ParMap
