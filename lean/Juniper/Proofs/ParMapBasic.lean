import Juniper.Model.ParMap
import Juniper.Proofs.ParMapTies
/-! Basic facts for the `parallel.MapStream` / `MapIterator` models: the regenerated guards, channel
capacities and `select` tables mean what the proofs assume (`Code.Sound`), clamping arithmetic. -/
namespace Juniper.Proofs.ParMap
open Juniper.Gen Juniper.Facts Juniper.Model.ParMap

/-- The sites regenerated from `parallel.MapStream` / `mapStream.Next` / `mapStream.Close` are the ones the
proofs are about (guards, capacities of `in` / `ready` / `c`, the four `select` tables, `defer s.Close()`,
`defer close(in)`, `close(c)`, the token release, `Close` = cancel then wait, the origin of the context), for
bodies whose control skeletons are the ones `Stream.step` hard-wires — **given** the ties `t`. The ties are
not proved here: every property theorem supplies `stream_ties` (decided inside its own proof). -/
theorem stream_code_sound (t : StreamTies) : Stream.code.Sound := t.sound

/-- The sites regenerated from `parallel.MapIterator` / `mapIterator.Next` (among them the lock / cond
discipline `Iter.sectionsAtomic`), for bodies whose control skeletons are the ones `Iter.step` hard-wires —
**given** the ties `t` (`iter_ties`, decided inside every property theorem). -/
theorem iter_code_sound (t : IterTies) : Iter.code.Sound := t.sound

theorem loopCount_lt (cond : Int → Bool) (p : Int) (hc : ∀ j, cond j = decide (j < p)) :
    ∀ (fuel : Nat) (j : Int), 0 ≤ j → (p - j).toNat ≤ fuel → loopCount cond fuel j = (p - j).toNat := by
  intro fuel
  induction fuel with
  | zero => intro j _ h; simp [loopCount]; omega
  | succ f ih =>
    intro j hj h
    simp only [loopCount, hc]
    by_cases hlt : j < p
    · simp [hlt]
      rw [ih (j + 1) (by omega) (by omega)]
      omega
    · simp [hlt]; omega

end Juniper.Proofs.ParMap
