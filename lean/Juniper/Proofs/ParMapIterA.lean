import Juniper.Proofs.ParMapStreamG
/-! Inductive invariants of the MapIterator LTS (`Model/ParMap.lean`, namespace `Iter`), part 1: per-index
placement, slot accounting (`inFlight`, the parked dispatcher), shutdown counters. -/
set_option linter.unusedSimpArgs false
set_option linter.unusedVariables false

namespace Juniper.Proofs.ParMap.I
open Juniper.Gen Juniper.Facts Juniper.Model.ParMap Juniper.Model.ParMap.Iter Juniper.Proofs.ParMap
open Juniper.Proofs.ParMap.S (b2n icnt icnt_nil icnt_snoc icnt_cons icnt_pos_of_mem mem_of_icnt_pos icnt_eraseP_of_find mem_set_cases getElem?_snoc_of_some)

syntax "iter_cases " ident " => " tacticSeq : tactic
macro_rules
  | `(tactic| iter_cases $h:ident => $t:tacticSeq) =>
    `(tactic| (
      (simp only [Iter.step] at $h:ident)
      (repeat' split at $h:ident)
      all_goals (try (simp at $h:ident; done))
      -- branches of the model that exist only when the two lock sections are not atomic with respect to each
      -- other (`sectionsAtomic = false`: the dispatcher's check and its parking are separate steps): impossible
      -- under `Code.Sound`
      all_goals (try (exfalso; first
        | (refine absurd (Iter.Code.Sound.sectionsAtomic (c := ?_) ?_) ?_ <;> (first | assumption | skip); done)))
      all_goals (simp only [Option.some.injEq] at $h:ident; subst $h:ident)
      all_goals ($t)))

def isVal : NextRes → Bool
  | .val _ _ => true
  | _ => false
def isEnd : NextRes → Bool
  | .end => true
  | _ => false
def dSendIn : DPc → Bool
  | .sendIn _ => true
  | _ => false
def dHolding : DPc → Bool
  | .acquire _ => true
  | .checked _ => true
  | .parked _ => true
  | .sendIn _ => true
  | _ => false
def dParked : DPc → Bool
  | .parked _ => true
  | _ => false
/-- "checked, not yet parked": exists only without `sectionsAtomic` -/
def dChecked : DPc → Bool
  | .checked _ => true
  | _ => false
def dDone : DPc → Bool
  | .done => true
  | _ => false
def wDone : WPc → Bool
  | .done => true
  | _ => false
def wIdle : WPc → Bool
  | .idle => true
  | _ => false
def wActive : WPc → Bool
  | .inF _ => true
  | .sendCh _ _ => true
  | _ => false
def wHolds (k : Nat) : WPc → Bool
  | .inF j => j == k
  | .sendCh j _ => j == k
  | _ => false
def wInF (k : Nat) : WPc → Bool
  | .inF j => j == k
  | _ => false

theorem par_eq {cfg : Cfg} (hs : cfg.code.Sound) : par cfg = if cfg.P ≤ 0 then (cfg.gmp : Int) else cfg.P := by
  simp [par, hs.clampLow]
theorem buf_eq {cfg : Cfg} (hs : cfg.code.Sound) : buf cfg = max cfg.B (par cfg) := by
  simp only [buf, hs.bufClamp]; split <;> simp_all <;> omega
theorem numWorkers_eq {cfg : Cfg} (hs : cfg.code.Sound) : numWorkers cfg = (par cfg).toNat := by
  unfold numWorkers
  rw [loopCount_lt _ (par cfg) (fun j => hs.spawnLoop j _) _ 0 (by omega) (by omega)]; simp
theorem par_pos {cfg : Cfg} (hs : cfg.code.Sound) (hg : 1 ≤ cfg.gmp) : 1 ≤ par cfg := by
  rw [par_eq hs]; split <;> omega
theorem numWorkers_cast {cfg : Cfg} (hs : cfg.code.Sound) (hg : 1 ≤ cfg.gmp) :
    (numWorkers cfg : Int) = par cfg ∧ 1 ≤ numWorkers cfg := by
  have := par_pos hs hg
  rw [numWorkers_eq hs]; omega
theorem buf_pos {cfg : Cfg} (hs : cfg.code.Sound) (hg : 1 ≤ cfg.gmp) : 1 ≤ buf cfg := by
  have := par_pos hs hg; rw [buf_eq hs]; omega

def ecnt (k : Nat) (l : List (Nat × Nat)) : Nat := cnt (fun e => e.1 == k) l
@[simp] theorem ecnt_nil (k : Nat) : ecnt k [] = 0 := rfl
@[simp] theorem ecnt_snoc (k : Nat) (l : List (Nat × Nat)) (a : Nat × Nat) :
    ecnt k (l ++ [a]) = ecnt k l + b2n (a.1 == k) := by simp [ecnt, b2n]

/-- every dispatched index is in exactly one place -/
structure InvP (cfg : Cfg) (s : St) : Prop where
  P : ∀ k, b2n (decide (k < s.i)) + cnt (wHolds k) s.ws + icnt k s.heap = b2n (decide (k < s.dispI))
  Q1 : ∀ k, icnt k s.fBegun = b2n (decide (k < s.dispI))
  Q2 : ∀ k, ecnt k s.fEnded + cnt (wInF k) s.ws = b2n (decide (k < s.dispI))

theorem invP_init (cfg : Cfg) : InvP cfg (Iter.init cfg) := by
  refine ⟨?_, ?_, ?_⟩ <;> simp [Iter.init, b2n, wHolds, wInF]

theorem invP_step {cfg : Cfg} (hs : cfg.code.Sound) {s s' : St} {l : Label} (hi : InvP cfg s)
    (h : Iter.step cfg s l = some s') : InvP cfg s' := by
  have ⟨iP, iQ1, iQ2⟩ := hi
  cases l with
  | dSend w | fRet w v | wHandOff w | wExitIdle w =>
    iter_cases h =>
      (have hw := ‹_[_]? = some _›
       refine ⟨?_, ?_, ?_⟩ <;> intro k
       · have g1 := cnt_ge (wHolds k) hw
         have := iP k
         simp [cnt_set hw, b2n, wHolds] at * <;> grind
       · have := iQ1 k
         simp [b2n] at * <;> grind
       · have g1 := cnt_ge (wInF k) hw
         have := iQ2 k
         simp [cnt_set hw, b2n, wInF] at * <;> grind)
  | cYield =>
    iter_cases h =>
      (have hf := ‹List.find? _ s.heap = some _›
       have hcy := ‹canYield cfg s = true›
       have ⟨hk, hmem, hcount⟩ := icnt_eraseP_of_find hf
       simp [canYield, hs.nextReady] at hcy
       refine ⟨?_, iQ1, iQ2⟩
       intro j; have := iP j; have := hcount j
       simp [b2n] at * <;> grind)
  | _ => iter_cases h => exact ⟨iP, iQ1, iQ2⟩

theorem invP {cfg : Cfg} (hs : cfg.code.Sound) {s : St} (h : Reach cfg s) : InvP cfg s := by
  induction h with
  | init => exact invP_init cfg
  | step _ hstep ih => exact invP_step hs ih hstep

/-- slot accounting and shutdown counters of MapIterator -/
structure InvA (cfg : Cfg) (s : St) : Prop where
  len : s.ws.length = numWorkers cfg
  T : s.inFlight + s.i = s.dispI + b2n (dSendIn s.disp)
  Tb : 0 ≤ s.inFlight ∧ s.inFlight ≤ buf cfg
  PK : dParked s.disp = true → s.inFlight = buf cfg
  /-- the lock sections are atomic (`Code.Sound.sectionsAtomic`): the dispatcher is never between its check
  and its parking -/
  NC : dChecked s.disp = false
  S : s.srcItems.length = s.dispI + b2n (dHolding s.disp)
  Y : s.i = cnt isVal s.results
  IC : s.inClosed = dDone s.disp
  SE : s.srcEnded = dDone s.disp
  ND : s.nDone = cnt wDone s.ws
  CC : s.chClosed = true ↔ s.nDone = numWorkers cfg
  WD : 0 < cnt wDone s.ws → s.inClosed = true

theorem invA_init (cfg : Cfg) (hs : cfg.code.Sound) (hg : 1 ≤ cfg.gmp) : InvA cfg (Iter.init cfg) := by
  have := numWorkers_cast hs hg
  have := buf_pos hs hg
  refine ⟨?_, ?_, ?_, ?_, ?_, ?_, ?_, ?_, ?_, ?_, ?_, ?_⟩ <;>
    simp [Iter.init, b2n, dSendIn, dParked, dChecked, dHolding, dDone, wDone] <;> omega

set_option maxHeartbeats 1600000 in
theorem invA_step {cfg : Cfg} (hs : cfg.code.Sound) (hg : 1 ≤ cfg.gmp) {s s' : St} {l : Label} (hp : InvP cfg s) (hi : InvA cfg s)
    (h : Iter.step cfg s l = some s') : InvA cfg s' := by
  have ⟨ilen, iT, iTb, iPK, iNC, iS, iY, iIC, iSE, iND, iCC, iWD⟩ := hi
  have hn := numWorkers_cast hs hg
  have hb := buf_pos hs hg
  cases l with
  | dSend w | fRet w v | wHandOff w | wExitIdle w =>
    iter_cases h =>
      (have hw := ‹_[_]? = some _›
       have g1 := cnt_ge wDone hw
       have g3 := fun hb => cnt_add_one_le (p := wDone) hw hb
       have l1 := S.cnt_le_length_of wDone hw
       refine ⟨?_, ?_, ?_, ?_, ?_, ?_, ?_, ?_, ?_, ?_, ?_, ?_⟩ <;>
         simp [cnt_set hw, b2n, dSendIn, dParked, dChecked, dHolding, dDone, wDone, isVal, hs.lastWorker, hs.lastCloses, hs.closesIn] at * <;> grind)
  | cYield =>
    iter_cases h =>
      (have hf := ‹List.find? _ s.heap = some _›
       have hcy := ‹canYield cfg s = true›
       have ⟨hk, hmem, hcount⟩ := icnt_eraseP_of_find hf
       simp [canYield, hs.nextReady] at hcy
       have hlt : s.i < s.dispI := by
         have hki : (heapMin s.heap).getD 0 = s.i := by have := hcy.2; omega
         have h1 := hp.P s.i
         have h2 := icnt_pos_of_mem hmem
         rw [hk, hki] at h2
         by_cases hlt : s.i < s.dispI
         · exact hlt
         · simp [b2n, hlt] at h1; omega
       refine ⟨?_, ?_, ?_, ?_, ?_, ?_, ?_, ?_, ?_, ?_, ?_, ?_⟩ <;>
         simp [b2n, dSendIn, dParked, dChecked, dHolding, dDone, isVal, hs.signalCond, hs.signals] at * <;>
         grind [dSendIn, dParked, dChecked, dHolding, dDone])
  | _ =>
    iter_cases h =>
      (refine ⟨?_, ?_, ?_, ?_, ?_, ?_, ?_, ?_, ?_, ?_, ?_, ?_⟩ <;>
         simp [b2n, dSendIn, dParked, dChecked, dHolding, dDone, isVal, hs.full, hs.signalCond, hs.signals, hs.waits, hs.closesIn, hs.srcEnded, hs.sectionsAtomic] at * <;>
         grind [dSendIn, dParked, dChecked, dHolding, dDone])

theorem invA {cfg : Cfg} (hs : cfg.code.Sound) (hg : 1 ≤ cfg.gmp) {s : St} (h : Reach cfg s) : InvA cfg s := by
  induction h with
  | init => exact invA_init cfg hs hg
  | step hr hstep ih => exact invA_step hs hg (invP hs hr) ih hstep

end Juniper.Proofs.ParMap.I
