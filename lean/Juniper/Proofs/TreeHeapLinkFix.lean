import Juniper.Proofs.TreeHeapLinkDelOps
/-!
# Linking the two B-tree models (C03): rotations and merge at tree level

`rotL_sim`, `rotR_sim`, `merge_sim`: on a node of the functional tree whose children `a`, `a+1` are
`L`, `R`, the heap functions `Heap.rotateLeft`, `Heap.rotateRight` and the `mergeTwo` part of
`Heap.mergeFrom` produce in the store exactly the subtrees `rotateLeftAt`, `rotateRightAt`, `mergeAt`
compute.
-/
namespace Juniper.Proofs.TreeHeapLink
open Juniper Juniper.Model.BTree Juniper.Model.BTreeSlotsOps Juniper.Proofs.Tree Juniper.Proofs.TreeSlotsOps

variable {K V : Type}

/-- a member of a forest stays in the store (possibly below another parent pointer) when the store
changes only outside the forest or at root objects of the forest -/
theorem forest_sub {F : List (Node K V)} (hF : ∀ j, cntK j F ≤ 1) {g g' : Store K V}
    (hsub : ∀ d ∈ F, ∃ q, Sub g q d) (S : Nat → Prop) (hfr : ∀ j, ¬ S j → g' j = g j)
    (hS : ∀ j, S j → cntK j F = 0 ∨ ∃ d ∈ F, d.id = j)
    {d : Node K V} (hd : d ∈ F) {q' : Option Nat} (hroot : g' d.id = (g d.id).map (withParent q')) : Sub g' q' d := by
  obtain ⟨q, hs⟩ := hsub d hd
  refine Sub.reparent hs (by have := cnt_le_cntK hd d.id; have := hF d.id; omega) hroot ?_
  intro j hj hjd
  refine hfr j (fun hSj => ?_)
  rcases hS j hSj with h0 | ⟨d', hd', e⟩
  · have := cnt_le_cntK hd j; omega
  · exact forest_strict hF hd hd' hj hjd e

/-- an unchanged root object, seen as "re-parented to the parent it has" -/
theorem Sub.root_keep {g g' : Store K V} {q : Option Nat} {d : Node K V} (hs : Sub g q d) (he : g' d.id = g d.id) :
    g' d.id = (g d.id).map (withParent q) := by
  obtain ⟨sd, h1, h2, _⟩ := hs.root
  rw [he, h1]
  subst h2
  rfl

/-! ## two adjacent children -/

theorem two_kids {kids : List (Node K V)} {a : Nat} {L R : Node K V} (hL : kids[a]? = some L) (hR : kids[a + 1]? = some R) :
    kids = kids.take a ++ L :: R :: kids.drop (a + 2) := by
  conv => lhs; rw [← List.take_append_drop a kids, drop_two hL hR]

theorem map_id_two {kids : List (Node K V)} {a : Nat} {L R L' R' : Node K V} (hL : kids[a]? = some L)
    (hR : kids[a + 1]? = some R) (h1 : L'.id = L.id) (h2 : R'.id = R.id) :
    (kids.take a ++ L' :: R' :: kids.drop (a + 2)).map Node.id = kids.map Node.id := by
  conv => rhs; rw [two_kids hL hR]
  simp [h1, h2]

/-- identity bookkeeping for a node and two adjacent children -/
theorem pair_facts {id li ri : Nat} {kvs lkvs rkvs : List (K × V)} {kids lkids rkids : List (Node K V)} {a : Nat}
    (hcnt : ∀ j, cnt j (Node.mk id kvs kids) ≤ 1)
    (hL : kids[a]? = some (.mk li lkvs lkids)) (hR : kids[a + 1]? = some (.mk ri rkvs rkids)) :
    (∀ j, cntK j (kids.take a) + cntK j lkids + cntK j rkids + cntK j (kids.drop (a + 2)) ≤ 1) ∧
    (∀ j, (j = id ∨ j = li ∨ j = ri) →
      cntK j (kids.take a) + cntK j lkids + cntK j rkids + cntK j (kids.drop (a + 2)) = 0) ∧
    id ≠ li ∧ li ≠ ri ∧ id ≠ ri := by
  have hdec : ∀ j, cnt j (Node.mk id kvs kids) = (if id = j then 1 else 0) + cntK j (kids.take a) +
      ((if li = j then 1 else 0) + cntK j lkids) + ((if ri = j then 1 else 0) + cntK j rkids) +
      cntK j (kids.drop (a + 2)) := by
    intro j
    rw [cnt_mk, cntK_of_drop (drop_two hL hR) j, cnt_mk, cnt_mk]
    omega
  refine ⟨?_, ?_, ?_, ?_, ?_⟩
  · intro j; have := hdec j; have := hcnt j; omega
  · intro j hj
    have h1 := hdec j; have h2 := hcnt j
    rcases hj with rfl | rfl | rfl
    · simp at h1; omega
    · simp at h1; omega
    · simp at h1; omega
  · intro e; subst e; have h1 := hdec id; have h2 := hcnt id; simp at h1; omega
  · intro e; subst e; have h1 := hdec li; have h2 := hcnt li; simp at h1; omega
  · intro e; subst e; have h1 := hdec id; have h2 := hcnt id; simp at h1; omega

/-! ## `rotateLeftAt` / `rotateRightAt` / `mergeAt` in explicit form -/

theorem rotateLeftAt_eq {kvs : List (K × V)} {kids : List (Node K V)} {a li ri : Nat} {lkvs rkvs : List (K × V)}
    {rk : K × V} {lkids rkids : List (Node K V)} (ha : a < kvs.length)
    (hL : kids[a]? = some (.mk li lkvs lkids)) (hR : kids[a + 1]? = some (.mk ri (rk :: rkvs) rkids)) :
    rotateLeftAt kvs kids a = some (kvs.take a ++ rk :: kvs.drop (a + 1),
      kids.take a ++ .mk li (lkvs ++ [kvs[a]]) (lkids ++ rkids.take 1) :: .mk ri rkvs (rkids.drop 1) :: kids.drop (a + 2)) := by
  have hs : (Gen.Tree.rotateLeftSepIdx ((a : Int) + 1)).toNat = a := by simp [Gen.Tree.rotateLeftSepIdx]
  have hsep : kvs.drop a = kvs[a] :: kvs.drop (a + 1) := List.drop_eq_getElem_cons ha
  simp only [rotateLeftAt, hs, drop_two hL hR, hsep]

theorem rotateRightAt_eq {kvs : List (K × V)} {kids : List (Node K V)} {a li ri : Nat} {lkvs rkvs : List (K × V)}
    {lkids rkids : List (Node K V)} (ha : a < kvs.length) (hlne : lkvs ≠ [])
    (hL : kids[a]? = some (.mk li lkvs lkids)) (hR : kids[a + 1]? = some (.mk ri rkvs rkids)) :
    rotateRightAt kvs kids a = some (kvs.take a ++ lkvs.getLast hlne :: kvs.drop (a + 1),
      kids.take a ++ .mk li lkvs.dropLast (lkids.take (lkvs.length - 1 + 1)) ::
        .mk ri (kvs[a] :: rkvs) ((lkids.drop (lkvs.length - 1 + 1)).take 1 ++ rkids) :: kids.drop (a + 2)) := by
  have hs : (Gen.Tree.rotateRightSepIdx (a : Int)).toNat = a := by simp [Gen.Tree.rotateRightSepIdx]
  have hsep : kvs.drop a = kvs[a] :: kvs.drop (a + 1) := List.drop_eq_getElem_cons ha
  simp only [rotateRightAt, hs, drop_two hL hR, hsep, List.getLast?_eq_some_getLast hlne]

theorem mergeAt_eq {kvs : List (K × V)} {kids : List (Node K V)} {a li ri : Nat} {lkvs rkvs : List (K × V)}
    {lkids rkids : List (Node K V)} (ha : a < kvs.length)
    (hL : kids[a]? = some (.mk li lkvs lkids)) (hR : kids[a + 1]? = some (.mk ri rkvs rkids)) :
    mergeAt kvs kids a = some (kvs.take a ++ kvs.drop (a + 1),
      kids.take a ++ .mk li (lkvs ++ kvs[a] :: rkvs) (lkids ++ rkids) :: kids.drop (a + 2)) := by
  have hsep : kvs.drop a = kvs[a] :: kvs.drop (a + 1) := List.drop_eq_getElem_cons ha
  simp only [mergeAt, drop_two hL hR, hsep]

theorem cntK_pos_of_mem {X : List (Node K V)} {d : Node K V} (hd : d ∈ X) : 0 < cntK d.id X := by
  have := cnt_self d; have := cnt_le_cntK hd d.id; omega

theorem head_cnt {rkids : List (Node K V)} {j : Nat} (h : (rkids.map Node.id).head? = some j) :
    0 < cntK j (rkids.take 1) ∧ ∃ c0, rkids.head? = some c0 ∧ c0.id = j := by
  cases rkids with
  | nil => simp at h
  | cons c0 cs =>
    simp only [List.map_cons, List.head?_cons, Option.some.injEq] at h
    subst h
    refine ⟨?_, c0, rfl, rfl⟩
    simp only [List.take_succ_cons, List.take_zero, cntK_cons, cntK_nil]
    have := cnt_self c0; omega

/-! ## steal from the right sibling -/

theorem rotL_sim {h : Heap K V} {p : Option Nat} {id li ri a : Nat} {kvs lkvs rkvs : List (K × V)} {rk : K × V}
    {kids lkids rkids : List (Node K V)}
    (hsub : Sub h.get p (.mk id kvs kids)) (hcnt : ∀ j, cnt j (Node.mk id kvs kids) ≤ 1)
    (hlen : kids.length = kvs.length + 1) (ha : a < kvs.length)
    (hL : kids[a]? = some (.mk li lkvs lkids)) (hR : kids[a + 1]? = some (.mk ri (rk :: rkvs) rkids))
    (hkind : lkids = [] ↔ rkids = []) (hroom : lkvs.length < keysCap) :
    ∃ h', Heap.rotateLeft h li ri = some h' ∧ Same h h' ∧
      Sub h'.get p (.mk id (kvs.take a ++ rk :: kvs.drop (a + 1))
        (kids.take a ++ .mk li (lkvs ++ [kvs[a]]) (lkids ++ rkids.take 1) :: .mk ri rkvs (rkids.drop 1) ::
          kids.drop (a + 2))) ∧
      ∀ j, cnt j (Node.mk id kvs kids) = 0 → h'.get j = h.get j := by
  obtain ⟨sp, hp, hpp, rp, hkids⟩ := sub_mk.mp hsub
  have hLm := List.mem_of_getElem? hL
  have hRm := List.mem_of_getElem? hR
  obtain ⟨xl, hl, hlp, rl, hlk⟩ := sub_mk.mp (hkids _ hLm)
  obtain ⟨xr, hr, hrp, rr, hrk⟩ := sub_mk.mp (hkids _ hRm)
  obtain ⟨hF, hZ, n1, n2, n3⟩ := pair_facts hcnt hL hR
  have hck := cntK_le_one hcnt
  have hnd := kids_ids_nodup hck
  have hri : (kids.map Node.id)[a + 1]? = some ri := by simp [hR, Node.id]
  have hkind' : lkids.map Node.id = [] ↔ rkids.map Node.id = [] := by simp [hkind]
  have hF' : ∀ j, cntK j (kids.take a) + cntK j lkids + cntK j (rkids.take 1) + cntK j (rkids.drop 1) +
      cntK j (kids.drop (a + 2)) ≤ 1 := by
    intro j; have := hF j; have := cntK_split j 1 rkids; omega
  have hZ' : ∀ j, (j = id ∨ j = li ∨ j = ri) → cntK j (kids.take a) + cntK j lkids + cntK j (rkids.take 1) +
      cntK j (rkids.drop 1) + cntK j (kids.drop (a + 2)) = 0 := by
    intro j hj; have := hZ j hj; have := cntK_split j 1 rkids; omega
  have hchild : ∀ c, (rkids.map Node.id).head? = some c → (h.get c).isSome ∧ c ≠ id ∧ c ≠ li ∧ c ≠ ri := by
    intro c hc
    obtain ⟨hpos, c0, hc0, hce⟩ := head_cnt hc
    have hc0m : c0 ∈ rkids := List.mem_of_mem_head? hc0
    obtain ⟨s0, h0, _⟩ := (hrk c0 hc0m).root
    rw [hce] at h0
    refine ⟨by simp [h0], ?_, ?_, ?_⟩ <;> (intro e; have := hZ' c (by simp [e]); omega)
  obtain ⟨h', p', l', r', hrot, hsame, rp', rl', rr', q1, q2, q3, hg⟩ :=
    rotateLeft_spec hp hl hr rp rl rr hrp hnd hri n1 n2 n3 hkind' (by omega) (by omega : a + 1 ≤ kvs.length)
      (by simp) hroom hchild
  simp only [Nat.add_sub_cancel, List.head_cons, List.drop_succ_cons, List.drop_zero] at rp' rl' rr'
  -- the forest of unchanged / re-parented subtrees
  let S : Nat → Prop := fun j => j = id ∨ j = li ∨ j = ri ∨ (rkids.map Node.id).head? = some j
  have hfr : ∀ j, ¬ S j → h'.get j = h.get j := by
    intro j hj
    simp only [S, not_or] at hj
    rw [hg, if_neg hj.2.2.2, if_neg hj.2.2.1, if_neg hj.2.1, if_neg hj.1]
  have hGF : ∀ j, cntK j (kids.take a ++ lkids ++ rkids ++ kids.drop (a + 2)) ≤ 1 := by
    intro j; simp only [cntK_append]; exact hF j
  have hGsub : ∀ d ∈ kids.take a ++ lkids ++ rkids ++ kids.drop (a + 2), ∃ q, Sub h.get q d := by
    intro d hd
    simp only [List.mem_append] at hd
    rcases hd with ((hd | hd) | hd) | hd
    · exact ⟨_, hkids d (List.mem_of_mem_take hd)⟩
    · exact ⟨_, hlk d hd⟩
    · exact ⟨_, hrk d hd⟩
    · exact ⟨_, hkids d (List.mem_of_mem_drop hd)⟩
  have hS : ∀ j, S j → cntK j (kids.take a ++ lkids ++ rkids ++ kids.drop (a + 2)) = 0 ∨
      ∃ d ∈ kids.take a ++ lkids ++ rkids ++ kids.drop (a + 2), d.id = j := by
    intro j hj
    rcases hj with e | e | e | e
    · left; simp only [cntK_append]; exact hZ j (Or.inl e)
    · left; simp only [cntK_append]; exact hZ j (Or.inr (Or.inl e))
    · left; simp only [cntK_append]; exact hZ j (Or.inr (Or.inr e))
    · right
      obtain ⟨_, c0, hc0, hce⟩ := head_cnt e
      exact ⟨c0, by simp [List.mem_of_mem_head? hc0], hce⟩
  have notS : ∀ j, (0 < cntK j (kids.take a) ∨ 0 < cntK j lkids ∨ 0 < cntK j (rkids.drop 1) ∨
      0 < cntK j (kids.drop (a + 2))) → ¬ S j := by
    intro j hpos hSj
    rcases hSj with e | e | e | e
    · have := hZ' j (Or.inl e); omega
    · have := hZ' j (Or.inr (Or.inl e)); omega
    · have := hZ' j (Or.inr (Or.inr e)); omega
    · have := (head_cnt e).1; have := hF' j; omega
  have keep : ∀ {d : Node K V} {q : Option Nat}, d ∈ kids.take a ++ lkids ++ rkids ++ kids.drop (a + 2) →
      Sub h.get q d → ¬ S d.id → Sub h'.get q d := by
    intro d q hd hs hn
    exact forest_sub hGF hGsub S hfr hS hd (hs.root_keep (hfr _ hn))
  have hidS : ∀ j, (rkids.map Node.id).head? = some j → j ≠ id ∧ j ≠ li ∧ j ≠ ri := fun j hj => (hchild j hj).2
  refine ⟨h', hrot, hsame, ?_, ?_⟩
  · refine sub_mk.mpr ⟨p', ?_, q1.trans hpp, ?_, ?_⟩
    · rw [hg]
      have : ¬ (rkids.map Node.id).head? = some id := fun e => (hidS id e).1 rfl
      rw [if_neg this, if_neg n3, if_neg n1, if_pos rfl]
    · rw [map_id_two (L' := Node.mk li (lkvs ++ [kvs[a]]) (lkids ++ rkids.take 1)) (R' := Node.mk ri rkvs (rkids.drop 1))
        hL hR rfl rfl]; exact rp'
    · intro d hd
      simp only [List.mem_append, List.mem_cons] at hd
      rcases hd with hd | rfl | rfl | hd
      · exact keep (by simp [hd]) (hkids d (List.mem_of_mem_take hd)) (notS _ (Or.inl (cntK_pos_of_mem hd)))
      · -- the left node with the child that came over
        refine sub_mk.mpr ⟨l', ?_, q2.trans hlp, by simpa [List.map_take] using rl', ?_⟩
        · rw [hg]
          have : ¬ (rkids.map Node.id).head? = some li := fun e => (hidS li e).2.1 rfl
          rw [if_neg this, if_neg n2, if_pos rfl]
        · intro d hd
          rcases List.mem_append.mp hd with hd | hd
          · exact keep (by simp [hd]) (hlk d hd) (notS _ (Or.inr (Or.inl (cntK_pos_of_mem hd))))
          · have hdr : d ∈ rkids := List.mem_of_mem_take hd
            refine forest_sub hGF hGsub S hfr hS (by simp [hdr]) ?_
            have hhd : (rkids.map Node.id).head? = some d.id := by
              cases rkids with
              | nil => simp at hd
              | cons c0 cs => simp at hd; subst hd; simp
            rw [hg, if_pos hhd]
      · -- the right node without its first child
        refine sub_mk.mpr ⟨r', ?_, q3.trans hrp, by simpa [List.map_drop] using rr', ?_⟩
        · rw [hg]
          have : ¬ (rkids.map Node.id).head? = some ri := fun e => (hidS ri e).2.2 rfl
          rw [if_neg this, if_pos rfl]
        · intro d hd
          exact keep (by simp [List.mem_of_mem_drop hd]) (hrk d (List.mem_of_mem_drop hd))
            (notS _ (Or.inr (Or.inr (Or.inl (cntK_pos_of_mem hd)))))
      · exact keep (by simp [hd]) (hkids d (List.mem_of_mem_drop hd)) (notS _ (Or.inr (Or.inr (Or.inr (cntK_pos_of_mem hd)))))
  · intro j hj
    refine hfr j (fun hSj => ?_)
    have hdec : cnt j (Node.mk id kvs kids) = (if id = j then 1 else 0) + cntK j (kids.take a) +
        ((if li = j then 1 else 0) + cntK j lkids) + ((if ri = j then 1 else 0) + cntK j rkids) +
        cntK j (kids.drop (a + 2)) := by
      rw [cnt_mk, cntK_of_drop (drop_two hL hR) j, cnt_mk, cnt_mk]; omega
    rcases hSj with e | e | e | e
    · subst e; simp at hdec; omega
    · subst e; simp at hdec; omega
    · subst e; simp at hdec; omega
    · have := (head_cnt e).1; have := cntK_split j 1 rkids; omega

/-! ## steal from the left sibling -/

theorem last_split {lkids lk0 lk1 : List (Node K V)} (hsplit : lkids = lk0 ++ lk1) (hlen1 : lk1.length ≤ 1)
    (hnil : lk1 = [] → lkids = []) :
    (lkids.map Node.id).dropLast = lk0.map Node.id ∧ (lkids.map Node.id).getLast? = (lk1.map Node.id).head? ∧
      (lkids.map Node.id).getLast?.toList = lk1.map Node.id ∧ lk1.take 1 = lk1 := by
  cases lk1 with
  | nil =>
    have := hnil rfl
    subst this
    have : lk0 = [] := by
      cases lk0 with
      | nil => rfl
      | cons c cs => simp at hsplit
    subst this
    simp
  | cons c cs =>
    have : cs = [] := by
      cases cs with
      | nil => rfl
      | cons d ds => simp at hlen1
    subst this
    subst hsplit
    simp

theorem rotR_sim {h : Heap K V} {p : Option Nat} {id li ri a : Nat} {kvs lkvs rkvs : List (K × V)}
    {kids lkids rkids lk0 lk1 : List (Node K V)}
    (hsub : Sub h.get p (.mk id kvs kids)) (hcnt : ∀ j, cnt j (Node.mk id kvs kids) ≤ 1)
    (hlen : kids.length = kvs.length + 1) (ha : a < kvs.length) (hlne : lkvs ≠ [])
    (hL : kids[a]? = some (.mk li lkvs lkids)) (hR : kids[a + 1]? = some (.mk ri rkvs rkids))
    (hkind : lkids = [] ↔ rkids = []) (hroom : rkvs.length < keysCap)
    (hsplit : lkids = lk0 ++ lk1) (hlen1 : lk1.length ≤ 1) (hnil : lk1 = [] → lkids = []) :
    ∃ h', Heap.rotateRight h li ri = some h' ∧ Same h h' ∧
      Sub h'.get p (.mk id (kvs.take a ++ lkvs.getLast hlne :: kvs.drop (a + 1))
        (kids.take a ++ .mk li lkvs.dropLast lk0 :: .mk ri (kvs[a] :: rkvs) (lk1 ++ rkids) :: kids.drop (a + 2))) ∧
      ∀ j, cnt j (Node.mk id kvs kids) = 0 → h'.get j = h.get j := by
  obtain ⟨sp, hp, hpp, rp, hkids⟩ := sub_mk.mp hsub
  have hLm := List.mem_of_getElem? hL
  have hRm := List.mem_of_getElem? hR
  obtain ⟨xl, hl, hlp, rl, hlk⟩ := sub_mk.mp (hkids _ hLm)
  obtain ⟨xr, hr, hrp, rr, hrk⟩ := sub_mk.mp (hkids _ hRm)
  obtain ⟨hF, hZ, n1, n2, n3⟩ := pair_facts hcnt hL hR
  obtain ⟨e1, e2, e3, e4⟩ := last_split hsplit hlen1 hnil
  have hck := cntK_le_one hcnt
  have hnd := kids_ids_nodup hck
  have hli : (kids.map Node.id)[a]? = some li := by simp [hL, Node.id]
  have hkind' : lkids.map Node.id = [] ↔ rkids.map Node.id = [] := by simp [hkind]
  have hlk01 : ∀ j, cntK j lkids = cntK j lk0 + cntK j lk1 := by intro j; rw [hsplit, cntK_append]
  have hF' : ∀ j, cntK j (kids.take a) + cntK j lk0 + cntK j lk1 + cntK j rkids + cntK j (kids.drop (a + 2)) ≤ 1 := by
    intro j; have := hF j; have := hlk01 j; omega
  have hZ' : ∀ j, (j = id ∨ j = li ∨ j = ri) → cntK j (kids.take a) + cntK j lk0 + cntK j lk1 + cntK j rkids +
      cntK j (kids.drop (a + 2)) = 0 := by
    intro j hj; have := hZ j hj; have := hlk01 j; omega
  have hlk1m : ∀ d ∈ lk1, d ∈ lkids := by intro d hd; rw [hsplit]; simp [hd]
  have hlk0m : ∀ d ∈ lk0, d ∈ lkids := by intro d hd; rw [hsplit]; simp [hd]
  have hhead : ∀ j, (lk1.map Node.id).head? = some j → 0 < cntK j lk1 ∧ ∃ c0 ∈ lk1, c0.id = j := by
    intro j hj
    obtain ⟨h1, c0, hc0, hce⟩ := head_cnt hj
    rw [e4] at h1
    exact ⟨h1, c0, List.mem_of_mem_head? hc0, hce⟩
  have hchild : ∀ c, (lkids.map Node.id).getLast? = some c → (h.get c).isSome ∧ c ≠ id ∧ c ≠ li ∧ c ≠ ri := by
    intro c hc
    rw [e2] at hc
    obtain ⟨hpos, c0, hc0m, hce⟩ := hhead c hc
    obtain ⟨s0, h0, _⟩ := (hlk c0 (hlk1m c0 hc0m)).root
    rw [hce] at h0
    refine ⟨by simp [h0], ?_, ?_, ?_⟩ <;> (intro e; have := hZ' c (by simp [e]); omega)
  obtain ⟨h', p', l', r', hrot, hsame, rp', rl', rr', q1, q2, q3, hg⟩ :=
    rotateRight_spec hp hl hr rp rl rr hlp hnd hli n1 n2 n3 hkind' ha hlne hroom hchild
  rw [e1] at rl'
  rw [e3] at rr'
  simp only [e2] at hg
  let S : Nat → Prop := fun j => j = id ∨ j = li ∨ j = ri ∨ (lk1.map Node.id).head? = some j
  have hfr : ∀ j, ¬ S j → h'.get j = h.get j := by
    intro j hj
    simp only [S, not_or] at hj
    rw [hg, if_neg hj.2.2.2, if_neg hj.2.2.1, if_neg hj.2.1, if_neg hj.1]
  have hGF : ∀ j, cntK j (kids.take a ++ lkids ++ rkids ++ kids.drop (a + 2)) ≤ 1 := by
    intro j; simp only [cntK_append]; exact hF j
  have hGsub : ∀ d ∈ kids.take a ++ lkids ++ rkids ++ kids.drop (a + 2), ∃ q, Sub h.get q d := by
    intro d hd
    simp only [List.mem_append] at hd
    rcases hd with ((hd | hd) | hd) | hd
    · exact ⟨_, hkids d (List.mem_of_mem_take hd)⟩
    · exact ⟨_, hlk d hd⟩
    · exact ⟨_, hrk d hd⟩
    · exact ⟨_, hkids d (List.mem_of_mem_drop hd)⟩
  have hS : ∀ j, S j → cntK j (kids.take a ++ lkids ++ rkids ++ kids.drop (a + 2)) = 0 ∨
      ∃ d ∈ kids.take a ++ lkids ++ rkids ++ kids.drop (a + 2), d.id = j := by
    intro j hj
    rcases hj with e | e | e | e
    · left; simp only [cntK_append]; exact hZ j (Or.inl e)
    · left; simp only [cntK_append]; exact hZ j (Or.inr (Or.inl e))
    · left; simp only [cntK_append]; exact hZ j (Or.inr (Or.inr e))
    · right
      obtain ⟨_, c0, hc0, hce⟩ := hhead j e
      exact ⟨c0, by simp [hlk1m c0 hc0], hce⟩
  have notS : ∀ j, (0 < cntK j (kids.take a) ∨ 0 < cntK j lk0 ∨ 0 < cntK j rkids ∨
      0 < cntK j (kids.drop (a + 2))) → ¬ S j := by
    intro j hpos hSj
    rcases hSj with e | e | e | e
    · have := hZ' j (Or.inl e); omega
    · have := hZ' j (Or.inr (Or.inl e)); omega
    · have := hZ' j (Or.inr (Or.inr e)); omega
    · have := (hhead j e).1; have := hF' j; omega
  have keep : ∀ {d : Node K V} {q : Option Nat}, d ∈ kids.take a ++ lkids ++ rkids ++ kids.drop (a + 2) →
      Sub h.get q d → ¬ S d.id → Sub h'.get q d := by
    intro d q hd hs hn
    exact forest_sub hGF hGsub S hfr hS hd (hs.root_keep (hfr _ hn))
  have hidS : ∀ j, (lk1.map Node.id).head? = some j → j ≠ id ∧ j ≠ li ∧ j ≠ ri :=
    fun j hj => (hchild j (by rw [e2]; exact hj)).2
  refine ⟨h', hrot, hsame, ?_, ?_⟩
  · refine sub_mk.mpr ⟨p', ?_, q1.trans hpp, ?_, ?_⟩
    · rw [hg]
      have : ¬ (lk1.map Node.id).head? = some id := fun e => (hidS id e).1 rfl
      rw [if_neg this, if_neg n3, if_neg n1, if_pos rfl]
    · rw [map_id_two (L' := Node.mk li lkvs.dropLast lk0) (R' := Node.mk ri (kvs[a] :: rkvs) (lk1 ++ rkids))
        hL hR rfl rfl]; exact rp'
    · intro d hd
      simp only [List.mem_append, List.mem_cons] at hd
      rcases hd with hd | rfl | rfl | hd
      · exact keep (by simp [hd]) (hkids d (List.mem_of_mem_take hd)) (notS _ (Or.inl (cntK_pos_of_mem hd)))
      · refine sub_mk.mpr ⟨l', ?_, q2.trans hlp, rl', ?_⟩
        · rw [hg]
          have : ¬ (lk1.map Node.id).head? = some li := fun e => (hidS li e).2.1 rfl
          rw [if_neg this, if_neg n2, if_pos rfl]
        · intro d hd
          exact keep (by simp [hlk0m d hd]) (hlk d (hlk0m d hd)) (notS _ (Or.inr (Or.inl (cntK_pos_of_mem hd))))
      · refine sub_mk.mpr ⟨r', ?_, q3.trans hrp, by simpa using rr', ?_⟩
        · rw [hg]
          have : ¬ (lk1.map Node.id).head? = some ri := fun e => (hidS ri e).2.2 rfl
          rw [if_neg this, if_pos rfl]
        · intro d hd
          rcases List.mem_append.mp hd with hd | hd
          · refine forest_sub hGF hGsub S hfr hS (by simp [hlk1m d hd]) ?_
            have hhd : (lk1.map Node.id).head? = some d.id := by
              cases lk1 with
              | nil => simp at hd
              | cons c0 cs =>
                have : cs = [] := by
                  cases cs with
                  | nil => rfl
                  | cons d ds => simp at hlen1
                subst this
                simp at hd; subst hd; simp
            rw [hg, if_pos hhd]
          · exact keep (by simp [hd]) (hrk d hd) (notS _ (Or.inr (Or.inr (Or.inl (cntK_pos_of_mem hd)))))
      · exact keep (by simp [hd]) (hkids d (List.mem_of_mem_drop hd)) (notS _ (Or.inr (Or.inr (Or.inr (cntK_pos_of_mem hd)))))
  · intro j hj
    refine hfr j (fun hSj => ?_)
    have hdec : cnt j (Node.mk id kvs kids) = (if id = j then 1 else 0) + cntK j (kids.take a) +
        ((if li = j then 1 else 0) + cntK j lkids) + ((if ri = j then 1 else 0) + cntK j rkids) +
        cntK j (kids.drop (a + 2)) := by
      rw [cnt_mk, cntK_of_drop (drop_two hL hR) j, cnt_mk, cnt_mk]; omega
    rcases hSj with e | e | e | e
    · subst e; simp at hdec; omega
    · subst e; simp at hdec; omega
    · subst e; simp at hdec; omega
    · have := (hhead j e).1; have := hlk01 j; omega

end Juniper.Proofs.TreeHeapLink
