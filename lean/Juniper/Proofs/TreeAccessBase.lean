import Juniper.Proofs.TreeCursor
import Juniper.Model.BTreeAccess
/-!
# Access-level model of the B-tree (C01, concurrent clause): basic facts

* `Sub x y`: `y` is a node of the subtree `x`; with pairwise distinct identities a node is determined
  by its identity (`sub_id_inj`).
* `slotOf cmp k x`: the value slot `(node identity, index)` at which the descent of `lookup` / `ins`
  finds `k` below `x` — the one location a present-key `Put` writes and a `Get` of `k` reads.
* `searchNode_at`: what the comparison at index `i` of `searchNode`'s loop decides.
* `Rep m t`: the memory `m` holds the tree `t` (every node's `n`, live keys, live values, child
  pointers); `memOf_rep`: the heap image `memOf t` does.
-/
namespace Juniper.Proofs.TreeAccess
open Juniper.Gen.Tree Juniper.Model.BTree Juniper.Model.BTreeAccess Juniper.Proofs.Tree

variable {K V : Type} {cmp : K → K → Int}

/-! ## sub-nodes -/

inductive Sub : Node K V → Node K V → Prop where
  | refl (x : Node K V) : Sub x x
  | kid {x c y : Node K V} : c ∈ x.kids → Sub c y → Sub x y

theorem Sub.snoc {x y c : Node K V} (h : Sub x y) (hc : c ∈ y.kids) : Sub x c := by
  induction h with
  | refl x => exact .kid hc (.refl c)
  | kid hm _ ih => exact .kid hm (ih hc)

theorem Sub.id_mem {x y : Node K V} (h : Sub x y) : y.id ∈ ids x := by
  induction h with
  | refl x => obtain ⟨id, kvs, kids⟩ := x; simp [ids, Node.id]
  | @kid x c y hm _ ih =>
    obtain ⟨id, kvs, kids⟩ := x
    simp only [ids, List.mem_cons, List.mem_flatten, List.mem_map]
    exact Or.inr ⟨ids c, ⟨c, hm, rfl⟩, ih⟩

theorem Sub.inv {id : Nat} {kvs : List (K × V)} {kids : List (Node K V)} {y : Node K V}
    (h : Sub (.mk id kvs kids) y) : y = .mk id kvs kids ∨ ∃ c ∈ kids, Sub c y := by
  cases h with
  | refl => exact Or.inl rfl
  | kid hm hs => exact Or.inr ⟨_, hm, hs⟩

theorem Sub.zip {x y : Node K V} (h : Sub x y) : ∃ up, Zip x y up := by
  induction h with
  | refl x => exact ⟨[], rfl⟩
  | @kid x c y hm _ ih =>
    obtain ⟨up, hz⟩ := ih
    obtain ⟨j, hj, hc⟩ := List.getElem_of_mem hm
    exact ⟨up ++ [(x, j)], zip_snoc (by simp [hc, hj]) up y hz⟩

/-- node objects are pairwise distinct: a node of the tree is determined by its identity -/
theorem sub_id_inj {R y y' : Node K V} (hn : (ids R).Nodup) (h : Sub R y) (h' : Sub R y')
    (he : y.id = y'.id) : y = y' := by
  have hone : ∀ i, cnt i R ≤ 1 := (nodup_iff_count_le_one (ids R)).mp hn
  obtain ⟨up, hz⟩ := h.zip
  obtain ⟨up', hz'⟩ := h'.zip
  have h1 := pathTo_unique y.id R up y hz hone rfl
  have h2 := pathTo_unique y.id R up' y' hz' hone he.symm
  rw [h1] at h2
  simp only [Option.some.injEq, Prod.mk.injEq] at h2
  exact h2.2

/-! ## `searchNode`, one loop iteration at a time -/

theorem searchNode_at (cmp : K → K → Int) (k : K) (kvs : List (K × V)) :
    ∀ i, i ≤ (searchNode cmp k kvs).1 →
      (∀ h : i < kvs.length,
        (searchLess (cmp k kvs[i].1) = true → searchNode cmp k kvs = (i, false)) ∧
        (searchLess (cmp k kvs[i].1) = false → searchEq (cmp k kvs[i].1) = true → searchNode cmp k kvs = (i, true)) ∧
        (searchLess (cmp k kvs[i].1) = false → searchEq (cmp k kvs[i].1) = false →
          i + 1 ≤ (searchNode cmp k kvs).1)) ∧
      (kvs.length ≤ i → searchNode cmp k kvs = (kvs.length, false)) := by
  induction kvs with
  | nil => intro i _; exact ⟨fun h => absurd h (by simp), fun _ => by simp [searchNode]⟩
  | cons kv rest ih =>
    obtain ⟨k', v'⟩ := kv
    intro i hi
    cases i with
    | zero =>
      refine ⟨fun _ => ?_, fun h => absurd h (by simp)⟩
      simp only [List.getElem_cons_zero, searchNode]
      refine ⟨fun h1 => by simp [h1], fun h1 h2 => by simp [h1, h2], fun h1 h2 => by simp [h1, h2]⟩
    | succ i =>
      by_cases h1 : searchLess (cmp k k') = true
      · simp [searchNode, h1] at hi
      · by_cases h2 : searchEq (cmp k k') = true
        · simp [searchNode, h1, h2] at hi
        · have hs : searchNode cmp k ((k', v') :: rest) = ((searchNode cmp k rest).1 + 1, (searchNode cmp k rest).2) := by
            simp [searchNode, h1, h2]
          rw [hs] at hi ⊢
          have hi' : i ≤ (searchNode cmp k rest).1 := by simpa using hi
          obtain ⟨a, b⟩ := ih i hi'
          refine ⟨fun h => ?_, fun h => ?_⟩
          · have h' : i < rest.length := by simpa using h
            obtain ⟨a1, a2, a3⟩ := a h'
            simp only [List.getElem_cons_succ]
            refine ⟨fun e => ?_, fun e1 e2 => ?_, fun e1 e2 => ?_⟩
            · have := a1 e; simp [this]
            · have := a2 e1 e2; simp [this]
            · have := a3 e1 e2; simpa using this
          · have h' : rest.length ≤ i := by simpa using h
            have := b h'
            simp [this]

theorem searchNode_found_key {k : K} {kvs : List (K × V)} {i : Nat} (h : searchNode cmp k kvs = (i, true)) :
    ∃ hi : i < kvs.length, cmp k kvs[i].1 = 0 := by
  have hlt := searchNode_found_lt cmp k kvs (by rw [h])
  rw [h] at hlt
  obtain ⟨_, h2, _⟩ := searchNode_spec cmp k kvs
  obtain ⟨kv, hkv, he⟩ := h2 (by rw [h])
  rw [h] at hkv
  simp only at hlt hkv
  refine ⟨hlt, ?_⟩
  rw [List.getElem?_eq_getElem hlt] at hkv
  simp only [Option.some.injEq] at hkv
  rw [hkv]; exact he

/-! ## the slot the descent finds -/

/-- where `lookup` / `ins` find `k` below `x`: `(identity of the node, index in the node)` -/
def slotOf (cmp : K → K → Int) (k : K) (x : Node K V) : Option (Nat × Nat) :=
  match x with
  | .mk id kvs kids =>
    match searchNode cmp k kvs with
    | (i, true) => some (id, i)
    | (i, false) =>
      match _h : kids[i]? with
      | none => none
      | some c => slotOf cmp k c
termination_by sizeOf x
decreasing_by
  have := List.sizeOf_lt_of_mem (List.mem_of_getElem? _h)
  simp only [Node.mk.sizeOf_spec]
  omega

theorem slotOf_found {k : K} {id : Nat} {kvs : List (K × V)} {kids : List (Node K V)} {i : Nat}
    (h : searchNode cmp k kvs = (i, true)) : slotOf cmp k (.mk id kvs kids) = some (id, i) := by
  rw [slotOf]; simp only [h]

theorem slotOf_child {k : K} {id : Nat} {kvs : List (K × V)} {kids : List (Node K V)} {i : Nat} {c : Node K V}
    (h : searchNode cmp k kvs = (i, false)) (hc : kids[i]? = some c) :
    slotOf cmp k (.mk id kvs kids) = slotOf cmp k c := by
  rw [slotOf]; simp only [h]
  split
  · rename_i h0; rw [hc] at h0; cases h0
  · rename_i c' h0; rw [hc] at h0; cases h0; rfl

theorem slotOf_nochild {k : K} {id : Nat} {kvs : List (K × V)} {kids : List (Node K V)} {i : Nat}
    (h : searchNode cmp k kvs = (i, false)) (hc : kids[i]? = none) :
    slotOf cmp k (.mk id kvs kids) = none := by
  rw [slotOf]; simp only [h]
  split
  · rfl
  · rename_i c' h0; rw [hc] at h0; cases h0

theorem lookup_found {k : K} {id : Nat} {kvs : List (K × V)} {kids : List (Node K V)} {i : Nat}
    (h : searchNode cmp k kvs = (i, true)) : lookup cmp k (.mk id kvs kids) = kvs[i]? := by
  rw [lookup]; simp only [h]

theorem lookup_child {k : K} {id : Nat} {kvs : List (K × V)} {kids : List (Node K V)} {i : Nat} {c : Node K V}
    (h : searchNode cmp k kvs = (i, false)) (hc : kids[i]? = some c) :
    lookup cmp k (.mk id kvs kids) = lookup cmp k c := by
  rw [lookup]; simp only [h]
  split
  · rename_i h0; rw [hc] at h0; cases h0
  · rename_i c' h0; rw [hc] at h0; cases h0; rfl

theorem lookup_nochild {k : K} {id : Nat} {kvs : List (K × V)} {kids : List (Node K V)} {i : Nat}
    (h : searchNode cmp k kvs = (i, false)) (hc : kids[i]? = none) :
    lookup cmp k (.mk id kvs kids) = none := by
  rw [lookup]; simp only [h]
  split
  · rfl
  · rename_i c' h0; rw [hc] at h0; cases h0

/-- the slot found is a live slot of a node of the subtree, holding an equivalent key; `lookup`
returns the entry stored there -/
theorem slotOf_spec (cmp : K → K → Int) (k : K) (x : Node K V) :
    ∀ a i, slotOf cmp k x = some (a, i) →
      ∃ y, Sub x y ∧ y.id = a ∧ searchNode cmp k y.kvs = (i, true) ∧ lookup cmp k x = y.kvs[i]? := by
  fun_induction slotOf cmp k x with
  | case1 id kvs kids i hs =>
    intro a j h
    simp only [Option.some.injEq, Prod.mk.injEq] at h
    obtain ⟨rfl, rfl⟩ := h
    exact ⟨_, .refl _, rfl, hs, lookup_found hs⟩
  | case2 id kvs kids i hs hnone => intro a j h; cases h
  | case3 id kvs kids i hs c hcc ih =>
    intro a j h
    obtain ⟨y, hsub, hid, hsn, hl⟩ := ih a j h
    exact ⟨y, .kid (List.mem_of_getElem? hcc) hsub, hid, hsn, by rw [lookup_child hs hcc, hl]⟩

theorem slotOf_isSome (cmp : K → K → Int) (k : K) (x : Node K V) :
    (slotOf cmp k x).isSome = (lookup cmp k x).isSome := by
  fun_induction slotOf cmp k x with
  | case1 id kvs kids i hs =>
    obtain ⟨hi, _⟩ := searchNode_found_key hs
    rw [lookup_found hs, List.getElem?_eq_getElem hi]; rfl
  | case2 id kvs kids i hs hnone => rw [lookup_nochild hs hnone]; rfl
  | case3 id kvs kids i hs c hcc ih => rw [lookup_child hs hcc, ih]

/-! ## memory holding a tree -/

/-- the structural fields of one node object: `n`, the live keys, the child pointers -/
def NodeS (m : Mem K V) (y : Node K V) : Prop :=
  m.n y.id = y.kvs.length ∧
  (∀ i (h : i < y.kvs.length), m.key y.id i = some y.kvs[i].1) ∧
  (∀ i, i ≤ y.kvs.length → m.child y.id i = (y.kids[i]?).map Node.id)

/-- the live value slots of one node object -/
def NodeV (m : Mem K V) (y : Node K V) : Prop :=
  ∀ i (h : i < y.kvs.length), m.val y.id i = some y.kvs[i].2

/-- the memory `m` holds the tree `t` -/
def Rep (m : Mem K V) (t : Tree K V) : Prop :=
  m.root = some t.root.id ∧ m.size = t.size ∧ m.gen = t.gen ∧ ∀ y, Sub t.root y → NodeS m y ∧ NodeV m y

/-- two memories agree on every field of the node object `a` -/
def SameAt (m m' : Mem K V) (a : Nat) : Prop :=
  m'.n a = m.n a ∧ (∀ i, m'.key a i = m.key a i) ∧ (∀ i, m'.val a i = m.val a i) ∧ (∀ i, m'.child a i = m.child a i)

theorem NodeS.congr {m m' : Mem K V} {y : Node K V} (h : SameAt m m' y.id) (hs : NodeS m y) : NodeS m' y := by
  obtain ⟨a, b, _, d⟩ := h
  exact ⟨by rw [a]; exact hs.1, fun i hi => by rw [b]; exact hs.2.1 i hi, fun i hi => by rw [d]; exact hs.2.2 i hi⟩

theorem NodeV.congr {m m' : Mem K V} {y : Node K V} (h : SameAt m m' y.id) (hs : NodeV m y) : NodeV m' y := by
  obtain ⟨_, _, c, _⟩ := h
  exact fun i hi => by rw [c]; exact hs i hi

theorem store_frame :
    (∀ (x : Node K V) (m : Mem K V), ∀ a, a ∉ ids x → SameAt m (storeNode x m) a) ∧
    (∀ (kids : List (Node K V)) (m : Mem K V), ∀ a, a ∉ (kids.map ids).flatten → SameAt m (storeKids kids m) a) := by
  constructor
  · intro x m
    apply storeNode.induct
      (motive_1 := fun x m => ∀ a, a ∉ ids x → SameAt m (storeNode x m) a)
      (motive_2 := fun kids m => ∀ a, a ∉ (kids.map ids).flatten → SameAt m (storeKids kids m) a)
    · intro id kvs kids m ih a ha
      simp only [ids, List.mem_cons, not_or] at ha
      obtain ⟨hne, hk⟩ := ha
      have := ih a hk
      simp only [storeNode]
      obtain ⟨h1, h2, h3, h4⟩ := this
      refine ⟨?_, ?_, ?_, ?_⟩
      · rw [h1]; simp [hne]
      · intro i; rw [h2]; simp [hne]
      · intro i; rw [h3]; simp [hne]
      · intro i; rw [h4]; simp [hne]
    · intro m a _; simp only [storeKids]; exact ⟨rfl, fun _ => rfl, fun _ => rfl, fun _ => rfl⟩
    · intro c cs m ih1 ih2 a ha
      simp only [List.map_cons, List.flatten_cons, List.mem_append, not_or] at ha
      simp only [storeKids]
      obtain ⟨h1, h2, h3, h4⟩ := ih1 a ha.1
      obtain ⟨g1, g2, g3, g4⟩ := ih2 a ha.2
      exact ⟨by rw [g1, h1], fun i => by rw [g2, h2], fun i => by rw [g3, h3], fun i => by rw [g4, h4]⟩
  · intro kids m
    apply storeKids.induct
      (motive_1 := fun x m => ∀ a, a ∉ ids x → SameAt m (storeNode x m) a)
      (motive_2 := fun kids m => ∀ a, a ∉ (kids.map ids).flatten → SameAt m (storeKids kids m) a)
    · intro id kvs kids m ih a ha
      simp only [ids, List.mem_cons, not_or] at ha
      obtain ⟨hne, hk⟩ := ha
      have := ih a hk
      simp only [storeNode]
      obtain ⟨h1, h2, h3, h4⟩ := this
      refine ⟨?_, ?_, ?_, ?_⟩
      · rw [h1]; simp [hne]
      · intro i; rw [h2]; simp [hne]
      · intro i; rw [h3]; simp [hne]
      · intro i; rw [h4]; simp [hne]
    · intro m a _; simp only [storeKids]; exact ⟨rfl, fun _ => rfl, fun _ => rfl, fun _ => rfl⟩
    · intro c cs m ih1 ih2 a ha
      simp only [List.map_cons, List.flatten_cons, List.mem_append, not_or] at ha
      simp only [storeKids]
      obtain ⟨h1, h2, h3, h4⟩ := ih1 a ha.1
      obtain ⟨g1, g2, g3, g4⟩ := ih2 a ha.2
      exact ⟨by rw [g1, h1], fun i => by rw [g2, h2], fun i => by rw [g3, h3], fun i => by rw [g4, h4]⟩

theorem store_rep (x : Node K V) (m : Mem K V) :
    (ids x).Nodup → ∀ y, Sub x y → NodeS (storeNode x m) y ∧ NodeV (storeNode x m) y := by
  apply storeNode.induct
    (motive_1 := fun x m => (ids x).Nodup → ∀ y, Sub x y → NodeS (storeNode x m) y ∧ NodeV (storeNode x m) y)
    (motive_2 := fun kids m => ((kids.map ids).flatten).Nodup → ∀ c ∈ kids, ∀ y, Sub c y →
      NodeS (storeKids kids m) y ∧ NodeV (storeKids kids m) y)
  · intro id kvs kids m ih hn y hy
    simp only [ids, List.nodup_cons] at hn
    obtain ⟨hnot, hk⟩ := hn
    simp only [storeNode]
    rcases hy.inv with rfl | ⟨c, hc, hs⟩
    · have hf := store_frame.2 kids
        { m with
          n := fun b => if b = id then (kvs.length : Int) else m.n b
          key := fun b j => if b = id then (kvs[j]?).map (·.1) else m.key b j
          val := fun b j => if b = id then (kvs[j]?).map (·.2) else m.val b j
          child := fun b j => if b = id then (kids[j]?).map Node.id else m.child b j
          parent := fun b => if kids.any (fun c => c.id == b) then some id else m.parent b } id hnot
      refine ⟨NodeS.congr (y := .mk id kvs kids) hf ?_, NodeV.congr (y := .mk id kvs kids) hf ?_⟩
      · refine ⟨by simp [Node.id, Node.kvs], fun i hi => ?_, fun i _ => by simp [Node.id, Node.kids]⟩
        simp only [Node.kvs] at hi
        simp [Node.id, Node.kvs, hi]
      · intro i hi
        simp only [Node.kvs] at hi
        simp [Node.id, Node.kvs, hi]
    · exact ih hk c hc y hs
  · intro m _ c hc; cases hc
  · intro c cs m ih1 ih2 hn c' hc' y hy
    simp only [List.map_cons, List.flatten_cons, List.nodup_append] at hn
    obtain ⟨hn1, hn2, hdis⟩ := hn
    simp only [storeKids]
    rcases List.mem_cons.mp hc' with rfl | hmem
    · have hid := hy.id_mem
      have hnot : y.id ∉ (cs.map ids).flatten := fun h => hdis _ hid _ h rfl
      have hf := store_frame.2 cs (storeNode c' m) y.id hnot
      obtain ⟨a, b⟩ := ih1 hn1 y hy
      exact ⟨NodeS.congr hf a, NodeV.congr hf b⟩
    · exact ih2 hn2 c' hmem y hy

/-- the heap image of a tree with pairwise distinct node identities holds that tree -/
theorem memOf_rep (t : Tree K V) (hn : (ids t.root).Nodup) : Rep (memOf t) t := by
  have hroot : ∀ (x : Node K V) (m : Mem K V), (storeNode x m).root = m.root ∧ (storeNode x m).size = m.size ∧
      (storeNode x m).gen = m.gen := by
    intro x m
    apply storeNode.induct
      (motive_1 := fun x m => (storeNode x m).root = m.root ∧ (storeNode x m).size = m.size ∧ (storeNode x m).gen = m.gen)
      (motive_2 := fun kids m => (storeKids kids m).root = m.root ∧ (storeKids kids m).size = m.size ∧
        (storeKids kids m).gen = m.gen)
    · intro id kvs kids m ih; simp only [storeNode]; exact ih
    · intro m; simp [storeKids]
    · intro c cs m ih1 ih2
      simp only [storeKids]
      exact ⟨ih2.1.trans ih1.1, ih2.2.1.trans ih1.2.1, ih2.2.2.trans ih1.2.2⟩
  obtain ⟨h1, h2, h3⟩ := hroot t.root { (Mem.empty : Mem K V) with root := some t.root.id, size := t.size, gen := t.gen }
  exact ⟨h1, h2, h3, store_rep t.root _ hn⟩

end Juniper.Proofs.TreeAccess
