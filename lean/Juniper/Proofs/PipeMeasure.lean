import Juniper.Proofs.PipeQueue
/-! Global progress measure of the `stream.Pipe` LTS: the per-call stages of `Proofs/PipeLive.lean`
(`stage`, `rstage`) summed over all sender goroutines and the receiver. Every internal step (an arm of a
`select` of some pending call, a rendez-vous, a call parking) strictly decreases it, in every state; so no
run of internal steps is longer than `2·senders + 3`, and a quiescent state is one in which every pending
call is parked and waits for an action of the environment (a call of the peer, a `Close`, a context
expiry). -/
set_option linter.unusedSimpArgs false
set_option linter.unusedVariables false
namespace Juniper.Proofs.Pipe
open Juniper.Facts Juniper.Gen.Pipe Juniper.Model.Pipe

def sumStage : List Sender → Nat
  | [] => 0
  | sd :: l => stage sd.pc + sumStage l

/-- own steps all pending calls have in front of them at most -/
def mu (st : State) : Nat := sumStage st.senders + rstage st.rpc

theorem sumStage_set {l : List Sender} {i : Nat} {sd sd' : Sender} (h : l[i]? = some sd) :
    sumStage (l.set i sd') + stage sd.pc = sumStage l + stage sd'.pc := by
  induction l generalizing i with
  | nil => simp at h
  | cons x xs ih =>
    cases i with
    | zero => simp at h; subst h; simp [List.set, sumStage]; omega
    | succ i =>
      simp at h
      have := ih h
      simp [List.set, sumStage]; omega

theorem stage_le (pc : SPc) : stage pc ≤ 2 := by
  cases pc with
  | send m p => cases p <;> simp [stage]
  | _ => simp [stage]
theorem rstage_le (pc : RPc) : rstage pc ≤ 3 := by
  cases pc with
  | next p => cases p <;> simp [rstage]
  | _ => simp [rstage]

theorem sumStage_le (l : List Sender) : sumStage l ≤ 2 * l.length := by
  induction l with
  | nil => simp [sumStage]
  | cons x xs ih => have := stage_le x.pc; simp only [sumStage, List.length_cons]; omega

theorem mu_le (st : State) : mu st ≤ 2 * st.senders.length + 3 := by
  have := sumStage_le st.senders
  have := rstage_le st.rpc
  unfold mu; omega

theorem rstage_pos_of_table {pc : RPc} {a : Arm} (h : (rtableOf pc).contains a = true) : 0 < rstage pc := by
  cases pc with
  | next p => cases p <;> simp [rstage]
  | idle => simp [rtableOf] at h
  | drain => simp [rstage]

/-- **Every internal step strictly decreases `mu`.** -/
theorem mu_decreases {st st' : State} {l : Label} (h : step st l = some st') (hl : l.internal = true) :
    mu st' < mu st := by
  cases l with
  | sender i a =>
    obtain ⟨sd, m, hsd, hm, _, hcase⟩ := step_sender h
    have hlt := stage_after_lt (pc := sd.pc) a hm
    have hset := sumStage_set (sd' := { sd with pc := sd.pc.after a }) hsd
    rcases hcase with ⟨rfl, _⟩ | ⟨ch, rfl, _, rfl⟩
    · simp only [mu, State.setSender] at *; omega
    · simp only [mu, State.setSender, commit] at *; omega
  | handoff i =>
    obtain ⟨sd, m, hsd, hm, hch, rfl⟩ := step_handoff h
    have hlt := stage_after_lt (pc := sd.pc) (.send chData) hm
    have hset := sumStage_set (sd' := { sd with pc := sd.pc.after (.send chData) }) hsd
    have hacc : 0 < rstage st.rpc := by
      obtain ⟨_, _, hacc⟩ := canHandoff_facts hch
      simp only [accepts] at hacc
      exact rstage_pos_of_table hacc
    simp only [mu, State.setSender, commit, rstage] at *; omega
  | park i =>
    obtain ⟨sd, m, hsd, hpc, _, rfl⟩ := step_park h
    have hset := sumStage_set (sd' := { sd with pc := .send m true }) hsd
    simp only [mu, State.setSender, hpc, stage] at *; omega
  | parkRecv =>
    obtain ⟨hpc, _, rfl⟩ := step_parkRecv h
    simp only [mu, hpc, rstage]; omega
  | recv a =>
    obtain ⟨htab, hcase⟩ := step_recv h
    have hpos := rstage_pos_of_table htab
    rcases hcase with ⟨m, rest, _, _, rfl⟩ | ⟨_, _, hpc, _, rfl⟩ | ⟨_, _, _, rfl⟩ | ⟨ch, _, _, _, rfl⟩ | ⟨_, hpc, _, rfl⟩
    · simp only [mu, rstage] at *; omega
    · have : 2 ≤ rstage st.rpc := by
        cases hr : st.rpc with
        | next p => exact rstage_next_ge p
        | idle => simp [hr, RPc.isNext] at hpc
        | drain => simp [hr, RPc.isNext] at hpc
      simp only [mu, rstage] at *; omega
    · simp only [mu, reportEnd, rstage] at *; omega
    · simp only [mu, rstage] at *; omega
    · simp only [mu, reportEnd, hpc, rstage] at *; omega
  | _ => simp [Label.internal] at hl

theorem run_mu {ls : List Label} : ∀ {st st' : State}, run st ls = some st' →
    (∀ l ∈ ls, l.internal = true) → ls.length + mu st' ≤ mu st := by
  induction ls with
  | nil => intro st st' h _; simp [run] at h; subst h; simp
  | cons l ls ih =>
    intro st st' h hl
    simp only [run] at h
    split at h
    · simp at h
    · next s1 hs1 =>
      have h1 := mu_decreases hs1 (hl l (by simp))
      have h2 := ih h (fun x hx => hl x (by simp [hx]))
      simp only [List.length_cons]; omega

/-- no internal step is enabled -/
def Quiescent (st : State) : Prop := ∀ l, l.internal = true → step st l = none

structure QuiescentFacts : Prop where
  send : SendFacts
  sendData : sendArms.contains (.send chData) = true
  try_ : TryFacts
  next : NextFacts
  drains : nextDrains = true

/-- **In a quiescent state every pending call is parked and waits for the environment.** No `TrySend` is
pending; a pending `Send` is parked, has a live context, neither side is closed, the buffer is full and
no rendez-vous is possible; the receiver is not in the drain, and a pending `Next` is parked, has a live
context, an empty buffer, an open sender and no sender to take a hand-off from. -/
theorem quiescent_waits {st : State} (hF : QuiescentFacts) (hq : Quiescent st) :
    (∀ (i : Nat) (sd : Sender) (m : Msg), st.senders[i]? = some sd → sd.pc ≠ .try1 m ∧ sd.pc ≠ .try2 m) ∧
    (∀ (i : Nat) (sd : Sender) (m : Msg) (p : Bool), st.senders[i]? = some sd → sd.pc = .send m p →
      p = true ∧ st.streamDone = false ∧ st.senderDone = false ∧ sd.ctx = false ∧ st.cap ≤ st.buf.length ∧
      canHandoff st sd = false) ∧
    st.rpc ≠ .drain ∧
    (∀ p : Bool, st.rpc = .next p → p = true ∧ st.buf = [] ∧ st.senderDone = false ∧ st.rctx = false ∧
      ∀ sd ∈ st.senders, canHandoff st sd = false) := by
  have none_of : ∀ {l st'}, l.internal = true → step st l = some st' → False := by
    intro l st' hl hs; rw [hq l hl] at hs; cases hs
  have own_internal : ∀ {i l}, ownLabel i l → l.internal = true := by
    intro i l hl
    rcases hl with rfl | rfl | ⟨a, rfl⟩ <;> rfl
  refine ⟨?_, ?_, ?_, ?_⟩
  · intro i sd m hsd
    constructor <;> intro hpc
    · obtain ⟨l, st', hl, hs⟩ := trySend_enabled hF.try_ hsd (Or.inl hpc)
      exact none_of (own_internal hl) hs
    · obtain ⟨l, st', hl, hs⟩ := trySend_enabled hF.try_ hsd (Or.inr hpc)
      exact none_of (own_internal hl) hs
  · intro i sd m p hsd hpc
    have hm : sd.pc.msg? = some m := by rw [hpc]; rfl
    have hp : p = true := by
      cases p with
      | true => rfl
      | false =>
        obtain ⟨l, st', hl, hs⟩ := send_poll_enabled hsd hpc
        exact (none_of (own_internal hl) hs).elim
    have hcond : ¬ SendCond st sd := by
      intro hc
      obtain ⟨a, st', _, hs, _⟩ := send_enabled hF.send hsd hpc hc
      exact none_of rfl hs
    have h1 : st.streamDone = false := by cases h : st.streamDone <;> simp_all [SendCond]
    have h2 : st.senderDone = false := by cases h : st.senderDone <;> simp_all [SendCond]
    have h3 : sd.ctx = false := by cases h : sd.ctx <;> simp_all [SendCond]
    refine ⟨hp, h1, h2, h3, ?_, ?_⟩
    · by_cases hlt : st.buf.length < st.cap
      · exfalso
        have htab : (tableOf sd.pc).contains (.send chData) = true := by rw [hpc]; exact hF.sendData
        have hr : sReady st sd (.send chData) = true := by simp [sReady, hlt]
        exact none_of rfl (step_sender_send hsd hm htab hr)
      · omega
    · cases hh : canHandoff st sd with
      | false => rfl
      | true => exact (none_of rfl (step_handoff_intro hsd hm hh)).elim
  · intro hpc
    obtain ⟨l, st', hl, hs, _⟩ := drain_enabled hF.next hF.drains hpc
    cases l <;> simp [isRecvLabel] at hl <;> exact none_of rfl hs
  · intro p hpc
    have hp : p = true := by
      cases p with
      | true => rfl
      | false =>
        obtain ⟨l, st', hl, hs, _⟩ := next_poll_enabled hpc
        cases l <;> simp [isRecvLabel] at hl <;> exact (none_of rfl hs).elim
    have hcond : ¬ NextCond st := by
      intro hc
      obtain ⟨l, st', hl, hs, _⟩ := next_enabled hF.next hpc hc
      cases l <;> simp [isRecvLabel] at hl <;> exact none_of rfl hs
    refine ⟨hp, ?_, ?_, ?_, ?_⟩
    · cases hb : st.buf with
      | nil => rfl
      | cons m r => exact (hcond (Or.inl (by simp [hb]))).elim
    · cases h : st.senderDone with
      | false => rfl
      | true => exact (hcond (Or.inr (Or.inr (Or.inl h)))).elim
    · cases h : st.rctx with
      | false => rfl
      | true => exact (hcond (Or.inr (Or.inr (Or.inr h)))).elim
    · intro sd hmem
      cases h : canHandoff st sd with
      | false => rfl
      | true => exact (hcond (Or.inr (Or.inl ⟨sd, hmem, h⟩))).elim

/-- **No lost rendez-vous.** In a reachable quiescent state of an unbuffered pipe a `Send` and a `Next`
are not both pending: each would be parked (`quiescent_waits`), and the wait-queue discipline (`QInv`)
excludes that. -/
theorem quiescent_unbuffered_not_both {n : Nat} {st : State} (hF : QuiescentFacts)
    (hr : Reach (init n 0) st) (hcap : st.cap = 0) (hq : Quiescent st)
    {i : Nat} {sd : Sender} {m : Msg} {p q : Bool}
    (hsd : st.senders[i]? = some sd) (hpc : sd.pc = .send m p) (hn : st.rpc = .next q) : False := by
  obtain ⟨_, hS, _, hN⟩ := quiescent_waits hF hq
  obtain ⟨hp, _⟩ := hS i sd m p hsd hpc
  obtain ⟨hq', _⟩ := hN q hn
  subst hp; subst hq'
  have := qinv_reach ⟨hF.sendData, hF.next.dataArm⟩ hr hcap (by simp [hn, RPc.parked]) sd (List.mem_of_getElem? hsd)
  simp [hpc, SPc.parked] at this

end Juniper.Proofs.Pipe
