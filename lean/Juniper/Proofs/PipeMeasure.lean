import Juniper.Proofs.PipeLive
/-! Global progress measure of the `stream.Pipe` LTS: the per-call stages of `Proofs/PipeLive.lean`
(`stage`, `rstage`) summed over all sender goroutines and the receiver. Every internal step (an arm of a
`select` of some pending call, a rendez-vous) strictly decreases it, in every state; so no run of internal
steps is longer than `2·senders + 2`, and a quiescent state is one in which every pending call waits for
an action of the environment (a call of the peer, a `Close`, a context expiry). -/
set_option linter.unusedSimpArgs false
set_option linter.unusedVariables false
namespace Juniper.Proofs.Pipe
open Juniper.Facts Juniper.Gen.Pipe Juniper.Model.Pipe

def sumStage : List Sender → Nat
  | [] => 0
  | sd :: l => stage sd.pc + sumStage l

/-- remaining `select` statements of all pending calls -/
def mu (st : State) : Nat := sumStage st.senders + rstage st.rpc

theorem sumStage_set {l : List Sender} {i : Nat} {sd sd' : Sender} (h : l[i]? = some sd) :
    sumStage (l.set i sd') + stage sd.pc = sumStage l + stage sd'.pc := by
  induction l generalizing i with
  | nil => simp at h
  | cons x xs ih =>
    cases i with
    | zero => simp at h; subst h; simp [List.set, sumStage]; omega
    | succ i =>
      simp at h
      have := ih h
      simp [List.set, sumStage]; omega

theorem stage_le (pc : SPc) : stage pc ≤ 2 := by cases pc <;> simp [stage]
theorem rstage_le (pc : RPc) : rstage pc ≤ 2 := by cases pc <;> simp [rstage]

theorem sumStage_le (l : List Sender) : sumStage l ≤ 2 * l.length := by
  induction l with
  | nil => simp [sumStage]
  | cons x xs ih => have := stage_le x.pc; simp only [sumStage, List.length_cons]; omega

theorem mu_le (st : State) : mu st ≤ 2 * st.senders.length + 2 := by
  have := sumStage_le st.senders
  have := rstage_le st.rpc
  unfold mu; omega

theorem rstage_pos_of_table {pc : RPc} {a : Arm} (h : (rtableOf pc).contains a = true) : 0 < rstage pc := by
  cases pc <;> simp [rtableOf, rstage] at h ⊢

/-- **Every internal step strictly decreases `mu`.** -/
theorem mu_decreases {st st' : State} {l : Label} (h : step st l = some st') (hl : l.internal = true) :
    mu st' < mu st := by
  cases l with
  | sender i a =>
    obtain ⟨sd, m, hsd, hm, _, hcase⟩ := step_sender h
    have hlt := stage_after_lt (pc := sd.pc) a hm
    have hset := sumStage_set (sd' := { sd with pc := sd.pc.after a }) hsd
    rcases hcase with ⟨rfl, _⟩ | ⟨ch, rfl, _, rfl⟩
    · simp only [mu, State.setSender] at *; omega
    · simp only [mu, State.setSender, commit] at *; omega
  | handoff i =>
    obtain ⟨sd, m, hsd, hm, _, rfl⟩ := step_handoff h
    have hlt := stage_after_lt (pc := sd.pc) (.send chData) hm
    have hset := sumStage_set (sd' := { sd with pc := sd.pc.after (.send chData) }) hsd
    simp only [mu, State.setSender, commit, rstage] at *; omega
  | recv a =>
    obtain ⟨htab, hcase⟩ := step_recv h
    have hpos := rstage_pos_of_table htab
    rcases hcase with ⟨m, rest, _, _, rfl⟩ | ⟨_, _, hpc, _, rfl⟩ | ⟨_, _, _, rfl⟩ | ⟨ch, _, _, _, rfl⟩ | ⟨_, hpc, _, rfl⟩
    · simp only [mu, rstage] at *; omega
    · simp only [mu, hpc, rstage] at *; omega
    · simp only [mu, reportEnd, rstage] at *; omega
    · simp only [mu, rstage] at *; omega
    · simp only [mu, reportEnd, hpc, rstage] at *; omega
  | _ => simp [Label.internal] at hl

theorem run_mu {ls : List Label} : ∀ {st st' : State}, run st ls = some st' →
    (∀ l ∈ ls, l.internal = true) → ls.length + mu st' ≤ mu st := by
  induction ls with
  | nil => intro st st' h _; simp [run] at h; subst h; simp
  | cons l ls ih =>
    intro st st' h hl
    simp only [run] at h
    split at h
    · simp at h
    · next s1 hs1 =>
      have h1 := mu_decreases hs1 (hl l (by simp))
      have h2 := ih h (fun x hx => hl x (by simp [hx]))
      simp only [List.length_cons]; omega

/-- no internal step is enabled -/
def Quiescent (st : State) : Prop := ∀ l, l.internal = true → step st l = none

structure QuiescentFacts : Prop where
  send : SendFacts
  sendData : sendArms.contains (.send chData) = true
  try_ : TryFacts
  next : NextFacts
  drains : nextDrains = true

/-- **In a quiescent state every pending call waits for the environment.** No `TrySend` is pending; a
pending `Send` has a live context, neither side is closed, the buffer is full and no rendez-vous is
possible; the receiver is not in the drain, and a pending `Next` has a live context, an empty buffer, an
open sender and no sender to take a hand-off from. -/
theorem quiescent_waits {st : State} (hF : QuiescentFacts) (hq : Quiescent st) :
    (∀ (i : Nat) (sd : Sender) (m : Msg), st.senders[i]? = some sd → sd.pc ≠ .try1 m ∧ sd.pc ≠ .try2 m) ∧
    (∀ (i : Nat) (sd : Sender) (m : Msg), st.senders[i]? = some sd → sd.pc = .send m →
      st.streamDone = false ∧ st.senderDone = false ∧ sd.ctx = false ∧ st.cap ≤ st.buf.length ∧
      canHandoff st sd = false) ∧
    st.rpc ≠ .drain ∧
    (st.rpc = .next → st.buf = [] ∧ st.senderDone = false ∧ st.rctx = false ∧
      ∀ sd ∈ st.senders, canHandoff st sd = false) := by
  have none_of : ∀ {l st'}, l.internal = true → step st l = some st' → False := by
    intro l st' hl hs; rw [hq l hl] at hs; cases hs
  refine ⟨?_, ?_, ?_, ?_⟩
  · intro i sd m hsd
    constructor <;> intro hpc
    · obtain ⟨l, st', hl, hs⟩ := trySend_enabled hF.try_ hsd (Or.inl hpc)
      rcases hl with rfl | ⟨a, rfl⟩ <;> exact none_of rfl hs
    · obtain ⟨l, st', hl, hs⟩ := trySend_enabled hF.try_ hsd (Or.inr hpc)
      rcases hl with rfl | ⟨a, rfl⟩ <;> exact none_of rfl hs
  · intro i sd m hsd hpc
    have hm : sd.pc.msg? = some m := by rw [hpc]; rfl
    have hcond : ¬ SendCond st sd := by
      intro hc
      obtain ⟨a, st', hs⟩ := send_enabled hF.send hsd hpc hc
      exact none_of rfl hs
    have h1 : st.streamDone = false := by cases h : st.streamDone <;> simp_all [SendCond]
    have h2 : st.senderDone = false := by cases h : st.senderDone <;> simp_all [SendCond]
    have h3 : sd.ctx = false := by cases h : sd.ctx <;> simp_all [SendCond]
    refine ⟨h1, h2, h3, ?_, ?_⟩
    · by_cases hlt : st.buf.length < st.cap
      · exfalso
        have htab : (tableOf sd.pc).contains (.send chData) = true := by rw [hpc]; exact hF.sendData
        have hr : sReady st sd (.send chData) = true := by simp [sReady, hlt]
        exact none_of rfl (step_sender_send hsd hm htab hr)
      · omega
    · cases hh : canHandoff st sd with
      | false => rfl
      | true => exact (none_of rfl (step_handoff_intro hsd hm hh)).elim
  · intro hpc
    obtain ⟨l, st', hl, hs, _⟩ := drain_enabled hF.next hF.drains hpc
    cases l <;> simp [isRecvLabel] at hl <;> exact none_of rfl hs
  · intro hpc
    have hcond : ¬ NextCond st := by
      intro hc
      obtain ⟨l, st', hl, hs, _⟩ := next_enabled hF.next hpc hc
      cases l <;> simp [isRecvLabel] at hl <;> exact none_of rfl hs
    refine ⟨?_, ?_, ?_, ?_⟩
    · cases hb : st.buf with
      | nil => rfl
      | cons m r => exact (hcond (Or.inl (by simp [hb]))).elim
    · cases h : st.senderDone with
      | false => rfl
      | true => exact (hcond (Or.inr (Or.inr (Or.inl h)))).elim
    · cases h : st.rctx with
      | false => rfl
      | true => exact (hcond (Or.inr (Or.inr (Or.inr h)))).elim
    · intro sd hmem
      cases h : canHandoff st sd with
      | false => rfl
      | true => exact (hcond (Or.inr (Or.inl ⟨sd, hmem, h⟩))).elim

end Juniper.Proofs.Pipe
