import Juniper.Proofs.TreeCmp
import Juniper.Proofs.TreeCalls
/-!
# In-order contents of the B-tree model and the append-style lemmas (C01–C03)

`toList x` is the in-order list of entries. All child replacements in the model are written in append
style, so three lemmas (`rest_append`, `inorder_mid`, `inorder_split`) carry every structural case.
-/
namespace Juniper.Proofs.Tree
open Juniper.Model.BTree Juniper.Gen.Tree

variable {K V : Type} {α : Type}

/-- entries and (already flattened) children after the first child, interleaved -/
def rest : List (List α) → List α → List α
  | c :: cs, kv :: kvs => kv :: c ++ rest cs kvs
  | _, kvs => kvs

/-- flattened children `cs` interleaved with the entries `kvs` (`cs = []`: a leaf) -/
def inorder : List (List α) → List α → List α
  | [], kvs => kvs
  | c :: cs, kvs => c ++ rest cs kvs

/-- children and entries before a position, interleaved: `c₀ ++ kv₀ :: c₁ ++ kv₁ :: …` -/
def pre : List (List α) → List α → List α
  | c :: cs, kv :: kvs => c ++ kv :: pre cs kvs
  | _, _ => []

@[simp] theorem rest_nil_left (kvs : List α) : rest [] kvs = kvs := by
  cases kvs <;> rfl

@[simp] theorem rest_nil_right (cs : List (List α)) : rest cs [] = [] := by
  cases cs <;> rfl

theorem rest_cons_cons (c : List α) (cs : List (List α)) (kv : α) (kvs : List α) :
    rest (c :: cs) (kv :: kvs) = kv :: inorder (c :: cs) kvs := rfl

@[simp] theorem pre_nil_left (kvs : List α) : pre [] kvs = [] := rfl
@[simp] theorem pre_nil_right (cs : List (List α)) : pre cs [] = [] := by cases cs <;> rfl

theorem rest_append (A B : List (List α)) (ka kb : List α) (h : A.length = ka.length) :
    rest (A ++ B) (ka ++ kb) = rest A ka ++ rest B kb := by
  induction A generalizing ka with
  | nil =>
    cases ka with
    | nil => simp
    | cons _ _ => simp at h
  | cons a A ih =>
    cases ka with
    | nil => simp at h
    | cons x ka =>
      simp only [List.length_cons, Nat.add_right_cancel_iff] at h
      simp only [List.cons_append, rest, ih ka h, List.append_assoc]

theorem inorder_mid (A B : List (List α)) (c : List α) (ka kb : List α) (h : A.length = ka.length) :
    inorder (A ++ c :: B) (ka ++ kb) = pre A ka ++ c ++ rest B kb := by
  induction A generalizing ka with
  | nil =>
    cases ka with
    | nil => simp [inorder]
    | cons _ _ => simp at h
  | cons a A ih =>
    cases ka with
    | nil => simp at h
    | cons x ka =>
      simp only [List.length_cons, Nat.add_right_cancel_iff] at h
      have ih' := ih ka h
      cases hA : A ++ c :: B with
      | nil => simp at hA
      | cons d ds =>
        rw [hA] at ih'
        simp only [List.cons_append, inorder, hA, rest, pre, List.append_assoc]
        simp only [inorder] at ih'
        rw [ih']
        simp

theorem inorder_split (A B : List (List α)) (l r : List α) (s : α) (ka kb : List α)
    (h : A.length = ka.length) :
    inorder (A ++ l :: r :: B) (ka ++ s :: kb) = pre A ka ++ l ++ s :: r ++ rest B kb := by
  rw [inorder_mid A (r :: B) l ka (s :: kb) h]
  simp [rest]

theorem pre_append (A B : List (List α)) (ka kb : List α) (h : A.length = ka.length) :
    pre (A ++ B) (ka ++ kb) = pre A ka ++ pre B kb := by
  induction A generalizing ka with
  | nil =>
    cases ka with
    | nil => simp
    | cons _ _ => simp at h
  | cons a A ih =>
    cases ka with
    | nil => simp at h
    | cons x ka =>
      simp only [List.length_cons, Nat.add_right_cancel_iff] at h
      simp [pre, ih ka h]

theorem pre_snoc (A : List (List α)) (c : List α) (ka : List α) (x : α) (h : A.length = ka.length) :
    pre (A ++ [c]) (ka ++ [x]) = pre A ka ++ c ++ [x] := by
  rw [pre_append A [c] ka [x] h]; simp [pre]

/-- the whole node as prefix ++ last child: `inorder kids kvs = pre (kids.dropLast) kvs ++ last` -/
theorem inorder_eq_pre_last (A : List (List α)) (c : List α) (ka : List α) (h : A.length = ka.length) :
    inorder (A ++ [c]) ka = pre A ka ++ c := by
  have := inorder_mid A [] c ka [] h
  simpa using this

/-! ## contents -/

/-- in-order entries of a subtree -/
def toList : Node K V → List (K × V)
  | .mk _ kvs kids => inorder (kids.map toList) kvs

theorem toList_mk (id : Nat) (kvs : List (K × V)) (kids : List (Node K V)) :
    toList (.mk id kvs kids) = inorder (kids.map toList) kvs := toList.eq_1 id kvs kids

@[simp] theorem toList_leaf (id : Nat) (kvs : List (K × V)) : toList (.mk id kvs []) = kvs := by
  simp [toList_mk, inorder]

theorem node_induct {P : Node K V → Prop}
    (h : ∀ id kvs kids, (∀ c ∈ kids, P c) → P (.mk id kvs kids)) : ∀ x, P x := by
  intro x
  induction x using toList.induct with
  | case1 id kvs kids ih => exact h id kvs kids ih

/-- height: 0 for a leaf (follows the leftmost path, like the Go code's notion of leaf depth) -/
def height : Node K V → Nat
  | .mk _ _ kids =>
    match kids with
    | [] => 0
    | c :: _ => height c + 1

/-- number of entries -/
def count : Node K V → Nat
  | .mk _ kvs kids => kvs.length + ((kids.map count).sum)

/-- identities in pre-order -/
def ids : Node K V → List Nat
  | .mk id _ kids => id :: (kids.map ids).flatten

/-! ## list surgery -/

theorem length_insertAt (l : List α) (i : Nat) (x : α) : (insertAt l i x).length = l.length + 1 := by
  simp [insertAt]; omega

theorem length_replaceAt (l : List α) (i : Nat) (x : α) (h : i < l.length) :
    (replaceAt l i x).length = l.length := by
  simp [replaceAt]; omega

theorem length_removeAt (l : List α) (i : Nat) (h : i < l.length) :
    (removeAt l i).length = l.length - 1 := by
  simp [removeAt]; omega

theorem mem_replaceAt {l : List α} {i : Nat} {x y : α} (h : y ∈ replaceAt l i x) : y = x ∨ y ∈ l := by
  simp only [replaceAt, List.mem_append, List.mem_cons] at h
  rcases h with h | h | h
  · exact Or.inr (List.mem_of_mem_take h)
  · exact Or.inl h
  · exact Or.inr (List.mem_of_mem_drop h)

theorem mem_insertAt {l : List α} {i : Nat} {x y : α} (h : y ∈ insertAt l i x) : y = x ∨ y ∈ l := by
  simp only [insertAt, List.mem_append, List.mem_cons] at h
  rcases h with h | h | h
  · exact Or.inr (List.mem_of_mem_take h)
  · exact Or.inl h
  · exact Or.inr (List.mem_of_mem_drop h)

/-- a list splits around an existing index -/
theorem split_at_getElem? {l : List α} {i : Nat} {x : α} (h : l[i]? = some x) :
    l = l.take i ++ x :: l.drop (i + 1) ∧ (l.take i).length = i := by
  have hi : i < l.length := by
    have := (List.getElem?_eq_some_iff.mp h).1; exact this
  have hx : l[i] = x := (List.getElem?_eq_some_iff.mp h).2
  constructor
  · have h1 : l = l.take i ++ l.drop i := (List.take_append_drop i l).symm
    have h2 : l.drop i = l[i] :: l.drop (i + 1) := List.drop_eq_getElem_cons hi
    rw [h2, hx] at h1; exact h1
  · simp; omega

/-! ## `searchNode` facts -/

theorem searchNode_le (cmp : K → K → Int) (k : K) (kvs : List (K × V)) :
    (searchNode cmp k kvs).1 ≤ kvs.length := by
  induction kvs with
  | nil => simp [searchNode]
  | cons kv rest ih =>
    obtain ⟨k', v'⟩ := kv
    simp only [searchNode, List.length_cons]
    split
    · simp
    · split
      · simp
      · simp; omega

theorem searchNode_found_lt (cmp : K → K → Int) (k : K) (kvs : List (K × V))
    (h : (searchNode cmp k kvs).2 = true) : (searchNode cmp k kvs).1 < kvs.length := by
  induction kvs with
  | nil => simp [searchNode] at h
  | cons kv rest ih =>
    obtain ⟨k', v'⟩ := kv
    simp only [searchNode, List.length_cons] at h ⊢
    split
    · simp
    · split
      · simp
      · rename_i h1 h2
        simp only [h1, h2] at h
        simp at h ⊢
        exact ih h

theorem lowerIdx_le (p : Int → Bool) (cmp : K → K → Int) (k : K) (kvs : List (K × V)) :
    lowerIdx p cmp k kvs ≤ kvs.length := by
  induction kvs with
  | nil => simp [lowerIdx]
  | cons kv rest ih =>
    obtain ⟨k', v'⟩ := kv
    simp only [lowerIdx, List.length_cons]
    split <;> omega

end Juniper.Proofs.Tree
