import Juniper.Proofs.StreamDen
import Juniper.Proofs.StreamFacts
/-!
# Close discipline (C09): ghost Next/Close logs of the scripted source

`Forwards m m' proj`: the wrapper `m'` touches its inner stream (state `proj t`, machine `m`) only by
at most one `m.step` per step of its own, under the same context, and its `Close` is exactly one
`m.close`. This composes along pipelines, and over the logged source it gives: closed exactly once,
never pulled after `Close`.
-/
namespace Juniper.Proofs.StreamDen
open Juniper.Model.Stream Juniper.Gen.Comb
universe u v w x y
variable {σ : Type u} {σ' : Type w} {σ'' : Type y} {α β : Type v} {γ : Type x}

theorem afterS_append' (m : SM σ α) (a b : List Bool) (s : σ) :
    afterS m (a ++ b) s = afterS m b (afterS m a s) := by
  induction a generalizing s with
  | nil => rfl
  | cons c a ih => simp only [List.cons_append, afterS]; exact ih _

structure Forwards (m : SM σ α) (m' : SM σ' γ) (proj : σ' → σ) : Prop where
  step : ∀ t c, proj (m'.step t c).2 = proj t ∨ proj (m'.step t c).2 = (m.step (proj t) c).2
  close : ∀ t, proj (m'.close t) = m.close (proj t)

theorem Forwards.comp {δ : Type v} {m : SM σ α} {m' : SM σ' γ} {m'' : SM σ'' δ} {p : σ' → σ} {q : σ'' → σ'}
    (h1 : Forwards m m' p) (h2 : Forwards m' m'' q) : Forwards m m'' (p ∘ q) where
  step := by
    intro t c
    simp only [Function.comp]
    rcases h2.step t c with h | h
    · left; rw [h]
    · rw [h]; exact h1.step (q t) c
  close := by
    intro t
    simp only [Function.comp]
    rw [h2.close, h1.close]

theorem Forwards.refl (m : SM σ α) : Forwards m m id := ⟨fun _ _ => Or.inr rfl, fun _ => rfl⟩

/-- along any run of the wrapper, the inner state is one reached by a run of the inner machine -/
theorem Forwards.afterS {m : SM σ α} {m' : SM σ' γ} {proj : σ' → σ} (h : Forwards m m' proj)
    (cs : List Bool) (t : σ') : ∃ ds, proj (afterS m' cs t) = StreamDen.afterS m ds (proj t) := by
  induction cs generalizing t with
  | nil => exact ⟨[], rfl⟩
  | cons c cs ih =>
    obtain ⟨ds, hds⟩ := ih (m'.step t c).2
    simp only [StreamDen.afterS]
    rcases h.step t c with hh | hh
    · exact ⟨ds, by rw [hds, hh]⟩
    · exact ⟨c :: ds, by rw [hds, hh]; rfl⟩

/-! ## the logged source -/

theorem src_step_log (s : Src α) (c : Bool) :
    (srcStep s c).2.closes = s.closes ∧ (s.closes = 0 → (srcStep s c).2.after = s.after) := by
  obtain ⟨sc, ca, p, cl, a⟩ := s
  cases c
  · simp [srcStep]
  · cases sc with
    | nil => simp [srcStep]
    | cons e r => cases e <;> simp [srcStep]

theorem src_afterS_log (s : Src α) (h0 : s.closes = 0) (cs : List Bool) :
    (afterS src cs s).closes = 0 ∧ (afterS src cs s).after = s.after := by
  induction cs generalizing s with
  | nil => exact ⟨h0, rfl⟩
  | cons c cs ih =>
    have h1 := src_step_log s c
    have := ih (srcStep s c).2 (by rw [h1.1, h0])
    have e : afterS src (c :: cs) s = afterS src cs (srcStep s c).2 := rfl
    rw [e]
    exact ⟨this.1, by rw [this.2, h1.2 h0]⟩

/-- **Close exactly once, never used after** — for any wrapper (or pipeline of wrappers) that forwards
to the logged source: after any number of `Next` calls under any contexts, then `Close`, the source
has seen exactly one more `Close` and no `Next` after it. -/
theorem forwards_close_once {m' : SM σ' γ} {proj : σ' → Src α} (h : Forwards src m' proj)
    (t : σ') (h0 : (proj t).closes = 0) (cs : List Bool) :
    (proj (m'.close (afterS m' cs t))).closes = 1 ∧
      (proj (m'.close (afterS m' cs t))).after = (proj t).after := by
  obtain ⟨ds, hds⟩ := h.afterS cs t
  rw [h.close, hds]
  have := src_afterS_log (proj t) h0 ds
  have e : ∀ s : Src α, (src.close s).closes = s.closes + 1 ∧ (src.close s).after = s.after := fun s => ⟨rfl, rfl⟩
  rw [(e _).1, (e _).2, this.1, this.2]
  exact ⟨rfl, rfl⟩

/-! ## every single-source wrapper forwards (hypotheses: the regenerated `Close` forwarding facts) -/

theorem withPeek_forwards (m : SM σ α) :
    Forwards m (withPeek m) (fun p => p.inner) where
  step := by
    intro t c
    obtain ⟨s, curr⟩ := t
    cases curr with
    | some a => left; simp [withPeek, peekNext, stPeekNextHas]
    | none => right; simp [withPeek, peekNext, stPeekNextHas]
  close := by intro t; simp [withPeek, peekClose, stPeekCloseForwards_fact]

theorem chunk_forwards (size : Int) (m : SM σ α) :
    Forwards m (chunk size m) (fun st => st.inner) where
  step := by
    intro t c
    right
    rcases hy : m.step t.inner c with ⟨r, u⟩
    cases r <;> simp [chunk, hy] <;> split <;> rfl
  close := by intro t; simp [chunk, stChunkCloseForwards_fact]

theorem compact_forwards (eq : α → α → Bool) (m : SM σ α) :
    Forwards m (compact eq m) (fun st => st.inner) where
  step := by
    intro t c
    right
    rcases hy : m.step t.inner c with ⟨r, u⟩
    cases r <;> simp [compact, hy]
    split
    · rfl
    · split
      · split <;> rfl
      · rfl
  close := by intro t; simp [compact, stCompactCloseForwards_fact]

theorem filter_forwards (keep : α → Except Err Bool) (m : SM σ α) :
    Forwards m (filter keep m) (fun st => st.inner) where
  step := by
    intro t c
    right
    rcases hy : m.step t.inner c with ⟨r, u⟩
    cases r <;> simp [filter, hy]
    split <;> rfl
  close := by intro t; simp [filter, stFilterCloseForwards_fact]

theorem map_forwards (f : α → Except Err β) (m : SM σ α) :
    Forwards m (map f m) (fun st => st.inner) where
  step := by
    intro t c
    right
    rcases hy : m.step t.inner c with ⟨r, u⟩
    cases r <;> simp [map, hy]
    split <;> rfl
  close := by intro t; simp [map, stMapCloseForwards_fact]

theorem first_forwards (m : SM σ α) :
    Forwards m (first m) (fun st => st.inner) where
  step := by
    intro t c
    by_cases hd : stFirstDone t.x = true
    · left; simp [first, hd]
    · right
      rcases hy : m.step t.inner c with ⟨r, u⟩
      cases r <;> simp [first, hd, hy]
  close := by intro t; simp [first, stFirstCloseForwards_fact]

theorem while_forwards (f : α → Except Err Bool) (m : SM σ α) :
    Forwards m (while_ f m) (fun st => st.inner) where
  step := by
    intro t c
    by_cases hd : stWhileDone t.done = true
    · left; simp [while_, hd]
    · by_cases hp : stWhilePulls t.held.isSome = true
      · right
        rcases hy : m.step t.inner c with ⟨r, u⟩
        cases r <;> simp [while_, hd, hp, hy]
        split <;> rfl
      · left
        simp only [while_, hd, hp]
        cases t.held with
        | none => simp
        | some a => simp; split <;> rfl
  close := by intro t; simp [while_, stWhileCloseForwards_fact]

theorem flattenSlices_forwards (m : SM σ (List α)) :
    Forwards m (flattenSlices m) (fun st => st.inner) where
  step := by
    intro t c
    obtain ⟨s, buf⟩ := t
    cases buf with
    | cons a r => left; simp [flattenSlices]
    | nil =>
      right
      rcases hy : m.step s c with ⟨r, u⟩
      cases r <;> simp [flattenSlices, hy]
  close := by intro t; simp [flattenSlices, stFlattenSlicesCloseForwards_fact]


/-! ## reducers close on every path (hypotheses: the regenerated `defer s.Close()` facts) -/

theorem reduceLoop_reach {δ : Type x} (g : RGuards) (m : SM σ α) (f : δ → α → Except Err δ) (c : Bool) (fuel : Nat) (acc : δ) (s : σ) :
    ∃ cs, (reduceLoop g m f c fuel acc s).2 = afterS m cs s := by
  induction fuel generalizing acc s with
  | zero => exact ⟨[], rfl⟩
  | succ fuel ih =>
    rw [reduceLoop]
    rcases hy : m.step s c with ⟨r, u⟩
    have hu : u = afterS m [c] s := by simp [afterS, hy]
    have one : ∀ (x : ROut δ), ∃ cs, (x, u).2 = afterS m cs s := fun _ => ⟨[c], hu⟩
    cases r with
    | skip =>
      obtain ⟨cs, hcs⟩ := ih acc u
      exact ⟨c :: cs, by simp only [hcs, afterS, hy]⟩
    | item a =>
      simp only
      split
      · exact one _
      · split
        · exact one _
        · split
          · exact one _
          · cases hf : f acc a with
            | error e => exact one _
            | ok acc' =>
              obtain ⟨cs, hcs⟩ := ih acc' u
              exact ⟨c :: cs, by simp only [hcs, afterS, hy]⟩
    | end_ =>
      simp only
      split
      · exact one _
      · split <;> exact one _
    | err e =>
      simp only
      split
      · exact one _
      · split <;> exact one _

theorem lastLoop_reach (m : SM σ α) (n : Int) (c : Bool) (fuel : Nat) (buf : List (Option α)) (i : Int) (s : σ) :
    ∃ cs, (lastLoop m n c fuel buf i s).2 = afterS m cs s := by
  induction fuel generalizing buf i s with
  | zero => exact ⟨[], rfl⟩
  | succ fuel ih =>
    rw [lastLoop]
    rcases hy : m.step s c with ⟨r, u⟩
    have hu : u = afterS m [c] s := by simp [afterS, hy]
    have one : ∀ (x : ROut (List (Option α) × Int)), ∃ cs, (x, u).2 = afterS m cs s := fun _ => ⟨[c], hu⟩
    cases r with
    | skip =>
      obtain ⟨cs, hcs⟩ := ih buf i u
      exact ⟨c :: cs, by simp only [hcs, afterS, hy]⟩
    | item a =>
      simp only
      split
      · exact one _
      · split
        · exact one _
        · cases hl : lastStore buf i n a with
          | none => exact one _
          | some buf' =>
            obtain ⟨cs, hcs⟩ := ih buf' (if stLastCounts then i + 1 else i) u
            exact ⟨c :: cs, by simp only [hcs, afterS, hy]⟩
    | end_ =>
      simp only
      split
      · exact one _
      · split <;> exact one _
    | err e =>
      simp only
      split
      · exact one _
      · split <;> exact one _

theorem drive_reach (m : SM σ α) (c : Bool) (fuel : Nat) (s : σ) : ∃ cs, (drive m c fuel s).2 = afterS m cs s := by
  induction fuel generalizing s with
  | zero => exact ⟨[], rfl⟩
  | succ fuel ih =>
    rw [drive_succ]
    rcases hy : m.step s c with ⟨r, u⟩
    have hu : u = afterS m [c] s := by simp [afterS, hy]
    cases r with
    | skip =>
      obtain ⟨cs, hcs⟩ := ih u
      exact ⟨c :: cs, by simp only [hcs, afterS, hy]⟩
    | item a => exact ⟨[c], by simp [hu]⟩
    | end_ => exact ⟨[c], by simp [hu]⟩
    | err e => exact ⟨[c], by simp [hu]⟩

theorem collect_reach (m : SM σ α) (c : Bool) (fuel : Nat) (s : σ) :
    ∃ cs, (collect m c fuel s).2 = m.close (afterS m cs s) := by
  have _tie := Skeleton.Tie.stCollect
  obtain ⟨cs, hcs⟩ := reduceLoop_reach collectG m (fun (acc : List α) a => .ok (acc ++ [a])) c fuel [] s
  exact ⟨cs, by simp only [collect, deferClose, stCollectDefersClose_fact, if_true, hcs]⟩

theorem reduce_reach {δ : Type x} (m : SM σ α) (f : δ → α → Except Err δ) (c : Bool) (fuel : Nat) (init : δ) (s : σ) :
    ∃ cs, (reduce m f c fuel init s).2 = m.close (afterS m cs s) := by
  have _tie := Skeleton.Tie.stReduce
  obtain ⟨cs, hcs⟩ := reduceLoop_reach reduceG m f c fuel init s
  exact ⟨cs, by simp only [reduce, deferClose, stReduceDefersClose_fact, if_true, hcs]⟩

theorem sample_reach (m : SM σ α) (c : Bool) (fuel : Nat) (s : σ) :
    ∃ cs, (sampleCount m c fuel s).2 = m.close (afterS m cs s) := by
  obtain ⟨cs, hcs⟩ := reduceLoop_reach sampleG m (fun (acc : Nat) _ => .ok (acc + 1)) c fuel 0 s
  exact ⟨cs, by simp only [sampleCount, sampleStreamW, rSampleCount, deferClose, sampleStreamDefersClose_fact, if_true, hcs]⟩

theorem last_reach (m : SM σ α) (n : Int) (c : Bool) (fuel : Nat) (s : σ) :
    ∃ cs, (last m n c fuel s).2 = m.close (afterS m cs s) := by
  have _tie := Skeleton.Tie.stLast
  by_cases hn : n < 0
  · exact ⟨[], by simp [last, hn, deferClose, stLastDefersClose_fact, afterS]⟩
  · obtain ⟨cs, hcs⟩ := lastLoop_reach m n c fuel (List.replicate n.toNat none) 0 s
    exact ⟨cs, by simp only [last, hn, if_false, deferClose, stLastDefersClose_fact, if_true, hcs]⟩

theorem one_reach (m : SM σ α) (c : Bool) (fuel : Nat) (s : σ) :
    ∃ cs, (one m c fuel s).2 = m.close (afterS m cs s) := by
  have _tie := Skeleton.Tie.stOne
  obtain ⟨cs1, h1⟩ := drive_reach m c fuel s
  obtain ⟨cs2, h2⟩ := drive_reach m c fuel (drive m c fuel s).2
  simp only [one, deferClose, stOneDefersClose_fact, if_true]
  rcases hd : drive m c fuel s with ⟨r, s1⟩
  rw [hd] at h1 h2
  simp only at h1 h2
  cases r with
  | none => exact ⟨cs1, by simp [h1]⟩
  | some r =>
    cases r with
    | end_ => exact ⟨cs1, by simp [h1]⟩
    | err e => exact ⟨cs1, by simp [h1]⟩
    | skip => exact ⟨cs1, by simp [h1]⟩
    | item a =>
      simp only [oneFirst_item]
      rcases hd2 : drive m c fuel s1 with ⟨r2, s2⟩
      rw [hd2] at h2
      simp only at h2
      have hs2 : s2 = afterS m (cs1 ++ cs2) s := by rw [afterS_append', ← h1, h2]
      cases r2 with
      | none => exact ⟨cs1 ++ cs2, by simp [hs2]⟩
      | some r2 => cases r2 <;> exact ⟨cs1 ++ cs2, by simp [hs2]⟩

/-- A reducer that runs some `Next` calls and then the deferred `Close`, over any pipeline that
forwards to the logged source: the source is closed exactly once and never pulled afterwards. -/
theorem reducer_closes {m' : SM σ' γ} {proj : σ' → Src α} (h : Forwards src m' proj)
    (t : σ') (h0 : (proj t).closes = 0) {final : σ'} (hr : ∃ cs, final = m'.close (afterS m' cs t)) :
    (proj final).closes = 1 ∧ (proj final).after = (proj t).after := by
  obtain ⟨cs, rfl⟩ := hr
  exact forwards_close_once h t h0 cs

variable {τ : Type w}

/-! ## Flatten and Join: the streams obtained on the way are closed exactly once -/

theorem flatten_outer_forwards (mo : SM σ τ) (mi : SM τ α) :
    Forwards mo (flatten mo mi) (fun st => st.outer) where
  step := by
    intro t c
    obtain ⟨so, curr, fin⟩ := t
    cases curr with
    | none =>
      right
      rcases hy : mo.step so c with ⟨r, u⟩
      cases r <;> simp [flatten, hy]
    | some x =>
      left
      rcases hy : mi.step x c with ⟨r, u⟩
      cases r <;> simp [flatten, hy]
      split <;> rfl
  close := by
    intro t
    obtain ⟨so, curr, fin⟩ := t
    cases curr <;> simp [flatten, stFlattenCloseForwards_fact] <;> split <;> rfl

/-- closed exactly once, not touched afterwards -/
def Closed1 (x : Src α) : Prop := x.closes = 1 ∧ x.after = 0
/-- not closed yet, never misused -/
def Open0 (x : Src α) : Prop := x.closes = 0 ∧ x.after = 0

theorem open0_step {x : Src α} (h : Open0 x) (c : Bool) : Open0 (srcStep x c).2 := by
  have := src_step_log x c
  exact ⟨by rw [this.1, h.1], by rw [this.2 h.1, h.2]⟩

theorem open0_close {x : Src α} (h : Open0 x) : Closed1 (srcClose x) := by
  obtain ⟨h1, h2⟩ := h
  exact ⟨by simp [srcClose, h1], by simp [srcClose, h2]⟩

/-- ghost invariant of `Flatten` over logged inner sources: the inner streams that ended are closed
exactly once, the current one is open -/
def FlatInv (st : FlattenSt σ (Src α)) : Prop :=
  (∀ x ∈ st.finished, Closed1 x) ∧ (∀ x, st.curr = some x → Open0 x)

theorem flatten_inv_step {mo : SM σ (Src α)}
    (hfresh : ∀ s c x s', mo.step s c = (.item x, s') → Open0 x)
    {st : FlattenSt σ (Src α)} (h : FlatInv st) (c : Bool) : FlatInv ((flatten mo src).step st c).2 := by
  obtain ⟨so, curr, fin⟩ := st
  obtain ⟨h1, h2⟩ := h
  cases curr with
  | none =>
    rcases hy : mo.step so c with ⟨r, u⟩
    cases r with
    | item x =>
      have := hfresh so c x u hy
      simp only [flatten, hy, flattenOuterOn_item]
      exact ⟨h1, fun y hy' => by simp at hy'; subst hy'; exact this⟩
    | skip => simp only [flatten, hy]; exact ⟨h1, fun y hy' => by simp at hy'⟩
    | end_ => simp only [flatten, hy, flattenOuterOn_end]; exact ⟨h1, fun y hy' => by simp at hy'⟩
    | err e => simp only [flatten, hy, flattenOuterOn_err]; exact ⟨h1, fun y hy' => by simp at hy'⟩
  | some x =>
    have hx := h2 x rfl
    have hx' := open0_step hx c
    rcases hy : srcStep x c with ⟨r, u⟩
    rw [hy] at hx'
    simp only at hx'
    have hstep : (src (α := α)).step x c = (r, u) := hy
    cases r with
    | item a => simp only [flatten, hstep, flattenInnerOn_item]; exact ⟨h1, fun y hy' => by simp at hy'; subst hy'; exact hx'⟩
    | skip => simp only [flatten, hstep]; exact ⟨h1, fun y hy' => by simp at hy'; subst hy'; exact hx'⟩
    | err e => simp only [flatten, hstep, flattenInnerOn_err]; exact ⟨h1, fun y hy' => by simp at hy'; subst hy'; exact hx'⟩
    | end_ =>
      simp only [flatten, hstep, flattenInnerOn_end, stFlattenClosesEnded_fact, stFlattenClearsCurr_fact, if_true]
      refine ⟨fun y hy' => ?_, fun y hy' => by simp at hy'⟩
      simp only [List.mem_append, List.mem_singleton] at hy'
      rcases hy' with hy' | rfl
      · exact h1 y hy'
      · exact open0_close hx'

theorem flatten_inv_afterS {mo : SM σ (Src α)}
    (hfresh : ∀ s c x s', mo.step s c = (.item x, s') → Open0 x)
    {st : FlattenSt σ (Src α)} (h : FlatInv st) (cs : List Bool) : FlatInv (afterS (flatten mo src) cs st) := by
  induction cs generalizing st with
  | nil => exact h
  | cons c cs ih => exact ih (flatten_inv_step hfresh h c)

/-- **Flatten's inner streams**: whenever the consumer stops and closes, every inner stream obtained
so far (those that ended, and the current one) has been closed exactly once and never pulled after. -/
theorem flatten_inner_closed_once {mo : SM σ (Src α)}
    (hfresh : ∀ s c x s', mo.step s c = (.item x, s') → Open0 x)
    (so : σ) (cs : List Bool) :
    let st' := (flatten mo src).close (afterS (flatten mo src) cs ⟨so, none, []⟩)
    ∀ x ∈ st'.finished ++ st'.curr.toList, Closed1 x := by
  have _tie := Skeleton.Tie.stFlatten
  have hinv : FlatInv (afterS (flatten mo (src (α := α))) cs ⟨so, none, []⟩) :=
    flatten_inv_afterS hfresh ⟨fun x hx => by simp at hx, fun x hx => by simp at hx⟩ cs
  generalize afterS (flatten mo (src (α := α))) cs ⟨so, none, []⟩ = st at hinv
  obtain ⟨s1, curr, fin⟩ := st
  obtain ⟨h1, h2⟩ := hinv
  intro st' x hx
  cases curr with
  | none =>
    have : st'.finished = fin ∧ st'.curr = none := by
      simp only [st', flatten]; split <;> exact ⟨rfl, rfl⟩
    rw [this.1, this.2] at hx
    simp at hx
    exact h1 x hx
  | some y =>
    have : st'.finished = fin ∧ st'.curr = some (srcClose y) := by
      simp only [st', flatten, flattenCloseCurr_eq, stFlattenCloseCurr_fact.1, if_true]; split <;> exact ⟨rfl, rfl⟩
    rw [this.1, this.2] at hx
    simp only [Option.toList, List.mem_append, List.mem_singleton] at hx
    rcases hx with hx | rfl
    · exact h1 x hx
    · exact open0_close (h2 y rfl)

/-- ghost invariant of `Join` over logged sources -/
def JoinInv (st : JoinSt (Src α)) : Prop :=
  (∀ x ∈ st.finished, Closed1 x) ∧ (∀ x ∈ st.remaining, Open0 x)

theorem join_inv_step
    {st : JoinSt (Src α)} (h : JoinInv st) (c : Bool) : JoinInv ((join src).step st c).2 := by
  obtain ⟨rem, fin⟩ := st
  obtain ⟨h1, h2⟩ := h
  cases rem with
  | nil => simpa [join] using ⟨h1, h2⟩
  | cons x r =>
    have hx := h2 x (by simp)
    have hx' := open0_step hx c
    rcases hy : srcStep x c with ⟨res, u⟩
    rw [hy] at hx'
    simp only at hx'
    have hstep : (src (α := α)).step x c = (res, u) := hy
    have hr : ∀ y ∈ r, Open0 y := fun y hy' => h2 y (by simp [hy'])
    have keep : ∀ y ∈ u :: r, Open0 y := by
      intro y hy'
      simp only [List.mem_cons] at hy'
      rcases hy' with rfl | hy'
      · exact hx'
      · exact hr y hy'
    cases res with
    | item a => simp only [join_step_cons, hstep, joinOn_item]; exact ⟨h1, keep⟩
    | skip => simp only [join_step_cons, hstep]; exact ⟨h1, keep⟩
    | err e => simp only [join_step_cons, hstep, joinOn_err]; exact ⟨h1, keep⟩
    | end_ =>
      simp only [join_step_cons, hstep, joinOn_end, stJoinClosesEnded_fact, stJoinAdvances_fact, if_true]
      refine ⟨fun y hy' => ?_, hr⟩
      simp only [List.mem_append, List.mem_singleton] at hy'
      rcases hy' with hy' | rfl
      · exact h1 y hy'
      · exact open0_close hx'

/-- **Join's arguments**: the streams that ended were closed at their end, the remaining ones are
closed by `Close`; each exactly once, none pulled afterwards. -/
theorem join_rest_closed_once (ss : List (Src α)) (hss : ∀ x ∈ ss, Open0 x) (cs : List Bool) :
    let st' := (join src).close (afterS (join src) cs ⟨ss, []⟩)
    ∀ x ∈ st'.finished ++ st'.remaining, Closed1 x := by
  have _tie := Skeleton.Tie.stJoin
  have hinv : JoinInv (afterS (join (src (α := α))) cs ⟨ss, []⟩) := by
    have base : JoinInv (⟨ss, []⟩ : JoinSt (Src α)) := ⟨fun x hx => by simp at hx, hss⟩
    generalize (⟨ss, []⟩ : JoinSt (Src α)) = st0 at base
    induction cs generalizing st0 with
    | nil => exact base
    | cons c cs ih => exact ih _ (join_inv_step base c)
  generalize afterS (join (src (α := α))) cs ⟨ss, []⟩ = st at hinv
  obtain ⟨rem, fin⟩ := st
  obtain ⟨h1, h2⟩ := hinv
  intro st' x hx
  have : st'.finished = fin ∧ st'.remaining = rem.map srcClose := by
    simp only [st', join, joinCloseAll_eq, stJoinCloseForwards_fact.1, if_true]; exact ⟨trivial, rfl⟩
  rw [this.1, this.2] at hx
  simp only [List.mem_append, List.mem_map] at hx
  rcases hx with hx | ⟨y, hy, rfl⟩
  · exact h1 x hx
  · exact open0_close (h2 y hy)


/-! ## Runs forwards Close to the peekable's source; its ports move the source by at most one step -/

theorem peekPeek_moves (m : SM σ α) (p : PeekSt σ α) (c : Bool) :
    (peekPeek m p c).2.inner = p.inner ∨ (peekPeek m p c).2.inner = (m.step p.inner c).2 := by
  obtain ⟨s, curr⟩ := p
  cases curr with
  | some a => left; simp [peekPeek, stPeekPulls]
  | none =>
    right
    rcases hy : m.step s c with ⟨r, u⟩
    cases r <;> simp [peekPeek, stPeekPulls, hy]

theorem peekNext_has (m : SM σ α) (s : σ) (a : α) (c : Bool) :
    (peekNext m ⟨s, some a⟩ c).2.inner = s := by
  simp [peekNext, stPeekNextHas]

theorem runsInner_moves (same : α → α → Bool) (m : SM σ α) (g : Nat) (st : RunsSt σ α) (c : Bool) :
    (runsInner same m g st c).2.pk.inner = st.pk.inner ∨
      (runsInner same m g st c).2.pk.inner = (m.step st.pk.inner c).2 := by
  obtain ⟨⟨s, curr⟩, gen, live⟩ := st
  cases live with
  | none => left; simp [runsInner]
  | some l =>
    obtain ⟨g', prev, det⟩ := l
    by_cases hg1 : g' = g
    case neg => left; simp [runsInner, hg1]
    subst hg1
    cases det with
    | true => left; simp [runsInner]
    | false =>
      cases curr with
      | some a =>
        left
        by_cases hb : same prev a = true
        · simp [runsInner, peekPeek, stPeekPulls, hb, peekNext, stPeekNextHas]
        · simp [runsInner, peekPeek, stPeekPulls, hb]
      | none =>
        right
        rcases hy : m.step s c with ⟨r, u⟩
        cases r with
        | item a =>
          by_cases hb : same prev a = true
          · simp [runsInner, peekPeek, stPeekPulls, hy, stPeekSetsHas, hb, peekNext, stPeekNextHas]
          · simp [runsInner, peekPeek, stPeekPulls, hy, stPeekSetsHas, hb]
        | skip => simp [runsInner, peekPeek, stPeekPulls, hy]
        | end_ => simp [runsInner, peekPeek, stPeekPulls, hy]
        | err e => simp [runsInner, peekPeek, stPeekPulls, hy]

theorem runsInnerClose_inner (g : Nat) (st : RunsSt σ α) : (runsInnerClose g st).pk = st.pk := by
  unfold runsInnerClose
  split
  · split <;> rfl
  · rfl

theorem runsOuter_moves (same : α → α → Bool) (m : SM σ α) (st : RunsSt σ α) (c : Bool) :
    (runsOuter same m st c).2.pk.inner = st.pk.inner ∨
      (runsOuter same m st c).2.pk.inner = (m.step st.pk.inner c).2 := by
  obtain ⟨⟨s, curr⟩, gen, live⟩ := st
  cases live with
  | some l =>
    obtain ⟨g, prev, det⟩ := l
    have h := runsInner_moves same m g ⟨⟨s, curr⟩, gen, some (g, prev, det)⟩ c
    simp only [runsOuter]
    rcases hr : runsInner same m g ⟨⟨s, curr⟩, gen, some (g, prev, det)⟩ c with ⟨r, st'⟩
    rw [hr] at h
    simp only at h
    cases r with
    | end_ =>
      simp only [runsDrainOn_end]
      have e : ∀ x : RunsSt σ α, (if stRunsClosesCurr = true then runsInnerClose g x else x).pk = x.pk := by
        intro x; split
        · exact runsInnerClose_inner g x
        · rfl
      rw [e]; exact h
    | err e => simpa only [runsDrainOn_err] using h
    | item a => simpa only [runsDrainOn_item] using h
    | skip => exact h
  | none =>
    have h := peekPeek_moves m ⟨s, curr⟩ c
    simp only [runsOuter]
    rcases hr : peekPeek m ⟨s, curr⟩ c with ⟨r, pk'⟩
    rw [hr] at h
    simp only at h
    cases r <;> simpa using h

/-- `Runs` (protocol machine) forwards to its source. -/
theorem runsProto_forwards (same : α → α → Bool) (take : Option Nat) (cl : Bool) (m : SM σ α) :
    Forwards m (runsProto same take cl m) (fun st => st.rs.pk.inner) where
  step := by
    intro t c
    obtain ⟨rs, cur⟩ := t
    cases cur with
    | none =>
      have h := runsOuter_moves same m rs c
      simp only [runsProto]
      rcases hr : runsOuter same m rs c with ⟨r, rs'⟩
      rw [hr] at h
      simp only at h
      cases r <;> exact h
    | some x =>
      obtain ⟨g, acc, k⟩ := x
      simp only [runsProto]
      by_cases ht : Juniper.Model.Iter.takeReached take k = true
      · left; simp [ht]
      · have ht' : Juniper.Model.Iter.takeReached take k = false := by simpa using ht
        have h := runsInner_moves same m g rs c
        rcases hr : runsInner same m g rs c with ⟨r, rs'⟩
        rw [hr] at h
        simp only at h
        simp only [ht', hr, Bool.false_eq_true, if_false]
        cases r with
        | end_ =>
          simp only
          cases cl with
          | true => simp only [if_true]; rw [runsInnerClose_inner]; exact h
          | false => exact h
        | item a => exact h
        | skip => exact h
        | err e => exact h
  close := by
    intro t
    simp [runsProto, runsClose, stRunsCloseForwards_fact, peekClose, stPeekCloseForwards_fact]

end Juniper.Proofs.StreamDen
