import Juniper.Proofs.ParMapStreamD
/-! Inductive invariants of the MapStream LTS, part 5: a failure is never swallowed (the normal end is
reported only without failure), and the shape of the call log of the source stream (C09 clauses). -/
set_option linter.unusedSimpArgs false
set_option linter.unusedVariables false

namespace Juniper.Proofs.ParMap.S
open Juniper.Gen Juniper.Facts Juniper.Model.ParMap Juniper.Model.ParMap.Stream Juniper.Proofs.ParMap

def resIsErr : Res → Bool
  | .err _ => true
  | _ => false
/-- number of failures so far: calls of `f` that returned an error, plus the source's error -/
def nFail (s : St) : Nat := cnt (fun e => resIsErr e.2) s.fEnded + b2n s.srcErr.isSome
def isEnd : NextRes → Bool
  | .end => true
  | _ => false
def wHeldSome : WPc → Bool
  | .exiting (some _) => true
  | .egRet (some _) => true
  | _ => false
def dHeldSome : DPc → Bool
  | .exiting (some _) => true
  | .srcClosing (some _) => true
  | .egRet (some _) => true
  | _ => false

/-- a failure leaves a trace until every goroutine is done; the normal end is reported only without failure -/
structure InvF (cfg : Cfg) (s : St) : Prop where
  F1 : 0 < nFail s → s.egErr ≠ none ∨ dHeldSome s.disp = true ∨ 0 < cnt wHeldSome s.ws
  F3 : 0 < cnt isEnd s.results → nFail s = 0 ∧ s.egLive = 0 ∧ s.egErr = none

theorem invF_init (cfg : Cfg) : InvF cfg (Stream.init cfg) := by
  refine ⟨?_, ?_⟩ <;> simp [Stream.init, nFail, b2n]

theorem wHeldSome_le_wNotDone (ws : List WPc) : cnt wHeldSome ws ≤ cnt wNotDone ws := by
  apply cnt_mono
  intro x hx
  cases x <;> simp_all [wHeldSome, wNotDone]

syntax "invF_worker " ident ident : tactic
macro_rules
  | `(tactic| invF_worker $hi:ident $hb:ident) =>
    `(tactic| (
         have hw := ‹_[_]? = some _›
         have g1 := cnt_ge wHeldSome hw
         have g2 := cnt_ge wNotDone hw
         have ⟨iF1, iF3⟩ := $hi
         have ⟨iND, iCC, iEL, iCL, iCA⟩ := $hb
         refine ⟨?_, ?_⟩ <;>
           simp [egRecord, Option.isSome_iff_ne_none, nFail, resIsErr, cnt_set hw, wHeldSome, wNotDone, dHeldSome, dNotDone, isEnd, b2n] at * <;>
           grind))

set_option maxHeartbeats 1600000 in
theorem invF_step {cfg : Cfg} (hs : cfg.code.Sound) {s s' : St} {l : Label} (hb : InvB cfg s) (hi : InvF cfg s)
    (h : Stream.step cfg s l = some s') : InvF cfg s' := by
  cases l with
  | dSend w => stream_cases h => invF_worker hi hb
  | fRet w r => stream_cases h => invF_worker hi hb
  | wSendC w => stream_cases h => invF_worker hi hb
  | wSendCtx w => stream_cases h => invF_worker hi hb
  | wExitIdle w => stream_cases h => invF_worker hi hb
  | wDefer w => stream_cases h => invF_worker hi hb
  | wEgDone w => stream_cases h => invF_worker hi hb
  | _ =>
    stream_cases h =>
      (have ⟨iF1, iF3⟩ := hi
       have ⟨iND, iCC, iEL, iCL, iCA⟩ := hb
       have hle := wHeldSome_le_wNotDone s.ws
       refine ⟨?_, ?_⟩ <;>
         simp [egRecord, Option.isSome_iff_ne_none, nFail, resIsErr, dHeldSome, dNotDone, isEnd, b2n, hs.nextFailed] at * <;>
         grind [dHeldSome, dNotDone])


theorem invF {cfg : Cfg} (hs : cfg.code.Sound) (hg : 1 ≤ cfg.gmp) {s : St} (h : Reach cfg s) : InvF cfg s := by
  induction h with
  | init => exact invF_init cfg
  | step hr hstep ih => exact invF_step hs (invB hs hg hr) ih hstep

/-- `a` completed `Next` calls on the source -/
def pairs : Nat → List SrcEv
  | 0 => []
  | n + 1 => pairs n ++ [SrcEv.nextBegin, SrcEv.nextEnd]

/-- what the dispatcher's program counter says about the unfinished end of the source's call log -/
def logTail : DPc → List SrcEv
  | .inNext => [SrcEv.nextBegin]
  | .srcClosing _ => [SrcEv.closeBegin]
  | .egRet _ => [SrcEv.closeBegin, SrcEv.closeEnd]
  | .done => [SrcEv.closeBegin, SrcEv.closeEnd]
  | _ => []

/-- the source sees a sequence of complete `Next` calls, then at most one `Close`: never `Next` after
`Close`, never a second `Close`, never two calls at once -/
structure InvL (cfg : Cfg) (s : St) : Prop where
  SL : ∃ a, s.srcLog = pairs a ++ logTail s.disp

theorem invL_init (cfg : Cfg) : InvL cfg (Stream.init cfg) := ⟨⟨0, by simp [Stream.init, pairs, logTail]⟩⟩

theorem invL_step {cfg : Cfg} (hs : cfg.code.Sound) {s s' : St} {l : Label} (hi : InvL cfg s)
    (h : Stream.step cfg s l = some s') : InvL cfg s' := by
  obtain ⟨a, ha⟩ := hi.SL
  cases l with
  | dPull => stream_cases h => exact ⟨⟨a, by simp_all [logTail]⟩⟩
  | srcRet r => stream_cases h => exact ⟨⟨a + 1, by simp_all [logTail, pairs]⟩⟩
  | dTakeToken => stream_cases h => exact ⟨⟨a, by simp_all [logTail]⟩⟩
  | dWaitCtx => stream_cases h => exact ⟨⟨a, by simp_all [logTail]⟩⟩
  | dSend w => stream_cases h => exact ⟨⟨a, by simp_all [logTail]⟩⟩
  | dSendCtx => stream_cases h => exact ⟨⟨a, by simp_all [logTail]⟩⟩
  | dCloseIn =>
    have hcs := hs.closesSource
    stream_cases h => first | (exfalso; simp_all; done) | exact ⟨⟨a, by simp_all [logTail]⟩⟩
  | srcCloseRet => stream_cases h => exact ⟨⟨a, by simp_all [logTail]⟩⟩
  | dEgDone => stream_cases h => exact ⟨⟨a, by simp_all [logTail, egRecord]⟩⟩
  | wEgDone w => stream_cases h => exact ⟨⟨a, by simp_all [logTail, egRecord]⟩⟩
  | _ => stream_cases h => exact ⟨⟨a, by simp_all [logTail]⟩⟩

theorem invL {cfg : Cfg} (hs : cfg.code.Sound) {s : St} (h : Reach cfg s) : InvL cfg s := by
  induction h with
  | init => exact invL_init cfg
  | step _ hstep ih => exact invL_step hs ih hstep

end Juniper.Proofs.ParMap.S
