import Juniper.Proofs.IterDen
/-!
# Every combinator of `iterator.go` denotes its list function (C07)

One lemma per combinator: `Den m cost s L e → Den (C m) (cost ∘ inner) st (C_spec L) e'`, by induction
on the derivation. The annotation carries the source pull count through, which gives the laziness
clause in closed form.
-/
namespace Juniper.Proofs.IterDen
open Juniper.Model.Iter Juniper.Spec Juniper.Gen.Comb
universe u v w x
variable {σ : Type u} {σ' : Type w} {α β : Type v} {γ : Type x}

theorem after_add (m : IM σ α) (a b : Nat) (s : σ) : after m (a + b) s = after m b (after m a s) := by
  induction a generalizing s with
  | zero => simp [after]
  | succ a iha => rw [Nat.add_right_comm]; simp only [after]; exact iha _

theorem Ended.after {m : IM σ α} {s : σ} (h : Ended m s) (k : Nat) : Ended m (after m k s) := by
  intro n
  have := h (k + n)
  rwa [after_add] at this

/-- Once the inner iterator has ended, a wrapper that (under an invariant `Q` on its own state)
answers `done` and either leaves its inner state alone or moves it as the inner machine does, has
ended too, and the cost stays put. -/
theorem ended_wrapper {m : IM σ α} {m' : IM σ' γ} {cost : σ → Nat} (proj : σ' → σ) (Q : σ' → Prop)
    (hsim : ∀ t, Q t → Ended m (proj t) →
      (m'.step t).1 = .done ∧ Q (m'.step t).2 ∧
        (proj (m'.step t).2 = (m.step (proj t)).2 ∨ proj (m'.step t).2 = proj t))
    {t : σ'} (hQ : Q t) (he : Ended m (proj t)) (hc : ∀ n, cost (after m n (proj t)) = cost (proj t)) :
    Ended m' t ∧ ∀ n, cost (proj (after m' n t)) = cost (proj t) := by
  have key : ∀ n, Q (after m' n t) ∧ ∃ k, proj (after m' n t) = after m k (proj t) := by
    intro n
    induction n generalizing t with
    | zero => exact ⟨hQ, 0, rfl⟩
    | succ n ih =>
      obtain ⟨_, h2, h3⟩ := hsim t hQ he
      simp only [after]
      rcases h3 with h3 | h3
      · have he' : Ended m (proj (m'.step t).2) := by rw [h3]; exact he.step.2
        have hc' : ∀ n, cost (after m n (proj (m'.step t).2)) = cost (proj (m'.step t).2) := by
          intro k
          rw [h3]
          have := hc (k + 1)
          have h0 := hc 1
          simp only [after] at this h0
          rw [this, h0]
        obtain ⟨hq, k, hk⟩ := ih h2 he' hc'
        refine ⟨hq, k + 1, ?_⟩
        rw [hk, h3]
        rfl
      · have he' : Ended m (proj (m'.step t).2) := by rw [h3]; exact he
        have hc' : ∀ n, cost (after m n (proj (m'.step t).2)) = cost (proj (m'.step t).2) := by
          intro k; rw [h3]; exact hc k
        obtain ⟨hq, k, hk⟩ := ih h2 he' hc'
        exact ⟨hq, k, by rw [hk, h3]⟩
  constructor
  · intro n
    obtain ⟨hq, k, hk⟩ := key n
    have hen : Ended m (proj (after m' n t)) := by rw [hk]; exact he.after k
    exact (hsim _ hq hen).1
  · intro n
    obtain ⟨_, k, hk⟩ := key n
    rw [hk]
    exact hc k

/-- a state that answers `done` and does not move has ended -/
theorem ended_fixed {m : IM σ α} {s : σ} (h : m.step s = (.done, s)) :
    Ended m s ∧ ∀ n, after m n s = s := by
  have key : ∀ n, after m n s = s := by
    intro n
    induction n with
    | zero => rfl
    | succ n ih => simp only [after, h]; exact ih
  exact ⟨fun n => by rw [key n, h], key⟩

/-! ## sources -/

/-- annotate the items of a list source: the `i`-th item is delivered when `p + i + 1` items have been pulled -/
def annot (p : Nat) : List α → List (α × Nat)
  | [] => []
  | a :: l => (a, p + 1) :: annot (p + 1) l

theorem annot_fst (p : Nat) (l : List α) : (annot p l).map Prod.fst = l := by
  induction l generalizing p with
  | nil => rfl
  | cons a l ih => simp [annot, ih]

theorem src_ended (c p : Nat) : Ended (src (α := α)) ⟨[], c, p⟩ ∧
    ∀ n, (after (src (α := α)) n ⟨[], c, p⟩).pulled = p := by
  have key : ∀ n c, (after (src (α := α)) n ⟨[], c, p⟩) = ⟨[], c + n, p⟩ := by
    intro n
    induction n with
    | zero => intro c; rfl
    | succ n ih =>
      intro c
      simp only [after]
      have : (src (α := α)).step ⟨[], c, p⟩ = (.done, ⟨[], c + 1, p⟩) := by
        simp [src, srcStep, itSliceDone]
      rw [this, ih]
      congr 1
      omega
  constructor
  · intro n
    rw [key]
    simp [src, srcStep, itSliceDone]
  · intro n
    rw [key]

/-- `iterator.Slice(l)` yields `l`; the `i`-th item costs `i` pulls. -/
theorem src_den (l : List α) (c p : Nat) :
    Den src (fun s : Src α => s.pulled) ⟨l, c, p⟩ (annot p l) (p + l.length) := by
  have _tie := Skeleton.Tie.itSlice
  induction l generalizing c p with
  | nil =>
    have h := src_ended (α := α) (c + 1) p
    have : Den src (fun s : Src α => s.pulled) ⟨[], c, p⟩ [] ((fun s : Src α => s.pulled) ⟨[], c + 1, p⟩) :=
      .done (by simp [src, srcStep, itSliceDone]) h.1 h.2
    simpa [annot] using this
  | cons a l ih =>
    have hstep : (src (α := α)).step ⟨a :: l, c, p⟩ = (.item a, ⟨l, c + 1, p + 1⟩) := by
      simp [src, srcStep, itSliceDone]
      omega
    have := Den.item (cost := fun s : Src α => s.pulled) hstep (ih (c + 1) (p + 1))
    simp only [annot, List.length_cons]
    have e : p + (l.length + 1) = p + 1 + l.length := by omega
    rw [e]
    exact this

/-! ## stateless wrappers -/

theorem map_den (f : α → β) {m : IM σ α} {cost : σ → Nat} {s : σ} {L : List (α × Nat)} {e : Nat}
    (h : Den m cost s L e) : Den (map f m) cost s (L.map fun p => (f p.1, p.2)) e := by
  have _tie := Skeleton.Tie.itMap
  induction h with
  | skip hs _ ih => exact .skip (by simp [map, hs]) ih
  | item hs _ ih => exact .item (by simp [map, hs]) ih
  | @done s s' hs he hc =>
    have := ended_wrapper (m := m) (m' := map f m) (cost := cost) id (fun _ => True) (by
      intro t _ het
      obtain ⟨t', hx, _⟩ := Ended.step' het
      simp only [id] at hx ⊢
      simp [map, hx]) trivial he hc
    exact .done (by simp [map, hs]) this.1 this.2

theorem filter_den (keep : α → Bool) {m : IM σ α} {cost : σ → Nat} {s : σ} {L : List (α × Nat)} {e : Nat}
    (h : Den m cost s L e) : Den (filter keep m) cost s (L.filter fun p => keep p.1) e := by
  have _tie := Skeleton.Tie.itFilter
  induction h with
  | skip hs _ ih => exact .skip (by simp [filter, hs]) ih
  | @item s s' a L e hs _ ih =>
    by_cases hk : keep a = true
    · simp only [List.filter_cons, hk, if_true]
      exact .item (by simp [filter, hs, hk]) ih
    · simp only [List.filter_cons, hk]
      exact .skip (by simp [filter, hs, hk]) ih
  | @done s s' hs he hc =>
    have := ended_wrapper (m := m) (m' := filter keep m) (cost := cost) id (fun _ => True) (by
      intro t _ het
      obtain ⟨t', hx, _⟩ := Ended.step' het
      simp only [id] at hx ⊢
      simp [filter, hx]) trivial he hc
    exact .done (by simp [filter, hs]) this.1 this.2

/-! ## Chunk -/

/-- `Spec.chunkGo` on annotated items: a chunk is delivered with its last item, the trailing
partial chunk when the source reports the end (cost `e`). -/
def chunkGoA (n : Nat) : List α → List (α × Nat) → Nat → List (List α × Nat)
  | pend, [], e => if pend.length > 0 then [(pend, e)] else []
  | pend, (a, c) :: L, e =>
    if (pend ++ [a]).length = n then (pend ++ [a], c) :: chunkGoA n [] L e else chunkGoA n (pend ++ [a]) L e

theorem chunkGoA_fst (n : Nat) (pend : List α) (L : List (α × Nat)) (e : Nat) :
    (chunkGoA n pend L e).map Prod.fst = Seq.chunkGo n pend (L.map Prod.fst) := by
  induction L generalizing pend with
  | nil => simp only [chunkGoA, Seq.chunkGo, List.map_nil]; split <;> simp
  | cons p L ih =>
    obtain ⟨a, c⟩ := p
    simp only [chunkGoA, Seq.chunkGo, List.map_cons]
    split <;> simp [ih]

theorem chunk_ended {m : IM σ α} {cost : σ → Nat} (size : Int) {s : σ} (he : Ended m s)
    (hc : ∀ n, cost (after m n s) = cost s) :
    Ended (chunk size m) ⟨s, []⟩ ∧
      ∀ n, cost (after (chunk size m) n ⟨s, []⟩).inner = cost s := by
  have := ended_wrapper (m := m) (m' := chunk size m) (cost := cost) (fun st => st.inner)
    (fun st => st.pend = []) (by
      intro t hq het
      obtain ⟨t', hx, _⟩ := Ended.step' het
      simp [chunk, hx, hq, itChunkFlush]) (t := ⟨s, []⟩) rfl he hc
  exact this

theorem chunk_den (n : Nat) {m : IM σ α} {cost : σ → Nat} {s : σ} {L : List (α × Nat)} {e : Nat}
    (h : Den m cost s L e) (pend : List α) :
    Den (chunk (n : Int) m) (fun st => cost st.inner) ⟨s, pend⟩ (chunkGoA n pend L e) e := by
  have _tie := Skeleton.Tie.itChunk
  induction h generalizing pend with
  | skip hs _ ih => exact .skip (by simp [chunk, hs]) (ih pend)
  | @item s s' a L e hs _ ih =>
    simp only [chunkGoA]
    by_cases hf : (pend ++ [a]).length = n
    · rw [if_pos hf]
      exact .item (s' := (⟨s', []⟩ : ChunkSt σ α)) (by simp at hf; simp [chunk, hs, itChunkFull]; omega) (ih [])
    · rw [if_neg hf]
      exact .skip (s' := (⟨s', pend ++ [a]⟩ : ChunkSt σ α)) (by simp at hf; simp [chunk, hs, itChunkFull]; omega) (ih _)
  | @done s s' hs he hc =>
    have hw := chunk_ended (cost := cost) (n : Int) he hc
    have hd := den_of_ended (cost := fun st : ChunkSt σ α => cost st.inner) hw.1 hw.2
    simp only [chunkGoA]
    by_cases hp : pend.length > 0
    · rw [if_pos hp]
      have hne : pend ≠ [] := by intro h; simp [h] at hp
      exact .item (s' := (⟨s', []⟩ : ChunkSt σ α)) (by simp [chunk, hs, itChunkFlush, hne]) hd
    · rw [if_neg hp]
      have hnil : pend = [] := by cases pend with | nil => rfl | cons _ _ => simp at hp
      exact .done (s' := (⟨s', []⟩ : ChunkSt σ α)) (by simp [chunk, hs, itChunkFlush, hnil]) hw.1 hw.2


/-! ## Compact -/

theorem compact_ended {m : IM σ α} {cost : σ → Nat} (eq : α → α → Bool) {s : σ} (f : Bool) (p : Option α)
    (he : Ended m s) (hc : ∀ n, cost (after m n s) = cost s) :
    Ended (compact eq m) ⟨s, f, p⟩ ∧ ∀ n, cost (after (compact eq m) n ⟨s, f, p⟩).inner = cost s :=
  ended_wrapper (m := m) (m' := compact eq m) (cost := cost) (fun st => st.inner) (fun _ => True) (by
      intro t _ het
      obtain ⟨t', hx, _⟩ := Ended.step' het
      simp [compact, hx]) (t := ⟨s, f, p⟩) trivial he hc

/-- `CompactFunc`: the state `(first, prev)` is `P` = the last item kept, if any. -/
theorem compact_den (eq : α → α → Bool) {m : IM σ α} {cost : σ → Nat} {s : σ} {L : List (α × Nat)} {e : Nat}
    (h : Den m cost s L e) (P : Option (α × Nat)) :
    Den (compact eq m) (fun st => cost st.inner) ⟨s, P.isNone, P.map Prod.fst⟩
      (Seq.compactGo (fun p q => eq p.1 q.1) P L) e := by
  have _tie := Skeleton.Tie.itCompact
  induction h generalizing P with
  | skip hs _ ih => exact .skip (by simp [compact, hs]) (ih P)
  | @item s s' a L e hs _ ih =>
    cases P with
    | none =>
      simp only [Seq.compactGo]
      exact .item (s' := (⟨s', false, some a⟩ : CompactSt σ α))
        (by simp [compact, hs, itCompactSetsPrev, itCompactClearsFirst]) (ih (some (a, cost s')))
    | some p =>
      simp only [Seq.compactGo]
      by_cases hq : eq p.1 a = true
      · rw [if_pos hq]
        exact .skip (s' := (⟨s', false, some p.1⟩ : CompactSt σ α))
          (by simp [compact, hs, hq]) (ih (some p))
      · rw [if_neg hq]
        exact .item (s' := (⟨s', false, some a⟩ : CompactSt σ α))
          (by simp [compact, hs, hq, itCompactSetsPrev]) (ih (some (a, cost s')))
  | @done s s' hs he hc =>
    have hw := compact_ended (cost := cost) eq P.isNone (P.map Prod.fst) he hc
    cases L0 : (Seq.compactGo (fun (p q : α × Nat) => eq p.1 q.1) P []) with
    | nil => exact .done (s' := (⟨s', P.isNone, P.map Prod.fst⟩ : CompactSt σ α)) (by simp [compact, hs]) hw.1 hw.2
    | cons x xs => cases P <;> simp [Seq.compactGo] at L0

/-! ## While -/

/-- cost at which `While` reports the end: with the first failing item, else with the source's end -/
def whileEnd (f : α → Bool) : List (α × Nat) → Nat → Nat
  | [], e => e
  | (a, c) :: L, e => if f a then whileEnd f L e else c

theorem while_den (f : α → Bool) {m : IM σ α} {cost : σ → Nat} {s : σ} {L : List (α × Nat)} {e : Nat}
    (h : Den m cost s L e) :
    Den (while_ f m) (fun st => cost st.inner) ⟨s, false⟩ (L.takeWhile fun p => f p.1) (whileEnd f L e) := by
  have _tie := Skeleton.Tie.itWhile
  induction h with
  | skip hs _ ih => exact .skip (by simp [while_, hs, itWhileDone]) ih
  | @item s s' a L e hs _ ih =>
    by_cases hf : f a = true
    · simp only [List.takeWhile_cons, hf, whileEnd, if_true]
      exact .item (s' := (⟨s', false⟩ : WhileSt σ)) (by simp [while_, hs, hf, itWhileDone]) ih
    · simp only [List.takeWhile_cons, hf, whileEnd]
      have hfix : (while_ f m).step ⟨s', true⟩ = (.done, ⟨s', true⟩) := by simp [while_, itWhileDone]
      have hw := ended_fixed hfix
      exact .done (s' := (⟨s', true⟩ : WhileSt σ)) (by simp [while_, hs, hf, itWhileDone, itWhileSetsDone]) hw.1
        (fun n => by rw [hw.2 n])
  | @done s s' hs he hc =>
    have hw := ended_wrapper (m := m) (m' := while_ f m) (cost := cost) (fun st => st.inner)
      (fun st => st.done = false) (by
        intro t hq het
        obtain ⟨t', hx, _⟩ := Ended.step' het
        simp [while_, hx, hq, itWhileDone]) (t := ⟨s', false⟩) rfl he hc
    exact .done (s' := (⟨s', false⟩ : WhileSt σ)) (by simp [while_, hs, itWhileDone]) hw.1 hw.2

/-! ## Peekable -/

theorem peek_ended {m : IM σ α} {cost : σ → Nat} {s : σ}
    (he : Ended m s) (hc : ∀ n, cost (after m n s) = cost s) :
    Ended (withPeek m) ⟨s, none⟩ ∧ ∀ n, cost (after (withPeek m) n ⟨s, none⟩).inner = cost s :=
  ended_wrapper (m := m) (m' := withPeek m) (cost := cost) (fun st => st.inner) (fun st => st.curr = none) (by
      intro t hq het
      obtain ⟨t', hx, _⟩ := Ended.step' het
      simp [withPeek, peekNext, hx, hq, itPeekNextHas]) (t := ⟨s, none⟩) rfl he hc

/-- `WithPeek(iter)` with nothing buffered is `iter`. -/
theorem peek_den {m : IM σ α} {cost : σ → Nat} {s : σ} {L : List (α × Nat)} {e : Nat}
    (h : Den m cost s L e) : Den (withPeek m) (fun st => cost st.inner) ⟨s, none⟩ L e := by
  have _tie := Skeleton.Tie.itPeek
  induction h with
  | skip hs _ ih => exact .skip (by simp [withPeek, peekNext, hs, itPeekNextHas]) ih
  | @item s s' a L e hs _ ih =>
    exact .item (s' := (⟨s', none⟩ : PeekSt σ α)) (by simp [withPeek, peekNext, hs, itPeekNextHas]) ih
  | @done s s' hs he hc =>
    have hw := peek_ended (cost := cost) he hc
    exact .done (s' := (⟨s', none⟩ : PeekSt σ α)) (by simp [withPeek, peekNext, hs, itPeekNextHas]) hw.1 hw.2

/-- with an item buffered, it comes first (at no further cost) -/
theorem peek_den_has {m : IM σ α} {cost : σ → Nat} {s : σ} {L : List (α × Nat)} {e : Nat} (a : α)
    (h : Den m cost s L e) : Den (withPeek m) (fun st => cost st.inner) ⟨s, some a⟩ ((a, cost s) :: L) e :=
  .item (s' := (⟨s, none⟩ : PeekSt σ α)) (by simp [withPeek, peekNext, itPeekNextHas, itPeekNextClearsHas]) (peek_den h)

/-- `Peek` never changes what the iterator denotes, and answers its first item (or the end). -/
theorem peekPeek_den {m : IM σ α} {cost : σ → Nat} {p : PeekSt σ α} {L : List (α × Nat)} {e : Nat}
    (h : Den (withPeek m) (fun st => cost st.inner) p L e) :
    Den (withPeek m) (fun st => cost st.inner) (peekPeek m p).2 L e ∧
      ((peekPeek m p).1 = .skip ∨ (peekPeek m p).1 = .done ∧ L = [] ∨
        ∃ a c L', L = (a, c) :: L' ∧ (peekPeek m p).1 = .item a) := by
  have _tie := Skeleton.Tie.itPeek
  obtain ⟨s, curr⟩ := p
  cases curr with
  | some a =>
    refine ⟨by simpa [peekPeek, itPeekPulls] using h, Or.inr (Or.inr ?_)⟩
    cases h with
    | skip hs _ => simp [withPeek, peekNext, itPeekNextHas] at hs
    | item hs h' =>
      simp [withPeek, peekNext, itPeekNextHas] at hs
      obtain ⟨rfl, _⟩ := hs
      exact ⟨_, _, _, rfl, by simp [peekPeek, itPeekPulls]⟩
    | done hs _ _ => simp [withPeek, peekNext, itPeekNextHas] at hs
  | none =>
    rcases hx : m.step s with ⟨r, s'⟩
    cases r with
    | skip =>
      refine ⟨?_, Or.inl (by simp [peekPeek, itPeekPulls, hx])⟩
      cases h with
      | skip hs h' =>
        simp [withPeek, peekNext, itPeekNextHas, hx] at hs
        simpa [peekPeek, itPeekPulls, hx, hs] using h'
      | item hs _ => simp [withPeek, peekNext, itPeekNextHas, hx] at hs
      | done hs _ _ => simp [withPeek, peekNext, itPeekNextHas, hx] at hs
    | done =>
      cases h with
      | skip hs _ => simp [withPeek, peekNext, itPeekNextHas, hx] at hs
      | item hs _ => simp [withPeek, peekNext, itPeekNextHas, hx] at hs
      | done hs he hc =>
        simp [withPeek, peekNext, itPeekNextHas, hx] at hs
        subst hs
        refine ⟨?_, Or.inr (Or.inl ⟨by simp [peekPeek, itPeekPulls, hx], rfl⟩)⟩
        have := den_of_ended (cost := fun st : PeekSt σ α => cost st.inner) he hc
        simpa [peekPeek, itPeekPulls, hx] using this
    | item a =>
      cases h with
      | skip hs _ => simp [withPeek, peekNext, itPeekNextHas, hx] at hs
      | done hs _ _ => simp [withPeek, peekNext, itPeekNextHas, hx] at hs
      | @item _ t' a' L' _ hs h' =>
        simp [withPeek, peekNext, itPeekNextHas, hx] at hs
        obtain ⟨rfl, rfl⟩ := hs
        refine ⟨?_, Or.inr (Or.inr ⟨_, _, _, rfl, by simp [peekPeek, itPeekPulls, hx]⟩)⟩
        have : Den (withPeek m) (fun st => cost st.inner) ⟨s', some a⟩ ((a, cost s') :: L') e :=
          .item (s' := (⟨s', none⟩ : PeekSt σ α))
            (by simp [withPeek, peekNext, itPeekNextHas, itPeekNextClearsHas]) h'
        simpa [peekPeek, itPeekPulls, hx] using this


/-! ## First -/

/-- cost at which `First(iter, k)` reports the end: after `k` items it needs no further pull -/
def firstEnd : Nat → Nat → List (α × Nat) → Nat → Nat
  | c0, 0, _, _ => c0
  | _, _ + 1, [], e => e
  | _, k + 1, (_, c) :: L, e => firstEnd c k L e

theorem firstEnd_succ (c0 c1 k : Nat) (L : List (α × Nat)) (e : Nat) :
    firstEnd c0 (k + 1) L e = firstEnd c1 (k + 1) L e := by
  cases L with
  | nil => rfl
  | cons p L => obtain ⟨a, c⟩ := p; rfl

theorem first_done_fixed (m : IM σ α) (s : σ) (x : Int) (hx : x ≤ 0) :
    (first m).step ⟨s, x, false⟩ = (.done, ⟨s, x, false⟩) := by
  simp [first, itFirstDone, hx]

/-- `First`: `⟨s, x, false⟩` is about to check `x`; `⟨s, x, true⟩` has decremented and is inside `inner.Next()`. -/
theorem first_den {m : IM σ α} {cost : σ → Nat} {s : σ} {L : List (α × Nat)} {e : Nat}
    (h : Den m cost s L e) :
    (∀ x : Int, Den (first m) (fun st => cost st.inner) ⟨s, x, false⟩ (L.take x.toNat) (firstEnd (cost s) x.toNat L e)) ∧
    (∀ x : Int, 0 ≤ x → Den (first m) (fun st => cost st.inner) ⟨s, x, true⟩ (L.take (x.toNat + 1))
        (firstEnd (cost s) (x.toNat + 1) L e)) := by
  have _tie := Skeleton.Tie.itFirst
  have hzero : ∀ (s : σ) (x : Int) (L : List (α × Nat)) (e : Nat), x ≤ 0 →
      Den (first m) (fun st => cost st.inner) ⟨s, x, false⟩ (L.take x.toNat) (firstEnd (cost s) x.toNat L e) := by
    intro s x L e hx
    have h0 : x.toNat = 0 := by omega
    have hw := ended_fixed (first_done_fixed m s x hx)
    have := den_of_ended (cost := fun st : FirstSt σ => cost st.inner) hw.1 (fun n => by rw [hw.2 n])
    simpa [h0, firstEnd] using this
  induction h with
  | @skip s s' L e hs _ ih =>
    constructor
    · intro x
      by_cases hx : x ≤ 0
      · exact hzero s x L e hx
      · have h1 : x.toNat = (x - 1).toNat + 1 := by omega
        rw [h1, firstEnd_succ (cost s) (cost s')]
        exact .skip (s' := (⟨s', x - 1, true⟩ : FirstSt σ))
          (by simp [first, hs, itFirstDone, itFirstDecrements]; omega) (ih.2 (x - 1) (by omega))
    · intro x hx
      rw [firstEnd_succ (cost s) (cost s')]
      exact .skip (s' := (⟨s', x, true⟩ : FirstSt σ)) (by simp [first, hs]) (ih.2 x hx)
  | @item s s' a L e hs _ ih =>
    constructor
    · intro x
      by_cases hx : x ≤ 0
      · exact hzero s x _ e hx
      · have h1 : x.toNat = (x - 1).toNat + 1 := by omega
        rw [h1]
        simp only [List.take_succ_cons, firstEnd]
        exact .item (s' := (⟨s', x - 1, false⟩ : FirstSt σ))
          (by simp [first, hs, itFirstDone, itFirstDecrements]; omega) (ih.1 (x - 1))
    · intro x hx
      simp only [List.take_succ_cons, firstEnd]
      exact .item (s' := (⟨s', x, false⟩ : FirstSt σ)) (by simp [first, hs]) (ih.1 x)
  | @done s s' hs he hc =>
    -- after the inner end, every state with inCall = false has ended
    have hw : ∀ x : Int, Ended (first m) ⟨s', x, false⟩ ∧
        ∀ n, cost (after (first m) n ⟨s', x, false⟩).inner = cost s' := by
      intro x
      exact ended_wrapper (m := m) (m' := first m) (cost := cost) (fun st => st.inner)
        (fun st => st.inCall = false) (by
          intro t hq het
          obtain ⟨t', hx, _⟩ := Ended.step' het
          obtain ⟨ti, tx, tc⟩ := t
          simp only at hq hx
          subst hq
          by_cases hd : tx ≤ 0
          · simp [first, itFirstDone, hd]
          · simp [first, itFirstDone, hd, hx]) (t := ⟨s', x, false⟩) rfl he hc
    constructor
    · intro x
      by_cases hx : x ≤ 0
      · exact hzero s x [] _ hx
      · have h1 : x.toNat = (x - 1).toNat + 1 := by omega
        rw [h1]
        simp only [List.take_nil, firstEnd]
        exact .done (s' := (⟨s', x - 1, false⟩ : FirstSt σ))
          (by simp [first, hs, itFirstDone, itFirstDecrements]; omega) (hw _).1 (hw _).2
    · intro x hx
      simp only [List.take_nil, firstEnd]
      exact .done (s' := (⟨s', x, false⟩ : FirstSt σ)) (by simp [first, hs]) (hw _).1 (hw _).2

/-! ## Counter, Repeat, Empty -/

theorem empty_den : Den (empty (α := α)) (fun _ => 0) () [] 0 :=
  den_of_ended (cost := fun _ => 0) (ended_fixed (m := empty (α := α)) (s := ()) (by simp [empty, itEmptyOk])).1 (fun _ => rfl)

theorem counter_den (n i : Int) (k : Nat) (hk : n - i = k ∨ (n ≤ i ∧ k = 0)) :
    Den (counter n) (fun _ => 0) i ((List.range k).map fun (j : Nat) => ((i + (j : Int)), 0)) 0 := by
  have _tie := Skeleton.Tie.itCounter
  induction k generalizing i with
  | zero =>
    have hi : n ≤ i := by omega
    have hfix : (counter n).step i = (.done, i) := by simp [counter, itCounterDone, hi]
    exact den_of_ended (cost := fun _ => 0) (ended_fixed hfix).1 (fun _ => rfl)
  | succ k ih =>
    have hi : ¬ n ≤ i := by omega
    have hstep : (counter n).step i = (.item i, i + 1) := by simp [counter, itCounterDone, hi, itCounterAdvances, itCounterItem]
    have := Den.item (cost := fun _ => 0) hstep (ih (i + 1) (by omega))
    have e : (List.range (k + 1)).map (fun (j : Nat) => ((i + (j : Int)), 0)) =
        (i, 0) :: (List.range k).map (fun (j : Nat) => ((i + 1 + (j : Int)), 0)) := by
      rw [List.range_succ_eq_map]
      simp only [List.map_cons, List.map_map]
      congr 1
      · simp
      · apply List.map_congr_left
        intro j _
        simp only [Function.comp]
        congr 1
        omega
    rw [e]
    exact this

theorem repeat_den (a : α) (x : Int) :
    Den (repeat_ a) (fun _ => 0) x (List.replicate x.toNat (a, 0)) 0 := by
  have _tie := Skeleton.Tie.itRepeat
  generalize hk : x.toNat = k
  induction k generalizing x with
  | zero =>
    have hx : x ≤ 0 := by omega
    have hfix : (repeat_ a).step x = (.done, x) := by simp [repeat_, itRepeatDone, hx]
    exact den_of_ended (cost := fun _ => 0) (ended_fixed hfix).1 (fun _ => rfl)
  | succ k ih =>
    have hx : ¬ x ≤ 0 := by omega
    have hstep : (repeat_ a).step x = (.item a, x - 1) := by simp [repeat_, itRepeatDone, hx, itRepeatDecrements]
    exact .item (cost := fun _ => 0) hstep (ih (x - 1) (by omega))

variable {τ : Type w}

/-! ## Flatten, Join -/

theorem flatten_inner {mo : IM σ τ} {mi : IM τ α} {co : σ → Nat} {ci : τ → Nat} {so : σ} {c : τ}
    {Li : List (α × Nat)} {ei : Nat} (hi : Den mi ci c Li ei) {rest : List (α × Nat)} {e : Nat}
    (hr : Den (flatten mo mi) (fun st => co st.outer) ⟨so, none⟩ rest e) :
    Den (flatten mo mi) (fun st => co st.outer) ⟨so, some c⟩ (Li.map (fun p => (p.1, co so)) ++ rest) e := by
  induction hi with
  | skip hs _ ih => exact .skip (s' := (⟨so, some _⟩ : FlattenSt σ τ)) (by simp [flatten, hs]) ih
  | item hs _ ih => exact .item (s' := (⟨so, some _⟩ : FlattenSt σ τ)) (by simp [flatten, hs]) ih
  | done hs _ _ => exact .skip (s' := (⟨so, none⟩ : FlattenSt σ τ)) (by simp [flatten, hs, itFlattenClearsCurr]) hr

/-- `Flatten`: every inner iterator `c` yielded by the outer one denotes `D c`; the result is the
concatenation, each item costing what the outer iterator had cost when its inner iterator arrived. -/
theorem flatten_den {mo : IM σ τ} {mi : IM τ α} {co : σ → Nat} (D : τ → List α) {so : σ}
    {Lo : List (τ × Nat)} {eo : Nat} (ho : Den mo co so Lo eo)
    (hD : ∀ p ∈ Lo, ∃ (ci : τ → Nat) (Li : List (α × Nat)) (ei : Nat), Den mi ci p.1 Li ei ∧ Li.map Prod.fst = D p.1) :
    Den (flatten mo mi) (fun st => co st.outer) ⟨so, none⟩
      (Lo.flatMap fun p => (D p.1).map fun a => (a, p.2)) eo := by
  have _tie := Skeleton.Tie.itFlatten
  induction ho with
  | skip hs _ ih => exact .skip (s' := (⟨_, none⟩ : FlattenSt σ τ)) (by simp [flatten, hs]) (ih hD)
  | @item s s' c L e hs _ ih =>
    obtain ⟨ci, Li, ei, hi, hLi⟩ := hD (c, co s') (by simp)
    have hrest := ih (fun p hp => hD p (by simp [hp]))
    have := flatten_inner (mo := mo) (co := co) (so := s') hi hrest
    simp only [List.flatMap_cons]
    rw [← hLi, List.map_map]
    exact .skip (s' := (⟨s', some c⟩ : FlattenSt σ τ)) (by simp [flatten, hs]) this
  | @done s s' hs he hc =>
    have hw := ended_wrapper (m := mo) (m' := flatten mo mi) (cost := co) (fun st => st.outer)
      (fun st => st.curr = none) (by
        intro t hq het
        obtain ⟨t', hx, _⟩ := Ended.step' het
        simp [flatten, hx, hq]) (t := ⟨s', none⟩) rfl he hc
    exact .done (s' := (⟨s', none⟩ : FlattenSt σ τ)) (by simp [flatten, hs]) hw.1 hw.2

theorem join_nil {m : IM σ α} : Den (join m) (fun _ => 0) [] [] 0 :=
  den_of_ended (cost := fun _ => 0) (ended_fixed (m := join m) (s := []) rfl).1 (fun _ => rfl)

theorem join_head {m : IM σ α} {ci : σ → Nat} {s : σ} {Li : List (α × Nat)} {ei : Nat} (hi : Den m ci s Li ei)
    (r : List σ) {rest : List (α × Nat)} (hr : Den (join m) (fun _ => 0) r rest 0) :
    Den (join m) (fun _ => 0) (s :: r) (Li.map (fun p => (p.1, 0)) ++ rest) 0 := by
  induction hi with
  | skip hs _ ih => exact .skip (s' := _ :: r) (by simp [join, hs]) ih
  | item hs _ ih => exact .item (s' := _ :: r) (by simp [join, hs]) ih
  | done hs _ _ => exact .skip (s' := r) (by simp [join, hs, itJoinAdvances]) hr

/-- `Join(iters...)` yields the concatenation. -/
theorem join_den {m : IM σ α} (D : σ → List α) (ss : List σ)
    (hD : ∀ s ∈ ss, ∃ (ci : σ → Nat) (Li : List (α × Nat)) (ei : Nat), Den m ci s Li ei ∧ Li.map Prod.fst = D s) :
    Den (join m) (fun _ => 0) ss ((ss.flatMap D).map fun a => (a, 0)) 0 := by
  have _tie := Skeleton.Tie.itJoin
  induction ss with
  | nil => exact join_nil
  | cons s r ih =>
    obtain ⟨ci, Li, ei, hi, hLi⟩ := hD s (by simp)
    have := join_head hi r (ih (fun s hs => hD s (by simp [hs])))
    simp only [List.flatMap_cons, List.map_append]
    rw [← hLi, List.map_map]
    exact this

end Juniper.Proofs.IterDen
