import Juniper.Proofs.TreeHistory
import Juniper.Proofs.TreeFacts
/-!
# Cursor navigation (C01 ranges, C02 iterators)

A cursor position `(id, i)` is located through `pathTo` (the model's stand-in for parent pointers).
`Zip root y up`: `up` is the path from node `y` up to the root; `ctxBefore`/`ctxAfter` are the in-order
entries left and right of `y`'s subtree. `cursor.Next` is shown to move to the in-order successor.
-/
namespace Juniper.Proofs.Tree
open Juniper.Model.BTree Juniper.Gen.Tree

variable {K V : Type} {α : Type} {cmp : K → K → Int}

/-- `up` is the path from `y` up to `root`: frames `(ancestor, index of the child taken)`, innermost first -/
def Zip (root : Node K V) : Node K V → List (Node K V × Nat) → Prop
  | y, [] => y = root
  | y, (p, j) :: up => p.kids[j]? = some y ∧ Zip root p up

/-- in-order entries left of the subtree reached by the path -/
def ctxBefore : List (Node K V × Nat) → List (K × V)
  | [] => []
  | (p, j) :: up => ctxBefore up ++ pre ((p.kids.take j).map toList) (p.kvs.take j)

/-- in-order entries right of the subtree reached by the path -/
def ctxAfter : List (Node K V × Nat) → List (K × V)
  | [] => []
  | (p, j) :: up => rest ((p.kids.drop (j + 1)).map toList) (p.kvs.drop j) ++ ctxAfter up

/-- every node on the path has `n+1` children -/
def PathOK : List (Node K V × Nat) → Prop
  | [] => True
  | (p, _) :: up => p.kids.length = p.kvs.length + 1 ∧ PathOK up

theorem zip_toList {root : Node K V} : ∀ (up : List (Node K V × Nat)) (y : Node K V), Zip root y up → PathOK up →
    toList root = ctxBefore up ++ toList y ++ ctxAfter up := by
  intro up
  induction up with
  | nil => intro y hz _; simp only [Zip] at hz; subst hz; simp [ctxBefore, ctxAfter]
  | cons f up ih =>
    obtain ⟨p, j⟩ := f
    intro y hz hp
    obtain ⟨hc, hz'⟩ := hz
    obtain ⟨hl, hp'⟩ := hp
    rw [ih p hz' hp']
    obtain ⟨pid, pkvs, pkids⟩ := p
    simp only [Node.kids, Node.kvs] at hc hl ⊢
    rw [toList_at_child_self hl hc]
    simp [ctxBefore, ctxAfter, Node.kids, Node.kvs]

/-- the balance of the root gives the structure of every node on a path, and the balance of its end -/
theorem zip_bal {root : Node K V} : ∀ (up : List (Node K V × Nat)) (y : Node K V) (h : Nat), Bal h root → Zip root y up →
    PathOK up ∧ ∃ h', Bal h' y ∧ (up ≠ [] → Occ y) := by
  intro up
  induction up with
  | nil =>
    intro y h hb hz; simp only [Zip] at hz; subst hz
    exact ⟨trivial, h, hb, fun h => absurd rfl h⟩
  | cons f up ih =>
    obtain ⟨p, j⟩ := f
    intro y h hb hz
    obtain ⟨hc, hz'⟩ := hz
    obtain ⟨hp, h', hbp, _⟩ := ih p h hb hz'
    obtain ⟨pid, pkvs, pkids⟩ := p
    simp only [Node.kids] at hc
    have hne : pkids ≠ [] := by intro h0; subst h0; simp at hc
    obtain ⟨h'', rfl, hlen, hall⟩ := bal_inner hne hbp
    have := hall y (List.mem_of_getElem? hc)
    exact ⟨⟨hlen, hp⟩, h'', this.1, fun _ => this.2⟩

/-! ## `pathTo` -/

theorem pathTo_spec (id : Nat) (x : Node K V) :
    ∀ fr y, pathTo id x = some (fr, y) → Zip x y fr.reverse ∧ y.id = id := by
  apply pathTo.induct id
    (motive_1 := fun x => ∀ fr y, pathTo id x = some (fr, y) → Zip x y fr.reverse ∧ y.id = id)
    (motive_2 := fun kids j0 => ∀ j fr y, pathIn id kids j0 = some (j, fr, y) →
      ∃ c, j0 ≤ j ∧ kids[j - j0]? = some c ∧ Zip c y fr.reverse ∧ y.id = id)
  · intro kvs kids fr y h
    simp only [pathTo, if_true, Option.some.injEq, Prod.mk.injEq] at h
    obtain ⟨rfl, rfl⟩ := h
    exact ⟨rfl, rfl⟩
  · intro i kvs kids hne j fr y hin ih fr' y' h
    simp only [pathTo, hne, if_false, hin, Option.some.injEq, Prod.mk.injEq] at h
    obtain ⟨rfl, rfl⟩ := h
    obtain ⟨c, _, hc, hz, hid⟩ := ih j fr y hin
    refine ⟨?_, hid⟩
    simp only [List.reverse_cons]
    -- append a frame at the outer end
    have app : ∀ (up : List (Node K V × Nat)) (z : Node K V), Zip c z up → Zip (.mk i kvs kids) z (up ++ [(.mk i kvs kids, j)]) := by
      intro up
      induction up with
      | nil => intro z hz; simp only [Zip] at hz; subst hz; exact ⟨by simpa [Node.kids] using hc, rfl⟩
      | cons f up ihu => intro z hz; obtain ⟨q, jq⟩ := f; exact ⟨hz.1, ihu q hz.2⟩
    exact app _ _ hz
  · intro i kvs kids hne hin _ fr y h
    simp [pathTo, hne, hin] at h
  · intro j0 j fr y h; simp [pathIn] at h
  · intro c cs j0 fr y hp ih j fr' y' h
    simp only [pathIn, hp, Option.some.injEq, Prod.mk.injEq] at h
    obtain ⟨rfl, rfl, rfl⟩ := h
    obtain ⟨hz, hid⟩ := ih fr y hp
    exact ⟨c, Nat.le_refl _, by simp, hz, hid⟩
  · intro c cs j0 hp _ ih j fr y h
    simp only [pathIn, hp] at h
    obtain ⟨d, hle, hd, hz, hid⟩ := ih j fr y h
    refine ⟨d, by omega, ?_, hz, hid⟩
    have : j - j0 = (j - (j0 + 1)) + 1 := by omega
    rw [this]; simpa using hd


theorem zip_snoc {x c : Node K V} {j : Nat} (hc : x.kids[j]? = some c) :
    ∀ (up : List (Node K V × Nat)) (z : Node K V), Zip c z up → Zip x z (up ++ [(x, j)]) := by
  intro up
  induction up with
  | nil => intro z hz; simp only [Zip] at hz; subst hz; exact ⟨hc, rfl⟩
  | cons f up ihu => intro z hz; obtain ⟨q, jq⟩ := f; exact ⟨hz.1, ihu q hz.2⟩

theorem zip_snoc_inv {x p : Node K V} {j : Nat} :
    ∀ (up : List (Node K V × Nat)) (z : Node K V), Zip x z (up ++ [(p, j)]) →
      p = x ∧ ∃ c, x.kids[j]? = some c ∧ Zip c z up := by
  intro up
  induction up with
  | nil =>
    intro z hz
    simp only [List.nil_append, Zip] at hz
    obtain ⟨h1, h2⟩ := hz
    subst h2
    exact ⟨rfl, z, h1, rfl⟩
  | cons f up ihu =>
    intro z hz
    obtain ⟨q, jq⟩ := f
    simp only [List.cons_append, Zip] at hz
    obtain ⟨h1, h2⟩ := hz
    obtain ⟨e, c, hc, hz'⟩ := ihu q h2
    exact ⟨e, c, hc, h1, hz'⟩

/-- occurrences of an identity along a path -/
theorem zip_cnt {root : Node K V} (i : Nat) : ∀ (up : List (Node K V × Nat)) (y : Node K V), Zip root y up →
    cnt i y ≤ cnt i root ∧ (up ≠ [] → cnt i y ≤ cntK i root.kids) := by
  intro up
  induction up with
  | nil => intro y hz; simp only [Zip] at hz; subst hz; exact ⟨Nat.le_refl _, fun h => absurd rfl h⟩
  | cons f up ih =>
    obtain ⟨p, j⟩ := f
    intro y hz
    obtain ⟨hc, hz'⟩ := hz
    obtain ⟨h1, h2⟩ := ih p hz'
    have h3 := cntK_at hc i
    obtain ⟨pid, pkvs, pkids⟩ := p
    simp only [Node.kids] at h3
    rw [cnt_mk] at h1 h2
    constructor
    · omega
    · intro _
      cases up with
      | nil => simp only [Zip] at hz'; subst hz'; simp only [Node.kids]; omega
      | cons g up' => have := h2 (by simp); omega


theorem cnt_self_pos (y : Node K V) : 1 ≤ cnt y.id y := by
  obtain ⟨id, kvs, kids⟩ := y
  rw [cnt_mk]; simp [Node.id]

theorem eq_nil_or_snoc (l : List α) : l = [] ∨ ∃ L b, l = L ++ [b] := by
  induction l with
  | nil => left; rfl
  | cons a l ih =>
    right
    rcases ih with rfl | ⟨L, b, rfl⟩
    · exact ⟨[], a, rfl⟩
    · exact ⟨a :: L, b, rfl⟩

theorem pathTo_unique (id : Nat) (x : Node K V) :
    ∀ up y, Zip x y up → (∀ i, cnt i x ≤ 1) → y.id = id → pathTo id x = some (up.reverse, y) := by
  apply pathTo.induct id
    (motive_1 := fun x => ∀ up y, Zip x y up → (∀ i, cnt i x ≤ 1) → y.id = id → pathTo id x = some (up.reverse, y))
    (motive_2 := fun kids j0 => ∀ j c up y, kids[j]? = some c → Zip c y up → (∀ i, cntK i kids ≤ 1) → y.id = id →
      pathIn id kids j0 = some (j0 + j, up.reverse, y))
  · intro kvs kids up y hz hone hid
    have hup : up = [] := by
      rcases eq_nil_or_snoc up with h | ⟨L, b, rfl⟩
      · exact h
      · have h1 := (zip_cnt id _ y hz).2 (by simp)
        have h2 := cnt_self_pos y
        rw [hid] at h2
        have h3 := hone id
        rw [cnt_mk] at h3
        simp only [Node.kids] at h1
        simp at h3; omega
    subst hup
    simp only [Zip] at hz; subst hz
    simp [pathTo]
  · intro i kvs kids hne j fr y0 hin ih up y hz hone hid
    rcases eq_nil_or_snoc up with rfl | ⟨L, b, rfl⟩
    · simp only [Zip] at hz; subst hz; exact absurd hid hne
    · obtain ⟨p, j'⟩ := b
      obtain ⟨rfl, c, hc, hz'⟩ := zip_snoc_inv L y hz
      have hk : ∀ i', cntK i' kids ≤ 1 := by
        intro i'; have := hone i'; rw [cnt_mk] at this; omega
      have := ih j' c L y (by simpa [Node.kids] using hc) hz' hk hid
      simp only [pathTo, hne, if_false, this, Nat.zero_add, List.reverse_append, List.reverse_cons, List.reverse_nil,
        List.nil_append, List.cons_append]
  · intro i kvs kids hne hin ih up y hz hone hid
    rcases eq_nil_or_snoc up with rfl | ⟨L, b, rfl⟩
    · simp only [Zip] at hz; subst hz; exact absurd hid hne
    · obtain ⟨p, j'⟩ := b
      obtain ⟨rfl, c, hc, hz'⟩ := zip_snoc_inv L y hz
      have hk : ∀ i', cntK i' kids ≤ 1 := by
        intro i'; have := hone i'; rw [cnt_mk] at this; omega
      have := ih j' c L y (by simpa [Node.kids] using hc) hz' hk hid
      rw [hin] at this; cases this
  · intro j0 j c up y hc; simp at hc
  · intro c0 cs j0 fr y0 hp ih1 j c up y hc hz hone hid
    cases j with
    | zero =>
      simp only [List.getElem?_cons_zero, Option.some.injEq] at hc; subst hc
      have hk : ∀ i', cnt i' c0 ≤ 1 := by
        intro i'; have := hone i'; rw [cntK_cons] at this; omega
      have := ih1 up y hz hk hid
      simp only [pathIn, this, Nat.add_zero]
    | succ j' =>
      simp only [List.getElem?_cons_succ] at hc
      exfalso
      obtain ⟨hz0, hid0⟩ := pathTo_spec id c0 fr y0 hp
      have h1 := (zip_cnt id _ y0 hz0).1
      have h2 := cnt_self_pos y0
      rw [hid0] at h2
      have h3 := (zip_cnt id _ y hz).1
      have h4 := cnt_self_pos y
      rw [hid] at h4
      have h5 := hone id
      rw [cntK_cons, cntK_at hc id] at h5
      omega
  · intro c0 cs j0 hp ih1 ih2 j c up y hc hz hone hid
    cases j with
    | zero =>
      simp only [List.getElem?_cons_zero, Option.some.injEq] at hc; subst hc
      have hk : ∀ i', cnt i' c0 ≤ 1 := by
        intro i'; have := hone i'; rw [cntK_cons] at this; omega
      have := ih1 up y hz hk hid
      rw [hp] at this; cases this
    | succ j' =>
      simp only [List.getElem?_cons_succ] at hc
      have hk : ∀ i', cntK i' cs ≤ 1 := by
        intro i'; have := hone i'; rw [cntK_cons] at this; omega
      have := ih2 j' c up y hc hz hk hid
      simp only [pathIn, hp, this]
      congr 2; omega

/-- entries of `y`'s subtree before / after its own entry `i` -/
def locBefore (y : Node K V) (i : Nat) : List (K × V) := inorder ((y.kids.take (i + 1)).map toList) (y.kvs.take i)
def locAfter (y : Node K V) (i : Nat) : List (K × V) := inorder ((y.kids.drop (i + 1)).map toList) (y.kvs.drop (i + 1))

theorem toList_at_entry {y : Node K V} {i : Nat} {e : K × V}
    (hk : y.kids = [] ∨ y.kids.length = y.kvs.length + 1) (he : y.kvs[i]? = some e) :
    toList y = locBefore y i ++ e :: locAfter y i := by
  obtain ⟨id, kvs, kids⟩ := y
  simp only [Node.kids, Node.kvs, locBefore, locAfter] at hk he ⊢
  have hi : i < kvs.length := (List.getElem?_eq_some_iff.mp he).1
  have := toList_at_sep' (id := id) hk hi e
  rw [← (split_at_getElem? he).1] at this
  exact this

/-- `pre` of `n+1` children and `n+1` entries is the node's list up to and including entry `n` -/
theorem pre_succ_eq (kids : List (Node K V)) (kvs : List (K × V)) (i : Nat) {e : K × V}
    (hl : i + 1 ≤ kids.length) (he : kvs[i]? = some e) :
    pre ((kids.take (i + 1)).map toList) (kvs.take (i + 1)) =
      inorder ((kids.take (i + 1)).map toList) (kvs.take i) ++ [e] := by
  have hi : i < kvs.length := (List.getElem?_eq_some_iff.mp he).1
  have hc : kids[i]? = some kids[i] := List.getElem?_eq_getElem (by omega)
  have h1 : kids.take (i + 1) = kids.take i ++ [kids[i]] := by rw [List.take_add_one, hc]; rfl
  have h2 : kvs.take (i + 1) = kvs.take i ++ [e] := by rw [List.take_add_one, he]; rfl
  rw [h1, h2, List.map_append, List.map_cons, List.map_nil, pre_snoc _ _ _ _ (by simp; omega),
    inorder_eq_pre_last _ _ _ (by simp; omega)]

theorem posAt_eq {x : Node K V} {i : Nat} {e : K × V} (he : x.kvs[i]? = some e) :
    posAt x i = some ⟨x.id, i, e.1⟩ := by simp [posAt, he]

theorem climbNext_spec {root : Node K V} : ∀ (up : List (Node K V × Nat)) (y : Node K V), Zip root y up → PathOK up →
    (ctxAfter up = [] → climbNext up = none) ∧
    (∀ e' A', ctxAfter up = e' :: A' → ∃ q j up', climbNext up = some ⟨q.id, j, e'.1⟩ ∧ Zip root q up' ∧ PathOK up' ∧
      q.kvs[j]? = some e' ∧ (q.kids.length = q.kvs.length + 1) ∧
      ctxBefore up' ++ locBefore q j = ctxBefore up ++ toList y ∧ locAfter q j ++ ctxAfter up' = A') := by
  intro up
  induction up with
  | nil => intro y _ _; exact ⟨fun _ => rfl, fun e' A' h => by simp [ctxAfter] at h⟩
  | cons f up ih =>
    obtain ⟨p, j⟩ := f
    intro y hz hp
    obtain ⟨hc, hz'⟩ := hz
    obtain ⟨hl, hp'⟩ := hp
    obtain ⟨pid, pkvs, pkids⟩ := p
    simp only [Node.kids, Node.kvs] at hc hl
    have hjl : j < pkids.length := (List.getElem?_eq_some_iff.mp hc).1
    have hidx : (nextClimbIdx (j : Int)).toNat = j := by simp [nextClimbIdx]
    by_cases hj : j < pkvs.length
    · -- stop at this ancestor
      have hstop : nextClimbStop (nextClimbIdx (j : Int)) (Node.mk pid pkvs pkids).n = true := by
        simp [nextClimbStop, nextClimbIdx, node_n]; omega
      have hkv : pkvs[j]? = some pkvs[j] := List.getElem?_eq_getElem hj
      have hdk : pkvs.drop j = pkvs[j] :: pkvs.drop (j + 1) := List.drop_eq_getElem_cons hj
      have hB : ∃ d ds, (pkids.drop (j + 1)).map toList = d :: ds := by
        have : j + 1 < pkids.length := by omega
        rw [List.drop_eq_getElem_cons this]; exact ⟨_, _, rfl⟩
      obtain ⟨d, ds, hB⟩ := hB
      have hafter : ctxAfter ((Node.mk pid pkvs pkids, j) :: up) =
          pkvs[j] :: (locAfter (Node.mk pid pkvs pkids) j ++ ctxAfter up) := by
        simp only [ctxAfter, Node.kids, Node.kvs, hdk, hB, rest_cons_cons, locAfter, List.cons_append]
      refine ⟨fun h => (by rw [hafter] at h; cases h), ?_⟩
      intro e' A' h
      rw [hafter] at h
      simp only [List.cons.injEq] at h
      obtain ⟨rfl, rfl⟩ := h
      refine ⟨Node.mk pid pkvs pkids, j, up, ?_, hz', hp', hkv, hl, ?_, rfl⟩
      · simp only [climbNext, hstop, if_true, hidx]
        exact posAt_eq hkv
      · simp only [ctxBefore, Node.kids, Node.kvs, locBefore, List.append_assoc]
        congr 1
        have h1 : pkids.take (j + 1) = pkids.take j ++ [y] := by rw [List.take_add_one, hc]; rfl
        rw [h1, List.map_append, List.map_cons, List.map_nil, inorder_eq_pre_last _ _ _ (by simp; omega)]
    · -- this ancestor is exhausted too: continue upwards
      have hstop : nextClimbStop (nextClimbIdx (j : Int)) (Node.mk pid pkvs pkids).n = false := by
        simp [nextClimbStop, nextClimbIdx, node_n]; omega
      have hdk : pkvs.drop j = [] := by simp; omega
      have hafter : ctxAfter ((Node.mk pid pkvs pkids, j) :: up) = ctxAfter up := by
        simp only [ctxAfter, Node.kvs, hdk, rest_nil_right, List.nil_append]
      have hclimb : climbNext ((Node.mk pid pkvs pkids, j) :: up) = climbNext up := by
        simp only [climbNext, hstop, Bool.false_eq_true, if_false]
      have hlist : toList (Node.mk pid pkvs pkids) =
          pre ((pkids.take j).map toList) (pkvs.take j) ++ toList y := by
        rw [toList_at_child_self hl hc, hdk, rest_nil_right, List.append_nil]
      obtain ⟨i1, i2⟩ := ih (Node.mk pid pkvs pkids) hz' hp'
      rw [hafter, hclimb]
      refine ⟨i1, ?_⟩
      intro e' A' h
      obtain ⟨q, j', up', h1, h2, h3, h4, h5, h6, h7⟩ := i2 e' A' h
      refine ⟨q, j', up', h1, h2, h3, h4, h5, ?_, h7⟩
      rw [h6, hlist]
      simp only [ctxBefore, Node.kids, Node.kvs, List.append_assoc]


theorem pathOK_append : ∀ (a b : List (Node K V × Nat)), PathOK (a ++ b) ↔ PathOK a ∧ PathOK b := by
  intro a
  induction a with
  | nil => intro b; simp [PathOK]
  | cons f a ih => intro b; obtain ⟨p, j⟩ := f; simp [PathOK, ih, and_assoc]

theorem leftmost_spec {root : Node K V} (c : Node K V) :
    ∀ h, Bal h c → 1 ≤ c.n → ∀ up, Zip root c up → PathOK up →
      ∃ sp e, Zip root (leftmostLeaf c) (sp ++ up) ∧ PathOK (sp ++ up) ∧ (leftmostLeaf c).kvs[0]? = some e ∧
        (leftmostLeaf c).kids = [] ∧
        ctxBefore (sp ++ up) ++ locBefore (leftmostLeaf c) 0 = ctxBefore up ∧
        e :: (locAfter (leftmostLeaf c) 0 ++ ctxAfter (sp ++ up)) = toList c ++ ctxAfter up := by
  have hmin : (1 : Int) ≤ minKVs := by decide
  fun_induction leftmostLeaf c with
  | case1 id kvs kids hnone =>
    intro h hb hn up hz hp
    have hk : kids = [] := by
      cases kids with
      | nil => rfl
      | cons _ _ => simp at hnone
    subst hk
    simp only [node_n] at hn
    cases kvs with
    | nil => simp at hn
    | cons e kvs' =>
      refine ⟨[], e, by simpa using hz, by simpa using hp, by simp [Node.kvs], rfl, ?_, ?_⟩
      · simp [locBefore, Node.kids, Node.kvs, inorder]
      · simp [locAfter, Node.kids, Node.kvs, inorder]
  | case2 id kvs kids d hd ih =>
    intro h hb hn up hz hp
    have hne : kids ≠ [] := by intro h0; subst h0; simp at hd
    obtain ⟨h', rfl, hlen, hall⟩ := bal_inner hne hb
    have hdm := List.mem_of_getElem? hd
    have hz' : Zip root d ((Node.mk id kvs kids, 0) :: up) := ⟨by simpa [Node.kids] using hd, hz⟩
    have hp' : PathOK ((Node.mk id kvs kids, 0) :: up) := ⟨by simpa [Node.kids, Node.kvs] using hlen, hp⟩
    obtain ⟨sp, e, h1, h2, h3, h3', h4, h5⟩ := ih h' (hall d hdm).1 (by have := (hall d hdm).2.1; omega) _ hz' hp'
    refine ⟨sp ++ [(Node.mk id kvs kids, 0)], e, by simpa using h1, by simpa using h2, h3, h3', ?_, ?_⟩
    · rw [List.append_assoc]; simp only [List.singleton_append]
      rw [h4]; simp [ctxBefore]
    · rw [List.append_assoc]; simp only [List.singleton_append]
      rw [h5]
      cases kids with
      | nil => exact absurd rfl hne
      | cons d' ds =>
        simp only [List.getElem?_cons_zero, Option.some.injEq] at hd; subst hd
        simp [ctxAfter, Node.kids, Node.kvs, toList_mk, inorder]

/-- the cursor is parked on entry `e` of node `y`, reached from the root by `up` -/
structure At (root : Node K V) (p : Pos K) (y : Node K V) (up : List (Node K V × Nat)) (e : K × V) : Prop where
  zip : Zip root y up
  idEq : y.id = p.id
  entry : y.kvs[p.i]? = some e

/-- everything before / after the cursor's entry in the whole tree -/
def befOf (up : List (Node K V × Nat)) (y : Node K V) (i : Nat) : List (K × V) := ctxBefore up ++ locBefore y i
def aftOf (up : List (Node K V × Nat)) (y : Node K V) (i : Nat) : List (K × V) := locAfter y i ++ ctxAfter up

theorem node_struct {h : Nat} {y : Node K V} (hb : Bal h y) : y.kids = [] ∨ y.kids.length = y.kvs.length + 1 := by
  obtain ⟨id, kvs, kids⟩ := y
  rcases bal_cases.mp hb with ⟨_, rfl⟩ | ⟨_, _, hl, _⟩
  · left; rfl
  · right; exact hl

theorem at_toList {root : Node K V} {h : Nat} (hb : Bal h root) {p : Pos K} {y : Node K V}
    {up : List (Node K V × Nat)} {e : K × V} (ha : At root p y up e) :
    toList root = befOf up y p.i ++ e :: aftOf up y p.i := by
  obtain ⟨hp, h', hby, _⟩ := zip_bal up y h hb ha.zip
  rw [zip_toList up y ha.zip hp, toList_at_entry (node_struct hby) ha.entry]
  simp [befOf, aftOf]

theorem next_step {root : Node K V} {h : Nat} (t : Tree K V) (ht : t.root = root) (hb : Bal h root)
    (hone : ∀ i, cnt i root ≤ 1) {p : Pos K} {y : Node K V} {up : List (Node K V × Nat)} {e : K × V}
    (ha : At root p y up e) :
    (aftOf up y p.i = [] → nextCore t p = none) ∧
    (∀ e' A', aftOf up y p.i = e' :: A' → ∃ p' y' up', nextCore t p = some p' ∧ At root p' y' up' e' ∧ p'.k = e'.1 ∧
      befOf up' y' p'.i = befOf up y p.i ++ [e] ∧ aftOf up' y' p'.i = A') := by
  obtain ⟨hp, h', hby, hocc⟩ := zip_bal up y h hb ha.zip
  have hpath : pathTo p.id t.root = some (up.reverse, y) := by
    rw [ht]; exact pathTo_unique p.id root up y ha.zip hone ha.idEq
  obtain ⟨yid, kvs, kids⟩ := y
  have hent := ha.entry
  simp only [Node.kvs] at hent
  have hi : p.i < kvs.length := (List.getElem?_eq_some_iff.mp hent).1
  rcases bal_cases.mp hby with ⟨rfl, rfl⟩ | ⟨h'', rfl, hlen, hall⟩
  · -- the cursor is in a leaf
    have hla : locAfter (Node.mk yid kvs []) p.i = kvs.drop (p.i + 1) := by simp [locAfter, Node.kids, Node.kvs, inorder]
    have hlb : ∀ i, locBefore (Node.mk yid kvs []) i = kvs.take i := by intro i; simp [locBefore, Node.kids, Node.kvs, inorder]
    by_cases hn : p.i + 1 < kvs.length
    · have hstay : nextLeafStay (((p.i : Nat) : Int) + 1) (Node.mk yid kvs []).n = true := by
        simp only [nextLeafStay, node_n]; exact decide_eq_true (by omega)
      have hkv : kvs[p.i + 1]? = some kvs[p.i + 1] := List.getElem?_eq_getElem hn
      have hnc : nextCore t p = some ⟨yid, p.i + 1, kvs[p.i + 1].1⟩ := by
        have e1 : (((p.i : Nat) : Int) + 1).toNat = p.i + 1 := by omega
        simp only [nextCore, hpath, List.reverse_reverse, Node.isLeaf, Node.kids, List.isEmpty_nil, if_true, hstay, e1]
        exact posAt_eq (x := Node.mk yid kvs []) hkv
      have haft : aftOf up (Node.mk yid kvs []) p.i = kvs[p.i + 1] :: (kvs.drop (p.i + 2) ++ ctxAfter up) := by
        simp only [aftOf, hla, List.drop_eq_getElem_cons hn, List.cons_append]
      refine ⟨fun h0 => (by rw [haft] at h0; cases h0), ?_⟩
      intro e' A' h0
      rw [haft] at h0
      simp only [List.cons.injEq] at h0
      obtain ⟨rfl, rfl⟩ := h0
      refine ⟨⟨yid, p.i + 1, kvs[p.i + 1].1⟩, Node.mk yid kvs [], up, hnc, ⟨ha.zip, rfl, hkv⟩, rfl, ?_, ?_⟩
      · simp only [befOf, hlb, List.append_assoc]
        congr 1
        rw [List.take_add_one, hent]; rfl
      · simp only [aftOf, locAfter, Node.kids, Node.kvs, List.drop_nil, List.map_nil, inorder]
    · -- last entry of the leaf: climb
      have hstay : nextLeafStay (((p.i : Nat) : Int) + 1) (Node.mk yid kvs []).n = false := by
        simp only [nextLeafStay, node_n]; exact decide_eq_false (by omega)
      have hnc : nextCore t p = climbNext up := by
        simp only [nextCore, hpath, List.reverse_reverse, Node.isLeaf, Node.kids, List.isEmpty_nil, if_true, hstay,
          Bool.false_eq_true, if_false]
      have hd : kvs.drop (p.i + 1) = [] := by simp; omega
      have haft : aftOf up (Node.mk yid kvs []) p.i = ctxAfter up := by simp [aftOf, hla, hd]
      have hwhole : toList (Node.mk yid kvs []) = locBefore (Node.mk yid kvs []) p.i ++ [e] := by
        rw [toList_at_entry (Or.inl rfl) ha.entry, hla, hd]
      obtain ⟨i1, i2⟩ := climbNext_spec up (Node.mk yid kvs []) ha.zip hp
      rw [haft, hnc]
      refine ⟨i1, ?_⟩
      intro e' A' h0
      obtain ⟨q, j, up', g1, g2, g3, g4, g5, g6, g7⟩ := i2 e' A' h0
      refine ⟨⟨q.id, j, e'.1⟩, q, up', g1, ⟨g2, rfl, g4⟩, rfl, ?_, g7⟩
      simp only [befOf]
      rw [g6, hwhole, List.append_assoc]
  · -- the cursor is in an inner node: descend to the leftmost leaf of the next child
    have hdesc : nextInnerDescend (p.i : Int) (Node.mk yid kvs kids).n = true := by
      simp only [nextInnerDescend, node_n]; exact decide_eq_true (by omega)
    have hci : (nextChildIdx (p.i : Int)).toNat = p.i + 1 := by simp only [nextChildIdx]; omega
    have hcl : p.i + 1 < kids.length := by omega
    have hc : kids[p.i + 1]? = some kids[p.i + 1] := List.getElem?_eq_getElem hcl
    have hcm := List.mem_of_getElem? hc
    have hne : kids ≠ [] := by intro h0; subst h0; simp at hcl
    have hleaf : (Node.mk yid kvs kids).isLeaf = false := by
      simp [Node.isLeaf, Node.kids, hne]
    have hnc : nextCore t p = posAt (leftmostLeaf kids[p.i + 1]) 0 := by
      simp only [nextCore, hpath, hleaf, Bool.false_eq_true, if_false, hdesc, if_true, hci, Node.kids, hc]
    have hz' : Zip root kids[p.i + 1] ((Node.mk yid kvs kids, p.i + 1) :: up) := ⟨by simp [Node.kids], ha.zip⟩
    have hp' : PathOK ((Node.mk yid kvs kids, p.i + 1) :: up) := ⟨by simpa [Node.kids, Node.kvs] using hlen, hp⟩
    have hmin : (1 : Int) ≤ minKVs := by decide
    obtain ⟨sp, e1, g1, g2, g3, g3', g4, g5⟩ := leftmost_spec kids[p.i + 1] h'' (hall _ hcm).1
      (by have := (hall _ hcm).2.1; omega) _ hz' hp'
    have hdk : kids.drop (p.i + 1) = kids[p.i + 1] :: kids.drop (p.i + 2) := List.drop_eq_getElem_cons hcl
    have haft : aftOf up (Node.mk yid kvs kids) p.i =
        e1 :: (locAfter (leftmostLeaf kids[p.i + 1]) 0 ++ ctxAfter (sp ++ (Node.mk yid kvs kids, p.i + 1) :: up)) := by
      rw [g5]
      simp only [aftOf, locAfter, Node.kids, Node.kvs, hdk, List.map_cons, inorder, ctxAfter, List.append_assoc]
    refine ⟨fun h0 => (by rw [haft] at h0; cases h0), ?_⟩
    intro e' A' h0
    rw [haft] at h0
    simp only [List.cons.injEq] at h0
    obtain ⟨rfl, rfl⟩ := h0
    refine ⟨⟨(leftmostLeaf kids[p.i + 1]).id, 0, e1.1⟩, leftmostLeaf kids[p.i + 1], _, ?_, ⟨g1, rfl, g3⟩, rfl, ?_, rfl⟩
    · rw [hnc]; exact posAt_eq g3
    · simp only [befOf]
      rw [g4]
      simp only [ctxBefore, Node.kids, Node.kvs, locBefore, List.append_assoc]
      congr 1
      exact pre_succ_eq kids kvs p.i (by omega) hent

end Juniper.Proofs.Tree
