import Juniper.Proofs.PQIndex
/-!
# Priority-queue operations keep the index map exact and refine a finite map key → priority
-/
set_option linter.unusedSimpArgs false
set_option linter.unusedVariables false
set_option linter.unusedSectionVars false
namespace Juniper.Proofs.PQ
open Juniper.Gen.Heap Juniper.Model.Heap Juniper.Model.PQ Juniper.Spec.Heap Juniper.Proofs.Heap

variable {K P : Type} [DecidableEq K]

/-- The key → index map is exact: keys are distinct, and `m k = i` iff the array holds `k` at `i`. -/
def IndexInv (q : PQ K P) : Prop :=
  (keysOf q.h.a).Nodup ∧
  ∀ k v, mGet q.m k = some v ↔ ∃ (i : Nat) (p : P), v = (i : Int) ∧ q.h.a[i]? = some (k, p)

/-- the queue holds key `k` with priority `p` -/
def Holds (q : PQ K P) (k : K) (p : P) : Prop := (k, p) ∈ q.h.a

/-- no entry for a key that is not in the array -/
def Dom (m : IdxMap K) (a : List (KP K P)) : Prop := ∀ k, (mGet m k).isSome → k ∈ keysOf a

theorem mem_keysOf {a : List (KP K P)} {k : K} : k ∈ keysOf a ↔ ∃ (i : Nat) (p : P), a[i]? = some (k, p) := by
  simp only [keysOf, List.mem_map]
  constructor
  · rintro ⟨⟨k', p⟩, hm, rfl⟩
    obtain ⟨i, hi⟩ := List.getElem?_of_mem hm
    exact ⟨i, p, hi⟩
  · rintro ⟨i, p, hi⟩
    exact ⟨(k, p), List.mem_of_getElem? hi, rfl⟩

theorem indexInv_of {h : Heap (KP K P)} {m : IdxMap K} (nd : (keysOf h.a).Nodup) (hi : Idx m h.a)
    (hd : Dom m h.a) : IndexInv ({ h := h, m := m } : PQ K P) := by
  refine ⟨nd, ?_⟩
  intro k v
  constructor
  · intro hv
    obtain ⟨i, p, hip⟩ := mem_keysOf.mp (hd k (by simp [hv]))
    have := hi i k p hip
    rw [hv] at this; cases this
    exact ⟨i, p, rfl, hip⟩
  · rintro ⟨i, p, rfl, hip⟩
    exact hi i k p hip

theorem IndexInv.idx {q : PQ K P} (h : IndexInv q) : Idx q.m q.h.a :=
  fun i k p hip => (h.2 k i).mpr ⟨i, p, rfl, hip⟩

theorem IndexInv.dom {q : PQ K P} (h : IndexInv q) : Dom q.m q.h.a := by
  intro k hk
  obtain ⟨v, hv⟩ := Option.isSome_iff_exists.mp hk
  obtain ⟨i, p, _, hip⟩ := (h.2 k v).mp hv
  exact mem_keysOf.mpr ⟨i, p, hip⟩

theorem holds_functional {q : PQ K P} (h : IndexInv q) {k : K} {p p' : P} (h1 : Holds q k p)
    (h2 : Holds q k p') : p = p' := by
  obtain ⟨i, hi⟩ := List.getElem?_of_mem h1
  obtain ⟨j, hj⟩ := List.getElem?_of_mem h2
  have := keys_inj h.1 hi hj
  subst this
  rw [hi] at hj; cases hj; rfl

/-! ## strict weak order on pairs -/

theorem lessKP_sw {less : P → P → Bool} (sw : StrictWeak less) : StrictWeak (lessKP (K := K) less) := by
  refine ⟨?_, ?_, ?_⟩
  · intro a; simp [lessKP, pqLessWrap, sw.irrefl]
  · intro a b c; simp only [lessKP, pqLessWrap]; exact sw.trans _ _ _
  · intro a b c; simp only [lessKP, pqLessWrap]; exact sw.incomp_trans _ _ _

/-! ## domain bookkeeping -/

theorem dom_applyNotes_of {m : IdxMap K} {a b : List (KP K P)} {notes : List (Note (KP K P))}
    (hm : ∀ k, (mGet m k).isSome → k ∈ keysOf b) (hn : ∀ n ∈ notes, n.1 ∈ a)
    (hab : ∀ x ∈ a, x.1 ∈ keysOf b) : ∀ k, (mGet (applyNotes m notes) k).isSome → k ∈ keysOf b := by
  intro k hk
  rcases dom_applyNotes m notes k hk with h | ⟨n, hn', rfl⟩
  · exact hm k h
  · exact hab _ (hn n hn')

theorem mem_keys_of_mem {a : List (KP K P)} {x : KP K P} (h : x ∈ a) : x.1 ∈ keysOf a :=
  List.mem_map.mpr ⟨x, h, rfl⟩

/-! ## removal core (Pop, Remove) -/

theorem remove_core {a a' : List (KP K P)} {m2 : IdxMap K} {k : K} {p0 : P} {g : Int}
    (nd : (keysOf a).Nodup) (hperm : ((k, p0) :: a').Perm a) (hidx : Idx m2 a')
    (hdom : ∀ k', (mGet m2 k').isSome → k' ∈ keysOf a) :
    IndexInv ({ h := { a := a', gen := g }, m := mDel m2 k } : PQ K P) ∧
    (∀ k' p', (k', p') ∈ a' ↔ k' ≠ k ∧ (k', p') ∈ a) := by
  have hk : (k :: keysOf a').Perm (keysOf a) := by simpa [keysOf] using keysOf_perm hperm
  have nd' : (k :: keysOf a').Nodup := hk.nodup_iff.mpr nd
  rw [List.nodup_cons] at nd'
  obtain ⟨hknot, nda'⟩ := nd'
  constructor
  · apply indexInv_of nda'
    · intro i k' p' hi
      have : k ≠ k' := fun e => hknot (by subst e; exact mem_keysOf.mpr ⟨i, p', hi⟩)
      rw [mGet_mDel]; simp [this]; exact hidx i k' p' hi
    · intro k' hk'
      rw [mGet_mDel] at hk'
      by_cases e : k = k'
      · simp [e] at hk'
      · simp [e] at hk'
        have := hk.symm.subset (hdom k' hk')
        simp at this
        rcases this with rfl | h
        · exact absurd rfl e
        · exact h
  · intro k' p'
    constructor
    · intro hm
      refine ⟨fun e => hknot (by subst e; exact mem_keys_of_mem hm), hperm.subset (List.mem_cons_of_mem _ hm)⟩
    · rintro ⟨hne, hm⟩
      have := hperm.symm.subset hm
      simp at this
      rcases this with ⟨rfl, _⟩ | h
      · exact absurd rfl hne
      · exact h

/-! ## `Update` -/

theorem update_eq (less : P → P → Bool) (q : PQ K P) (k : K) (p : P) :
    update less q k p =
      match mGet q.m k with
      | some idx =>
        if idx < 0 then none else
        match Juniper.Model.Heap.updateAt (lessKP less) q.h idx.toNat (k, p) with
        | none => none
        | some (h', notes) => some { h := h', m := applyNotes q.m notes }
      | none => some { h := (Juniper.Model.Heap.push (lessKP less) q.h (k, p)).1,
                       m := applyNotes q.m (Juniper.Model.Heap.push (lessKP less) q.h (k, p)).2 } := by
  unfold update idxOf
  cases h : mGet q.m k with
  | none => simp [updateExisting, updateCallsUpdateAt, updateCallsPush]
  | some v => simp [updateExisting, updateCallsUpdateAt, updateCallsPush]; rfl

theorem mem_set_iff {a : List (KP K P)} (nd : (keysOf a).Nodup) {i : Nat} {k : K} {p0 p : P}
    (hi : a[i]? = some (k, p0)) (k' : K) (p' : P) :
    (k', p') ∈ a.set i (k, p) ↔ (k' = k ∧ p' = p) ∨ (k' ≠ k ∧ (k', p') ∈ a) := by
  have hil : i < a.length := by
    rcases Nat.lt_or_ge i a.length with h | h
    · exact h
    · rw [List.getElem?_eq_none h] at hi; cases hi
  constructor
  · intro hm
    obtain ⟨l, hl⟩ := List.getElem?_of_mem hm
    rw [List.getElem?_set] at hl
    by_cases e : i = l
    · simp [e, hil] at hl
      subst e; simp [hil] at hl; exact Or.inl ⟨hl.1.symm, hl.2.symm⟩
    · simp [e] at hl
      refine Or.inr ⟨fun ek => e ?_, List.mem_of_getElem? hl⟩
      subst ek; exact keys_inj nd hi hl
  · rintro (⟨rfl, rfl⟩ | ⟨hne, hm⟩)
    · apply List.mem_of_getElem? (i := i)
      rw [List.getElem?_set]; simp [hil]
    · obtain ⟨l, hl⟩ := List.getElem?_of_mem hm
      have e : i ≠ l := fun e => hne (by subst e; rw [hi] at hl; cases hl; rfl)
      apply List.mem_of_getElem? (i := l)
      rw [List.getElem?_set]; simp [e, hl]

theorem keysOf_set_same {a : List (KP K P)} {i : Nat} {k : K} {p0 p : P} (hi : a[i]? = some (k, p0)) :
    keysOf (a.set i (k, p)) = keysOf a := by
  apply List.ext_getElem?
  intro l
  simp only [keysOf, List.getElem?_map, List.getElem?_set]
  by_cases e : i = l
  · subst e
    have hil : i < a.length := by
      rcases Nat.lt_or_ge i a.length with h | h
      · exact h
      · rw [List.getElem?_eq_none h] at hi; cases hi
    have : a[i] = (k, p0) := by simpa [List.getElem?_eq_getElem hil] using hi
    simp [hil, this]
  · simp [e]

/-- `Update` of a key that is present: never panics, index map exact, mapping updated at `k` only. -/
theorem update_existing {less : P → P → Bool} {q : PQ K P} (hq : IndexInv q) {k : K} {p0 : P} (p : P)
    (hk : Holds q k p0) :
    ∃ q', update less q k p = some q' ∧ IndexInv q' ∧
      (∀ k' p', Holds q' k' p' ↔ (k' = k ∧ p' = p) ∨ (k' ≠ k ∧ Holds q k' p')) ∧
      (∃ i y notes, q.h.a[i]? = some y ∧ Juniper.Model.Heap.updateAt (lessKP less) q.h i (k, p) = some (q'.h, notes)) := by
  obtain ⟨i, hi⟩ := List.getElem?_of_mem hk
  have hm : mGet q.m k = some (i : Int) := hq.idx i k p0 hi
  have hil : i < q.h.a.length := by
    rcases Nat.lt_or_ge i q.h.a.length with h | h
    · exact h
    · rw [List.getElem?_eq_none h] at hi; cases hi
  rw [update_eq, hm]
  have e0 : ¬ ((i : Int) < 0) := by omega
  simp only [e0, if_false, Int.toNat_natCast]
  cases hu : Juniper.Model.Heap.updateAt (lessKP less) q.h i (k, p) with
  | none => exact absurd hil ((updateAt_none_iff _ _ _ _).mp hu)
  | some r =>
    obtain ⟨h', notes⟩ := r
    obtain ⟨_, _, ha, hn⟩ := updateAt_shape hu
    refine ⟨_, rfl, ?_, ?_, ⟨i, _, notes, hi, hu⟩⟩
    · -- index map
      have ks : keysOf (q.h.a.set i (k, p)) = keysOf q.h.a := keysOf_set_same hi
      have nd1 : (keysOf (q.h.a.set i (k, p))).Nodup := by rw [ks]; exact hq.1
      have pu := percolateUp_perm (lessKP less) (q.h.a.set i (k, p)) i
      have pd := percolateDown_perm (lessKP less) (percolateUp (lessKP less) (q.h.a.set i (k, p)) i).1 i
      have nd2 : (keysOf (percolateUp (lessKP less) (q.h.a.set i (k, p)) i).1).Nodup :=
        (keysOf_perm pu).nodup_iff.mpr nd1
      have nd3 : (keysOf h'.a).Nodup := by rw [ha]; exact (keysOf_perm pd).nodup_iff.mpr nd2
      have i1 : Idx (applyNotes q.m (notifyAt (q.h.a.set i (k, p)) i)) (q.h.a.set i (k, p)) := by
        apply idx_notifyAt nd1
        intro l k' p' hli hl
        rw [List.getElem?_set] at hl
        simp [Ne.symm hli] at hl
        exact hq.idx l k' p' hl
      have i2 := upLoop_idx (lessKP less) (i + 1) nd1 i1 (i := i) (by simp [hil])
      have i3 := downLoop_idx (lessKP less) (percolateUp (lessKP less) (q.h.a.set i (k, p)) i).1.length nd2 i2
        (i := i) (by rw [length_percolateUp]; simp [hil])
      apply indexInv_of nd3
      · rw [hn, ha, applyNotes_append, applyNotes_append]; exact i3
      · rw [hn]
        have hkeys : ∀ x ∈ q.h.a.set i (k, p), x.1 ∈ keysOf h'.a := by
          intro x hx
          rw [ha]
          exact (keysOf_perm (pd.trans pu)).symm.subset (mem_keys_of_mem hx)
        apply dom_applyNotes_of (a := q.h.a.set i (k, p))
        · intro k' hk'
          have := hq.dom k' hk'
          rw [← ks] at this
          rw [ha]; exact (keysOf_perm (pd.trans pu)).symm.subset this
        · intro n hn'
          simp only [List.mem_append] at hn'
          rcases hn' with (h1 | h1) | h1
          · exact notifyAt_mem h1
          · exact upLoop_notes_mem _ _ h1
          · exact pu.subset (downLoop_notes_mem _ _ h1)
        · exact hkeys
    · intro k' p'
      show (k', p') ∈ h'.a ↔ _
      rw [ha]
      have pu := percolateUp_perm (lessKP less) (q.h.a.set i (k, p)) i
      have pd := percolateDown_perm (lessKP less) (percolateUp (lessKP less) (q.h.a.set i (k, p)) i).1 i
      rw [(pd.trans pu).mem_iff]
      exact mem_set_iff hq.1 hi k' p'

/-- `Update` of a key that is absent: inserts it. -/
theorem update_new {less : P → P → Bool} {q : PQ K P} (hq : IndexInv q) {k : K} (p : P)
    (hk : ∀ p0, ¬ Holds q k p0) :
    ∃ q', update less q k p = some q' ∧ IndexInv q' ∧
      (∀ k' p', Holds q' k' p' ↔ (k' = k ∧ p' = p) ∨ (k' ≠ k ∧ Holds q k' p')) ∧
      q'.h = (Juniper.Model.Heap.push (lessKP less) q.h (k, p)).1 := by
  have hknot : k ∉ keysOf q.h.a := by
    intro hm
    obtain ⟨i, p0, hi⟩ := mem_keysOf.mp hm
    exact hk p0 (List.mem_of_getElem? hi)
  have hm : mGet q.m k = none := by
    cases h : mGet q.m k with
    | none => rfl
    | some v => exact absurd (hq.dom k (by simp [h])) hknot
  rw [update_eq, hm]
  refine ⟨_, rfl, ?_, ?_, rfl⟩
  · have pu := percolateUp_perm (lessKP less) (q.h.a ++ [(k, p)]) q.h.a.length
    have nd1 : (keysOf (q.h.a ++ [(k, p)])).Nodup := by
      simp only [keysOf, List.map_append, List.map_cons, List.map_nil]
      rw [List.nodup_append]
      refine ⟨hq.1, by simp, ?_⟩
      intro a ha b hb
      simp at hb; subst hb
      intro e; subst e; exact hknot ha
    have i1 : Idx (applyNotes q.m (notifyAt (q.h.a ++ [(k, p)]) q.h.a.length)) (q.h.a ++ [(k, p)]) := by
      apply idx_notifyAt nd1
      intro l k' p' hl hget
      have hll : l < q.h.a.length := by
        rcases Nat.lt_or_ge l (q.h.a ++ [(k, p)]).length with h | h
        · simp at h; omega
        · rw [List.getElem?_eq_none h] at hget; cases hget
      rw [List.getElem?_append_left hll] at hget
      exact hq.idx l k' p' hget
    have i2 := upLoop_idx (lessKP less) (q.h.a.length + 1) nd1 i1 (i := q.h.a.length) (by simp)
    apply indexInv_of
    · rw [push_a]; exact (keysOf_perm pu).nodup_iff.mpr nd1
    · rw [push_a, push_notes, applyNotes_append]; exact i2
    · rw [push_a, push_notes]
      apply dom_applyNotes_of (a := q.h.a ++ [(k, p)])
      · intro k' hk'
        apply (keysOf_perm pu).symm.subset
        simp only [keysOf, List.map_append, List.mem_append]
        exact Or.inl (hq.dom k' hk')
      · intro n hn
        simp only [List.mem_append] at hn
        rcases hn with h1 | h1
        · exact notifyAt_mem h1
        · exact upLoop_notes_mem _ _ h1
      · intro x hx; exact (keysOf_perm pu).symm.subset (mem_keys_of_mem hx)
  · intro k' p'
    show (k', p') ∈ (Juniper.Model.Heap.push (lessKP less) q.h (k, p)).1.a ↔ _
    rw [(Juniper.Proofs.Heap.push_perm _ _ _).mem_iff]
    simp only [List.mem_cons, Prod.mk.injEq, Holds]
    constructor
    · rintro (⟨rfl, rfl⟩ | h)
      · exact Or.inl ⟨rfl, rfl⟩
      · exact Or.inr ⟨fun e => hknot (by subst e; exact mem_keys_of_mem h), h⟩
    · rintro (⟨rfl, rfl⟩ | ⟨_, h⟩)
      · exact Or.inl ⟨rfl, rfl⟩
      · exact Or.inr h

/-! ## `Remove`, `Pop` -/

theorem getElem?_moveLast {a : List (KP K P)} {i l : Nat} {last x : KP K P} (hl : l ≠ i)
    (h : (moveLast a i last)[l]? = some x) : a[l]? = some x := by
  simp only [moveLast, List.getElem?_dropLast] at h
  split at h
  · rw [List.getElem?_set] at h; simpa [Ne.symm hl] using h
  · cases h

theorem moveLast_subset {a : List (KP K P)} {i : Nat} {last x0 : KP K P} (hx : a[i]? = some x0)
    (hl : a.getLast? = some last) : ∀ x ∈ moveLast a i last, x ∈ a :=
  fun x hm => (moveLast_perm hx hl).subset (List.mem_cons_of_mem _ hm)

theorem remove_eq (less : P → P → Bool) (q : PQ K P) (k : K) :
    remove less q k =
      match mGet q.m k with
      | none => some q
      | some idx =>
        if idx < 0 then none else
        match Juniper.Model.Heap.removeAt (lessKP less) q.h idx.toNat with
        | none => none
        | some (h', notes) => some { h := h', m := mDel (applyNotes q.m notes) k } := by
  unfold remove idxOf
  cases h : mGet q.m k with
  | none => simp [removeAbsent, removeAbsentReturns]
  | some v => simp [removeAbsent, removeAbsentReturns, removeCallsRemoveAt, removeDeletes]; rfl

/-- `Remove` of an absent key changes nothing. -/
theorem remove_absent {less : P → P → Bool} {q : PQ K P} (hq : IndexInv q) {k : K}
    (hk : ∀ p0, ¬ Holds q k p0) : remove less q k = some q := by
  have hm : mGet q.m k = none := by
    cases h : mGet q.m k with
    | none => rfl
    | some v =>
      obtain ⟨i, p0, hi⟩ := mem_keysOf.mp (hq.dom k (by simp [h]))
      exact absurd (List.mem_of_getElem? hi) (hk p0)
  rw [remove_eq, hm]

/-- `Remove` of a present key (at the first, last, a leaf or an inner position): never panics, index
map exact, exactly that key disappears. -/
theorem remove_present {less : P → P → Bool} {q : PQ K P} (hq : IndexInv q) {k : K} {p0 : P}
    (hk : Holds q k p0) :
    ∃ q', remove less q k = some q' ∧ IndexInv q' ∧
      (∀ k' p', Holds q' k' p' ↔ k' ≠ k ∧ Holds q k' p') ∧
      (∃ i notes, q.h.a[i]? = some (k, p0) ∧
        Juniper.Model.Heap.removeAt (lessKP less) q.h i = some (q'.h, notes)) := by
  obtain ⟨i, hi⟩ := List.getElem?_of_mem hk
  have hm : mGet q.m k = some (i : Int) := hq.idx i k p0 hi
  have hil : i < q.h.a.length := by
    rcases Nat.lt_or_ge i q.h.a.length with h | h
    · exact h
    · rw [List.getElem?_eq_none h] at hi; cases hi
  rw [remove_eq, hm]
  have e0 : ¬ ((i : Int) < 0) := by omega
  simp only [e0, if_false, Int.toNat_natCast]
  cases hu : Juniper.Model.Heap.removeAt (lessKP less) q.h i with
  | none => exact absurd hil ((removeAt_none_iff _ _ _).mp hu)
  | some r =>
    obtain ⟨h', notes⟩ := r
    obtain ⟨last, _, hlast, _, hcase⟩ := removeAt_shape hu
    obtain ⟨x, hx, hperm⟩ := Juniper.Proofs.Heap.removeAt_perm hu
    rw [hi] at hx; cases hx
    have hsub := moveLast_subset hi hlast
    have hidx_dom : Idx (applyNotes q.m notes) h'.a ∧
        ∀ k', (mGet (applyNotes q.m notes) k').isSome → k' ∈ keysOf q.h.a := by
      rcases hcase with ⟨hlt, ha, hn⟩ | ⟨hge, ha, hn⟩
      · have mp := moveLast_perm hi hlast
        have nd2 : (keysOf (moveLast q.h.a i last)).Nodup := by
          have h1 : (k :: keysOf (moveLast q.h.a i last)).Nodup := (keysOf_perm mp).nodup_iff.mpr hq.1
          exact (List.nodup_cons.mp h1).2
        have pu := percolateUp_perm (lessKP less) (moveLast q.h.a i last) i
        have nd3 : (keysOf (percolateUp (lessKP less) (moveLast q.h.a i last) i).1).Nodup :=
          (keysOf_perm pu).nodup_iff.mpr nd2
        have i1 : Idx (applyNotes q.m (notifyAt (moveLast q.h.a i last) i)) (moveLast q.h.a i last) := by
          apply idx_notifyAt nd2
          intro l k' p' hli hl
          exact hq.idx l k' p' (getElem?_moveLast hli hl)
        have i2 := upLoop_idx (lessKP less) (i + 1) nd2 i1 (i := i) hlt
        have i3 := downLoop_idx (lessKP less) (percolateUp (lessKP less) (moveLast q.h.a i last) i).1.length
          nd3 i2 (i := i) (by rw [length_percolateUp]; exact hlt)
        constructor
        · rw [hn, ha, applyNotes_append, applyNotes_append]; exact i3
        · rw [hn]
          apply dom_applyNotes_of (a := moveLast q.h.a i last) (hq.dom)
          · intro n hn'
            simp only [List.mem_append] at hn'
            rcases hn' with (h1 | h1) | h1
            · exact notifyAt_mem h1
            · exact upLoop_notes_mem _ _ h1
            · exact pu.subset (downLoop_notes_mem _ _ h1)
          · intro x hx; exact mem_keys_of_mem (hsub x hx)
      · constructor
        · rw [hn, ha]
          intro l k' p' hl
          have hll : l < (moveLast q.h.a i last).length := by
            rcases Nat.lt_or_ge l (moveLast q.h.a i last).length with h | h
            · exact h
            · rw [List.getElem?_eq_none h] at hl; cases hl
          exact hq.idx l k' p' (getElem?_moveLast (by omega) hl)
        · rw [hn]; exact hq.dom
    obtain ⟨hidx, hdom⟩ := hidx_dom
    obtain ⟨hinv, hholds⟩ := remove_core (g := h'.gen) hq.1 hperm hidx hdom
    exact ⟨_, rfl, hinv, hholds, ⟨i, notes, hi, hu⟩⟩

theorem pop_eq (less : P → P → Bool) (q : PQ K P) :
    Juniper.Model.PQ.pop less q =
      match Juniper.Model.Heap.pop (lessKP less) q.h with
      | none => none
      | some (h', it, notes) => some ({ h := h', m := mDel (applyNotes q.m notes) it.1 }, it.1) := by
  unfold Juniper.Model.PQ.pop
  simp only [pqPopPops, pqPopDeletes, pqPopReturnsKey, if_true]; rfl

theorem percolateDown_nil (less : KP K P → KP K P → Bool) (i : Nat) :
    percolateDown less ([] : List (KP K P)) i = ([], []) := rfl

/-- `Pop` on a non-empty queue: never panics, returns the root's key, index map exact, exactly that
key disappears. -/
theorem pop_nonempty {less : P → P → Bool} {q : PQ K P} (hq : IndexInv q) (hne : q.h.a ≠ []) :
    ∃ q' k p0 notes, Juniper.Model.PQ.pop less q = some (q', k) ∧ q.h.a[0]? = some (k, p0) ∧
      IndexInv q' ∧ (∀ k' p', Holds q' k' p' ↔ k' ≠ k ∧ Holds q k' p') ∧
      Juniper.Model.Heap.pop (lessKP less) q.h = some (q'.h, (k, p0), notes) := by
  rw [pop_eq]
  cases hu : Juniper.Model.Heap.pop (lessKP less) q.h with
  | none => exact absurd ((pop_none_iff _ _).mp hu) hne
  | some r =>
    obtain ⟨h', ⟨k, p0⟩, notes⟩ := r
    obtain ⟨last, hit, hlast, ha, _, hn⟩ := pop_shape hu
    have hperm := Juniper.Proofs.Heap.pop_perm hu
    have hsub := moveLast_subset hit hlast
    have mp := moveLast_perm hit hlast
    have nd2 : (keysOf (moveLast q.h.a 0 last)).Nodup := by
      have h1 : (k :: keysOf (moveLast q.h.a 0 last)).Nodup := (keysOf_perm mp).nodup_iff.mpr hq.1
      exact (List.nodup_cons.mp h1).2
    have hidx : Idx (applyNotes q.m notes) h'.a := by
      rw [hn, ha]
      by_cases h0 : 0 < (moveLast q.h.a 0 last).length
      · simp only [h0, if_true, applyNotes_append]
        have i1 : Idx (applyNotes q.m (notifyAt (moveLast q.h.a 0 last) 0)) (moveLast q.h.a 0 last) := by
          apply idx_notifyAt nd2
          intro l k' p' hli hl
          exact hq.idx l k' p' (getElem?_moveLast hli hl)
        exact downLoop_idx (lessKP less) _ nd2 i1 h0
      · have : moveLast q.h.a 0 last = [] := List.eq_nil_of_length_eq_zero (by omega)
        rw [this, percolateDown_nil]
        intro l k' p' hl; simp at hl
    have hdom : ∀ k', (mGet (applyNotes q.m notes) k').isSome → k' ∈ keysOf q.h.a := by
      rw [hn]
      apply dom_applyNotes_of (a := moveLast q.h.a 0 last) (hq.dom)
      · intro n hn'
        simp only [List.mem_append] at hn'
        rcases hn' with h1 | h1
        · split at h1
          · exact notifyAt_mem h1
          · cases h1
        · exact downLoop_notes_mem _ _ h1
      · intro x hx; exact mem_keys_of_mem (hsub x hx)
    obtain ⟨hinv, hholds⟩ := remove_core (g := h'.gen) hq.1 hperm hidx hdom
    exact ⟨_, k, p0, notes, rfl, hit, hinv, hholds, rfl⟩

/-! ## observers -/

theorem contains_iff {q : PQ K P} (hq : IndexInv q) (k : K) : contains q k = true ↔ ∃ p, Holds q k p := by
  simp only [contains, containsRes, idxOf]
  constructor
  · intro h
    obtain ⟨i, p, hi⟩ := mem_keysOf.mp (hq.dom k h)
    exact ⟨p, List.mem_of_getElem? hi⟩
  · rintro ⟨p, hp⟩
    obtain ⟨i, hi⟩ := List.getElem?_of_mem hp
    simp [hq.idx i k p hi]

theorem priority_present {q : PQ K P} (hq : IndexInv q) {k : K} {p : P} (h : Holds q k p) :
    priority q k = some (some p) := by
  obtain ⟨i, hi⟩ := List.getElem?_of_mem h
  have hm := hq.idx i k p hi
  have e0 : ¬ ((i : Int) < 0) := by omega
  simp [priority, idxOf, hm, priorityPresent, priorityReadsItem, e0, item, itemIdx, hi]

theorem priority_absent {q : PQ K P} (hq : IndexInv q) {k : K} (h : ∀ p, ¬ Holds q k p) :
    priority q k = some none := by
  have hm : mGet q.m k = none := by
    cases hm : mGet q.m k with
    | none => rfl
    | some v =>
      obtain ⟨i, p0, hi⟩ := mem_keysOf.mp (hq.dom k (by simp [hm]))
      exact absurd (List.mem_of_getElem? hi) (h p0)
  simp [priority, idxOf, hm, priorityPresent]

theorem len_eq (q : PQ K P) : Juniper.Model.PQ.len q = (keysOf q.h.a).length := by
  simp [Juniper.Model.PQ.len, pqLenForwards, Juniper.Model.Heap.len, lenVal, keysOf]

theorem peek_eq (q : PQ K P) : Juniper.Model.PQ.peek q = (q.h.a[0]?).map (·.1) := by
  simp [Juniper.Model.PQ.peek, pqPeekForwards, Juniper.Model.Heap.peek, peekIdx]

/-! ## `NewPriorityQueue`: de-duplication, heapify, notify all -/

theorem dedup_nil (m : IdxMap K) : dedup ([] : List (KP K P)) m = ([], m) := rfl

theorem dedup_cons (kp : KP K P) (t : List (KP K P)) (m : IdxMap K) :
    dedup (kp :: t) m =
      if (mGet m kp.1).isSome then dedup t m
      else (kp :: (dedup t (mSet m kp.1 (-1))).1, (dedup t (mSet m kp.1 (-1))).2) := by
  simp only [dedup, dedupSkipCond, dedupSkips, dedupMarks, dedupKeeps, Bool.and_true, if_true]

theorem dedup_spec (l : List (KP K P)) (m : IdxMap K) :
    (keysOf (dedup l m).1).Nodup ∧
    (∀ kp ∈ (dedup l m).1, kp ∈ l ∧ (mGet m kp.1).isSome = false) ∧
    (∀ k ∈ keysOf l, (mGet m k).isSome = false → k ∈ keysOf (dedup l m).1) ∧
    (∀ k, (mGet (dedup l m).2 k).isSome ↔ ((mGet m k).isSome ∨ k ∈ keysOf (dedup l m).1)) ∧
    (∀ k p, (k, p) ∈ (dedup l m).1 → l.find? (fun e => decide (e.1 = k)) = some (k, p)) := by
  induction l generalizing m with
  | nil => simp [dedup_nil, keysOf]
  | cons kp t ih =>
    rw [dedup_cons]
    by_cases hs : (mGet m kp.1).isSome
    · simp only [hs, if_true]
      obtain ⟨a, b, c, d, e⟩ := ih m
      refine ⟨a, ?_, ?_, d, ?_⟩
      · intro x hx; exact ⟨List.mem_cons_of_mem _ (b x hx).1, (b x hx).2⟩
      · intro k hk hn
        simp only [keysOf, List.map_cons, List.mem_cons] at hk
        rcases hk with rfl | hk
        · rw [hs] at hn; cases hn
        · exact c k hk hn
      · intro k p hkp
        have hn := (b _ hkp).2
        have : ¬ kp.1 = k := fun e' => by subst e'; rw [hs] at hn; cases hn
        simp only [List.find?_cons, this, decide_false]
        exact e k p hkp
    · have hs' : (mGet m kp.1).isSome = false := by simpa using hs
      simp only [hs', Bool.false_eq_true, if_false]
      obtain ⟨a, b, c, d, e⟩ := ih (mSet m kp.1 (-1))
      have hb : ∀ x ∈ (dedup t (mSet m kp.1 (-1))).1, kp.1 ≠ x.1 ∧ (mGet m x.1).isSome = false := by
        intro x hx
        have := (b x hx).2
        rw [mGet_mSet] at this
        by_cases e' : kp.1 = x.1
        · simp [e'] at this
        · simp [e'] at this; exact ⟨e', by simpa using this⟩
      refine ⟨?_, ?_, ?_, ?_, ?_⟩
      · show (kp.1 :: keysOf (dedup t (mSet m kp.1 (-1))).1).Nodup
        rw [List.nodup_cons]
        refine ⟨?_, a⟩
        intro hm
        obtain ⟨x, hx, hxk⟩ := List.mem_map.mp hm
        exact (hb x hx).1 hxk.symm
      · intro x hx
        simp only [List.mem_cons] at hx
        rcases hx with rfl | hx
        · exact ⟨List.mem_cons_self, hs'⟩
        · exact ⟨List.mem_cons_of_mem _ (b x hx).1, (hb x hx).2⟩
      · intro k hk hn
        show k ∈ kp.1 :: keysOf (dedup t (mSet m kp.1 (-1))).1
        simp only [keysOf, List.map_cons, List.mem_cons] at hk
        by_cases e' : k = kp.1
        · exact e' ▸ List.mem_cons_self
        · rcases hk with hk | hk
          · exact absurd hk e'
          · apply List.mem_cons_of_mem
            apply c k hk
            rw [mGet_mSet]; simp [Ne.symm e']; simpa using hn
      · intro k
        rw [d k, mGet_mSet]
        show _ ↔ _ ∨ k ∈ kp.1 :: keysOf (dedup t (mSet m kp.1 (-1))).1
        by_cases e' : kp.1 = k
        · subst e'; simp
        · simp [e', Ne.symm e']
      · intro k p hkp
        simp only [List.mem_cons] at hkp
        rcases hkp with hkp | hkp
        · subst hkp; simp
        · have : ¬ kp.1 = k := (hb _ hkp).1
          simp only [List.find?_cons, this, decide_false]
          exact e k p hkp

theorem heapifyLoop_notes_mem (less : KP K P → KP K P → Bool) (f : Nat) {a : List (KP K P)} {i : Int}
    {n : Note (KP K P)} (hn : n ∈ (heapifyLoop less f a i).2) : n.1 ∈ a := by
  induction f generalizing a i with
  | zero => cases hn
  | succ f ih =>
    rw [heapifyLoop_succ] at hn
    split at hn
    · simp only [List.mem_append] at hn
      rcases hn with hn | hn
      · exact downLoop_notes_mem _ _ hn
      · exact (percolateDown_perm _ _ _).subset (ih hn)
    · cases hn

theorem new_notes (less : KP K P → KP K P → Bool) (init : List (KP K P)) :
    (Juniper.Model.Heap.new less init).2 =
      (heapifyLoop less init.length init (((init.length / 2 : Nat) : Int) - 1)).2 ++
        notifyAll (Juniper.Model.Heap.new less init).1.a := by
  simp only [Juniper.Model.Heap.new, newStart_eq, newNotifiesAll, if_true]

theorem notifyAll_mem {a : List (KP K P)} {n : Note (KP K P)} (hn : n ∈ notifyAll a) : n.1 ∈ a := by
  simp only [notifyAll, notifyReportsItemAndIndex, if_true] at hn
  exact List.mem_of_getElem? (List.mem_zipIdx_iff_getElem?.mp hn)

theorem new_eq (less : P → P → Bool) (initial : List (KP K P)) :
    Juniper.Model.PQ.new less initial =
      { h := (Juniper.Model.Heap.new (lessKP less) (dedup initial []).1).1,
        m := applyNotes (dedup initial []).2 (Juniper.Model.Heap.new (lessKP less) (dedup initial []).1).2 } := by
  simp only [Juniper.Model.PQ.new, dedupUsesFiltered, if_true]

/-- A queue built from an initial list: index map exact; it holds exactly the first occurrence of
every distinct key. -/
theorem new_spec (less : P → P → Bool) (initial : List (KP K P)) :
    IndexInv (Juniper.Model.PQ.new less initial) ∧
    (∀ k p, Holds (Juniper.Model.PQ.new less initial) k p ↔ (k, p) ∈ (dedup initial []).1) := by
  rw [new_eq]
  obtain ⟨nd, hb, hc, hd, he⟩ := dedup_spec initial ([] : IdxMap K)
  have hperm := new_perm (lessKP less) (dedup initial []).1
  have nd' : (keysOf (Juniper.Model.Heap.new (lessKP less) (dedup initial []).1).1.a).Nodup :=
    (keysOf_perm hperm).nodup_iff.mpr nd
  constructor
  · apply indexInv_of nd'
    · rw [new_notes, applyNotes_append]
      exact idx_notifyAll _ nd'
    · apply dom_applyNotes_of (a := (dedup initial []).1)
      · intro k hk
        have := (hd k).mp hk
        simp [mGet] at this
        exact (keysOf_perm hperm).symm.subset this
      · intro n hn
        rw [new_notes] at hn
        simp only [List.mem_append] at hn
        rcases hn with hn | hn
        · exact heapifyLoop_notes_mem _ _ hn
        · exact hperm.subset (notifyAll_mem hn)
      · intro x hx; exact (keysOf_perm hperm).symm.subset (mem_keys_of_mem hx)
  · intro k p
    exact hperm.mem_iff

end Juniper.Proofs.PQ
