import Juniper.Proofs.IterComb
/-!
# Pipelines of iterator combinators (C07 `pipeline_denotes`)

Because every combinator lemma is stated for an arbitrary inner machine, a composition denotes the
composition of the list functions. This file makes that explicit for pipelines of any depth built
from the element-type-preserving stages over a slice source (stages that change the element type —
`Chunk`, `Flatten`, `Runs` — compose by the very same lemmas; they are left out only to keep the
pipeline datatype homogeneous).
-/
namespace Juniper.Proofs.IterDen
open Juniper.Model Juniper.Model.Iter Juniper.Spec
variable {α : Type}

inductive Pipe (α : Type) where
  | src (l : List α)
  | filter (keep : α → Bool) (p : Pipe α)
  | map (f : α → α) (p : Pipe α)
  | first (n : Int) (p : Pipe α)
  | while_ (f : α → Bool) (p : Pipe α)
  | compact (eq : α → α → Bool) (p : Pipe α)
  | peek (p : Pipe α)

/-- a machine together with its start state and the cost (= source items pulled) read off its state -/
structure Packed (α : Type) where
  σ : Type
  m : IM σ α
  s : σ
  cost : σ → Nat

def Pipe.machine : Pipe α → Packed α
  | .src l => ⟨Src α, Iter.src, Src.of l, fun s => s.pulled⟩
  | .filter keep p => let q := p.machine; ⟨q.σ, Iter.filter keep q.m, q.s, q.cost⟩
  | .map f p => let q := p.machine; ⟨q.σ, Iter.map f q.m, q.s, q.cost⟩
  | .first n p => let q := p.machine; ⟨FirstSt q.σ, Iter.first q.m, ⟨q.s, n, false⟩, fun st => q.cost st.inner⟩
  | .while_ f p => let q := p.machine; ⟨WhileSt q.σ, Iter.while_ f q.m, ⟨q.s, false⟩, fun st => q.cost st.inner⟩
  | .compact eq p => let q := p.machine; ⟨CompactSt q.σ α, Iter.compact eq q.m, ⟨q.s, true, none⟩, fun st => q.cost st.inner⟩
  | .peek p => let q := p.machine; ⟨PeekSt q.σ α, Iter.withPeek q.m, ⟨q.s, none⟩, fun st => q.cost st.inner⟩

/-- the documented list function of the pipeline -/
def Pipe.spec : Pipe α → List α
  | .src l => l
  | .filter keep p => p.spec.filter keep
  | .map f p => p.spec.map f
  | .first n p => p.spec.take n.toNat
  | .while_ f p => p.spec.takeWhile f
  | .compact eq p => Seq.compact eq p.spec
  | .peek p => p.spec

theorem compactGo_fst (eq : α → α → Bool) (P : Option (α × Nat)) (L : List (α × Nat)) :
    (Seq.compactGo (fun p q => eq p.1 q.1) P L).map Prod.fst = Seq.compactGo eq (P.map Prod.fst) (L.map Prod.fst) := by
  induction L generalizing P with
  | nil => cases P <;> rfl
  | cons x L ih =>
    cases P with
    | none => simp [Seq.compactGo, ih]
    | some p =>
      simp only [Seq.compactGo, Option.map_some, List.map_cons]
      split
      · exact ih _
      · simp [ih]

theorem filter_fst (keep : α → Bool) (L : List (α × Nat)) :
    (L.filter fun p => keep p.1).map Prod.fst = (L.map Prod.fst).filter keep := by
  induction L with
  | nil => rfl
  | cons x L ih => simp only [List.filter_cons, List.map_cons]; split <;> simp [ih]

theorem takeWhile_fst (f : α → Bool) (L : List (α × Nat)) :
    (L.takeWhile fun p => f p.1).map Prod.fst = (L.map Prod.fst).takeWhile f := by
  induction L with
  | nil => rfl
  | cons x L ih => simp only [List.takeWhile_cons, List.map_cons]; split <;> simp [ih]

/-- **A pipeline of any depth yields its documented list** (and, being a `Den`, reports the end again
after the end, and its laziness is the composition of the stages' annotations). -/
theorem pipeline_den (p : Pipe α) :
    ∃ (L : List (α × Nat)) (e : Nat), Den p.machine.m p.machine.cost p.machine.s L e ∧ L.map Prod.fst = p.spec := by
  induction p with
  | src l => exact ⟨_, _, src_den l 0 0, annot_fst 0 l⟩
  | filter keep p ih =>
    obtain ⟨L, e, h, hl⟩ := ih
    refine ⟨_, _, filter_den keep h, ?_⟩
    simp only [Pipe.spec, ← hl, filter_fst]
  | map f p ih =>
    obtain ⟨L, e, h, hl⟩ := ih
    refine ⟨_, _, map_den f h, ?_⟩
    simp only [Pipe.spec, ← hl, List.map_map]
    rfl
  | first n p ih =>
    obtain ⟨L, e, h, hl⟩ := ih
    refine ⟨_, _, (first_den h).1 n, ?_⟩
    simp only [Pipe.spec, ← hl, List.map_take]
  | while_ f p ih =>
    obtain ⟨L, e, h, hl⟩ := ih
    refine ⟨_, _, while_den f h, ?_⟩
    simp only [Pipe.spec, ← hl, takeWhile_fst]
  | compact eq p ih =>
    obtain ⟨L, e, h, hl⟩ := ih
    refine ⟨_, _, compact_den eq h none, ?_⟩
    simp only [Pipe.spec, ← hl, compactGo_fst]
    rfl
  | peek p ih =>
    obtain ⟨L, e, h, hl⟩ := ih
    exact ⟨_, _, peek_den h, hl⟩

end Juniper.Proofs.IterDen
