import Juniper.Model.BTree
/-!
# Comparators (C01–C03)

The Go comparator is `func(K, K) int`, used only through its sign. `StrictWeak cmp` is the documented
contract (a strict weak order given as a three-way comparison): antisymmetric in sign and `≤`
transitive. Everything else (reflexivity, symmetry of equivalence, the mixed transitivities) is derived.
-/
namespace Juniper.Proofs.Tree
open Juniper.Model.BTree Juniper.Gen.Tree

variable {K : Type}

structure StrictWeak (cmp : K → K → Int) : Prop where
  anti : ∀ a b, cmp a b < 0 ↔ 0 < cmp b a
  le_trans : ∀ a b c, cmp a b ≤ 0 → cmp b c ≤ 0 → cmp a c ≤ 0

namespace StrictWeak
variable {cmp : K → K → Int} (h : StrictWeak cmp)
include h

theorem refl (a : K) : cmp a a = 0 := by
  have := h.anti a a; omega

theorem eq_symm {a b : K} (e : cmp a b = 0) : cmp b a = 0 := by
  have h1 := h.anti a b; have h2 := h.anti b a; omega

theorem gt_iff {a b : K} : 0 < cmp a b ↔ cmp b a < 0 := (h.anti b a).symm

theorem lt_trans {a b c : K} (h1 : cmp a b < 0) (h2 : cmp b c < 0) : cmp a c < 0 := by
  have hac := h.le_trans a b c (by omega) (by omega)
  by_cases e : cmp a c = 0
  · have hca := h.eq_symm e
    have := h.le_trans c a b (by omega) (by omega)
    have := (h.anti b c).mp h2
    omega
  · omega

theorem lt_of_lt_of_eq {a b c : K} (h1 : cmp a b < 0) (h2 : cmp b c = 0) : cmp a c < 0 := by
  have hac := h.le_trans a b c (by omega) (by omega)
  by_cases e : cmp a c = 0
  · have hca := h.eq_symm e
    have hcb := h.eq_symm h2
    -- b ≤ c ≤ a, so b ≤ a, contradicting a < b
    have := h.le_trans b c a (by omega) (by omega)
    have := (h.anti a b).mp h1
    omega
  · omega

theorem lt_of_eq_of_lt {a b c : K} (h1 : cmp a b = 0) (h2 : cmp b c < 0) : cmp a c < 0 := by
  have hac := h.le_trans a b c (by omega) (by omega)
  by_cases e : cmp a c = 0
  · have hca := h.eq_symm e
    have := h.le_trans c a b (by omega) (by omega)
    have := (h.anti b c).mp h2
    omega
  · omega

theorem eq_trans {a b c : K} (h1 : cmp a b = 0) (h2 : cmp b c = 0) : cmp a c = 0 := by
  have hac := h.le_trans a b c (by omega) (by omega)
  have hca := h.le_trans c b a (by have := h.eq_symm h2; omega) (by have := h.eq_symm h1; omega)
  have := h.anti a c
  omega

theorem gt_trans {a b c : K} (h1 : 0 < cmp a b) (h2 : 0 < cmp b c) : 0 < cmp a c := by
  have := h.lt_trans (h.gt_iff.mp h2) (h.gt_iff.mp h1)
  exact h.gt_iff.mpr this

theorem gt_of_gt_of_eq {a b c : K} (h1 : 0 < cmp a b) (h2 : cmp b c = 0) : 0 < cmp a c := by
  have := h.lt_of_eq_of_lt (h.eq_symm h2) (h.gt_iff.mp h1)
  exact h.gt_iff.mpr this

theorem gt_of_eq_of_gt {a b c : K} (h1 : cmp a b = 0) (h2 : 0 < cmp b c) : 0 < cmp a c := by
  have := h.lt_of_lt_of_eq (h.gt_iff.mp h2) (h.eq_symm h1)
  exact h.gt_iff.mpr this

/-- the reversed comparator is a strict weak order too -/
theorem flip : StrictWeak (fun a b => cmp b a) where
  anti a b := by have := h.anti b a; have := h.anti a b; omega
  le_trans a b c h1 h2 := h.le_trans c b a h2 h1

end StrictWeak

/-- A strict weak order given as a `less` function (Go `xsort.Less`): irreflexive, transitive, and
incomparability is transitive. -/
structure StrictWeakLess (less : K → K → Bool) : Prop where
  irrefl : ∀ a, less a a = false
  trans : ∀ a b c, less a b = true → less b c = true → less a c = true
  incomp_trans : ∀ a b c, less a b = false → less b a = false → less b c = false → less c b = false →
    less a c = false ∧ less c a = false

end Juniper.Proofs.Tree
