import Juniper.Model.BTree
/-!
# The generated "who calls what" facts of `steal` / `merge` / `amalgam1.Child`, evaluated (C01–C03)

`Model/BTree.lean` *executes* the calls that the generated facts `stealRightCall`, `stealLeftCall`,
`mergeLeftCall`, `mergeRightCall` (`Juniper.Gen.Tree`) say `btree.steal` / `btree.merge` make, and
places the extra child of a split where the generated test of `amalgam1.Child` says. The lemmas here
evaluate those facts on the shipped source; every later proof about `fixChild` / `overfillNode` goes
through them, so `steal` calling another rotation, `merge` calling `mergeTwo` on another pair, or
`amalgam1.Child` testing another index break exactly these lemmas (and `fixChild_eq`).
-/
namespace Juniper.Proofs.Tree
open Juniper.Model.BTree Juniper.Gen.Tree

variable {K V : Type}

theorem firstIdx_eq {p : Nat → Bool} {m : Nat} : ∀ (fuel s : Nat), s ≤ m → m < s + fuel →
    (∀ i, s ≤ i → i < m → p i = false) → p m = true → firstIdx p fuel s = some m
  | 0, s, h1, h2, _, _ => by omega
  | fuel + 1, s, h1, h2, hlt, hm => by
    unfold firstIdx
    by_cases hs : s = m
    · subst hs; rw [if_pos hm]
    · rw [if_neg (by rw [hlt s (Nat.le_refl _) (by omega)]; simp)]
      exact firstIdx_eq fuel (s + 1) (by omega) (by omega) (fun i h3 h4 => hlt i (by omega) h4) hm

/-- `amalgam1.Child(i)` hands out the extra child at `i == a.extraIdx+1` -/
theorem extraChildPos_eq (e : Nat) : extraChildPos e = some (e + 1) := by
  unfold extraChildPos
  refine firstIdx_eq _ _ (Nat.zero_le _) (by omega) ?_ ?_
  · intro i _ hi
    simp only [amalgamExtraChildIdx, decide_eq_false_iff_not]
    omega
  · simp only [amalgamExtraChildIdx, decide_eq_true_eq]
    omega

/-- `steal`, right sibling rich: `t.rotateLeft(x, right)` -/
theorem repairCall_stealRight (kvs : List (K × V)) (kids : List (Node K V)) (j : Nat) :
    repairCall stealRightCall kvs kids j = (rotateLeftAt kvs kids j).map fun r => (r.1, r.2, none) := by
  simp [repairCall, stealRightCall, argIdx]

/-- `steal`, left sibling rich: `t.rotateRight(left, x)` (there is a left sibling: `0 < j`) -/
theorem repairCall_stealLeft (kvs : List (K × V)) (kids : List (Node K V)) {j : Nat} (hj : 0 < j) :
    repairCall stealLeftCall kvs kids j = (rotateRightAt kvs kids (j - 1)).map fun r => (r.1, r.2, none) := by
  have : j = j - 1 + 1 := by omega
  simp [repairCall, stealLeftCall, argIdx, ← this]

/-- `merge`, into the left sibling: `t.mergeTwo(left, x)` -/
theorem repairCall_mergeLeft (kvs : List (K × V)) (kids : List (Node K V)) {j : Nat} (hj : 0 < j) :
    repairCall mergeLeftCall kvs kids j = (mergeAt kvs kids (j - 1)).map fun r => (r.1, r.2, some (j - 1)) := by
  have : j = j - 1 + 1 := by omega
  simp [repairCall, mergeLeftCall, argIdx, ← this]

/-- `merge`, with the right sibling: `t.mergeTwo(x, right)` -/
theorem repairCall_mergeRight (kvs : List (K × V)) (kids : List (Node K V)) (j : Nat) :
    repairCall mergeRightCall kvs kids j = (mergeAt kvs kids j).map fun r => (r.1, r.2, some j) := by
  simp [repairCall, mergeRightCall, argIdx]

end Juniper.Proofs.Tree
