import Juniper.Proofs.XListLinked
/-!
# Running the generated statement lists of xlist.go on a heap that represents a sequence

For each of the ten operations (and the internal `remove`): the interpreter does not panic under the
precondition "handles are in the list", the resulting heap represents the ideal result, and nothing
else changes (`Frame`). Every proof first *computes* the final heap by `simp` over the generated
program (`Gen.XList.<op>Stmts`) and then discharges the pointwise description required by the
`linked_*` lemmas. A changed statement in xlist.go changes the generated program and these
computations no longer go through.
-/
set_option linter.unusedSimpArgs false
set_option linter.unusedVariables false
namespace Juniper.Proofs.XList
open Juniper.Spec.XList Juniper.Model.XList Juniper.Gen.XList

/-- What an operation may change besides the links of the nodes of `l` (and of `extra`, the node it
was given or created): nothing. Values and allocatedness of every existing node are kept. -/
structure Frame (l : List Nat) (h h' : Heap) : Prop where
  out : ∀ x, x ∉ l → h'.nodes.get x = h.nodes.get x
  value : ∀ x, (h.nodes.get x).isSome →
    (h'.nodes.get x).isSome ∧ (h'.nodes.recOf x).value = (h.nodes.recOf x).value

theorem unlink_spec {l : List Nat} {h : Heap} (hL : Linked l h) {n : Nat} (hn : n ∈ l)
    (mk : Option Nat) (val : Int) :
    ∃ h', exec procs0 innerRemoveStmts { h := h, node := some n, mark := mk, value := val } =
        { h := h', node := some n, mark := mk, value := val } ∧
      Linked (l.erase n) h' ∧ h'.nodes.get n = h.nodes.get n ∧ Frame l h h' ∧
        h'.size = h.size ∧ h'.nextId = h.nextId := by
  have hnd := hL.nodup
  have hrn := Store.get_of_isSome (hL.live n hn)
  have hnp := hL.prev n hn
  have hnn := hL.next n hn
  have hp0 := prevIn_eq_none_iff hnd hn
  have hq0 := nextIn_eq_none_iff hnd hn
  have hf := hL.front
  have hb := hL.back
  rcases hp : prevIn l n with _ | p <;> rcases hq : nextIn l n with _ | q
  · have hfn : h.front = some n := by rw [hf]; exact hp0.1 hp
    have hbn : h.back = some n := by rw [hb]; exact hq0.1 hq
    rw [hp] at hnp; rw [hq] at hnn
    generalize he : exec procs0 innerRemoveStmts { h := h, node := some n, mark := mk, value := val } = e'
    simp [exec, execStmt, execSimples, execSimple, evalP, innerRemoveStmts, Node.getF, Node.setF,
      hrn, hnp, hnn, hfn, hbn, Store.get_set] at he
    subst he
    refine ⟨_, rfl, linked_erase hL hn ?_ ?_ ?_ ?_ ?_, ?_, ⟨?_, ?_⟩, rfl, rfl⟩
    · simp [hp, hq]
    · simp [hp, hq]
    · intro x hx; simp [hp, hq]
    · intro x hx; simp [hp, hq]
    · intro x hx; exact hL.live x hx
    · rfl
    · intro x hx; rfl
    · intro x hx; exact ⟨hx, rfl⟩
  · have hfn : h.front = some n := by rw [hf]; exact hp0.1 hp
    have hbn : h.back ≠ some n := by rw [hb]; intro h; rw [hq0.2 h] at hq; cases hq
    have hql := (nextIn_mem hq).2
    have hrq := Store.get_of_isSome (hL.live q hql)
    have hqn : q ≠ n := fun h => nextIn_ne_self hnd n (h ▸ hq)
    rw [hp] at hnp; rw [hq] at hnn
    generalize he : exec procs0 innerRemoveStmts { h := h, node := some n, mark := mk, value := val } = e'
    simp [exec, execStmt, execSimples, execSimple, evalP, innerRemoveStmts, Node.getF, Node.setF,
      hrn, hnp, hnn, hfn, hbn, hrq, hqn, hqn.symm, Store.get_set] at he
    subst he
    refine ⟨_, rfl, linked_erase hL hn ?_ ?_ ?_ ?_ ?_, ?_, ⟨?_, ?_⟩, rfl, rfl⟩
    · simp [hp, hq]
    · simp [hq]
    · intro x hx; simp [Store.recOf_set, hp, hq]; grind
    · intro x hx; simp [Store.recOf_set, hp, hq]; grind
    · intro x hx; have := hL.live x hx; simp [Store.get_set]; grind
    · simp [Store.get_set, hqn.symm]
    · intro x hx
      have : x ≠ q := fun h => hx (h ▸ hql)
      simp [Store.get_set, *]
    · intro x hx
      simp [Store.get_set, Store.recOf_set]
      grind
  · have hfn : h.front ≠ some n := by rw [hf]; intro h; rw [hp0.2 h] at hp; cases hp
    have hbn : h.back = some n := by rw [hb]; exact hq0.1 hq
    have hpl := (prevIn_mem hp).2
    have hrp := Store.get_of_isSome (hL.live p hpl)
    have hpn : p ≠ n := fun h => prevIn_ne_self hnd n (h ▸ hp)
    rw [hp] at hnp; rw [hq] at hnn
    generalize he : exec procs0 innerRemoveStmts { h := h, node := some n, mark := mk, value := val } = e'
    simp [exec, execStmt, execSimples, execSimple, evalP, innerRemoveStmts, Node.getF, Node.setF,
      hrn, hnp, hnn, hfn, hbn, hrp, hpn, hpn.symm, Store.get_set] at he
    subst he
    refine ⟨_, rfl, linked_erase hL hn ?_ ?_ ?_ ?_ ?_, ?_, ⟨?_, ?_⟩, rfl, rfl⟩
    · simp [hp]
    · simp [hp, hq]
    · intro x hx; simp [Store.recOf_set, hp, hq]; grind
    · intro x hx; simp [Store.recOf_set, hp, hq]; grind
    · intro x hx; have := hL.live x hx; simp [Store.get_set]; grind
    · simp [Store.get_set, hpn.symm]
    · intro x hx
      have : x ≠ p := fun h => hx (h ▸ hpl)
      simp [Store.get_set, *]
    · intro x hx
      simp [Store.get_set, Store.recOf_set]
      grind
  · have hfn : h.front ≠ some n := by rw [hf]; intro h; rw [hp0.2 h] at hp; cases hp
    have hbn : h.back ≠ some n := by rw [hb]; intro h; rw [hq0.2 h] at hq; cases hq
    have hpl := (prevIn_mem hp).2
    have hql := (nextIn_mem hq).2
    have hrp := Store.get_of_isSome (hL.live p hpl)
    have hrq := Store.get_of_isSome (hL.live q hql)
    have hpn : p ≠ n := fun h => prevIn_ne_self hnd n (h ▸ hp)
    have hqn : q ≠ n := fun h => nextIn_ne_self hnd n (h ▸ hq)
    have hqp : q ≠ p := fun h => prev_ne_next hnd hp hq h.symm
    rw [hp] at hnp; rw [hq] at hnn
    generalize he : exec procs0 innerRemoveStmts { h := h, node := some n, mark := mk, value := val } = e'
    simp [exec, execStmt, execSimples, execSimple, evalP, innerRemoveStmts, Node.getF, Node.setF,
      hrn, hnp, hnn, hfn, hbn, hrp, hrq, hpn, hpn.symm, hqn, hqn.symm, hqp, hqp.symm, Store.get_set] at he
    subst he
    refine ⟨_, rfl, linked_erase hL hn ?_ ?_ ?_ ?_ ?_, ?_, ⟨?_, ?_⟩, rfl, rfl⟩
    · simp [hp]
    · simp [hq]
    · intro x hx; simp [Store.recOf_set, hp, hq]; grind
    · intro x hx; simp [Store.recOf_set, hp, hq]; grind
    · intro x hx; have := hL.live x hx; simp [Store.get_set]; grind
    · simp [Store.get_set, hpn.symm, hqn.symm]
    · intro x hx
      have : x ≠ p := fun h => hx (h ▸ hpl)
      have : x ≠ q := fun h => hx (h ▸ hql)
      simp [Store.get_set, *]
    · intro x hx
      simp [Store.get_set, Store.recOf_set]
      grind


theorem unlink_proc {l : List Nat} {h : Heap} (hL : Linked l h) {n : Nat} (hn : n ∈ l) :
    ∃ h', mkProc procs0 innerRemoveStmts [some n] h = (h', false) ∧
      Linked (l.erase n) h' ∧ h'.nodes.get n = h.nodes.get n ∧ Frame l h h' ∧
        h'.size = h.size ∧ h'.nextId = h.nextId := by
  obtain ⟨h', he, r⟩ := unlink_spec hL hn none 0
  refine ⟨h', ?_, r⟩
  simp [mkProc, he]

theorem linked_congr {k : List Nat} {h h' : Heap} (hL : Linked k h) (hf : h'.front = h.front)
    (hb : h'.back = h.back) (hg : ∀ x ∈ k, h'.nodes.get x = h.nodes.get x) : Linked k h' := by
  obtain ⟨hnd, hfront, hback, hlv, hprev, hnext⟩ := hL
  refine ⟨hnd, hf ▸ hfront, hb ▸ hback, ?_, ?_, ?_⟩
  · intro x hx; rw [hg x hx]; exact hlv x hx
  · intro x hx; simp only [Store.recOf, hg x hx]; exact hprev x hx
  · intro x hx; simp only [Store.recOf, hg x hx]; exact hnext x hx

/-- The full invariant: links, counted length, and the allocation discipline (ids are creation
indices: everything in the list is below `nextId`, nothing at or above it is allocated). -/
structure Inv (l : List Nat) (h : Heap) : Prop where
  linked : Linked l h
  size : h.size = l.length
  bound : ∀ x ∈ l, x < h.nextId
  fresh : ∀ x, h.nextId ≤ x → h.nodes.get x = none

theorem frame_fresh {l : List Nat} {h h' : Heap} (hI : Inv l h) (hF : Frame l h h')
    (hid : h'.nextId = h.nextId) : ∀ x, h'.nextId ≤ x → h'.nodes.get x = none := by
  intro x hx
  rw [hid] at hx
  have : x ∉ l := fun hm => by have := hI.bound x hm; omega
  rw [hF.out x this]; exact hI.fresh x hx

/-- `Remove(node)` -/
theorem remove_spec {l : List Nat} {h : Heap} (hI : Inv l h) {n : Nat} (hn : n ∈ l) :
    let r := apply h (.remove n)
    r.panicked = false ∧ r.ret = none ∧ Inv (l.erase n) r.h ∧ Frame l h r.h ∧
      (r.h.nodes.recOf n).prev = none ∧ (r.h.nodes.recOf n).next = none ∧ r.h.nextId = h.nextId := by
  obtain ⟨h1, hpr, hL1, hg1, hF1, hs1, hid1⟩ := unlink_proc hI.linked hn
  have hrn := Store.get_of_isSome (hI.linked.live n hn)
  have hne : n ∉ l.erase n := fun hm => ((mem_erase_nodup hI.linked.nodup).1 hm).2 rfl
  simp only [apply, runOp]
  generalize he : exec procs2 removeStmts { h := h, node := some n, mark := none, value := 0 } = e'
  simp [exec, execStmt, execSimples, execSimple, evalP, evalArgs, removeStmts, procs2, hpr, Node.getF, Node.setF,
    hg1, hrn, Store.get_set] at he
  subst he
  refine ⟨rfl, rfl, ⟨linked_congr hL1 rfl rfl ?_, ?_, ?_, ?_⟩, ⟨?_, ?_⟩, ?_, ?_, hid1⟩
  · intro x hx
    have : x ≠ n := fun h => hne (h ▸ hx)
    simp [Store.get_set, this]
  · simp [hs1, hI.size, List.length_erase_of_mem hn]
    have : 0 < l.length := List.length_pos_of_mem hn
    omega
  · intro x hx
    simp [hid1]
    exact hI.bound x ((mem_erase_nodup hI.linked.nodup).1 hx).1
  · intro x hx
    have hxl : x ∉ l := fun hm => by have := hI.bound x hm; simp [hid1] at hx; omega
    have : x ≠ n := fun h => hxl (h ▸ hn)
    simp [hid1] at hx
    simp [Store.get_set, this, hF1.out x hxl, hI.fresh x hx]
  · intro x hx
    have : x ≠ n := fun h => hx (h ▸ hn)
    simp [Store.get_set, this, hF1.out x hx]
  · intro x hx
    have := hF1.value x hx
    simp [Store.get_set, Store.recOf_set]
    have h2 := Store.recOf_of_get (hg1.trans hrn)
    grind
  · simp [Store.recOf_set]
  · simp [Store.recOf_set]

theorem frame_refl (l : List Nat) (h : Heap) : Frame l h h := ⟨fun _ _ => rfl, fun _ hx => ⟨hx, rfl⟩⟩

/-- `MoveBefore(node, mark)`, under any call table that resolves `remove` to the generated `remove` -/
theorem moveBefore_exec {l : List Nat} {h : Heap} (hL : Linked l h) {n m : Nat} (hn : n ∈ l) (hm : m ∈ l)
    (procs : Procs) (hpr : procs .remove = some (mkProc procs0 innerRemoveStmts)) (val : Int) :
    let e := exec procs moveBeforeStmts { h := h, node := some n, mark := some m, value := val }
    e.status ≠ .panicked ∧ e.result = none ∧
      Linked (if n = m then l else insBefore (l.erase n) m n) e.h ∧ Frame l h e.h ∧
      e.h.size = h.size ∧ e.h.nextId = h.nextId := by
  by_cases hnm : n = m
  · subst hnm
    generalize he : exec procs moveBeforeStmts { h := h, node := some n, mark := some n, value := val } = e'
    simp [exec, execStmt, execSimples, execSimple, evalP, moveBeforeStmts] at he
    subst he
    simp [hL, frame_refl]
  · obtain ⟨h1, hpr1, hL1, hg1, hF1, hs1, hid1⟩ := unlink_proc hL hn
    have hnd := hL.nodup
    have hrn := Store.get_of_isSome (hL.live n hn)
    have hmk : m ∈ l.erase n := (mem_erase_nodup hnd).2 ⟨hm, Ne.symm hnm⟩
    have hnk : n ∉ l.erase n := fun hx => ((mem_erase_nodup hnd).1 hx).2 rfl
    have hrm1 := Store.get_of_isSome (hL1.live m hmk)
    have hm1p := hL1.prev m hmk
    have hp0 := prevIn_eq_none_iff hL1.nodup hmk
    have hf1 := hL1.front
    have hmn : m ≠ n := Ne.symm hnm
    simp only [hnm, if_false]
    rcases hpm : prevIn (l.erase n) m with _ | p
    · have hfm : h1.front = some m := by rw [hf1]; exact hp0.1 hpm
      rw [hpm] at hm1p
      generalize he : exec procs moveBeforeStmts { h := h, node := some n, mark := some m, value := val } = e'
      simp [exec, execStmt, execSimples, execSimple, evalP, evalArgs, moveBeforeStmts, hpr, hpr1, Node.getF,
        Node.setF, hnm, hg1, hrn, hrm1, hm1p, hfm, hmn, hmn.symm, Store.get_set] at he
      subst he
      refine ⟨by simp, rfl, linked_insBefore hL1 hmk hnk ?_ ?_ ?_ ?_ ?_, ⟨?_, ?_⟩, ?_, ?_⟩
      · simp [hpm]
      · rfl
      · intro x; simp [Store.recOf_set, hpm]; grind
      · intro x; simp [Store.recOf_set, hpm]; grind
      · intro x hx
        have : x ∈ l → (h1.nodes.get x).isSome := fun hx => (hF1.value x (hL.live x hx)).1
        have := @mem_erase_nodup l hnd x n
        simp [Store.get_set]; grind
      · intro x hx
        have : x ≠ n := fun h => hx (h ▸ hn)
        have : x ≠ m := fun h => hx (h ▸ hm)
        simp [Store.get_set, *, hF1.out x hx]
      · intro x hx
        have := hF1.value x hx
        have h2 := Store.recOf_of_get (hg1.trans hrn)
        simp [Store.get_set, Store.recOf_set]
        grind
      · exact hs1
      · exact hid1
    · have hpk := (prevIn_mem hpm).2
      have hfm : h1.front ≠ some m := by rw [hf1]; intro h; rw [hp0.2 h] at hpm; cases hpm
      have hrp1 := Store.get_of_isSome (hL1.live p hpk)
      have hpn : p ≠ n := fun h => hnk (h ▸ hpk)
      have hpm' : p ≠ m := fun h => prevIn_ne_self hL1.nodup m (h ▸ hpm)
      have hpl : p ∈ l := ((mem_erase_nodup hnd).1 hpk).1
      rw [hpm] at hm1p
      generalize he : exec procs moveBeforeStmts { h := h, node := some n, mark := some m, value := val } = e'
      simp [exec, execStmt, execSimples, execSimple, evalP, evalArgs, moveBeforeStmts, hpr, hpr1, Node.getF,
        Node.setF, hnm, hg1, hrn, hrm1, hm1p, hfm, hmn, hmn.symm, hrp1, hpn, hpn.symm, hpm', hpm'.symm,
        Store.get_set] at he
      subst he
      refine ⟨by simp, rfl, linked_insBefore hL1 hmk hnk ?_ ?_ ?_ ?_ ?_, ⟨?_, ?_⟩, ?_, ?_⟩
      · simp [hpm]
      · rfl
      · intro x; simp [Store.recOf_set, hpm]; grind
      · intro x; simp [Store.recOf_set, hpm]; grind
      · intro x hx
        have : x ∈ l → (h1.nodes.get x).isSome := fun hx => (hF1.value x (hL.live x hx)).1
        have := @mem_erase_nodup l hnd x n
        simp [Store.get_set]; grind
      · intro x hx
        have : x ≠ n := fun h => hx (h ▸ hn)
        have : x ≠ m := fun h => hx (h ▸ hm)
        have : x ≠ p := fun h => hx (h ▸ hpl)
        simp [Store.get_set, *, hF1.out x hx]
      · intro x hx
        have := hF1.value x hx
        have h2 := Store.recOf_of_get (hg1.trans hrn)
        simp [Store.get_set, Store.recOf_set]
        grind
      · exact hs1
      · exact hid1

/-- `MoveAfter(node, mark)`, under any call table that resolves `remove` to the generated `remove` -/
theorem moveAfter_exec {l : List Nat} {h : Heap} (hL : Linked l h) {n m : Nat} (hn : n ∈ l) (hm : m ∈ l)
    (procs : Procs) (hpr : procs .remove = some (mkProc procs0 innerRemoveStmts)) (val : Int) :
    let e := exec procs moveAfterStmts { h := h, node := some n, mark := some m, value := val }
    e.status ≠ .panicked ∧ e.result = none ∧
      Linked (if n = m then l else insAfter (l.erase n) m n) e.h ∧ Frame l h e.h ∧
      e.h.size = h.size ∧ e.h.nextId = h.nextId := by
  by_cases hnm : n = m
  · subst hnm
    generalize he : exec procs moveAfterStmts { h := h, node := some n, mark := some n, value := val } = e'
    simp [exec, execStmt, execSimples, execSimple, evalP, moveAfterStmts] at he
    subst he
    simp [hL, frame_refl]
  · obtain ⟨h1, hpr1, hL1, hg1, hF1, hs1, hid1⟩ := unlink_proc hL hn
    have hnd := hL.nodup
    have hrn := Store.get_of_isSome (hL.live n hn)
    have hmk : m ∈ l.erase n := (mem_erase_nodup hnd).2 ⟨hm, Ne.symm hnm⟩
    have hnk : n ∉ l.erase n := fun hx => ((mem_erase_nodup hnd).1 hx).2 rfl
    have hrm1 := Store.get_of_isSome (hL1.live m hmk)
    have hm1p := hL1.next m hmk
    have hp0 := nextIn_eq_none_iff hL1.nodup hmk
    have hf1 := hL1.back
    have hmn : m ≠ n := Ne.symm hnm
    simp only [hnm, if_false]
    rcases hpm : nextIn (l.erase n) m with _ | p
    · have hfm : h1.back = some m := by rw [hf1]; exact hp0.1 hpm
      rw [hpm] at hm1p
      generalize he : exec procs moveAfterStmts { h := h, node := some n, mark := some m, value := val } = e'
      simp [exec, execStmt, execSimples, execSimple, evalP, evalArgs, moveAfterStmts, hpr, hpr1, Node.getF,
        Node.setF, hnm, hg1, hrn, hrm1, hm1p, hfm, hmn, hmn.symm, Store.get_set] at he
      subst he
      refine ⟨by simp, rfl, linked_insAfter hL1 hmk hnk ?_ ?_ ?_ ?_ ?_, ⟨?_, ?_⟩, ?_, ?_⟩
      · rfl
      · simp [hpm]
      · intro x; simp [Store.recOf_set, hpm]; grind
      · intro x; simp [Store.recOf_set, hpm]; grind
      · intro x hx
        have : x ∈ l → (h1.nodes.get x).isSome := fun hx => (hF1.value x (hL.live x hx)).1
        have := @mem_erase_nodup l hnd x n
        simp [Store.get_set]; grind
      · intro x hx
        have : x ≠ n := fun h => hx (h ▸ hn)
        have : x ≠ m := fun h => hx (h ▸ hm)
        simp [Store.get_set, *, hF1.out x hx]
      · intro x hx
        have := hF1.value x hx
        have h2 := Store.recOf_of_get (hg1.trans hrn)
        simp [Store.get_set, Store.recOf_set]
        grind
      · exact hs1
      · exact hid1
    · have hpk := (nextIn_mem hpm).2
      have hfm : h1.back ≠ some m := by rw [hf1]; intro h; rw [hp0.2 h] at hpm; cases hpm
      have hrp1 := Store.get_of_isSome (hL1.live p hpk)
      have hpn : p ≠ n := fun h => hnk (h ▸ hpk)
      have hpm' : p ≠ m := fun h => nextIn_ne_self hL1.nodup m (h ▸ hpm)
      have hpl : p ∈ l := ((mem_erase_nodup hnd).1 hpk).1
      rw [hpm] at hm1p
      generalize he : exec procs moveAfterStmts { h := h, node := some n, mark := some m, value := val } = e'
      simp [exec, execStmt, execSimples, execSimple, evalP, evalArgs, moveAfterStmts, hpr, hpr1, Node.getF,
        Node.setF, hnm, hg1, hrn, hrm1, hm1p, hfm, hmn, hmn.symm, hrp1, hpn, hpn.symm, hpm', hpm'.symm,
        Store.get_set] at he
      subst he
      refine ⟨by simp, rfl, linked_insAfter hL1 hmk hnk ?_ ?_ ?_ ?_ ?_, ⟨?_, ?_⟩, ?_, ?_⟩
      · rfl
      · simp [hpm]
      · intro x; simp [Store.recOf_set, hpm]; grind
      · intro x; simp [Store.recOf_set, hpm]; grind
      · intro x hx
        have : x ∈ l → (h1.nodes.get x).isSome := fun hx => (hF1.value x (hL.live x hx)).1
        have := @mem_erase_nodup l hnd x n
        simp [Store.get_set]; grind
      · intro x hx
        have : x ≠ n := fun h => hx (h ▸ hn)
        have : x ≠ m := fun h => hx (h ▸ hm)
        have : x ≠ p := fun h => hx (h ▸ hpl)
        simp [Store.get_set, *, hF1.out x hx]
      · intro x hx
        have := hF1.value x hx
        have h2 := Store.recOf_of_get (hg1.trans hrn)
        simp [Store.get_set, Store.recOf_set]
        grind
      · exact hs1
      · exact hid1


theorem procs1_remove : procs1 .remove = some (mkProc procs0 innerRemoveStmts) := rfl
theorem procs2_remove : procs2 .remove = some (mkProc procs0 innerRemoveStmts) := rfl

/-- Inv is preserved by any step that keeps `size`/`nextId`, yields a permutation-length-equal list
inside the old one, and respects the frame. -/
theorem inv_of_linked {l l' : List Nat} {h h' : Heap} (hI : Inv l h) (hL : Linked l' h')
    (hF : Frame l h h') (hs : h'.size = h.size) (hid : h'.nextId = h.nextId)
    (hlen : l'.length = l.length) (hsub : ∀ x ∈ l', x ∈ l) : Inv l' h' :=
  ⟨hL, by rw [hs, hI.size, hlen], fun x hx => by rw [hid]; exact hI.bound x (hsub x hx),
    frame_fresh hI hF hid⟩

theorem move_len_before {l : List Nat} (hl : l.Nodup) {n m : Nat} (hn : n ∈ l) (hm : m ∈ l) :
    (if n = m then l else insBefore (l.erase n) m n).length = l.length ∧
    ∀ x ∈ (if n = m then l else insBefore (l.erase n) m n), x ∈ l := by
  by_cases h : n = m
  · simp [h]
  · have hmk : m ∈ l.erase n := (mem_erase_nodup hl).2 ⟨hm, Ne.symm h⟩
    have : 0 < l.length := List.length_pos_of_mem hn
    simp only [h, if_false]
    refine ⟨by rw [length_insBefore hmk, List.length_erase_of_mem hn]; omega, ?_⟩
    intro x hx
    rcases (mem_insBefore hmk x).1 hx with rfl | hx
    · exact hn
    · exact ((mem_erase_nodup hl).1 hx).1

theorem move_len_after {l : List Nat} (hl : l.Nodup) {n m : Nat} (hn : n ∈ l) (hm : m ∈ l) :
    (if n = m then l else insAfter (l.erase n) m n).length = l.length ∧
    ∀ x ∈ (if n = m then l else insAfter (l.erase n) m n), x ∈ l := by
  by_cases h : n = m
  · simp [h]
  · have hmk : m ∈ l.erase n := (mem_erase_nodup hl).2 ⟨hm, Ne.symm h⟩
    have : 0 < l.length := List.length_pos_of_mem hn
    simp only [h, if_false]
    refine ⟨by rw [length_insAfter hmk, List.length_erase_of_mem hn]; omega, ?_⟩
    intro x hx
    rcases (mem_insAfter hmk x).1 hx with rfl | hx
    · exact hn
    · exact ((mem_erase_nodup hl).1 hx).1

/-- `MoveBefore(node, mark)` -/
theorem moveBefore_spec {l : List Nat} {h : Heap} (hI : Inv l h) {n m : Nat} (hn : n ∈ l) (hm : m ∈ l) :
    let r := apply h (.moveBefore n m)
    r.panicked = false ∧ r.ret = none ∧
      Inv (if n = m then l else insBefore (l.erase n) m n) r.h ∧ Frame l h r.h ∧
      r.h.nextId = h.nextId := by
  obtain ⟨h1, h2, h3, h4, h5, h6⟩ := moveBefore_exec hI.linked hn hm procs2 procs2_remove 0
  obtain ⟨hlen, hsub⟩ := move_len_before hI.linked.nodup hn hm
  simp only [apply, runOp]
  refine ⟨by simpa using h1, h2, inv_of_linked hI h3 h4 h5 h6 hlen hsub, h4, h6⟩

/-- `MoveAfter(node, mark)` -/
theorem moveAfter_spec {l : List Nat} {h : Heap} (hI : Inv l h) {n m : Nat} (hn : n ∈ l) (hm : m ∈ l) :
    let r := apply h (.moveAfter n m)
    r.panicked = false ∧ r.ret = none ∧
      Inv (if n = m then l else insAfter (l.erase n) m n) r.h ∧ Frame l h r.h ∧
      r.h.nextId = h.nextId := by
  obtain ⟨h1, h2, h3, h4, h5, h6⟩ := moveAfter_exec hI.linked hn hm procs2 procs2_remove 0
  obtain ⟨hlen, hsub⟩ := move_len_after hI.linked.nodup hn hm
  simp only [apply, runOp]
  refine ⟨by simpa using h1, h2, inv_of_linked hI h3 h4 h5 h6 hlen hsub, h4, h6⟩

/-- `MoveToFront(node)` = `MoveBefore(node, Front())` -/
theorem moveToFront_spec {l : List Nat} {h : Heap} (hI : Inv l h) {n : Nat} (hn : n ∈ l) :
    let r := apply h (.moveToFront n)
    r.panicked = false ∧ r.ret = none ∧ Inv (n :: l.erase n) r.h ∧ Frame l h r.h ∧
      r.h.nextId = h.nextId := by
  obtain ⟨f, hf⟩ : ∃ f, l.head? = some f := by cases l <;> simp at hn ⊢
  have hfl : f ∈ l := mem_of_head? hf
  have hfr : h.front = some f := hI.linked.front.trans hf
  obtain ⟨h1, h2, h3, h4, h5, h6⟩ := moveBefore_exec hI.linked hn hfl procs1 procs1_remove 0
  obtain ⟨hlen, hsub⟩ := move_len_before hI.linked.nodup hn hfl
  rw [moveToFront_list hI.linked.nodup hn hf] at h3 hlen hsub
  simp only [apply, runOp]
  generalize he : exec procs2 moveToFrontStmts { h := h, node := some n, mark := none, value := 0 } = e'
  simp [exec, execStmt, execSimple, evalP, evalArgs, moveToFrontStmts, procs2, mkProc, hfr] at he
  subst he
  refine ⟨?_, rfl, inv_of_linked hI h3 h4 h5 h6 hlen hsub, h4, h6⟩
  simp; exact h1

/-- `MoveToBack(node)` = `MoveAfter(node, Back())` -/
theorem moveToBack_spec {l : List Nat} {h : Heap} (hI : Inv l h) {n : Nat} (hn : n ∈ l) :
    let r := apply h (.moveToBack n)
    r.panicked = false ∧ r.ret = none ∧ Inv (l.erase n ++ [n]) r.h ∧ Frame l h r.h ∧
      r.h.nextId = h.nextId := by
  obtain ⟨b, hb⟩ : ∃ b, l.getLast? = some b := by
    cases hl : l.getLast? with
    | none => simp at hl; subst hl; simp at hn
    | some b => exact ⟨b, rfl⟩
  have hbl : b ∈ l := List.mem_of_getLast? hb
  have hbk : h.back = some b := hI.linked.back.trans hb
  obtain ⟨h1, h2, h3, h4, h5, h6⟩ := moveAfter_exec hI.linked hn hbl procs1 procs1_remove 0
  obtain ⟨hlen, hsub⟩ := move_len_after hI.linked.nodup hn hbl
  rw [moveToBack_list hI.linked.nodup hn hb] at h3 hlen hsub
  simp only [apply, runOp]
  generalize he : exec procs2 moveToBackStmts { h := h, node := some n, mark := none, value := 0 } = e'
  simp [exec, execStmt, execSimple, evalP, evalArgs, moveToBackStmts, procs2, mkProc, hbk] at he
  subst he
  refine ⟨?_, rfl, inv_of_linked hI h3 h4 h5 h6 hlen hsub, h4, h6⟩
  simp; exact h1

/-- `Clear()` -/
theorem clear_spec {l : List Nat} {h : Heap} (hI : Inv l h) :
    let r := apply h .clear
    r.panicked = false ∧ r.ret = none ∧ Inv [] r.h ∧ r.h.nodes = h.nodes ∧ r.h.nextId = h.nextId := by
  simp only [apply, runOp]
  generalize he : exec procs2 clearStmts { h := h, node := none, mark := none, value := 0 } = e'
  simp [exec, execStmt, execSimple, evalP, clearStmts] at he
  subst he
  exact ⟨rfl, rfl, ⟨linked_nil rfl rfl, rfl, by simp, hI.fresh⟩, rfl, rfl⟩


/-- Inv for an operation that allocated node `h.nextId` -/
theorem inv_of_linked_new {l l' : List Nat} {h h' : Heap} (hI : Inv l h) (hL : Linked l' h')
    (hF : Frame (h.nextId :: l) h h') (hs : h'.size = h.size + 1) (hid : h'.nextId = h.nextId + 1)
    (hlen : l'.length = l.length + 1) (hsub : ∀ x ∈ l', x = h.nextId ∨ x ∈ l) : Inv l' h' := by
  refine ⟨hL, by rw [hs, hI.size, hlen]; simp, ?_, ?_⟩
  · intro x hx
    rw [hid]
    rcases hsub x hx with rfl | hx
    · omega
    · have := hI.bound x hx; omega
  · intro x hx
    rw [hid] at hx
    have : x ∉ h.nextId :: l := by
      intro hm
      rcases List.mem_cons.1 hm with rfl | hm
      · omega
      · have := hI.bound x hm; omega
    rw [hF.out x this]; exact hI.fresh x (by omega)

theorem frame_first {F I G : Prop} (hF : F) (hI : F → I) (hG : G) : I ∧ F ∧ G := ⟨hI hF, hF, hG⟩

/-- `InsertBefore(value, mark)` -/
theorem insertBefore_spec {l : List Nat} {h : Heap} (hI : Inv l h) {m : Nat} (hm : m ∈ l) (v : Int) :
    let r := apply h (.insertBefore v m)
    r.panicked = false ∧ r.ret = some h.nextId ∧ Inv (insBefore l m h.nextId) r.h ∧
      Frame (h.nextId :: l) h r.h ∧ r.h.nodes.get h.nextId = some ⟨prevIn l m, some m, v⟩ ∧
      r.h.nextId = h.nextId + 1 := by
  have hL := hI.linked
  have hnd := hL.nodup
  have hnl : h.nextId ∉ l := fun hx => by have := hI.bound _ hx; omega
  have hmn : m ≠ h.nextId := fun e => hnl (e ▸ hm)
  have hrm := Store.get_of_isSome (hL.live m hm)
  have hmp := hL.prev m hm
  have hp0 := prevIn_eq_none_iff hnd hm
  have hf := hL.front
  simp only [apply, runOp]
  rcases hpm : prevIn l m with _ | p
  · have hfm : h.front = some m := by rw [hf]; exact hp0.1 hpm
    rw [hpm] at hmp
    generalize he : exec procs2 insertBeforeStmts { h := h, node := none, mark := some m, value := v } = e'
    simp [exec, execStmt, execSimples, execSimple, evalP, insertBeforeStmts, Node.getF, Node.setF,
      hrm, hmp, hfm, hmn, hmn.symm, Store.get_set] at he
    subst he
    refine ⟨rfl, rfl, frame_first ⟨?_, ?_⟩ (fun hF => inv_of_linked_new hI
      (linked_insBefore hL hm hnl ?_ ?_ ?_ ?_ ?_) hF rfl rfl
      (length_insBefore hm) (fun x hx => (mem_insBefore hm x).1 hx)) ⟨?_, rfl⟩⟩
    · intro x hx
      have : x ≠ h.nextId := fun e => hx (e ▸ List.mem_cons_self)
      have : x ≠ m := fun e => hx (e ▸ List.mem_cons_of_mem _ hm)
      simp [Store.get_set, *]
    · intro x hx
      have : x ≠ h.nextId := fun e => by rw [e, hI.fresh _ (Nat.le_refl _)] at hx; simp at hx
      simp [Store.get_set, Store.recOf_set]
      grind
    · simp [hpm]
    · rfl
    · intro x; simp [Store.recOf_set, hpm]; grind
    · intro x; simp [Store.recOf_set, hpm]; grind
    · intro x hx
      have := hL.live x
      simp [Store.get_set]; grind
    · simp [Store.get_set, hmn.symm, hpm]
  · have hpl := (prevIn_mem hpm).2
    have hfm : h.front ≠ some m := by rw [hf]; intro e; rw [hp0.2 e] at hpm; cases hpm
    have hrp := Store.get_of_isSome (hL.live p hpl)
    have hpn : p ≠ h.nextId := fun e => hnl (e ▸ hpl)
    have hpm' : p ≠ m := fun e => prevIn_ne_self hnd m (e ▸ hpm)
    rw [hpm] at hmp
    generalize he : exec procs2 insertBeforeStmts { h := h, node := none, mark := some m, value := v } = e'
    simp [exec, execStmt, execSimples, execSimple, evalP, insertBeforeStmts, Node.getF, Node.setF,
      hrm, hmp, hfm, hmn, hmn.symm, hrp, hpn, hpn.symm, hpm', hpm'.symm, Store.get_set] at he
    subst he
    refine ⟨rfl, rfl, frame_first ⟨?_, ?_⟩ (fun hF => inv_of_linked_new hI
      (linked_insBefore hL hm hnl ?_ ?_ ?_ ?_ ?_) hF rfl rfl
      (length_insBefore hm) (fun x hx => (mem_insBefore hm x).1 hx)) ⟨?_, rfl⟩⟩
    · intro x hx
      have : x ≠ h.nextId := fun e => hx (e ▸ List.mem_cons_self)
      have : x ≠ m := fun e => hx (e ▸ List.mem_cons_of_mem _ hm)
      have : x ≠ p := fun e => hx (e ▸ List.mem_cons_of_mem _ hpl)
      simp [Store.get_set, *]
    · intro x hx
      have : x ≠ h.nextId := fun e => by rw [e, hI.fresh _ (Nat.le_refl _)] at hx; simp at hx
      simp [Store.get_set, Store.recOf_set]
      grind
    · simp [hpm]
    · rfl
    · intro x; simp [Store.recOf_set, hpm]; grind
    · intro x; simp [Store.recOf_set, hpm]; grind
    · intro x hx
      have := hL.live x
      simp [Store.get_set]; grind
    · simp [Store.get_set, hmn.symm, hpn.symm, hpm]

/-- `InsertAfter(value, mark)` -/
theorem insertAfter_spec {l : List Nat} {h : Heap} (hI : Inv l h) {m : Nat} (hm : m ∈ l) (v : Int) :
    let r := apply h (.insertAfter v m)
    r.panicked = false ∧ r.ret = some h.nextId ∧ Inv (insAfter l m h.nextId) r.h ∧
      Frame (h.nextId :: l) h r.h ∧ r.h.nodes.get h.nextId = some ⟨some m, nextIn l m, v⟩ ∧
      r.h.nextId = h.nextId + 1 := by
  have hL := hI.linked
  have hnd := hL.nodup
  have hnl : h.nextId ∉ l := fun hx => by have := hI.bound _ hx; omega
  have hmn : m ≠ h.nextId := fun e => hnl (e ▸ hm)
  have hrm := Store.get_of_isSome (hL.live m hm)
  have hmp := hL.next m hm
  have hp0 := nextIn_eq_none_iff hnd hm
  have hf := hL.back
  simp only [apply, runOp]
  rcases hpm : nextIn l m with _ | p
  · have hfm : h.back = some m := by rw [hf]; exact hp0.1 hpm
    rw [hpm] at hmp
    generalize he : exec procs2 insertAfterStmts { h := h, node := none, mark := some m, value := v } = e'
    simp [exec, execStmt, execSimples, execSimple, evalP, insertAfterStmts, Node.getF, Node.setF,
      hrm, hmp, hfm, hmn, hmn.symm, Store.get_set] at he
    subst he
    refine ⟨rfl, rfl, frame_first ⟨?_, ?_⟩ (fun hF => inv_of_linked_new hI
      (linked_insAfter hL hm hnl ?_ ?_ ?_ ?_ ?_) hF rfl rfl
      (length_insAfter hm) (fun x hx => (mem_insAfter hm x).1 hx)) ⟨?_, rfl⟩⟩
    · intro x hx
      have : x ≠ h.nextId := fun e => hx (e ▸ List.mem_cons_self)
      have : x ≠ m := fun e => hx (e ▸ List.mem_cons_of_mem _ hm)
      simp [Store.get_set, *]
    · intro x hx
      have : x ≠ h.nextId := fun e => by rw [e, hI.fresh _ (Nat.le_refl _)] at hx; simp at hx
      simp [Store.get_set, Store.recOf_set]
      grind
    · rfl
    · simp [hpm]
    · intro x; simp [Store.recOf_set, hpm]; grind
    · intro x; simp [Store.recOf_set, hpm]; grind
    · intro x hx
      have := hL.live x
      simp [Store.get_set]; grind
    · simp [Store.get_set, hmn.symm, hpm]
  · have hpl := (nextIn_mem hpm).2
    have hfm : h.back ≠ some m := by rw [hf]; intro e; rw [hp0.2 e] at hpm; cases hpm
    have hrp := Store.get_of_isSome (hL.live p hpl)
    have hpn : p ≠ h.nextId := fun e => hnl (e ▸ hpl)
    have hpm' : p ≠ m := fun e => nextIn_ne_self hnd m (e ▸ hpm)
    rw [hpm] at hmp
    generalize he : exec procs2 insertAfterStmts { h := h, node := none, mark := some m, value := v } = e'
    simp [exec, execStmt, execSimples, execSimple, evalP, insertAfterStmts, Node.getF, Node.setF,
      hrm, hmp, hfm, hmn, hmn.symm, hrp, hpn, hpn.symm, hpm', hpm'.symm, Store.get_set] at he
    subst he
    refine ⟨rfl, rfl, frame_first ⟨?_, ?_⟩ (fun hF => inv_of_linked_new hI
      (linked_insAfter hL hm hnl ?_ ?_ ?_ ?_ ?_) hF rfl rfl
      (length_insAfter hm) (fun x hx => (mem_insAfter hm x).1 hx)) ⟨?_, rfl⟩⟩
    · intro x hx
      have : x ≠ h.nextId := fun e => hx (e ▸ List.mem_cons_self)
      have : x ≠ m := fun e => hx (e ▸ List.mem_cons_of_mem _ hm)
      have : x ≠ p := fun e => hx (e ▸ List.mem_cons_of_mem _ hpl)
      simp [Store.get_set, *]
    · intro x hx
      have : x ≠ h.nextId := fun e => by rw [e, hI.fresh _ (Nat.le_refl _)] at hx; simp at hx
      simp [Store.get_set, Store.recOf_set]
      grind
    · rfl
    · simp [hpm]
    · intro x; simp [Store.recOf_set, hpm]; grind
    · intro x; simp [Store.recOf_set, hpm]; grind
    · intro x hx
      have := hL.live x
      simp [Store.get_set]; grind
    · simp [Store.get_set, hmn.symm, hpn.symm, hpm]


/-- `PushFront(value)` -/
theorem pushFront_spec {l : List Nat} {h : Heap} (hI : Inv l h) (v : Int) :
    let r := apply h (.pushFront v)
    r.panicked = false ∧ r.ret = some h.nextId ∧ Inv (h.nextId :: l) r.h ∧
      Frame (h.nextId :: l) h r.h ∧ r.h.nodes.get h.nextId = some ⟨none, l.head?, v⟩ ∧
      r.h.nextId = h.nextId + 1 := by
  have hL := hI.linked
  have hnd := hL.nodup
  have hnl : h.nextId ∉ l := fun hx => by have := hI.bound _ hx; omega
  have hf := hL.front
  have hb := hL.back
  simp only [apply, runOp]
  cases l with
  | nil =>
    simp at hf hb
    generalize he : exec procs2 pushFrontStmts { h := h, node := none, mark := none, value := v } = e'
    simp [exec, execStmt, execSimples, execSimple, evalP, pushFrontStmts, Node.getF, Node.setF,
      hf, hb, Store.get_set] at he
    subst he
    refine ⟨rfl, rfl, frame_first ⟨?_, ?_⟩ (fun hF => inv_of_linked_new hI
      (linked_cons hL hnl ?_ ?_ ?_ ?_ ?_) hF rfl rfl (by simp) (fun x hx => by simpa using hx)) ⟨?_, rfl⟩⟩
    · intro x hx
      have : x ≠ h.nextId := fun e => hx (e ▸ List.mem_cons_self)
      simp [Store.get_set, *]
    · intro x hx
      have : x ≠ h.nextId := fun e => by rw [e, hI.fresh _ (Nat.le_refl _)] at hx; simp at hx
      simp [Store.get_set, Store.recOf_set]
      grind
    · rfl
    · simp [hb]
    · intro x; simp [Store.recOf_set, hf]; grind
    · intro x; simp [Store.recOf_set, hf]; grind
    · intro x hx; simp at hx; simp [Store.get_set, hx]
    · simp [Store.get_set]
  | cons f t =>
    simp at hf
    have hfl : f ∈ f :: t := List.mem_cons_self
    have hbn : h.back ≠ none := by rw [hb]; simp [getLast?_cons']; split <;> simp [*]
    have hrf := Store.get_of_isSome (hL.live f hfl)
    have hfn : f ≠ h.nextId := fun e => hnl (e ▸ hfl)
    generalize he : exec procs2 pushFrontStmts { h := h, node := none, mark := none, value := v } = e'
    simp [exec, execStmt, execSimples, execSimple, evalP, pushFrontStmts, Node.getF, Node.setF,
      hf, hbn, hrf, hfn, hfn.symm, Store.get_set] at he
    subst he
    refine ⟨rfl, rfl, frame_first ⟨?_, ?_⟩ (fun hF => inv_of_linked_new hI
      (linked_cons hL hnl ?_ ?_ ?_ ?_ ?_) hF rfl rfl (by simp) (fun x hx => by simpa using hx)) ⟨?_, rfl⟩⟩
    · intro x hx
      have : x ≠ h.nextId := fun e => hx (e ▸ List.mem_cons_self)
      have : x ≠ f := fun e => hx (by rw [e]; exact List.mem_cons_of_mem _ hfl)
      simp [Store.get_set, *]
    · intro x hx
      have : x ≠ h.nextId := fun e => by rw [e, hI.fresh _ (Nat.le_refl _)] at hx; simp at hx
      simp [Store.get_set, Store.recOf_set]
      grind
    · rfl
    · simp [hbn]
    · intro x; simp [Store.recOf_set, hf]; grind
    · intro x; simp [Store.recOf_set, hf]; grind
    · intro x hx
      have := hL.live x
      simp [Store.get_set]; grind
    · simp [Store.get_set, hfn.symm]


/-- `PushBack(value)` -/
theorem pushBack_spec {l : List Nat} {h : Heap} (hI : Inv l h) (v : Int) :
    let r := apply h (.pushBack v)
    r.panicked = false ∧ r.ret = some h.nextId ∧ Inv (l ++ [h.nextId]) r.h ∧
      Frame (h.nextId :: l) h r.h ∧ r.h.nodes.get h.nextId = some ⟨l.getLast?, none, v⟩ ∧
      r.h.nextId = h.nextId + 1 := by
  have hL := hI.linked
  have hnd := hL.nodup
  have hnl : h.nextId ∉ l := fun hx => by have := hI.bound _ hx; omega
  have hf := hL.front
  have hb := hL.back
  simp only [apply, runOp]
  rcases hlast : l.getLast? with _ | b
  · have hl : l = [] := by simpa using hlast
    subst hl
    simp at hf hb
    generalize he : exec procs2 pushBackStmts { h := h, node := none, mark := none, value := v } = e'
    simp [exec, execStmt, execSimples, execSimple, evalP, pushBackStmts, Node.getF, Node.setF,
      hf, hb, Store.get_set] at he
    subst he
    refine ⟨rfl, rfl, frame_first ⟨?_, ?_⟩ (fun hF => inv_of_linked_new hI
      (linked_snoc hL hnl ?_ ?_ ?_ ?_ ?_) hF rfl rfl (by simp) (fun x hx => by simpa [or_comm] using hx)) ⟨?_, rfl⟩⟩
    · intro x hx
      have : x ≠ h.nextId := fun e => hx (e ▸ List.mem_cons_self)
      simp [Store.get_set, *]
    · intro x hx
      have : x ≠ h.nextId := fun e => by rw [e, hI.fresh _ (Nat.le_refl _)] at hx; simp at hx
      simp [Store.get_set, Store.recOf_set]
      grind
    · simp [hf]
    · rfl
    · intro x; simp [Store.recOf_set, hb]; grind
    · intro x; simp [Store.recOf_set, hb]; grind
    · intro x hx; simp at hx; simp [Store.get_set, hx]
    · simp [Store.get_set]
  · have hbl : b ∈ l := List.mem_of_getLast? hlast
    rw [hlast] at hb
    have hfn : h.front ≠ none := by rw [hf]; cases l <;> simp at hbl ⊢
    have hrb := Store.get_of_isSome (hL.live b hbl)
    have hbn : b ≠ h.nextId := fun e => hnl (e ▸ hbl)
    generalize he : exec procs2 pushBackStmts { h := h, node := none, mark := none, value := v } = e'
    simp [exec, execStmt, execSimples, execSimple, evalP, pushBackStmts, Node.getF, Node.setF,
      hb, hfn, hrb, hbn, hbn.symm, Store.get_set] at he
    subst he
    refine ⟨rfl, rfl, frame_first ⟨?_, ?_⟩ (fun hF => inv_of_linked_new hI
      (linked_snoc hL hnl ?_ ?_ ?_ ?_ ?_) hF rfl rfl (by simp) (fun x hx => by simpa [or_comm] using hx)) ⟨?_, rfl⟩⟩
    · intro x hx
      have : x ≠ h.nextId := fun e => hx (e ▸ List.mem_cons_self)
      have : x ≠ b := fun e => hx (by rw [e]; exact List.mem_cons_of_mem _ hbl)
      simp [Store.get_set, *]
    · intro x hx
      have : x ≠ h.nextId := fun e => by rw [e, hI.fresh _ (Nat.le_refl _)] at hx; simp at hx
      simp [Store.get_set, Store.recOf_set]
      grind
    · simp [hfn]
    · rfl
    · intro x; simp [Store.recOf_set, hb]; grind
    · intro x; simp [Store.recOf_set, hb]; grind
    · intro x hx
      have := hL.live x
      simp [Store.get_set]; grind
    · simp [Store.get_set, hbn.symm]


end Juniper.Proofs.XList
