import Juniper.Proofs.BatchLogs
/-!
C11 helper lemmas, third invariant: how the stream ends (source end / error reaches the consumer after
everything that preceded it), and the source's Next/Close log.
-/
namespace Juniper.Proofs.Batch
open Juniper.Model.Batch

structure Inv3 (cfg : Cfg) (s : State) : Prop where
  e1 : s.batchCClosed = true → s.bpc = .done
  e2 : (s.ppc = .closeSrc ∨ s.ppc = .done) → s.cClosed = true
  e2b : s.cClosed = true → (s.ppc = .closeSrc ∨ s.ppc = .done)
  e2c : (s.ppc = .closeC ∨ s.ppc = .closeSrc ∨ s.ppc = .done) → (s.srcTerm ≠ none ∨ s.bgCancelled = true)
  e3 : s.err = true ↔ s.srcTerm = some .err
  e3b : s.srcTerm ≠ none → (s.ppc = .closeC ∨ s.ppc = .closeSrc ∨ s.ppc = .done)
  e3c : s.srcTerm = none ∨ s.srcTerm = some .eof ∨ s.srcTerm = some .err
  e4 : (s.bpc = .exit ∨ s.bpc = .done) → s.bgCancelled = false → s.batch = [] ∧ s.cClosed = true
  h1 : s.srcCloses = (if s.ppc = .done then 1 else 0)
  h2 : s.srcNextAfterClose = false
  h3 : s.closeReturned = true → s.ppc = .done ∧ s.bpc = .done
  r1 : ∀ r ∈ s.results, (r = .endOK ∨ r = .srcErr) →
    s.batchCClosed = true ∧ s.cClosed = true ∧ flat s.delivered = s.pulled
  r2 : .endOK ∈ s.results → s.srcTerm = some .eof
  r3 : .srcErr ∈ s.results → s.srcTerm = some .err
  d_end2 : ∀ d ∈ s.delivered, d.reason = .srcEnd → s.srcTerm ≠ none

theorem inv3_init (cfg : Cfg) : Inv3 cfg init := by
  constructor <;> simp [init]

macro "close_inv3" : tactic => `(tactic| (constructor <;> (try dsimp only) <;>
  first | grind [inTransit] | ((try simp_all [inTransit]) <;> grind [inTransit])))

theorem inv3_srcRet {cfg : Cfg} {s s' : State} (ev : _) (h1' : Inv1 cfg s) (h2' : Inv2 cfg s) (hi : Inv3 cfg s)
    (h : step good cfg s (.srcRet ev) = some s') : Inv3 cfg s' := by
  obtain ⟨c1, t1a, t_set, t_ne, t_len, t_armed, t_fired, n1, n2, u0, u3, u1⟩ := h1'
  obtain ⟨a1, a2, g1, d_ne, d_wait, d_full, d_end, u2, u4, u5⟩ := h2'
  obtain ⟨e1, e2, e2b, e2c, e3, e3b, e3c, e4, h1, h2, h3, r1, r2, r3, d_end2⟩ := hi
  unfold_step at h <;> (repeat' split at h) <;> cases h <;> close_inv3

theorem inv3_srcCancelErr {cfg : Cfg} {s s' : State} (w : _) (h1' : Inv1 cfg s) (h2' : Inv2 cfg s) (hi : Inv3 cfg s)
    (h : step good cfg s (.srcCancelErr w) = some s') : Inv3 cfg s' := by
  obtain ⟨c1, t1a, t_set, t_ne, t_len, t_armed, t_fired, n1, n2, u0, u3, u1⟩ := h1'
  obtain ⟨a1, a2, g1, d_ne, d_wait, d_full, d_end, u2, u4, u5⟩ := h2'
  obtain ⟨e1, e2, e2b, e2c, e3, e3b, e3c, e4, h1, h2, h3, r1, r2, r3, d_end2⟩ := hi
  unfold_step at h <;> (repeat' split at h) <;> cases h <;> close_inv3

theorem inv3_nextCall {cfg : Cfg} {s s' : State} (live : _) (h1' : Inv1 cfg s) (h2' : Inv2 cfg s) (hi : Inv3 cfg s)
    (h : step good cfg s (.nextCall live) = some s') : Inv3 cfg s' := by
  obtain ⟨c1, t1a, t_set, t_ne, t_len, t_armed, t_fired, n1, n2, u0, u3, u1⟩ := h1'
  obtain ⟨a1, a2, g1, d_ne, d_wait, d_full, d_end, u2, u4, u5⟩ := h2'
  obtain ⟨e1, e2, e2b, e2c, e3, e3b, e3c, e4, h1, h2, h3, r1, r2, r3, d_end2⟩ := hi
  unfold_step at h <;> (repeat' split at h) <;> cases h <;> close_inv3

theorem inv3_ctxExpire {cfg : Cfg} {s s' : State} (h1' : Inv1 cfg s) (h2' : Inv2 cfg s) (hi : Inv3 cfg s)
    (h : step good cfg s (.ctxExpire) = some s') : Inv3 cfg s' := by
  obtain ⟨c1, t1a, t_set, t_ne, t_len, t_armed, t_fired, n1, n2, u0, u3, u1⟩ := h1'
  obtain ⟨a1, a2, g1, d_ne, d_wait, d_full, d_end, u2, u4, u5⟩ := h2'
  obtain ⟨e1, e2, e2b, e2c, e3, e3b, e3c, e4, h1, h2, h3, r1, r2, r3, d_end2⟩ := hi
  unfold_step at h <;> (repeat' split at h) <;> cases h <;> close_inv3

theorem inv3_tick {cfg : Cfg} {s s' : State} (d : _) (h1' : Inv1 cfg s) (h2' : Inv2 cfg s) (hi : Inv3 cfg s)
    (h : step good cfg s (.tick d) = some s') : Inv3 cfg s' := by
  obtain ⟨c1, t1a, t_set, t_ne, t_len, t_armed, t_fired, n1, n2, u0, u3, u1⟩ := h1'
  obtain ⟨a1, a2, g1, d_ne, d_wait, d_full, d_end, u2, u4, u5⟩ := h2'
  obtain ⟨e1, e2, e2b, e2c, e3, e3b, e3c, e4, h1, h2, h3, r1, r2, r3, d_end2⟩ := hi
  unfold_step at h <;> (repeat' split at h) <;> cases h <;> close_inv3

theorem inv3_close {cfg : Cfg} {s s' : State} (h1' : Inv1 cfg s) (h2' : Inv2 cfg s) (hi : Inv3 cfg s)
    (h : step good cfg s (.close) = some s') : Inv3 cfg s' := by
  obtain ⟨c1, t1a, t_set, t_ne, t_len, t_armed, t_fired, n1, n2, u0, u3, u1⟩ := h1'
  obtain ⟨a1, a2, g1, d_ne, d_wait, d_full, d_end, u2, u4, u5⟩ := h2'
  obtain ⟨e1, e2, e2b, e2c, e3, e3b, e3c, e4, h1, h2, h3, r1, r2, r3, d_end2⟩ := hi
  unfold_step at h <;> (repeat' split at h) <;> cases h <;> close_inv3

theorem inv3_bgEnds {cfg : Cfg} {s s' : State} (h1' : Inv1 cfg s) (h2' : Inv2 cfg s) (hi : Inv3 cfg s)
    (h : step good cfg s (.bgEnds) = some s') : Inv3 cfg s' := by
  obtain ⟨c1, t1a, t_set, t_ne, t_len, t_armed, t_fired, n1, n2, u0, u3, u1⟩ := h1'
  obtain ⟨a1, a2, g1, d_ne, d_wait, d_full, d_end, u2, u4, u5⟩ := h2'
  obtain ⟨e1, e2, e2b, e2c, e3, e3b, e3c, e4, h1, h2, h3, r1, r2, r3, d_end2⟩ := hi
  unfold_step at h <;> (repeat' split at h) <;> cases h <;> close_inv3

theorem inv3_prodCancelled {cfg : Cfg} {s s' : State} (h1' : Inv1 cfg s) (h2' : Inv2 cfg s) (hi : Inv3 cfg s)
    (h : step good cfg s (.prodCancelled) = some s') : Inv3 cfg s' := by
  obtain ⟨c1, t1a, t_set, t_ne, t_len, t_armed, t_fired, n1, n2, u0, u3, u1⟩ := h1'
  obtain ⟨a1, a2, g1, d_ne, d_wait, d_full, d_end, u2, u4, u5⟩ := h2'
  obtain ⟨e1, e2, e2b, e2c, e3, e3b, e3c, e4, h1, h2, h3, r1, r2, r3, d_end2⟩ := hi
  unfold_step at h <;> (repeat' split at h) <;> cases h <;> close_inv3

theorem inv3_prodSend {cfg : Cfg} {s s' : State} (h1' : Inv1 cfg s) (h2' : Inv2 cfg s) (hi : Inv3 cfg s)
    (h : step good cfg s (.prodSend) = some s') : Inv3 cfg s' := by
  obtain ⟨c1, t1a, t_set, t_ne, t_len, t_armed, t_fired, n1, n2, u0, u3, u1⟩ := h1'
  obtain ⟨a1, a2, g1, d_ne, d_wait, d_full, d_end, u2, u4, u5⟩ := h2'
  obtain ⟨e1, e2, e2b, e2c, e3, e3b, e3c, e4, h1, h2, h3, r1, r2, r3, d_end2⟩ := hi
  unfold_step at h <;> (repeat' split at h) <;> cases h <;> close_inv3

theorem inv3_prodSendCancel {cfg : Cfg} {s s' : State} (h1' : Inv1 cfg s) (h2' : Inv2 cfg s) (hi : Inv3 cfg s)
    (h : step good cfg s (.prodSendCancel) = some s') : Inv3 cfg s' := by
  obtain ⟨c1, t1a, t_set, t_ne, t_len, t_armed, t_fired, n1, n2, u0, u3, u1⟩ := h1'
  obtain ⟨a1, a2, g1, d_ne, d_wait, d_full, d_end, u2, u4, u5⟩ := h2'
  obtain ⟨e1, e2, e2b, e2c, e3, e3b, e3c, e4, h1, h2, h3, r1, r2, r3, d_end2⟩ := hi
  unfold_step at h <;> (repeat' split at h) <;> cases h <;> close_inv3

theorem inv3_prodCloseC {cfg : Cfg} {s s' : State} (h1' : Inv1 cfg s) (h2' : Inv2 cfg s) (hi : Inv3 cfg s)
    (h : step good cfg s (.prodCloseC) = some s') : Inv3 cfg s' := by
  obtain ⟨c1, t1a, t_set, t_ne, t_len, t_armed, t_fired, n1, n2, u0, u3, u1⟩ := h1'
  obtain ⟨a1, a2, g1, d_ne, d_wait, d_full, d_end, u2, u4, u5⟩ := h2'
  obtain ⟨e1, e2, e2b, e2c, e3, e3b, e3c, e4, h1, h2, h3, r1, r2, r3, d_end2⟩ := hi
  unfold_step at h <;> (repeat' split at h) <;> cases h <;> close_inv3

theorem inv3_prodCloseSrc {cfg : Cfg} {s s' : State} (h1' : Inv1 cfg s) (h2' : Inv2 cfg s) (hi : Inv3 cfg s)
    (h : step good cfg s (.prodCloseSrc) = some s') : Inv3 cfg s' := by
  obtain ⟨c1, t1a, t_set, t_ne, t_len, t_armed, t_fired, n1, n2, u0, u3, u1⟩ := h1'
  obtain ⟨a1, a2, g1, d_ne, d_wait, d_full, d_end, u2, u4, u5⟩ := h2'
  obtain ⟨e1, e2, e2b, e2c, e3, e3b, e3c, e4, h1, h2, h3, r1, r2, r3, d_end2⟩ := hi
  unfold_step at h <;> (repeat' split at h) <;> cases h <;> close_inv3

theorem inv3_fullRet {cfg : Cfg} {s s' : State} (b : _) (h1' : Inv1 cfg s) (h2' : Inv2 cfg s) (hi : Inv3 cfg s)
    (h : step good cfg s (.fullRet b) = some s') : Inv3 cfg s' := by
  obtain ⟨c1, t1a, t_set, t_ne, t_len, t_armed, t_fired, n1, n2, u0, u3, u1⟩ := h1'
  obtain ⟨a1, a2, g1, d_ne, d_wait, d_full, d_end, u2, u4, u5⟩ := h2'
  obtain ⟨e1, e2, e2b, e2c, e3, e3b, e3c, e4, h1, h2, h3, r1, r2, r3, d_end2⟩ := hi
  unfold_step at h <;> (repeat' split at h) <;> cases h <;> close_inv3

theorem inv3_recvCClosed {cfg : Cfg} {s s' : State} (h1' : Inv1 cfg s) (h2' : Inv2 cfg s) (hi : Inv3 cfg s)
    (h : step good cfg s (.recvCClosed) = some s') : Inv3 cfg s' := by
  obtain ⟨c1, t1a, t_set, t_ne, t_len, t_armed, t_fired, n1, n2, u0, u3, u1⟩ := h1'
  obtain ⟨a1, a2, g1, d_ne, d_wait, d_full, d_end, u2, u4, u5⟩ := h2'
  obtain ⟨e1, e2, e2b, e2c, e3, e3b, e3c, e4, h1, h2, h3, r1, r2, r3, d_end2⟩ := hi
  unfold_step at h <;> (repeat' split at h) <;> cases h <;> close_inv3

theorem inv3_recvTimer {cfg : Cfg} {s s' : State} (h1' : Inv1 cfg s) (h2' : Inv2 cfg s) (hi : Inv3 cfg s)
    (h : step good cfg s (.recvTimer) = some s') : Inv3 cfg s' := by
  obtain ⟨c1, t1a, t_set, t_ne, t_len, t_armed, t_fired, n1, n2, u0, u3, u1⟩ := h1'
  obtain ⟨a1, a2, g1, d_ne, d_wait, d_full, d_end, u2, u4, u5⟩ := h2'
  obtain ⟨e1, e2, e2b, e2c, e3, e3b, e3c, e4, h1, h2, h3, r1, r2, r3, d_end2⟩ := hi
  unfold_step at h <;> (repeat' split at h) <;> cases h <;> close_inv3

theorem inv3_flushAbort {cfg : Cfg} {s s' : State} (h1' : Inv1 cfg s) (h2' : Inv2 cfg s) (hi : Inv3 cfg s)
    (h : step good cfg s (.flushAbort) = some s') : Inv3 cfg s' := by
  obtain ⟨c1, t1a, t_set, t_ne, t_len, t_armed, t_fired, n1, n2, u0, u3, u1⟩ := h1'
  obtain ⟨a1, a2, g1, d_ne, d_wait, d_full, d_end, u2, u4, u5⟩ := h2'
  obtain ⟨e1, e2, e2b, e2c, e3, e3b, e3c, e4, h1, h2, h3, r1, r2, r3, d_end2⟩ := hi
  unfold_step at h <;> (repeat' split at h) <;> cases h <;> close_inv3

theorem inv3_batchExit {cfg : Cfg} {s s' : State} (h1' : Inv1 cfg s) (h2' : Inv2 cfg s) (hi : Inv3 cfg s)
    (h : step good cfg s (.batchExit) = some s') : Inv3 cfg s' := by
  obtain ⟨c1, t1a, t_set, t_ne, t_len, t_armed, t_fired, n1, n2, u0, u3, u1⟩ := h1'
  obtain ⟨a1, a2, g1, d_ne, d_wait, d_full, d_end, u2, u4, u5⟩ := h2'
  obtain ⟨e1, e2, e2b, e2c, e3, e3b, e3c, e4, h1, h2, h3, r1, r2, r3, d_end2⟩ := hi
  unfold_step at h <;> (repeat' split at h) <;> cases h <;> close_inv3

theorem inv3_announce {cfg : Cfg} {s s' : State} (h1' : Inv1 cfg s) (h2' : Inv2 cfg s) (hi : Inv3 cfg s)
    (h : step good cfg s (.announce) = some s') : Inv3 cfg s' := by
  obtain ⟨c1, t1a, t_set, t_ne, t_len, t_armed, t_fired, n1, n2, u0, u3, u1⟩ := h1'
  obtain ⟨a1, a2, g1, d_ne, d_wait, d_full, d_end, u2, u4, u5⟩ := h2'
  obtain ⟨e1, e2, e2b, e2c, e3, e3b, e3c, e4, h1, h2, h3, r1, r2, r3, d_end2⟩ := hi
  unfold_step at h <;> (repeat' split at h) <;> cases h <;> close_inv3

theorem inv3_deliver {cfg : Cfg} {s s' : State} (h1' : Inv1 cfg s) (h2' : Inv2 cfg s) (hi : Inv3 cfg s)
    (h : step good cfg s (.deliver) = some s') : Inv3 cfg s' := by
  obtain ⟨c1, t1a, t_set, t_ne, t_len, t_armed, t_fired, n1, n2, u0, u3, u1⟩ := h1'
  obtain ⟨a1, a2, g1, d_ne, d_wait, d_full, d_end, u2, u4, u5⟩ := h2'
  obtain ⟨e1, e2, e2b, e2c, e3, e3b, e3c, e4, h1, h2, h3, r1, r2, r3, d_end2⟩ := hi
  unfold_step at h <;> (repeat' split at h) <;> cases h <;> close_inv3

theorem inv3_consClosed {cfg : Cfg} {s s' : State} (h1' : Inv1 cfg s) (h2' : Inv2 cfg s) (hi : Inv3 cfg s)
    (h : step good cfg s (.consClosed) = some s') : Inv3 cfg s' := by
  obtain ⟨c1, t1a, t_set, t_ne, t_len, t_armed, t_fired, n1, n2, u0, u3, u1⟩ := h1'
  obtain ⟨a1, a2, g1, d_ne, d_wait, d_full, d_end, u2, u4, u5⟩ := h2'
  obtain ⟨e1, e2, e2b, e2c, e3, e3b, e3c, e4, h1, h2, h3, r1, r2, r3, d_end2⟩ := hi
  unfold_step at h <;> (repeat' split at h) <;> cases h <;> close_inv3

theorem inv3_consCtx {cfg : Cfg} {s s' : State} (h1' : Inv1 cfg s) (h2' : Inv2 cfg s) (hi : Inv3 cfg s)
    (h : step good cfg s (.consCtx) = some s') : Inv3 cfg s' := by
  obtain ⟨c1, t1a, t_set, t_ne, t_len, t_armed, t_fired, n1, n2, u0, u3, u1⟩ := h1'
  obtain ⟨a1, a2, g1, d_ne, d_wait, d_full, d_end, u2, u4, u5⟩ := h2'
  obtain ⟨e1, e2, e2b, e2c, e3, e3b, e3c, e4, h1, h2, h3, r1, r2, r3, d_end2⟩ := hi
  unfold_step at h <;> (repeat' split at h) <;> cases h <;> close_inv3

theorem inv3_timerExpire {cfg : Cfg} {s s' : State} (h1' : Inv1 cfg s) (h2' : Inv2 cfg s) (hi : Inv3 cfg s)
    (h : step good cfg s (.timerExpire) = some s') : Inv3 cfg s' := by
  obtain ⟨c1, t1a, t_set, t_ne, t_len, t_armed, t_fired, n1, n2, u0, u3, u1⟩ := h1'
  obtain ⟨a1, a2, g1, d_ne, d_wait, d_full, d_end, u2, u4, u5⟩ := h2'
  obtain ⟨e1, e2, e2b, e2c, e3, e3b, e3c, e4, h1, h2, h3, r1, r2, r3, d_end2⟩ := hi
  unfold_step at h <;> (repeat' split at h) <;> cases h <;> close_inv3

theorem inv3_closeReturn {cfg : Cfg} {s s' : State} (h1' : Inv1 cfg s) (h2' : Inv2 cfg s) (hi : Inv3 cfg s)
    (h : step good cfg s (.closeReturn) = some s') : Inv3 cfg s' := by
  obtain ⟨c1, t1a, t_set, t_ne, t_len, t_armed, t_fired, n1, n2, u0, u3, u1⟩ := h1'
  obtain ⟨a1, a2, g1, d_ne, d_wait, d_full, d_end, u2, u4, u5⟩ := h2'
  obtain ⟨e1, e2, e2b, e2c, e3, e3b, e3c, e4, h1, h2, h3, r1, r2, r3, d_end2⟩ := hi
  unfold_step at h <;> (repeat' split at h) <;> cases h <;> close_inv3

theorem inv3_step {cfg : Cfg} {s s' : State} {l : Label} (h1' : Inv1 cfg s) (h2' : Inv2 cfg s) (hi : Inv3 cfg s)
    (h : step good cfg s l = some s') : Inv3 cfg s' := by
  cases l with
  | srcRet ev => exact inv3_srcRet ev h1' h2' hi h
  | srcCancelErr w => exact inv3_srcCancelErr w h1' h2' hi h
  | nextCall live => exact inv3_nextCall live h1' h2' hi h
  | ctxExpire => exact inv3_ctxExpire h1' h2' hi h
  | tick d => exact inv3_tick d h1' h2' hi h
  | close => exact inv3_close h1' h2' hi h
  | bgEnds => exact inv3_bgEnds h1' h2' hi h
  | prodCancelled => exact inv3_prodCancelled h1' h2' hi h
  | prodSend => exact inv3_prodSend h1' h2' hi h
  | prodSendCancel => exact inv3_prodSendCancel h1' h2' hi h
  | prodCloseC => exact inv3_prodCloseC h1' h2' hi h
  | prodCloseSrc => exact inv3_prodCloseSrc h1' h2' hi h
  | fullRet b => exact inv3_fullRet b h1' h2' hi h
  | recvCClosed => exact inv3_recvCClosed h1' h2' hi h
  | recvTimer => exact inv3_recvTimer h1' h2' hi h
  | flushAbort => exact inv3_flushAbort h1' h2' hi h
  | batchExit => exact inv3_batchExit h1' h2' hi h
  | announce => exact inv3_announce h1' h2' hi h
  | deliver => exact inv3_deliver h1' h2' hi h
  | consClosed => exact inv3_consClosed h1' h2' hi h
  | consCtx => exact inv3_consCtx h1' h2' hi h
  | timerExpire => exact inv3_timerExpire h1' h2' hi h
  | closeReturn => exact inv3_closeReturn h1' h2' hi h

theorem inv3_reach {cfg : Cfg} {s : State} (h : Reach good cfg s) : Inv3 cfg s := by
  induction h with
  | init => exact inv3_init cfg
  | step l hr hs ih => exact inv3_step (inv1_reach hr) (inv2_reach hr) ih hs

end Juniper.Proofs.Batch
