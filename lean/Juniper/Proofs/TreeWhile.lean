import Juniper.Model.BTree
/-!
# The far bound of `Range` / `RangeReverse`: in-range predicate inside the iterator ≡ `iterator.While` around it

Until the repair of D18 a bounded range was `iterator.While(c.Forward(), pred)`: the cursor iterator
produced `(key, value)` of the entry it was parked on — reading the value slot of the first key *beyond*
the bound — and only then did `While` discard the pair. Now `forwardIterator.Next` /
`backwardIterator.Next` test the predicate on the key before the value is read (`Model.BTree.iterNext`,
every guard regenerated: `fwdChecksDone`, `fwdStops`, `fwdCutoffSticky`, `iterReseeks`,
`iterReadsThenSteps` and their `bwd…` twins).

`iterNextW` below is the old formulation (`rawNext` wrapped in `While`, with `While`'s semantics written
out: `if iter.done`, `if !iter.f(item)`, `iter.done = true`). `iterNext_eq_while` shows the two
indistinguishable: related iterators (`IterEq`: same direction, predicate and `done` flag, same cursor as
long as they are not cut off) answer every `Next` identically on every tree and stay related — whatever
happens to the tree between the calls. (After the cut-off the cursors differ — the old one had consumed
the entry beyond the bound — but a cut-off iterator never looks at its cursor again.) The theorems about
`Range`/`RangeReverse` (C01) and about iteration under mutation (C02) are proved for the `While`
formulation and carried over by this lemma; flipping any of the regenerated guards breaks it.
-/
namespace Juniper.Proofs.Tree
open Juniper.Model.BTree Juniper.Gen.Tree

variable {K V : Type} {cmp : K → K → Int}

/-- `whileIterator.Next`: `if iter.done` -/
def whileChecksDone (done : Bool) : Bool := done
/-- `whileIterator.Next`: `if !iter.f(item)` -/
def whileStops (keep : Bool) : Bool := !keep
/-- `whileIterator.Next`: `iter.done = true` in the branch of a failed predicate -/
def whileSticky : Bool := true

/-- the `While` formulation: `rawNext` (key and value of the parked entry, cursor moved on), then the predicate -/
def iterNextW (cmp : K → K → Int) (t : Tree K V) (it : Iter K) : Iter K × Option (K × Option V) :=
  match it.stop with
  | none =>
    let r := rawNext cmp t it.fwd it.c
    ({ it with c := r.1 }, r.2)
  | some (op, key) =>
    if whileChecksDone it.done then (it, none)
    else
      let r := rawNext cmp t it.fwd it.c
      match r.2 with
      | none => ({ it with c := r.1 }, none)
      | some (k, v) =>
        if whileStops (evalOp op (cmp k key)) then ({ it with c := r.1, done := whileSticky || it.done }, none)
        else ({ it with c := r.1 }, some (k, v))

/-- drain a `While`-formulation iterator on an unchanging tree -/
def drainW (cmp : K → K → Int) (t : Tree K V) : Nat → Iter K → List (K × Option V)
  | 0, _ => []
  | fuel + 1, it =>
    match iterNextW cmp t it with
    | (_, none) => []
    | (it', some kv) => kv :: drainW cmp t fuel it'

/-- same direction, predicate and cut-off flag; same cursor unless cut off; an iterator without predicate is
never cut off -/
structure IterEq (a b : Iter K) : Prop where
  fwd : a.fwd = b.fwd
  stop : a.stop = b.stop
  done : a.done = b.done
  cur : a.done = false → a.c = b.c
  fresh : a.stop = none → a.done = false

theorem IterEq.refl (a : Iter K) (h : a.stop = none → a.done = false) : IterEq a a :=
  ⟨rfl, rfl, rfl, fun _ => rfl, h⟩

/-- **The regenerated guards of the repaired `Next` are the ones of `While`.** -/
theorem iter_guards :
    (∀ f d, iterChecksDone f d = d) ∧ (∀ f p r, iterStops f p r = (p && !r)) ∧ (∀ f, iterCutoffSticky f = true) ∧
    iterReseeks = true ∧ iterReadsThenSteps = true := by
  refine ⟨?_, ?_, ?_, by decide, by decide⟩
  · intro f d; cases f <;> cases d <;> decide
  · intro f p r; cases f <;> cases p <;> cases r <;> decide
  · intro f; cases f <;> decide

/-- `rawNext` is: re-seek, then (unless off the edge) key, value, move -/
theorem rawNext_eq (cmp : K → K → Int) (t : Tree K V) (fwd : Bool) (c : Cursor K) :
    rawNext cmp t fwd c =
      (match (iterReseek cmp t fwd c).pos with
        | none => (iterReseek cmp t fwd c, none)
        | some p => (if fwd then cursorNext cmp t (iterReseek cmp t fwd c) else cursorPrev cmp t (iterReseek cmp t fwd c),
            some (p.k, valueAt t p))) := by
  have g4 : iterReseeks = true := by decide
  unfold rawNext iterReseek
  simp only [g4, Bool.and_true]
  rfl

/-- **Equivalence.** Related iterators answer `Next` identically on every tree and stay related. -/
theorem iterNext_eq_while (cmp : K → K → Int) (t : Tree K V) {a b : Iter K} (h : IterEq a b) :
    (iterNextW cmp t a).2 = (iterNext cmp t b).2 ∧ IterEq (iterNextW cmp t a).1 (iterNext cmp t b).1 := by
  obtain ⟨g1, g2, g3, _, g5⟩ := iter_guards
  obtain ⟨ca, f, st, d⟩ := a
  obtain ⟨cb, f', st', d'⟩ := b
  obtain ⟨hf, hs, hd, hc, hfr⟩ := h
  simp only at hf hs hd hc hfr
  subst hf hs hd
  unfold iterNextW iterNext
  simp only [g1, g2, g3, g5, if_true, Bool.true_or, whileChecksDone, whileStops, whileSticky, rawNext_eq]
  cases d with
  | true =>
    -- cut off: both answer `end`; an iterator without predicate is never cut off
    cases st with
    | none => have := hfr rfl; cases this
    | some s =>
      obtain ⟨op, key⟩ := s
      simp only [if_true]
      refine ⟨?_, ⟨?_, ?_, ?_, ?_, ?_⟩⟩ <;> first | rfl | trivial | simp
  | false =>
    have hcc : ca = cb := hc rfl
    subst hcc
    simp only [Bool.false_eq_true, if_false]
    cases st with
    | none =>
      cases hp : (iterReseek cmp t f ca).pos with
      | none => refine ⟨?_, ⟨?_, ?_, ?_, ?_, ?_⟩⟩ <;> first | rfl | trivial | simp
      | some p =>
        simp only [Option.isSome_none, Bool.false_and, Bool.false_eq_true, if_false]
        refine ⟨?_, ⟨?_, ?_, ?_, ?_, ?_⟩⟩ <;> first | rfl | trivial | simp
    | some s =>
      obtain ⟨op, key⟩ := s
      cases hp : (iterReseek cmp t f ca).pos with
      | none => refine ⟨?_, ⟨?_, ?_, ?_, ?_, ?_⟩⟩ <;> first | rfl | trivial | simp
      | some p =>
        simp only [Option.isSome_some, Bool.true_and]
        cases hk : evalOp op (cmp p.k key) with
        | true =>
          simp only [Bool.not_true, Bool.false_eq_true, if_false]
          refine ⟨?_, ⟨?_, ?_, ?_, ?_, ?_⟩⟩ <;> first | rfl | trivial | simp
        | false =>
          simp only [Bool.not_false, if_true]
          refine ⟨?_, ⟨?_, ?_, ?_, ?_, ?_⟩⟩ <;> first | rfl | trivial | simp

/-- draining related iterators on an unchanging tree gives the same list -/
theorem drain_eq_while (cmp : K → K → Int) (t : Tree K V) : ∀ (fuel : Nat) {a b : Iter K}, IterEq a b →
    drainW cmp t fuel a = drain cmp t fuel b := by
  intro fuel
  induction fuel with
  | zero => intro a b _; rfl
  | succ fuel ih =>
    intro a b h
    obtain ⟨h1, h2⟩ := iterNext_eq_while cmp t h
    unfold drainW drain
    cases ha : iterNextW cmp t a with
    | mk a' oa =>
      cases hb : iterNext cmp t b with
      | mk b' ob =>
        rw [ha, hb] at h1 h2
        simp only at h1 h2
        subst h1
        cases oa with
        | none => rfl
        | some kv => simp only; rw [ih h2]

/-- a freshly created iterator (what `mkIter` returns) is related to itself -/
theorem iterEq_fresh (c : Cursor K) (fwd : Bool) (stop : Option (CmpOp × K)) :
    IterEq (⟨c, fwd, stop, false⟩ : Iter K) ⟨c, fwd, stop, !iterCtorsFresh⟩ := by
  have h : iterCtorsFresh = true := by decide
  refine ⟨rfl, rfl, ?_, fun _ => rfl, fun _ => rfl⟩
  simp [h]

end Juniper.Proofs.Tree
