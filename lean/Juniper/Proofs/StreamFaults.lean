import Juniper.Proofs.StreamPipe
import Juniper.Proofs.Agree
/-!
# What the stream spec functions do with failures (helpers for the per-combinator C08 theorems)
-/
namespace Juniper.Proofs.StreamDen
open Juniper.Model Juniper.Model.Stream Juniper.Spec Juniper.Gen.Comb
open Juniper.Proofs.IterDen
universe u v w
variable {σ : Type u} {τ : Type w} {α β : Type v}

/-- the script that delivers `l` and then fails for good with `E` (whatever comes after) -/
def fatalAfter (l : List α) (E : Nat) (rest : List (Ev α)) : List (Ev α) := l.map Ev.item ++ .fatal E :: rest

theorem scriptItems_fatalAfter (l : List α) (E : Nat) (rest : List (Ev α)) (p : Nat) :
    scriptItems true p (fatalAfter l E rest) = annot p l := by
  induction l generalizing p with
  | nil => rfl
  | cons a l ih => simp [fatalAfter, scriptItems, annot] at ih ⊢; exact ih (p + 1)

theorem scriptTerm_fatalAfter (l : List α) (E : Nat) (rest : List (Ev α)) (p : Nat) :
    scriptTerm true p (fatalAfter l E rest) = .fail (.fatal E) := by
  induction l generalizing p with
  | nil => rfl
  | cons a l ih => simp [fatalAfter, scriptTerm] at ih ⊢; exact ih (p + 1)

/-- the source that fails for good with `E` after the items of `l` -/
theorem fatal_src_sden (l : List α) (E : Nat) (rest : List (Ev α)) :
    SDen Err.soft Stream.src (fun s : Stream.Src α => s.pulled) (Stream.Src.of (fatalAfter l E rest))
      (annot 0 l) (.fail (.fatal E)) := by
  have := src_sden (soft := Err.soft) true (fun _ => rfl) (fun _ => rfl) (fatalAfter l E rest) 0 0 0
  rwa [scriptItems_fatalAfter, scriptTerm_fatalAfter] at this

/-! ## callbacks that do not fail -/

theorem filterS_ok (keep : α → Bool) (L : List (α × Nat)) (t : Term) :
    filterS (fun a => Except.ok (keep a)) L t = (L.filter fun p => keep p.1, t) := by
  induction L with
  | nil => rfl
  | cons p L ih =>
    obtain ⟨a, c⟩ := p
    simp only [filterS, List.filter_cons]
    cases keep a <;> simp [ih]

theorem mapS_ok (f : α → β) (L : List (α × Nat)) (t : Term) :
    mapS (fun a => Except.ok (f a)) L t = (L.map fun p => (f p.1, p.2), t) := by
  induction L with
  | nil => rfl
  | cons p L ih => obtain ⟨a, c⟩ := p; simp [mapS, ih]

theorem whileS_all (f : α → Except Err Bool) (L : List (α × Nat)) (t : Term) (h : ∀ p ∈ L, f p.1 = .ok true) :
    whileS f L t = (L, t) := by
  induction L with
  | nil => rfl
  | cons p L ih =>
    obtain ⟨a, c⟩ := p
    have := ih (fun p hp => h p (by simp [hp]))
    simp [whileS, h (a, c) (by simp), this]

theorem firstTermS_short (c0 k : Nat) (L : List (α × Nat)) (t : Term) (h : L.length < k) :
    firstTermS c0 k L t = t := by
  induction k generalizing c0 L with
  | zero => omega
  | succ k ih =>
    cases L with
    | nil => rfl
    | cons p L => obtain ⟨a, c⟩ := p; exact ih c L (by simp at h; omega)

theorem firstTermS_enough (c0 k : Nat) (L : List (α × Nat)) (t : Term) (h : k ≤ L.length) :
    ∃ e, firstTermS c0 k L t = .end_ e := by
  induction k generalizing c0 L with
  | zero => exact ⟨c0, rfl⟩
  | succ k ih =>
    cases L with
    | nil => simp at h
    | cons p L => obtain ⟨a, c⟩ := p; exact ih c L (by simp at h; omega)

/-! ## callbacks that fail -/

/-- the callback says "keep" (without failing) -/
def keptBy (keep : α → Except Err Bool) (a : α) : Bool :=
  match keep a with
  | .ok true => true
  | _ => false

theorem filterS_callback_error (keep : α → Except Err Bool) (a : α) (c : Nat) (E : Err) (hfa : keep a = .error E)
    (pre : List (α × Nat)) (hpre : ∀ p ∈ pre, ∃ b, keep p.1 = .ok b) (post : List (α × Nat)) (t : Term) :
    (filterS keep (pre ++ (a, c) :: post) t).2 = .fail E ∧
    (filterS keep (pre ++ (a, c) :: post) t).1 = pre.filter fun p => keptBy keep p.1 := by
  induction pre with
  | nil => simp [filterS, hfa]
  | cons p pre ih =>
    obtain ⟨x, k⟩ := p
    obtain ⟨b, hb⟩ := hpre (x, k) (by simp)
    have := ih (fun p hp => hpre p (by simp [hp]))
    simp only at hb
    have hk : keptBy keep x = b := by simp [keptBy, hb]; cases b <;> rfl
    simp only [List.cons_append, filterS, hb, List.filter_cons, hk]
    cases b <;> simp [this.1, this.2]

theorem whileS_callback_error (f : α → Except Err Bool) (a : α) (c : Nat) (E : Err) (hfa : f a = .error E)
    (pre : List (α × Nat)) (hpre : ∀ p ∈ pre, f p.1 = .ok true) (post : List (α × Nat)) (t : Term) :
    whileS f (pre ++ (a, c) :: post) t = (pre, .fail E) := by
  induction pre with
  | nil => simp [whileS, hfa]
  | cons p pre ih =>
    obtain ⟨x, k⟩ := p
    have := ih (fun p hp => hpre p (by simp [hp]))
    simp [whileS, hpre (x, k) (by simp), this]

/-- `Reduce`: the callback succeeds on the items of `pre` (reaching `acc'`) and fails with `E` on the
next item: the result is `E` itself, whatever follows. -/
theorem foldRes_callback_error {γ : Type v} (f : γ → α → Except Err γ) (E : Err) (t : Term)
    (pre : List α) (acc acc' : γ) (a : α) (post : List α)
    (hpre : foldRes f acc pre (.end_ 0) = .ok acc') (hfa : f acc' a = .error E) :
    foldRes f acc (pre ++ a :: post) t = .error E := by
  induction pre generalizing acc with
  | nil =>
    simp only [foldRes, ROut.ok.injEq] at hpre
    subst hpre
    simp [foldRes, hfa]
  | cons x pre ih =>
    simp only [foldRes] at hpre
    simp only [List.cons_append, foldRes]
    cases hx : f acc x with
    | error e => simp [hx] at hpre
    | ok acc1 =>
      simp only [hx] at hpre ⊢
      exact ih acc1 hpre

/-! ## Flatten / Join with a failing outer or inner stream -/

/-- `D` says that every inner stream of `Lo` ends normally -/
def AllEnd (D : τ → List α × Term) (Lo : List (τ × Nat)) : Prop := ∀ p ∈ Lo, ∃ e, (D p.1).2 = .end_ e

theorem flattenS_allEnd (D : τ → List α × Term) (Lo : List (τ × Nat)) (t : Term) (h : AllEnd D Lo) :
    flattenS D Lo t = (Lo.flatMap fun p => (D p.1).1.map fun a => (a, p.2), t) := by
  induction Lo with
  | nil => rfl
  | cons p Lo ih =>
    obtain ⟨x, k⟩ := p
    obtain ⟨e, he⟩ := h (x, k) (by simp)
    have := ih (fun p hp => h p (by simp [hp]))
    simp [flattenS, he, innerOut, innerTerm, this]

/-- an inner stream that fails with `E` after the items `A`: everything before it, then `A`, then `E` itself -/
theorem flattenS_inner_fail (D : τ → List α × Term) (pre post : List (τ × Nat)) (x : τ) (k : Nat) (t : Term) (E : Err)
    (hpre : AllEnd D pre) (hx : (D x).2 = .fail E) :
    flattenS D (pre ++ (x, k) :: post) t =
      ((pre.flatMap fun p => (D p.1).1.map fun a => (a, p.2)) ++ (D x).1.map fun a => (a, k), .fail E) := by
  induction pre with
  | nil => simp [flattenS, hx, innerOut, innerTerm]
  | cons p pre ih =>
    obtain ⟨y, j⟩ := p
    obtain ⟨e, he⟩ := hpre (y, j) (by simp)
    have := ih (fun p hp => hpre p (by simp [hp]))
    simp [flattenS, he, innerOut, innerTerm, this]

theorem joinS_fail (D : σ → List α × Term) (pre post : List σ) (x : σ) (E : Err)
    (hpre : ∀ s ∈ pre, ∃ e, (D s).2 = .end_ e) (hx : (D x).2 = .fail E) :
    joinS D (pre ++ x :: post) = ((pre.flatMap fun s => (D s).1.map fun a => (a, 0)) ++ (D x).1.map fun a => (a, 0), .fail E) := by
  induction pre with
  | nil => simp [joinS, hx, innerOut, innerTerm]
  | cons y pre ih =>
    obtain ⟨e, he⟩ := hpre y (by simp)
    have := ih (fun s hs => hpre s (by simp [hs]))
    simp [joinS, he, innerOut, innerTerm, this]

/-- what a scripted inner source denotes, transient failures erased -/
theorem srcD_fatalAfter (l : List α) (E : Nat) (rest : List (Ev α)) :
    srcD (Stream.Src.of (fatalAfter l E rest)) = (l, .fail (.fatal E)) := by
  simp [srcD, Stream.Src.of, scriptItems_fatalAfter, scriptTerm_fatalAfter, annot_fst]

/-- every fresh scripted source satisfies the hypothesis of `flatten_sden` / `join_sden` with `srcD` -/
theorem srcD_hyp_script (sc : List (Ev α)) :
    ∃ (ci : Stream.Src α → Nat) (Li : List (α × Nat)),
      SDen Err.soft Stream.src ci (Stream.Src.of sc) Li (srcD (Stream.Src.of sc)).2 ∧
        Li.map Prod.fst = (srcD (Stream.Src.of sc)).1 :=
  ⟨fun s => s.pulled, scriptItems true 0 sc,
    by simpa [srcD, Stream.Src.of] using src_sden (soft := Err.soft) true (fun _ => rfl) (fun _ => rfl) sc 0 0 0,
    by simp [srcD, Stream.Src.of]⟩

/-! ## machine-level readings: a scripted source with a failing callback / a fatal failure -/

theorem annot_append (p : Nat) (l1 l2 : List α) : annot p (l1 ++ l2) = annot p l1 ++ annot (p + l1.length) l2 := by
  induction l1 generalizing p with
  | nil => simp [annot]
  | cons a l1 ih =>
    simp only [List.cons_append, annot, ih, List.length_cons]
    congr 3
    omega

/-- the fault-free scripted source over the items `l` -/
theorem items_src_sden (l : List α) :
    SDen Err.soft Stream.src (fun s : Stream.Src α => s.pulled) (ofList l) (annot 0 l) (.end_ l.length) := by
  have := src_sden (soft := Err.soft) true (fun _ => rfl) (fun _ => rfl) (l.map Ev.item) 0 0 0
  rwa [scriptItems_map_item, scriptTerm_map_item, Nat.zero_add] at this

/-- `Map`, source failing for good with `E` after the items `l` (callback total): the images of `l`, then `E` itself -/
theorem map_fatal_sden (f : α → β) (l : List α) (E : Nat) (rest : List (Ev α)) :
    SDen Err.soft (Stream.map (fun a => .ok (f a)) Stream.src) (fun st => st.inner.pulled)
      ⟨Stream.Src.of (fatalAfter l E rest)⟩ ((annot 0 l).map fun p => (f p.1, p.2)) (.fail (.fatal E)) := by
  have h := map_sden (soft := Err.soft) (fun a => Except.ok (f a)) (by intro a e h; cases h) (fatal_src_sden l E rest)
  rwa [mapS_ok] at h

theorem mapS_callback_error (f : α → Except Err β) (a : α) (c : Nat) (E : Err) (hfa : f a = .error E)
    (pre : List (α × Nat)) (hpre : ∀ p ∈ pre, ∃ b, f p.1 = .ok b) (post : List (α × Nat)) (t : Term) :
    (mapS f (pre ++ (a, c) :: post) t).2 = .fail E ∧ (mapS f (pre ++ (a, c) :: post) t).1.length = pre.length := by
  induction pre with
  | nil => simp [mapS, hfa]
  | cons p pre ih =>
    obtain ⟨x, k⟩ := p
    obtain ⟨b, hb⟩ := hpre (x, k) (by simp)
    have := ih (fun p hp => hpre p (by simp [hp]))
    simp only [List.cons_append, mapS, hb, List.length_cons]
    exact ⟨this.1, by rw [this.2]⟩

/-- `Map`, callback failing (hard) with `E` on the item `a` after succeeding on `pre`: the images of `pre`,
then `E` itself — whatever the source would have delivered afterwards -/
theorem map_cb_sden (f : α → Except Err β) (hf : ∀ a e, f a = .error e → Err.soft e = false)
    (pre : List α) (a : α) (post : List α) (E : Err) (hfa : f a = .error E) (hpre : ∀ x ∈ pre, ∃ b, f x = .ok b) :
    ∃ L, SDen Err.soft (Stream.map f Stream.src) (fun st => st.inner.pulled) ⟨ofList (pre ++ a :: post)⟩ L (.fail E) ∧
      L.length = pre.length := by
  have h := map_sden (soft := Err.soft) f hf (items_src_sden (pre ++ a :: post))
  rw [annot_append] at h
  simp only [annot] at h
  have hk := mapS_callback_error f a (0 + pre.length + 1) E hfa (annot 0 pre)
    (fun p hp => hpre p.1 (by have := List.mem_map_of_mem (f := Prod.fst) hp; rwa [annot_fst] at this))
    (annot (0 + pre.length + 1) post) (.end_ (pre ++ a :: post).length)
  refine ⟨_, by rw [← hk.1]; exact h, ?_⟩
  rw [hk.2, ← List.length_map (f := Prod.fst), annot_fst]

/-- `Filter`, callback failing (hard) with `E` on `a` after succeeding on `pre`: the kept ones of `pre`, then `E` itself -/
theorem filter_cb_sden (keep : α → Except Err Bool) (hf : ∀ a e, keep a = .error e → Err.soft e = false)
    (pre : List α) (a : α) (post : List α) (E : Err) (hfa : keep a = .error E) (hpre : ∀ x ∈ pre, ∃ b, keep x = .ok b) :
    ∃ L, SDen Err.soft (Stream.filter keep Stream.src) (fun st => st.inner.pulled) ⟨ofList (pre ++ a :: post)⟩ L (.fail E) ∧
      L.map Prod.fst = pre.filter (keptBy keep) := by
  have h := filter_sden (soft := Err.soft) keep hf (items_src_sden (pre ++ a :: post))
  rw [annot_append] at h
  simp only [annot] at h
  have hk := filterS_callback_error keep a (0 + pre.length + 1) E hfa (annot 0 pre)
    (fun p hp => hpre p.1 (by have := List.mem_map_of_mem (f := Prod.fst) hp; rwa [annot_fst] at this))
    (annot (0 + pre.length + 1) post) (.end_ (pre ++ a :: post).length)
  refine ⟨_, by rw [← hk.1]; exact h, ?_⟩
  rw [hk.2]
  have : ∀ (q : Nat) (l : List α), ((annot q l).filter fun p => keptBy keep p.1).map Prod.fst = l.filter (keptBy keep) := by
    intro q l
    induction l generalizing q with
    | nil => rfl
    | cons x l ih => simp only [annot, List.filter_cons]; split <;> simp [ih]
  exact this 0 pre

/-- `While`, callback failing (hard) with `E` on `a` after passing `pre`: all of `pre`, then `E` itself — not the end -/
theorem while_cb_sden (f : α → Except Err Bool) (hf : ∀ a e, f a = .error e → Err.soft e = false)
    (pre : List α) (a : α) (post : List α) (E : Err) (hfa : f a = .error E) (hpre : ∀ x ∈ pre, f x = .ok true) :
    SDen Err.soft (Stream.while_ f Stream.src) (fun st => st.inner.pulled) ⟨ofList (pre ++ a :: post), none, false⟩
      (annot 0 pre) (.fail E) := by
  have h := while_sden (soft := Err.soft) f hf (items_src_sden (pre ++ a :: post))
  rw [annot_append] at h
  simp only [annot] at h
  rwa [whileS_callback_error f a _ E hfa (annot 0 pre)
    (fun p hp => hpre p.1 (by have := List.mem_map_of_mem (f := Prod.fst) hp; rwa [annot_fst] at this))] at h

end Juniper.Proofs.StreamDen
