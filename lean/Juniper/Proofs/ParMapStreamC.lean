import Juniper.Proofs.ParMapStreamB
/-! Inductive invariants of the MapStream LTS, part 3: values — what reaches the consumer for index `k`
is what `f` returned for the `k`-th source item, results are numbered consecutively, a failed index is
never forwarded. -/
set_option linter.unusedSimpArgs false
set_option linter.unusedVariables false

namespace Juniper.Proofs.ParMap.S
open Juniper.Gen Juniper.Facts Juniper.Model.ParMap Juniper.Model.ParMap.Stream Juniper.Proofs.ParMap

def valIdx : NextRes → Option Nat
  | .val k _ => some k
  | _ => none

theorem valIdx_snoc_val (l : List NextRes) (k v : Nat) :
    (l ++ [NextRes.val k v]).filterMap valIdx = l.filterMap valIdx ++ [k] := by simp [List.filterMap_append, valIdx]
theorem valIdx_snoc_end (l : List NextRes) : (l ++ [NextRes.end]).filterMap valIdx = l.filterMap valIdx := by
  simp [List.filterMap_append, valIdx]
theorem valIdx_snoc_err (l : List NextRes) (e : Err) : (l ++ [NextRes.err e]).filterMap valIdx = l.filterMap valIdx := by
  simp [List.filterMap_append, valIdx]
theorem valIdx_snoc_ctx (l : List NextRes) : (l ++ [NextRes.ctxCons]).filterMap valIdx = l.filterMap valIdx := by
  simp [List.filterMap_append, valIdx]

theorem mem_set_cases {α} {l : List α} {w : Nat} {a x : α} (h : x ∈ l.set w a) : x = a ∨ x ∈ l := by
  rcases List.mem_or_eq_of_mem_set h with h | h
  · exact Or.inr h
  · exact Or.inl h

/-- values: whatever travels towards the consumer for index `k` is what the call of `f` for item `k`
returned; `f` is called on the `k`-th source item; results come out numbered 0, 1, 2, … -/
structure InvV (cfg : Cfg) (s : St) : Prop where
  Vw : ∀ k v, WPc.sendC k v ∈ s.ws → (k, Res.ok v) ∈ s.fEnded
  Vc : ∀ k v, (k, v) ∈ s.c → (k, Res.ok v) ∈ s.fEnded
  Vh : ∀ k v, (k, v) ∈ s.heap → (k, Res.ok v) ∈ s.fEnded
  Vr : ∀ k v, s.cons = .releasing k v → (k, Res.ok v) ∈ s.fEnded ∧ k + 1 = s.i
  Vres : ∀ k v, NextRes.val k v ∈ s.results → (k, Res.ok v) ∈ s.fEnded
  RV : s.results.filterMap valIdx = List.range (cnt isVal s.results)
  FD : ∀ k e, (k, Res.err e) ∈ s.fEnded → 0 < ncnt k s.dropped
  HV : ∀ v, (s.disp = .waitReady v ∨ s.disp = .sendIn v) → s.srcItems[s.dispI]? = some v
  BG : ∀ k a, (k, a) ∈ s.fBegun → s.srcItems[k]? = some a

theorem invV_init (cfg : Cfg) : InvV cfg (Stream.init cfg) := by
  refine ⟨?_, ?_, ?_, ?_, ?_, ?_, ?_, ?_, ?_⟩ <;> simp [Stream.init]

theorem getElem?_snoc_of_some {α} {l : List α} {k : Nat} {a b : α} (h : l[k]? = some a) : (l ++ [b])[k]? = some a := by
  have hk : k < l.length := by
    by_cases hk : k < l.length
    · exact hk
    · simp [List.getElem?_eq_none (by omega : l.length ≤ k)] at h
  rw [List.getElem?_append_left hk]; exact h

syntax "invV_worker " ident : tactic
macro_rules
  | `(tactic| invV_worker $hi:ident) =>
    `(tactic| (
         have hw := ‹_[_]? = some _›
         have hmem := List.mem_of_getElem? hw
         have ⟨iVw, iVc, iVh, iVr, iVres, iRV, iFD, iHV, iBG⟩ := $hi
         refine ⟨?_, ?_, ?_, ?_, ?_, ?_, ?_, ?_, ?_⟩
         · intro k v hm
           rcases mem_set_cases hm with h | h <;> simp [egRecord] at * <;> grind
         · intro k v hm; simp [egRecord] at * <;> grind
         · intro k v hm; simp [egRecord] at * <;> grind
         · intro k v hm; simp [egRecord] at * <;> grind
         · intro k v hm; simp [egRecord] at * <;> grind
         · simp [egRecord] at * <;> grind
         · intro k e hm; simp [egRecord, b2n] at * <;> grind
         · intro v hm; simp [egRecord] at * <;> grind
         · intro k a hm; simp [egRecord] at * <;> grind))

theorem invV_step {cfg : Cfg} (hs : cfg.code.Sound) {s s' : St} {l : Label} (ha : InvA cfg s) (hi : InvV cfg s)
    (h : Stream.step cfg s l = some s') : InvV cfg s' := by
  cases l with
  | dSend w => stream_cases h => invV_worker hi
  | fRet w r => stream_cases h => invV_worker hi
  | wSendC w => stream_cases h => invV_worker hi
  | wSendCtx w => stream_cases h => invV_worker hi
  | wExitIdle w => stream_cases h => invV_worker hi
  | wDefer w => stream_cases h => invV_worker hi
  | wEgDone w => stream_cases h => invV_worker hi
  | srcRet r =>
    stream_cases h =>
      (have ⟨iVw, iVc, iVh, iVr, iVres, iRV, iFD, iHV, iBG⟩ := hi
       have hS := ha.S
       refine ⟨iVw, iVc, iVh, iVr, iVres, iRV, iFD, ?_, ?_⟩
       · intro v hm; simp [b2n, dHolding, dExited] at * <;> grind
       · intro k a hm
         first
         | exact iBG k a hm
         | exact getElem?_snoc_of_some (iBG k a hm))
  | cRecv =>
    stream_cases h =>
      (have ⟨iVw, iVc, iVh, iVr, iVres, iRV, iFD, iHV, iBG⟩ := hi
       have hc := ‹s.c = _ :: _›
       refine ⟨iVw, ?_, ?_, ?_, iVres, iRV, iFD, iHV, iBG⟩
       · intro k v hm; simp [hc] at * <;> grind
       · intro k v hm; simp [hc] at * <;> grind
       · intro k v hm; simp at * <;> grind)
  | cYield =>
    stream_cases h =>
      (have ⟨iVw, iVc, iVh, iVr, iVres, iRV, iFD, iHV, iBG⟩ := hi
       have hf := ‹List.find? _ s.heap = some _›
       have hcy := ‹canYield cfg s = true›
       have ⟨hk, hmem, hcount⟩ := icnt_eraseP_of_find hf
       simp [canYield, hs.nextReady] at hcy
       refine ⟨iVw, iVc, ?_, ?_, iVres, iRV, iFD, iHV, iBG⟩
       · intro k v hm; exact iVh k v (List.mem_of_mem_eraseP hm)
       · intro k v hm
         simp at hm
         obtain ⟨rfl, rfl⟩ := hm
         exact ⟨iVh _ _ hmem, by simp; omega⟩)
  | cRelease =>
    stream_cases h =>
      (have ⟨iVw, iVc, iVh, iVr, iVres, iRV, iFD, iHV, iBG⟩ := hi
       have hY := ha.Y
       have hcons := ‹s.cons = CPc.releasing _ _›
       have ⟨h1, h2⟩ := iVr _ _ hcons
       refine ⟨iVw, iVc, iVh, ?_, ?_, ?_, iFD, iHV, iBG⟩
       · intro k v hm; simp at hm
       · intro k v hm; simp at hm; rcases hm with hm | ⟨rfl, rfl⟩
         · exact iVres k v hm
         · exact h1
       · have hk : cnt isVal s.results + 1 = s.i := by
           simp [hcons, b2n, cReleasing] at hY; omega
         rw [List.filterMap_append, iRV]
         simp [List.filterMap_cons, valIdx, isVal, List.range_succ]
         omega)
  | _ =>
    stream_cases h =>
      (have ⟨iVw, iVc, iVh, iVr, iVres, iRV, iFD, iHV, iBG⟩ := hi
       first
       | exact ⟨iVw, iVc, iVh, iVr, iVres, iRV, iFD, iHV, iBG⟩
       | (refine ⟨iVw, iVc, iVh, ?_, ?_, ?_, iFD, ?_, iBG⟩
          · intro k v hm; first | exact iVr k v hm | (simp at hm; done) | (simp [egRecord] at hm; exact iVr k v hm)
          · intro k v hm; first | exact iVres k v hm | (simp at hm; exact iVres k v hm)
          · first | exact iRV | (rw [List.filterMap_append, iRV]; simp [List.filterMap_cons, valIdx, isVal])
          · intro v hm; first | exact iHV v hm | (simp at hm; done) | (simp [egRecord] at hm; done) | (simp at hm; apply iHV; simp_all)))

theorem invV {cfg : Cfg} (hs : cfg.code.Sound) {s : St} (h : Reach cfg s) : InvV cfg s := by
  induction h with
  | init => exact invV_init cfg
  | step hr hstep ih => exact invV_step hs (invA hs hr) ih hstep

end Juniper.Proofs.ParMap.S
