import Juniper.Proofs.Watch
/-!
# Helper lemmas for C18, Watchable: no panic, progress of the observer loop, `Value` is never blocked

* `WatchSafe`: the half of the invariant that excludes `SetPc.panicked` (close of a closed channel)
  and `ValPc.panicked` (nil dereference after the reload): a cell that a `Set` has swapped out and
  not yet closed has exactly one holder and is still open; a failed CAS means the pointer is
  non-nil, for good.
* `steps_reader_lin`: a `Value` call that had not started in `s` and has returned in a later state
  read the pointer when at least `s.hist.length` `Set`s had swapped.
* `hist_le_setters`: the number of swaps is the number of `Set` calls that have started.
* `value_solo`: from every reachable state an unfinished `Value` call finishes within two steps of
  its own, returning the latest value and an open channel.
-/
namespace Juniper.Proofs.Watch
open Juniper.Model.Watch

/-! ## inversion of `setSetter` / `setReader` -/

theorem setSetter_inv {t : WState} {i k : Nat} {pc q : SetPc} {v : Int}
    (h : (setSetter t i pc).setters[k]? = some (v, q)) :
    (i = k ∧ q = pc ∧ ∃ q0, t.setters[k]? = some (v, q0)) ∨ (i ≠ k ∧ t.setters[k]? = some (v, q)) := by
  rw [setSetter_get] at h
  cases hs : t.setters[k]? with
  | none => simp [hs] at h
  | some p =>
    simp only [hs, Option.map_some, Option.some.injEq] at h
    by_cases hik : i = k
    · simp only [hik, if_true, Prod.mk.injEq] at h
      exact .inl ⟨hik, h.2.symm, p.2, by rw [← h.1]⟩
    · simp only [hik, if_false] at h
      exact .inr ⟨hik, by rw [h]⟩

theorem setReader_inv {t : WState} {j k : Nat} {pc q : ValPc} (h : (setReader t j pc).readers[k]? = some q) :
    (j = k ∧ q = pc) ∨ (j ≠ k ∧ t.readers[k]? = some q) := by
  have h' : (t.readers.set j pc)[k]? = some q := h
  rw [List.getElem?_set] at h'
  split at h'
  · rename_i hjk
    split at h'
    · exact .inl ⟨hjk, by simpa using h'.symm⟩
    · cases h'
  · rename_i hjk; exact .inr ⟨hjk, h'⟩

/-! ## nothing panics -/

structure WatchSafe (s : WState) : Prop where
  /-- a cell that some `Set` has swapped out and not yet closed is still open … -/
  holder_open : ∀ (i : Nat) (v : Int) (oc : Nat), s.setters[i]? = some (v, .swapped (some oc)) →
      ∃ ce, s.cells[oc]? = some ce ∧ ce.closed = false
  /-- … and that `Set` is the only one that will close it -/
  holder_unique : ∀ (i k : Nat) (v v' : Int) (oc : Nat), s.setters[i]? = some (v, .swapped (some oc)) →
      s.setters[k]? = some (v', .swapped (some oc)) → i = k
  /-- after a failed `CompareAndSwap(nil, _)` the pointer is not nil (and never becomes nil again) -/
  cas_ptr : ∀ (j : Nat), s.readers[j]? = some .casFailed → s.ptr ≠ none
  set_ok : ∀ (i : Nat) (v : Int), s.setters[i]? ≠ some (v, .panicked)
  val_ok : ∀ (j : Nat), s.readers[j]? ≠ some .panicked

theorem wsafe_init (vals : List Int) (r : Nat) : WatchSafe (winit vals r) := by
  have hset : ∀ (i : Nat) (v : Int) (pc : SetPc), (winit vals r).setters[i]? = some (v, pc) → pc = .idle := by
    intro i v pc h
    simp only [winit, List.getElem?_map] at h
    cases hv : vals[i]? <;> simp [hv] at h
    exact h.2.symm
  have hrd : ∀ (j : Nat) (pc : ValPc), (winit vals r).readers[j]? = some pc → pc = .idle := by
    intro j pc h
    simp only [winit, List.getElem?_replicate] at h
    split at h <;> cases h; rfl
  refine ⟨?_, ?_, ?_, ?_, ?_⟩
  · intro i v oc h; cases hset i v _ h
  · intro i k v v' oc h; cases hset i v _ h
  · intro j h; cases hrd j _ h
  · intro i v h; cases hset i v _ h
  · intro j h; cases hrd j _ h

/-- only reader `j` changes (to a pc that is neither `casFailed` with a nil pointer nor `panicked`);
cells may grow at the end, the pointer may change -/
theorem wsafe_reader {s t : WState} {j : Nat} {pc : ValPc} (hS : WatchSafe s)
    (hset : t.setters = s.setters) (hrd : t.readers = s.readers.set j pc)
    (hcells : ∀ (c : Nat) (ce : Cell), s.cells[c]? = some ce → t.cells[c]? = some ce)
    (hptr : s.ptr ≠ none → t.ptr ≠ none) (hpc1 : pc = .casFailed → t.ptr ≠ none) (hpc2 : pc ≠ .panicked) :
    WatchSafe t := by
  have key : ∀ (k : Nat) (q : ValPc), t.readers[k]? = some q → (j = k ∧ q = pc) ∨ (j ≠ k ∧ s.readers[k]? = some q) := by
    intro k q h
    rw [hrd] at h
    exact setReader_inv (t := s) (j := j) (pc := pc) h
  refine ⟨?_, ?_, ?_, ?_, ?_⟩
  · intro i v oc h
    rw [hset] at h
    obtain ⟨ce, hce, hcl⟩ := hS.holder_open i v oc h
    exact ⟨ce, hcells oc ce hce, hcl⟩
  · intro i k v v' oc h1 h2
    rw [hset] at h1 h2
    exact hS.holder_unique i k v v' oc h1 h2
  · intro k h
    rcases key k _ h with ⟨_, hq⟩ | ⟨_, hk⟩
    · exact hpc1 hq.symm
    · exact hptr (hS.cas_ptr k hk)
  · intro i v h
    rw [hset] at h
    exact hS.set_ok i v h
  · intro k h
    rcases key k _ h with ⟨_, hq⟩ | ⟨_, hk⟩
    · exact hpc2 hq.symm
    · exact hS.val_ok k hk

theorem getElem?_append_of_some {α : Type} {l : List α} {c : Nat} {a : α} (x : List α) (h : l[c]? = some a) :
    (l ++ x)[c]? = some a := by
  rw [List.getElem?_append_left (List.getElem?_eq_some_iff.mp h).1]; exact h

theorem wsafe_step {s s' : WState} {l : WLabel} (hI : WatchInv s) (hS : WatchSafe s)
    (h : wstep WCfg.std s l = some s') : WatchSafe s' := by
  cases l with
  | swap i =>
    obtain ⟨v, hv, rfl⟩ := wstep_swap h
    have hcells : (swapState s i v).cells = s.cells ++ [{ val := some v, closed := false, epoch := (s.hist ++ [v]).length }] := rfl
    have hsetters : ∀ (k : Nat), (swapState s i v).setters[k]? = (setSetter s i (.swapped s.ptr)).setters[k]? := fun _ => rfl
    refine ⟨?_, ?_, ?_, ?_, ?_⟩
    · intro k v' oc hk
      rw [hsetters] at hk
      rw [hcells]
      rcases setSetter_inv hk with ⟨_, hq, _⟩ | ⟨_, hk'⟩
      · simp only [SetPc.swapped.injEq] at hq
        obtain ⟨ce, hce, _, hcl⟩ := winv_ptr_cell hI hq.symm
        exact ⟨ce, getElem?_append_of_some _ hce, hcl⟩
      · obtain ⟨ce, hce, hcl⟩ := hS.holder_open k v' oc hk'
        exact ⟨ce, getElem?_append_of_some _ hce, hcl⟩
    · intro a b va vb oc ha hb
      rw [hsetters] at ha hb
      rcases setSetter_inv ha with ⟨hia, hqa, _⟩ | ⟨hia, ha'⟩ <;> rcases setSetter_inv hb with ⟨hib, hqb, _⟩ | ⟨hib, hb'⟩
      · omega
      · simp only [SetPc.swapped.injEq] at hqa
        have h1 := hI.ptr_last oc hqa.symm
        have h2 := hI.setter b vb oc hb'
        omega
      · simp only [SetPc.swapped.injEq] at hqb
        have h1 := hI.ptr_last oc hqb.symm
        have h2 := hI.setter a va oc ha'
        omega
      · exact hS.holder_unique a b va vb oc ha' hb'
    · intro j _ hp
      have : (swapState s i v).ptr = some s.cells.length := rfl
      rw [this] at hp; cases hp
    · intro k v' hk
      rw [hsetters] at hk
      rcases setSetter_inv hk with ⟨_, hq, _⟩ | ⟨_, hk'⟩
      · cases hq
      · exact hS.set_ok k v' hk'
    · intro j hj
      exact hS.val_ok j hj
  | close i =>
    obtain ⟨v, old, hv, hcase⟩ := wstep_close h
    have finish : ∀ (t : WState), t.setters = s.setters → t.readers = s.readers → t.ptr = s.ptr →
        (∀ (k : Nat) (v' : Int) (oc : Nat), i ≠ k → s.setters[k]? = some (v', .swapped (some oc)) →
          ∃ ce, t.cells[oc]? = some ce ∧ ce.closed = false) →
        WatchSafe (setSetter t i .done) := by
      intro t hts htr htp hopen
      have hget : ∀ (k : Nat), (setSetter t i .done).setters[k]? = (setSetter s i .done).setters[k]? := by
        intro k; rw [setSetter_get, setSetter_get, hts]
      refine ⟨?_, ?_, ?_, ?_, ?_⟩
      · intro k v' oc hk
        rw [hget] at hk
        rcases setSetter_inv hk with ⟨_, hq, _⟩ | ⟨hik, hk'⟩
        · cases hq
        · exact hopen k v' oc hik hk'
      · intro a b va vb oc ha hb
        rw [hget] at ha hb
        rcases setSetter_inv ha with ⟨_, hqa, _⟩ | ⟨_, ha'⟩
        · cases hqa
        · rcases setSetter_inv hb with ⟨_, hqb, _⟩ | ⟨_, hb'⟩
          · cases hqb
          · exact hS.holder_unique a b va vb oc ha' hb'
      · intro j hj
        have hj' : s.readers[j]? = some .casFailed := by rw [← htr]; exact hj
        have : (setSetter t i .done).ptr = s.ptr := htp
        rw [this]; exact hS.cas_ptr j hj'
      · intro k v' hk
        rw [hget] at hk
        rcases setSetter_inv hk with ⟨_, hq, _⟩ | ⟨_, hk'⟩
        · cases hq
        · exact hS.set_ok k v' hk'
      · intro j hj
        have hj' : s.readers[j]? = some .panicked := by rw [← htr]; exact hj
        exact hS.val_ok j hj'
    rcases hcase with ⟨rfl, rfl⟩ | ⟨oc, rfl, ⟨hcl, _⟩ | ⟨_, rfl⟩⟩
    · exact finish s rfl rfl rfl (fun k v' oc _ hk => hS.holder_open k v' oc hk)
    · -- close of a closed channel: excluded, the holder's cell is open
      obtain ⟨ce, hce, hopen⟩ := hS.holder_open i v oc hv
      simp [cellAt, hce, hopen] at hcl
    · refine finish _ rfl rfl rfl ?_
      intro k v' oc' hik hk
      obtain ⟨ce, hce, hopen⟩ := hS.holder_open k v' oc' hk
      have hne : oc ≠ oc' := by
        intro e; subst e
        exact hik (hS.holder_unique i k v v' oc hv hk)
      refine ⟨ce, ?_, hopen⟩
      show (s.cells.set oc _)[oc']? = some ce
      rw [List.getElem?_set_ne hne]; exact hce
  | load j =>
    obtain ⟨_, hcase⟩ := wstep_load h
    rcases hcase with ⟨c, _, rfl⟩ | ⟨_, rfl⟩
    · exact wsafe_reader (j := j) (pc := .done c s.hist.length) hS rfl rfl (fun _ _ x => x) (fun x => x) (by simp) (by simp)
    · exact wsafe_reader (j := j) (pc := .sawNil) hS rfl rfl (fun _ _ x => x) (fun x => x) (by simp) (by simp)
  | cas j =>
    obtain ⟨_, hcase⟩ := wstep_cas h
    rcases hcase with ⟨_, rfl⟩ | ⟨c, hp, rfl⟩
    · refine wsafe_reader (j := j) (pc := .done s.cells.length s.hist.length) hS rfl rfl ?_ ?_ (by simp) (by simp)
      · intro c ce hce
        exact getElem?_append_of_some _ hce
      · intro _ hn
        have : (casState s j).ptr = some s.cells.length := rfl
        rw [this] at hn; cases hn
    · refine wsafe_reader (j := j) (pc := .casFailed) hS rfl rfl (fun _ _ x => x) (fun x => x) ?_ (by simp)
      intro _ hn
      have : (setReader s j .casFailed).ptr = s.ptr := rfl
      rw [this, hp] at hn; cases hn
  | reload j =>
    obtain ⟨hr, hcase⟩ := wstep_reload h
    rcases hcase with ⟨c, _, rfl⟩ | ⟨hp, _⟩
    · exact wsafe_reader (j := j) (pc := .done c s.hist.length) hS rfl rfl (fun _ _ x => x) (fun x => x) (by simp) (by simp)
    · exact absurd hp (hS.cas_ptr j hr)

theorem wsafe_reach {s : WState} (h : WReach WCfg.std s) : WatchSafe s := by
  induction h with
  | init vals r => exact wsafe_init vals r
  | step l hr hs ih => exact wsafe_step (winv_reach hr) ih hs

/-! ## runs -/

theorem wreach_steps {cfg : WCfg} {s t : WState} (hr : WReach cfg s) (hst : WSteps cfg s t) : WReach cfg t := by
  induction hst with
  | refl => exact hr
  | step l _ hs ih => exact .step l ih hs

/-- one step: `hist` only grows, the `Set` calls of the run stay the same calls, and a `Value` call
that is `done` after the step was `done` (with the same result) before it or read the pointer in
this very step -/
theorem wstep_mono {s s' : WState} {l : WLabel} (h : wstep WCfg.std s l = some s') :
    s.hist.length ≤ s'.hist.length ∧ s'.setters.length = s.setters.length ∧
    ∀ (j c lin : Nat), s'.readers[j]? = some (.done c lin) → s.readers[j]? = some (.done c lin) ∨ lin = s.hist.length := by
  have hrd : ∀ (t : WState) (j : Nat) (pc : ValPc), t.readers = s.readers →
      (∀ c lin, pc = .done c lin → lin = s.hist.length) →
      ∀ (k c lin : Nat), (setReader t j pc).readers[k]? = some (.done c lin) →
        s.readers[k]? = some (.done c lin) ∨ lin = s.hist.length := by
    intro t j pc ht hpc k c lin hk
    rcases setReader_inv hk with ⟨_, hq⟩ | ⟨_, hk'⟩
    · exact .inr (hpc c lin hq.symm)
    · exact .inl (by rw [← ht]; exact hk')
  cases l with
  | swap i =>
    obtain ⟨v, _, rfl⟩ := wstep_swap h
    refine ⟨by simp [swapState, setSetter], by simp [swapState, setSetter], fun j c lin hj => .inl hj⟩
  | close i =>
    obtain ⟨v, old, _, hcase⟩ := wstep_close h
    rcases hcase with ⟨_, rfl⟩ | ⟨oc, _, ⟨_, rfl⟩ | ⟨_, rfl⟩⟩ <;>
      exact ⟨by simp [setSetter], by simp [setSetter], fun j c lin hj => .inl hj⟩
  | load j =>
    obtain ⟨_, hcase⟩ := wstep_load h
    rcases hcase with ⟨c, _, rfl⟩ | ⟨_, rfl⟩
    · exact ⟨Nat.le_refl _, rfl, hrd s j _ rfl (by intro c' lin' e; simp at e; exact e.2.symm)⟩
    · exact ⟨Nat.le_refl _, rfl, hrd s j _ rfl (by intro c' lin' e; cases e)⟩
  | cas j =>
    obtain ⟨_, hcase⟩ := wstep_cas h
    rcases hcase with ⟨_, rfl⟩ | ⟨c, _, rfl⟩
    · exact ⟨Nat.le_refl _, rfl, hrd _ j _ rfl (by intro c' lin' e; simp at e; exact e.2.symm)⟩
    · exact ⟨Nat.le_refl _, rfl, hrd s j _ rfl (by intro c' lin' e; cases e)⟩
  | reload j =>
    obtain ⟨_, hcase⟩ := wstep_reload h
    rcases hcase with ⟨c, _, rfl⟩ | ⟨_, rfl⟩
    · exact ⟨Nat.le_refl _, rfl, hrd s j _ rfl (by intro c' lin' e; simp at e; exact e.2.symm)⟩
    · exact ⟨Nat.le_refl _, rfl, hrd s j _ rfl (by intro c' lin' e; cases e)⟩

/-- a `Value` call that has not started in `s` and has returned in a later state `t` read the
pointer for the last time when at least `s.hist.length` `Set`s had swapped -/
theorem steps_reader_lin {s t : WState} {j : Nat} (hst : WSteps WCfg.std s t) (hidle : s.readers[j]? = some .idle) :
    s.hist.length ≤ t.hist.length ∧ t.setters.length = s.setters.length ∧
    ∀ (c lin : Nat), t.readers[j]? = some (.done c lin) → s.hist.length ≤ lin := by
  induction hst with
  | refl => exact ⟨Nat.le_refl _, rfl, by intro c lin h; rw [hidle] at h; cases h⟩
  | step l _ hs ih =>
    obtain ⟨h1, h2, h3⟩ := wstep_mono hs
    refine ⟨Nat.le_trans ih.1 h1, h2.trans ih.2.1, ?_⟩
    intro c lin hj
    rcases h3 j c lin hj with hold | hnew
    · exact ih.2.2 c lin hold
    · omega

/-! ## the number of swaps is the number of `Set` calls that have started -/

theorem countP_modify {α : Type} (p : α → Bool) (f : α → α) : ∀ (l : List α) (i : Nat) (a : α), l[i]? = some a →
    (l.modify i f).countP p + (if p a then 1 else 0) = l.countP p + (if p (f a) then 1 else 0) := by
  intro l
  induction l with
  | nil => intro i a h; simp at h
  | cons x rest ih =>
    intro i a h
    cases i with
    | zero =>
      simp only [List.getElem?_cons_zero, Option.some.injEq] at h
      subst h
      simp only [List.modify_zero_cons, List.countP_cons]
      omega
    | succ i =>
      simp only [List.getElem?_cons_succ] at h
      have := ih i a h
      simp only [List.modify_succ_cons, List.countP_cons]
      omega

/-- the `Set` calls that have performed their `Swap` -/
def started (s : WState) : Nat := s.setters.countP (fun p => p.2 != .idle)

theorem started_setSetter {t : WState} {i : Nat} {v : Int} {pc0 pc : SetPc} (h : t.setters[i]? = some (v, pc0)) :
    started (setSetter t i pc) + (if pc0 != .idle then 1 else 0) = started t + (if pc != .idle then 1 else 0) := by
  have := countP_modify (fun p : Int × SetPc => p.2 != .idle) (fun p => (p.1, pc)) t.setters i (v, pc0) h
  simpa [started, setSetter] using this

theorem hist_started {s : WState} (h : WReach WCfg.std s) : s.hist.length = started s := by
  induction h with
  | init vals r =>
    have : (winit vals r).setters.countP (fun p => p.2 != .idle) = 0 := by
      apply List.countP_eq_zero.mpr
      intro p hp
      simp only [winit, List.mem_map] at hp
      obtain ⟨v, _, rfl⟩ := hp
      simp
    show (winit vals r).hist.length = started (winit vals r)
    rw [started, this]; rfl
  | @step s0 s1 l _ hs ih =>
    cases l with
    | swap i =>
      obtain ⟨v, hv, rfl⟩ := wstep_swap hs
      have h1 : (swapState s0 i v).hist.length = s0.hist.length + 1 := by simp [swapState, setSetter]
      have h2 := started_setSetter (pc := .swapped s0.ptr) hv
      have h3 : started (swapState s0 i v) = started (setSetter s0 i (.swapped s0.ptr)) := rfl
      simp at h2
      omega
    | close i =>
      obtain ⟨v, old, hv, hcase⟩ := wstep_close hs
      rcases hcase with ⟨_, rfl⟩ | ⟨oc, _, ⟨_, rfl⟩ | ⟨_, rfl⟩⟩
      · have h2 := started_setSetter (pc := .done) hv
        have : (setSetter s0 i SetPc.done).hist = s0.hist := rfl
        simp at h2; rw [this]; omega
      · have h2 := started_setSetter (pc := .panicked) hv
        have : (setSetter s0 i SetPc.panicked).hist = s0.hist := rfl
        simp at h2; rw [this]; omega
      · have key : ∀ (t : WState), t.setters = s0.setters → t.hist = s0.hist →
            (setSetter t i .done).hist.length = started (setSetter t i .done) := by
          intro t hts hth
          have h2 := started_setSetter (t := t) (pc := .done) (by rw [hts]; exact hv)
          have e1 : started t = started s0 := by simp [started, hts]
          have e2 : (setSetter t i .done).hist = s0.hist := hth
          simp at h2
          rw [e2]; omega
        exact key _ rfl rfl
    | load j =>
      obtain ⟨_, hcase⟩ := wstep_load hs
      rcases hcase with ⟨c, _, rfl⟩ | ⟨_, rfl⟩ <;> exact ih
    | cas j =>
      obtain ⟨_, hcase⟩ := wstep_cas hs
      rcases hcase with ⟨_, rfl⟩ | ⟨c, _, rfl⟩ <;> exact ih
    | reload j =>
      obtain ⟨_, hcase⟩ := wstep_reload hs
      rcases hcase with ⟨c, _, rfl⟩ | ⟨_, rfl⟩ <;> exact ih

theorem hist_le_setters {s : WState} (h : WReach WCfg.std s) : s.hist.length ≤ s.setters.length := by
  rw [hist_started h]; exact List.countP_le_length

/-! ## `Value` is never blocked -/

theorem setReader_self {s : WState} {j : Nat} {pc0 pc : ValPc} (h : s.readers[j]? = some pc0) :
    (setReader s j pc).readers[j]? = some pc := by
  have hlt : j < s.readers.length := (List.getElem?_eq_some_iff.mp h).1
  show (s.readers.set j pc)[j]? = some pc
  simp [hlt]

/-- From every reachable state, a `Value` call that has not returned yet returns within two steps
of its own (no other goroutine has to move), and what it returns is the latest value together with
an open channel. -/
theorem value_solo {s : WState} {j : Nat} {pc : ValPc} (hr : WReach WCfg.std s) (hj : s.readers[j]? = some pc)
    (hpc : pc = .idle ∨ pc = .sawNil ∨ pc = .casFailed) :
    ∃ (ls : List WLabel) (s' : WState) (c : Nat), ls.length ≤ 2 ∧ (∀ l ∈ ls, l.ofReader j = true) ∧
      wrun WCfg.std s ls = some s' ∧ s'.readers[j]? = some (.done c s.hist.length) ∧
      (cellAt s' c).val = latest s.hist ∧ (cellAt s' c).closed = false := by
  have hI := winv_reach hr
  have hS := wsafe_reach hr
  -- the pointer is non-nil: one read of it finishes the call
  have viaPtr : ∀ (t : WState) (c : Nat), t.cells = s.cells → t.hist = s.hist → s.ptr = some c →
      (cellAt (setReader t j (.done c s.hist.length)) c).val = latest s.hist ∧
      (cellAt (setReader t j (.done c s.hist.length)) c).closed = false := by
    intro t c htc hth hp
    obtain ⟨ce, hce, hep, hcl⟩ := winv_ptr_cell hI hp
    have hval := (hI.cell c ce hce).2.1
    have : cellAt (setReader t j (.done c s.hist.length)) c = ce := by
      simp [cellAt, setReader, htc, hce]
    rw [this, hval, hep, List.take_length]
    exact ⟨rfl, hcl⟩
  -- the pointer is nil: the CAS installs the empty cell
  have viaCas : ∀ (t : WState), t.cells = s.cells → t.hist = s.hist → s.ptr = none →
      (cellAt (casState t j) t.cells.length).val = latest s.hist ∧ (cellAt (casState t j) t.cells.length).closed = false := by
    intro t htc hth hp
    obtain ⟨hc, hh⟩ := hI.ptr_none hp
    simp [cellAt, casState, setReader, htc, hc, hh, latest]
  rcases hpc with rfl | rfl | rfl
  · cases hp : s.ptr with
    | some c =>
      refine ⟨[.load j], setReader s j (.done c s.hist.length), c, by simp, by simp [WLabel.ofReader], ?_, setReader_self hj, viaPtr s c rfl rfl hp⟩
      simp [wrun, wstep, hj, hp]
    | none =>
      have h1 : wstep WCfg.std s (.load j) = some (setReader s j .sawNil) := by simp [wstep, hj, hp]
      have hj1 : (setReader s j .sawNil).readers[j]? = some .sawNil := setReader_self hj
      have h2 : wstep WCfg.std (setReader s j .sawNil) (.cas j) = some (casState (setReader s j .sawNil) j) := by
        have : (setReader s j .sawNil).ptr = none := hp
        simp [wstep, hj1, this, casState]
      refine ⟨[.load j, .cas j], casState (setReader s j .sawNil) j, s.cells.length, by simp, by simp [WLabel.ofReader], ?_, ?_, ?_⟩
      · simp [wrun, h1, h2]
      · exact setReader_self (s := { (setReader s j .sawNil) with ptr := some s.cells.length, cells := s.cells ++ [_] }) hj1
      · exact viaCas (setReader s j .sawNil) rfl rfl hp
  · cases hp : s.ptr with
    | none =>
      have h2 : wstep WCfg.std s (.cas j) = some (casState s j) := by simp [wstep, hj, hp, casState]
      refine ⟨[.cas j], casState s j, s.cells.length, by simp, by simp [WLabel.ofReader], by simp [wrun, h2], ?_, viaCas s rfl rfl hp⟩
      exact setReader_self (s := { s with ptr := some s.cells.length, cells := s.cells ++ [_] }) hj
    | some c =>
      have h1 : wstep WCfg.std s (.cas j) = some (setReader s j .casFailed) := by simp [wstep, hj, hp, WCfg.std]
      have hj1 : (setReader s j .casFailed).readers[j]? = some .casFailed := setReader_self hj
      have h2 : wstep WCfg.std (setReader s j .casFailed) (.reload j) =
          some (setReader (setReader s j .casFailed) j (.done c s.hist.length)) := by
        have : (setReader s j .casFailed).ptr = some c := hp
        simp [wstep, hj1, this]; rfl
      refine ⟨[.cas j, .reload j], _, c, by simp, by simp [WLabel.ofReader], by simp [wrun, h1, h2], setReader_self hj1,
        viaPtr (setReader s j .casFailed) c rfl rfl hp⟩
  · cases hp : s.ptr with
    | none => exact absurd hp (hS.cas_ptr j hj)
    | some c =>
      refine ⟨[.reload j], setReader s j (.done c s.hist.length), c, by simp, by simp [WLabel.ofReader], ?_, setReader_self hj, viaPtr s c rfl rfl hp⟩
      simp [wrun, wstep, hj, hp]

end Juniper.Proofs.Watch
