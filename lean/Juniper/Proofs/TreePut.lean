import Juniper.Proofs.TreeOrder
import Juniper.Proofs.TreeBalDel
/-!
# `Put` refines the sorted-list `sput` (C01)
-/
namespace Juniper.Proofs.Tree
open Juniper.Model.BTree Juniper.Gen.Tree

variable {K V : Type} {α : Type} {cmp : K → K → Int}

/-! ## scanning through a node's decomposition -/

theorem startsAbove_rest {k : K} {B : List (List (K × V))} {kb : List (K × V)}
    (h : ∀ b ∈ kb.head?, cmp k b.1 < 0) : StartsAbove cmp k (rest B kb) := by
  intro b hb; rw [rest_head] at hb; exact h b hb

theorem sput_at_child (hc : StrictWeak cmp) {k : K} {v : V} {A B : List (List (K × V))} {ka kb M : List (K × V)}
    (hs : Sorted cmp (pre A ka ++ M ++ rest B kb))
    (hlo : ∀ y ∈ ka, 0 < cmp k y.1) (hhi : ∀ b ∈ kb.head?, cmp k b.1 < 0) :
    sput cmp k v (pre A ka ++ M ++ rest B kb) = pre A ka ++ sput cmp k v M ++ rest B kb := by
  have hp : Sorted cmp (pre A ka) := (List.pairwise_append.mp (List.pairwise_append.mp hs).1).1
  rw [List.append_assoc, sput_append_left (pre_below hc hp hlo), sput_append_right (startsAbove_rest hhi),
    List.append_assoc]

theorem sput_of_startsAbove {k : K} {v : V} {B : List (K × V)} (h : StartsAbove cmp k B) :
    sput cmp k v B = (k, v) :: B := by
  have := sput_append_right (M := []) (v := v) h
  simpa [sput] using this

theorem head?_drop (l : List α) (i : Nat) : (l.drop i).head? = l[i]? := by
  rw [List.head?_drop]

/-- facts that `searchNode` establishes about the node's own entries -/
theorem search_bounds (cmp : K → K → Int) (k : K) (kvs : List (K × V)) {i : Nat} {f : Bool}
    (hs : searchNode cmp k kvs = (i, f)) :
    (∀ y ∈ kvs.take i, 0 < cmp k y.1) ∧
    (f = false → ∀ b ∈ (kvs.drop i).head?, cmp k b.1 < 0) ∧
    (f = true → ∃ kv, kvs[i]? = some kv ∧ cmp k kv.1 = 0) := by
  have := searchNode_spec cmp k kvs
  rw [hs] at this
  refine ⟨this.1, ?_, this.2.1⟩
  intro hf b hb
  rw [head?_drop] at hb
  exact this.2.2 hf b hb

/-! ## decomposition of a node around a child / a separator -/

theorem toList_at_child {id : Nat} {kvs : List (K × V)} {kids : List (Node K V)} {i : Nat} {c : Node K V}
    (hlen : kids.length = kvs.length + 1) (hc : kids[i]? = some c) (c' : Node K V) :
    toList (.mk id kvs (replaceAt kids i c')) =
      pre ((kids.take i).map toList) (kvs.take i) ++ toList c' ++ rest ((kids.drop (i + 1)).map toList) (kvs.drop i) := by
  have hi : i < kids.length := (List.getElem?_eq_some_iff.mp hc).1
  rw [toList_mk, replaceAt, List.map_append, List.map_cons]
  conv => lhs; rw [← List.take_append_drop i kvs]
  apply inorder_mid
  simp; omega

theorem toList_at_child_self {id : Nat} {kvs : List (K × V)} {kids : List (Node K V)} {i : Nat} {c : Node K V}
    (hlen : kids.length = kvs.length + 1) (hc : kids[i]? = some c) :
    toList (.mk id kvs kids) =
      pre ((kids.take i).map toList) (kvs.take i) ++ toList c ++ rest ((kids.drop (i + 1)).map toList) (kvs.drop i) := by
  have := toList_at_child (id := id) hlen hc c
  have h2 : replaceAt kids i c = kids := (split_at_getElem? hc).1.symm
  rw [h2] at this; exact this

theorem insertAt_replaceAt (kids : List α) (i : Nat) (l r : α) (hi : i < kids.length) :
    insertAt (replaceAt kids i l) (i + 1) r = kids.take i ++ l :: r :: kids.drop (i + 1) := by
  have h1 : (kids.take i).length = i := by simp; omega
  unfold insertAt replaceAt
  rw [List.take_append, List.drop_append, h1]
  have e1 : List.take (i + 1) (List.take i kids) = List.take i kids := by
    rw [List.take_take]; congr 1; omega
  have e2 : List.drop (i + 1) (List.take i kids) = [] := by simp; omega
  have e3 : i + 1 - i = 1 := by omega
  simp [e1, e2, e3]

theorem toList_at_split {id : Nat} {kvs : List (K × V)} {kids : List (Node K V)} {i : Nat}
    (hlen : kids.length = kvs.length + 1) (hi : i < kids.length) (l r : Node K V) (sep : K × V) :
    toList (.mk id (kvs.take i ++ sep :: kvs.drop i) (kids.take i ++ l :: r :: kids.drop (i + 1))) =
      pre ((kids.take i).map toList) (kvs.take i) ++ (toList l ++ sep :: toList r) ++
        rest ((kids.drop (i + 1)).map toList) (kvs.drop i) := by
  rw [toList_mk, List.map_append, List.map_cons, List.map_cons]
  rw [inorder_split _ _ _ _ _ _ _ (by simp; omega)]
  simp

theorem setVal_eq {kvs : List (K × V)} {i : Nat} {kv : K × V} (h : kvs[i]? = some kv) (v : V) :
    setVal kvs i v = kvs.take i ++ (kv.1, v) :: kvs.drop (i + 1) := by
  unfold setVal
  rw [drop_one h]

/-- a node cut at separator `i` -/
theorem toList_at_sep {id : Nat} {kvs : List (K × V)} {kids : List (Node K V)} {i : Nat} {h : Nat}
    (hb : Bal h (.mk id kvs kids)) (hi : i < kvs.length) (s : K × V) :
    toList (.mk id (kvs.take i ++ s :: kvs.drop (i + 1)) kids) =
      inorder ((kids.take (i + 1)).map toList) (kvs.take i) ++ s ::
        inorder ((kids.drop (i + 1)).map toList) (kvs.drop (i + 1)) := by
  rw [toList_mk]
  conv => lhs; rw [← List.take_append_drop (i + 1) kids, List.map_append]
  apply inorder_at_sep
  rcases bal_cases.mp hb with ⟨_, rfl⟩ | ⟨h', _, hlen, _⟩
  · left; simp
  · right
    constructor
    · simp; omega
    · intro h0
      have := congrArg List.length h0
      simp at this; omega

/-! ## `overfillNode` keeps the in-order list -/

theorem overfill_toList (all : List (K × V)) (allKids : List (Node K V)) (id fresh : Nat) (d : K × V)
    (hall : (all.length : Int) = maxKVs + 1) (hk : allKids = [] ∨ allKids.length = all.length + 1) :
    toList (.mk id (all.take leftN.toNat) (allKids.take (leftN.toNat + 1))) ++ all.getD medianIdx.toNat d ::
      toList (.mk fresh ((all.drop (rightFirstIdx 0).toNat).take rightN.toNat)
        ((allKids.drop (rightFirstChildIdx 0).toNat).take (rightN.toNat + 1))) =
    inorder (allKids.map toList) all := by
  obtain ⟨c1, c2, c3, c4, c5, c6, c7, c8, c9, c10⟩ := consts
  have hm : leftN.toNat < all.length := by omega
  have e1 : medianIdx.toNat = leftN.toNat := by rw [c5]
  have e2 : (rightFirstIdx 0).toNat = leftN.toNat + 1 := by omega
  have e3 : (rightFirstChildIdx 0).toNat = leftN.toNat + 1 := by omega
  rw [e1, e2, e3]
  have hsep : all.getD leftN.toNat d = all[leftN.toNat] := by
    rw [List.getD_eq_getElem?_getD, List.getElem?_eq_getElem hm]; rfl
  have hr1 : (all.drop (leftN.toNat + 1)).take rightN.toNat = all.drop (leftN.toNat + 1) := by
    apply List.take_of_length_le; simp; omega
  have hr2 : (allKids.drop (leftN.toNat + 1)).take (rightN.toNat + 1) = allKids.drop (leftN.toNat + 1) := by
    apply List.take_of_length_le
    rcases hk with rfl | hk
    · simp
    · simp; omega
  rw [hsep, hr1, hr2, toList_mk, toList_mk]
  have hsplit : all = all.take leftN.toNat ++ all[leftN.toNat] :: all.drop (leftN.toNat + 1) := by
    conv => lhs; rw [← List.take_append_drop leftN.toNat all, List.drop_eq_getElem_cons hm]
  conv => rhs; rw [hsplit, ← List.take_append_drop (leftN.toNat + 1) allKids, List.map_append]
  symm
  apply inorder_at_sep
  rcases hk with rfl | hk
  · left; simp
  · right
    constructor
    · simp; omega
    · intro h0
      have := congrArg List.length h0
      simp at this; omega

theorem sput_at_sep (hc : StrictWeak cmp) {k : K} {v : V} {X Y : List (K × V)} {s : K × V}
    (hs : Sorted cmp (X ++ s :: Y)) (he : cmp k s.1 = 0) :
    sput cmp k v (X ++ s :: Y) = X ++ (s.1, v) :: Y := by
  have h1 := (List.pairwise_append.mp hs).2.2
  rw [sput_append_left]
  · obtain ⟨sk, sv⟩ := s
    simp only [sput]
    simp only at he
    rw [if_neg (by omega), if_pos he]
  · intro a ha
    have : cmp a.1 s.1 < 0 := h1 a ha s List.mem_cons_self
    exact hc.gt_of_eq_of_gt he (hc.gt_iff.mpr this)

theorem mem_pre_of_sep {A : List (List α)} {ka : List α} (h : A.length = ka.length) {y : α} (hy : y ∈ ka) :
    y ∈ pre A ka := by
  induction A generalizing ka with
  | nil => cases ka with
    | nil => cases hy
    | cons _ _ => simp at h
  | cons c cs ih =>
    cases ka with
    | nil => cases hy
    | cons kv kvs =>
      simp only [List.length_cons, Nat.add_right_cancel_iff] at h
      simp only [pre, List.mem_append, List.mem_cons]
      simp only [List.mem_cons] at hy
      rcases hy with rfl | hy
      · right; left; rfl
      · right; right; exact ih h hy

/-- the separator that comes up from a split child lies strictly between the parent's neighbouring entries -/
theorem sep_bounds (hc : StrictWeak cmp) {k : K} {A B : List (List (K × V))} {ka kb M : List (K × V)} {sep : K × V}
    (hlen : A.length = ka.length)
    (hs : Sorted cmp (pre A ka ++ M ++ rest B kb))
    (hlo : ∀ y ∈ ka, 0 < cmp k y.1) (hhi : ∀ b ∈ kb.head?, cmp k b.1 < 0)
    (hsep : sep.1 = k ∨ ∃ b ∈ M, b.1 = sep.1) :
    (∀ y ∈ ka, 0 < cmp sep.1 y.1) ∧ (∀ b ∈ kb.head?, cmp sep.1 b.1 < 0) := by
  rcases hsep with hk | ⟨b, hb, hk⟩
  · rw [hk]; exact ⟨hlo, hhi⟩
  · rw [← hk]
    have h1 := List.pairwise_append.mp hs
    have h2 := List.pairwise_append.mp h1.1
    constructor
    · intro y hy
      have : cmp y.1 b.1 < 0 := h2.2.2 y (mem_pre_of_sep hlen hy) b hb
      exact hc.gt_iff.mpr this
    · intro b' hb'
      have hm : b' ∈ rest B kb := by
        have : (rest B kb).head? = some b' := by rw [rest_head]; simpa using hb'
        exact List.mem_of_head? this
      exact h1.2.2 b (List.mem_append_right _ hb) b' hm

theorem leaf_put (cmp : K → K → Int) (k : K) (v : V) (kvs : List (K × V)) {i : Nat}
    (hs : searchNode cmp k kvs = (i, false)) :
    sput cmp k v kvs = insertAt kvs i (k, v) ∧ lowerIdx insertLess cmp k kvs = i ∧
      lowerIdx amalgamLess cmp k kvs = i := by
  obtain ⟨h1, h2, _⟩ := search_bounds cmp k kvs hs
  have hi : i ≤ kvs.length := by have := searchNode_le cmp k kvs; rw [hs] at this; exact this
  refine ⟨?_, ?_, ?_⟩
  · conv => lhs; rw [← List.take_append_drop i kvs]
    rw [sput_append_left h1, sput_of_startsAbove (h2 rfl)]; rfl
  · apply lowerIdx_eq hi
    · intro a ha; have := h1 a ha; simp only [insertLess, decide_eq_false_iff_not]; omega
    · intro kv hkv
      have := h2 rfl kv (by rw [head?_drop]; simpa using hkv)
      simpa [insertLess] using this
  · apply lowerIdx_eq hi
    · intro a ha; have := h1 a ha; simp only [amalgamLess, decide_eq_false_iff_not]; omega
    · intro kv hkv
      have := h2 rfl kv (by rw [head?_drop]; simpa using hkv)
      simpa [amalgamLess] using this

theorem overfillNode_toList (cmp : K → K → Int) (id : Nat) (kvs : List (K × V)) (kids : List (Node K V))
    (kv : K × V) (afterK : Option (Node K V)) (fresh : Nat) (hfull : (kvs.length : Int) = maxKVs)
    (hk : (afterK = none ∧ kids = []) ∨ (∃ r, afterK = some r ∧ kids.length = kvs.length + 1)) :
    toList (overfillNode cmp id kvs kids kv afterK fresh).1 ++ (overfillNode cmp id kvs kids kv afterK fresh).2.1 ::
      toList (overfillNode cmp id kvs kids kv afterK fresh).2.2 =
    inorder ((match afterK with
      | none => kids
      | some r => insertAt kids (lowerIdx amalgamLess cmp kv.1 kvs + 1) r).map toList)
      (insertAt kvs (lowerIdx amalgamLess cmp kv.1 kvs) kv) := by
  simp only [overfillNode, extraChildPos_eq]
  apply overfill_toList
  · rw [length_insertAt]; omega
  · rcases hk with ⟨rfl, rfl⟩ | ⟨r, rfl, hl⟩
    · left; rfl
    · right; simp only [length_insertAt]; omega

theorem sget_at_child (hc : StrictWeak cmp) {k : K} {A B : List (List (K × V))} {ka kb M : List (K × V)}
    (hs : Sorted cmp (pre A ka ++ M ++ rest B kb))
    (hlo : ∀ y ∈ ka, 0 < cmp k y.1) (hhi : ∀ b ∈ kb.head?, cmp k b.1 < 0) :
    sget cmp k (pre A ka ++ M ++ rest B kb) = sget cmp k M := by
  have hp : Sorted cmp (pre A ka) := (List.pairwise_append.mp (List.pairwise_append.mp hs).1).1
  rw [List.append_assoc, sget_append_left (pre_below hc hp hlo), sget_append_right (startsAbove_rest hhi)]

theorem sget_of_startsAbove {k : K} {B : List (K × V)} (h : StartsAbove cmp k B) : sget cmp k B = none := by
  have := sget_append_right (M := []) h
  simpa [sget] using this

theorem sget_at_sep (hc : StrictWeak cmp) {k : K} {X Y : List (K × V)} {s : K × V}
    (hs : Sorted cmp (X ++ s :: Y)) (he : cmp k s.1 = 0) : sget cmp k (X ++ s :: Y) = some s := by
  have h1 := (List.pairwise_append.mp hs).2.2
  rw [sget_append_left]
  · obtain ⟨sk, sv⟩ := s
    simp only [sget]
    simp only at he
    rw [if_neg (by omega), if_pos he]
  · intro a ha
    have : cmp a.1 s.1 < 0 := h1 a ha s List.mem_cons_self
    exact hc.gt_of_eq_of_gt he (hc.gt_iff.mpr this)

theorem leaf_sget (cmp : K → K → Int) (k : K) (kvs : List (K × V)) {i : Nat}
    (hs : searchNode cmp k kvs = (i, false)) : sget cmp k kvs = none := by
  obtain ⟨h1, h2, _⟩ := search_bounds cmp k kvs hs
  conv => lhs; rw [← List.take_append_drop i kvs]
  rw [sget_append_left h1, sget_of_startsAbove (h2 rfl)]

theorem length_sput (cmp : K → K → Int) (k : K) (v : V) (l : List (K × V)) :
    (sput cmp k v l).length = if (sget cmp k l).isSome then l.length else l.length + 1 := by
  induction l with
  | nil => simp [sput, sget]
  | cons x l ih =>
    obtain ⟨k', v'⟩ := x
    simp only [sput, sget]
    split
    · simp
    · split
      · simp
      · simp only [List.length_cons, ih]; split <;> rfl

def InsSpec (cmp : K → K → Int) (k : K) (v : V) (x : Node K V) : InsRes K V → Prop
  | .crash => True
  | .found x' => toList x' = sput cmp k v (toList x) ∧ (sget cmp k (toList x)).isSome = true
  | .one x' => toList x' = sput cmp k v (toList x) ∧ sget cmp k (toList x) = none
  | .split l sep r => toList l ++ sep :: toList r = sput cmp k v (toList x) ∧ sget cmp k (toList x) = none

theorem ins_refines (hc : StrictWeak cmp) (k : K) (v : V) (x : Node K V) (fresh : Nat) :
    ∀ h, Bal h x → x.n ≤ maxKVs → Sorted cmp (toList x) → InsSpec cmp k v x (ins cmp k v x fresh).1 := by
  obtain ⟨c1, c2, c3, c4, c5, c6, c7, c8, c9, c10⟩ := consts
  fun_induction ins cmp k v x fresh with
  | case1 id kvs kids i hs =>
    intro h hb hn hsort
    obtain ⟨_, _, h3⟩ := search_bounds cmp k kvs hs
    obtain ⟨kv, hkv, he⟩ := h3 rfl
    have hi : i < kvs.length := (List.getElem?_eq_some_iff.mp hkv).1
    have hkvs : kvs = kvs.take i ++ kv :: kvs.drop (i + 1) := (split_at_getElem? hkv).1
    simp only [InsSpec]
    rw [setVal_eq hkv, toList_at_sep hb hi]
    have h0 : toList (.mk id kvs kids) = inorder ((kids.take (i + 1)).map toList) (kvs.take i) ++ kv ::
        inorder ((kids.drop (i + 1)).map toList) (kvs.drop (i + 1)) := by
      have := toList_at_sep hb hi kv
      rw [← hkvs] at this; exact this
    rw [h0] at hsort ⊢
    rw [sput_at_sep hc hsort he, sget_at_sep hc hsort he]
    exact ⟨rfl, rfl⟩
  | case2 id kvs kids i hs hleaf hroom =>
    intro h hb hn hsort
    have hk : kids = [] := List.isEmpty_iff.mp hleaf
    subst hk
    obtain ⟨e1, e2, _⟩ := leaf_put cmp k v kvs hs
    simp only [InsSpec, toList_leaf, e1, e2, leaf_sget cmp k kvs hs, and_self]
  | case3 id kvs kids i hs hleaf hroom =>
    intro h hb hn hsort
    have hk : kids = [] := List.isEmpty_iff.mp hleaf
    subst hk
    simp only [putInsertsDirect, full, c3, Bool.not_eq_eq_eq_not, Bool.not_true, decide_eq_false_iff_not, Decidable.not_not] at hroom
    obtain ⟨e1, _, e3⟩ := leaf_put cmp k v kvs hs
    simp only [InsSpec, toList_leaf]
    rw [overfillNode_toList cmp id kvs [] (k, v) none fresh hroom (Or.inl ⟨rfl, rfl⟩)]
    simp only [List.map_nil, inorder, e3, e1, leaf_sget cmp k kvs hs, and_self]
  | case4 id kvs kids i hs hinner hnone => intro h hb hn hsort; trivial
  | case5 id kvs kids i hs hinner c hc f hres ih => intro h hb hn hsort; trivial
  | case6 id kvs kids i hs hinner c hcc c' f hres ih =>
    intro h hb hn hsort
    have hne : kids ≠ [] := by simpa using hinner
    obtain ⟨h', rfl, hlen, hall⟩ := bal_inner hne hb
    have hcm := List.mem_of_getElem? hcc
    obtain ⟨b1, b2, _⟩ := search_bounds cmp k kvs hs
    rw [toList_at_child_self hlen hcc] at hsort
    have hsc : Sorted cmp (toList c) := (List.pairwise_append.mp (List.pairwise_append.mp hsort).1).2.1
    have := ih h' (hall c hcm).1 (hall c hcm).2.2 hsc
    rw [hres] at this
    simp only [InsSpec] at this ⊢
    rw [toList_at_child hlen hcc, toList_at_child_self hlen hcc, sput_at_child hc hsort b1 (b2 rfl),
      sget_at_child hc hsort b1 (b2 rfl), this.1]
    exact ⟨rfl, this.2⟩
  | case7 id kvs kids i hs hinner c hcc c' f hres ih =>
    intro h hb hn hsort
    have hne : kids ≠ [] := by simpa using hinner
    obtain ⟨h', rfl, hlen, hall⟩ := bal_inner hne hb
    have hcm := List.mem_of_getElem? hcc
    obtain ⟨b1, b2, _⟩ := search_bounds cmp k kvs hs
    rw [toList_at_child_self hlen hcc] at hsort
    have hsc : Sorted cmp (toList c) := (List.pairwise_append.mp (List.pairwise_append.mp hsort).1).2.1
    have := ih h' (hall c hcm).1 (hall c hcm).2.2 hsc
    rw [hres] at this
    simp only [InsSpec] at this ⊢
    rw [toList_at_child hlen hcc, toList_at_child_self hlen hcc, sput_at_child hc hsort b1 (b2 rfl),
      sget_at_child hc hsort b1 (b2 rfl), this.1]
    exact ⟨rfl, this.2⟩
  | case8 id kvs kids i hs hinner c hcc l sep r f hres kids1 hroom ih =>
    intro h hb hn hsort
    have hne : kids ≠ [] := by simpa using hinner
    obtain ⟨h', rfl, hlen, hall⟩ := bal_inner hne hb
    have hcm := List.mem_of_getElem? hcc
    have hil : i < kids.length := (List.getElem?_eq_some_iff.mp hcc).1
    obtain ⟨b1, b2, _⟩ := search_bounds cmp k kvs hs
    rw [toList_at_child_self hlen hcc] at hsort
    have hsc : Sorted cmp (toList c) := (List.pairwise_append.mp (List.pairwise_append.mp hsort).1).2.1
    have := ih h' (hall c hcm).1 (hall c hcm).2.2 hsc
    rw [hres] at this
    simp only [InsSpec] at this ⊢
    have hk1 : kids1 = replaceAt kids i l := rfl
    have e1 : (parentSepIdx (i : Int)).toNat = i := by simp [parentSepIdx]
    have e2 : (parentRightIdx (i : Int)).toNat = i + 1 := by simp [parentRightIdx] <;> omega
    rw [e1, e2, hk1, insertAt_replaceAt kids i l r hil, insertAt, toList_at_split hlen hil,
      toList_at_child_self hlen hcc, sput_at_child hc hsort b1 (b2 rfl), sget_at_child hc hsort b1 (b2 rfl), this.1]
    exact ⟨rfl, this.2⟩
  | case9 id kvs kids i hs hinner c hcc l sep r f hres kids1 hroom s ih =>
    intro h hb hn hsort
    have hne : kids ≠ [] := by simpa using hinner
    obtain ⟨h', rfl, hlen, hall⟩ := bal_inner hne hb
    have hcm := List.mem_of_getElem? hcc
    have hil : i < kids.length := (List.getElem?_eq_some_iff.mp hcc).1
    obtain ⟨b1, b2, _⟩ := search_bounds cmp k kvs hs
    have hsort0 := hsort
    rw [toList_at_child_self hlen hcc] at hsort
    have hsc : Sorted cmp (toList c) := (List.pairwise_append.mp (List.pairwise_append.mp hsort).1).2.1
    have := ih h' (hall c hcm).1 (hall c hcm).2.2 hsc
    rw [hres] at this
    simp only [InsSpec] at this ⊢
    simp only [overfillParentHasRoom, full, c3, Bool.not_eq_eq_eq_not, Bool.not_true, decide_eq_false_iff_not, Decidable.not_not] at hroom
    have hk1 : kids1 = replaceAt kids i l := rfl
    have hs1 : s = overfillNode cmp id kvs kids1 sep (some r) f := rfl
    -- the separator's position in the amalgam is the child's position
    have hsepm : sep.1 = k ∨ ∃ b ∈ toList c, b.1 = sep.1 := by
      have hm : sep ∈ sput cmp k v (toList c) := by rw [← this.1]; simp
      exact key_mem_sput hm
    obtain ⟨sb1, sb2⟩ := sep_bounds hc (by simp; omega) hsort b1 (b2 rfl) hsepm
    have he : lowerIdx amalgamLess cmp sep.1 kvs = i := by
      apply lowerIdx_eq (by omega)
      · intro a ha; have := sb1 a ha; simp only [amalgamLess, decide_eq_false_iff_not]; omega
      · intro kv hkv
        have := sb2 kv (by rw [head?_drop]; simpa using hkv)
        simpa [amalgamLess] using this
    rw [hs1, overfillNode_toList cmp id kvs kids1 sep (some r) f hroom
      (Or.inr ⟨r, rfl, by rw [hk1, length_replaceAt _ _ _ hil]; exact hlen⟩)]
    simp only [he, hk1]
    rw [insertAt_replaceAt kids i l r hil, insertAt, ← toList_mk id, toList_at_split hlen hil,
      toList_at_child_self hlen hcc, sput_at_child hc hsort b1 (b2 rfl), sget_at_child hc hsort b1 (b2 rfl), this.1]
    exact ⟨rfl, this.2⟩


/-! ## the whole tree -/

/-- well-formedness of a tree: balanced and half-full (`BalTree`), strictly sorted in-order contents
(every key on exactly one search path), and `size` is the number of entries -/
structure WF (cmp : K → K → Int) (t : Tree K V) : Prop where
  bal : BalTree t
  sorted : Sorted cmp (toList t.root)
  size : t.size = (toList t.root).length

theorem wf_empty (cmp : K → K → Int) : WF cmp (Tree.empty : Tree K V) :=
  ⟨balTree_empty, by simp [Tree.empty, Sorted], by simp [Tree.empty]⟩

theorem put_refines_wf (hc : StrictWeak cmp) (t : Tree K V) (k : K) (v : V) (hw : WF cmp t) :
    ∃ t', put cmp t k v = some t' ∧ WF cmp t' ∧ toList t'.root = sput cmp k v (toList t.root) := by
  obtain ⟨h, hbal, hmax, hroot⟩ := hw.bal
  have hb := bal_ins cmp k v t.root t.nextId h hbal hmax
  have hr := ins_refines hc k v t.root t.nextId h hbal hmax hw.sorted
  have hbt := bal_put cmp t k v hw.bal
  have hps : putBumpsSize = true := by decide
  unfold put at hbt ⊢
  rcases hres : ins cmp k v t.root t.nextId with ⟨res, f⟩
  rw [hres] at hb hr hbt
  have hlen := length_sput cmp k v (toList t.root)
  cases res with
  | crash => exact hb.elim
  | found x' =>
    obtain ⟨t', ht', hb'⟩ := hbt
    simp only [Option.some.injEq] at ht'; subst ht'
    obtain ⟨he, hg⟩ := hr
    refine ⟨_, rfl, ⟨hb', ?_, ?_⟩, he⟩
    · simp only; rw [he]; exact sorted_sput hc hw.sorted
    · simp only; rw [he, hlen, hg]; simpa using hw.size
  | one x' =>
    obtain ⟨t', ht', hb'⟩ := hbt
    simp only [Option.some.injEq] at ht'; subst ht'
    obtain ⟨he, hg⟩ := hr
    refine ⟨_, rfl, ⟨hb', ?_, ?_⟩, he⟩
    · simp only; rw [he]; exact sorted_sput hc hw.sorted
    · simp only [hps, if_true]; rw [he, hlen, hg]; simp [hw.size]
  | split l sep r =>
    obtain ⟨t', ht', hb'⟩ := hbt
    simp only [Option.some.injEq] at ht'; subst ht'
    obtain ⟨he, hg⟩ := hr
    have hl : toList (Node.mk f [sep] [l, r]) = sput cmp k v (toList t.root) := by
      rw [← he, toList_mk]; simp [inorder, rest]
    refine ⟨_, rfl, ⟨hb', ?_, ?_⟩, hl⟩
    · simp only; rw [hl]; exact sorted_sput hc hw.sorted
    · simp only [hps, if_true]; rw [hl, hlen, hg]; simp [hw.size]

end Juniper.Proofs.Tree
