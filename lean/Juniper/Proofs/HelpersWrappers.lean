import Juniper.Proofs.HelpersMisc
import Juniper.Model.HelpersMore
/-! The thin wrappers over the standard library (`xslices_go1.21.go`, `xsort.Slice*`, `OrderedLess`,
`xmath.Min/Max`) and the derived comparisons of `xsort` (C19). The models are the generated bodies
instantiated with the documented contracts of `Model/HelpersStdlib.lean`. -/
namespace Juniper.Proofs.Helpers
open Juniper.Gen.Helpers Juniper.Model.Helpers Juniper.Spec.Helpers
open Juniper.Model.Stdlib (Sl)
open Juniper.Model

variable {α β : Type}

/-! ## `Sl` -/

theorem items_shrinkTo (zero : α) (s : Sl α) (l : List α) : (s.shrinkTo zero l).items = l := by
  simp [Sl.shrinkTo, Sl.items]

theorem items_clone (s : Sl α) : (Stdlib.clone s).items = s.items := by
  simp only [Stdlib.clone, Sl.items]
  exact List.take_of_length_le (Nat.le_refl _)

theorem length_items (s : Sl α) (h : s.WF) : s.items.length = s.len := by
  simp only [Sl.items, List.length_take]
  exact Nat.min_eq_left h

/-! ## Compact -/

theorem compactGo_eq (eq : α → α → Bool) (prev : α) (l : List α) :
    Stdlib.compactGo eq prev l = ((l.zip (some prev :: l.map some)).filter (startsRun eq)).map Prod.fst := by
  induction l generalizing prev with
  | nil => rfl
  | cons y rest ih =>
    simp only [Stdlib.compactGo, List.map_cons, List.zip_cons_cons, List.filter_cons]
    by_cases h : eq y prev = true
    · simp [h, ih, startsRun]
    · simp [h, ih, startsRun]

theorem compactBy_eq (eq : α → α → Bool) (l : List α) : Stdlib.compactBy eq l = firstOfRuns eq l := by
  cases l with
  | nil => rfl
  | cons x xs => simp [Stdlib.compactBy, firstOfRuns, compactGo_eq, List.filter_cons, startsRun]

theorem compactGo_sublist (eq : α → α → Bool) (prev : α) (l : List α) : (Stdlib.compactGo eq prev l).Sublist l := by
  induction l generalizing prev with
  | nil => exact List.Sublist.slnil
  | cons y rest ih =>
    simp only [Stdlib.compactGo]
    split
    · exact (ih y).cons _
    · exact (ih y).cons_cons _

theorem firstOfRuns_sublist (eq : α → α → Bool) (l : List α) : (firstOfRuns eq l).Sublist l := by
  rw [← compactBy_eq]
  cases l with
  | nil => exact List.Sublist.slnil
  | cons x xs => exact (compactGo_sublist eq x xs).cons_cons _

/-! ## EqualFunc -/

theorem equalFuncL_iff (eq : α → β → Bool) (a : List α) (b : List β) :
    Stdlib.equalFuncL eq a b = true ↔ a.length = b.length ∧ ∀ p ∈ a.zip b, eq p.1 p.2 = true := by
  induction a generalizing b with
  | nil => cases b <;> simp [Stdlib.equalFuncL]
  | cons x xs ih =>
    cases b with
    | nil => simp [Stdlib.equalFuncL]
    | cons y ys => simp [Stdlib.equalFuncL, ih, and_left_comm]

/-! ## IndexFunc -/

theorem indexFunc_spec (s : Sl α) (f : α → Bool) :
    -1 ≤ Stdlib.indexFunc s f ∧ Stdlib.indexFunc s f < s.items.length ∧
    (Stdlib.indexFunc s f = -1 ↔ ∀ y ∈ s.items, f y = false) ∧
    (∀ i : Nat, Stdlib.indexFunc s f = i →
      (∃ y, s.items[i]? = some y ∧ f y = true) ∧ ∀ j : Nat, j < i → ∀ y, s.items[j]? = some y → f y = false) := by
  unfold Stdlib.indexFunc
  cases h : s.items.findIdx? f with
  | none =>
    dsimp only
    rw [List.findIdx?_eq_none_iff] at h
    refine ⟨by omega, by omega, by simpa using h, fun i hi => by omega⟩
  | some k =>
    dsimp only
    rw [List.findIdx?_eq_some_iff_getElem] at h
    obtain ⟨hk, hfk, hlt⟩ := h
    refine ⟨by omega, by omega, ?_, ?_⟩
    · constructor
      · intro e; omega
      · intro hall
        have := hall s.items[k] (List.getElem_mem hk)
        simp [this] at hfk
    · intro i hi
      have : i = k := by omega
      subst this
      refine ⟨⟨s.items[i], by simp [hk], hfk⟩, fun j hj y hy => ?_⟩
      obtain ⟨hj', rfl⟩ := List.getElem?_eq_some_iff.mp hy
      simpa using hlt j hj

/-! ## sorting -/

theorem insertStable_perm (lt : α → α → Bool) (x : α) (l : List α) : (Stdlib.insertStable lt x l).Perm (x :: l) := by
  induction l with
  | nil => exact List.Perm.refl _
  | cons y ys ih =>
    simp only [Stdlib.insertStable]
    split
    · exact ((List.Perm.cons y ih).trans (List.Perm.swap x y ys))
    · exact List.Perm.refl _

theorem sortStable_perm (lt : α → α → Bool) (l : List α) : (Stdlib.sortStable lt l).Perm l := by
  induction l with
  | nil => exact List.Perm.refl _
  | cons x xs ih =>
    show (Stdlib.insertStable lt x (Stdlib.sortStable lt xs)).Perm _
    exact (insertStable_perm lt x _).trans (List.Perm.cons x ih)

theorem insertStable_sorted (lt : α → α → Bool) (hw : StrictWeak lt) (x : α) (l : List α) (hl : SortedBy lt l) :
    SortedBy lt (Stdlib.insertStable lt x l) := by
  induction l with
  | nil => simp [Stdlib.insertStable, SortedBy]
  | cons y ys ih =>
    unfold SortedBy at hl ih ⊢
    rw [List.pairwise_cons] at hl
    simp only [Stdlib.insertStable]
    by_cases hyx : lt y x = true
    · rw [if_pos hyx, List.pairwise_cons]
      refine ⟨fun z hz => ?_, ih hl.2⟩
      rcases (List.mem_cons.mp ((insertStable_perm lt x ys).mem_iff.mp hz)) with rfl | hz'
      · exact sw_asymm hw hyx
      · exact hl.1 z hz'
    · have hyx' : lt y x = false := by simpa using hyx
      rw [if_neg hyx, List.pairwise_cons, List.pairwise_cons]
      refine ⟨fun z hz => ?_, hl⟩
      rcases List.mem_cons.mp hz with rfl | hz'
      · exact hyx'
      · exact hw.negTrans z y x (hl.1 z hz') hyx'

theorem sortStable_sorted (lt : α → α → Bool) (hw : StrictWeak lt) (l : List α) : SortedBy lt (Stdlib.sortStable lt l) := by
  induction l with
  | nil => simp [Stdlib.sortStable, SortedBy]
  | cons x xs ih => exact insertStable_sorted lt hw x _ ih

theorem equiv_trans {lt : α → α → Bool} (hw : StrictWeak lt) {a b c : α}
    (h1 : Equiv lt a b = true) (h2 : Equiv lt b c = true) : Equiv lt a c = true := by
  simp only [Equiv, Bool.and_eq_true, Bool.not_eq_true'] at *
  exact ⟨hw.negTrans a b c h1.1 h2.1, hw.negTrans c b a h2.2 h1.2⟩

theorem insertStable_filter (lt : α → α → Bool) (hw : StrictWeak lt) (a x : α) (l : List α) :
    (Stdlib.insertStable lt x l).filter (Equiv lt a) =
      if Equiv lt a x then x :: l.filter (Equiv lt a) else l.filter (Equiv lt a) := by
  induction l with
  | nil => simp [Stdlib.insertStable, List.filter_cons]
  | cons y ys ih =>
    simp only [Stdlib.insertStable]
    by_cases hyx : lt y x = true
    · rw [if_pos hyx, List.filter_cons, ih]
      by_cases hax : Equiv lt a x = true
      · have hay : Equiv lt a y = false := by
          cases h : Equiv lt a y with
          | false => rfl
          | true =>
            have hxa : Equiv lt x a = true := by
              simp only [Equiv, Bool.and_eq_true, Bool.not_eq_true'] at hax ⊢; exact ⟨hax.2, hax.1⟩
            have := equiv_trans hw hxa h
            simp only [Equiv, Bool.and_eq_true, Bool.not_eq_true'] at this
            rw [this.2] at hyx; cases hyx
        simp [hax, hay]
      · simp [hax, List.filter_cons]
    · rw [if_neg hyx]
      by_cases hax : Equiv lt a x = true <;> simp [hax, List.filter_cons]

/-- stability: the items equivalent to any given `a` keep their original relative order -/
theorem sortStable_stable (lt : α → α → Bool) (hw : StrictWeak lt) (a : α) (l : List α) :
    (Stdlib.sortStable lt l).filter (Equiv lt a) = l.filter (Equiv lt a) := by
  induction l with
  | nil => rfl
  | cons x xs ih =>
    show (Stdlib.insertStable lt x (Stdlib.sortStable lt xs)).filter _ = _
    rw [insertStable_filter lt hw, ih, List.filter_cons]

theorem elemLess_adapter (zero : α) (less : α → α → Bool) (a b : α) :
    Stdlib.elemLess (fun cur i j => less (Stdlib.elemAt zero cur i) (Stdlib.elemAt zero cur j)) a b = less a b := by
  simp [Stdlib.elemLess, Stdlib.elemAt, Sl.ofList, Sl.items]

theorem elemAt_nat (zero : α) (s : Sl α) (i : Nat) (h : i < s.items.length) :
    Stdlib.elemAt zero s (i : Int) = s.items[i] := by
  have : ¬ ((i : Int) < 0) := by omega
  simp [Stdlib.elemAt, this, List.getD_eq_getElem?_getD, h]

theorem sortedBy_iff_adjacent (lt : α → α → Bool) (hw : StrictWeak lt) (l : List α) :
    SortedBy lt l ↔ ∀ i (h : i + 1 < l.length), lt l[i + 1] l[i] = false := by
  unfold SortedBy
  rw [List.pairwise_iff_getElem]
  constructor
  · intro h i hi
    exact h i (i + 1) (by omega) hi (by omega)
  · intro h i j hi hj hij
    obtain ⟨d, rfl⟩ : ∃ d, j = i + 1 + d := ⟨j - i - 1, by omega⟩
    clear hij
    induction d with
    | zero => exact h i hj
    | succ d ih =>
      have h1 := ih (by omega)
      have h2 := h (i + 1 + d) (by omega)
      exact hw.negTrans _ _ _ h2 h1

/-! ## in-place results, Grow, Insert, Remove -/

theorem shrinkTo_spec (zero : α) (s : Sl α) (l : List α) :
    (s.shrinkTo zero l).items = l ∧ (s.shrinkTo zero l).fresh = s.fresh ∧
    (s.shrinkTo zero l).arr = l ++ List.replicate (s.items.length - l.length) zero ++ s.arr.drop s.len :=
  ⟨items_shrinkTo zero s l, rfl, rfl⟩

/-- `Grow`: panics for a negative `n` and when more than `allocLimit` new elements would have to be
allocated; otherwise the contents are kept, `n` more elements fit, and the array is kept iff they
already fitted. -/
theorem grow_spec (zero : α) (s : Sl α) (n : Int) :
    (n < 0 → grow zero s n = none) ∧
    (0 ≤ n → Stdlib.allocLimit < n → s.cap < s.len + n.toNat → grow zero s n = none) ∧
    (0 ≤ n → (n ≤ Stdlib.allocLimit ∨ s.len + n.toNat ≤ s.cap) →
      ∃ r, grow zero s n = some r ∧ r.items = s.items ∧ r.items.length + n.toNat ≤ r.cap ∧
      (s.len + n.toNat ≤ s.cap → r = s) ∧ (s.cap < s.len + n.toNat → r.fresh = true)) := by
  unfold grow growW Stdlib.grow
  refine ⟨fun h => by simp [h], fun h hbig hc => ?_, fun h hal => ?_⟩
  · have h' : ¬ n < 0 := by omega
    have hc' : ¬ s.len + n.toNat ≤ s.cap := by omega
    simp [h', hc', hbig]
  have h' : ¬ n < 0 := by omega
  simp only [h', ↓reduceIte]
  by_cases hc : s.len + n.toNat ≤ s.cap
  · simp only [hc, ↓reduceIte, Option.some.injEq, exists_eq_left', true_and, forall_const]
    refine ⟨?_, by omega⟩
    simp only [Sl.items, Sl.cap, List.length_take] at hc ⊢
    omega
  · have hal' : ¬ n > Stdlib.allocLimit := by
      rcases hal with hal | hal
      · omega
      · exact absurd hal hc
    simp only [hc, hal', ↓reduceIte, Option.some.injEq, exists_eq_left', false_imp_iff, true_and, implies_true, and_true]
    constructor
    · simp [Sl.items]
    · simp [Sl.items, Sl.cap]

theorem items_mk_append (r tail : List α) (f : Bool) : Sl.items ⟨r ++ tail, r.length, f⟩ = r :=
  List.take_left' rfl

theorem items_mk (r : List α) (f : Bool) : Sl.items ⟨r, r.length, f⟩ = r :=
  List.take_of_length_le (Nat.le_refl _)

theorem insertAt_spec (s : Sl α) (idx : Int) (vals : List α) (hs : s.WF) :
    (insertAt s idx vals = none ↔ idx < 0 ∨ (s.len : Int) < idx) ∧
    (∀ r, insertAt s idx vals = some r →
      r.items = s.items.take idx.toNat ++ vals ++ s.items.drop idx.toNat ∧
      (s.len + vals.length ≤ s.cap → r.fresh = s.fresh ∧ r.arr = r.items ++ s.arr.drop (s.len + vals.length)) ∧
      (s.cap < s.len + vals.length → r.fresh = true)) := by
  unfold insertAt insertW Stdlib.insert
  have hl := length_items s hs
  by_cases hp : idx < 0 ∨ (s.len : Int) < idx
  · simp [hp]
  · rw [if_neg hp]
    have hlen : (s.items.take idx.toNat ++ vals ++ s.items.drop idx.toNat).length = s.len + vals.length := by
      simp only [List.length_append, List.length_take, List.length_drop, hl]
      omega
    generalize s.items.take idx.toNat ++ vals ++ s.items.drop idx.toNat = L at hlen ⊢
    dsimp only
    constructor
    · simp only [hp, iff_false]; split <;> simp
    · intro r hr
      by_cases hc : L.length ≤ s.cap
      · rw [if_pos hc] at hr
        cases hr
        refine ⟨items_mk_append _ _ _, fun _ => ⟨rfl, ?_⟩, fun h => by omega⟩
        rw [items_mk_append, hlen]
      · rw [if_neg hc] at hr
        cases hr
        exact ⟨items_mk _ _, fun h => by omega, fun _ => rfl⟩

seal Juniper.Facts.wrap64

/-- `Remove(s, idx, n)` = `slices.Delete(s, idx, idx+n)` in 64-bit arithmetic, for EVERY pair of `int`
arguments: it panics exactly outside `0 ≤ idx, 0 ≤ n, idx + n ≤ len(s)` (the sum taken in the
integers — when `idx + n` overflows it wraps to a negative number, which `Delete` rejects as well). -/
theorem remove_spec (zero : α) (s : Sl α) (idx n : Int) (hs : s.WF)
    (hl64 : (s.len : Int) ≤ 9223372036854775807)
    (hi : -9223372036854775808 ≤ idx ∧ idx ≤ 9223372036854775807)
    (hn : -9223372036854775808 ≤ n ∧ n ≤ 9223372036854775807) :
    (remove zero s idx n = none ↔ idx < 0 ∨ n < 0 ∨ (s.len : Int) < idx + n) ∧
    (∀ r, remove zero s idx n = some r →
      r.items = s.items.take idx.toNat ++ s.items.drop (idx + n).toNat ∧ r.fresh = s.fresh ∧
      r.arr = r.items ++ List.replicate n.toNat zero ++ s.arr.drop s.len) := by
  unfold remove removeW Stdlib.delete
  have hl := length_items s hs
  by_cases hp : 0 ≤ idx ∧ idx ≤ idx + n ∧ idx + n ≤ (s.len : Int)
  · have hw : Juniper.Facts.wrap64 (idx + n) = idx + n := wrap64_of_range (by omega) (by omega)
    rw [hw, if_pos hp]
    refine ⟨by simp; omega, fun r hr => ?_⟩
    cases hr
    obtain ⟨h1, h2, h3⟩ := shrinkTo_spec zero s (s.items.take idx.toNat ++ s.items.drop (idx + n).toNat)
    refine ⟨h1, h2, ?_⟩
    rw [h3, h1]
    congr 3
    simp only [List.length_append, List.length_take, List.length_drop, hl]
    omega
  · have hp' : ¬ (0 ≤ idx ∧ idx ≤ Juniper.Facts.wrap64 (idx + n) ∧ Juniper.Facts.wrap64 (idx + n) ≤ (s.len : Int)) := by
      have hr := wrap64_range (idx + n)
      by_cases hin : idx + n ≤ 9223372036854775807 ∧ -9223372036854775808 ≤ idx + n
      · rw [wrap64_of_range hin.2 hin.1]; exact hp
      · -- the sum overflowed: both arguments have the same sign; the wrapped sum has the other one
        intro ⟨h0, h1, h2⟩
        have : Juniper.Facts.wrap64 (idx + n) = idx + n - 18446744073709551616 :=
          wrap64_overflow_pos (by omega) (by omega)
        omega
    rw [if_neg hp']
    refine ⟨by simp; omega, fun r hr => by cases hr⟩

theorem sortSliceStable_items (zero : α) (x : Sl α) (less : α → α → Bool) :
    (sortSliceStable zero x less).items = Stdlib.sortStable less x.items ∧
    (sortSliceStable zero x less).fresh = x.fresh ∧
    (sortSliceStable zero x less).arr = Stdlib.sortStable less x.items ++ x.arr.drop x.len := by
  unfold sortSliceStable sortSliceStableW Stdlib.sortSliceStable
  have he : Stdlib.elemLess (fun cur i j => less (Stdlib.elemAt zero cur i) (Stdlib.elemAt zero cur j)) = less := by
    funext a b; exact elemLess_adapter zero less a b
  rw [he]
  refine ⟨?_, rfl, rfl⟩
  simp only [Sl.items]
  exact List.take_left' (sortStable_perm less _).length_eq

theorem sortSliceIsSorted_iff (zero : α) (x : Sl α) (less : α → α → Bool) (hw : StrictWeak less) (hx : x.WF) :
    sortSliceIsSorted zero x less = true ↔ SortedBy less x.items := by
  rw [sortedBy_iff_adjacent less hw]
  simp only [sortSliceIsSorted, sortSliceIsSortedW, Stdlib.sortSliceIsSorted, List.all_eq_true, List.mem_range,
    Bool.not_eq_true']
  have hl := length_items x hx
  have hc : ∀ i : Nat, ((i : Int) + 1) = ((i + 1 : Nat) : Int) := fun i => by omega
  constructor
  · intro h i hi
    have := h i (by omega)
    rw [hc, elemAt_nat zero x (i + 1) hi, elemAt_nat zero x i (by omega)] at this
    exact this
  · intro h i hi
    rw [hc, elemAt_nat zero x (i + 1) (by omega), elemAt_nat zero x i (by omega)]
    exact h i (by omega)

end Juniper.Proofs.Helpers
