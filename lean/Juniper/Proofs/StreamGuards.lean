import Juniper.Model.Stream
import Juniper.Proofs.ValueFacts
/-!
# What every method of `stream.go` does with the `(item, err)` pair its source handed it (C08, tie 1)

The machines of `Model/Stream.lean` feed the *code* of what a pull answered (`nil` 0, `End` 1, an
error 2) to the regenerated error guards (`err == End`, `err != nil`) and turn the code of the
regenerated error operand of the `return` that is reached back into an answer (`ret`). The lemmas
here evaluate that for the three kinds of answers — an item, the end, an error `e` — and state the
result in the form the denotation proofs use:

* `…_err`: **the error `e` itself is returned and the method's own state (pending chunk, held item,
  `prev`, counters) is left as it was** — only the inner state moves;
* `…_end`: what the method does at the end of its source;
* `…_item`: the item path.

Each lemma is proved by evaluating the generated definitions: `return item, End` for `return item, err`,
`return out, nil` for `return nil, err`, `err != nil` ↔ `err == End`, a swapped guard order — any such
change of the Go source changes a generated definition and breaks the lemma of that method, and with it
every theorem of `Props/C07–C09` about that method. They are `simp` lemmas.
-/
namespace Juniper.Proofs.StreamDen
open Juniper.Model.Stream Juniper.Gen.Comb Juniper.Proofs.ValueFacts
universe u v w x
variable {σ : Type u} {τ : Type w} {α β : Type v}

/-! ## sources -/

/-- `stream.Empty()` answers the end, whatever the context -/
@[simp] theorem empty_step (u : Unit) (c : Bool) : (empty (α := α)).step u c = (.end_, u) := by
  simp [empty, retE, ret, stEmptyRet]

/-- `stream.Error(e)` answers `e` itself -/
@[simp] theorem error_step (e : Err) (u : Unit) (c : Bool) : (error (α := α) e).step u c = (.err e, u) := by
  simp [error, retE, ret, stErrorRet]

/-- `stream.FromIterator`: an expired context is answered with the context error before the iterator
is touched; otherwise the iterator's answer (its end becomes `End`) -/
theorem fromIterator_step (m : Juniper.Model.Iter.IM σ α) (s : σ) (c : Bool) :
    (fromIterator m).step s c =
      if !c then (.err .ctx, s)
      else match m.step s with
        | (.item a, s') => (.item a, s')
        | (.skip, s') => (.skip, s')
        | (.done, s') => (.end_, s') := by
  cases c
  · simp [fromIterator, retE, ret, stFromIterCtxGuard, stFromIterCtxRet]
  · simp only [fromIterator, stFromIterCtxGuard]
    rcases m.step s with ⟨r, s'⟩
    cases r <;> simp [retE, ret, stFromIterEndGuard, stFromIterEndRet, stFromIterItemRet]

/-- `stream.Chan` under a live context: the next buffered value; the end once the channel is closed and
drained; blocked (`skip`) on an empty open channel -/
theorem chan_step_live (st : ChanSt α) :
    (chan (α := α)).step st true =
      match st.buf with
      | a :: r => (.item a, { st with buf := r })
      | [] => if st.closed then (.end_, st) else (.skip, st) := by
  simp only [chan, stChanArms]
  rcases st with ⟨buf, cl⟩
  cases buf with
  | nil => cases cl <;> simp [retE, ret, stChanEndGuard, stChanEndRet]
  | cons a r => simp [ret, stChanEndGuard, stChanItemRet]

/-- … and under an expired context it answers the context error and touches nothing -/
theorem chan_step_expired (st : ChanSt α) : (chan (α := α)).step st false = (.err .ctx, st) := by
  simp [chan, stChanArms, retE, ret, stChanCtxRet]

/-! ## Peekable -/

@[simp] theorem ret_peekNextItem (x : SStep α) (h : Err) : ret (stPeekNextItemRet 0) x h = x := by
  simp [ret, stPeekNextItemRet]

@[simp] theorem ret_peekItem (k : Int) (x : SStep α) (h : Err) : ret (stPeekItemRet k) x h = x := by
  simp [ret, stPeekItemRet]

@[simp] theorem peekOn_item (s' : σ) (a : α) :
    peekOn s' (.item a) = (.item a, ({ inner := s', curr := if stPeekSetsHas then some a else none } : PeekSt σ α)) := by
  simp [peekOn, SStep.code, stPeekEndGuard, stPeekErrGuard]

@[simp] theorem peekOn_end (s' : σ) : peekOn s' (.end_ : SStep α) = (.end_, ({ inner := s', curr := none } : PeekSt σ α)) := by
  simp [peekOn, SStep.code, retE, ret, stPeekEndGuard, stPeekEndRet]

/-- `Peek` reports the error itself and buffers nothing -/
@[simp] theorem peekOn_err (s' : σ) (e : Err) :
    peekOn s' (.err e : SStep α) = (.err e, ({ inner := s', curr := none } : PeekSt σ α)) := by
  simp [peekOn, SStep.code, SStep.held, retE, ret, stPeekEndGuard, stPeekErrGuard, stPeekErrRet]

/-! ## Chunk -/

@[simp] theorem chunkOn_item (size : Int) (st : ChunkSt σ α) (s' : σ) (a : α) :
    chunkOn size st s' (.item a) =
      (if stChunkFull ((st.pend ++ [a]).length : Int) size then (.item (st.pend ++ [a]), { inner := s', pend := [] })
       else (.skip, { inner := s', pend := st.pend ++ [a] })) := by
  simp [chunkOn, SStep.code, ret, stChunkEndGuard, stChunkErrGuard, stChunkFullRet]

@[simp] theorem chunkOn_end (size : Int) (st : ChunkSt σ α) (s' : σ) :
    chunkOn size st s' .end_ =
      (if stChunkFlush (st.pend.length : Int) then (.item st.pend, { inner := s', pend := [] })
       else (.end_, { st with inner := s' })) := by
  simp [chunkOn, SStep.code, ret, retE, stChunkEndGuard, stChunkFlushRet, stChunkDoneRet]

/-- `Chunk` reports the error itself; the pending chunk stays -/
@[simp] theorem chunkOn_err (size : Int) (st : ChunkSt σ α) (s' : σ) (e : Err) :
    chunkOn size st s' (.err e) = (.err e, { st with inner := s' }) := by
  simp [chunkOn, SStep.code, SStep.held, ret, retE, stChunkEndGuard, stChunkErrGuard, stChunkErrRet]

/-! ## Compact -/

@[simp] theorem compactOn_item (eq : α → α → Bool) (st : CompactSt σ α) (s' : σ) (a : α) :
    compactOn eq st s' (.item a) =
      (let setPrev : Option α := if stCompactSetsPrev ≥ 2 then some a else st.prev
       if st.first then
        (.item a, { inner := s', first := if stCompactClearsFirst then false else true, prev := setPrev })
       else
        match st.prev with
        | some p => if !eq p a then (.item a, { st with inner := s', prev := setPrev })
                    else (.skip, { st with inner := s' })
        | none => (.item a, { st with inner := s', prev := setPrev })) := by
  rcases st with ⟨i, f, p⟩
  cases p <;> simp [compactOn, SStep.code, ret, stCompactErrGuard, stCompactFirstRet, stCompactItemRet]

@[simp] theorem compactOn_end (eq : α → α → Bool) (st : CompactSt σ α) (s' : σ) :
    compactOn eq st s' .end_ = (.end_, { st with inner := s' }) := by
  simp [compactOn, SStep.code, ret, retE, stCompactErrGuard, stCompactErrRet]

/-- `CompactFunc` reports the error itself; `first` / `prev` stay -/
@[simp] theorem compactOn_err (eq : α → α → Bool) (st : CompactSt σ α) (s' : σ) (e : Err) :
    compactOn eq st s' (.err e) = (.err e, { st with inner := s' }) := by
  simp [compactOn, SStep.code, SStep.held, ret, retE, stCompactErrGuard, stCompactErrRet]

/-! ## Filter, Map -/

@[simp] theorem filterOn_item (keep : α → Except Err Bool) (s' : σ) (a : α) :
    filterOn keep s' (.item a) =
      (match keep a with
        | .error e => (.err e, ⟨s'⟩)
        | .ok true => (.item a, ⟨s'⟩)
        | .ok false => (.skip, ⟨s'⟩)) := by
  simp only [filterOn, SStep.code, stFilterErrGuard]
  cases h : keep a with
  | error e => simp [cbCode, retE, ret, stFilterCbGuard, stFilterCbRet]
  | ok b => cases b <;> simp [cbCode, ret, stFilterCbGuard, stFilterItemRet]

@[simp] theorem filterOn_end (keep : α → Except Err Bool) (s' : σ) :
    filterOn keep s' .end_ = (.end_, (⟨s'⟩ : Wrap σ)) := by
  simp [filterOn, SStep.code, ret, retE, stFilterErrGuard, stFilterErrRet]

/-- `Filter` reports the error itself (a callback's error: see `filterOn_item`) -/
@[simp] theorem filterOn_err (keep : α → Except Err Bool) (s' : σ) (e : Err) :
    filterOn keep s' (.err e) = (.err e, (⟨s'⟩ : Wrap σ)) := by
  simp [filterOn, SStep.code, SStep.held, ret, retE, stFilterErrGuard, stFilterErrRet]

@[simp] theorem mapOn_item (f : α → Except Err β) (s' : σ) (a : α) :
    mapOn f s' (.item a) =
      (match f a with
        | .error e => (.err e, ⟨s'⟩)
        | .ok b => (.item b, ⟨s'⟩)) := by
  simp only [mapOn, SStep.code, stMapErrGuard]
  cases h : f a with
  | error e => simp [cbCode, retE, ret, stMapCbGuard, stMapCbRet]
  | ok b => simp [cbCode, ret, stMapCbGuard, stMapItemRet]

@[simp] theorem mapOn_end (f : α → Except Err β) (s' : σ) : mapOn f s' .end_ = (.end_, (⟨s'⟩ : Wrap σ)) := by
  simp [mapOn, SStep.code, ret, retE, stMapErrGuard, stMapErrRet]

/-- `Map` reports the error itself -/
@[simp] theorem mapOn_err (f : α → Except Err β) (s' : σ) (e : Err) :
    mapOn f s' (.err e) = (.err e, (⟨s'⟩ : Wrap σ)) := by
  simp [mapOn, SStep.code, SStep.held, ret, retE, stMapErrGuard, stMapErrRet]

/-! ## First -/

@[simp] theorem retE_firstDone : (retE (stFirstDoneRet 0) .bogus : SStep α) = .end_ := by
  simp [retE, ret, stFirstDoneRet]

@[simp] theorem firstOn_item (st : FirstSt σ) (s' : σ) (a : α) :
    firstOn st s' (.item a) = (.item a, { inner := s', x := if stFirstDecrements then st.x - 1 else st.x }) := by
  simp [firstOn, SStep.code, ret, stFirstErrGuard, stFirstItemRet]

@[simp] theorem firstOn_end (st : FirstSt σ) (s' : σ) :
    firstOn st s' (.end_ : SStep α) = (.end_, { st with inner := s' }) := by
  simp [firstOn, SStep.code, ret, retE, stFirstErrGuard, stFirstErrRet]

/-- `First` reports the error itself and does not count the failed call -/
@[simp] theorem firstOn_err (st : FirstSt σ) (s' : σ) (e : Err) :
    firstOn st s' (.err e : SStep α) = (.err e, { st with inner := s' }) := by
  simp [firstOn, SStep.code, SStep.held, ret, retE, stFirstErrGuard, stFirstErrRet]

/-! ## Flatten, FlattenSlices, Join -/

@[simp] theorem flattenOuterOn_item (st : FlattenSt σ τ) (s' : σ) (x : τ) :
    (flattenOuterOn st s' (.item x) : SStep α × FlattenSt σ τ) = (.skip, { st with outer := s', curr := some x }) := by
  simp [flattenOuterOn, SStep.code, stFlattenOuterErrGuard]

@[simp] theorem flattenOuterOn_end (st : FlattenSt σ τ) (s' : σ) :
    (flattenOuterOn st s' .end_ : SStep α × FlattenSt σ τ) = (.end_, { st with outer := s' }) := by
  simp [flattenOuterOn, SStep.code, ret, retE, stFlattenOuterErrGuard, stFlattenOuterErrRet]

/-- `Flatten` reports an error of the outer stream itself -/
@[simp] theorem flattenOuterOn_err (st : FlattenSt σ τ) (s' : σ) (e : Err) :
    (flattenOuterOn st s' (.err e) : SStep α × FlattenSt σ τ) = (.err e, { st with outer := s' }) := by
  simp [flattenOuterOn, SStep.code, SStep.held, ret, retE, stFlattenOuterErrGuard, stFlattenOuterErrRet]

@[simp] theorem flattenInnerOn_item (mi : SM τ α) (st : FlattenSt σ τ) (x' : τ) (a : α) :
    flattenInnerOn mi st x' (.item a) = (.item a, { st with curr := some x' }) := by
  simp [flattenInnerOn, SStep.code, ret, stFlattenEndGuard, stFlattenErrGuard, stFlattenItemRet]

@[simp] theorem flattenInnerOn_end (mi : SM τ α) (st : FlattenSt σ τ) (x' : τ) :
    flattenInnerOn mi st x' .end_ =
      (let x'' := if stFlattenClosesEnded then mi.close x' else x'
       if stFlattenClearsCurr then (.skip, { st with curr := none, finished := st.finished ++ [x''] })
       else (.skip, { st with curr := some x'' })) := by
  simp [flattenInnerOn, SStep.code, stFlattenEndGuard]

/-- `Flatten` reports an error of the current inner stream itself and keeps that stream -/
@[simp] theorem flattenInnerOn_err (mi : SM τ α) (st : FlattenSt σ τ) (x' : τ) (e : Err) :
    flattenInnerOn mi st x' (.err e) = (.err e, { st with curr := some x' }) := by
  simp [flattenInnerOn, SStep.code, SStep.held, ret, retE, stFlattenEndGuard, stFlattenErrGuard, stFlattenErrRet]

@[simp] theorem ret_flattenSlicesItem (x : SStep α) (h : Err) : ret (stFlattenSlicesItemRet 0) x h = x := by
  simp [ret, stFlattenSlicesItemRet]

@[simp] theorem flattenSlicesOn_item (st : FlattenSlicesSt σ α) (s' : σ) (xs : List α) :
    flattenSlicesOn st s' (.item xs) = (.skip, { inner := s', buffer := xs }) := by
  simp [flattenSlicesOn, SStep.code, stFlattenSlicesErrGuard]

@[simp] theorem flattenSlicesOn_end (st : FlattenSlicesSt σ α) (s' : σ) :
    flattenSlicesOn st s' .end_ = (.end_, { st with inner := s' }) := by
  simp [flattenSlicesOn, SStep.code, ret, retE, stFlattenSlicesErrGuard, stFlattenSlicesErrRet]

/-- `FlattenSlices` reports the error itself -/
@[simp] theorem flattenSlicesOn_err (st : FlattenSlicesSt σ α) (s' : σ) (e : Err) :
    flattenSlicesOn st s' (.err e) = (.err e, { st with inner := s' }) := by
  simp [flattenSlicesOn, SStep.code, SStep.held, ret, retE, stFlattenSlicesErrGuard, stFlattenSlicesErrRet]

@[simp] theorem retE_joinDone : (retE (stJoinDoneRet 0) .bogus : SStep α) = .end_ := by
  simp [retE, ret, stJoinDoneRet]

@[simp] theorem joinOn_item (m : SM σ α) (st : JoinSt σ) (s' : σ) (rest : List σ) (a : α) :
    joinOn m st s' rest (.item a) = (.item a, { st with remaining := s' :: rest }) := by
  simp [joinOn, SStep.code, ret, stJoinEndGuard, stJoinErrGuard, stJoinItemRet]

@[simp] theorem joinOn_end (m : SM σ α) (st : JoinSt σ) (s' : σ) (rest : List σ) :
    joinOn m st s' rest .end_ =
      (let s'' := if stJoinClosesEnded then m.close s' else s'
       if stJoinAdvances then (.skip, { remaining := rest, finished := st.finished ++ [s''] })
       else (.skip, { st with remaining := s'' :: rest })) := by
  simp [joinOn, SStep.code, stJoinEndGuard]

/-- `Join` reports an error of its current argument itself and keeps that argument -/
@[simp] theorem joinOn_err (m : SM σ α) (st : JoinSt σ) (s' : σ) (rest : List σ) (e : Err) :
    joinOn m st s' rest (.err e) = (.err e, { st with remaining := s' :: rest }) := by
  simp [joinOn, SStep.code, SStep.held, ret, retE, stJoinEndGuard, stJoinErrGuard, stJoinErrRet]

/-- `Join` with nothing left (`for len(s.remaining) > 0` not entered): `return zero, End` -/
@[simp] theorem join_step_nil (m : SM σ α) (fin : List σ) (c : Bool) :
    (join m).step ⟨[], fin⟩ c = (.end_, ⟨[], fin⟩) := by
  simp [join]

/-- `Join` with a current argument: one pull of `remaining[0]` -/
theorem join_step_cons (m : SM σ α) (s : σ) (r fin : List σ) (c : Bool) :
    (join m).step ⟨s :: r, fin⟩ c =
      match m.step s c with
      | (.skip, s') => (.skip, ⟨s' :: r, fin⟩)
      | (x, s') => joinOn m ⟨s :: r, fin⟩ s' r x := by
  simp only [join, stJoinLoops_eq, List.length_cons, Nat.zero_lt_succ, decide_true, if_true]
  rcases m.step s c with ⟨x, s'⟩
  cases x <;> rfl

/-- `joinStream.Close` closes every remaining argument (range operand and loop body as in the source) -/
@[simp] theorem joinCloseAll_eq : joinCloseAll = stJoinCloseForwards := by
  simp [joinCloseAll, stJoinCloseRange, stJoinCloseStmt]

/-- `flattenStream.Close` closes the current inner stream whenever there is one -/
@[simp] theorem flattenCloseCurr_eq : flattenCloseCurr = stFlattenCloseCurr := by
  simp [flattenCloseCurr, stFlattenCloseCond]

/-! ## While -/

@[simp] theorem retE_whileDone : (retE (stWhileDoneRet 0) .bogus : SStep α) = .end_ := by
  simp [retE, ret, stWhileDoneRet]

@[simp] theorem whileEval_eq (f : α → Except Err Bool) (st : WhileSt σ α) (a : α) :
    whileEval f st a =
      (match f a with
        | .error e => (.err e, st)
        | .ok false => (.end_, { st with done := if stWhileSetsDone then true else st.done })
        | .ok true => (.item a, { st with held := if stWhileClearsHas then none else st.held })) := by
  simp only [whileEval]
  cases h : f a with
  | error e => simp [cbCode, retE, ret, stWhileCbGuard, stWhileCbRet]
  | ok b => cases b <;> simp [cbCode, retE, ret, stWhileCbGuard, stWhileStopRet, stWhileItemRet]

@[simp] theorem whileOn_item (f : α → Except Err Bool) (st : WhileSt σ α) (s' : σ) (a : α) :
    whileOn f st s' (.item a) = whileEval f { st with inner := s', held := if stWhileSetsHas then some a else none } a := by
  simp [whileOn, SStep.code, stWhileErrGuard]

@[simp] theorem whileOn_end (f : α → Except Err Bool) (st : WhileSt σ α) (s' : σ) :
    whileOn f st s' .end_ = (.end_, { st with inner := s' }) := by
  simp [whileOn, SStep.code, ret, retE, stWhileErrGuard, stWhileErrRet]

/-- `While` reports the error itself; a held item stays held -/
@[simp] theorem whileOn_err (f : α → Except Err Bool) (st : WhileSt σ α) (s' : σ) (e : Err) :
    whileOn f st s' (.err e) = (.err e, { st with inner := s' }) := by
  simp [whileOn, SStep.code, SStep.held, ret, retE, stWhileErrGuard, stWhileErrRet]

/-! ## Runs -/

@[simp] theorem retE_runsInnerDetached : (retE (stRunsInnerDetachedRet 0) .bogus : SStep α) = .end_ := by
  simp [retE, ret, stRunsInnerDetachedRet]

@[simp] theorem runsInnerOn_item (same : α → α → Bool) (m : SM σ α) (st : RunsSt σ α) (g' : Nat) (prev : α)
    (det : Bool) (pk' : PeekSt σ α) (c : Bool) (a : α) :
    runsInnerOn same m st g' prev det pk' c (.item a) =
      (if !same prev a then (.end_, { st with pk := pk' })
       else
        ((peekNext m pk' c).1,
          { st with pk := (peekNext m pk' c).2, live := some (g', if stRunsInnerTracksPrev then a else prev, det) })) := by
  simp only [runsInnerOn, SStep.code, stRunsInnerEndGuard, stRunsInnerErrGuard]
  by_cases h : same prev a = true <;> simp [h, retE, ret, stRunsInnerOtherRet]

@[simp] theorem runsInnerOn_end (same : α → α → Bool) (m : SM σ α) (st : RunsSt σ α) (g' : Nat) (prev : α)
    (det : Bool) (pk' : PeekSt σ α) (c : Bool) :
    runsInnerOn same m st g' prev det pk' c .end_ = (.end_, { st with pk := pk' }) := by
  simp [runsInnerOn, SStep.code, ret, retE, stRunsInnerEndGuard, stRunsInnerEndRet]

/-- an inner stream of `Runs` reports the error itself -/
@[simp] theorem runsInnerOn_err (same : α → α → Bool) (m : SM σ α) (st : RunsSt σ α) (g' : Nat) (prev : α)
    (det : Bool) (pk' : PeekSt σ α) (c : Bool) (e : Err) :
    runsInnerOn same m st g' prev det pk' c (.err e) = (.err e, { st with pk := pk' }) := by
  simp [runsInnerOn, SStep.code, SStep.held, ret, retE, stRunsInnerEndGuard, stRunsInnerErrGuard, stRunsInnerErrRet]

@[simp] theorem runsDrainOn_item (g : Nat) (st' : RunsSt σ α) (a : α) :
    runsDrainOn g st' (.item a) = (.skip, st') := by
  simp [runsDrainOn, SStep.code, stRunsDrainEndGuard, stRunsDrainErrGuard]

@[simp] theorem runsDrainOn_end (g : Nat) (st' : RunsSt σ α) :
    runsDrainOn g st' (.end_ : SStep α) =
      (let st'' := if stRunsClosesCurr then runsInnerClose g st' else st'
       (.skip, { st'' with live := if stRunsClearsCurr then none else st''.live })) := by
  simp [runsDrainOn, SStep.code, stRunsDrainEndGuard]

/-- the outer stream of `Runs`, draining the current run, reports the error itself -/
@[simp] theorem runsDrainOn_err (g : Nat) (st' : RunsSt σ α) (e : Err) :
    runsDrainOn g st' (.err e : SStep α) = (.err e, st') := by
  simp [runsDrainOn, SStep.code, SStep.held, ret, retE, stRunsDrainEndGuard, stRunsDrainErrGuard, stRunsDrainErrRet]

@[simp] theorem runsPeekOn_item (st : RunsSt σ α) (pk' : PeekSt σ α) (a : α) :
    runsPeekOn st pk' (.item a) =
      (.item (st.gen + 1), { pk := pk', gen := st.gen + 1, live := some (st.gen + 1, a, false) }) := by
  simp [runsPeekOn, SStep.code, ret, stRunsPeekErrGuard, stRunsItemRet]

@[simp] theorem runsPeekOn_end (st : RunsSt σ α) (pk' : PeekSt σ α) :
    runsPeekOn st pk' (.end_ : SStep α) = (.end_, { st with pk := pk' }) := by
  simp [runsPeekOn, SStep.code, ret, retE, stRunsPeekErrGuard, stRunsPeekErrRet]

/-- the outer stream of `Runs`, looking for the next run, reports the error itself -/
@[simp] theorem runsPeekOn_err (st : RunsSt σ α) (pk' : PeekSt σ α) (e : Err) :
    runsPeekOn st pk' (.err e : SStep α) = (.err e, { st with pk := pk' }) := by
  simp [runsPeekOn, SStep.code, SStep.held, ret, retE, stRunsPeekErrGuard, stRunsPeekErrRet]

/-! ## reducers -/

/-- the error guards / returned operands of a reducer's read loop are those of
`if err == End { return acc, nil } else if err != nil { return …, err }` and, when the callback can fail
(`cf`), of `if err != nil { return acc, err }` after it -/
structure _root_.Juniper.Model.Stream.RGuards.Canon (g : RGuards) (cf : Bool) : Prop where
  endNil : g.endG 0 = false
  endEnd : g.endG 1 = true
  endErr : g.endG 2 = false
  endRet : g.endR 1 = 0
  errNil : g.errG 0 = false
  errErr : g.errG 2 = true
  errRet : g.errR 2 = 2
  cbNil : g.cbG 0 = false
  cbErr : cf = true → g.cbG 2 = true ∧ g.cbR 2 = 2

/-- `stream.Reduce` returns `acc, nil` at the end and the error itself otherwise (also the callback's) -/
theorem reduceG_canon : reduceG.Canon true := by
  constructor <;> simp [reduceG, stReduceEndGuard, stReduceEndRet, stReduceErrGuard, stReduceErrRet, stReduceCbGuard, stReduceCbRet]

/-- `stream.Collect` returns `out, nil` at the end and the error itself otherwise -/
theorem collectG_canon : collectG.Canon false := by
  constructor <;> simp [collectG, stCollectEndGuard, stCollectEndRet, stCollectErrGuard, stCollectErrRet]

/-- `xrand.rSampleStream` leaves its loop at the end (and returns `out, nil`) and returns the error itself otherwise -/
theorem sampleG_canon : sampleG.Canon false := by
  constructor <;> simp [sampleG, sampleEndGuard, sampleRet, sampleErrGuard, sampleErrRet]

theorem reduceLoop_succ {γ : Type x} {g : RGuards} {cf : Bool} (hg : g.Canon cf) (m : SM σ α) (f : γ → α → Except Err γ)
    (hf : cf = false → ∀ acc a, ∃ b, f acc a = .ok b) (c : Bool) (fuel : Nat) (acc : γ) (s : σ) :
    reduceLoop g m f c (fuel + 1) acc s = match m.step s c with
      | (.item a, s') => (match f acc a with
          | .error e => (.error e, s')
          | .ok acc' => reduceLoop g m f c fuel acc' s')
      | (.skip, s') => reduceLoop g m f c fuel acc s'
      | (.end_, s') => (.ok acc, s')
      | (.err e, s') => (.error e, s') := by
  rw [reduceLoop]
  rcases m.step s c with ⟨r, s'⟩
  cases r with
  | skip => rfl
  | end_ => simp [SStep.code, rret, hg.endEnd, hg.endRet]
  | err e => simp [SStep.code, SStep.held, rret, hg.endErr, hg.errErr, hg.errRet]
  | item a =>
    simp only [SStep.code, hg.endNil, hg.errNil]
    cases hfa : f acc a with
    | ok b => simp [cbCode, hg.cbNil]
    | error e =>
      cases cf with
      | false => obtain ⟨b, hb⟩ := hf rfl acc a; rw [hb] at hfa; cases hfa
      | true => simp [cbCode, rret, (hg.cbErr rfl).1, (hg.cbErr rfl).2]

/-- the read loop of `stream.Last`: `err == End` → `break`; `err != nil` → `return nil, err` -/
theorem lastLoop_succ (m : SM σ α) (n : Int) (c : Bool) (fuel : Nat) (buf : List (Option α)) (i : Int) (s : σ) :
    lastLoop m n c (fuel + 1) buf i s = match m.step s c with
      | (.item a, s') =>
        (match lastStore buf i n a with
        | none => (.panic, s')
        | some buf' => lastLoop m n c fuel buf' (if stLastCounts then i + 1 else i) s')
      | (.skip, s') => lastLoop m n c fuel buf i s'
      | (.end_, s') => (.ok (buf, i), s')
      | (.err e, s') => (.error e, s') := by
  rw [lastLoop]
  rcases m.step s c with ⟨r, s'⟩
  cases r with
  | item a =>
    simp only [SStep.code, stLastEndGuard, stLastErrGuard]
    cases lastStore buf i n a <;> simp
  | skip => rfl
  | end_ => simp [SStep.code, stLastEndGuard]
  | err e => simp [SStep.code, SStep.held, rret, stLastEndGuard, stLastErrGuard, stLastErrRet]

@[simp] theorem rret_lastShort {ρ : Type x} (v : ROut ρ) (h : Err) : rret (stLastShortRet 0) v h = v := by
  simp [rret, stLastShortRet]

@[simp] theorem rret_last {ρ : Type x} (v : ROut ρ) (h : Err) : rret (stLastRet 0) v h = v := by
  simp [rret, stLastRet]

/-- `stream.One` after its first `Next`: `ErrEmpty` at the end, the error itself, or go on with the item -/
@[simp] theorem oneFirst_item (a : α) : oneFirst (.item a) = none := by
  simp [oneFirst, SStep.code, stOneEmptyGuard, stOneErr1Guard]
@[simp] theorem oneFirst_end : oneFirst (.end_ : SStep α) = some (.error .empty) := by
  simp [oneFirst, SStep.code, rret, stOneEmptyGuard, stOneEmptyRet]
@[simp] theorem oneFirst_err (e : Err) : oneFirst (.err e : SStep α) = some (.error e) := by
  simp [oneFirst, SStep.code, SStep.held, rret, stOneEmptyGuard, stOneErr1Guard, stOneErr1Ret]

/-- … and after its second: the item at the end, the error itself, `ErrMoreThanOne` -/
@[simp] theorem oneSecond_item (x a : α) : oneSecond x (.item a) = .error .moreThanOne := by
  simp [oneSecond, SStep.code, rret, stOneOkGuard, stOneErr2Guard, stOneMoreRet]
@[simp] theorem oneSecond_end (x : α) : oneSecond x .end_ = .ok x := by
  simp [oneSecond, SStep.code, rret, stOneOkGuard, stOneOkRet]
@[simp] theorem oneSecond_err (x : α) (e : Err) : oneSecond x (.err e) = .error e := by
  simp [oneSecond, SStep.code, SStep.held, rret, stOneOkGuard, stOneErr2Guard, stOneErr2Ret]

/-- `stream.One`, spelled out: `ErrEmpty` / the first error itself / the only item / the second error
itself / `ErrMoreThanOne`; the deferred `Close` runs on every path -/
theorem one_eq (m : SM σ α) (c : Bool) (fuel : Nat) (s : σ) :
    one m c fuel s =
      (let (r, s') : ROut α × σ :=
        match drive m c fuel s with
        | (none, s') => (.fuel, s')
        | (some (.end_), s') => (.error .empty, s')
        | (some (.err e), s') => (.error e, s')
        | (some .skip, s') => (.fuel, s')
        | (some (.item x), s') =>
          match drive m c fuel s' with
          | (none, s'') => (.fuel, s'')
          | (some (.end_), s'') => (.ok x, s'')
          | (some (.err e), s'') => (.error e, s'')
          | (some .skip, s'') => (.fuel, s'')
          | (some (.item _), s'') => (.error .moreThanOne, s'')
      (r, deferClose stOneDefersClose m s')) := by
  unfold one
  rcases drive m c fuel s with ⟨r, s1⟩
  cases r with
  | none => rfl
  | some r =>
    cases r with
    | skip => rfl
    | end_ => simp
    | err e => simp
    | item x =>
      simp only [oneFirst_item]
      rcases drive m c fuel s1 with ⟨r2, s2⟩
      cases r2 with
      | none => rfl
      | some r2 => cases r2 <;> simp

end Juniper.Proofs.StreamDen
