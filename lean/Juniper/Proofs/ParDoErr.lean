import Juniper.Proofs.ParDoState
/-! Inductive invariants of the `parallel.Do` / `DoContext` LTS, part 3: error provenance — whatever
errgroup records, a worker returns or the call returns is an error that a call of `f` returned or the
caller's own context error; never the cancellation the errgroup caused itself. -/
set_option linter.unusedSimpArgs false
set_option linter.unusedVariables false

namespace Juniper.Proofs.ParDo
open Juniper.Gen Juniper.Model.ParDo

/-- an error that a call of `f` returned, or the caller's context error after the caller cancelled -/
def good (s : St) (e : Err) : Prop :=
  (∃ k i, e = .f k ∧ (i, Res.err k) ∈ s.ended) ∨ (e = .ctxCaller ∧ s.callerCancelled = true)

/-- error provenance -/
structure Inv3 (cfg : Cfg) (s : St) : Prop where
  E1 : ∀ e, s.egErr = some e → good s e
  E2 : ∀ e, Pc.retErr e ∈ s.ws → good s e ∨ (e = .ctxLib ∧ s.egErr ≠ none)
  E3 : ∀ e, s.ret = some (some e) → good s e

theorem inv3_init (cfg : Cfg) : Inv3 cfg (init cfg) := by
  unfold init
  split <;> refine ⟨?_, ?_, ?_⟩ <;> simp [good]
  split <;> simp

theorem mem_set_cases {α} {l : List α} {w : Nat} {a x : α} (h : x ∈ l.set w a) : x = a ∨ x ∈ l := by
  rcases List.mem_or_eq_of_mem_set h with h | h
  · exact Or.inr h
  · exact Or.inl h

theorem cause_err_cases (c : Cause) : (c = .caller ∧ c.err = .ctxCaller) ∨ (c = .lib ∧ c.err = .ctxLib) := by
  cases c <;> simp [Cause.err]

syntax "inv3_worker " ident ident ident : tactic
macro_rules
  | `(tactic| inv3_worker $i1:ident $i2:ident $i3:ident) =>
    `(tactic| (
       have hw := ‹_[_]? = some _›
       have hmem := List.mem_of_getElem? hw
       refine ⟨?_, ?_, ?_⟩
       · intro e he; have := $i1 e; simp [good, Option.isSome_iff_ne_none] at * <;> grind [cause_err_cases]
       · intro e he; have := $i2 e
         rcases mem_set_cases he with h | h <;> simp [good, Option.isSome_iff_ne_none] at * <;> grind [cause_err_cases]
       · intro e he; have := $i3 e; simp [good, Option.isSome_iff_ne_none] at * <;> grind [cause_err_cases]))

theorem inv3_step {cfg : Cfg} {s s' : St} {l : Label} (h2 : Inv2 cfg s) (hi : Inv3 cfg s)
    (h : step cfg s l = some s') : Inv3 cfg s' := by
  have ⟨i1, i2, i3⟩ := hi
  have ⟨iD, iM, iS, iG, iR, iE⟩ := h2
  cases l with
  | fetch w => pardo_cases h => inv3_worker i1 i2 i3
  | check w => pardo_cases h => inv3_worker i1 i2 i3
  | begin w => pardo_cases h => inv3_worker i1 i2 i3
  | fEnd w r => pardo_cases h => inv3_worker i1 i2 i3
  | egDone w => pardo_cases h => inv3_worker i1 i2 i3
  | callerCancel =>
    pardo_cases h =>
      (refine ⟨?_, ?_, ?_⟩
       · intro e he; have := i1 e; simp [good] at * <;> grind
       · intro e he; have := i2 e; simp [good] at * <;> grind
       · intro e he; have := i3 e; simp [good] at * <;> grind)
  | ret =>
    pardo_cases h =>
      (refine ⟨?_, ?_, ?_⟩
       · intro e he; have := i1 e; simp [good] at * <;> grind
       · intro e he; have := i2 e; simp [good, *] at * <;> grind
       · intro e he; have := i3 e; have := i1 e; have := i2 e; simp [good, *] at * <;> grind)


theorem inv3 {cfg : Cfg} (hs : cfg.code.Sound) {s : St} (h : Reach cfg s) : Inv3 cfg s := by
  induction h with
  | init => exact inv3_init cfg
  | step hr hstep ih => exact inv3_step (inv2 hs hr) ih hstep

end Juniper.Proofs.ParDo
