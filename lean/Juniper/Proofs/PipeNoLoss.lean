import Juniper.Proofs.PipeInv
/-!
No loss before close, and stickiness of the end once the pipe is quiet — both need that `Next`
drains the data channel before it reports (`Gen.Pipe.nextDrains` and the drain select's arm table).
-/
namespace Juniper.Proofs.Pipe
open Juniper.Facts Juniper.Gen.Pipe Juniper.Model.Pipe

/-- The facts about the regenerated `pipeStream.Next` that the drain argument needs. -/
structure DrainFacts : Prop where
  drains : nextDrains = true
  popArm : nextDrainArms.contains (.recv chData) = true
  noEndArm : nextDrainArms.contains (.recv chSenderDone) = false

/-- The end was reported only after the sender's `Close`, and everything acknowledged before that
`Close` had been delivered by then. -/
def NoLoss (st : State) : Prop :=
  st.endReported = true → st.senderDone = true ∧ ∀ m ∈ st.ackedBC, m ∈ st.delivered

/-- The step reports the end only out of the drain's `default`, with an empty buffer. -/
theorem report_only_when_drained {st st' : State} {l : Label} (hD : DrainFacts)
    (hs : step st l = some st') (hrep : reportsEnd st l = true) :
    l = .recv .dflt ∧ st.rpc = .drain ∧ st.buf = [] ∧ rDefaultReady st = true ∧ st' = reportEnd st := by
  cases l with
  | recv a =>
    obtain ⟨htab, hcase⟩ := step_recv hs
    rcases hcase with ⟨m, rest, rfl, _, _⟩ | ⟨rfl, _, hn, hdr, _⟩ | ⟨rfl, _, hnot, _⟩ | ⟨ch, rfl, h1, h2, _⟩ | ⟨rfl, hrpc, hready, rfl⟩
    · simp [reportsEnd, chData, chSenderDone] at hrep
    · simp [reportsEnd, hn, hdr] at hrep
    · exfalso
      have hne : st.rpc.isNext = false := by simpa [hD.drains] using hnot
      cases hrpc : st.rpc with
      | idle => simp [hrpc, rtableOf] at htab
      | next p => simp [hrpc, RPc.isNext] at hne
      | drain =>
        rw [hrpc] at htab
        simp only [rtableOf] at htab
        rw [hD.noEndArm] at htab
        exact Bool.false_ne_true htab
    · simp [reportsEnd] at hrep
      exact absurd hrep.1 h2
    · refine ⟨rfl, hrpc, ?_, hready, rfl⟩
      have hall : (rtableOf st.rpc).all (fun a => !rReady st a) = true := by
        simp only [rDefaultReady, Bool.and_eq_true] at hready
        exact hready.1
      rw [hrpc] at hall
      simp only [rtableOf] at hall
      have hmem : Arm.recv chData ∈ nextDrainArms := by simpa using hD.popArm
      have := List.all_eq_true.mp hall _ hmem
      simp [rReady, chData, chCtx, chSenderDone] at this
      exact this
  | _ => simp [reportsEnd] at hrep

/-- Every step either reports the end or leaves `endReported` alone. -/
theorem endReported_step {st st' : State} {l : Label} (hs : step st l = some st') :
    st'.endReported = st.endReported ∨ (reportsEnd st l = true ∧ st'.endReported = true) := by
  cases l with
  | startSend i v c =>
    obtain ⟨sd, _, _, rfl⟩ := step_startCall (by simpa [step] using hs); exact Or.inl rfl
  | startTry i v c =>
    obtain ⟨sd, _, _, rfl⟩ := step_startCall (by simpa [step] using hs); exact Or.inl rfl
  | startNext c =>
    simp only [step] at hs; split at hs
    · simp at hs; subst hs; exact Or.inl rfl
    · simp at hs
  | cancelSender i => obtain ⟨sd, _, rfl⟩ := step_cancelSender hs; exact Or.inl rfl
  | cancelNext =>
    simp only [step] at hs; split at hs
    · simp at hs
    · simp at hs; subst hs; exact Or.inl rfl
  | closeSender e =>
    simp only [step] at hs; split at hs
    · simp at hs
    · simp at hs; subst hs; exact Or.inl rfl
  | closeRecv =>
    simp only [step] at hs; split at hs
    · simp at hs; subst hs; exact Or.inl rfl
    · simp at hs
  | sender i a =>
    obtain ⟨sd, m, _, _, _, hcase⟩ := step_sender hs
    rcases hcase with ⟨rfl, _⟩ | ⟨ch, rfl, _, rfl⟩ <;> exact Or.inl rfl
  | handoff i => obtain ⟨sd, m, _, _, _, rfl⟩ := step_handoff hs; exact Or.inl rfl
  | park i => obtain ⟨sd, m, _, _, _, rfl⟩ := step_park hs; exact Or.inl rfl
  | parkRecv => obtain ⟨_, _, rfl⟩ := step_parkRecv hs; exact Or.inl rfl
  | recv a =>
    obtain ⟨_, hcase⟩ := step_recv hs
    rcases hcase with ⟨m, rest, _, _, rfl⟩ | ⟨_, _, _, _, rfl⟩ | ⟨rfl, _, hnot, rfl⟩ | ⟨ch, _, _, _, rfl⟩ | ⟨rfl, _, _, rfl⟩
    · exact Or.inl rfl
    · exact Or.inl rfl
    · refine Or.inr ⟨?_, rfl⟩
      simp [reportsEnd, chSenderDone, hnot]
    · exact Or.inl rfl
    · exact Or.inr ⟨rfl, rfl⟩

/-- `ackedBC` only grows, and not at all once the sender is closed; `delivered` only grows;
`senderDone` is never reset. -/
theorem monotone_step {st st' : State} {l : Label} (hs : step st l = some st') :
    (st.senderDone = true → st'.senderDone = true ∧ st'.ackedBC = st.ackedBC ∧ st'.senderErr = st.senderErr) ∧
    (∀ m ∈ st.delivered, m ∈ st'.delivered) := by
  cases l with
  | startSend i v c =>
    obtain ⟨sd, _, _, rfl⟩ := step_startCall (by simpa [step] using hs)
    exact ⟨fun h => ⟨h, rfl, rfl⟩, fun m hm => hm⟩
  | startTry i v c =>
    obtain ⟨sd, _, _, rfl⟩ := step_startCall (by simpa [step] using hs)
    exact ⟨fun h => ⟨h, rfl, rfl⟩, fun m hm => hm⟩
  | startNext c =>
    simp only [step] at hs; split at hs
    · simp at hs; subst hs; exact ⟨fun h => ⟨h, rfl, rfl⟩, fun m hm => hm⟩
    · simp at hs
  | cancelSender i =>
    obtain ⟨sd, _, rfl⟩ := step_cancelSender hs
    exact ⟨fun h => ⟨h, rfl, rfl⟩, fun m hm => hm⟩
  | cancelNext =>
    simp only [step] at hs; split at hs
    · simp at hs
    · simp at hs; subst hs; exact ⟨fun h => ⟨h, rfl, rfl⟩, fun m hm => hm⟩
  | closeSender e =>
    simp only [step] at hs; split at hs
    · simp at hs
    · rename_i hn
      simp at hs; subst hs
      exact ⟨fun h => absurd h hn, fun m hm => hm⟩
  | closeRecv =>
    simp only [step] at hs; split at hs
    · simp at hs; subst hs; exact ⟨fun h => ⟨h, rfl, rfl⟩, fun m hm => hm⟩
    · simp at hs
  | sender i a =>
    obtain ⟨sd, m, _, _, _, hcase⟩ := step_sender hs
    rcases hcase with ⟨rfl, _⟩ | ⟨ch, rfl, _, rfl⟩
    · exact ⟨fun h => ⟨h, rfl, rfl⟩, fun m hm => hm⟩
    · refine ⟨fun h => ⟨h, ?_, rfl⟩, fun m hm => hm⟩
      simp [commit, State.setSender, h]
  | handoff i =>
    obtain ⟨sd, m, _, _, _, rfl⟩ := step_handoff hs
    refine ⟨fun h => ⟨h, ?_, rfl⟩, fun x hx => ?_⟩
    · simp [commit, State.setSender, h]
    · show x ∈ st.delivered ++ [m]
      simp [hx]
  | park i =>
    obtain ⟨sd, m, _, _, _, rfl⟩ := step_park hs
    exact ⟨fun h => ⟨h, rfl, rfl⟩, fun m hm => hm⟩
  | parkRecv =>
    obtain ⟨_, _, rfl⟩ := step_parkRecv hs
    exact ⟨fun h => ⟨h, rfl, rfl⟩, fun m hm => hm⟩
  | recv a =>
    obtain ⟨_, hcase⟩ := step_recv hs
    rcases hcase with ⟨m, rest, _, _, rfl⟩ | ⟨_, _, _, _, rfl⟩ | ⟨_, _, _, rfl⟩ | ⟨ch, _, _, _, rfl⟩ | ⟨_, _, _, rfl⟩
    · exact ⟨fun h => ⟨h, rfl, rfl⟩, fun x hx => by show x ∈ st.delivered ++ [m]; simp [hx]⟩
    · exact ⟨fun h => ⟨h, rfl, rfl⟩, fun m hm => hm⟩
    · exact ⟨fun h => ⟨h, rfl, rfl⟩, fun m hm => hm⟩
    · exact ⟨fun h => ⟨h, rfl, rfl⟩, fun m hm => hm⟩
    · exact ⟨fun h => ⟨h, rfl, rfl⟩, fun m hm => hm⟩

theorem noLoss_step {st st' : State} {l : Label} (hD : DrainFacts) (hI : Inv st) (h : NoLoss st)
    (hs : step st l = some st') : NoLoss st' := by
  intro hend
  obtain ⟨hmono, hdel⟩ := monotone_step hs
  rcases endReported_step hs with heq | ⟨hrep, _⟩
  · rw [heq] at hend
    obtain ⟨hsd, hall⟩ := h hend
    obtain ⟨hsd', hack, _⟩ := hmono hsd
    exact ⟨hsd', fun m hm => hdel m (hall m (by rwa [hack] at hm))⟩
  · obtain ⟨rfl, hrpc, hbuf, _, rfl⟩ := report_only_when_drained hD hs hrep
    have hsd := hI.drain hrpc
    refine ⟨hsd, fun m hm => ?_⟩
    rcases hI.held m hm with h1 | h1
    · exact h1
    · rw [hbuf] at h1; simp at h1

theorem noLoss_reach {n b : Nat} {st : State} (hT1 : noSendArm trySendArms1 = true) (hD : DrainFacts)
    (hr : Reach (init n b) st) : NoLoss st := by
  induction hr with
  | refl => intro h; simp [init] at h
  | step hr' hs ih => exact noLoss_step hD (inv_reach hT1 hr') ih hs

/-! ### Stickiness -/

/-- No `Send`/`TrySend` is in flight. -/
def Quiet (st : State) : Prop := ∀ sd ∈ st.senders, sd.pc = .idle

instance (st : State) : Decidable (Quiet st) := by unfold Quiet; infer_instance

/-- The sender is closed, the channel is empty and no call of a sender is in flight: nothing can
reach the receiver any more. -/
def Settled (st : State) : Prop := st.senderDone = true ∧ st.buf = [] ∧ Quiet st

def startsSend : Label → Bool
  | .startSend .. | .startTry .. => true
  | _ => false

theorem quiet_no_sender_step {st : State} {i : Nat} {sd : Sender} (hq : Quiet st)
    (hsd : st.senders[i]? = some sd) : sd.pc.msg? = none := by
  have : sd ∈ st.senders := List.mem_of_getElem? hsd
  rw [hq sd this]; rfl

/-- In a settled state no step hands a value to the receiver. -/
theorem settled_no_delivery {st : State} {l : Label} (h : Settled st) (hl : deliversValue l = true) :
    step st l = none := by
  obtain ⟨_, hbuf, hq⟩ := h
  cases hst : step st l with
  | none => rfl
  | some st' =>
    exfalso
    cases l with
    | handoff i =>
      obtain ⟨sd, m, hsd, hm, _, _⟩ := step_handoff hst
      rw [quiet_no_sender_step hq hsd] at hm
      simp at hm
    | recv a =>
      obtain ⟨_, hcase⟩ := step_recv hst
      rcases hcase with ⟨m, rest, _, hb, _⟩ | ⟨rfl, _⟩ | ⟨rfl, _⟩ | ⟨ch, rfl, hne, _⟩ | ⟨rfl, _⟩
      · rw [hbuf] at hb; simp at hb
      · simp [deliversValue, chData, chSenderDone] at hl
      · simp [deliversValue, chData, chSenderDone] at hl
      · simp [deliversValue] at hl; exact hne hl
      · simp [deliversValue] at hl
    | _ => simp [deliversValue] at hl

/-- A settled state stays settled as long as no new `Send`/`TrySend` is started, and it keeps
reporting the same thing. -/
theorem settled_step {st st' : State} {l : Label} (h : Settled st) (hl : startsSend l = false)
    (hs : step st l = some st') : Settled st' ∧ st'.senderErr = st.senderErr := by
  obtain ⟨hsd, hbuf, hq⟩ := h
  cases l with
  | startSend i v c => simp [startsSend] at hl
  | startTry i v c => simp [startsSend] at hl
  | startNext c =>
    simp only [step] at hs; split at hs
    · simp at hs; subst hs; exact ⟨⟨hsd, hbuf, hq⟩, rfl⟩
    · simp at hs
  | cancelSender i =>
    exfalso
    simp only [step] at hs
    split at hs
    · simp at hs
    · rename_i sd hsdi
      have : sd ∈ st.senders := List.mem_of_getElem? hsdi
      simp [hq sd this] at hs
  | cancelNext =>
    simp only [step] at hs; split at hs
    · simp at hs
    · simp at hs; subst hs; exact ⟨⟨hsd, hbuf, hq⟩, rfl⟩
  | closeSender e =>
    simp only [step] at hs; split at hs
    · simp at hs
    · rename_i hn; exact absurd hsd hn
  | closeRecv =>
    simp only [step] at hs; split at hs
    · simp at hs; subst hs; exact ⟨⟨hsd, hbuf, hq⟩, rfl⟩
    · simp at hs
  | sender i a =>
    exfalso
    obtain ⟨sd, m, hsdi, hm, _⟩ := step_sender hs
    rw [quiet_no_sender_step hq hsdi] at hm; simp at hm
  | handoff i =>
    exfalso
    obtain ⟨sd, m, hsdi, hm, _⟩ := step_handoff hs
    rw [quiet_no_sender_step hq hsdi] at hm; simp at hm
  | park i =>
    exfalso
    obtain ⟨sd, m, hsdi, hpc, _⟩ := step_park hs
    have := quiet_no_sender_step hq hsdi
    simp [hpc, SPc.msg?] at this
  | parkRecv =>
    obtain ⟨_, _, rfl⟩ := step_parkRecv hs
    exact ⟨⟨hsd, hbuf, hq⟩, rfl⟩
  | recv a =>
    obtain ⟨_, hcase⟩ := step_recv hs
    rcases hcase with ⟨m, rest, _, hb, _⟩ | ⟨_, _, _, _, rfl⟩ | ⟨_, _, _, rfl⟩ | ⟨ch, _, _, _, rfl⟩ | ⟨_, _, _, rfl⟩
    · rw [hbuf] at hb; simp at hb
    · exact ⟨⟨hsd, hbuf, hq⟩, rfl⟩
    · exact ⟨⟨hsd, hbuf, hq⟩, rfl⟩
    · exact ⟨⟨hsd, hbuf, hq⟩, rfl⟩
    · exact ⟨⟨hsd, hbuf, hq⟩, rfl⟩

/-- Reporting the end while no send is in flight leaves the pipe settled. -/
theorem settled_of_quiet_report {st st' : State} {l : Label} (hD : DrainFacts) (hI : Inv st)
    (hq : Quiet st) (hs : step st l = some st') (hrep : reportsEnd st l = true) : Settled st' := by
  obtain ⟨rfl, hrpc, hbuf, _, rfl⟩ := report_only_when_drained hD hs hrep
  exact ⟨hI.drain hrpc, hbuf, hq⟩

theorem settled_run {st st' : State} {ls : List Label} (h : Settled st)
    (hl : ∀ l ∈ ls, startsSend l = false) (hr : run st ls = some st') :
    Settled st' ∧ st'.senderErr = st.senderErr := by
  induction ls generalizing st with
  | nil => simp [run] at hr; subst hr; exact ⟨h, rfl⟩
  | cons l ls ih =>
    simp only [run] at hr
    split at hr
    · simp at hr
    · rename_i s1 hs1
      obtain ⟨h1, he1⟩ := settled_step h (hl l (by simp)) hs1
      obtain ⟨h2, he2⟩ := ih h1 (fun x hx => hl x (by simp [hx])) hr
      exact ⟨h2, he2.trans he1⟩

end Juniper.Proofs.Pipe
