import Juniper.Proofs.TreeHistory
import Juniper.Proofs.TreeSlotsOpsHeap
/-!
# Linking the two B-tree models (C03): the abstraction relation

`Model/BTree.lean` is a labelled functional tree (`Node.mk id kvs kids`), `Model/BTreeSlotsOps.lean` a
heap of slot-level nodes with parent pointers. `Sub g p x` says that the store `g` (a partial function
from node identities to slot-level nodes) contains the functional subtree `x` hanging below parent
pointer `p`: the node object `x.id` is there, its three arrays represent (`NodeRep`) exactly the
entries of `x` and the identities of the children of `x`, its parent pointer is `p`, and the same holds
recursively for the children (with parent pointer `x.id`).

This file: the relation, its frame / re-parenting lemmas, identity counting for forests, and the
store-level description of `List.set` / append.
-/
namespace Juniper.Proofs.TreeHeapLink
open Juniper Juniper.Model.BTree Juniper.Model.BTreeSlotsOps Juniper.Proofs.Tree Juniper.Proofs.TreeSlotsOps

variable {K V : Type}

/-- a store: node identity ↦ node object (`none` = never allocated or unlinked) -/
abbrev Store (K V : Type) := Nat → Option (SNode K V Nat)

/-- `c.parent = p` -/
def withParent (p : Option Nat) (y : SNode K V Nat) : SNode K V Nat := { y with parent := p }

@[simp] theorem withParent_parent (p : Option Nat) (y : SNode K V Nat) : (withParent p y).parent = p := rfl
@[simp] theorem withParent_n (p : Option Nat) (y : SNode K V Nat) : (withParent p y).n = y.n := rfl
@[simp] theorem withParent_keys (p : Option Nat) (y : SNode K V Nat) : (withParent p y).keys = y.keys := rfl
@[simp] theorem withParent_vals (p : Option Nat) (y : SNode K V Nat) : (withParent p y).vals = y.vals := rfl
@[simp] theorem withParent_kids (p : Option Nat) (y : SNode K V Nat) : (withParent p y).kids = y.kids := rfl
@[simp] theorem withParent_withParent (p q : Option Nat) (y : SNode K V Nat) :
    withParent p (withParent q y) = withParent p y := rfl

theorem nodeRep_withParent {p : Option Nat} {y : SNode K V Nat} {kvs : List (K × V)} {kids : List Nat}
    (h : NodeRep y kvs kids) : NodeRep (withParent p y) kvs kids :=
  ⟨h.hn, h.hkeys, h.hvals, h.hkids, h.hshape⟩

/-- the functional subtree `x` is in the store `g`, below parent pointer `p` -/
def Sub (g : Store K V) : Option Nat → Node K V → Prop
  | p, .mk id kvs kids =>
    ∃ sx, g id = some sx ∧ sx.parent = p ∧ NodeRep sx kvs (kids.map Node.id) ∧ ∀ c ∈ kids, Sub g (some id) c
termination_by _ x => sizeOf x
decreasing_by
  have := List.sizeOf_lt_of_mem ‹c ∈ kids›
  simp only [Node.mk.sizeOf_spec]
  omega

theorem sub_mk {g : Store K V} {p : Option Nat} {id : Nat} {kvs : List (K × V)} {kids : List (Node K V)} :
    Sub g p (.mk id kvs kids) ↔
      ∃ sx, g id = some sx ∧ sx.parent = p ∧ NodeRep sx kvs (kids.map Node.id) ∧ ∀ c ∈ kids, Sub g (some id) c := by
  rw [Sub]

/-! ## identity counting -/

theorem cnt_self (x : Node K V) : 0 < cnt x.id x := by
  obtain ⟨id, kvs, kids⟩ := x
  rw [cnt_mk]; simp [Node.id]; omega

theorem cnt_le_cntK {kids : List (Node K V)} {c : Node K V} (hc : c ∈ kids) (i : Nat) : cnt i c ≤ cntK i kids := by
  induction kids with
  | nil => cases hc
  | cons d ds ih =>
    rw [cntK_cons]
    rcases List.mem_cons.mp hc with rfl | hc
    · omega
    · have := ih hc; omega

/-- two different members of a forest occupy different positions -/
theorem cnt_pair_le {kids : List (Node K V)} {c d : Node K V} (hc : c ∈ kids) (hd : d ∈ kids) (hne : c ≠ d) (i : Nat) :
    cnt i c + cnt i d ≤ cntK i kids := by
  induction kids with
  | nil => cases hc
  | cons e es ih =>
    rw [cntK_cons]
    rcases List.mem_cons.mp hc with hce | hc'
    · rcases List.mem_cons.mp hd with hde | hd'
      · exact absurd (hce.trans hde.symm) hne
      · have := cnt_le_cntK hd' i; subst hce; omega
    · rcases List.mem_cons.mp hd with hde | hd'
      · have := cnt_le_cntK hc' i; subst hde; omega
      · have := ih hc' hd'; omega

/-- in a forest without repeated identities, an identity strictly inside one tree is not the root
identity of any tree of the forest -/
theorem forest_strict {kids : List (Node K V)} (hnd : ∀ i, cntK i kids ≤ 1) {c d : Node K V}
    (hc : c ∈ kids) (hd : d ∈ kids) {j : Nat} (hj : 0 < cnt j c) (hne : j ≠ c.id) : d.id ≠ j := by
  intro he
  by_cases hcd : c = d
  · subst hcd; exact hne he.symm
  · have h1 := cnt_pair_le hc hd hcd j
    have h2 := cnt_self d
    rw [he] at h2
    have := hnd j
    omega

/-- the identities of the children are pairwise distinct -/
theorem kids_ids_nodup {kids : List (Node K V)} (hnd : ∀ i, cntK i kids ≤ 1) : (kids.map Node.id).Nodup := by
  induction kids with
  | nil => simp
  | cons c cs ih =>
    have hcs : ∀ i, cntK i cs ≤ 1 := by
      intro i; have := hnd i; rw [cntK_cons] at this; omega
    simp only [List.map_cons, List.nodup_cons]
    refine ⟨?_, ih hcs⟩
    intro hm
    obtain ⟨d, hd, hdc⟩ := List.mem_map.mp hm
    have h1 := cnt_self c
    have h2 := cnt_self d
    rw [hdc] at h2
    have h3 := cnt_le_cntK hd c.id
    have := hnd c.id
    rw [cntK_cons] at this
    omega

theorem cnt_child_le {id : Nat} {kvs : List (K × V)} {kids : List (Node K V)} {c : Node K V} (hc : c ∈ kids) (i : Nat) :
    cnt i c ≤ cnt i (.mk id kvs kids) := by
  rw [cnt_mk]; have := cnt_le_cntK hc i; omega

/-! ## frame and re-parenting -/

/-- `Sub` only looks at the identities of the subtree -/
theorem Sub.congr {g g' : Store K V} : ∀ (x : Node K V) {p : Option Nat},
    (∀ j, 0 < cnt j x → g' j = g j) → Sub g p x → Sub g' p x := by
  intro x
  induction x using node_induct with
  | h id kvs kids ih =>
    intro p hfr hs
    obtain ⟨sx, h1, h2, h3, h4⟩ := sub_mk.mp hs
    refine sub_mk.mpr ⟨sx, ?_, h2, h3, ?_⟩
    · rw [hfr id (by rw [cnt_mk]; simp; omega)]; exact h1
    · intro c hc
      exact ih c hc (fun j hj => hfr j (by have := cnt_child_le (id := id) (kvs := kvs) hc j; omega)) (h4 c hc)

/-- the root object of a subtree -/
theorem Sub.root {g : Store K V} {p : Option Nat} {x : Node K V} (h : Sub g p x) :
    ∃ sx, g x.id = some sx ∧ sx.parent = p ∧ NodeRep sx x.kvs (x.kids.map Node.id) := by
  obtain ⟨id, kvs, kids⟩ := x
  obtain ⟨sx, h1, h2, h3, _⟩ := sub_mk.mp h
  exact ⟨sx, h1, h2, h3⟩

/-- every identity of the subtree is allocated -/
theorem Sub.present {g : Store K V} : ∀ (x : Node K V) {p : Option Nat}, Sub g p x → ∀ j, 0 < cnt j x → (g j).isSome := by
  intro x
  induction x using node_induct with
  | h id kvs kids ih =>
    intro p hs j hj
    obtain ⟨sx, h1, h2, h3, h4⟩ := sub_mk.mp hs
    by_cases hid : id = j
    · subst hid; simp [h1]
    · rw [cnt_mk] at hj
      simp only [hid, if_false, Nat.zero_add] at hj
      -- `j` occurs below one of the children
      have : ∃ c ∈ kids, 0 < cnt j c := by
        clear h3 h4 ih hs
        induction kids with
        | nil => simp at hj
        | cons c cs ihc =>
          rw [cntK_cons] at hj
          by_cases hc : 0 < cnt j c
          · exact ⟨c, List.mem_cons_self, hc⟩
          · obtain ⟨d, hd, hdj⟩ := ihc (by omega)
            exact ⟨d, List.mem_cons_of_mem _ hd, hdj⟩
      obtain ⟨c, hc, hcj⟩ := this
      exact ih c hc (h4 c hc) j hcj

/-- the root object gets another parent pointer, everything else of the subtree stays -/
theorem Sub.reparent {g g' : Store K V} {q q' : Option Nat} {x : Node K V} (hs : Sub g q x)
    (hnd : cnt x.id x ≤ 1)
    (hroot : g' x.id = (g x.id).map (withParent q'))
    (hrest : ∀ j, 0 < cnt j x → j ≠ x.id → g' j = g j) : Sub g' q' x := by
  obtain ⟨id, kvs, kids⟩ := x
  obtain ⟨sx, h1, h2, h3, h4⟩ := sub_mk.mp hs
  simp only [Node.id] at hroot hrest hnd
  refine sub_mk.mpr ⟨withParent q' sx, by rw [hroot, h1]; rfl, rfl, nodeRep_withParent h3, ?_⟩
  intro c hc
  refine Sub.congr c (fun j hj => ?_) (h4 c hc)
  have hle := cnt_child_le (id := id) (kvs := kvs) hc j
  by_cases hji : j = id
  · subst hji
    have h5 := cnt_le_cntK hc j
    rw [cnt_mk] at hnd
    simp at hnd
    omega
  · exact hrest j (by omega) hji

end Juniper.Proofs.TreeHeapLink
