-- PINNED expectations, written by `gofacts -pin` (see notes/pins.md). Committed. Re-pinning is a deliberate act of
-- whoever changed the Go code or a model, after reviewing that the model still mirrors the code: never part of a check.

namespace Juniper.Pinned.Cond

/-- `ContextCond.Broadcast` in `xsync`: signature and full statement list, locals renamed positionally -/
def pin_xsync_ContextCond_Broadcast : List String := ["func (r *ContextCond) Broadcast()",
  "r.m.Lock()",
  "close(r.ch)",
  "r.ch = make(chan struct{}, 1)",
  "r.m.Unlock()"]

/-- `ContextCond.Signal` in `xsync`: signature and full statement list, locals renamed positionally -/
def pin_xsync_ContextCond_Signal : List String := ["func (r *ContextCond) Signal()",
  "r.m.RLock()",
  "select {",
  "case r.ch <- struct{}{}:",
  "default:",
  "}",
  "r.m.RUnlock()"]

/-- `ContextCond.Wait` in `xsync`: signature and full statement list, locals renamed positionally -/
def pin_xsync_ContextCond_Wait : List String := ["func (r *ContextCond) Wait(p0 context.Context) error",
  "r.m.RLock()",
  "v0 := r.ch",
  "r.m.RUnlock()",
  "r.L.Unlock()",
  "select {",
  "case <-p0.Done():",
  "return p0.Err()",
  "case <-v0:",
  "r.L.Lock()",
  "}",
  "return nil"]

/-- `NewContextCond` in `xsync`: signature and full statement list, locals renamed positionally -/
def pin_xsync_NewContextCond : List String := ["func NewContextCond(p0 sync.Locker) *ContextCond",
  "return &ContextCond{L: p0, ch: make(chan struct{}, 1)}"]

/-- type `ContextCond` of `xsync`: one line per field / method -/
def pin_xsync_type_ContextCond : List String := ["type ContextCond struct",
  "m sync.RWMutex",
  "ch chan struct{}",
  "L sync.Locker"]

/-- type `Future` of `xsync`: one line per field / method -/
def pin_xsync_type_Future : List String := ["type Future[T any] struct",
  "c chan struct{}",
  "x T"]

/-- type `Group` of `xsync`: one line per field / method -/
def pin_xsync_type_Group : List String := ["type Group struct",
  "ctx context.Context",
  "cancel context.CancelFunc",
  "m sync.RWMutex",
  "wg sync.WaitGroup"]

/-- type `Map` of `xsync`: one line per field / method -/
def pin_xsync_type_Map : List String := ["type Map[K comparable, V any] struct",
  "m sync.Map"]

/-- type `Pool` of `xsync`: one line per field / method -/
def pin_xsync_type_Pool : List String := ["type Pool[T any] struct",
  "p sync.Pool"]

/-- type `Watchable` of `xsync`: one line per field / method -/
def pin_xsync_type_Watchable : List String := ["type Watchable[T any] struct",
  "p atomic.Pointer[watchableInner[T]]"]

/-- type `watchableInner` of `xsync`: one line per field / method -/
def pin_xsync_type_watchableInner : List String := ["type watchableInner[T any] struct",
  "t T",
  "c chan struct{}"]

/-- package-level var / const declarations of `xsync`, in source order -/
def pin_xsync_vars : List String := []

end Juniper.Pinned.Cond
