-- PINNED expectations, written by `gofacts -pin` (see notes/pins.md). Committed. Re-pinning is a deliberate act of
-- whoever changed the Go code or a model, after reviewing that the model still mirrors the code: never part of a check.

namespace Juniper.Pinned.Tree

/-- `Map.Contains` in `container/tree`: signature and full statement list, locals renamed positionally -/
def pin_container_tree_Map_Contains : List String := ["func (r Map[K, V]) Contains(p0 K) bool",
  "return r.t.Contains(p0)"]

/-- `Map.Delete` in `container/tree`: signature and full statement list, locals renamed positionally -/
def pin_container_tree_Map_Delete : List String := ["func (r Map[K, V]) Delete(p0 K)",
  "r.t.Delete(p0)"]

/-- `Map.First` in `container/tree`: signature and full statement list, locals renamed positionally -/
def pin_container_tree_Map_First : List String := ["func (r Map[K, V]) First() (K, V)",
  "return r.t.First()"]

/-- `Map.Get` in `container/tree`: signature and full statement list, locals renamed positionally -/
def pin_container_tree_Map_Get : List String := ["func (r Map[K, V]) Get(p0 K) V",
  "return r.t.Get(p0)"]

/-- `Map.Iterate` in `container/tree`: signature and full statement list, locals renamed positionally -/
def pin_container_tree_Map_Iterate : List String := ["func (r Map[K, V]) Iterate() iterator.Iterator[KVPair[K, V]]",
  "return r.Range(Unbounded[K](), Unbounded[K]())"]

/-- `Map.Last` in `container/tree`: signature and full statement list, locals renamed positionally -/
def pin_container_tree_Map_Last : List String := ["func (r Map[K, V]) Last() (K, V)",
  "return r.t.Last()"]

/-- `Map.Len` in `container/tree`: signature and full statement list, locals renamed positionally -/
def pin_container_tree_Map_Len : List String := ["func (r Map[K, V]) Len() int",
  "return r.t.size"]

/-- `Map.Put` in `container/tree`: signature and full statement list, locals renamed positionally -/
def pin_container_tree_Map_Put : List String := ["func (r Map[K, V]) Put(p0 K, p1 V)",
  "r.t.Put(p0, p1)"]

/-- `Map.Range` in `container/tree`: signature and full statement list, locals renamed positionally -/
def pin_container_tree_Map_Range : List String := ["func (r Map[K, V]) Range(p0 Bound[K], p1 Bound[K]) iterator.Iterator[KVPair[K, V]]",
  "return r.t.Range(p0, p1)"]

/-- `Map.RangeReverse` in `container/tree`: signature and full statement list, locals renamed positionally -/
def pin_container_tree_Map_RangeReverse : List String := ["func (r Map[K, V]) RangeReverse(p0 Bound[K], p1 Bound[K]) iterator.Iterator[KVPair[K, V]]",
  "return r.t.RangeReverse(p0, p1)"]

/-- `NewMap` in `container/tree`: signature and full statement list, locals renamed positionally -/
def pin_container_tree_NewMap : List String := ["func NewMap[T0 any, T1 any](p0 xsort.Less[T0]) Map[T0, T1]",
  "return Map[T0, T1]{t: newBtree[T0, T1](xsort.LessCompare(p0))}"]

/-- `NewMapCmp` in `container/tree`: signature and full statement list, locals renamed positionally -/
def pin_container_tree_NewMapCmp : List String := ["func NewMapCmp[T0 any, T1 any](p0 func(T0, T0) int) Map[T0, T1]",
  "return Map[T0, T1]{t: newBtree[T0, T1](p0)}"]

/-- `NewSet` in `container/tree`: signature and full statement list, locals renamed positionally -/
def pin_container_tree_NewSet : List String := ["func NewSet[T0 any](p0 xsort.Less[T0]) Set[T0]",
  "return Set[T0]{t: newBtree[T0, struct{}](xsort.LessCompare(p0))}"]

/-- `NewSetCmp` in `container/tree`: signature and full statement list, locals renamed positionally -/
def pin_container_tree_NewSetCmp : List String := ["func NewSetCmp[T0 any](p0 func(T0, T0) int) Set[T0]",
  "return Set[T0]{t: newBtree[T0, struct{}](p0)}"]

/-- `Set.Add` in `container/tree`: signature and full statement list, locals renamed positionally -/
def pin_container_tree_Set_Add : List String := ["func (r Set[T]) Add(p0 T)",
  "r.t.Put(p0, struct{}{})"]

/-- `Set.Contains` in `container/tree`: signature and full statement list, locals renamed positionally -/
def pin_container_tree_Set_Contains : List String := ["func (r Set[T]) Contains(p0 T) bool",
  "return r.t.Contains(p0)"]

/-- `Set.First` in `container/tree`: signature and full statement list, locals renamed positionally -/
def pin_container_tree_Set_First : List String := ["func (r Set[T]) First() T",
  "v0, _ := r.t.First()",
  "return v0"]

/-- `Set.Iterate` in `container/tree`: signature and full statement list, locals renamed positionally -/
def pin_container_tree_Set_Iterate : List String := ["func (r Set[T]) Iterate() iterator.Iterator[T]",
  "return r.Range(Unbounded[T](), Unbounded[T]())"]

/-- `Set.Last` in `container/tree`: signature and full statement list, locals renamed positionally -/
def pin_container_tree_Set_Last : List String := ["func (r Set[T]) Last() T",
  "v0, _ := r.t.Last()",
  "return v0"]

/-- `Set.Len` in `container/tree`: signature and full statement list, locals renamed positionally -/
def pin_container_tree_Set_Len : List String := ["func (r Set[T]) Len() int",
  "return r.t.size"]

/-- `Set.Range` in `container/tree`: signature and full statement list, locals renamed positionally -/
def pin_container_tree_Set_Range : List String := ["func (r Set[T]) Range(p0 Bound[T], p1 Bound[T]) iterator.Iterator[T]",
  "return iterator.Map(r.t.Range(p0, p1), func(v0 KVPair[T, struct{}]) T { })",
  "func#0 {",
  "return v0.Key",
  "}"]

/-- `Set.RangeReverse` in `container/tree`: signature and full statement list, locals renamed positionally -/
def pin_container_tree_Set_RangeReverse : List String := ["func (r Set[T]) RangeReverse(p0 Bound[T], p1 Bound[T]) iterator.Iterator[T]",
  "return iterator.Map(r.t.RangeReverse(p0, p1), func(v0 KVPair[T, struct{}]) T { })",
  "func#0 {",
  "return v0.Key",
  "}"]

/-- `Set.Remove` in `container/tree`: signature and full statement list, locals renamed positionally -/
def pin_container_tree_Set_Remove : List String := ["func (r Set[T]) Remove(p0 T)",
  "r.t.Delete(p0)"]

/-- `Unbounded` in `container/tree`: signature and full statement list, locals renamed positionally -/
def pin_container_tree_Unbounded : List String := ["func Unbounded[T0 any]() Bound[T0]",
  "return Bound[T0]{type_: boundUnbounded}"]

/-- `amalgam1.Child` in `container/tree`: signature and full statement list, locals renamed positionally -/
def pin_container_tree_amalgam1_Child : List String := ["func (r *amalgam1[K, V]) Child(p0 int) *node[K, V]",
  "if p0 == r.extraIdx+1 {",
  "return r.extraChild",
  "} else {",
  "if p0 > r.extraIdx+1 {",
  "p0--",
  "}",
  "}",
  "return r.children[p0]"]

/-- `amalgam1.Len` in `container/tree`: signature and full statement list, locals renamed positionally -/
def pin_container_tree_amalgam1_Len : List String := ["func (r *amalgam1[K, V]) Len() int",
  "return maxKVs + 1"]

/-- `backwardIterator.Next` in `container/tree`: signature and full statement list, locals renamed positionally -/
def pin_container_tree_backwardIterator_Next : List String := ["func (r *backwardIterator[K, V]) Next() (KVPair[K, V], bool)",
  "var v0 KVPair[K, V]",
  "if r.done {",
  "return v0, false",
  "}",
  "if r.c.lost() {",
  "r.c.SeekLastLessOrEqual(r.c.Key())",
  "}",
  "if r.c.curr == nil {",
  "return v0, false",
  "}",
  "v1 := r.c.Key()",
  "if r.inRange != nil && !r.inRange(v1) {",
  "r.done = true",
  "return v0, false",
  "}",
  "v2 := r.c.valueUnchecked()",
  "r.c.Prev()",
  "return KVPair[K, V]{v1, v2}, true"]

/-- `btree.Cursor` in `container/tree`: signature and full statement list, locals renamed positionally -/
def pin_container_tree_btree_Cursor : List String := ["func (r *btree[K, V]) Cursor() cursor[K, V]",
  "v0 := cursor[K, V]{t: r}",
  "return v0"]

/-- `btree.Delete` in `container/tree`: signature and full statement list, locals renamed positionally -/
def pin_container_tree_btree_Delete : List String := ["func (r *btree[K, V]) Delete(p0 K)",
  "v0 := r.root",
  "var v1 int",
  "for {",
  "var v2 bool",
  "v1, v2 = r.searchNode(p0, v0)",
  "if v2 {",
  "break",
  "}",
  "if v0.leaf() {",
  "return",
  "}",
  "v0 = v0.children[v1]",
  "}",
  "r.size--",
  "r.gen++",
  "var v3 *node[K, V]",
  "if v0.leaf() {",
  "removeOne(v0.keys[:int(v0.n)], v1)",
  "removeOne(v0.values[:int(v0.n)], v1)",
  "v0.n--",
  "if v0.n >= minKVs || r.steal(v0) {",
  "return",
  "}",
  "v3 = v0",
  "} else {",
  "var v4 K",
  "var v5 V",
  "v4, v5, v3 = r.removeRightmost(v0.children[v1])",
  "v0.keys[v1] = v4",
  "v0.values[v1] = v5",
  "if v3 == nil || r.steal(v3) {",
  "return",
  "}",
  "}",
  "if v3 != r.root {",
  "r.merge(v3)",
  "}"]

/-- `btree.First` in `container/tree`: signature and full statement list, locals renamed positionally -/
def pin_container_tree_btree_First : List String := ["func (r *btree[K, V]) First() (K, V)",
  "if r.root.n == 0 {",
  "var v0 K",
  "var v1 V",
  "return v0, v1",
  "}",
  "v2 := leftmostLeaf(r.root)",
  "return v2.keys[0], v2.values[0]"]

/-- `btree.Last` in `container/tree`: signature and full statement list, locals renamed positionally -/
def pin_container_tree_btree_Last : List String := ["func (r *btree[K, V]) Last() (K, V)",
  "if r.root.n == 0 {",
  "var v0 K",
  "var v1 V",
  "return v0, v1",
  "}",
  "v2 := rightmostLeaf(r.root)",
  "return v2.keys[int(v2.n)-1], v2.values[int(v2.n)-1]"]

/-- `btree.Put` in `container/tree`: signature and full statement list, locals renamed positionally -/
def pin_container_tree_btree_Put : List String := ["func (r *btree[K, V]) Put(p0 K, p1 V)",
  "v0 := r.root",
  "for {",
  "v1, v2 := r.searchNode(p0, v0)",
  "if v2 {",
  "v0.values[v1] = p1",
  "return",
  "}",
  "if v0.leaf() {",
  "break",
  "}",
  "v0 = v0.children[v1]",
  "}",
  "if !v0.full() {",
  "r.insertIntoLeaf(v0, p0, p1)",
  "} else {",
  "r.overfill(v0, p0, p1, nil)",
  "}",
  "r.gen++",
  "r.size++"]

/-- `btree.Range` in `container/tree`: signature and full statement list, locals renamed positionally -/
def pin_container_tree_btree_Range : List String := ["func (r *btree[K, V]) Range(p0 Bound[K], p1 Bound[K]) iterator.Iterator[KVPair[K, V]]",
  "v0 := r.Cursor()",
  "switch p0.type_ {",
  "case boundUnbounded:",
  "v0.SeekFirst()",
  "case boundInclude:",
  "v0.SeekFirstGreaterOrEqual(p0.key)",
  "case boundExclude:",
  "v0.SeekFirstGreater(p0.key)",
  "default:",
  "panic(\"unknown bound\")",
  "}",
  "switch p1.type_ {",
  "case boundInclude:",
  "return v0.ForwardWhile(func(v1 K) bool { })",
  "func#0 {",
  "return r.compare(v1, p1.key) <= 0",
  "}",
  "case boundExclude:",
  "return v0.ForwardWhile(func(v2 K) bool { })",
  "func#0 {",
  "return r.compare(v2, p1.key) < 0",
  "}",
  "case boundUnbounded:",
  "return v0.Forward()",
  "default:",
  "panic(\"unknown bound\")",
  "}"]

/-- `btree.RangeReverse` in `container/tree`: signature and full statement list, locals renamed positionally -/
def pin_container_tree_btree_RangeReverse : List String := ["func (r *btree[K, V]) RangeReverse(p0 Bound[K], p1 Bound[K]) iterator.Iterator[KVPair[K, V]]",
  "v0 := r.Cursor()",
  "switch p1.type_ {",
  "case boundInclude:",
  "v0.SeekLastLessOrEqual(p1.key)",
  "case boundExclude:",
  "v0.SeekLastLess(p1.key)",
  "case boundUnbounded:",
  "v0.SeekLast()",
  "default:",
  "panic(\"unknown bound\")",
  "}",
  "switch p0.type_ {",
  "case boundInclude:",
  "return v0.BackwardWhile(func(v1 K) bool { })",
  "func#0 {",
  "return r.compare(v1, p0.key) >= 0",
  "}",
  "case boundExclude:",
  "return v0.BackwardWhile(func(v2 K) bool { })",
  "func#0 {",
  "return r.compare(v2, p0.key) > 0",
  "}",
  "case boundUnbounded:",
  "return v0.Backward()",
  "default:",
  "panic(\"unknown bound\")",
  "}"]

/-- `btree.insertIntoLeaf` in `container/tree`: signature and full statement list, locals renamed positionally -/
def pin_container_tree_btree_insertIntoLeaf : List String := ["func (r *btree[K, V]) insertIntoLeaf(p0 *node[K, V], p1 K, p2 V)",
  "v0 := 0",
  "for v0 < int(p0.n) {",
  "if r.compare(p1, p0.keys[v0]) < 0 {",
  "break",
  "}",
  "v0++",
  "}",
  "insertOne(p0.keys[:int(p0.n)+1], v0, p1)",
  "insertOne(p0.values[:int(p0.n)+1], v0, p2)",
  "p0.n++"]

/-- `btree.merge` in `container/tree`: signature and full statement list, locals renamed positionally -/
def pin_container_tree_btree_merge : List String := ["func (r *btree[K, V]) merge(p0 *node[K, V])",
  "v0, v1 := r.siblings(p0)",
  "if v0 != nil && v0.n <= minKVs {",
  "r.mergeTwo(v0, p0)",
  "} else {",
  "r.mergeTwo(p0, v1)",
  "}"]

/-- `btree.mergeTwo` in `container/tree`: signature and full statement list, locals renamed positionally -/
def pin_container_tree_btree_mergeTwo : List String := ["func (r *btree[K, V]) mergeTwo(p0, p1 *node[K, V])",
  "v0 := p0.parent",
  "v1 := xslices.Index(v0.children[:], p0)",
  "v2 := v0.keys[v1]",
  "v3 := v0.values[v1]",
  "p0.keys[int(p0.n)] = v2",
  "copy(p0.keys[int(p0.n)+1:], p1.keys[:int(p1.n)])",
  "p0.values[int(p0.n)] = v3",
  "copy(p0.values[int(p0.n)+1:], p1.values[:int(p1.n)])",
  "copy(p0.children[int(p0.n)+1:], p1.children[:int(p1.n)+1])",
  "if !p1.leaf() {",
  "for v4 := 0; v4 < int(p1.n)+1; v4++ {",
  "p1.children[v4].parent = p0",
  "}",
  "}",
  "p0.n += p1.n + 1",
  "removeOne(v0.keys[:int(v0.n)], v1)",
  "removeOne(v0.values[:int(v0.n)], v1)",
  "removeOne(v0.children[:int(v0.n)+1], v1+1)",
  "v0.n--",
  "p1.n = 0",
  "if v0 == r.root {",
  "if v0.n == 0 {",
  "r.root = p0",
  "p0.parent = nil",
  "}",
  "} else {",
  "if v0.n < minKVs && !r.steal(v0) {",
  "r.merge(v0)",
  "}",
  "}"]

/-- `btree.overfill` in `container/tree`: signature and full statement list, locals renamed positionally -/
def pin_container_tree_btree_overfill : List String := ["func (r *btree[K, V]) overfill(p0 *node[K, V], p1 K, p2 V, p3 *node[K, V])",
  "for {",
  "v0 := newAmalgam1(r.compare, &p0.keys, &p0.values, &p0.children, p1, p2, p3)",
  "v1 := p0",
  "v2 := &node[K, V]{}",
  "v3 := p0.leaf()",
  "v4 := v0.Len() / 2",
  "v5 := v0.Key(v4)",
  "v6 := v0.Value(v4)",
  "v2.n = int8(v0.Len() - v4 - 1)",
  "for v7 := 0; v7 < int(v2.n); v7++ {",
  "v2.keys[v7] = v0.Key(v4 + 1 + v7)",
  "v2.values[v7] = v0.Value(v4 + 1 + v7)",
  "}",
  "if !v3 {",
  "for v8 := 0; v8 < int(v2.n)+1; v8++ {",
  "v2.children[v8] = v0.Child(v4 + 1 + v8)",
  "v2.children[v8].parent = v2",
  "}",
  "}",
  "v1.n = int8(v4)",
  "for v9 := int(v1.n) - 1; v9 >= 0; v9-- {",
  "v1.keys[v9] = v0.Key(v9)",
  "v1.values[v9] = v0.Value(v9)",
  "}",
  "if !v3 {",
  "for v10 := int(v1.n); v10 >= 0; v10-- {",
  "v1.children[v10] = v0.Child(v10)",
  "v1.children[v10].parent = v1",
  "}",
  "}",
  "xslices.Clear(v1.keys[int(v1.n):])",
  "xslices.Clear(v1.values[int(v1.n):])",
  "xslices.Clear(v1.children[int(v1.n)+1:])",
  "if p0 == r.root {",
  "v11 := &node[K, V]{}",
  "v11.keys[0], v11.values[0] = v5, v6",
  "v11.n = 1",
  "v11.children[0] = v1",
  "v1.parent = v11",
  "v11.children[1] = v2",
  "v2.parent = v11",
  "r.root = v11",
  "return",
  "}",
  "v12 := v1.parent",
  "if !v12.full() {",
  "v13 := xslices.Index(v12.children[:], v1)",
  "insertOne(v12.keys[:int(v12.n)+1], v13, v5)",
  "insertOne(v12.values[:int(v12.n)+1], v13, v6)",
  "insertOne(v12.children[:int(v12.n)+2], v13+1, v2)",
  "v2.parent = v12",
  "v12.n++",
  "return",
  "}",
  "p0 = v12",
  "p1 = v5",
  "p2 = v6",
  "p3 = v2",
  "}"]

/-- `btree.removeRightmost` in `container/tree`: signature and full statement list, locals renamed positionally -/
def pin_container_tree_btree_removeRightmost : List String := ["func (r *btree[K, V]) removeRightmost(p0 *node[K, V]) (K, V, *node[K, V])",
  "v0 := rightmostLeaf(p0)",
  "v1 := v0.keys[int(v0.n)-1]",
  "v2 := v0.values[int(v0.n)-1]",
  "var v3 K",
  "v0.keys[int(v0.n)-1] = v3",
  "var v4 V",
  "v0.values[int(v0.n)-1] = v4",
  "v0.n--",
  "var v5 *node[K, V]",
  "if v0.n < minKVs {",
  "v5 = v0",
  "}",
  "return v1, v2, v5"]

/-- `btree.rotateLeft` in `container/tree`: signature and full statement list, locals renamed positionally -/
def pin_container_tree_btree_rotateLeft : List String := ["func (r *btree[K, V]) rotateLeft(p0 *node[K, V], p1 *node[K, V])",
  "v0 := xslices.Index(p1.parent.children[:], p1)",
  "v1 := p1.parent.keys[v0-1]",
  "v2 := p1.parent.values[v0-1]",
  "v3 := p1.children[0]",
  "p1.parent.keys[v0-1] = p1.keys[0]",
  "p1.parent.values[v0-1] = p1.values[0]",
  "removeOne(p1.keys[:], 0)",
  "removeOne(p1.values[:], 0)",
  "removeOne(p1.children[:], 0)",
  "p1.n--",
  "p0.keys[p0.n] = v1",
  "p0.values[p0.n] = v2",
  "p0.children[p0.n+1] = v3",
  "if v3 != nil {",
  "v3.parent = p0",
  "}",
  "p0.n++"]

/-- `btree.rotateRight` in `container/tree`: signature and full statement list, locals renamed positionally -/
def pin_container_tree_btree_rotateRight : List String := ["func (r *btree[K, V]) rotateRight(p0 *node[K, V], p1 *node[K, V])",
  "v0 := xslices.Index(p0.parent.children[:], p0)",
  "v1 := p0.parent.keys[v0]",
  "v2 := p0.parent.values[v0]",
  "v3 := p0.children[p0.n]",
  "p0.parent.keys[v0] = p0.keys[p0.n-1]",
  "p0.parent.values[v0] = p0.values[p0.n-1]",
  "var v4 K",
  "p0.keys[p0.n-1] = v4",
  "var v5 V",
  "p0.values[p0.n-1] = v5",
  "p0.children[p0.n] = nil",
  "p0.n--",
  "insertOne(p1.keys[:], 0, v1)",
  "insertOne(p1.values[:], 0, v2)",
  "insertOne(p1.children[:], 0, v3)",
  "if v3 != nil {",
  "v3.parent = p1",
  "}",
  "p1.n++"]

/-- `btree.searchNode` in `container/tree`: signature and full statement list, locals renamed positionally -/
def pin_container_tree_btree_searchNode : List String := ["func (r *btree[K, V]) searchNode(p0 K, p1 *node[K, V]) (o0 int, o1 bool)",
  "for v0 := 0; v0 < int(p1.n); v0++ {",
  "v1 := r.compare(p0, p1.keys[v0])",
  "if v1 < 0 {",
  "return v0, false",
  "} else {",
  "if v1 == 0 {",
  "return v0, true",
  "}",
  "}",
  "}",
  "return int(p1.n), false"]

/-- `btree.siblings` in `container/tree`: signature and full statement list, locals renamed positionally -/
def pin_container_tree_btree_siblings : List String := ["func (r *btree[K, V]) siblings(p0 *node[K, V]) (*node[K, V], *node[K, V])",
  "if p0.parent == nil {",
  "return nil, nil",
  "}",
  "v0 := xslices.Index(p0.parent.children[:], p0)",
  "var v1, v2 *node[K, V]",
  "if v0 > 0 {",
  "v1 = p0.parent.children[v0-1]",
  "}",
  "if v0 < int(p0.parent.n) {",
  "v2 = p0.parent.children[v0+1]",
  "}",
  "return v1, v2"]

/-- `btree.steal` in `container/tree`: signature and full statement list, locals renamed positionally -/
def pin_container_tree_btree_steal : List String := ["func (r *btree[K, V]) steal(p0 *node[K, V]) bool",
  "v0, v1 := r.siblings(p0)",
  "if v1 != nil && v1.n > minKVs {",
  "r.rotateLeft(p0, v1)",
  "return true",
  "}",
  "if v0 != nil && v0.n > minKVs {",
  "r.rotateRight(v0, p0)",
  "return true",
  "}",
  "return false"]

/-- `cursor.Backward` in `container/tree`: signature and full statement list, locals renamed positionally -/
def pin_container_tree_cursor_Backward : List String := ["func (r *cursor[K, V]) Backward() iterator.Iterator[KVPair[K, V]]",
  "return &backwardIterator[K, V]{c: *r}"]

/-- `cursor.BackwardWhile` in `container/tree`: signature and full statement list, locals renamed positionally -/
def pin_container_tree_cursor_BackwardWhile : List String := ["func (r *cursor[K, V]) BackwardWhile(p0 func(K) bool) iterator.Iterator[KVPair[K, V]]",
  "return &backwardIterator[K, V]{c: *r, inRange: p0}"]

/-- `cursor.Forward` in `container/tree`: signature and full statement list, locals renamed positionally -/
def pin_container_tree_cursor_Forward : List String := ["func (r *cursor[K, V]) Forward() iterator.Iterator[KVPair[K, V]]",
  "return &forwardIterator[K, V]{c: *r}"]

/-- `cursor.ForwardWhile` in `container/tree`: signature and full statement list, locals renamed positionally -/
def pin_container_tree_cursor_ForwardWhile : List String := ["func (r *cursor[K, V]) ForwardWhile(p0 func(K) bool) iterator.Iterator[KVPair[K, V]]",
  "return &forwardIterator[K, V]{c: *r, inRange: p0}"]

/-- `cursor.Next` in `container/tree`: signature and full statement list, locals renamed positionally -/
def pin_container_tree_cursor_Next : List String := ["func (r *cursor[K, V]) Next()",
  "if r.lost() {",
  "r.SeekFirstGreater(r.k)",
  "return",
  "}",
  "if r.curr == nil {",
  "return",
  "}",
  "if r.curr.leaf() {",
  "r.i++",
  "if r.i < int(r.curr.n) {",
  "r.k = r.curr.keys[r.i]",
  "return",
  "}",
  "} else {",
  "if r.i < int(r.curr.n) {",
  "r.curr = leftmostLeaf(r.curr.children[r.i+1])",
  "r.i = 0",
  "r.k = r.curr.keys[r.i]",
  "return",
  "}",
  "}",
  "for {",
  "if r.curr.parent == nil {",
  "r.curr = nil",
  "return",
  "}",
  "v0 := xslices.Index(r.curr.parent.children[:], r.curr)",
  "r.curr = r.curr.parent",
  "r.i = v0",
  "if r.i < int(r.curr.n) {",
  "r.k = r.curr.keys[r.i]",
  "break",
  "}",
  "}"]

/-- `cursor.Prev` in `container/tree`: signature and full statement list, locals renamed positionally -/
def pin_container_tree_cursor_Prev : List String := ["func (r *cursor[K, V]) Prev()",
  "if r.lost() {",
  "r.SeekLastLess(r.k)",
  "return",
  "}",
  "if r.curr == nil {",
  "return",
  "}",
  "if r.curr.leaf() {",
  "r.i--",
  "if r.i >= 0 {",
  "r.k = r.curr.keys[r.i]",
  "return",
  "}",
  "} else {",
  "if r.i >= 0 {",
  "r.curr = rightmostLeaf(r.curr.children[r.i])",
  "r.i = int(r.curr.n) - 1",
  "r.k = r.curr.keys[r.i]",
  "return",
  "}",
  "}",
  "for {",
  "if r.curr.parent == nil {",
  "r.curr = nil",
  "return",
  "}",
  "v0 := xslices.Index(r.curr.parent.children[:], r.curr)",
  "r.curr = r.curr.parent",
  "r.i = v0 - 1",
  "if r.i >= 0 {",
  "r.k = r.curr.keys[r.i]",
  "break",
  "}",
  "}"]

/-- `cursor.SeekFirst` in `container/tree`: signature and full statement list, locals renamed positionally -/
def pin_container_tree_cursor_SeekFirst : List String := ["func (r *cursor[K, V]) SeekFirst()",
  "if r.t.root.n == 0 {",
  "r.curr = nil",
  "return",
  "}",
  "r.curr = leftmostLeaf(r.t.root)",
  "r.i = 0",
  "r.k = r.curr.keys[r.i]",
  "r.gen = r.t.gen"]

/-- `cursor.SeekFirstGreater` in `container/tree`: signature and full statement list, locals renamed positionally -/
def pin_container_tree_cursor_SeekFirstGreater : List String := ["func (r *cursor[K, V]) SeekFirstGreater(p0 K)",
  "if !r.seek(p0) {",
  "return",
  "}",
  "if r.t.compare(p0, r.k) >= 0 {",
  "r.Next()",
  "}"]

/-- `cursor.SeekFirstGreaterOrEqual` in `container/tree`: signature and full statement list, locals renamed positionally -/
def pin_container_tree_cursor_SeekFirstGreaterOrEqual : List String := ["func (r *cursor[K, V]) SeekFirstGreaterOrEqual(p0 K)",
  "if !r.seek(p0) {",
  "return",
  "}",
  "if r.t.compare(p0, r.k) > 0 {",
  "r.Next()",
  "}"]

/-- `cursor.SeekLast` in `container/tree`: signature and full statement list, locals renamed positionally -/
def pin_container_tree_cursor_SeekLast : List String := ["func (r *cursor[K, V]) SeekLast()",
  "if r.t.root.n == 0 {",
  "r.curr = nil",
  "return",
  "}",
  "r.curr = rightmostLeaf(r.t.root)",
  "r.i = int(r.curr.n) - 1",
  "r.k = r.curr.keys[r.i]",
  "r.gen = r.t.gen"]

/-- `cursor.SeekLastLess` in `container/tree`: signature and full statement list, locals renamed positionally -/
def pin_container_tree_cursor_SeekLastLess : List String := ["func (r *cursor[K, V]) SeekLastLess(p0 K)",
  "if !r.seek(p0) {",
  "return",
  "}",
  "if r.t.compare(p0, r.k) <= 0 {",
  "r.Prev()",
  "}"]

/-- `cursor.SeekLastLessOrEqual` in `container/tree`: signature and full statement list, locals renamed positionally -/
def pin_container_tree_cursor_SeekLastLessOrEqual : List String := ["func (r *cursor[K, V]) SeekLastLessOrEqual(p0 K)",
  "if !r.seek(p0) {",
  "return",
  "}",
  "if r.t.compare(p0, r.k) < 0 {",
  "r.Prev()",
  "}"]

/-- `cursor.find` in `container/tree`: signature and full statement list, locals renamed positionally -/
def pin_container_tree_cursor_find : List String := ["func (r *cursor[K, V]) find(p0 K) (*node[K, V], int, bool)",
  "if r.t.root.n == 0 {",
  "return nil, 0, false",
  "}",
  "v0 := r.t.root",
  "for {",
  "v1, v2 := r.t.searchNode(p0, v0)",
  "if v2 {",
  "return v0, v1, true",
  "}",
  "if v0.leaf() {",
  "if v1 == int(v0.n) {",
  "v1--",
  "}",
  "return v0, v1, false",
  "}",
  "v0 = v0.children[v1]",
  "}"]

/-- `cursor.lost` in `container/tree`: signature and full statement list, locals renamed positionally -/
def pin_container_tree_cursor_lost : List String := ["func (r *cursor[K, V]) lost() bool",
  "return r.gen != r.t.gen && r.curr != nil && (r.i >= int(r.curr.n) || r.t.compare(r.k, r.curr.keys[r.i]) != 0)"]

/-- `cursor.seek` in `container/tree`: signature and full statement list, locals renamed positionally -/
def pin_container_tree_cursor_seek : List String := ["func (r *cursor[K, V]) seek(p0 K) bool",
  "r.curr, r.i, _ = r.find(p0)",
  "if r.curr == nil {",
  "return false",
  "}",
  "r.k = r.curr.keys[r.i]",
  "r.gen = r.t.gen",
  "return true"]

/-- `forwardIterator.Next` in `container/tree`: signature and full statement list, locals renamed positionally -/
def pin_container_tree_forwardIterator_Next : List String := ["func (r *forwardIterator[K, V]) Next() (KVPair[K, V], bool)",
  "var v0 KVPair[K, V]",
  "if r.done {",
  "return v0, false",
  "}",
  "if r.c.lost() {",
  "r.c.SeekFirstGreaterOrEqual(r.c.Key())",
  "}",
  "if r.c.curr == nil {",
  "return v0, false",
  "}",
  "v1 := r.c.Key()",
  "if r.inRange != nil && !r.inRange(v1) {",
  "r.done = true",
  "return v0, false",
  "}",
  "v2 := r.c.valueUnchecked()",
  "r.c.Next()",
  "return KVPair[K, V]{v1, v2}, true"]

/-- `insertOne` in `container/tree`: signature and full statement list, locals renamed positionally -/
def pin_container_tree_insertOne : List String := ["func insertOne[T0 any](p0 []T0, p1 int, p2 T0)",
  "copy(p0[p1+1:], p0[p1:])",
  "p0[p1] = p2"]

/-- `leftmostLeaf` in `container/tree`: signature and full statement list, locals renamed positionally -/
def pin_container_tree_leftmostLeaf : List String := ["func leftmostLeaf[T0 any, T1 any](p0 *node[T0, T1]) *node[T0, T1]",
  "v0 := p0",
  "for {",
  "if v0.leaf() {",
  "return v0",
  "}",
  "v0 = v0.children[0]",
  "}"]

/-- `newAmalgam1` in `container/tree`: signature and full statement list, locals renamed positionally -/
def pin_container_tree_newAmalgam1 : List String := ["func newAmalgam1[T0 any, T1 any](p0 func(T0, T0) int, p1 *[maxKVs]T0, p2 *[maxKVs]T1, p3 *[branchFactor]*node[T0, T1], p4 T0, p5 T1, p6 *node[T0, T1]) amalgam1[T0, T1]",
  "v0 := func() int { }()",
  "func#0 {",
  "for v1 := range *p1 {",
  "if p0(p4, p1[v1]) < 0 {",
  "return v1",
  "}",
  "}",
  "return len(p1)",
  "}",
  "return amalgam1[T0, T1]{keys: p1, values: p2, children: p3, extraKey: p4, extraValue: p5, extraChild: p6, extraIdx: v0}"]

/-- `newBtree` in `container/tree`: signature and full statement list, locals renamed positionally -/
def pin_container_tree_newBtree : List String := ["func newBtree[T0 any, T1 any](p0 func(T0, T0) int) *btree[T0, T1]",
  "return &btree[T0, T1]{compare: p0, root: &node[T0, T1]{}, size: 0}"]

/-- `node.full` in `container/tree`: signature and full statement list, locals renamed positionally -/
def pin_container_tree_node_full : List String := ["func (r *node[K, V]) full() bool",
  "return int(r.n) == len(r.keys)"]

/-- `removeOne` in `container/tree`: signature and full statement list, locals renamed positionally -/
def pin_container_tree_removeOne : List String := ["func removeOne[T0 any](p0 []T0, p1 int)",
  "copy(p0[p1:], p0[p1+1:])",
  "var v0 T0",
  "p0[len(p0)-1] = v0"]

/-- `rightmostLeaf` in `container/tree`: signature and full statement list, locals renamed positionally -/
def pin_container_tree_rightmostLeaf : List String := ["func rightmostLeaf[T0 any, T1 any](p0 *node[T0, T1]) *node[T0, T1]",
  "v0 := p0",
  "for {",
  "if v0.leaf() {",
  "return v0",
  "}",
  "v0 = v0.children[int(v0.n)]",
  "}"]

/-- `LessCompare` in `xsort`: signature and full statement list, locals renamed positionally -/
def pin_xsort_LessCompare : List String := ["func LessCompare[T0 any](p0 Less[T0]) func(T0, T0) int",
  "return func(v0, v1 T0) int { }",
  "func#0 {",
  "if p0(v0, v1) {",
  "return -1",
  "} else {",
  "if p0(v1, v0) {",
  "return 1",
  "} else {",
  "return 0",
  "}",
  "}",
  "}"]

/-- type `Bound` of `container/tree`: one line per field / method -/
def pin_container_tree_type_Bound : List String := ["type Bound[K any] struct",
  "type_ boundType",
  "key K"]

/-- type `KVPair` of `container/tree`: one line per field / method -/
def pin_container_tree_type_KVPair : List String := ["type KVPair[K any, V any] struct",
  "Key K",
  "Value V"]

/-- type `Map` of `container/tree`: one line per field / method -/
def pin_container_tree_type_Map : List String := ["type Map[K any, V any] struct",
  "t *btree[K, V]"]

/-- type `Set` of `container/tree`: one line per field / method -/
def pin_container_tree_type_Set : List String := ["type Set[T any] struct",
  "t *btree[T, struct{}]"]

/-- type `amalgam1` of `container/tree`: one line per field / method -/
def pin_container_tree_type_amalgam1 : List String := ["type amalgam1[K any, V any] struct",
  "keys *[maxKVs]K",
  "values *[maxKVs]V",
  "children *[branchFactor]*node[K, V]",
  "extraKey K",
  "extraValue V",
  "extraChild *node[K, V]",
  "extraIdx int"]

/-- type `backwardIterator` of `container/tree`: one line per field / method -/
def pin_container_tree_type_backwardIterator : List String := ["type backwardIterator[K any, V any] struct",
  "c cursor[K, V]",
  "inRange func(K) bool",
  "done bool"]

/-- type `boundType` of `container/tree`: one line per field / method -/
def pin_container_tree_type_boundType : List String := ["type boundType int"]

/-- type `btree` of `container/tree`: one line per field / method -/
def pin_container_tree_type_btree : List String := ["type btree[K, V any] struct",
  "root *node[K, V]",
  "compare func(K, K) int",
  "size int",
  "gen int"]

/-- type `cursor` of `container/tree`: one line per field / method -/
def pin_container_tree_type_cursor : List String := ["type cursor[K any, V any] struct",
  "t *btree[K, V]",
  "curr *node[K, V]",
  "i int",
  "gen int",
  "k K"]

/-- type `forwardIterator` of `container/tree`: one line per field / method -/
def pin_container_tree_type_forwardIterator : List String := ["type forwardIterator[K any, V any] struct",
  "c cursor[K, V]",
  "inRange func(K) bool",
  "done bool"]

/-- type `node` of `container/tree`: one line per field / method -/
def pin_container_tree_type_node : List String := ["type node[K any, V any] struct",
  "n int8",
  "keys [maxKVs]K",
  "children [branchFactor]*node[K, V]",
  "parent *node[K, V]",
  "values [maxKVs]V"]

/-- package-level var / const declarations of `container/tree`, in source order -/
def pin_container_tree_vars : List String := ["const branchFactor = 16",
  "const maxKVs = branchFactor - 1",
  "const minKVs = maxKVs / 2",
  "const boundInclude boundType = iota + 1",
  "const boundExclude",
  "const boundUnbounded"]

/-- type `Less` of `xsort`: one line per field / method -/
def pin_xsort_type_Less : List String := ["type Less[T any] func(a, b T) bool"]

/-- type `mergeIterator` of `xsort`: one line per field / method -/
def pin_xsort_type_mergeIterator : List String := ["type mergeIterator[T any] struct",
  "in []iterator.Iterator[T]",
  "h heap.Heap[valueAndSource[T]]"]

/-- type `valueAndSource` of `xsort`: one line per field / method -/
def pin_xsort_type_valueAndSource : List String := ["type valueAndSource[T any] struct",
  "value T",
  "source int"]

/-- package-level var / const declarations of `xsort`, in source order -/
def pin_xsort_vars : List String := ["var _ Less[int] = OrderedLess[int]"]

end Juniper.Pinned.Tree
