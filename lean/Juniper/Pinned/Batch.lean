-- PINNED expectations, written by `gofacts -pin` (see notes/pins.md). Committed. Re-pinning is a deliberate act of
-- whoever changed the Go code or a model, after reviewing that the model still mirrors the code: never part of a check.

namespace Juniper.Pinned.Batch

/-- `Batch` in `stream`: signature and full statement list, locals renamed positionally -/
def pin_stream_Batch : List String := ["func Batch[T0 any](p0 Stream[T0], p1 time.Duration, p2 int) Stream[[]T0]",
  "return BatchFunc(p0, p1, func(v0 []T0) bool { })",
  "func#0 {",
  "return len(v0) >= p2",
  "}"]

/-- `BatchFunc` in `stream`: signature and full statement list, locals renamed positionally -/
def pin_stream_BatchFunc : List String := ["func BatchFunc[T0 any](p0 Stream[T0], p1 time.Duration, p2 func(v0 []T0) bool) Stream[[]T0]",
  "v1, v2 := context.WithCancel(context.Background())",
  "v3 := &batchStream[T0]{batchC: make(chan []T0), waiting: make(chan struct{}), bgCancel: v2}",
  "v4 := make(chan T0)",
  "v3.wg.Add(2)",
  "go func() { }()",
  "func#0 {",
  "defer v3.wg.Done()",
  "defer p0.Close()",
  "defer close(v4)",
  "for {",
  "v5, v6 := p0.Next(v1)",
  "if v6 == End {",
  "break",
  "} else {",
  "if v6 == context.Canceled && v1.Err() == context.Canceled {",
  "break",
  "} else {",
  "if v6 != nil {",
  "v3.err = v6",
  "return",
  "}",
  "}",
  "}",
  "select {",
  "case v4 <- v5:",
  "case <-v1.Done():",
  "return",
  "}",
  "}",
  "}",
  "go func() { }()",
  "func#0 {",
  "defer v3.wg.Done()",
  "var v7 []T0",
  "var v8 time.Time",
  "v9 := 0",
  "var v10 *time.Timer",
  "var v11 <-chan time.Time",
  "v12 := false",
  "defer func() { }()",
  "func#0 {",
  "if v10 != nil {",
  "v10.Stop()",
  "}",
  "close(v3.batchC)",
  "}",
  "v13 := func() bool { }",
  "func#0 {",
  "select {",
  "case <-v1.Done():",
  "return false",
  "case v3.batchC <- v7:",
  "}",
  "v9 = (v9 + len(v7)) / 2",
  "v7 = make([]T0, 0, xmath.Max(len(v7), v9*11/10))",
  "v12 = false",
  "return true",
  "}",
  "v14 := func() { }",
  "func#0 {",
  "if v10 == nil {",
  "return",
  "}",
  "v15 := v10.Stop()",
  "if !v15 && v11 != nil {",
  "<-v11",
  "}",
  "v11 = nil",
  "}",
  "v16 := func() { }",
  "func#0 {",
  "v14()",
  "if v10 == nil {",
  "v10 = time.NewTimer(p1 - time.Since(v8))",
  "} else {",
  "v10.Reset(p1 - time.Since(v8))",
  "}",
  "v11 = v10.C",
  "}",
  "for {",
  "select {",
  "case v17, v18 := <-v4:",
  "if !v18 {",
  "if len(v7) > 0 {",
  "_ = v13()",
  "}",
  "return",
  "}",
  "v7 = append(v7, v17)",
  "if p2(v7) {",
  "v14()",
  "if !v13() {",
  "return",
  "}",
  "}",
  "if len(v7) == 1 {",
  "v8 = time.Now()",
  "if v12 {",
  "v16()",
  "}",
  "}",
  "case <-v11:",
  "v11 = nil",
  "if !v13() {",
  "return",
  "}",
  "case <-v3.waiting:",
  "if len(v7) > 0 {",
  "if time.Since(v8) > p1 {",
  "v14()",
  "if !v13() {",
  "return",
  "}",
  "} else {",
  "v16()",
  "}",
  "} else {",
  "v12 = true",
  "}",
  "}",
  "}",
  "}",
  "return v3"]

/-- `batchStream.Close` in `stream`: signature and full statement list, locals renamed positionally -/
def pin_stream_batchStream_Close : List String := ["func (r *batchStream[T]) Close()",
  "r.bgCancel()",
  "r.wg.Wait()"]

/-- `batchStream.Next` in `stream`: signature and full statement list, locals renamed positionally -/
def pin_stream_batchStream_Next : List String := ["func (r *batchStream[T]) Next(p0 context.Context) ([]T, error)",
  "select {",
  "case v0, v1 := <-r.batchC:",
  "if !v1 {",
  "if r.err != nil {",
  "return nil, r.err",
  "}",
  "return nil, End",
  "}",
  "return v0, nil",
  "case r.waiting <- struct{}{}:",
  "select {",
  "case v2, v3 := <-r.batchC:",
  "if !v3 {",
  "if r.err != nil {",
  "return nil, r.err",
  "}",
  "return nil, End",
  "}",
  "return v2, nil",
  "case <-p0.Done():",
  "return nil, p0.Err()",
  "}",
  "case <-p0.Done():",
  "return nil, p0.Err()",
  "}"]

/-- type `Peekable` of `stream`: one line per field / method -/
def pin_stream_type_Peekable : List String := ["type Peekable[T any] interface",
  "Stream[T]",
  "Peek func(ctx context.Context) (T, error)"]

/-- type `PipeSender` of `stream`: one line per field / method -/
def pin_stream_type_PipeSender : List String := ["type PipeSender[T any] struct",
  "c chan<- T",
  "senderErr *error",
  "senderDone chan struct{}",
  "streamDone <-chan struct{}"]

/-- type `Stream` of `stream`: one line per field / method -/
def pin_stream_type_Stream : List String := ["type Stream[T any] interface",
  "Next func(ctx context.Context) (T, error)",
  "Close func()"]

/-- type `batchStream` of `stream`: one line per field / method -/
def pin_stream_type_batchStream : List String := ["type batchStream[T any] struct",
  "bgCancel context.CancelFunc",
  "wg sync.WaitGroup",
  "batchC chan []T",
  "err error",
  "waiting chan struct{}"]

/-- type `chanStream` of `stream`: one line per field / method -/
def pin_stream_type_chanStream : List String := ["type chanStream[T any] struct",
  "c <-chan T"]

/-- type `chunkStream` of `stream`: one line per field / method -/
def pin_stream_type_chunkStream : List String := ["type chunkStream[T any] struct",
  "inner Stream[T]",
  "chunkSize int",
  "chunk []T"]

/-- type `compactStream` of `stream`: one line per field / method -/
def pin_stream_type_compactStream : List String := ["type compactStream[T any] struct",
  "inner Stream[T]",
  "prev T",
  "first bool",
  "eq func(T, T) bool"]

/-- type `emptyStream` of `stream`: one line per field / method -/
def pin_stream_type_emptyStream : List String := ["type emptyStream[T any] struct"]

/-- type `errorStream` of `stream`: one line per field / method -/
def pin_stream_type_errorStream : List String := ["type errorStream[T any] struct",
  "err error"]

/-- type `filterStream` of `stream`: one line per field / method -/
def pin_stream_type_filterStream : List String := ["type filterStream[T any] struct",
  "inner Stream[T]",
  "keep func(context.Context, T) (bool, error)"]

/-- type `firstStream` of `stream`: one line per field / method -/
def pin_stream_type_firstStream : List String := ["type firstStream[T any] struct",
  "inner Stream[T]",
  "x int"]

/-- type `flattenSlicesStream` of `stream`: one line per field / method -/
def pin_stream_type_flattenSlicesStream : List String := ["type flattenSlicesStream[T any] struct",
  "inner Stream[[]T]",
  "buffer []T"]

/-- type `flattenStream` of `stream`: one line per field / method -/
def pin_stream_type_flattenStream : List String := ["type flattenStream[T any] struct",
  "inner Stream[Stream[T]]",
  "curr Stream[T]"]

/-- type `iteratorStream` of `stream`: one line per field / method -/
def pin_stream_type_iteratorStream : List String := ["type iteratorStream[T any] struct",
  "iter iterator.Iterator[T]"]

/-- type `joinStream` of `stream`: one line per field / method -/
def pin_stream_type_joinStream : List String := ["type joinStream[T any] struct",
  "remaining []Stream[T]"]

/-- type `mapStream` of `stream`: one line per field / method -/
def pin_stream_type_mapStream : List String := ["type mapStream[T any, U any] struct",
  "inner Stream[T]",
  "f func(context.Context, T) (U, error)"]

/-- type `mergeStream` of `stream`: one line per field / method -/
def pin_stream_type_mergeStream : List String := ["type mergeStream[T any] struct",
  "inner Stream[T]",
  "cancel func()"]

/-- type `peekable` of `stream`: one line per field / method -/
def pin_stream_type_peekable : List String := ["type peekable[T any] struct",
  "inner Stream[T]",
  "curr T",
  "has bool"]

/-- type `pipeStream` of `stream`: one line per field / method -/
def pin_stream_type_pipeStream : List String := ["type pipeStream[T any] struct",
  "c <-chan T",
  "senderErr *error",
  "senderDone <-chan struct{}",
  "streamDone chan<- struct{}"]

/-- type `runsInnerStream` of `stream`: one line per field / method -/
def pin_stream_type_runsInnerStream : List String := ["type runsInnerStream[T any] struct",
  "parent *runsStream[T]",
  "prev T"]

/-- type `runsStream` of `stream`: one line per field / method -/
def pin_stream_type_runsStream : List String := ["type runsStream[T any] struct",
  "inner Peekable[T]",
  "same func(a, b T) bool",
  "curr *runsInnerStream[T]"]

/-- type `whileStream` of `stream`: one line per field / method -/
def pin_stream_type_whileStream : List String := ["type whileStream[T any] struct",
  "inner Stream[T]",
  "f func(context.Context, T) (bool, error)",
  "item T",
  "has bool",
  "done bool"]

/-- package-level var / const declarations of `stream`, in source order -/
def pin_stream_vars : List String := ["var End = errors.New(\"end of stream\")",
  "var ErrClosedPipe = errors.New(\"closed pipe\")",
  "var ErrMoreThanOne = errors.New(\"stream had more than one item\")",
  "var ErrEmpty = errors.New(\"stream empty\")"]

end Juniper.Pinned.Batch
