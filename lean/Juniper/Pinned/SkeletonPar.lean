-- PINNED expectations, written by `gofacts -pin` (see notes/pins.md). Committed. Re-pinning is a deliberate act of
-- whoever changed the Go code or a model, after reviewing that the model still mirrors the code: never part of a check.

namespace Juniper.Pinned.SkeletonPar

/-- `Do` in `parallel`: signature and full statement list, locals renamed positionally -/
def pin_parallel_Do : List String := ["func Do(p0 int, p1 int, p2 func(v0 int))",
  "if p0 <= 0 {",
  "p0 = runtime.GOMAXPROCS(-1)",
  "}",
  "if p0 > p1 {",
  "p0 = p1",
  "}",
  "if p0 == 1 {",
  "for v1 := 0; v1 < p1; v1++ {",
  "p2(v1)",
  "}",
  "return",
  "}",
  "v2 := int32(-1)",
  "var v3 sync.WaitGroup",
  "v3.Add(p0)",
  "for v4 := 0; v4 < p0; v4++ {",
  "go func() { }()",
  "func#0 {",
  "defer v3.Done()",
  "for {",
  "v5 := int(atomic.AddInt32(&v2, 1))",
  "if v5 >= p1 {",
  "return",
  "}",
  "p2(v5)",
  "}",
  "}",
  "}",
  "v3.Wait()",
  "return"]

/-- `DoContext` in `parallel`: signature and full statement list, locals renamed positionally -/
def pin_parallel_DoContext : List String := ["func DoContext(p0 context.Context, p1 int, p2 int, p3 func(v0 context.Context, v1 int) error) error",
  "if p1 <= 0 {",
  "p1 = runtime.GOMAXPROCS(-1)",
  "}",
  "if p1 > p2 {",
  "p1 = p2",
  "}",
  "if p1 == 1 {",
  "for v2 := 0; v2 < p2; v2++ {",
  "v3 := p3(p0, v2)",
  "if v3 != nil {",
  "return v3",
  "}",
  "}",
  "return nil",
  "}",
  "v4 := int32(-1)",
  "v5, p0 := errgroup.WithContext(p0)",
  "for v6 := 0; v6 < p1; v6++ {",
  "v5.Go(func() error { })",
  "func#0 {",
  "for {",
  "v7 := int(atomic.AddInt32(&v4, 1))",
  "if v7 >= p2 {",
  "return nil",
  "}",
  "if p0.Err() != nil {",
  "return p0.Err()",
  "}",
  "v8 := p3(p0, v7)",
  "if v8 != nil {",
  "return v8",
  "}",
  "}",
  "}",
  "}",
  "return v5.Wait()"]

/-- `Map` in `parallel`: signature and full statement list, locals renamed positionally -/
def pin_parallel_Map : List String := ["func Map[T0 any, T1 any](p0 int, p1 []T0, p2 func(v0 T0) T1) []T1",
  "v1 := make([]T1, len(p1))",
  "Do(p0, len(p1), func(v2 int) { })",
  "func#0 {",
  "v1[v2] = p2(p1[v2])",
  "}",
  "return v1"]

/-- `MapContext` in `parallel`: signature and full statement list, locals renamed positionally -/
def pin_parallel_MapContext : List String := ["func MapContext[T0 any, T1 any](p0 context.Context, p1 int, p2 []T0, p3 func(v0 context.Context, v1 T0) (T1, error)) ([]T1, error)",
  "v2 := make([]T1, len(p2))",
  "v3 := DoContext(p0, p1, len(p2), func(v4 context.Context, v5 int) error { })",
  "func#0 {",
  "var v6 error",
  "v2[v5], v6 = p3(v4, p2[v5])",
  "return v6",
  "}",
  "if v3 != nil {",
  "return nil, v3",
  "}",
  "return v2, nil"]

/-- `MapIterator` in `parallel`: signature and full statement list, locals renamed positionally -/
def pin_parallel_MapIterator : List String := ["func MapIterator[T0 any, T1 any](p0 iterator.Iterator[T0], p1 int, p2 int, p3 func(T0) T1) iterator.Iterator[T1]",
  "if p1 <= 0 {",
  "p1 = runtime.GOMAXPROCS(-1)",
  "}",
  "if p2 < p1 {",
  "p2 = p1",
  "}",
  "v0 := make(chan valueAndIndex[T0])",
  "v1 := &mapIterator[T1]{ch: make(chan valueAndIndex[T1]), h: xheap.New(func(v2, v3 valueAndIndex[T1]) bool { }, nil), i: 0, bufferSize: p2, inFlight: 0}",
  "func#0 {",
  "return v2.idx < v3.idx",
  "}",
  "v1.cond = sync.NewCond(&v1.m)",
  "go func() { }()",
  "func#0 {",
  "v4 := 0",
  "for {",
  "v5, v6 := p0.Next()",
  "if !v6 {",
  "break",
  "}",
  "v1.m.Lock()",
  "for v1.inFlight >= p2 {",
  "v1.cond.Wait()",
  "}",
  "v1.inFlight++",
  "v1.m.Unlock()",
  "v0 <- valueAndIndex[T0]{value: v5, idx: v4}",
  "v4++",
  "}",
  "close(v0)",
  "}",
  "v7 := uint32(0)",
  "for v8 := 0; v8 < p1; v8++ {",
  "go func() { }()",
  "func#0 {",
  "for v9 := range v0 {",
  "v10 := p3(v9.value)",
  "v1.ch <- valueAndIndex[T1]{value: v10, idx: v9.idx}",
  "}",
  "if atomic.AddUint32(&v7, 1) == uint32(p1) {",
  "close(v1.ch)",
  "}",
  "}",
  "}",
  "return v1"]

/-- `MapStream` in `parallel`: signature and full statement list, locals renamed positionally -/
def pin_parallel_MapStream : List String := ["func MapStream[T0 any, T1 any](p0 context.Context, p1 stream.Stream[T0], p2 int, p3 int, p4 func(context.Context, T0) (T1, error)) stream.Stream[T1]",
  "if p2 <= 0 {",
  "p2 = runtime.GOMAXPROCS(-1)",
  "}",
  "if p3 < p2 {",
  "p3 = p2",
  "}",
  "v0 := make(chan valueAndIndex[T0])",
  "v1 := make(chan struct{}, p3)",
  "for v2 := 0; v2 < p3; v2++ {",
  "v1 <- struct{}{}",
  "}",
  "p0, v3 := context.WithCancel(p0)",
  "v4, p0 := errgroup.WithContext(p0)",
  "v4.Go(func() error { })",
  "func#0 {",
  "defer p1.Close()",
  "defer close(v0)",
  "v5 := 0",
  "for {",
  "v6, v7 := p1.Next(p0)",
  "if v7 == stream.End {",
  "break",
  "} else {",
  "if v7 != nil {",
  "return v7",
  "}",
  "}",
  "select {",
  "case <-p0.Done():",
  "return p0.Err()",
  "case <-v1:",
  "}",
  "select {",
  "case <-p0.Done():",
  "return p0.Err()",
  "case v0 <- valueAndIndex[T0]{value: v6, idx: v5}:",
  "}",
  "v5++",
  "}",
  "return nil",
  "}",
  "v8 := make(chan valueAndIndex[T1], p3)",
  "v9 := uint32(0)",
  "for v10 := 0; v10 < p2; v10++ {",
  "v4.Go(func() error { })",
  "func#0 {",
  "defer func() { }()",
  "func#0 {",
  "if atomic.AddUint32(&v9, 1) == uint32(p2) {",
  "close(v8)",
  "}",
  "}",
  "for v11 := range v0 {",
  "v12, v13 := p4(p0, v11.value)",
  "if v13 != nil {",
  "return v13",
  "}",
  "select {",
  "case v8 <- valueAndIndex[T1]{value: v12, idx: v11.idx}:",
  "case <-p0.Done():",
  "return p0.Err()",
  "}",
  "}",
  "return nil",
  "}",
  "}",
  "return &mapStream[T1]{cancel: v3, eg: v4, c: v8, ready: v1, h: xheap.New(func(v14, v15 valueAndIndex[T1]) bool { }, nil), i: 0}",
  "func#0 {",
  "return v14.idx < v15.idx",
  "}"]

/-- `mapIterator.Next` in `parallel`: signature and full statement list, locals renamed positionally -/
def pin_parallel_mapIterator_Next : List String := ["func (r *mapIterator[U]) Next() (U, bool)",
  "for {",
  "if r.h.Len() > 0 && r.h.Peek().idx == r.i {",
  "v0 := r.h.Pop()",
  "r.i++",
  "r.m.Lock()",
  "r.inFlight--",
  "if r.inFlight == r.bufferSize-1 {",
  "r.cond.Signal()",
  "}",
  "r.m.Unlock()",
  "return v0.value, true",
  "}",
  "v1, v2 := <-r.ch",
  "if !v2 {",
  "var v3 U",
  "return v3, false",
  "}",
  "r.h.Push(v1)",
  "}"]

/-- `mapStream.Close` in `parallel`: signature and full statement list, locals renamed positionally -/
def pin_parallel_mapStream_Close : List String := ["func (r *mapStream[U]) Close()",
  "r.cancel()",
  "_ = r.eg.Wait()"]

/-- `mapStream.Next` in `parallel`: signature and full statement list, locals renamed positionally -/
def pin_parallel_mapStream_Next : List String := ["func (r *mapStream[U]) Next(p0 context.Context) (U, error)",
  "var v0 U",
  "for {",
  "if r.h.Len() > 0 && r.h.Peek().idx == r.i {",
  "v1 := r.h.Pop()",
  "r.i++",
  "r.ready <- struct{}{}",
  "return v1.value, nil",
  "}",
  "select {",
  "case v2, v3 := <-r.c:",
  "if !v3 {",
  "v4 := r.eg.Wait()",
  "if v4 != nil {",
  "return v0, v4",
  "}",
  "return v0, stream.End",
  "}",
  "r.h.Push(v2)",
  "case <-p0.Done():",
  "return v0, p0.Err()",
  "}",
  "}"]

/-- `Group.Do` in `xsync`: signature and full statement list, locals renamed positionally -/
def pin_xsync_Group_Do : List String := ["func (r *Group) Do(p0 func(v0 context.Context))",
  "r.spawn(func() { })",
  "func#0 {",
  "p0(r.ctx)",
  "}"]

/-- `Group.Periodic` in `xsync`: signature and full statement list, locals renamed positionally -/
def pin_xsync_Group_Periodic : List String := ["func (r *Group) Periodic(p0 time.Duration, p1 time.Duration, p2 func(v0 context.Context))",
  "r.spawn(func() { })",
  "func#0 {",
  "v1 := time.NewTimer(jitterDuration(p0, p1))",
  "defer v1.Stop()",
  "for {",
  "if r.ctx.Err() != nil {",
  "return",
  "}",
  "select {",
  "case <-r.ctx.Done():",
  "return",
  "case <-v1.C:",
  "}",
  "v1.Reset(jitterDuration(p0, p1))",
  "p2(r.ctx)",
  "}",
  "}"]

/-- `Group.PeriodicOrTrigger` in `xsync`: signature and full statement list, locals renamed positionally -/
def pin_xsync_Group_PeriodicOrTrigger : List String := ["func (r *Group) PeriodicOrTrigger(p0 time.Duration, p1 time.Duration, p2 func(v0 context.Context)) func()",
  "v1 := make(chan struct{}, 1)",
  "r.spawn(func() { })",
  "func#0 {",
  "v2 := time.NewTimer(jitterDuration(p0, p1))",
  "defer v2.Stop()",
  "for {",
  "if r.ctx.Err() != nil {",
  "return",
  "}",
  "select {",
  "case <-r.ctx.Done():",
  "return",
  "case <-v2.C:",
  "v2.Reset(jitterDuration(p0, p1))",
  "case <-v1:",
  "if !v2.Stop() {",
  "<-v2.C",
  "}",
  "v2.Reset(jitterDuration(p0, p1))",
  "}",
  "p2(r.ctx)",
  "}",
  "}",
  "return func() { }",
  "func#0 {",
  "select {",
  "case v1 <- struct{}{}:",
  "default:",
  "}",
  "}"]

/-- `Group.Stop` in `xsync`: signature and full statement list, locals renamed positionally -/
def pin_xsync_Group_Stop : List String := ["func (r *Group) Stop()",
  "r.m.Lock()",
  "r.cancel()",
  "r.m.Unlock()"]

/-- `Group.StopAndWait` in `xsync`: signature and full statement list, locals renamed positionally -/
def pin_xsync_Group_StopAndWait : List String := ["func (r *Group) StopAndWait()",
  "r.Stop()",
  "r.wg.Wait()"]

/-- `Group.Trigger` in `xsync`: signature and full statement list, locals renamed positionally -/
def pin_xsync_Group_Trigger : List String := ["func (r *Group) Trigger(p0 func(v0 context.Context)) func()",
  "v1 := make(chan struct{}, 1)",
  "r.spawn(func() { })",
  "func#0 {",
  "for {",
  "if r.ctx.Err() != nil {",
  "return",
  "}",
  "select {",
  "case <-r.ctx.Done():",
  "return",
  "case <-v1:",
  "}",
  "p0(r.ctx)",
  "}",
  "}",
  "return func() { }",
  "func#0 {",
  "select {",
  "case v1 <- struct{}{}:",
  "default:",
  "}",
  "}"]

/-- `Group.spawn` in `xsync`: signature and full statement list, locals renamed positionally -/
def pin_xsync_Group_spawn : List String := ["func (r *Group) spawn(p0 func())",
  "r.m.RLock()",
  "if r.ctx.Err() != nil {",
  "r.m.RUnlock()",
  "return",
  "}",
  "r.wg.Add(1)",
  "r.m.RUnlock()",
  "go func() { }()",
  "func#0 {",
  "p0()",
  "r.wg.Done()",
  "}"]

/-- `jitterDuration` in `xsync`: signature and full statement list, locals renamed positionally -/
def pin_xsync_jitterDuration : List String := ["func jitterDuration(p0 time.Duration, p1 time.Duration) time.Duration",
  "return p0 + time.Duration(float64(p1)*((rand.Float64()*2)-1))"]

/-- type `mapIterator` of `parallel`: one line per field / method -/
def pin_parallel_type_mapIterator : List String := ["type mapIterator[U any] struct",
  "ch chan valueAndIndex[U]",
  "m sync.Mutex",
  "cond *sync.Cond",
  "bufferSize int",
  "inFlight int",
  "h xheap.Heap[valueAndIndex[U]]",
  "i int"]

/-- type `mapStream` of `parallel`: one line per field / method -/
def pin_parallel_type_mapStream : List String := ["type mapStream[U any] struct",
  "cancel context.CancelFunc",
  "eg *errgroup.Group",
  "c <-chan valueAndIndex[U]",
  "ready chan struct{}",
  "h xheap.Heap[valueAndIndex[U]]",
  "i int"]

/-- type `valueAndIndex` of `parallel`: one line per field / method -/
def pin_parallel_type_valueAndIndex : List String := ["type valueAndIndex[T any] struct",
  "value T",
  "idx int"]

/-- package-level var / const declarations of `parallel`, in source order -/
def pin_parallel_vars : List String := []

/-- type `ContextCond` of `xsync`: one line per field / method -/
def pin_xsync_type_ContextCond : List String := ["type ContextCond struct",
  "m sync.RWMutex",
  "ch chan struct{}",
  "L sync.Locker"]

/-- type `Future` of `xsync`: one line per field / method -/
def pin_xsync_type_Future : List String := ["type Future[T any] struct",
  "c chan struct{}",
  "x T"]

/-- type `Group` of `xsync`: one line per field / method -/
def pin_xsync_type_Group : List String := ["type Group struct",
  "ctx context.Context",
  "cancel context.CancelFunc",
  "m sync.RWMutex",
  "wg sync.WaitGroup"]

/-- type `Map` of `xsync`: one line per field / method -/
def pin_xsync_type_Map : List String := ["type Map[K comparable, V any] struct",
  "m sync.Map"]

/-- type `Pool` of `xsync`: one line per field / method -/
def pin_xsync_type_Pool : List String := ["type Pool[T any] struct",
  "p sync.Pool"]

/-- type `Watchable` of `xsync`: one line per field / method -/
def pin_xsync_type_Watchable : List String := ["type Watchable[T any] struct",
  "p atomic.Pointer[watchableInner[T]]"]

/-- type `watchableInner` of `xsync`: one line per field / method -/
def pin_xsync_type_watchableInner : List String := ["type watchableInner[T any] struct",
  "t T",
  "c chan struct{}"]

/-- package-level var / const declarations of `xsync`, in source order -/
def pin_xsync_vars : List String := []

end Juniper.Pinned.SkeletonPar
