-- PINNED expectations, written by `gofacts -pin` (see notes/pins.md). Committed. Re-pinning is a deliberate act of
-- whoever changed the Go code or a model, after reviewing that the model still mirrors the code: never part of a check.

namespace Juniper.Pinned.Helpers

/-- `WithStack` in `xerrors`: signature and full statement list, locals renamed positionally -/
def pin_xerrors_WithStack : List String := ["func WithStack(p0 error) error",
  "if p0 == nil {",
  "return nil",
  "}",
  "var v0 withStack",
  "if errors.As(p0, &v0) {",
  "return p0",
  "}",
  "var v1 [64]uintptr",
  "var v2 []uintptr",
  "v3 := 2",
  "for {",
  "v4 := runtime.Callers(v3, v1[:])",
  "v2 = append(v2, v1[:v4]...)",
  "if v4 < len(v1) {",
  "break",
  "}",
  "v3 += v4",
  "}",
  "return withStack{inner: p0, pc: v2}"]

/-- `withStack.Unwrap` in `xerrors`: signature and full statement list, locals renamed positionally -/
def pin_xerrors_withStack_Unwrap : List String := ["func (r withStack) Unwrap() error",
  "return r.inner"]

/-- `Difference` in `xmaps`: signature and full statement list, locals renamed positionally -/
def pin_xmaps_Difference : List String := ["func Difference[T0 ~map[T1]struct{}, T1 comparable](p0, p1 T0) T0",
  "v0 := len(p0) - len(p1)",
  "if v0 < 0 {",
  "v0 = 0",
  "}",
  "v1 := make(T0, v0)",
  "for v2 := range p0 {",
  "if _, v3 := p1[v2]; !v3 {",
  "v1[v2] = struct{}{}",
  "}",
  "}",
  "return v1"]

/-- `FromKeysAndValues` in `xmaps`: signature and full statement list, locals renamed positionally -/
def pin_xmaps_FromKeysAndValues : List String := ["func FromKeysAndValues[T0 comparable, T1 any](p0 []T0, p1 []T1) (map[T0]T1, bool)",
  "if len(p0) != len(p1) {",
  "panic(fmt.Sprintf(\"len(keys)=%d, len(values)=%d\", len(p0), len(p1)))",
  "}",
  "v0 := make(map[T0]T1, len(p0))",
  "v1 := true",
  "for v2 := range p0 {",
  "if _, v3 := v0[p0[v2]]; v3 {",
  "v1 = false",
  "}",
  "v0[p0[v2]] = p1[v2]",
  "}",
  "return v0, v1"]

/-- `Intersection` in `xmaps`: signature and full statement list, locals renamed positionally -/
def pin_xmaps_Intersection : List String := ["func Intersection[T0 ~map[T1]struct{}, T1 comparable](p0 ...T0) T0",
  "v0 := make(T0)",
  "if len(p0) == 0 {",
  "return v0",
  "}",
  "p0 = xslices.Clone(p0)",
  "xsort.Slice(p0, func(v1, v2 T0) bool { })",
  "func#0 {",
  "return len(v1) < len(v2)",
  "}",
  "for v3 := range p0[0] {",
  "v4 := true",
  "for v5 := 1; v5 < len(p0); v5++ {",
  "if _, v6 := p0[v5][v3]; !v6 {",
  "v4 = false",
  "break",
  "}",
  "}",
  "if v4 {",
  "v0[v3] = struct{}{}",
  "}",
  "}",
  "return v0"]

/-- `Intersects` in `xmaps`: signature and full statement list, locals renamed positionally -/
def pin_xmaps_Intersects : List String := ["func Intersects[T0 ~map[T1]struct{}, T1 comparable](p0 ...T0) bool",
  "if len(p0) == 0 {",
  "return false",
  "}",
  "p0 = xslices.Clone(p0)",
  "xsort.Slice(p0, func(v0, v1 T0) bool { })",
  "func#0 {",
  "return len(v0) < len(v1)",
  "}",
  "for v2 := range p0[0] {",
  "v3 := true",
  "for v4 := 1; v4 < len(p0); v4++ {",
  "if _, v5 := p0[v4][v2]; !v5 {",
  "v3 = false",
  "break",
  "}",
  "}",
  "if v3 {",
  "return true",
  "}",
  "}",
  "return false"]

/-- `Reverse` in `xmaps`: signature and full statement list, locals renamed positionally -/
def pin_xmaps_Reverse : List String := ["func Reverse[T0 ~map[T1]T2, T1 comparable, T2 comparable](p0 T0) map[T2][]T1",
  "v0 := make(map[T2][]T1, len(p0))",
  "for v1, v2 := range p0 {",
  "v0[v2] = append(v0[v2], v1)",
  "}",
  "return v0"]

/-- `ReverseSingle` in `xmaps`: signature and full statement list, locals renamed positionally -/
def pin_xmaps_ReverseSingle : List String := ["func ReverseSingle[T0 ~map[T1]T2, T1 comparable, T2 comparable](p0 T0) (map[T2]T1, bool)",
  "v0 := make(map[T2]T1, len(p0))",
  "v1 := true",
  "for v2, v3 := range p0 {",
  "if _, v4 := v0[v3]; v4 {",
  "v1 = false",
  "}",
  "v0[v3] = v2",
  "}",
  "return v0, v1"]

/-- `Set.Add` in `xmaps`: signature and full statement list, locals renamed positionally -/
def pin_xmaps_Set_Add : List String := ["func (r Set[T]) Add(p0 T)",
  "r[p0] = struct{}{}"]

/-- `Set.Contains` in `xmaps`: signature and full statement list, locals renamed positionally -/
def pin_xmaps_Set_Contains : List String := ["func (r Set[T]) Contains(p0 T) bool",
  "_, v0 := r[p0]",
  "return v0"]

/-- `Set.Remove` in `xmaps`: signature and full statement list, locals renamed positionally -/
def pin_xmaps_Set_Remove : List String := ["func (r Set[T]) Remove(p0 T)",
  "delete(r, p0)"]

/-- `SetFromSlice` in `xmaps`: signature and full statement list, locals renamed positionally -/
def pin_xmaps_SetFromSlice : List String := ["func SetFromSlice[T0 comparable](p0 []T0) Set[T0]",
  "v0 := make(Set[T0], len(p0))",
  "for _, v1 := range p0 {",
  "v0[v1] = struct{}{}",
  "}",
  "return v0"]

/-- `ToIndex` in `xmaps`: signature and full statement list, locals renamed positionally -/
def pin_xmaps_ToIndex : List String := ["func ToIndex[T0 comparable](p0 []T0) map[T0]int",
  "v0 := make(map[T0]int, len(p0))",
  "for v1 := range p0 {",
  "v0[p0[v1]] = v1",
  "}",
  "return v0"]

/-- `Union` in `xmaps`: signature and full statement list, locals renamed positionally -/
def pin_xmaps_Union : List String := ["func Union[T0 ~map[T1]struct{}, T1 comparable](p0 ...T0) T0",
  "v0 := 0",
  "for _, v1 := range p0 {",
  "if len(v1) > v0 {",
  "v0 = len(v1)",
  "}",
  "}",
  "v2 := make(T0, v0)",
  "for _, v3 := range p0 {",
  "for v4 := range v3 {",
  "v2[v4] = struct{}{}",
  "}",
  "}",
  "return v2"]

/-- `Abs` in `xmath`: signature and full statement list, locals renamed positionally -/
def pin_xmath_Abs : List String := ["func Abs[T0 ~int | ~int8 | ~int16 | ~int32 | ~int64](p0 T0) T0",
  "if p0 < 0 {",
  "if -p0 == p0 {",
  "panic(\"can't xmath.Abs minimum value: positive equivalent not representable\")",
  "}",
  "return -p0",
  "}",
  "return p0"]

/-- `Clamp` in `xmath`: signature and full statement list, locals renamed positionally -/
def pin_xmath_Clamp : List String := ["func Clamp[T0 cmp.Ordered](p0, p1, p2 T0) T0",
  "if p0 < p1 {",
  "return p1",
  "}",
  "if p0 > p2 {",
  "return p2",
  "}",
  "return p0"]

/-- `Max` in `xmath`: signature and full statement list, locals renamed positionally -/
def pin_xmath_Max : List String := ["func Max[T0 cmp.Ordered](p0, p1 T0) T0",
  "return max(p0, p1)"]

/-- `Min` in `xmath`: signature and full statement list, locals renamed positionally -/
def pin_xmath_Min : List String := ["func Min[T0 cmp.Ordered](p0, p1 T0) T0",
  "return min(p0, p1)"]

/-- `RSample` in `xmath/xrand`: signature and full statement list, locals renamed positionally -/
def pin_xmath_xrand_RSample : List String := ["func RSample(p0 *rand.Rand, p1 int, p2 int) []int",
  "return rSample(p0, p1, p2)"]

/-- `RSampleIterator` in `xmath/xrand`: signature and full statement list, locals renamed positionally -/
def pin_xmath_xrand_RSampleIterator : List String := ["func RSampleIterator[T0 any](p0 *rand.Rand, p1 iterator.Iterator[T0], p2 int) []T0",
  "return rSampleIterator(p0, p1, p2)"]

/-- `RSampleSlice` in `xmath/xrand`: signature and full statement list, locals renamed positionally -/
def pin_xmath_xrand_RSampleSlice : List String := ["func RSampleSlice[T0 any](p0 *rand.Rand, p1 []T0, p2 int) []T0",
  "return rSampleSlice(p0, p1, p2)"]

/-- `RSampleStream` in `xmath/xrand`: signature and full statement list, locals renamed positionally -/
def pin_xmath_xrand_RSampleStream : List String := ["func RSampleStream[T0 any](p0 context.Context, p1 *rand.Rand, p2 stream.Stream[T0], p3 int) ([]T0, error)",
  "return rSampleStream(p0, p1, p2, p3)"]

/-- `RShuffle` in `xmath/xrand`: signature and full statement list, locals renamed positionally -/
def pin_xmath_xrand_RShuffle : List String := ["func RShuffle[T0 any](p0 *rand.Rand, p1 []T0)",
  "rShuffle(p0, p1)"]

/-- `Sample` in `xmath/xrand`: signature and full statement list, locals renamed positionally -/
def pin_xmath_xrand_Sample : List String := ["func Sample(p0 int, p1 int) []int",
  "return rSample(defaultRand{}, p0, p1)"]

/-- `SampleIterator` in `xmath/xrand`: signature and full statement list, locals renamed positionally -/
def pin_xmath_xrand_SampleIterator : List String := ["func SampleIterator[T0 any](p0 iterator.Iterator[T0], p1 int) []T0",
  "return rSampleIterator(defaultRand{}, p0, p1)"]

/-- `SampleSlice` in `xmath/xrand`: signature and full statement list, locals renamed positionally -/
def pin_xmath_xrand_SampleSlice : List String := ["func SampleSlice[T0 any](p0 []T0, p1 int) []T0",
  "return rSampleSlice(defaultRand{}, p0, p1)"]

/-- `SampleStream` in `xmath/xrand`: signature and full statement list, locals renamed positionally -/
def pin_xmath_xrand_SampleStream : List String := ["func SampleStream[T0 any](p0 context.Context, p1 stream.Stream[T0], p2 int) ([]T0, error)",
  "return rSampleStream(p0, defaultRand{}, p1, p2)"]

/-- `Shuffle` in `xmath/xrand`: signature and full statement list, locals renamed positionally -/
def pin_xmath_xrand_Shuffle : List String := ["func Shuffle[T0 any](p0 []T0)",
  "rShuffle(defaultRand{}, p0)"]

/-- `defaultRand.Float64` in `xmath/xrand`: signature and full statement list, locals renamed positionally -/
def pin_xmath_xrand_defaultRand_Float64 : List String := ["func (defaultRand) Float64() float64",
  "return rand.Float64()"]

/-- `defaultRand.Intn` in `xmath/xrand`: signature and full statement list, locals renamed positionally -/
def pin_xmath_xrand_defaultRand_Intn : List String := ["func (defaultRand) Intn(p0 int) int",
  "return rand.Intn(p0)"]

/-- `defaultRand.Shuffle` in `xmath/xrand`: signature and full statement list, locals renamed positionally -/
def pin_xmath_xrand_defaultRand_Shuffle : List String := ["func (defaultRand) Shuffle(p0 int, p1 func(int, int))",
  "rand.Shuffle(p0, p1)"]

/-- `newSampler` in `xmath/xrand`: signature and full statement list, locals renamed positionally -/
def pin_xmath_xrand_newSampler : List String := ["func newSampler[T0 randRand](p0 T0, p1 int) sampler[T0]",
  "return sampler[T0]{i: 0, first: true, w: math.Exp(math.Log(p0.Float64()) / float64(p1)), k: p1, r: p0}"]

/-- `rSample` in `xmath/xrand`: signature and full statement list, locals renamed positionally -/
def pin_xmath_xrand_rSample : List String := ["func rSample[T0 randRand](p0 T0, p1 int, p2 int) []int",
  "v0 := make([]int, p2)",
  "v1 := newSampler(p0, p2)",
  "for {",
  "v2, v3 := v1.Next()",
  "if v2 >= p1 {",
  "break",
  "}",
  "v0[v3] = v2",
  "}",
  "if p1 < p2 {",
  "v0 = v0[:p1]",
  "}",
  "rShuffle(p0, v0)",
  "return v0"]

/-- `rSampleIterator` in `xmath/xrand`: signature and full statement list, locals renamed positionally -/
def pin_xmath_xrand_rSampleIterator : List String := ["func rSampleIterator[T0 any, T1 randRand](p0 T1, p1 iterator.Iterator[T0], p2 int) []T0",
  "v0 := make([]T0, p2)",
  "v1 := 0",
  "v2 := newSampler(p0, p2)",
  "L0:",
  "for {",
  "v3, v4 := v2.Next()",
  "for {",
  "v5, v6 := p1.Next()",
  "if !v6 {",
  "break L0",
  "}",
  "if v1 == v3 {",
  "v0[v4] = v5",
  "v1++",
  "break",
  "}",
  "v1++",
  "}",
  "}",
  "if v1 < p2 {",
  "v0 = v0[:v1]",
  "}",
  "rShuffle(p0, v0)",
  "return v0"]

/-- `rSampleSlice` in `xmath/xrand`: signature and full statement list, locals renamed positionally -/
def pin_xmath_xrand_rSampleSlice : List String := ["func rSampleSlice[T0 any, T1 randRand](p0 T1, p1 []T0, p2 int) []T0",
  "v0 := make([]T0, p2)",
  "v1 := newSampler(p0, p2)",
  "for {",
  "v2, v3 := v1.Next()",
  "if v2 >= len(p1) {",
  "break",
  "}",
  "v0[v3] = p1[v2]",
  "}",
  "if len(p1) < p2 {",
  "v0 = v0[:len(p1)]",
  "}",
  "rShuffle(p0, v0)",
  "return v0"]

/-- `rSampleStream` in `xmath/xrand`: signature and full statement list, locals renamed positionally -/
def pin_xmath_xrand_rSampleStream : List String := ["func rSampleStream[T0 any, T1 randRand](p0 context.Context, p1 T1, p2 stream.Stream[T0], p3 int) ([]T0, error)",
  "defer p2.Close()",
  "v0 := make([]T0, p3)",
  "v1 := 0",
  "v2 := newSampler(p1, p3)",
  "L0:",
  "for {",
  "v3, v4 := v2.Next()",
  "for {",
  "v5, v6 := p2.Next(p0)",
  "if v6 == stream.End {",
  "break L0",
  "} else {",
  "if v6 != nil {",
  "return nil, v6",
  "}",
  "}",
  "if v1 == v3 {",
  "v0[v4] = v5",
  "v1++",
  "break",
  "}",
  "v1++",
  "}",
  "}",
  "if v1 < p3 {",
  "v0 = v0[:v1]",
  "}",
  "rShuffle(p1, v0)",
  "return v0, nil"]

/-- `rShuffle` in `xmath/xrand`: signature and full statement list, locals renamed positionally -/
def pin_xmath_xrand_rShuffle : List String := ["func rShuffle[T0 any, T1 randRand](p0 T1, p1 []T0)",
  "p0.Shuffle(len(p1), func(v0, v1 int) { })",
  "func#0 {",
  "p1[v0], p1[v1] = p1[v1], p1[v0]",
  "}"]

/-- `sampler.Next` in `xmath/xrand`: signature and full statement list, locals renamed positionally -/
def pin_xmath_xrand_sampler_Next : List String := ["func (r *sampler[R]) Next() (int, int)",
  "if r.i < r.k {",
  "v0 := r.i",
  "r.i++",
  "return v0, v0",
  "}",
  "if r.first && r.i == r.k {",
  "r.i--",
  "r.first = false",
  "}",
  "v1 := math.Floor(math.Log(r.r.Float64()) / math.Log1p(-r.w))",
  "if math.IsInf(v1, 0) || math.IsNaN(v1) || v1 >= float64(math.MaxInt-r.i) {",
  "return math.MaxInt, 0",
  "}",
  "r.i += int(v1) + 1",
  "r.w *= math.Exp(math.Log(r.r.Float64()) / float64(r.k))",
  "return r.i, r.r.Intn(r.k)"]

/-- `All` in `xslices`: signature and full statement list, locals renamed positionally -/
def pin_xslices_All : List String := ["func All[T0 any](p0 []T0, p1 func(T0) bool) bool",
  "for v0 := range p0 {",
  "if !p1(p0[v0]) {",
  "return false",
  "}",
  "}",
  "return true"]

/-- `Any` in `xslices`: signature and full statement list, locals renamed positionally -/
def pin_xslices_Any : List String := ["func Any[T0 any](p0 []T0, p1 func(T0) bool) bool",
  "return slices.ContainsFunc(p0, p1)"]

/-- `Chunk` in `xslices`: signature and full statement list, locals renamed positionally -/
def pin_xslices_Chunk : List String := ["func Chunk[T0 any](p0 []T0, p1 int) [][]T0",
  "if p1 <= 0 {",
  "panic(\"xslices.Chunk: chunkSize must be positive\")",
  "}",
  "v0 := 0",
  "if len(p0) > 0 {",
  "v0 = (len(p0)-1)/p1 + 1",
  "}",
  "v1 := make([][]T0, v0)",
  "for v2 := range v1 {",
  "v3 := v2 * p1",
  "v4 := len(p0)",
  "if len(p0)-v3 > p1 {",
  "v4 = v3 + p1",
  "}",
  "v1[v2] = p0[v3:v4]",
  "}",
  "return v1"]

/-- `Clear` in `xslices`: signature and full statement list, locals renamed positionally -/
def pin_xslices_Clear : List String := ["func Clear[T0 any](p0 []T0)",
  "var v0 T0",
  "Fill(p0, v0)"]

/-- `Clone` in `xslices`: signature and full statement list, locals renamed positionally -/
def pin_xslices_Clone : List String := ["func Clone[T0 any](p0 []T0) []T0",
  "return slices.Clone(p0)"]

/-- `Compact` in `xslices`: signature and full statement list, locals renamed positionally -/
def pin_xslices_Compact : List String := ["func Compact[T0 comparable](p0 []T0) []T0",
  "return slices.Compact(slices.Clone(p0))"]

/-- `CompactFunc` in `xslices`: signature and full statement list, locals renamed positionally -/
def pin_xslices_CompactFunc : List String := ["func CompactFunc[T0 any](p0 []T0, p1 func(T0, T0) bool) []T0",
  "return slices.CompactFunc(slices.Clone(p0), p1)"]

/-- `CompactInPlace` in `xslices`: signature and full statement list, locals renamed positionally -/
def pin_xslices_CompactInPlace : List String := ["func CompactInPlace[T0 comparable](p0 []T0) []T0",
  "return slices.Compact(p0)"]

/-- `CompactInPlaceFunc` in `xslices`: signature and full statement list, locals renamed positionally -/
def pin_xslices_CompactInPlaceFunc : List String := ["func CompactInPlaceFunc[T0 any](p0 []T0, p1 func(T0, T0) bool) []T0",
  "return slices.CompactFunc(p0, p1)"]

/-- `Count` in `xslices`: signature and full statement list, locals renamed positionally -/
def pin_xslices_Count : List String := ["func Count[T0 comparable](p0 []T0, p1 T0) int",
  "return CountFunc(p0, func(v0 T0) bool { })",
  "func#0 {",
  "return p1 == v0",
  "}"]

/-- `CountFunc` in `xslices`: signature and full statement list, locals renamed positionally -/
def pin_xslices_CountFunc : List String := ["func CountFunc[T0 any](p0 []T0, p1 func(T0) bool) int",
  "v0 := 0",
  "for _, v1 := range p0 {",
  "if p1(v1) {",
  "v0++",
  "}",
  "}",
  "return v0"]

/-- `Equal` in `xslices`: signature and full statement list, locals renamed positionally -/
def pin_xslices_Equal : List String := ["func Equal[T0 comparable](p0, p1 []T0) bool",
  "return slices.Equal(p0, p1)"]

/-- `EqualFunc` in `xslices`: signature and full statement list, locals renamed positionally -/
def pin_xslices_EqualFunc : List String := ["func EqualFunc[T0 any](p0, p1 []T0, p2 func(T0, T0) bool) bool",
  "return slices.EqualFunc(p0, p1, p2)"]

/-- `Fill` in `xslices`: signature and full statement list, locals renamed positionally -/
def pin_xslices_Fill : List String := ["func Fill[T0 any](p0 []T0, p1 T0)",
  "for v0 := range p0 {",
  "p0[v0] = p1",
  "}"]

/-- `Filter` in `xslices`: signature and full statement list, locals renamed positionally -/
def pin_xslices_Filter : List String := ["func Filter[T0 any](p0 []T0, p1 func(v0 T0) bool) []T0",
  "return slices.DeleteFunc(slices.Clone(p0), func(v1 T0) bool { })",
  "func#0 {",
  "return !p1(v1)",
  "}"]

/-- `FilterInPlace` in `xslices`: signature and full statement list, locals renamed positionally -/
def pin_xslices_FilterInPlace : List String := ["func FilterInPlace[T0 any](p0 []T0, p1 func(v0 T0) bool) []T0",
  "return slices.DeleteFunc(p0, func(v1 T0) bool { })",
  "func#0 {",
  "return !p1(v1)",
  "}"]

/-- `Group` in `xslices`: signature and full statement list, locals renamed positionally -/
def pin_xslices_Group : List String := ["func Group[T0 any, T1 comparable](p0 []T0, p1 func(T0) T1) map[T1][]T0",
  "v0 := make(map[T1][]T0)",
  "for v1 := range p0 {",
  "v2 := p1(p0[v1])",
  "v0[v2] = append(v0[v2], p0[v1])",
  "}",
  "return v0"]

/-- `Grow` in `xslices`: signature and full statement list, locals renamed positionally -/
def pin_xslices_Grow : List String := ["func Grow[T0 any](p0 []T0, p1 int) []T0",
  "return slices.Grow(p0, p1)"]

/-- `Index` in `xslices`: signature and full statement list, locals renamed positionally -/
def pin_xslices_Index : List String := ["func Index[T0 comparable](p0 []T0, p1 T0) int",
  "return slices.Index(p0, p1)"]

/-- `IndexFunc` in `xslices`: signature and full statement list, locals renamed positionally -/
def pin_xslices_IndexFunc : List String := ["func IndexFunc[T0 any](p0 []T0, p1 func(T0) bool) int",
  "return slices.IndexFunc(p0, p1)"]

/-- `Insert` in `xslices`: signature and full statement list, locals renamed positionally -/
def pin_xslices_Insert : List String := ["func Insert[T0 any](p0 []T0, p1 int, p2 ...T0) []T0",
  "return slices.Insert(p0, p1, p2...)"]

/-- `Join` in `xslices`: signature and full statement list, locals renamed positionally -/
def pin_xslices_Join : List String := ["func Join[T0 any](p0 ...[]T0) []T0",
  "v0 := 0",
  "for v1 := range p0 {",
  "v0 += len(p0[v1])",
  "}",
  "v2 := make([]T0, 0, v0)",
  "for v3 := range p0 {",
  "v2 = append(v2, p0[v3]...)",
  "}",
  "return v2"]

/-- `LastIndex` in `xslices`: signature and full statement list, locals renamed positionally -/
def pin_xslices_LastIndex : List String := ["func LastIndex[T0 comparable](p0 []T0, p1 T0) int",
  "for v0 := len(p0) - 1; v0 >= 0; v0-- {",
  "if p0[v0] == p1 {",
  "return v0",
  "}",
  "}",
  "return -1"]

/-- `LastIndexFunc` in `xslices`: signature and full statement list, locals renamed positionally -/
def pin_xslices_LastIndexFunc : List String := ["func LastIndexFunc[T0 any](p0 []T0, p1 func(T0) bool) int",
  "for v0 := len(p0) - 1; v0 >= 0; v0-- {",
  "if p1(p0[v0]) {",
  "return v0",
  "}",
  "}",
  "return -1"]

/-- `Map` in `xslices`: signature and full statement list, locals renamed positionally -/
def pin_xslices_Map : List String := ["func Map[T0 any, T1 any](p0 []T0, p1 func(T0) T1) []T1",
  "v0 := make([]T1, len(p0))",
  "for v1 := range p0 {",
  "v0[v1] = p1(p0[v1])",
  "}",
  "return v0"]

/-- `Partition` in `xslices`: signature and full statement list, locals renamed positionally -/
def pin_xslices_Partition : List String := ["func Partition[T0 any](p0 []T0, p1 func(v0 T0) bool) int",
  "v1 := 0",
  "v2 := len(p0) - 1",
  "for {",
  "for v1 < v2 {",
  "if !p1(p0[v1]) {",
  "v1++",
  "} else {",
  "break",
  "}",
  "}",
  "for v2 > v1 {",
  "if p1(p0[v2]) {",
  "v2--",
  "} else {",
  "break",
  "}",
  "}",
  "if v1 >= v2 {",
  "break",
  "}",
  "p0[v1], p0[v2] = p0[v2], p0[v1]",
  "v1++",
  "v2--",
  "}",
  "if v1 < len(p0) && !p1(p0[v1]) {",
  "v1++",
  "}",
  "return v1"]

/-- `Reduce` in `xslices`: signature and full statement list, locals renamed positionally -/
def pin_xslices_Reduce : List String := ["func Reduce[T0 any, T1 any](p0 []T0, p1 T1, p2 func(T1, T0) T1) T1",
  "v0 := p1",
  "for v1 := range p0 {",
  "v0 = p2(v0, p0[v1])",
  "}",
  "return v0"]

/-- `Remove` in `xslices`: signature and full statement list, locals renamed positionally -/
def pin_xslices_Remove : List String := ["func Remove[T0 any](p0 []T0, p1 int, p2 int) []T0",
  "return slices.Delete(p0, p1, p1+p2)"]

/-- `RemoveUnordered` in `xslices`: signature and full statement list, locals renamed positionally -/
def pin_xslices_RemoveUnordered : List String := ["func RemoveUnordered[T0 any](p0 []T0, p1 int, p2 int) []T0",
  "v0 := len(p0) - p2",
  "v1 := p1 + p2",
  "if v1 > v0 {",
  "v0 = v1",
  "}",
  "copy(p0[p1:], p0[v0:])",
  "Clear(p0[len(p0)-p2:])",
  "return p0[:len(p0)-p2]"]

/-- `Repeat` in `xslices`: signature and full statement list, locals renamed positionally -/
def pin_xslices_Repeat : List String := ["func Repeat[T0 any](p0 T0, p1 int) []T0",
  "v0 := make([]T0, p1)",
  "for v1 := range v0 {",
  "v0[v1] = p0",
  "}",
  "return v0"]

/-- `Reverse` in `xslices`: signature and full statement list, locals renamed positionally -/
def pin_xslices_Reverse : List String := ["func Reverse[T0 any](p0 []T0)",
  "for v0 := 0; v0 < len(p0)/2; v0++ {",
  "p0[v0], p0[len(p0)-v0-1] = p0[len(p0)-v0-1], p0[v0]",
  "}"]

/-- `Runs` in `xslices`: signature and full statement list, locals renamed positionally -/
def pin_xslices_Runs : List String := ["func Runs[T0 any](p0 []T0, p1 func(v0, v1 T0) bool) [][]T0",
  "var v2 [][]T0",
  "v3 := 0",
  "v4 := 0",
  "if len(p0) > 0 {",
  "v4 = 1",
  "}",
  "for v5 := 1; v5 < len(p0); v5++ {",
  "if p1(p0[v5-1], p0[v5]) {",
  "v4 = v5 + 1",
  "} else {",
  "v2 = append(v2, p0[v3:v4])",
  "v3 = v5",
  "v4 = v5 + 1",
  "}",
  "}",
  "if v4 > 0 {",
  "v2 = append(v2, p0[v3:])",
  "}",
  "return v2"]

/-- `Shrink` in `xslices`: signature and full statement list, locals renamed positionally -/
def pin_xslices_Shrink : List String := ["func Shrink[T0 any](p0 []T0, p1 int) []T0",
  "if cap(p0)-len(p0) > p1 {",
  "v0 := make([]T0, len(p0)+p1)",
  "copy(v0, p0)",
  "return v0[:len(p0)]",
  "}",
  "return p0"]

/-- `Unique` in `xslices`: signature and full statement list, locals renamed positionally -/
def pin_xslices_Unique : List String := ["func Unique[T0 comparable](p0 []T0) []T0",
  "return uniqueInto([]T0{}, p0)"]

/-- `UniqueInPlace` in `xslices`: signature and full statement list, locals renamed positionally -/
def pin_xslices_UniqueInPlace : List String := ["func UniqueInPlace[T0 comparable](p0 []T0) []T0",
  "v0 := uniqueInto(p0[:0], p0)",
  "Clear(p0[len(v0):])",
  "return v0"]

/-- `uniqueInto` in `xslices`: signature and full statement list, locals renamed positionally -/
def pin_xslices_uniqueInto : List String := ["func uniqueInto[T0 comparable](p0 []T0, p1 []T0) []T0",
  "v0 := make(map[T0]struct{}, len(p1))",
  "for v1 := range p1 {",
  "_, v2 := v0[p1[v1]]",
  "if !v2 {",
  "p0 = append(p0, p1[v1])",
  "v0[p1[v1]] = struct{}{}",
  "}",
  "}",
  "return p0"]

/-- `Equal` in `xsort`: signature and full statement list, locals renamed positionally -/
def pin_xsort_Equal : List String := ["func Equal[T0 any](p0 Less[T0], p1 T0, p2 T0) bool",
  "return !p0(p1, p2) && !p0(p2, p1)"]

/-- `Greater` in `xsort`: signature and full statement list, locals renamed positionally -/
def pin_xsort_Greater : List String := ["func Greater[T0 any](p0 Less[T0], p1 T0, p2 T0) bool",
  "return p0(p2, p1)"]

/-- `GreaterOrEqual` in `xsort`: signature and full statement list, locals renamed positionally -/
def pin_xsort_GreaterOrEqual : List String := ["func GreaterOrEqual[T0 any](p0 Less[T0], p1 T0, p2 T0) bool",
  "return !p0(p1, p2)"]

/-- `LessCompare` in `xsort`: signature and full statement list, locals renamed positionally -/
def pin_xsort_LessCompare : List String := ["func LessCompare[T0 any](p0 Less[T0]) func(T0, T0) int",
  "return func(v0, v1 T0) int { }",
  "func#0 {",
  "if p0(v0, v1) {",
  "return -1",
  "} else {",
  "if p0(v1, v0) {",
  "return 1",
  "} else {",
  "return 0",
  "}",
  "}",
  "}"]

/-- `LessOrEqual` in `xsort`: signature and full statement list, locals renamed positionally -/
def pin_xsort_LessOrEqual : List String := ["func LessOrEqual[T0 any](p0 Less[T0], p1 T0, p2 T0) bool",
  "return !p0(p2, p1)"]

/-- `Merge` in `xsort`: signature and full statement list, locals renamed positionally -/
def pin_xsort_Merge : List String := ["func Merge[T0 any](p0 Less[T0], p1 ...iterator.Iterator[T0]) iterator.Iterator[T0]",
  "v0 := make([]valueAndSource[T0], 0, len(p1))",
  "for v1 := range p1 {",
  "v2, v3 := p1[v1].Next()",
  "if !v3 {",
  "continue",
  "}",
  "v0 = append(v0, valueAndSource[T0]{v2, v1})",
  "}",
  "v4 := heap.New(func(v5, v6 valueAndSource[T0]) bool { }, func(v7 valueAndSource[T0], v8 int) { }, v0)",
  "func#0 {",
  "return p0(v5.value, v6.value)",
  "}",
  "func#1 {",
  "}",
  "return &mergeIterator[T0]{in: p1, h: v4}"]

/-- `MergeSlices` in `xsort`: signature and full statement list, locals renamed positionally -/
def pin_xsort_MergeSlices : List String := ["func MergeSlices[T0 any](p0 Less[T0], p1 []T0, p2 ...[]T0) []T0",
  "v0 := 0",
  "for v1 := range p2 {",
  "v0 += len(p2[v1])",
  "}",
  "p1 = xslices.Grow(p1[:0], v0)",
  "v2 := Merge(p0, xslices.Map(p2, iterator.Slice[T0])...)",
  "for {",
  "v3, v4 := v2.Next()",
  "if !v4 {",
  "break",
  "}",
  "p1 = append(p1, v3)",
  "}",
  "return p1"]

/-- `MinK` in `xsort`: signature and full statement list, locals renamed positionally -/
def pin_xsort_MinK : List String := ["func MinK[T0 any](p0 Less[T0], p1 iterator.Iterator[T0], p2 int) []T0",
  "v0 := heap.New[T0](heap.Less[T0](Reverse(p0)), func(v1 T0, v2 int) { }, nil)",
  "func#0 {",
  "}",
  "for {",
  "v3, v4 := p1.Next()",
  "if !v4 {",
  "break",
  "}",
  "v0.Push(v3)",
  "if v0.Len() > p2 {",
  "v0.Pop()",
  "}",
  "}",
  "v5 := make([]T0, v0.Len())",
  "for v6 := len(v5) - 1; v6 >= 0; v6-- {",
  "v5[v6] = v0.Pop()",
  "}",
  "return v5"]

/-- `OrderedLess` in `xsort`: signature and full statement list, locals renamed positionally -/
def pin_xsort_OrderedLess : List String := ["func OrderedLess[T0 cmp.Ordered](p0, p1 T0) bool",
  "return cmp.Less(p0, p1)"]

/-- `Reverse` in `xsort`: signature and full statement list, locals renamed positionally -/
def pin_xsort_Reverse : List String := ["func Reverse[T0 any](p0 Less[T0]) Less[T0]",
  "return func(v0, v1 T0) bool { }",
  "func#0 {",
  "return p0(v1, v0)",
  "}"]

/-- `Search` in `xsort`: signature and full statement list, locals renamed positionally -/
def pin_xsort_Search : List String := ["func Search[T0 any](p0 []T0, p1 Less[T0], p2 T0) int",
  "return sort.Search(len(p0), func(v0 int) bool { })",
  "func#0 {",
  "return p1(p2, p0[v0]) || !p1(p0[v0], p2)",
  "}"]

/-- `Slice` in `xsort`: signature and full statement list, locals renamed positionally -/
def pin_xsort_Slice : List String := ["func Slice[T0 any](p0 []T0, p1 Less[T0])",
  "sort.Slice(p0, func(v0, v1 int) bool { })",
  "func#0 {",
  "return p1(p0[v0], p0[v1])",
  "}"]

/-- `SliceIsSorted` in `xsort`: signature and full statement list, locals renamed positionally -/
def pin_xsort_SliceIsSorted : List String := ["func SliceIsSorted[T0 any](p0 []T0, p1 Less[T0]) bool",
  "return sort.SliceIsSorted(p0, func(v0, v1 int) bool { })",
  "func#0 {",
  "return p1(p0[v0], p0[v1])",
  "}"]

/-- `SliceStable` in `xsort`: signature and full statement list, locals renamed positionally -/
def pin_xsort_SliceStable : List String := ["func SliceStable[T0 any](p0 []T0, p1 Less[T0])",
  "sort.SliceStable(p0, func(v0, v1 int) bool { })",
  "func#0 {",
  "return p1(p0[v0], p0[v1])",
  "}"]

/-- `mergeIterator.Next` in `xsort`: signature and full statement list, locals renamed positionally -/
def pin_xsort_mergeIterator_Next : List String := ["func (r *mergeIterator[T]) Next() (T, bool)",
  "if r.h.Len() == 0 {",
  "var v0 T",
  "return v0, false",
  "}",
  "v1 := r.h.Pop()",
  "v2, v3 := r.in[v1.source].Next()",
  "if v3 {",
  "r.h.Push(valueAndSource[T]{v2, v1.source})",
  "}",
  "return v1.value, true"]

/-- type `withStack` of `xerrors`: one line per field / method -/
def pin_xerrors_type_withStack : List String := ["type withStack struct",
  "inner error",
  "pc []uintptr"]

/-- package-level var / const declarations of `xerrors`, in source order -/
def pin_xerrors_vars : List String := []

/-- type `Set` of `xmaps`: one line per field / method -/
def pin_xmaps_type_Set : List String := ["type Set[T comparable] map[T]struct{}"]

/-- package-level var / const declarations of `xmaps`, in source order -/
def pin_xmaps_vars : List String := []

/-- package-level var / const declarations of `xmath`, in source order -/
def pin_xmath_vars : List String := []

/-- type `defaultRand` of `xmath/xrand`: one line per field / method -/
def pin_xmath_xrand_type_defaultRand : List String := ["type defaultRand struct"]

/-- type `randRand` of `xmath/xrand`: one line per field / method -/
def pin_xmath_xrand_type_randRand : List String := ["type randRand interface",
  "Float64 func() float64",
  "Intn func(int) int",
  "Shuffle func(int, func(int, int))"]

/-- type `sampler` of `xmath/xrand`: one line per field / method -/
def pin_xmath_xrand_type_sampler : List String := ["type sampler[R randRand] struct",
  "i int",
  "first bool",
  "w float64",
  "k int",
  "r R"]

/-- package-level var / const declarations of `xmath/xrand`, in source order -/
def pin_xmath_xrand_vars : List String := []

/-- package-level var / const declarations of `xslices`, in source order -/
def pin_xslices_vars : List String := []

/-- type `Less` of `xsort`: one line per field / method -/
def pin_xsort_type_Less : List String := ["type Less[T any] func(a, b T) bool"]

/-- type `mergeIterator` of `xsort`: one line per field / method -/
def pin_xsort_type_mergeIterator : List String := ["type mergeIterator[T any] struct",
  "in []iterator.Iterator[T]",
  "h heap.Heap[valueAndSource[T]]"]

/-- type `valueAndSource` of `xsort`: one line per field / method -/
def pin_xsort_type_valueAndSource : List String := ["type valueAndSource[T any] struct",
  "value T",
  "source int"]

/-- package-level var / const declarations of `xsort`, in source order -/
def pin_xsort_vars : List String := ["var _ Less[int] = OrderedLess[int]"]

end Juniper.Pinned.Helpers
