-- PINNED expectations, written by `gofacts -pin` (see notes/pins.md). Committed. Re-pinning is a deliberate act of
-- whoever changed the Go code or a model, after reviewing that the model still mirrors the code: never part of a check.

namespace Juniper.Pinned.TreeAccess

/-- `backwardIterator.Next` in `container/tree`: signature and full statement list, locals renamed positionally -/
def pin_container_tree_backwardIterator_Next : List String := ["func (r *backwardIterator[K, V]) Next() (KVPair[K, V], bool)",
  "var v0 KVPair[K, V]",
  "if r.done {",
  "return v0, false",
  "}",
  "if r.c.lost() {",
  "r.c.SeekLastLessOrEqual(r.c.Key())",
  "}",
  "if r.c.curr == nil {",
  "return v0, false",
  "}",
  "v1 := r.c.Key()",
  "if r.inRange != nil && !r.inRange(v1) {",
  "r.done = true",
  "return v0, false",
  "}",
  "v2 := r.c.valueUnchecked()",
  "r.c.Prev()",
  "return KVPair[K, V]{v1, v2}, true"]

/-- `btree.Contains` in `container/tree`: signature and full statement list, locals renamed positionally -/
def pin_container_tree_btree_Contains : List String := ["func (r *btree[K, V]) Contains(p0 K) bool",
  "v0 := r.root",
  "for v0 != nil {",
  "v1, v2 := r.searchNode(p0, v0)",
  "if v2 {",
  "return true",
  "}",
  "v0 = v0.children[v1]",
  "}",
  "return false"]

/-- `btree.Cursor` in `container/tree`: signature and full statement list, locals renamed positionally -/
def pin_container_tree_btree_Cursor : List String := ["func (r *btree[K, V]) Cursor() cursor[K, V]",
  "v0 := cursor[K, V]{t: r}",
  "return v0"]

/-- `btree.Get` in `container/tree`: signature and full statement list, locals renamed positionally -/
def pin_container_tree_btree_Get : List String := ["func (r *btree[K, V]) Get(p0 K) V",
  "v0 := r.root",
  "for v0 != nil {",
  "v1, v2 := r.searchNode(p0, v0)",
  "if v2 {",
  "return v0.values[v1]",
  "}",
  "v0 = v0.children[v1]",
  "}",
  "var v3 V",
  "return v3"]

/-- `btree.Put` in `container/tree`: signature and full statement list, locals renamed positionally -/
def pin_container_tree_btree_Put : List String := ["func (r *btree[K, V]) Put(p0 K, p1 V)",
  "v0 := r.root",
  "for {",
  "v1, v2 := r.searchNode(p0, v0)",
  "if v2 {",
  "v0.values[v1] = p1",
  "return",
  "}",
  "if v0.leaf() {",
  "break",
  "}",
  "v0 = v0.children[v1]",
  "}",
  "if !v0.full() {",
  "r.insertIntoLeaf(v0, p0, p1)",
  "} else {",
  "r.overfill(v0, p0, p1, nil)",
  "}",
  "r.gen++",
  "r.size++"]

/-- `btree.insertIntoLeaf` in `container/tree`: signature and full statement list, locals renamed positionally -/
def pin_container_tree_btree_insertIntoLeaf : List String := ["func (r *btree[K, V]) insertIntoLeaf(p0 *node[K, V], p1 K, p2 V)",
  "v0 := 0",
  "for v0 < int(p0.n) {",
  "if r.compare(p1, p0.keys[v0]) < 0 {",
  "break",
  "}",
  "v0++",
  "}",
  "insertOne(p0.keys[:int(p0.n)+1], v0, p1)",
  "insertOne(p0.values[:int(p0.n)+1], v0, p2)",
  "p0.n++"]

/-- `btree.overfill` in `container/tree`: signature and full statement list, locals renamed positionally -/
def pin_container_tree_btree_overfill : List String := ["func (r *btree[K, V]) overfill(p0 *node[K, V], p1 K, p2 V, p3 *node[K, V])",
  "for {",
  "v0 := newAmalgam1(r.compare, &p0.keys, &p0.values, &p0.children, p1, p2, p3)",
  "v1 := p0",
  "v2 := &node[K, V]{}",
  "v3 := p0.leaf()",
  "v4 := v0.Len() / 2",
  "v5 := v0.Key(v4)",
  "v6 := v0.Value(v4)",
  "v2.n = int8(v0.Len() - v4 - 1)",
  "for v7 := 0; v7 < int(v2.n); v7++ {",
  "v2.keys[v7] = v0.Key(v4 + 1 + v7)",
  "v2.values[v7] = v0.Value(v4 + 1 + v7)",
  "}",
  "if !v3 {",
  "for v8 := 0; v8 < int(v2.n)+1; v8++ {",
  "v2.children[v8] = v0.Child(v4 + 1 + v8)",
  "v2.children[v8].parent = v2",
  "}",
  "}",
  "v1.n = int8(v4)",
  "for v9 := int(v1.n) - 1; v9 >= 0; v9-- {",
  "v1.keys[v9] = v0.Key(v9)",
  "v1.values[v9] = v0.Value(v9)",
  "}",
  "if !v3 {",
  "for v10 := int(v1.n); v10 >= 0; v10-- {",
  "v1.children[v10] = v0.Child(v10)",
  "v1.children[v10].parent = v1",
  "}",
  "}",
  "xslices.Clear(v1.keys[int(v1.n):])",
  "xslices.Clear(v1.values[int(v1.n):])",
  "xslices.Clear(v1.children[int(v1.n)+1:])",
  "if p0 == r.root {",
  "v11 := &node[K, V]{}",
  "v11.keys[0], v11.values[0] = v5, v6",
  "v11.n = 1",
  "v11.children[0] = v1",
  "v1.parent = v11",
  "v11.children[1] = v2",
  "v2.parent = v11",
  "r.root = v11",
  "return",
  "}",
  "v12 := v1.parent",
  "if !v12.full() {",
  "v13 := xslices.Index(v12.children[:], v1)",
  "insertOne(v12.keys[:int(v12.n)+1], v13, v5)",
  "insertOne(v12.values[:int(v12.n)+1], v13, v6)",
  "insertOne(v12.children[:int(v12.n)+2], v13+1, v2)",
  "v2.parent = v12",
  "v12.n++",
  "return",
  "}",
  "p0 = v12",
  "p1 = v5",
  "p2 = v6",
  "p3 = v2",
  "}"]

/-- `btree.searchNode` in `container/tree`: signature and full statement list, locals renamed positionally -/
def pin_container_tree_btree_searchNode : List String := ["func (r *btree[K, V]) searchNode(p0 K, p1 *node[K, V]) (o0 int, o1 bool)",
  "for v0 := 0; v0 < int(p1.n); v0++ {",
  "v1 := r.compare(p0, p1.keys[v0])",
  "if v1 < 0 {",
  "return v0, false",
  "} else {",
  "if v1 == 0 {",
  "return v0, true",
  "}",
  "}",
  "}",
  "return int(p1.n), false"]

/-- `cursor.Key` in `container/tree`: signature and full statement list, locals renamed positionally -/
def pin_container_tree_cursor_Key : List String := ["func (r *cursor[K, V]) Key() K",
  "return r.k"]

/-- `cursor.Next` in `container/tree`: signature and full statement list, locals renamed positionally -/
def pin_container_tree_cursor_Next : List String := ["func (r *cursor[K, V]) Next()",
  "if r.lost() {",
  "r.SeekFirstGreater(r.k)",
  "return",
  "}",
  "if r.curr == nil {",
  "return",
  "}",
  "if r.curr.leaf() {",
  "r.i++",
  "if r.i < int(r.curr.n) {",
  "r.k = r.curr.keys[r.i]",
  "return",
  "}",
  "} else {",
  "if r.i < int(r.curr.n) {",
  "r.curr = leftmostLeaf(r.curr.children[r.i+1])",
  "r.i = 0",
  "r.k = r.curr.keys[r.i]",
  "return",
  "}",
  "}",
  "for {",
  "if r.curr.parent == nil {",
  "r.curr = nil",
  "return",
  "}",
  "v0 := xslices.Index(r.curr.parent.children[:], r.curr)",
  "r.curr = r.curr.parent",
  "r.i = v0",
  "if r.i < int(r.curr.n) {",
  "r.k = r.curr.keys[r.i]",
  "break",
  "}",
  "}"]

/-- `cursor.Prev` in `container/tree`: signature and full statement list, locals renamed positionally -/
def pin_container_tree_cursor_Prev : List String := ["func (r *cursor[K, V]) Prev()",
  "if r.lost() {",
  "r.SeekLastLess(r.k)",
  "return",
  "}",
  "if r.curr == nil {",
  "return",
  "}",
  "if r.curr.leaf() {",
  "r.i--",
  "if r.i >= 0 {",
  "r.k = r.curr.keys[r.i]",
  "return",
  "}",
  "} else {",
  "if r.i >= 0 {",
  "r.curr = rightmostLeaf(r.curr.children[r.i])",
  "r.i = int(r.curr.n) - 1",
  "r.k = r.curr.keys[r.i]",
  "return",
  "}",
  "}",
  "for {",
  "if r.curr.parent == nil {",
  "r.curr = nil",
  "return",
  "}",
  "v0 := xslices.Index(r.curr.parent.children[:], r.curr)",
  "r.curr = r.curr.parent",
  "r.i = v0 - 1",
  "if r.i >= 0 {",
  "r.k = r.curr.keys[r.i]",
  "break",
  "}",
  "}"]

/-- `cursor.SeekFirst` in `container/tree`: signature and full statement list, locals renamed positionally -/
def pin_container_tree_cursor_SeekFirst : List String := ["func (r *cursor[K, V]) SeekFirst()",
  "if r.t.root.n == 0 {",
  "r.curr = nil",
  "return",
  "}",
  "r.curr = leftmostLeaf(r.t.root)",
  "r.i = 0",
  "r.k = r.curr.keys[r.i]",
  "r.gen = r.t.gen"]

/-- `cursor.SeekFirstGreater` in `container/tree`: signature and full statement list, locals renamed positionally -/
def pin_container_tree_cursor_SeekFirstGreater : List String := ["func (r *cursor[K, V]) SeekFirstGreater(p0 K)",
  "if !r.seek(p0) {",
  "return",
  "}",
  "if r.t.compare(p0, r.k) >= 0 {",
  "r.Next()",
  "}"]

/-- `cursor.SeekFirstGreaterOrEqual` in `container/tree`: signature and full statement list, locals renamed positionally -/
def pin_container_tree_cursor_SeekFirstGreaterOrEqual : List String := ["func (r *cursor[K, V]) SeekFirstGreaterOrEqual(p0 K)",
  "if !r.seek(p0) {",
  "return",
  "}",
  "if r.t.compare(p0, r.k) > 0 {",
  "r.Next()",
  "}"]

/-- `cursor.SeekLast` in `container/tree`: signature and full statement list, locals renamed positionally -/
def pin_container_tree_cursor_SeekLast : List String := ["func (r *cursor[K, V]) SeekLast()",
  "if r.t.root.n == 0 {",
  "r.curr = nil",
  "return",
  "}",
  "r.curr = rightmostLeaf(r.t.root)",
  "r.i = int(r.curr.n) - 1",
  "r.k = r.curr.keys[r.i]",
  "r.gen = r.t.gen"]

/-- `cursor.SeekLastLess` in `container/tree`: signature and full statement list, locals renamed positionally -/
def pin_container_tree_cursor_SeekLastLess : List String := ["func (r *cursor[K, V]) SeekLastLess(p0 K)",
  "if !r.seek(p0) {",
  "return",
  "}",
  "if r.t.compare(p0, r.k) <= 0 {",
  "r.Prev()",
  "}"]

/-- `cursor.SeekLastLessOrEqual` in `container/tree`: signature and full statement list, locals renamed positionally -/
def pin_container_tree_cursor_SeekLastLessOrEqual : List String := ["func (r *cursor[K, V]) SeekLastLessOrEqual(p0 K)",
  "if !r.seek(p0) {",
  "return",
  "}",
  "if r.t.compare(p0, r.k) < 0 {",
  "r.Prev()",
  "}"]

/-- `cursor.find` in `container/tree`: signature and full statement list, locals renamed positionally -/
def pin_container_tree_cursor_find : List String := ["func (r *cursor[K, V]) find(p0 K) (*node[K, V], int, bool)",
  "if r.t.root.n == 0 {",
  "return nil, 0, false",
  "}",
  "v0 := r.t.root",
  "for {",
  "v1, v2 := r.t.searchNode(p0, v0)",
  "if v2 {",
  "return v0, v1, true",
  "}",
  "if v0.leaf() {",
  "if v1 == int(v0.n) {",
  "v1--",
  "}",
  "return v0, v1, false",
  "}",
  "v0 = v0.children[v1]",
  "}"]

/-- `cursor.lost` in `container/tree`: signature and full statement list, locals renamed positionally -/
def pin_container_tree_cursor_lost : List String := ["func (r *cursor[K, V]) lost() bool",
  "return r.gen != r.t.gen && r.curr != nil && (r.i >= int(r.curr.n) || r.t.compare(r.k, r.curr.keys[r.i]) != 0)"]

/-- `cursor.seek` in `container/tree`: signature and full statement list, locals renamed positionally -/
def pin_container_tree_cursor_seek : List String := ["func (r *cursor[K, V]) seek(p0 K) bool",
  "r.curr, r.i, _ = r.find(p0)",
  "if r.curr == nil {",
  "return false",
  "}",
  "r.k = r.curr.keys[r.i]",
  "r.gen = r.t.gen",
  "return true"]

/-- `cursor.valueUnchecked` in `container/tree`: signature and full statement list, locals renamed positionally -/
def pin_container_tree_cursor_valueUnchecked : List String := ["func (r *cursor[K, V]) valueUnchecked() V",
  "return r.curr.values[r.i]"]

/-- `forwardIterator.Next` in `container/tree`: signature and full statement list, locals renamed positionally -/
def pin_container_tree_forwardIterator_Next : List String := ["func (r *forwardIterator[K, V]) Next() (KVPair[K, V], bool)",
  "var v0 KVPair[K, V]",
  "if r.done {",
  "return v0, false",
  "}",
  "if r.c.lost() {",
  "r.c.SeekFirstGreaterOrEqual(r.c.Key())",
  "}",
  "if r.c.curr == nil {",
  "return v0, false",
  "}",
  "v1 := r.c.Key()",
  "if r.inRange != nil && !r.inRange(v1) {",
  "r.done = true",
  "return v0, false",
  "}",
  "v2 := r.c.valueUnchecked()",
  "r.c.Next()",
  "return KVPair[K, V]{v1, v2}, true"]

/-- `insertOne` in `container/tree`: signature and full statement list, locals renamed positionally -/
def pin_container_tree_insertOne : List String := ["func insertOne[T0 any](p0 []T0, p1 int, p2 T0)",
  "copy(p0[p1+1:], p0[p1:])",
  "p0[p1] = p2"]

/-- `leftmostLeaf` in `container/tree`: signature and full statement list, locals renamed positionally -/
def pin_container_tree_leftmostLeaf : List String := ["func leftmostLeaf[T0 any, T1 any](p0 *node[T0, T1]) *node[T0, T1]",
  "v0 := p0",
  "for {",
  "if v0.leaf() {",
  "return v0",
  "}",
  "v0 = v0.children[0]",
  "}"]

/-- `newAmalgam1` in `container/tree`: signature and full statement list, locals renamed positionally -/
def pin_container_tree_newAmalgam1 : List String := ["func newAmalgam1[T0 any, T1 any](p0 func(T0, T0) int, p1 *[maxKVs]T0, p2 *[maxKVs]T1, p3 *[branchFactor]*node[T0, T1], p4 T0, p5 T1, p6 *node[T0, T1]) amalgam1[T0, T1]",
  "v0 := func() int { }()",
  "func#0 {",
  "for v1 := range *p1 {",
  "if p0(p4, p1[v1]) < 0 {",
  "return v1",
  "}",
  "}",
  "return len(p1)",
  "}",
  "return amalgam1[T0, T1]{keys: p1, values: p2, children: p3, extraKey: p4, extraValue: p5, extraChild: p6, extraIdx: v0}"]

/-- `node.leaf` in `container/tree`: signature and full statement list, locals renamed positionally -/
def pin_container_tree_node_leaf : List String := ["func (r *node[K, V]) leaf() bool",
  "return r.children[0] == nil"]

/-- `rightmostLeaf` in `container/tree`: signature and full statement list, locals renamed positionally -/
def pin_container_tree_rightmostLeaf : List String := ["func rightmostLeaf[T0 any, T1 any](p0 *node[T0, T1]) *node[T0, T1]",
  "v0 := p0",
  "for {",
  "if v0.leaf() {",
  "return v0",
  "}",
  "v0 = v0.children[int(v0.n)]",
  "}"]

/-- `Index` in `xslices`: signature and full statement list, locals renamed positionally -/
def pin_xslices_Index : List String := ["func Index[T0 comparable](p0 []T0, p1 T0) int",
  "return slices.Index(p0, p1)"]

/-- type `Bound` of `container/tree`: one line per field / method -/
def pin_container_tree_type_Bound : List String := ["type Bound[K any] struct",
  "type_ boundType",
  "key K"]

/-- type `KVPair` of `container/tree`: one line per field / method -/
def pin_container_tree_type_KVPair : List String := ["type KVPair[K any, V any] struct",
  "Key K",
  "Value V"]

/-- type `Map` of `container/tree`: one line per field / method -/
def pin_container_tree_type_Map : List String := ["type Map[K any, V any] struct",
  "t *btree[K, V]"]

/-- type `Set` of `container/tree`: one line per field / method -/
def pin_container_tree_type_Set : List String := ["type Set[T any] struct",
  "t *btree[T, struct{}]"]

/-- type `amalgam1` of `container/tree`: one line per field / method -/
def pin_container_tree_type_amalgam1 : List String := ["type amalgam1[K any, V any] struct",
  "keys *[maxKVs]K",
  "values *[maxKVs]V",
  "children *[branchFactor]*node[K, V]",
  "extraKey K",
  "extraValue V",
  "extraChild *node[K, V]",
  "extraIdx int"]

/-- type `backwardIterator` of `container/tree`: one line per field / method -/
def pin_container_tree_type_backwardIterator : List String := ["type backwardIterator[K any, V any] struct",
  "c cursor[K, V]",
  "inRange func(K) bool",
  "done bool"]

/-- type `boundType` of `container/tree`: one line per field / method -/
def pin_container_tree_type_boundType : List String := ["type boundType int"]

/-- type `btree` of `container/tree`: one line per field / method -/
def pin_container_tree_type_btree : List String := ["type btree[K, V any] struct",
  "root *node[K, V]",
  "compare func(K, K) int",
  "size int",
  "gen int"]

/-- type `cursor` of `container/tree`: one line per field / method -/
def pin_container_tree_type_cursor : List String := ["type cursor[K any, V any] struct",
  "t *btree[K, V]",
  "curr *node[K, V]",
  "i int",
  "gen int",
  "k K"]

/-- type `forwardIterator` of `container/tree`: one line per field / method -/
def pin_container_tree_type_forwardIterator : List String := ["type forwardIterator[K any, V any] struct",
  "c cursor[K, V]",
  "inRange func(K) bool",
  "done bool"]

/-- type `node` of `container/tree`: one line per field / method -/
def pin_container_tree_type_node : List String := ["type node[K any, V any] struct",
  "n int8",
  "keys [maxKVs]K",
  "children [branchFactor]*node[K, V]",
  "parent *node[K, V]",
  "values [maxKVs]V"]

/-- package-level var / const declarations of `container/tree`, in source order -/
def pin_container_tree_vars : List String := ["const branchFactor = 16",
  "const maxKVs = branchFactor - 1",
  "const minKVs = maxKVs / 2",
  "const boundInclude boundType = iota + 1",
  "const boundExclude",
  "const boundUnbounded"]

/-- package-level var / const declarations of `xslices`, in source order -/
def pin_xslices_vars : List String := []

end Juniper.Pinned.TreeAccess
