-- PINNED expectations, written by `gofacts -pin` (see notes/pins.md). Committed. Re-pinning is a deliberate act of
-- whoever changed the Go code or a model, after reviewing that the model still mirrors the code: never part of a check.

namespace Juniper.Pinned.TreeAccess

/-- `btree.Contains` in `container/tree`: signature and full statement list, locals renamed positionally -/
def pin_container_tree_btree_Contains : List String := ["func (r *btree[K, V]) Contains(p0 K) bool",
  "v0 := r.root",
  "for v0 != nil {",
  "v1, v2 := r.searchNode(p0, v0)",
  "if v2 {",
  "return true",
  "}",
  "v0 = v0.children[v1]",
  "}",
  "return false"]

/-- `btree.Get` in `container/tree`: signature and full statement list, locals renamed positionally -/
def pin_container_tree_btree_Get : List String := ["func (r *btree[K, V]) Get(p0 K) V",
  "v0 := r.root",
  "for v0 != nil {",
  "v1, v2 := r.searchNode(p0, v0)",
  "if v2 {",
  "return v0.values[v1]",
  "}",
  "v0 = v0.children[v1]",
  "}",
  "var v3 V",
  "return v3"]

/-- `btree.Put` in `container/tree`: signature and full statement list, locals renamed positionally -/
def pin_container_tree_btree_Put : List String := ["func (r *btree[K, V]) Put(p0 K, p1 V)",
  "v0 := r.root",
  "for {",
  "v1, v2 := r.searchNode(p0, v0)",
  "if v2 {",
  "v0.values[v1] = p1",
  "return",
  "}",
  "if v0.leaf() {",
  "break",
  "}",
  "v0 = v0.children[v1]",
  "}",
  "if !v0.full() {",
  "r.insertIntoLeaf(v0, p0, p1)",
  "} else {",
  "r.overfill(v0, p0, p1, nil)",
  "}",
  "r.gen++",
  "r.size++"]

/-- `btree.insertIntoLeaf` in `container/tree`: signature and full statement list, locals renamed positionally -/
def pin_container_tree_btree_insertIntoLeaf : List String := ["func (r *btree[K, V]) insertIntoLeaf(p0 *node[K, V], p1 K, p2 V)",
  "v0 := 0",
  "for v0 < int(p0.n) {",
  "if r.compare(p1, p0.keys[v0]) < 0 {",
  "break",
  "}",
  "v0++",
  "}",
  "insertOne(p0.keys[:int(p0.n)+1], v0, p1)",
  "insertOne(p0.values[:int(p0.n)+1], v0, p2)",
  "p0.n++"]

/-- `btree.searchNode` in `container/tree`: signature and full statement list, locals renamed positionally -/
def pin_container_tree_btree_searchNode : List String := ["func (r *btree[K, V]) searchNode(p0 K, p1 *node[K, V]) (o0 int, o1 bool)",
  "for v0 := 0; v0 < int(p1.n); v0++ {",
  "v1 := r.compare(p0, p1.keys[v0])",
  "if v1 < 0 {",
  "return v0, false",
  "} else {",
  "if v1 == 0 {",
  "return v0, true",
  "}",
  "}",
  "}",
  "return int(p1.n), false"]

/-- `cursor.lost` in `container/tree`: signature and full statement list, locals renamed positionally -/
def pin_container_tree_cursor_lost : List String := ["func (r *cursor[K, V]) lost() bool",
  "return r.gen != r.t.gen && r.curr != nil && (r.i >= int(r.curr.n) || r.t.compare(r.k, r.curr.keys[r.i]) != 0)"]

/-- `cursor.valueUnchecked` in `container/tree`: signature and full statement list, locals renamed positionally -/
def pin_container_tree_cursor_valueUnchecked : List String := ["func (r *cursor[K, V]) valueUnchecked() V",
  "return r.curr.values[r.i]"]

/-- `forwardIterator.Next` in `container/tree`: signature and full statement list, locals renamed positionally -/
def pin_container_tree_forwardIterator_Next : List String := ["func (r *forwardIterator[K, V]) Next() (KVPair[K, V], bool)",
  "if r.c.lost() {",
  "r.c.SeekFirstGreaterOrEqual(r.c.Key())",
  "}",
  "if r.c.curr == nil {",
  "var v0 KVPair[K, V]",
  "return v0, false",
  "}",
  "v1 := r.c.Key()",
  "v2 := r.c.valueUnchecked()",
  "r.c.Next()",
  "return KVPair[K, V]{v1, v2}, true"]

/-- type `Bound` of `container/tree`: one line per field / method -/
def pin_container_tree_type_Bound : List String := ["type Bound[K any] struct",
  "type_ boundType",
  "key K"]

/-- type `KVPair` of `container/tree`: one line per field / method -/
def pin_container_tree_type_KVPair : List String := ["type KVPair[K any, V any] struct",
  "Key K",
  "Value V"]

/-- type `Map` of `container/tree`: one line per field / method -/
def pin_container_tree_type_Map : List String := ["type Map[K any, V any] struct",
  "t *btree[K, V]"]

/-- type `Set` of `container/tree`: one line per field / method -/
def pin_container_tree_type_Set : List String := ["type Set[T any] struct",
  "t *btree[T, struct{}]"]

/-- type `amalgam1` of `container/tree`: one line per field / method -/
def pin_container_tree_type_amalgam1 : List String := ["type amalgam1[K any, V any] struct",
  "keys *[maxKVs]K",
  "values *[maxKVs]V",
  "children *[branchFactor]*node[K, V]",
  "extraKey K",
  "extraValue V",
  "extraChild *node[K, V]",
  "extraIdx int"]

/-- type `backwardIterator` of `container/tree`: one line per field / method -/
def pin_container_tree_type_backwardIterator : List String := ["type backwardIterator[K any, V any] struct",
  "c cursor[K, V]"]

/-- type `boundType` of `container/tree`: one line per field / method -/
def pin_container_tree_type_boundType : List String := ["type boundType int"]

/-- type `btree` of `container/tree`: one line per field / method -/
def pin_container_tree_type_btree : List String := ["type btree[K, V any] struct",
  "root *node[K, V]",
  "compare func(K, K) int",
  "size int",
  "gen int"]

/-- type `cursor` of `container/tree`: one line per field / method -/
def pin_container_tree_type_cursor : List String := ["type cursor[K any, V any] struct",
  "t *btree[K, V]",
  "curr *node[K, V]",
  "i int",
  "gen int",
  "k K"]

/-- type `forwardIterator` of `container/tree`: one line per field / method -/
def pin_container_tree_type_forwardIterator : List String := ["type forwardIterator[K any, V any] struct",
  "c cursor[K, V]"]

/-- type `node` of `container/tree`: one line per field / method -/
def pin_container_tree_type_node : List String := ["type node[K any, V any] struct",
  "n int8",
  "keys [maxKVs]K",
  "children [branchFactor]*node[K, V]",
  "parent *node[K, V]",
  "values [maxKVs]V"]

/-- package-level var / const declarations of `container/tree`, in source order -/
def pin_container_tree_vars : List String := ["const branchFactor = 16",
  "const maxKVs = branchFactor - 1",
  "const minKVs = maxKVs / 2",
  "const boundInclude boundType = iota + 1",
  "const boundExclude",
  "const boundUnbounded"]

end Juniper.Pinned.TreeAccess
