-- PINNED expectations, written by `gofacts -pin` (see notes/pins.md). Committed. Re-pinning is a deliberate act of
-- whoever changed the Go code or a model, after reviewing that the model still mirrors the code: never part of a check.

namespace Juniper.Pinned.Group

/-- `Group.Do` in `xsync`: signature and full statement list, locals renamed positionally -/
def pin_xsync_Group_Do : List String := ["func (r *Group) Do(p0 func(v0 context.Context))",
  "r.spawn(func() { })",
  "func#0 {",
  "p0(r.ctx)",
  "}"]

/-- `Group.Periodic` in `xsync`: signature and full statement list, locals renamed positionally -/
def pin_xsync_Group_Periodic : List String := ["func (r *Group) Periodic(p0 time.Duration, p1 time.Duration, p2 func(v0 context.Context))",
  "r.spawn(func() { })",
  "func#0 {",
  "v1 := time.NewTimer(jitterDuration(p0, p1))",
  "defer v1.Stop()",
  "for {",
  "if r.ctx.Err() != nil {",
  "return",
  "}",
  "select {",
  "case <-r.ctx.Done():",
  "return",
  "case <-v1.C:",
  "}",
  "v1.Reset(jitterDuration(p0, p1))",
  "p2(r.ctx)",
  "}",
  "}"]

/-- `Group.PeriodicOrTrigger` in `xsync`: signature and full statement list, locals renamed positionally -/
def pin_xsync_Group_PeriodicOrTrigger : List String := ["func (r *Group) PeriodicOrTrigger(p0 time.Duration, p1 time.Duration, p2 func(v0 context.Context)) func()",
  "v1 := make(chan struct{}, 1)",
  "r.spawn(func() { })",
  "func#0 {",
  "v2 := time.NewTimer(jitterDuration(p0, p1))",
  "defer v2.Stop()",
  "for {",
  "if r.ctx.Err() != nil {",
  "return",
  "}",
  "select {",
  "case <-r.ctx.Done():",
  "return",
  "case <-v2.C:",
  "v2.Reset(jitterDuration(p0, p1))",
  "case <-v1:",
  "if !v2.Stop() {",
  "<-v2.C",
  "}",
  "v2.Reset(jitterDuration(p0, p1))",
  "}",
  "p2(r.ctx)",
  "}",
  "}",
  "return func() { }",
  "func#0 {",
  "select {",
  "case v1 <- struct{}{}:",
  "default:",
  "}",
  "}"]

/-- `Group.Stop` in `xsync`: signature and full statement list, locals renamed positionally -/
def pin_xsync_Group_Stop : List String := ["func (r *Group) Stop()",
  "r.m.Lock()",
  "r.cancel()",
  "r.m.Unlock()"]

/-- `Group.StopAndWait` in `xsync`: signature and full statement list, locals renamed positionally -/
def pin_xsync_Group_StopAndWait : List String := ["func (r *Group) StopAndWait()",
  "r.Stop()",
  "r.wg.Wait()"]

/-- `Group.Trigger` in `xsync`: signature and full statement list, locals renamed positionally -/
def pin_xsync_Group_Trigger : List String := ["func (r *Group) Trigger(p0 func(v0 context.Context)) func()",
  "v1 := make(chan struct{}, 1)",
  "r.spawn(func() { })",
  "func#0 {",
  "for {",
  "if r.ctx.Err() != nil {",
  "return",
  "}",
  "select {",
  "case <-r.ctx.Done():",
  "return",
  "case <-v1:",
  "}",
  "p0(r.ctx)",
  "}",
  "}",
  "return func() { }",
  "func#0 {",
  "select {",
  "case v1 <- struct{}{}:",
  "default:",
  "}",
  "}"]

/-- `Group.spawn` in `xsync`: signature and full statement list, locals renamed positionally -/
def pin_xsync_Group_spawn : List String := ["func (r *Group) spawn(p0 func())",
  "r.m.RLock()",
  "if r.ctx.Err() != nil {",
  "r.m.RUnlock()",
  "return",
  "}",
  "r.wg.Add(1)",
  "r.m.RUnlock()",
  "go func() { }()",
  "func#0 {",
  "p0()",
  "r.wg.Done()",
  "}"]

/-- `NewGroup` in `xsync`: signature and full statement list, locals renamed positionally -/
def pin_xsync_NewGroup : List String := ["func NewGroup(p0 context.Context) *Group",
  "v0, v1 := context.WithCancel(p0)",
  "return &Group{ctx: v0, cancel: v1}"]

/-- `jitterDuration` in `xsync`: signature and full statement list, locals renamed positionally -/
def pin_xsync_jitterDuration : List String := ["func jitterDuration(p0 time.Duration, p1 time.Duration) time.Duration",
  "return p0 + time.Duration(float64(p1)*((rand.Float64()*2)-1))"]

/-- type `ContextCond` of `xsync`: one line per field / method -/
def pin_xsync_type_ContextCond : List String := ["type ContextCond struct",
  "m sync.RWMutex",
  "ch chan struct{}",
  "L sync.Locker"]

/-- type `Future` of `xsync`: one line per field / method -/
def pin_xsync_type_Future : List String := ["type Future[T any] struct",
  "c chan struct{}",
  "x T"]

/-- type `Group` of `xsync`: one line per field / method -/
def pin_xsync_type_Group : List String := ["type Group struct",
  "ctx context.Context",
  "cancel context.CancelFunc",
  "m sync.RWMutex",
  "wg sync.WaitGroup"]

/-- type `Map` of `xsync`: one line per field / method -/
def pin_xsync_type_Map : List String := ["type Map[K comparable, V any] struct",
  "m sync.Map"]

/-- type `Pool` of `xsync`: one line per field / method -/
def pin_xsync_type_Pool : List String := ["type Pool[T any] struct",
  "p sync.Pool"]

/-- type `Watchable` of `xsync`: one line per field / method -/
def pin_xsync_type_Watchable : List String := ["type Watchable[T any] struct",
  "p atomic.Pointer[watchableInner[T]]"]

/-- type `watchableInner` of `xsync`: one line per field / method -/
def pin_xsync_type_watchableInner : List String := ["type watchableInner[T any] struct",
  "t T",
  "c chan struct{}"]

/-- package-level var / const declarations of `xsync`, in source order -/
def pin_xsync_vars : List String := []

end Juniper.Pinned.Group
