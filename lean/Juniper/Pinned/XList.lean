-- PINNED expectations, written by `gofacts -pin` (see notes/pins.md). Committed. Re-pinning is a deliberate act of
-- whoever changed the Go code or a model, after reviewing that the model still mirrors the code: never part of a check.

namespace Juniper.Pinned.XList

/-- `List.Back` in `container/xlist`: signature and full statement list, locals renamed positionally -/
def pin_container_xlist_List_Back : List String := ["func (r *List[T]) Back() *Node[T]",
  "return r.back"]

/-- `List.Clear` in `container/xlist`: signature and full statement list, locals renamed positionally -/
def pin_container_xlist_List_Clear : List String := ["func (r *List[T]) Clear()",
  "r.front = nil",
  "r.back = nil",
  "r.size = 0"]

/-- `List.Front` in `container/xlist`: signature and full statement list, locals renamed positionally -/
def pin_container_xlist_List_Front : List String := ["func (r *List[T]) Front() *Node[T]",
  "return r.front"]

/-- `List.InsertAfter` in `container/xlist`: signature and full statement list, locals renamed positionally -/
def pin_container_xlist_List_InsertAfter : List String := ["func (r *List[T]) InsertAfter(p0 T, p1 *Node[T]) *Node[T]",
  "v0 := &Node[T]{Value: p0, prev: p1, next: p1.next}",
  "p1.next = v0",
  "if v0.next != nil {",
  "v0.next.prev = v0",
  "}",
  "if r.back == p1 {",
  "r.back = v0",
  "}",
  "r.size++",
  "return v0"]

/-- `List.InsertBefore` in `container/xlist`: signature and full statement list, locals renamed positionally -/
def pin_container_xlist_List_InsertBefore : List String := ["func (r *List[T]) InsertBefore(p0 T, p1 *Node[T]) *Node[T]",
  "v0 := &Node[T]{Value: p0, prev: p1.prev, next: p1}",
  "p1.prev = v0",
  "if v0.prev != nil {",
  "v0.prev.next = v0",
  "}",
  "if r.front == p1 {",
  "r.front = v0",
  "}",
  "r.size++",
  "return v0"]

/-- `List.Len` in `container/xlist`: signature and full statement list, locals renamed positionally -/
def pin_container_xlist_List_Len : List String := ["func (r *List[T]) Len() int",
  "return r.size"]

/-- `List.MoveAfter` in `container/xlist`: signature and full statement list, locals renamed positionally -/
def pin_container_xlist_List_MoveAfter : List String := ["func (r *List[T]) MoveAfter(p0 *Node[T], p1 *Node[T])",
  "if p0 == p1 {",
  "return",
  "}",
  "r.remove(p0)",
  "p0.next = p1.next",
  "p1.next = p0",
  "p0.prev = p1",
  "if p0.next != nil {",
  "p0.next.prev = p0",
  "}",
  "if r.back == p1 {",
  "r.back = p0",
  "}"]

/-- `List.MoveBefore` in `container/xlist`: signature and full statement list, locals renamed positionally -/
def pin_container_xlist_List_MoveBefore : List String := ["func (r *List[T]) MoveBefore(p0 *Node[T], p1 *Node[T])",
  "if p0 == p1 {",
  "return",
  "}",
  "r.remove(p0)",
  "p0.prev = p1.prev",
  "p1.prev = p0",
  "p0.next = p1",
  "if p0.prev != nil {",
  "p0.prev.next = p0",
  "}",
  "if r.front == p1 {",
  "r.front = p0",
  "}"]

/-- `List.MoveToBack` in `container/xlist`: signature and full statement list, locals renamed positionally -/
def pin_container_xlist_List_MoveToBack : List String := ["func (r *List[T]) MoveToBack(p0 *Node[T])",
  "r.MoveAfter(p0, r.Back())"]

/-- `List.MoveToFront` in `container/xlist`: signature and full statement list, locals renamed positionally -/
def pin_container_xlist_List_MoveToFront : List String := ["func (r *List[T]) MoveToFront(p0 *Node[T])",
  "r.MoveBefore(p0, r.Front())"]

/-- `List.PushBack` in `container/xlist`: signature and full statement list, locals renamed positionally -/
def pin_container_xlist_List_PushBack : List String := ["func (r *List[T]) PushBack(p0 T) *Node[T]",
  "v0 := &Node[T]{prev: r.back, Value: p0}",
  "if r.back != nil {",
  "r.back.next = v0",
  "}",
  "r.back = v0",
  "if r.front == nil {",
  "r.front = v0",
  "}",
  "r.size++",
  "return v0"]

/-- `List.PushFront` in `container/xlist`: signature and full statement list, locals renamed positionally -/
def pin_container_xlist_List_PushFront : List String := ["func (r *List[T]) PushFront(p0 T) *Node[T]",
  "v0 := &Node[T]{next: r.front, Value: p0}",
  "if r.front != nil {",
  "r.front.prev = v0",
  "}",
  "r.front = v0",
  "if r.back == nil {",
  "r.back = v0",
  "}",
  "r.size++",
  "return v0"]

/-- `List.Remove` in `container/xlist`: signature and full statement list, locals renamed positionally -/
def pin_container_xlist_List_Remove : List String := ["func (r *List[T]) Remove(p0 *Node[T])",
  "r.remove(p0)",
  "p0.prev = nil",
  "p0.next = nil",
  "r.size--"]

/-- `List.remove` in `container/xlist`: signature and full statement list, locals renamed positionally -/
def pin_container_xlist_List_remove : List String := ["func (r *List[T]) remove(p0 *Node[T])",
  "if r.front == p0 {",
  "r.front = r.front.next",
  "} else {",
  "p0.prev.next = p0.next",
  "}",
  "if r.back == p0 {",
  "r.back = r.back.prev",
  "} else {",
  "p0.next.prev = p0.prev",
  "}"]

/-- `Node.Next` in `container/xlist`: signature and full statement list, locals renamed positionally -/
def pin_container_xlist_Node_Next : List String := ["func (r *Node[T]) Next() *Node[T]",
  "return r.next"]

/-- `Node.Prev` in `container/xlist`: signature and full statement list, locals renamed positionally -/
def pin_container_xlist_Node_Prev : List String := ["func (r *Node[T]) Prev() *Node[T]",
  "return r.prev"]

/-- type `List` of `container/xlist`: one line per field / method -/
def pin_container_xlist_type_List : List String := ["type List[T any] struct",
  "front *Node[T]",
  "back *Node[T]",
  "size int"]

/-- type `Node` of `container/xlist`: one line per field / method -/
def pin_container_xlist_type_Node : List String := ["type Node[T any] struct",
  "prev *Node[T]",
  "next *Node[T]",
  "Value T"]

/-- package-level var / const declarations of `container/xlist`, in source order -/
def pin_container_xlist_vars : List String := []

end Juniper.Pinned.XList
