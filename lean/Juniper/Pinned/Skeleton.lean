-- PINNED expectations, written by `gofacts -pin` (see notes/pins.md). Committed. Re-pinning is a deliberate act of
-- whoever changed the Go code or a model, after reviewing that the model still mirrors the code: never part of a check.

namespace Juniper.Pinned.Skeleton

/-- `Merge` in `chans`: signature and full statement list, locals renamed positionally -/
def pin_chans_Merge : List String := ["func Merge[T0 any](p0 chan<- T0, p1 ...<-chan T0)",
  "if len(p1) == 1 {",
  "for v0 := range p1[0] {",
  "p0 <- v0",
  "}",
  "return",
  "} else {",
  "if len(p1) == 2 {",
  "merge2(p0, p1[0], p1[1])",
  "return",
  "} else {",
  "if len(p1) == 3 {",
  "merge3(p0, p1[0], p1[1], p1[2])",
  "return",
  "}",
  "}",
  "}",
  "v1 := xslices.Map(p1, func(v2 <-chan T0) reflect.SelectCase { })",
  "func#0 {",
  "return reflect.SelectCase{Dir: reflect.SelectRecv, Chan: reflect.ValueOf(v2)}",
  "}",
  "for {",
  "if len(v1) == 0 {",
  "return",
  "}",
  "v3, v4, v5 := reflect.Select(v1)",
  "if v5 {",
  "v6, _ := v4.Interface().(T0)",
  "p0 <- v6",
  "} else {",
  "v1 = xslices.RemoveUnordered(v1, v3, 1)",
  "}",
  "}"]

/-- `Replicate` in `chans`: signature and full statement list, locals renamed positionally -/
def pin_chans_Replicate : List String := ["func Replicate[T0 any](p0 <-chan T0, p1 ...chan<- T0)",
  "for v0 := range p0 {",
  "for _, v1 := range p1 {",
  "v1 <- v0",
  "}",
  "}"]

/-- `merge2` in `chans`: signature and full statement list, locals renamed positionally -/
def pin_chans_merge2 : List String := ["func merge2[T0 any](p0 chan<- T0, p1, p2 <-chan T0)",
  "v0 := 0",
  "for {",
  "select {",
  "case v1, v2 := <-p1:",
  "if v2 {",
  "p0 <- v1",
  "} else {",
  "p1 = nil",
  "v0++",
  "if v0 == 2 {",
  "return",
  "}",
  "}",
  "case v3, v4 := <-p2:",
  "if v4 {",
  "p0 <- v3",
  "} else {",
  "p2 = nil",
  "v0++",
  "if v0 == 2 {",
  "return",
  "}",
  "}",
  "}",
  "}"]

/-- `merge3` in `chans`: signature and full statement list, locals renamed positionally -/
def pin_chans_merge3 : List String := ["func merge3[T0 any](p0 chan<- T0, p1, p2, p3 <-chan T0)",
  "v0 := 0",
  "for {",
  "select {",
  "case v1, v2 := <-p1:",
  "if v2 {",
  "p0 <- v1",
  "} else {",
  "p1 = nil",
  "v0++",
  "if v0 == 3 {",
  "return",
  "}",
  "}",
  "case v3, v4 := <-p2:",
  "if v4 {",
  "p0 <- v3",
  "} else {",
  "p2 = nil",
  "v0++",
  "if v0 == 3 {",
  "return",
  "}",
  "}",
  "case v5, v6 := <-p3:",
  "if v6 {",
  "p0 <- v5",
  "} else {",
  "p3 = nil",
  "v0++",
  "if v0 == 3 {",
  "return",
  "}",
  "}",
  "}",
  "}"]

/-- `Batch` in `stream`: signature and full statement list, locals renamed positionally -/
def pin_stream_Batch : List String := ["func Batch[T0 any](p0 Stream[T0], p1 time.Duration, p2 int) Stream[[]T0]",
  "return BatchFunc(p0, p1, func(v0 []T0) bool { })",
  "func#0 {",
  "return len(v0) >= p2",
  "}"]

/-- `BatchFunc` in `stream`: signature and full statement list, locals renamed positionally -/
def pin_stream_BatchFunc : List String := ["func BatchFunc[T0 any](p0 Stream[T0], p1 time.Duration, p2 func(v0 []T0) bool) Stream[[]T0]",
  "v1, v2 := context.WithCancel(context.Background())",
  "v3 := &batchStream[T0]{batchC: make(chan []T0), waiting: make(chan struct{}), bgCancel: v2}",
  "v4 := make(chan T0)",
  "v3.wg.Add(2)",
  "go func() { }()",
  "func#0 {",
  "defer v3.wg.Done()",
  "defer p0.Close()",
  "defer close(v4)",
  "for {",
  "v5, v6 := p0.Next(v1)",
  "if v6 == End {",
  "break",
  "} else {",
  "if v6 == context.Canceled && v1.Err() == context.Canceled {",
  "break",
  "} else {",
  "if v6 != nil {",
  "v3.err = v6",
  "return",
  "}",
  "}",
  "}",
  "select {",
  "case v4 <- v5:",
  "case <-v1.Done():",
  "return",
  "}",
  "}",
  "}",
  "go func() { }()",
  "func#0 {",
  "defer v3.wg.Done()",
  "var v7 []T0",
  "var v8 time.Time",
  "v9 := 0",
  "var v10 *time.Timer",
  "var v11 <-chan time.Time",
  "v12 := false",
  "defer func() { }()",
  "func#0 {",
  "if v10 != nil {",
  "v10.Stop()",
  "}",
  "close(v3.batchC)",
  "}",
  "v13 := func() bool { }",
  "func#0 {",
  "select {",
  "case <-v1.Done():",
  "return false",
  "case v3.batchC <- v7:",
  "}",
  "v9 = (v9 + len(v7)) / 2",
  "v7 = make([]T0, 0, xmath.Max(len(v7), v9*11/10))",
  "v12 = false",
  "return true",
  "}",
  "v14 := func() { }",
  "func#0 {",
  "if v10 == nil {",
  "return",
  "}",
  "v15 := v10.Stop()",
  "if !v15 && v11 != nil {",
  "<-v11",
  "}",
  "v11 = nil",
  "}",
  "v16 := func() { }",
  "func#0 {",
  "v14()",
  "if v10 == nil {",
  "v10 = time.NewTimer(p1 - time.Since(v8))",
  "} else {",
  "v10.Reset(p1 - time.Since(v8))",
  "}",
  "v11 = v10.C",
  "}",
  "for {",
  "select {",
  "case v17, v18 := <-v4:",
  "if !v18 {",
  "if len(v7) > 0 {",
  "_ = v13()",
  "}",
  "return",
  "}",
  "v7 = append(v7, v17)",
  "if p2(v7) {",
  "v14()",
  "if !v13() {",
  "return",
  "}",
  "}",
  "if len(v7) == 1 {",
  "v8 = time.Now()",
  "if v12 {",
  "v16()",
  "}",
  "}",
  "case <-v11:",
  "v11 = nil",
  "if !v13() {",
  "return",
  "}",
  "case <-v3.waiting:",
  "if len(v7) > 0 {",
  "if time.Since(v8) > p1 {",
  "v14()",
  "if !v13() {",
  "return",
  "}",
  "} else {",
  "v16()",
  "}",
  "} else {",
  "v12 = true",
  "}",
  "}",
  "}",
  "}",
  "return v3"]

/-- `Merge` in `stream`: signature and full statement list, locals renamed positionally -/
def pin_stream_Merge : List String := ["func Merge[T0 any](p0 ...Stream[T0]) Stream[T0]",
  "v0, v1 := Pipe[T0](0)",
  "v2 := uint32(0)",
  "v3 := uint32(0)",
  "v4, v5 := context.WithCancel(context.Background())",
  "if len(p0) == 0 {",
  "v0.Close(nil)",
  "}",
  "var v6 sync.WaitGroup",
  "v6.Add(len(p0))",
  "for v7 := 0; v7 < len(p0); v7++ {",
  "v8 := v7",
  "go func() { }()",
  "func#0 {",
  "defer v6.Done()",
  "defer p0[v8].Close()",
  "defer func() { }()",
  "func#0 {",
  "if int(atomic.AddUint32(&v2, 1)) == len(p0) && atomic.LoadUint32(&v3) == 0 {",
  "v0.Close(nil)",
  "}",
  "}",
  "for {",
  "v9, v10 := p0[v8].Next(v4)",
  "if v10 == End {",
  "return",
  "} else {",
  "if v10 != nil {",
  "if atomic.CompareAndSwapUint32(&v3, 0, 1) {",
  "v5()",
  "v0.Close(v10)",
  "}",
  "return",
  "}",
  "}",
  "v10 = v0.Send(v4, v9)",
  "if v10 != nil {",
  "return",
  "}",
  "}",
  "}",
  "}",
  "return &mergeStream[T0]{inner: v1, cancel: func() { }}",
  "func#0 {",
  "v5()",
  "v6.Wait()",
  "}"]

/-- `Pipe` in `stream`: signature and full statement list, locals renamed positionally -/
def pin_stream_Pipe : List String := ["func Pipe[T0 any](p0 int) (*PipeSender[T0], Stream[T0])",
  "v0 := make(chan T0, p0)",
  "v1 := make(chan struct{})",
  "v2 := new(error)",
  "v3 := make(chan struct{})",
  "v4 := &PipeSender[T0]{c: v0, senderErr: v2, senderDone: v1, streamDone: v3}",
  "v5 := &pipeStream[T0]{c: v0, senderErr: v2, senderDone: v1, streamDone: v3}",
  "return v4, v5"]

/-- `PipeSender.Close` in `stream`: signature and full statement list, locals renamed positionally -/
def pin_stream_PipeSender_Close : List String := ["func (r *PipeSender[T]) Close(p0 error)",
  "*r.senderErr = p0",
  "close(r.senderDone)"]

/-- `PipeSender.Send` in `stream`: signature and full statement list, locals renamed positionally -/
def pin_stream_PipeSender_Send : List String := ["func (r *PipeSender[T]) Send(p0 context.Context, p1 T) error",
  "select {",
  "case <-p0.Done():",
  "return p0.Err()",
  "case <-r.streamDone:",
  "return ErrClosedPipe",
  "case <-r.senderDone:",
  "return *r.senderErr",
  "case r.c <- p1:",
  "return nil",
  "}"]

/-- `PipeSender.TrySend` in `stream`: signature and full statement list, locals renamed positionally -/
def pin_stream_PipeSender_TrySend : List String := ["func (r *PipeSender[T]) TrySend(p0 context.Context, p1 T) (bool, error)",
  "select {",
  "case <-p0.Done():",
  "return false, p0.Err()",
  "case <-r.streamDone:",
  "return false, ErrClosedPipe",
  "case <-r.senderDone:",
  "return false, *r.senderErr",
  "default:",
  "}",
  "select {",
  "case r.c <- p1:",
  "return true, nil",
  "default:",
  "return false, nil",
  "}"]

/-- `batchStream.Close` in `stream`: signature and full statement list, locals renamed positionally -/
def pin_stream_batchStream_Close : List String := ["func (r *batchStream[T]) Close()",
  "r.bgCancel()",
  "r.wg.Wait()"]

/-- `batchStream.Next` in `stream`: signature and full statement list, locals renamed positionally -/
def pin_stream_batchStream_Next : List String := ["func (r *batchStream[T]) Next(p0 context.Context) ([]T, error)",
  "select {",
  "case v0, v1 := <-r.batchC:",
  "if !v1 {",
  "if r.err != nil {",
  "return nil, r.err",
  "}",
  "return nil, End",
  "}",
  "return v0, nil",
  "case r.waiting <- struct{}{}:",
  "select {",
  "case v2, v3 := <-r.batchC:",
  "if !v3 {",
  "if r.err != nil {",
  "return nil, r.err",
  "}",
  "return nil, End",
  "}",
  "return v2, nil",
  "case <-p0.Done():",
  "return nil, p0.Err()",
  "}",
  "case <-p0.Done():",
  "return nil, p0.Err()",
  "}"]

/-- `chanStream.Close` in `stream`: signature and full statement list, locals renamed positionally -/
def pin_stream_chanStream_Close : List String := ["func (r *chanStream[T]) Close()"]

/-- `chanStream.Next` in `stream`: signature and full statement list, locals renamed positionally -/
def pin_stream_chanStream_Next : List String := ["func (r *chanStream[T]) Next(p0 context.Context) (T, error)",
  "var v0 T",
  "select {",
  "case v1, v2 := <-r.c:",
  "if !v2 {",
  "return v0, End",
  "}",
  "return v1, nil",
  "case <-p0.Done():",
  "return v0, p0.Err()",
  "}"]

/-- `mergeStream.Close` in `stream`: signature and full statement list, locals renamed positionally -/
def pin_stream_mergeStream_Close : List String := ["func (r *mergeStream[T]) Close()",
  "r.inner.Close()",
  "r.cancel()"]

/-- `mergeStream.Next` in `stream`: signature and full statement list, locals renamed positionally -/
def pin_stream_mergeStream_Next : List String := ["func (r *mergeStream[T]) Next(p0 context.Context) (T, error)",
  "return r.inner.Next(p0)"]

/-- `pipeStream.Close` in `stream`: signature and full statement list, locals renamed positionally -/
def pin_stream_pipeStream_Close : List String := ["func (r *pipeStream[T]) Close()",
  "close(r.streamDone)"]

/-- `pipeStream.Next` in `stream`: signature and full statement list, locals renamed positionally -/
def pin_stream_pipeStream_Next : List String := ["func (r *pipeStream[T]) Next(p0 context.Context) (T, error)",
  "var v0 T",
  "select {",
  "case <-p0.Done():",
  "return v0, p0.Err()",
  "case v1 := <-r.c:",
  "return v1, nil",
  "case <-r.senderDone:",
  "select {",
  "case v2 := <-r.c:",
  "return v2, nil",
  "default:",
  "}",
  "v3 := *r.senderErr",
  "if v3 != nil {",
  "return v0, v3",
  "}",
  "return v0, End",
  "}"]

/-- package-level var / const declarations of `chans`, in source order -/
def pin_chans_vars : List String := []

/-- type `Peekable` of `stream`: one line per field / method -/
def pin_stream_type_Peekable : List String := ["type Peekable[T any] interface",
  "Stream[T]",
  "Peek func(ctx context.Context) (T, error)"]

/-- type `PipeSender` of `stream`: one line per field / method -/
def pin_stream_type_PipeSender : List String := ["type PipeSender[T any] struct",
  "c chan<- T",
  "senderErr *error",
  "senderDone chan struct{}",
  "streamDone <-chan struct{}"]

/-- type `Stream` of `stream`: one line per field / method -/
def pin_stream_type_Stream : List String := ["type Stream[T any] interface",
  "Next func(ctx context.Context) (T, error)",
  "Close func()"]

/-- type `batchStream` of `stream`: one line per field / method -/
def pin_stream_type_batchStream : List String := ["type batchStream[T any] struct",
  "bgCancel context.CancelFunc",
  "wg sync.WaitGroup",
  "batchC chan []T",
  "err error",
  "waiting chan struct{}"]

/-- type `chanStream` of `stream`: one line per field / method -/
def pin_stream_type_chanStream : List String := ["type chanStream[T any] struct",
  "c <-chan T"]

/-- type `chunkStream` of `stream`: one line per field / method -/
def pin_stream_type_chunkStream : List String := ["type chunkStream[T any] struct",
  "inner Stream[T]",
  "chunkSize int",
  "chunk []T"]

/-- type `compactStream` of `stream`: one line per field / method -/
def pin_stream_type_compactStream : List String := ["type compactStream[T any] struct",
  "inner Stream[T]",
  "prev T",
  "first bool",
  "eq func(T, T) bool"]

/-- type `emptyStream` of `stream`: one line per field / method -/
def pin_stream_type_emptyStream : List String := ["type emptyStream[T any] struct"]

/-- type `errorStream` of `stream`: one line per field / method -/
def pin_stream_type_errorStream : List String := ["type errorStream[T any] struct",
  "err error"]

/-- type `filterStream` of `stream`: one line per field / method -/
def pin_stream_type_filterStream : List String := ["type filterStream[T any] struct",
  "inner Stream[T]",
  "keep func(context.Context, T) (bool, error)"]

/-- type `firstStream` of `stream`: one line per field / method -/
def pin_stream_type_firstStream : List String := ["type firstStream[T any] struct",
  "inner Stream[T]",
  "x int"]

/-- type `flattenSlicesStream` of `stream`: one line per field / method -/
def pin_stream_type_flattenSlicesStream : List String := ["type flattenSlicesStream[T any] struct",
  "inner Stream[[]T]",
  "buffer []T"]

/-- type `flattenStream` of `stream`: one line per field / method -/
def pin_stream_type_flattenStream : List String := ["type flattenStream[T any] struct",
  "inner Stream[Stream[T]]",
  "curr Stream[T]"]

/-- type `iteratorStream` of `stream`: one line per field / method -/
def pin_stream_type_iteratorStream : List String := ["type iteratorStream[T any] struct",
  "iter iterator.Iterator[T]"]

/-- type `joinStream` of `stream`: one line per field / method -/
def pin_stream_type_joinStream : List String := ["type joinStream[T any] struct",
  "remaining []Stream[T]"]

/-- type `mapStream` of `stream`: one line per field / method -/
def pin_stream_type_mapStream : List String := ["type mapStream[T any, U any] struct",
  "inner Stream[T]",
  "f func(context.Context, T) (U, error)"]

/-- type `mergeStream` of `stream`: one line per field / method -/
def pin_stream_type_mergeStream : List String := ["type mergeStream[T any] struct",
  "inner Stream[T]",
  "cancel func()"]

/-- type `peekable` of `stream`: one line per field / method -/
def pin_stream_type_peekable : List String := ["type peekable[T any] struct",
  "inner Stream[T]",
  "curr T",
  "has bool"]

/-- type `pipeStream` of `stream`: one line per field / method -/
def pin_stream_type_pipeStream : List String := ["type pipeStream[T any] struct",
  "c <-chan T",
  "senderErr *error",
  "senderDone <-chan struct{}",
  "streamDone chan<- struct{}"]

/-- type `runsInnerStream` of `stream`: one line per field / method -/
def pin_stream_type_runsInnerStream : List String := ["type runsInnerStream[T any] struct",
  "parent *runsStream[T]",
  "prev T"]

/-- type `runsStream` of `stream`: one line per field / method -/
def pin_stream_type_runsStream : List String := ["type runsStream[T any] struct",
  "inner Peekable[T]",
  "same func(a, b T) bool",
  "curr *runsInnerStream[T]"]

/-- type `whileStream` of `stream`: one line per field / method -/
def pin_stream_type_whileStream : List String := ["type whileStream[T any] struct",
  "inner Stream[T]",
  "f func(context.Context, T) (bool, error)",
  "item T",
  "has bool",
  "done bool"]

/-- package-level var / const declarations of `stream`, in source order -/
def pin_stream_vars : List String := ["var End = errors.New(\"end of stream\")",
  "var ErrClosedPipe = errors.New(\"closed pipe\")",
  "var ErrMoreThanOne = errors.New(\"stream had more than one item\")",
  "var ErrEmpty = errors.New(\"stream empty\")"]

end Juniper.Pinned.Skeleton
