-- PINNED expectations, written by `gofacts -pin` (see notes/pins.md). Committed. Re-pinning is a deliberate act of
-- whoever changed the Go code or a model, after reviewing that the model still mirrors the code: never part of a check.

namespace Juniper.Pinned.Deque

/-- `Deque.Front` in `container/deque`: signature and full statement list, locals renamed positionally -/
def pin_container_deque_Deque_Front : List String := ["func (r *Deque[T]) Front() T",
  "if r.back == -1 {",
  "panic(\"deque index out of range\")",
  "}",
  "return r.a[r.front]"]

/-- `Deque.Grow` in `container/deque`: signature and full statement list, locals renamed positionally -/
def pin_container_deque_Deque_Grow : List String := ["func (r *Deque[T]) Grow(p0 int)",
  "v0 := len(r.a) - r.Len()",
  "if v0 < p0 {",
  "r.resize(len(r.a) + p0)",
  "}"]

/-- `Deque.Item` in `container/deque`: signature and full statement list, locals renamed positionally -/
def pin_container_deque_Deque_Item : List String := ["func (r *Deque[T]) Item(p0 int) T",
  "if p0 < 0 || p0 >= r.Len() {",
  "panic(\"deque index out of range\")",
  "}",
  "v0 := (r.front + p0) % len(r.a)",
  "return r.a[v0]"]

/-- `Deque.Iterate` in `container/deque`: signature and full statement list, locals renamed positionally -/
def pin_container_deque_Deque_Iterate : List String := ["func (r *Deque[T]) Iterate() iterator.Iterator[T]",
  "return &dequeIterator[T]{d: r, i: r.front, done: false, gen: r.gen}"]

/-- `Deque.Len` in `container/deque`: signature and full statement list, locals renamed positionally -/
def pin_container_deque_Deque_Len : List String := ["func (r *Deque[T]) Len() int",
  "if r.a == nil || r.back == -1 {",
  "return 0",
  "}",
  "if r.front <= r.back {",
  "return r.back - r.front + 1",
  "}",
  "return len(r.a) - r.front + r.back + 1"]

/-- `Deque.PopBack` in `container/deque`: signature and full statement list, locals renamed positionally -/
def pin_container_deque_Deque_PopBack : List String := ["func (r *Deque[T]) PopBack() T",
  "v0 := r.Len()",
  "if v0 == 0 {",
  "panic(errDequeEmpty)",
  "}",
  "v1 := r.a[r.back]",
  "var v2 T",
  "if v0 == 1 {",
  "r.a[r.back] = v2",
  "r.front = 0",
  "r.back = -1",
  "r.gen++",
  "return v1",
  "}",
  "r.a[r.back] = v2",
  "r.back = positiveMod(r.back-1, len(r.a))",
  "r.gen++",
  "return v1"]

/-- `Deque.PopFront` in `container/deque`: signature and full statement list, locals renamed positionally -/
def pin_container_deque_Deque_PopFront : List String := ["func (r *Deque[T]) PopFront() T",
  "v0 := r.Len()",
  "if v0 == 0 {",
  "panic(errDequeEmpty)",
  "}",
  "v1 := r.a[r.front]",
  "var v2 T",
  "if v0 == 1 {",
  "r.a[r.front] = v2",
  "r.front = 0",
  "r.back = -1",
  "r.gen++",
  "return v1",
  "}",
  "r.a[r.front] = v2",
  "r.front = (r.front + 1) % len(r.a)",
  "r.gen++",
  "return v1"]

/-- `Deque.PushBack` in `container/deque`: signature and full statement list, locals renamed positionally -/
def pin_container_deque_Deque_PushBack : List String := ["func (r *Deque[T]) PushBack(p0 T)",
  "r.maybeExpand()",
  "if r.back == -1 {",
  "r.back = r.front",
  "} else {",
  "r.back = (r.back + 1) % len(r.a)",
  "}",
  "r.a[r.back] = p0",
  "r.gen++"]

/-- `Deque.PushFront` in `container/deque`: signature and full statement list, locals renamed positionally -/
def pin_container_deque_Deque_PushFront : List String := ["func (r *Deque[T]) PushFront(p0 T)",
  "r.maybeExpand()",
  "r.front = positiveMod(r.front-1, len(r.a))",
  "r.a[r.front] = p0",
  "if r.back == -1 {",
  "r.back = r.front",
  "}",
  "r.gen++"]

/-- `Deque.Set` in `container/deque`: signature and full statement list, locals renamed positionally -/
def pin_container_deque_Deque_Set : List String := ["func (r *Deque[T]) Set(p0 int, p1 T)",
  "if p0 < 0 || p0 >= r.Len() {",
  "panic(\"deque index out of range\")",
  "}",
  "v0 := (r.front + p0) % len(r.a)",
  "r.a[v0] = p1",
  "r.gen++"]

/-- `Deque.Shrink` in `container/deque`: signature and full statement list, locals renamed positionally -/
def pin_container_deque_Deque_Shrink : List String := ["func (r *Deque[T]) Shrink(p0 int)",
  "if p0 < 0 {",
  "panic(\"Shrink() with a negative number of extras\")",
  "}",
  "if len(r.a)-r.Len() > p0 {",
  "r.resize(r.Len() + p0)",
  "}"]

/-- `Deque.maybeExpand` in `container/deque`: signature and full statement list, locals renamed positionally -/
def pin_container_deque_Deque_maybeExpand : List String := ["func (r *Deque[T]) maybeExpand()",
  "if r.Len() == len(r.a) {",
  "r.resize(xmath.Max(minSize, len(r.a)*2))",
  "}"]

/-- `Deque.resize` in `container/deque`: signature and full statement list, locals renamed positionally -/
def pin_container_deque_Deque_resize : List String := ["func (r *Deque[T]) resize(p0 int)",
  "v0 := r.Len()",
  "v1 := make([]T, p0)",
  "if !(r.a == nil || r.back == -1) {",
  "if r.front <= r.back {",
  "copy(v1, r.a[r.front:r.back+1])",
  "} else {",
  "copy(v1, r.a[r.front:])",
  "copy(v1[len(r.a)-r.front:], r.a[:r.back+1])",
  "}",
  "}",
  "r.a = v1",
  "r.front = 0",
  "r.back = v0 - 1",
  "r.gen++"]

/-- `dequeIterator.Next` in `container/deque`: signature and full statement list, locals renamed positionally -/
def pin_container_deque_dequeIterator_Next : List String := ["func (r *dequeIterator[T]) Next() (T, bool)",
  "if r.gen != r.d.gen {",
  "panic(errDequeModified)",
  "}",
  "var v0 T",
  "if r.d.Len() == 0 {",
  "return v0, false",
  "}",
  "if r.done {",
  "return v0, false",
  "}",
  "v1 := r.d.a[r.i]",
  "if r.i == r.d.back {",
  "r.done = true",
  "}",
  "r.i = (r.i + 1) % len(r.d.a)",
  "return v1, true"]

/-- `positiveMod` in `container/deque`: signature and full statement list, locals renamed positionally -/
def pin_container_deque_positiveMod : List String := ["func positiveMod(p0, p1 int) int",
  "v0 := p0 % p1",
  "if v0 < 0 {",
  "return v0 + p1",
  "}",
  "return v0"]

/-- type `Deque` of `container/deque`: one line per field / method -/
def pin_container_deque_type_Deque : List String := ["type Deque[T any] struct",
  "a []T",
  "front int",
  "back int",
  "gen int"]

/-- type `dequeIterator` of `container/deque`: one line per field / method -/
def pin_container_deque_type_dequeIterator : List String := ["type dequeIterator[T any] struct",
  "d *Deque[T]",
  "i int",
  "done bool",
  "gen int"]

/-- package-level var / const declarations of `container/deque`, in source order -/
def pin_container_deque_vars : List String := ["var errDequeEmpty = errors.New(\"pop from empty deque\")",
  "var errDequeModified = errors.New(\"deque modified during iteration\")",
  "const minSize = 16",
  "const growFactor = 2"]

end Juniper.Pinned.Deque
