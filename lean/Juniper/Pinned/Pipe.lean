-- PINNED expectations, written by `gofacts -pin` (see notes/pins.md). Committed. Re-pinning is a deliberate act of
-- whoever changed the Go code or a model, after reviewing that the model still mirrors the code: never part of a check.

namespace Juniper.Pinned.Pipe

/-- `Chan` in `stream`: signature and full statement list, locals renamed positionally -/
def pin_stream_Chan : List String := ["func Chan[T0 any](p0 <-chan T0) Stream[T0]",
  "return &chanStream[T0]{c: p0}"]

/-- `Pipe` in `stream`: signature and full statement list, locals renamed positionally -/
def pin_stream_Pipe : List String := ["func Pipe[T0 any](p0 int) (*PipeSender[T0], Stream[T0])",
  "v0 := make(chan T0, p0)",
  "v1 := make(chan struct{})",
  "v2 := new(error)",
  "v3 := make(chan struct{})",
  "v4 := &PipeSender[T0]{c: v0, senderErr: v2, senderDone: v1, streamDone: v3}",
  "v5 := &pipeStream[T0]{c: v0, senderErr: v2, senderDone: v1, streamDone: v3}",
  "return v4, v5"]

/-- `PipeSender.Close` in `stream`: signature and full statement list, locals renamed positionally -/
def pin_stream_PipeSender_Close : List String := ["func (r *PipeSender[T]) Close(p0 error)",
  "*r.senderErr = p0",
  "close(r.senderDone)"]

/-- `PipeSender.Send` in `stream`: signature and full statement list, locals renamed positionally -/
def pin_stream_PipeSender_Send : List String := ["func (r *PipeSender[T]) Send(p0 context.Context, p1 T) error",
  "select {",
  "case <-p0.Done():",
  "return p0.Err()",
  "case <-r.streamDone:",
  "return ErrClosedPipe",
  "case <-r.senderDone:",
  "return *r.senderErr",
  "case r.c <- p1:",
  "return nil",
  "}"]

/-- `PipeSender.TrySend` in `stream`: signature and full statement list, locals renamed positionally -/
def pin_stream_PipeSender_TrySend : List String := ["func (r *PipeSender[T]) TrySend(p0 context.Context, p1 T) (bool, error)",
  "select {",
  "case <-p0.Done():",
  "return false, p0.Err()",
  "case <-r.streamDone:",
  "return false, ErrClosedPipe",
  "case <-r.senderDone:",
  "return false, *r.senderErr",
  "default:",
  "}",
  "select {",
  "case r.c <- p1:",
  "return true, nil",
  "default:",
  "return false, nil",
  "}"]

/-- `chanStream.Next` in `stream`: signature and full statement list, locals renamed positionally -/
def pin_stream_chanStream_Next : List String := ["func (r *chanStream[T]) Next(p0 context.Context) (T, error)",
  "var v0 T",
  "select {",
  "case v1, v2 := <-r.c:",
  "if !v2 {",
  "return v0, End",
  "}",
  "return v1, nil",
  "case <-p0.Done():",
  "return v0, p0.Err()",
  "}"]

/-- `pipeStream.Close` in `stream`: signature and full statement list, locals renamed positionally -/
def pin_stream_pipeStream_Close : List String := ["func (r *pipeStream[T]) Close()",
  "close(r.streamDone)"]

/-- `pipeStream.Next` in `stream`: signature and full statement list, locals renamed positionally -/
def pin_stream_pipeStream_Next : List String := ["func (r *pipeStream[T]) Next(p0 context.Context) (T, error)",
  "var v0 T",
  "select {",
  "case <-p0.Done():",
  "return v0, p0.Err()",
  "case v1 := <-r.c:",
  "return v1, nil",
  "case <-r.senderDone:",
  "select {",
  "case v2 := <-r.c:",
  "return v2, nil",
  "default:",
  "}",
  "v3 := *r.senderErr",
  "if v3 != nil {",
  "return v0, v3",
  "}",
  "return v0, End",
  "}"]

/-- type `Peekable` of `stream`: one line per field / method -/
def pin_stream_type_Peekable : List String := ["type Peekable[T any] interface",
  "Stream[T]",
  "Peek func(ctx context.Context) (T, error)"]

/-- type `PipeSender` of `stream`: one line per field / method -/
def pin_stream_type_PipeSender : List String := ["type PipeSender[T any] struct",
  "c chan<- T",
  "senderErr *error",
  "senderDone chan struct{}",
  "streamDone <-chan struct{}"]

/-- type `Stream` of `stream`: one line per field / method -/
def pin_stream_type_Stream : List String := ["type Stream[T any] interface",
  "Next func(ctx context.Context) (T, error)",
  "Close func()"]

/-- type `batchStream` of `stream`: one line per field / method -/
def pin_stream_type_batchStream : List String := ["type batchStream[T any] struct",
  "bgCancel context.CancelFunc",
  "wg sync.WaitGroup",
  "batchC chan []T",
  "err error",
  "waiting chan struct{}"]

/-- type `chanStream` of `stream`: one line per field / method -/
def pin_stream_type_chanStream : List String := ["type chanStream[T any] struct",
  "c <-chan T"]

/-- type `chunkStream` of `stream`: one line per field / method -/
def pin_stream_type_chunkStream : List String := ["type chunkStream[T any] struct",
  "inner Stream[T]",
  "chunkSize int",
  "chunk []T"]

/-- type `compactStream` of `stream`: one line per field / method -/
def pin_stream_type_compactStream : List String := ["type compactStream[T any] struct",
  "inner Stream[T]",
  "prev T",
  "first bool",
  "eq func(T, T) bool"]

/-- type `emptyStream` of `stream`: one line per field / method -/
def pin_stream_type_emptyStream : List String := ["type emptyStream[T any] struct"]

/-- type `errorStream` of `stream`: one line per field / method -/
def pin_stream_type_errorStream : List String := ["type errorStream[T any] struct",
  "err error"]

/-- type `filterStream` of `stream`: one line per field / method -/
def pin_stream_type_filterStream : List String := ["type filterStream[T any] struct",
  "inner Stream[T]",
  "keep func(context.Context, T) (bool, error)"]

/-- type `firstStream` of `stream`: one line per field / method -/
def pin_stream_type_firstStream : List String := ["type firstStream[T any] struct",
  "inner Stream[T]",
  "x int"]

/-- type `flattenSlicesStream` of `stream`: one line per field / method -/
def pin_stream_type_flattenSlicesStream : List String := ["type flattenSlicesStream[T any] struct",
  "inner Stream[[]T]",
  "buffer []T"]

/-- type `flattenStream` of `stream`: one line per field / method -/
def pin_stream_type_flattenStream : List String := ["type flattenStream[T any] struct",
  "inner Stream[Stream[T]]",
  "curr Stream[T]"]

/-- type `iteratorStream` of `stream`: one line per field / method -/
def pin_stream_type_iteratorStream : List String := ["type iteratorStream[T any] struct",
  "iter iterator.Iterator[T]"]

/-- type `joinStream` of `stream`: one line per field / method -/
def pin_stream_type_joinStream : List String := ["type joinStream[T any] struct",
  "remaining []Stream[T]"]

/-- type `mapStream` of `stream`: one line per field / method -/
def pin_stream_type_mapStream : List String := ["type mapStream[T any, U any] struct",
  "inner Stream[T]",
  "f func(context.Context, T) (U, error)"]

/-- type `mergeStream` of `stream`: one line per field / method -/
def pin_stream_type_mergeStream : List String := ["type mergeStream[T any] struct",
  "inner Stream[T]",
  "cancel func()"]

/-- type `peekable` of `stream`: one line per field / method -/
def pin_stream_type_peekable : List String := ["type peekable[T any] struct",
  "inner Stream[T]",
  "curr T",
  "has bool"]

/-- type `pipeStream` of `stream`: one line per field / method -/
def pin_stream_type_pipeStream : List String := ["type pipeStream[T any] struct",
  "c <-chan T",
  "senderErr *error",
  "senderDone <-chan struct{}",
  "streamDone chan<- struct{}"]

/-- type `runsInnerStream` of `stream`: one line per field / method -/
def pin_stream_type_runsInnerStream : List String := ["type runsInnerStream[T any] struct",
  "parent *runsStream[T]",
  "prev T"]

/-- type `runsStream` of `stream`: one line per field / method -/
def pin_stream_type_runsStream : List String := ["type runsStream[T any] struct",
  "inner Peekable[T]",
  "same func(a, b T) bool",
  "curr *runsInnerStream[T]"]

/-- type `whileStream` of `stream`: one line per field / method -/
def pin_stream_type_whileStream : List String := ["type whileStream[T any] struct",
  "inner Stream[T]",
  "f func(context.Context, T) (bool, error)",
  "item T",
  "has bool",
  "done bool"]

/-- package-level var / const declarations of `stream`, in source order -/
def pin_stream_vars : List String := ["var End = errors.New(\"end of stream\")",
  "var ErrClosedPipe = errors.New(\"closed pipe\")",
  "var ErrMoreThanOne = errors.New(\"stream had more than one item\")",
  "var ErrEmpty = errors.New(\"stream empty\")"]

end Juniper.Pinned.Pipe
