-- PINNED expectations, written by `gofacts -pin` (see notes/pins.md). Committed. Re-pinning is a deliberate act of
-- whoever changed the Go code or a model, after reviewing that the model still mirrors the code: never part of a check.

namespace Juniper.Pinned.Heap

/-- `Heap.Grow` in `container/xheap`: signature and full statement list, locals renamed positionally -/
def pin_container_xheap_Heap_Grow : List String := ["func (r Heap[T]) Grow(p0 int)",
  "r.inner.Grow(p0)"]

/-- `Heap.Iterate` in `container/xheap`: signature and full statement list, locals renamed positionally -/
def pin_container_xheap_Heap_Iterate : List String := ["func (r Heap[T]) Iterate() iterator.Iterator[T]",
  "return r.inner.Iterate()"]

/-- `Heap.Len` in `container/xheap`: signature and full statement list, locals renamed positionally -/
def pin_container_xheap_Heap_Len : List String := ["func (r Heap[T]) Len() int",
  "return r.inner.Len()"]

/-- `Heap.Peek` in `container/xheap`: signature and full statement list, locals renamed positionally -/
def pin_container_xheap_Heap_Peek : List String := ["func (r Heap[T]) Peek() T",
  "return r.inner.Peek()"]

/-- `Heap.Pop` in `container/xheap`: signature and full statement list, locals renamed positionally -/
def pin_container_xheap_Heap_Pop : List String := ["func (r Heap[T]) Pop() T",
  "return r.inner.Pop()"]

/-- `Heap.Push` in `container/xheap`: signature and full statement list, locals renamed positionally -/
def pin_container_xheap_Heap_Push : List String := ["func (r Heap[T]) Push(p0 T)",
  "r.inner.Push(p0)"]

/-- `Heap.Shrink` in `container/xheap`: signature and full statement list, locals renamed positionally -/
def pin_container_xheap_Heap_Shrink : List String := ["func (r Heap[T]) Shrink(p0 int)",
  "r.inner.Shrink(p0)"]

/-- `New` in `container/xheap`: signature and full statement list, locals renamed positionally -/
def pin_container_xheap_New : List String := ["func New[T0 any](p0 xsort.Less[T0], p1 []T0) Heap[T0]",
  "v0 := heap.New(func(v1, v2 T0) bool { }, func(v3 T0, v4 int) { }, p1)",
  "func#0 {",
  "return p0(v1, v2)",
  "}",
  "func#1 {",
  "}",
  "return Heap[T0]{inner: &v0}"]

/-- `NewCmp` in `container/xheap`: signature and full statement list, locals renamed positionally -/
def pin_container_xheap_NewCmp : List String := ["func NewCmp[T0 any](p0 func(T0, T0) int, p1 []T0) Heap[T0]",
  "return New(func(v0, v1 T0) bool { }, p1)",
  "func#0 {",
  "return p0(v0, v1) < 0",
  "}"]

/-- `NewPriorityQueue` in `container/xheap`: signature and full statement list, locals renamed positionally -/
def pin_container_xheap_NewPriorityQueue : List String := ["func NewPriorityQueue[T0 comparable, T1 any](p0 xsort.Less[T1], p1 []KP[T0, T1]) PriorityQueue[T0, T1]",
  "v0 := PriorityQueue[T0, T1]{m: make(map[T0]int)}",
  "v1 := p1[:0]",
  "for _, v2 := range p1 {",
  "_, v3 := v0.m[v2.K]",
  "if v3 {",
  "continue",
  "}",
  "v0.m[v2.K] = -1",
  "v1 = append(v1, v2)",
  "}",
  "p1 = v1",
  "v4 := heap.New(func(v5, v6 KP[T0, T1]) bool { }, func(v7 KP[T0, T1], v8 int) { }, p1)",
  "func#0 {",
  "return p0(v5.P, v6.P)",
  "}",
  "func#1 {",
  "v0.m[v7.K] = v8",
  "}",
  "v0.inner = &v4",
  "return v0"]

/-- `NewPriorityQueueCmp` in `container/xheap`: signature and full statement list, locals renamed positionally -/
def pin_container_xheap_NewPriorityQueueCmp : List String := ["func NewPriorityQueueCmp[T0 comparable, T1 any](p0 func(T1, T1) int, p1 []KP[T0, T1]) PriorityQueue[T0, T1]",
  "return NewPriorityQueue(func(v0, v1 T1) bool { }, p1)",
  "func#0 {",
  "return p0(v0, v1) < 0",
  "}"]

/-- `PriorityQueue.Contains` in `container/xheap`: signature and full statement list, locals renamed positionally -/
def pin_container_xheap_PriorityQueue_Contains : List String := ["func (r PriorityQueue[K, P]) Contains(p0 K) bool",
  "_, v0 := r.m[p0]",
  "return v0"]

/-- `PriorityQueue.Iterate` in `container/xheap`: signature and full statement list, locals renamed positionally -/
def pin_container_xheap_PriorityQueue_Iterate : List String := ["func (r PriorityQueue[K, P]) Iterate() iterator.Iterator[K]",
  "return iterator.Map(r.inner.Iterate(), func(v0 KP[K, P]) K { })",
  "func#0 {",
  "return v0.K",
  "}"]

/-- `PriorityQueue.Len` in `container/xheap`: signature and full statement list, locals renamed positionally -/
def pin_container_xheap_PriorityQueue_Len : List String := ["func (r PriorityQueue[K, P]) Len() int",
  "return r.inner.Len()"]

/-- `PriorityQueue.Peek` in `container/xheap`: signature and full statement list, locals renamed positionally -/
def pin_container_xheap_PriorityQueue_Peek : List String := ["func (r PriorityQueue[K, P]) Peek() K",
  "return r.inner.Peek().K"]

/-- `PriorityQueue.Pop` in `container/xheap`: signature and full statement list, locals renamed positionally -/
def pin_container_xheap_PriorityQueue_Pop : List String := ["func (r PriorityQueue[K, P]) Pop() K",
  "v0 := r.inner.Pop()",
  "delete(r.m, v0.K)",
  "return v0.K"]

/-- `PriorityQueue.Priority` in `container/xheap`: signature and full statement list, locals renamed positionally -/
def pin_container_xheap_PriorityQueue_Priority : List String := ["func (r PriorityQueue[K, P]) Priority(p0 K) P",
  "v0, v1 := r.m[p0]",
  "if v1 {",
  "return r.inner.Item(v0).P",
  "}",
  "var v2 P",
  "return v2"]

/-- `PriorityQueue.Remove` in `container/xheap`: signature and full statement list, locals renamed positionally -/
def pin_container_xheap_PriorityQueue_Remove : List String := ["func (r PriorityQueue[K, P]) Remove(p0 K)",
  "v0, v1 := r.m[p0]",
  "if !v1 {",
  "return",
  "}",
  "r.inner.RemoveAt(v0)",
  "delete(r.m, p0)"]

/-- `PriorityQueue.Update` in `container/xheap`: signature and full statement list, locals renamed positionally -/
def pin_container_xheap_PriorityQueue_Update : List String := ["func (r PriorityQueue[K, P]) Update(p0 K, p1 P)",
  "v0, v1 := r.m[p0]",
  "if v1 {",
  "r.inner.UpdateAt(v0, KP[K, P]{p0, p1})",
  "} else {",
  "r.inner.Push(KP[K, P]{p0, p1})",
  "}"]

/-- `Heap.Grow` in `internal/heap`: signature and full statement list, locals renamed positionally -/
def pin_internal_heap_Heap_Grow : List String := ["func (r *Heap[T]) Grow(p0 int)",
  "r.a = xslices.Grow(r.a, p0)"]

/-- `Heap.Item` in `internal/heap`: signature and full statement list, locals renamed positionally -/
def pin_internal_heap_Heap_Item : List String := ["func (r *Heap[T]) Item(p0 int) T",
  "return r.a[p0]"]

/-- `Heap.Iterate` in `internal/heap`: signature and full statement list, locals renamed positionally -/
def pin_internal_heap_Heap_Iterate : List String := ["func (r *Heap[T]) Iterate() iterator.Iterator[T]",
  "return &heapIterator[T]{h: r, gen: -1}"]

/-- `Heap.Len` in `internal/heap`: signature and full statement list, locals renamed positionally -/
def pin_internal_heap_Heap_Len : List String := ["func (r *Heap[T]) Len() int",
  "return len(r.a)"]

/-- `Heap.Peek` in `internal/heap`: signature and full statement list, locals renamed positionally -/
def pin_internal_heap_Heap_Peek : List String := ["func (r *Heap[T]) Peek() T",
  "return r.a[0]"]

/-- `Heap.Pop` in `internal/heap`: signature and full statement list, locals renamed positionally -/
def pin_internal_heap_Heap_Pop : List String := ["func (r *Heap[T]) Pop() T",
  "var v0 T",
  "v1 := r.a[0]",
  "(r.a)[0] = (r.a)[len(r.a)-1]",
  "(r.a)[len(r.a)-1] = v0",
  "r.a = (r.a)[:len(r.a)-1]",
  "if len(r.a) > 0 {",
  "r.notifyIndexChanged(0)",
  "}",
  "r.percolateDown(0)",
  "r.gen++",
  "return v1"]

/-- `Heap.Push` in `internal/heap`: signature and full statement list, locals renamed positionally -/
def pin_internal_heap_Heap_Push : List String := ["func (r *Heap[T]) Push(p0 T)",
  "r.a = append(r.a, p0)",
  "r.notifyIndexChanged(len(r.a) - 1)",
  "r.percolateUp(len(r.a) - 1)",
  "r.gen++"]

/-- `Heap.RemoveAt` in `internal/heap`: signature and full statement list, locals renamed positionally -/
def pin_internal_heap_Heap_RemoveAt : List String := ["func (r *Heap[T]) RemoveAt(p0 int)",
  "var v0 T",
  "r.a[p0] = r.a[len(r.a)-1]",
  "r.a[len(r.a)-1] = v0",
  "r.a = r.a[:len(r.a)-1]",
  "if p0 < len(r.a) {",
  "r.notifyIndexChanged(p0)",
  "r.percolateUp(p0)",
  "r.percolateDown(p0)",
  "}",
  "r.gen++"]

/-- `Heap.Shrink` in `internal/heap`: signature and full statement list, locals renamed positionally -/
def pin_internal_heap_Heap_Shrink : List String := ["func (r *Heap[T]) Shrink(p0 int)",
  "r.a = xslices.Shrink(r.a, p0)"]

/-- `Heap.UpdateAt` in `internal/heap`: signature and full statement list, locals renamed positionally -/
def pin_internal_heap_Heap_UpdateAt : List String := ["func (r *Heap[T]) UpdateAt(p0 int, p1 T)",
  "r.a[p0] = p1",
  "r.notifyIndexChanged(p0)",
  "r.percolateUp(p0)",
  "r.percolateDown(p0)",
  "r.gen++"]

/-- `Heap.less` in `internal/heap`: signature and full statement list, locals renamed positionally -/
def pin_internal_heap_Heap_less : List String := ["func (r *Heap[T]) less(p0, p1 int) bool",
  "return r.lessFn((r.a)[p0], (r.a)[p1])"]

/-- `Heap.notifyIndexChanged` in `internal/heap`: signature and full statement list, locals renamed positionally -/
def pin_internal_heap_Heap_notifyIndexChanged : List String := ["func (r *Heap[T]) notifyIndexChanged(p0 int)",
  "r.indexChanged(r.a[p0], p0)"]

/-- `Heap.percolateDown` in `internal/heap`: signature and full statement list, locals renamed positionally -/
def pin_internal_heap_Heap_percolateDown : List String := ["func (r *Heap[T]) percolateDown(p0 int)",
  "for {",
  "v0, v1 := children(p0)",
  "if v0 >= len(r.a) {",
  "return",
  "} else {",
  "if v1 >= len(r.a) {",
  "if r.less(v0, p0) {",
  "r.swap(v0, p0)",
  "p0 = v0",
  "} else {",
  "return",
  "}",
  "} else {",
  "v2 := v0",
  "if r.less(v1, v0) {",
  "v2 = v1",
  "}",
  "if r.less(v2, p0) {",
  "r.swap(v2, p0)",
  "p0 = v2",
  "} else {",
  "return",
  "}",
  "}",
  "}",
  "}"]

/-- `Heap.percolateUp` in `internal/heap`: signature and full statement list, locals renamed positionally -/
def pin_internal_heap_Heap_percolateUp : List String := ["func (r *Heap[T]) percolateUp(p0 int)",
  "for p0 > 0 {",
  "v0 := parent(p0)",
  "if r.less(p0, v0) {",
  "r.swap(p0, v0)",
  "}",
  "p0 = v0",
  "}"]

/-- `Heap.swap` in `internal/heap`: signature and full statement list, locals renamed positionally -/
def pin_internal_heap_Heap_swap : List String := ["func (r *Heap[T]) swap(p0, p1 int)",
  "(r.a)[p0], (r.a)[p1] = (r.a)[p1], (r.a)[p0]",
  "r.notifyIndexChanged(p0)",
  "r.notifyIndexChanged(p1)"]

/-- `New` in `internal/heap`: signature and full statement list, locals renamed positionally -/
def pin_internal_heap_New : List String := ["func New[T0 any](p0 Less[T0], p1 func(v0 T0, v1 int), p2 []T0) Heap[T0]",
  "v2 := Heap[T0]{lessFn: p0, indexChanged: p1, a: p2}",
  "for v3 := len(p2)/2 - 1; v3 >= 0; v3-- {",
  "v2.percolateDown(v3)",
  "}",
  "for v4 := range p2 {",
  "v2.notifyIndexChanged(v4)",
  "}",
  "return v2"]

/-- `children` in `internal/heap`: signature and full statement list, locals renamed positionally -/
def pin_internal_heap_children : List String := ["func children(p0 int) (int, int)",
  "return p0*2 + 1, p0*2 + 2"]

/-- `heapIterator.Next` in `internal/heap`: signature and full statement list, locals renamed positionally -/
def pin_internal_heap_heapIterator_Next : List String := ["func (r *heapIterator[T]) Next() (T, bool)",
  "if r.gen == -1 {",
  "r.gen = r.h.gen",
  "r.inner = iterator.Slice(r.h.a)",
  "} else {",
  "if r.gen != r.h.gen {",
  "panic(ErrHeapModified)",
  "}",
  "}",
  "return r.inner.Next()"]

/-- `parent` in `internal/heap`: signature and full statement list, locals renamed positionally -/
def pin_internal_heap_parent : List String := ["func parent(p0 int) int",
  "return (p0 - 1) / 2"]

/-- type `Heap` of `container/xheap`: one line per field / method -/
def pin_container_xheap_type_Heap : List String := ["type Heap[T any] struct",
  "inner *heap.Heap[T]"]

/-- type `KP` of `container/xheap`: one line per field / method -/
def pin_container_xheap_type_KP : List String := ["type KP[K any, P any] struct",
  "K K",
  "P P"]

/-- type `PriorityQueue` of `container/xheap`: one line per field / method -/
def pin_container_xheap_type_PriorityQueue : List String := ["type PriorityQueue[K comparable, P any] struct",
  "inner *heap.Heap[KP[K, P]]",
  "m map[K]int"]

/-- package-level var / const declarations of `container/xheap`, in source order -/
def pin_container_xheap_vars : List String := []

/-- type `Heap` of `internal/heap`: one line per field / method -/
def pin_internal_heap_type_Heap : List String := ["type Heap[T any] struct",
  "lessFn Less[T]",
  "indexChanged func(x T, i int)",
  "a []T",
  "gen int"]

/-- type `Less` of `internal/heap`: one line per field / method -/
def pin_internal_heap_type_Less : List String := ["type Less[T any] func(a, b T) bool"]

/-- type `heapIterator` of `internal/heap`: one line per field / method -/
def pin_internal_heap_type_heapIterator : List String := ["type heapIterator[T any] struct",
  "h *Heap[T]",
  "inner iterator.Iterator[T]",
  "gen int"]

/-- package-level var / const declarations of `internal/heap`, in source order -/
def pin_internal_heap_vars : List String := ["var ErrHeapModified = errors.New(\"heap modified during iteration\")"]

end Juniper.Pinned.Heap
