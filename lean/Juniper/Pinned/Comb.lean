-- PINNED expectations, written by `gofacts -pin` (see notes/pins.md). Committed. Re-pinning is a deliberate act of
-- whoever changed the Go code or a model, after reviewing that the model still mirrors the code: never part of a check.

namespace Juniper.Pinned.Comb

/-- `Chunk` in `iterator`: signature and full statement list, locals renamed positionally -/
def pin_iterator_Chunk : List String := ["func Chunk[T0 any](p0 Iterator[T0], p1 int) Iterator[[]T0]",
  "return &chunkIterator[T0]{inner: p0, chunkSize: p1}"]

/-- `Collect` in `iterator`: signature and full statement list, locals renamed positionally -/
def pin_iterator_Collect : List String := ["func Collect[T0 any](p0 Iterator[T0]) []T0",
  "return Reduce(p0, nil, func(v0 []T0, v1 T0) []T0 { })",
  "func#0 {",
  "return append(v0, v1)",
  "}"]

/-- `Compact` in `iterator`: signature and full statement list, locals renamed positionally -/
def pin_iterator_Compact : List String := ["func Compact[T0 comparable](p0 Iterator[T0]) Iterator[T0]",
  "return CompactFunc(p0, func(v0, v1 T0) bool { })",
  "func#0 {",
  "return v0 == v1",
  "}"]

/-- `CompactFunc` in `iterator`: signature and full statement list, locals renamed positionally -/
def pin_iterator_CompactFunc : List String := ["func CompactFunc[T0 any](p0 Iterator[T0], p1 func(T0, T0) bool) Iterator[T0]",
  "return &compactIterator[T0]{inner: p0, first: true, eq: p1}"]

/-- `Counter` in `iterator`: signature and full statement list, locals renamed positionally -/
def pin_iterator_Counter : List String := ["func Counter(p0 int) Iterator[int]",
  "return &counterIterator{i: 0, n: p0}"]

/-- `Equal` in `iterator`: signature and full statement list, locals renamed positionally -/
def pin_iterator_Equal : List String := ["func Equal[T0 comparable](p0 ...Iterator[T0]) bool",
  "if len(p0) == 0 {",
  "return true",
  "}",
  "for {",
  "v0, v1 := p0[0].Next()",
  "for v2 := 1; v2 < len(p0); v2++ {",
  "v3, v4 := p0[v2].Next()",
  "if v1 != v4 {",
  "return false",
  "}",
  "if v1 && v0 != v3 {",
  "return false",
  "}",
  "}",
  "if !v1 {",
  "return true",
  "}",
  "}"]

/-- `First` in `iterator`: signature and full statement list, locals renamed positionally -/
def pin_iterator_First : List String := ["func First[T0 any](p0 Iterator[T0], p1 int) Iterator[T0]",
  "return &firstIterator[T0]{inner: p0, x: p1}"]

/-- `Last` in `iterator`: signature and full statement list, locals renamed positionally -/
def pin_iterator_Last : List String := ["func Last[T0 any](p0 Iterator[T0], p1 int) []T0",
  "v0 := make([]T0, p1)",
  "v1 := 0",
  "for {",
  "v2, v3 := p0.Next()",
  "if !v3 {",
  "break",
  "}",
  "if p1 > 0 {",
  "v0[v1%p1] = v2",
  "}",
  "v1++",
  "}",
  "if v1 < p1 {",
  "return v0[:v1]",
  "}",
  "v4 := make([]T0, p1)",
  "if p1 > 0 {",
  "v5 := v1 % p1",
  "copy(v4, v0[v5:])",
  "copy(v4[p1-v5:], v0[:v5])",
  "}",
  "return v4"]

/-- `One` in `iterator`: signature and full statement list, locals renamed positionally -/
def pin_iterator_One : List String := ["func One[T0 any](p0 Iterator[T0]) (T0, bool)",
  "var v0 T0",
  "v1, v2 := p0.Next()",
  "if !v2 {",
  "return v0, false",
  "}",
  "_, v2 = p0.Next()",
  "if v2 {",
  "return v0, false",
  "}",
  "return v1, true"]

/-- `Reduce` in `iterator`: signature and full statement list, locals renamed positionally -/
def pin_iterator_Reduce : List String := ["func Reduce[T0 any, T1 any](p0 Iterator[T0], p1 T1, p2 func(T1, T0) T1) T1",
  "v0 := p1",
  "for {",
  "v1, v2 := p0.Next()",
  "if !v2 {",
  "return v0",
  "}",
  "v0 = p2(v0, v1)",
  "}"]

/-- `Repeat` in `iterator`: signature and full statement list, locals renamed positionally -/
def pin_iterator_Repeat : List String := ["func Repeat[T0 any](p0 T0, p1 int) Iterator[T0]",
  "return &repeatIterator[T0]{item: p0, x: p1}"]

/-- `While` in `iterator`: signature and full statement list, locals renamed positionally -/
def pin_iterator_While : List String := ["func While[T0 any](p0 Iterator[T0], p1 func(T0) bool) Iterator[T0]",
  "return &whileIterator[T0]{inner: p0, f: p1, done: false}"]

/-- `WithPeek` in `iterator`: signature and full statement list, locals renamed positionally -/
def pin_iterator_WithPeek : List String := ["func WithPeek[T0 any](p0 Iterator[T0]) Peekable[T0]",
  "return &peekable[T0]{inner: p0, has: false}"]

/-- `chanIterator.Next` in `iterator`: signature and full statement list, locals renamed positionally -/
def pin_iterator_chanIterator_Next : List String := ["func (r *chanIterator[T]) Next() (T, bool)",
  "v0, v1 := <-r.c",
  "return v0, v1"]

/-- `chunkIterator.Next` in `iterator`: signature and full statement list, locals renamed positionally -/
def pin_iterator_chunkIterator_Next : List String := ["func (r *chunkIterator[T]) Next() ([]T, bool)",
  "v0 := make([]T, 0, r.chunkSize)",
  "for {",
  "v1, v2 := r.inner.Next()",
  "if !v2 {",
  "break",
  "}",
  "v0 = append(v0, v1)",
  "if len(v0) == r.chunkSize {",
  "return v0, true",
  "}",
  "}",
  "if len(v0) > 0 {",
  "return v0, true",
  "}",
  "return nil, false"]

/-- `compactIterator.Next` in `iterator`: signature and full statement list, locals renamed positionally -/
def pin_iterator_compactIterator_Next : List String := ["func (r *compactIterator[T]) Next() (T, bool)",
  "for {",
  "v0, v1 := r.inner.Next()",
  "if !v1 {",
  "return v0, false",
  "}",
  "if r.first {",
  "r.first = false",
  "r.prev = v0",
  "return v0, true",
  "} else {",
  "if !r.eq(r.prev, v0) {",
  "r.prev = v0",
  "return v0, true",
  "}",
  "}",
  "}"]

/-- `counterIterator.Next` in `iterator`: signature and full statement list, locals renamed positionally -/
def pin_iterator_counterIterator_Next : List String := ["func (r *counterIterator) Next() (int, bool)",
  "if r.i >= r.n {",
  "return 0, false",
  "}",
  "v0 := r.i",
  "r.i++",
  "return v0, true"]

/-- `emptyIterator.Next` in `iterator`: signature and full statement list, locals renamed positionally -/
def pin_iterator_emptyIterator_Next : List String := ["func (r emptyIterator[T]) Next() (T, bool)",
  "var v0 T",
  "return v0, false"]

/-- `filterIterator.Next` in `iterator`: signature and full statement list, locals renamed positionally -/
def pin_iterator_filterIterator_Next : List String := ["func (r *filterIterator[T]) Next() (T, bool)",
  "for {",
  "v0, v1 := r.inner.Next()",
  "if !v1 {",
  "break",
  "}",
  "if r.keep(v0) {",
  "return v0, true",
  "}",
  "}",
  "var v2 T",
  "return v2, false"]

/-- `firstIterator.Next` in `iterator`: signature and full statement list, locals renamed positionally -/
def pin_iterator_firstIterator_Next : List String := ["func (r *firstIterator[T]) Next() (T, bool)",
  "if r.x <= 0 {",
  "var v0 T",
  "return v0, false",
  "}",
  "r.x--",
  "return r.inner.Next()"]

/-- `flattenIterator.Next` in `iterator`: signature and full statement list, locals renamed positionally -/
def pin_iterator_flattenIterator_Next : List String := ["func (r *flattenIterator[T]) Next() (T, bool)",
  "for {",
  "if r.curr == nil {",
  "var v0 bool",
  "r.curr, v0 = r.inner.Next()",
  "if !v0 {",
  "var v1 T",
  "return v1, false",
  "}",
  "}",
  "v2, v3 := r.curr.Next()",
  "if !v3 {",
  "r.curr = nil",
  "continue",
  "}",
  "return v2, true",
  "}"]

/-- `joinIterator.Next` in `iterator`: signature and full statement list, locals renamed positionally -/
def pin_iterator_joinIterator_Next : List String := ["func (r *joinIterator[T]) Next() (T, bool)",
  "for len(r.iters) > 0 {",
  "v0, v1 := r.iters[0].Next()",
  "if v1 {",
  "return v0, true",
  "}",
  "r.iters = r.iters[1:]",
  "}",
  "var v2 T",
  "return v2, false"]

/-- `mapIterator.Next` in `iterator`: signature and full statement list, locals renamed positionally -/
def pin_iterator_mapIterator_Next : List String := ["func (r *mapIterator[T, U]) Next() (U, bool)",
  "var v0 U",
  "v1, v2 := r.inner.Next()",
  "if !v2 {",
  "return v0, false",
  "}",
  "return r.f(v1), true"]

/-- `peekable.Next` in `iterator`: signature and full statement list, locals renamed positionally -/
def pin_iterator_peekable_Next : List String := ["func (r *peekable[T]) Next() (T, bool)",
  "if r.has {",
  "v0 := r.curr",
  "r.has = false",
  "var v1 T",
  "r.curr = v1",
  "return v0, true",
  "}",
  "return r.inner.Next()"]

/-- `peekable.Peek` in `iterator`: signature and full statement list, locals renamed positionally -/
def pin_iterator_peekable_Peek : List String := ["func (r *peekable[T]) Peek() (T, bool)",
  "if !r.has {",
  "r.curr, r.has = r.inner.Next()",
  "}",
  "return r.curr, r.has"]

/-- `repeatIterator.Next` in `iterator`: signature and full statement list, locals renamed positionally -/
def pin_iterator_repeatIterator_Next : List String := ["func (r *repeatIterator[T]) Next() (T, bool)",
  "if r.x <= 0 {",
  "var v0 T",
  "return v0, false",
  "}",
  "r.x--",
  "return r.item, true"]

/-- `runsInnerIterator.Next` in `iterator`: signature and full statement list, locals renamed positionally -/
def pin_iterator_runsInnerIterator_Next : List String := ["func (r *runsInnerIterator[T]) Next() (T, bool)",
  "var v0 T",
  "if r.parent == nil {",
  "return v0, false",
  "}",
  "v1, v2 := r.parent.inner.Peek()",
  "if !v2 || !r.parent.same(r.prev, v1) {",
  "r.parent = nil",
  "return v0, false",
  "}",
  "r.prev = v1",
  "return r.parent.inner.Next()"]

/-- `runsIterator.Next` in `iterator`: signature and full statement list, locals renamed positionally -/
def pin_iterator_runsIterator_Next : List String := ["func (r *runsIterator[T]) Next() (Iterator[T], bool)",
  "if r.curr != nil {",
  "for {",
  "_, v0 := r.curr.Next()",
  "if !v0 {",
  "break",
  "}",
  "}",
  "r.curr = nil",
  "}",
  "v1, v2 := r.inner.Peek()",
  "if !v2 {",
  "return nil, false",
  "}",
  "r.curr = &runsInnerIterator[T]{parent: r, prev: v1}",
  "return r.curr, true"]

/-- `sliceIterator.Next` in `iterator`: signature and full statement list, locals renamed positionally -/
def pin_iterator_sliceIterator_Next : List String := ["func (r *sliceIterator[T]) Next() (T, bool)",
  "if len(r.a) == 0 {",
  "var v0 T",
  "return v0, false",
  "}",
  "v1 := r.a[0]",
  "r.a = r.a[1:]",
  "return v1, true"]

/-- `whileIterator.Next` in `iterator`: signature and full statement list, locals renamed positionally -/
def pin_iterator_whileIterator_Next : List String := ["func (r *whileIterator[T]) Next() (T, bool)",
  "var v0 T",
  "if r.done {",
  "return v0, false",
  "}",
  "v1, v2 := r.inner.Next()",
  "if !v2 {",
  "return v0, false",
  "}",
  "if !r.f(v1) {",
  "r.done = true",
  "return v0, false",
  "}",
  "return v1, true"]

/-- `Chunk` in `stream`: signature and full statement list, locals renamed positionally -/
def pin_stream_Chunk : List String := ["func Chunk[T0 any](p0 Stream[T0], p1 int) Stream[[]T0]",
  "return &chunkStream[T0]{inner: p0, chunkSize: p1}"]

/-- `Collect` in `stream`: signature and full statement list, locals renamed positionally -/
def pin_stream_Collect : List String := ["func Collect[T0 any](p0 context.Context, p1 Stream[T0]) ([]T0, error)",
  "defer p1.Close()",
  "var v0 []T0",
  "for {",
  "v1, v2 := p1.Next(p0)",
  "if v2 == End {",
  "return v0, nil",
  "} else {",
  "if v2 != nil {",
  "return nil, v2",
  "}",
  "}",
  "v0 = append(v0, v1)",
  "}"]

/-- `Compact` in `stream`: signature and full statement list, locals renamed positionally -/
def pin_stream_Compact : List String := ["func Compact[T0 comparable](p0 Stream[T0]) Stream[T0]",
  "return CompactFunc(p0, func(v0, v1 T0) bool { })",
  "func#0 {",
  "return v0 == v1",
  "}"]

/-- `CompactFunc` in `stream`: signature and full statement list, locals renamed positionally -/
def pin_stream_CompactFunc : List String := ["func CompactFunc[T0 any](p0 Stream[T0], p1 func(T0, T0) bool) Stream[T0]",
  "return &compactStream[T0]{inner: p0, first: true, eq: p1}"]

/-- `First` in `stream`: signature and full statement list, locals renamed positionally -/
def pin_stream_First : List String := ["func First[T0 any](p0 Stream[T0], p1 int) Stream[T0]",
  "return &firstStream[T0]{inner: p0, x: p1}"]

/-- `Last` in `stream`: signature and full statement list, locals renamed positionally -/
def pin_stream_Last : List String := ["func Last[T0 any](p0 context.Context, p1 Stream[T0], p2 int) ([]T0, error)",
  "defer p1.Close()",
  "v0 := make([]T0, p2)",
  "v1 := 0",
  "for {",
  "v2, v3 := p1.Next(p0)",
  "if v3 == End {",
  "break",
  "} else {",
  "if v3 != nil {",
  "return nil, v3",
  "}",
  "}",
  "if p2 > 0 {",
  "v0[v1%p2] = v2",
  "}",
  "v1++",
  "}",
  "if v1 < p2 {",
  "return v0[:v1], nil",
  "}",
  "v4 := make([]T0, p2)",
  "if p2 > 0 {",
  "v5 := v1 % p2",
  "copy(v4, v0[v5:])",
  "copy(v4[p2-v5:], v0[:v5])",
  "}",
  "return v4, nil"]

/-- `One` in `stream`: signature and full statement list, locals renamed positionally -/
def pin_stream_One : List String := ["func One[T0 any](p0 context.Context, p1 Stream[T0]) (T0, error)",
  "defer p1.Close()",
  "var v0 T0",
  "v1, v2 := p1.Next(p0)",
  "if v2 == End {",
  "return v0, ErrEmpty",
  "} else {",
  "if v2 != nil {",
  "return v0, v2",
  "}",
  "}",
  "_, v2 = p1.Next(p0)",
  "if v2 == End {",
  "return v1, nil",
  "} else {",
  "if v2 != nil {",
  "return v0, v2",
  "}",
  "}",
  "return v0, ErrMoreThanOne"]

/-- `Reduce` in `stream`: signature and full statement list, locals renamed positionally -/
def pin_stream_Reduce : List String := ["func Reduce[T0 any, T1 any](p0 context.Context, p1 Stream[T0], p2 T1, p3 func(T1, T0) (T1, error)) (T1, error)",
  "defer p1.Close()",
  "v0 := p2",
  "for {",
  "v1, v2 := p1.Next(p0)",
  "if v2 == End {",
  "return v0, nil",
  "} else {",
  "if v2 != nil {",
  "return v0, v2",
  "}",
  "}",
  "v0, v2 = p3(v0, v1)",
  "if v2 != nil {",
  "return v0, v2",
  "}",
  "}"]

/-- `WithPeek` in `stream`: signature and full statement list, locals renamed positionally -/
def pin_stream_WithPeek : List String := ["func WithPeek[T0 any](p0 Stream[T0]) Peekable[T0]",
  "return &peekable[T0]{inner: p0, has: false}"]

/-- `chanStream.Close` in `stream`: signature and full statement list, locals renamed positionally -/
def pin_stream_chanStream_Close : List String := ["func (r *chanStream[T]) Close()"]

/-- `chanStream.Next` in `stream`: signature and full statement list, locals renamed positionally -/
def pin_stream_chanStream_Next : List String := ["func (r *chanStream[T]) Next(p0 context.Context) (T, error)",
  "var v0 T",
  "select {",
  "case v1, v2 := <-r.c:",
  "if !v2 {",
  "return v0, End",
  "}",
  "return v1, nil",
  "case <-p0.Done():",
  "return v0, p0.Err()",
  "}"]

/-- `chunkStream.Close` in `stream`: signature and full statement list, locals renamed positionally -/
def pin_stream_chunkStream_Close : List String := ["func (r *chunkStream[T]) Close()",
  "r.inner.Close()"]

/-- `chunkStream.Next` in `stream`: signature and full statement list, locals renamed positionally -/
def pin_stream_chunkStream_Next : List String := ["func (r *chunkStream[T]) Next(p0 context.Context) ([]T, error)",
  "for {",
  "v0, v1 := r.inner.Next(p0)",
  "if v1 == End {",
  "break",
  "} else {",
  "if v1 != nil {",
  "return nil, v1",
  "}",
  "}",
  "r.chunk = append(r.chunk, v0)",
  "if len(r.chunk) == r.chunkSize {",
  "v2 := r.chunk",
  "r.chunk = make([]T, 0, r.chunkSize)",
  "return v2, nil",
  "}",
  "}",
  "if len(r.chunk) > 0 {",
  "v3 := r.chunk",
  "r.chunk = make([]T, 0, r.chunkSize)",
  "return v3, nil",
  "}",
  "return nil, End"]

/-- `compactStream.Close` in `stream`: signature and full statement list, locals renamed positionally -/
def pin_stream_compactStream_Close : List String := ["func (r *compactStream[T]) Close()",
  "r.inner.Close()"]

/-- `compactStream.Next` in `stream`: signature and full statement list, locals renamed positionally -/
def pin_stream_compactStream_Next : List String := ["func (r *compactStream[T]) Next(p0 context.Context) (T, error)",
  "for {",
  "v0, v1 := r.inner.Next(p0)",
  "if v1 != nil {",
  "return v0, v1",
  "}",
  "if r.first {",
  "r.first = false",
  "r.prev = v0",
  "return v0, nil",
  "} else {",
  "if !r.eq(r.prev, v0) {",
  "r.prev = v0",
  "return v0, nil",
  "}",
  "}",
  "}"]

/-- `emptyStream.Close` in `stream`: signature and full statement list, locals renamed positionally -/
def pin_stream_emptyStream_Close : List String := ["func (r emptyStream[T]) Close()"]

/-- `emptyStream.Next` in `stream`: signature and full statement list, locals renamed positionally -/
def pin_stream_emptyStream_Next : List String := ["func (r emptyStream[T]) Next(p0 context.Context) (T, error)",
  "var v0 T",
  "return v0, End"]

/-- `errorStream.Close` in `stream`: signature and full statement list, locals renamed positionally -/
def pin_stream_errorStream_Close : List String := ["func (r errorStream[T]) Close()"]

/-- `errorStream.Next` in `stream`: signature and full statement list, locals renamed positionally -/
def pin_stream_errorStream_Next : List String := ["func (r errorStream[T]) Next(p0 context.Context) (T, error)",
  "var v0 T",
  "return v0, r.err"]

/-- `filterStream.Close` in `stream`: signature and full statement list, locals renamed positionally -/
def pin_stream_filterStream_Close : List String := ["func (r *filterStream[T]) Close()",
  "r.inner.Close()"]

/-- `filterStream.Next` in `stream`: signature and full statement list, locals renamed positionally -/
def pin_stream_filterStream_Next : List String := ["func (r *filterStream[T]) Next(p0 context.Context) (T, error)",
  "var v0 T",
  "for {",
  "v1, v2 := r.inner.Next(p0)",
  "if v2 != nil {",
  "return v0, v2",
  "}",
  "v3, v2 := r.keep(p0, v1)",
  "if v2 != nil {",
  "return v0, v2",
  "}",
  "if v3 {",
  "return v1, nil",
  "}",
  "}"]

/-- `firstStream.Close` in `stream`: signature and full statement list, locals renamed positionally -/
def pin_stream_firstStream_Close : List String := ["func (r *firstStream[T]) Close()",
  "r.inner.Close()"]

/-- `firstStream.Next` in `stream`: signature and full statement list, locals renamed positionally -/
def pin_stream_firstStream_Next : List String := ["func (r *firstStream[T]) Next(p0 context.Context) (T, error)",
  "if r.x <= 0 {",
  "var v0 T",
  "return v0, End",
  "}",
  "v1, v2 := r.inner.Next(p0)",
  "if v2 != nil {",
  "return v1, v2",
  "}",
  "r.x--",
  "return v1, nil"]

/-- `flattenSlicesStream.Close` in `stream`: signature and full statement list, locals renamed positionally -/
def pin_stream_flattenSlicesStream_Close : List String := ["func (r *flattenSlicesStream[T]) Close()",
  "r.inner.Close()"]

/-- `flattenSlicesStream.Next` in `stream`: signature and full statement list, locals renamed positionally -/
def pin_stream_flattenSlicesStream_Next : List String := ["func (r *flattenSlicesStream[T]) Next(p0 context.Context) (T, error)",
  "var v0 T",
  "for {",
  "if len(r.buffer) > 0 {",
  "v1 := r.buffer[0]",
  "r.buffer = r.buffer[1:]",
  "return v1, nil",
  "}",
  "var v2 error",
  "r.buffer, v2 = r.inner.Next(p0)",
  "if v2 != nil {",
  "return v0, v2",
  "}",
  "}"]

/-- `flattenStream.Close` in `stream`: signature and full statement list, locals renamed positionally -/
def pin_stream_flattenStream_Close : List String := ["func (r *flattenStream[T]) Close()",
  "if r.curr != nil {",
  "r.curr.Close()",
  "}",
  "r.inner.Close()"]

/-- `flattenStream.Next` in `stream`: signature and full statement list, locals renamed positionally -/
def pin_stream_flattenStream_Next : List String := ["func (r *flattenStream[T]) Next(p0 context.Context) (T, error)",
  "for {",
  "if r.curr == nil {",
  "var v0 error",
  "r.curr, v0 = r.inner.Next(p0)",
  "if v0 != nil {",
  "var v1 T",
  "return v1, v0",
  "}",
  "}",
  "v2, v3 := r.curr.Next(p0)",
  "if v3 == End {",
  "r.curr.Close()",
  "r.curr = nil",
  "continue",
  "} else {",
  "if v3 != nil {",
  "return v2, v3",
  "}",
  "}",
  "return v2, nil",
  "}"]

/-- `iteratorStream.Close` in `stream`: signature and full statement list, locals renamed positionally -/
def pin_stream_iteratorStream_Close : List String := ["func (r *iteratorStream[T]) Close()"]

/-- `iteratorStream.Next` in `stream`: signature and full statement list, locals renamed positionally -/
def pin_stream_iteratorStream_Next : List String := ["func (r *iteratorStream[T]) Next(p0 context.Context) (T, error)",
  "var v0 T",
  "if p0.Err() != nil {",
  "return v0, p0.Err()",
  "}",
  "v1, v2 := r.iter.Next()",
  "if !v2 {",
  "return v0, End",
  "}",
  "return v1, nil"]

/-- `joinStream.Close` in `stream`: signature and full statement list, locals renamed positionally -/
def pin_stream_joinStream_Close : List String := ["func (r *joinStream[T]) Close()",
  "for v0 := range r.remaining {",
  "r.remaining[v0].Close()",
  "}"]

/-- `joinStream.Next` in `stream`: signature and full statement list, locals renamed positionally -/
def pin_stream_joinStream_Next : List String := ["func (r *joinStream[T]) Next(p0 context.Context) (T, error)",
  "var v0 T",
  "for len(r.remaining) > 0 {",
  "v1, v2 := r.remaining[0].Next(p0)",
  "if v2 == End {",
  "r.remaining[0].Close()",
  "r.remaining = r.remaining[1:]",
  "continue",
  "} else {",
  "if v2 != nil {",
  "return v0, v2",
  "}",
  "}",
  "return v1, nil",
  "}",
  "return v0, End"]

/-- `mapStream.Close` in `stream`: signature and full statement list, locals renamed positionally -/
def pin_stream_mapStream_Close : List String := ["func (r *mapStream[T, U]) Close()",
  "r.inner.Close()"]

/-- `mapStream.Next` in `stream`: signature and full statement list, locals renamed positionally -/
def pin_stream_mapStream_Next : List String := ["func (r *mapStream[T, U]) Next(p0 context.Context) (U, error)",
  "var v0 U",
  "v1, v2 := r.inner.Next(p0)",
  "if v2 != nil {",
  "return v0, v2",
  "}",
  "v3, v2 := r.f(p0, v1)",
  "if v2 != nil {",
  "return v0, v2",
  "}",
  "return v3, nil"]

/-- `peekable.Close` in `stream`: signature and full statement list, locals renamed positionally -/
def pin_stream_peekable_Close : List String := ["func (r *peekable[T]) Close()",
  "r.inner.Close()"]

/-- `peekable.Next` in `stream`: signature and full statement list, locals renamed positionally -/
def pin_stream_peekable_Next : List String := ["func (r *peekable[T]) Next(p0 context.Context) (T, error)",
  "if r.has {",
  "v0 := r.curr",
  "r.has = false",
  "var v1 T",
  "r.curr = v1",
  "return v0, nil",
  "}",
  "return r.inner.Next(p0)"]

/-- `peekable.Peek` in `stream`: signature and full statement list, locals renamed positionally -/
def pin_stream_peekable_Peek : List String := ["func (r *peekable[T]) Peek(p0 context.Context) (T, error)",
  "var v0 T",
  "if !r.has {",
  "var v1 error",
  "r.curr, v1 = r.inner.Next(p0)",
  "if v1 == End {",
  "r.has = false",
  "return v0, End",
  "} else {",
  "if v1 != nil {",
  "return v0, v1",
  "}",
  "}",
  "r.has = true",
  "}",
  "return r.curr, nil"]

/-- `runsInnerStream.Close` in `stream`: signature and full statement list, locals renamed positionally -/
def pin_stream_runsInnerStream_Close : List String := ["func (r *runsInnerStream[T]) Close()",
  "r.parent = nil"]

/-- `runsInnerStream.Next` in `stream`: signature and full statement list, locals renamed positionally -/
def pin_stream_runsInnerStream_Next : List String := ["func (r *runsInnerStream[T]) Next(p0 context.Context) (T, error)",
  "var v0 T",
  "if r.parent == nil {",
  "return v0, End",
  "}",
  "v1, v2 := r.parent.inner.Peek(p0)",
  "if v2 == End {",
  "return v0, End",
  "} else {",
  "if v2 != nil {",
  "return v0, v2",
  "} else {",
  "if !r.parent.same(r.prev, v1) {",
  "return v0, End",
  "}",
  "}",
  "}",
  "r.prev = v1",
  "return r.parent.inner.Next(p0)"]

/-- `runsStream.Close` in `stream`: signature and full statement list, locals renamed positionally -/
def pin_stream_runsStream_Close : List String := ["func (r *runsStream[T]) Close()",
  "r.inner.Close()"]

/-- `runsStream.Next` in `stream`: signature and full statement list, locals renamed positionally -/
def pin_stream_runsStream_Next : List String := ["func (r *runsStream[T]) Next(p0 context.Context) (Stream[T], error)",
  "if r.curr != nil {",
  "for {",
  "_, v0 := r.curr.Next(p0)",
  "if v0 == End {",
  "break",
  "} else {",
  "if v0 != nil {",
  "return nil, v0",
  "}",
  "}",
  "}",
  "r.curr.Close()",
  "r.curr = nil",
  "}",
  "v1, v2 := r.inner.Peek(p0)",
  "if v2 != nil {",
  "return nil, v2",
  "}",
  "r.curr = &runsInnerStream[T]{parent: r, prev: v1}",
  "return r.curr, nil"]

/-- `whileStream.Close` in `stream`: signature and full statement list, locals renamed positionally -/
def pin_stream_whileStream_Close : List String := ["func (r *whileStream[T]) Close()",
  "r.inner.Close()"]

/-- `whileStream.Next` in `stream`: signature and full statement list, locals renamed positionally -/
def pin_stream_whileStream_Next : List String := ["func (r *whileStream[T]) Next(p0 context.Context) (T, error)",
  "var v0 T",
  "if r.done {",
  "return v0, End",
  "}",
  "if !r.has {",
  "var v1 error",
  "r.item, v1 = r.inner.Next(p0)",
  "if v1 != nil {",
  "return v0, v1",
  "}",
  "r.has = true",
  "}",
  "v2, v3 := r.f(p0, r.item)",
  "if v3 != nil {",
  "return v0, v3",
  "}",
  "if !v2 {",
  "r.done = true",
  "return v0, End",
  "}",
  "r.has = false",
  "return r.item, nil"]

/-- `SampleStream` in `xmath/xrand`: signature and full statement list, locals renamed positionally -/
def pin_xmath_xrand_SampleStream : List String := ["func SampleStream[T0 any](p0 context.Context, p1 stream.Stream[T0], p2 int) ([]T0, error)",
  "return rSampleStream(p0, defaultRand{}, p1, p2)"]

/-- `newSampler` in `xmath/xrand`: signature and full statement list, locals renamed positionally -/
def pin_xmath_xrand_newSampler : List String := ["func newSampler[T0 randRand](p0 T0, p1 int) sampler[T0]",
  "return sampler[T0]{i: 0, first: true, w: math.Exp(math.Log(p0.Float64()) / float64(p1)), k: p1, r: p0}"]

/-- `rSampleStream` in `xmath/xrand`: signature and full statement list, locals renamed positionally -/
def pin_xmath_xrand_rSampleStream : List String := ["func rSampleStream[T0 any, T1 randRand](p0 context.Context, p1 T1, p2 stream.Stream[T0], p3 int) ([]T0, error)",
  "defer p2.Close()",
  "v0 := make([]T0, p3)",
  "v1 := 0",
  "v2 := newSampler(p1, p3)",
  "L0:",
  "for {",
  "v3, v4 := v2.Next()",
  "for {",
  "v5, v6 := p2.Next(p0)",
  "if v6 == stream.End {",
  "break L0",
  "} else {",
  "if v6 != nil {",
  "return nil, v6",
  "}",
  "}",
  "if v1 == v3 {",
  "v0[v4] = v5",
  "v1++",
  "break",
  "}",
  "v1++",
  "}",
  "}",
  "if v1 < p3 {",
  "v0 = v0[:v1]",
  "}",
  "rShuffle(p1, v0)",
  "return v0, nil"]

/-- `rShuffle` in `xmath/xrand`: signature and full statement list, locals renamed positionally -/
def pin_xmath_xrand_rShuffle : List String := ["func rShuffle[T0 any, T1 randRand](p0 T1, p1 []T0)",
  "p0.Shuffle(len(p1), func(v0, v1 int) { })",
  "func#0 {",
  "p1[v0], p1[v1] = p1[v1], p1[v0]",
  "}"]

/-- `Chunk` in `xslices`: signature and full statement list, locals renamed positionally -/
def pin_xslices_Chunk : List String := ["func Chunk[T0 any](p0 []T0, p1 int) [][]T0",
  "if p1 <= 0 {",
  "panic(\"xslices.Chunk: chunkSize must be positive\")",
  "}",
  "v0 := 0",
  "if len(p0) > 0 {",
  "v0 = (len(p0)-1)/p1 + 1",
  "}",
  "v1 := make([][]T0, v0)",
  "for v2 := range v1 {",
  "v3 := v2 * p1",
  "v4 := len(p0)",
  "if len(p0)-v3 > p1 {",
  "v4 = v3 + p1",
  "}",
  "v1[v2] = p0[v3:v4]",
  "}",
  "return v1"]

/-- `Runs` in `xslices`: signature and full statement list, locals renamed positionally -/
def pin_xslices_Runs : List String := ["func Runs[T0 any](p0 []T0, p1 func(v0, v1 T0) bool) [][]T0",
  "var v2 [][]T0",
  "v3 := 0",
  "v4 := 0",
  "if len(p0) > 0 {",
  "v4 = 1",
  "}",
  "for v5 := 1; v5 < len(p0); v5++ {",
  "if p1(p0[v5-1], p0[v5]) {",
  "v4 = v5 + 1",
  "} else {",
  "v2 = append(v2, p0[v3:v4])",
  "v3 = v5",
  "v4 = v5 + 1",
  "}",
  "}",
  "if v4 > 0 {",
  "v2 = append(v2, p0[v3:])",
  "}",
  "return v2"]

/-- type `Iterator` of `iterator`: one line per field / method -/
def pin_iterator_type_Iterator : List String := ["type Iterator[T any] interface",
  "Next func() (T, bool)"]

/-- type `Peekable` of `iterator`: one line per field / method -/
def pin_iterator_type_Peekable : List String := ["type Peekable[T any] interface",
  "Iterator[T]",
  "Peek func() (T, bool)"]

/-- type `chanIterator` of `iterator`: one line per field / method -/
def pin_iterator_type_chanIterator : List String := ["type chanIterator[T any] struct",
  "c <-chan T"]

/-- type `chunkIterator` of `iterator`: one line per field / method -/
def pin_iterator_type_chunkIterator : List String := ["type chunkIterator[T any] struct",
  "inner Iterator[T]",
  "chunkSize int"]

/-- type `compactIterator` of `iterator`: one line per field / method -/
def pin_iterator_type_compactIterator : List String := ["type compactIterator[T any] struct",
  "inner Iterator[T]",
  "prev T",
  "first bool",
  "eq func(T, T) bool"]

/-- type `counterIterator` of `iterator`: one line per field / method -/
def pin_iterator_type_counterIterator : List String := ["type counterIterator struct",
  "i int",
  "n int"]

/-- type `emptyIterator` of `iterator`: one line per field / method -/
def pin_iterator_type_emptyIterator : List String := ["type emptyIterator[T any] struct"]

/-- type `filterIterator` of `iterator`: one line per field / method -/
def pin_iterator_type_filterIterator : List String := ["type filterIterator[T any] struct",
  "inner Iterator[T]",
  "keep func(T) bool"]

/-- type `firstIterator` of `iterator`: one line per field / method -/
def pin_iterator_type_firstIterator : List String := ["type firstIterator[T any] struct",
  "inner Iterator[T]",
  "x int"]

/-- type `flattenIterator` of `iterator`: one line per field / method -/
def pin_iterator_type_flattenIterator : List String := ["type flattenIterator[T any] struct",
  "inner Iterator[Iterator[T]]",
  "curr Iterator[T]"]

/-- type `joinIterator` of `iterator`: one line per field / method -/
def pin_iterator_type_joinIterator : List String := ["type joinIterator[T any] struct",
  "iters []Iterator[T]"]

/-- type `mapIterator` of `iterator`: one line per field / method -/
def pin_iterator_type_mapIterator : List String := ["type mapIterator[T any, U any] struct",
  "inner Iterator[T]",
  "f func(T) U"]

/-- type `peekable` of `iterator`: one line per field / method -/
def pin_iterator_type_peekable : List String := ["type peekable[T any] struct",
  "inner Iterator[T]",
  "curr T",
  "has bool"]

/-- type `repeatIterator` of `iterator`: one line per field / method -/
def pin_iterator_type_repeatIterator : List String := ["type repeatIterator[T any] struct",
  "item T",
  "x int"]

/-- type `runsInnerIterator` of `iterator`: one line per field / method -/
def pin_iterator_type_runsInnerIterator : List String := ["type runsInnerIterator[T any] struct",
  "parent *runsIterator[T]",
  "prev T"]

/-- type `runsIterator` of `iterator`: one line per field / method -/
def pin_iterator_type_runsIterator : List String := ["type runsIterator[T any] struct",
  "inner Peekable[T]",
  "same func(a, b T) bool",
  "curr *runsInnerIterator[T]"]

/-- type `sliceIterator` of `iterator`: one line per field / method -/
def pin_iterator_type_sliceIterator : List String := ["type sliceIterator[T any] struct",
  "a []T"]

/-- type `whileIterator` of `iterator`: one line per field / method -/
def pin_iterator_type_whileIterator : List String := ["type whileIterator[T any] struct",
  "inner Iterator[T]",
  "f func(T) bool",
  "done bool"]

/-- package-level var / const declarations of `iterator`, in source order -/
def pin_iterator_vars : List String := []

/-- type `Peekable` of `stream`: one line per field / method -/
def pin_stream_type_Peekable : List String := ["type Peekable[T any] interface",
  "Stream[T]",
  "Peek func(ctx context.Context) (T, error)"]

/-- type `PipeSender` of `stream`: one line per field / method -/
def pin_stream_type_PipeSender : List String := ["type PipeSender[T any] struct",
  "c chan<- T",
  "senderErr *error",
  "senderDone chan struct{}",
  "streamDone <-chan struct{}"]

/-- type `Stream` of `stream`: one line per field / method -/
def pin_stream_type_Stream : List String := ["type Stream[T any] interface",
  "Next func(ctx context.Context) (T, error)",
  "Close func()"]

/-- type `batchStream` of `stream`: one line per field / method -/
def pin_stream_type_batchStream : List String := ["type batchStream[T any] struct",
  "bgCancel context.CancelFunc",
  "wg sync.WaitGroup",
  "batchC chan []T",
  "err error",
  "waiting chan struct{}"]

/-- type `chanStream` of `stream`: one line per field / method -/
def pin_stream_type_chanStream : List String := ["type chanStream[T any] struct",
  "c <-chan T"]

/-- type `chunkStream` of `stream`: one line per field / method -/
def pin_stream_type_chunkStream : List String := ["type chunkStream[T any] struct",
  "inner Stream[T]",
  "chunkSize int",
  "chunk []T"]

/-- type `compactStream` of `stream`: one line per field / method -/
def pin_stream_type_compactStream : List String := ["type compactStream[T any] struct",
  "inner Stream[T]",
  "prev T",
  "first bool",
  "eq func(T, T) bool"]

/-- type `emptyStream` of `stream`: one line per field / method -/
def pin_stream_type_emptyStream : List String := ["type emptyStream[T any] struct"]

/-- type `errorStream` of `stream`: one line per field / method -/
def pin_stream_type_errorStream : List String := ["type errorStream[T any] struct",
  "err error"]

/-- type `filterStream` of `stream`: one line per field / method -/
def pin_stream_type_filterStream : List String := ["type filterStream[T any] struct",
  "inner Stream[T]",
  "keep func(context.Context, T) (bool, error)"]

/-- type `firstStream` of `stream`: one line per field / method -/
def pin_stream_type_firstStream : List String := ["type firstStream[T any] struct",
  "inner Stream[T]",
  "x int"]

/-- type `flattenSlicesStream` of `stream`: one line per field / method -/
def pin_stream_type_flattenSlicesStream : List String := ["type flattenSlicesStream[T any] struct",
  "inner Stream[[]T]",
  "buffer []T"]

/-- type `flattenStream` of `stream`: one line per field / method -/
def pin_stream_type_flattenStream : List String := ["type flattenStream[T any] struct",
  "inner Stream[Stream[T]]",
  "curr Stream[T]"]

/-- type `iteratorStream` of `stream`: one line per field / method -/
def pin_stream_type_iteratorStream : List String := ["type iteratorStream[T any] struct",
  "iter iterator.Iterator[T]"]

/-- type `joinStream` of `stream`: one line per field / method -/
def pin_stream_type_joinStream : List String := ["type joinStream[T any] struct",
  "remaining []Stream[T]"]

/-- type `mapStream` of `stream`: one line per field / method -/
def pin_stream_type_mapStream : List String := ["type mapStream[T any, U any] struct",
  "inner Stream[T]",
  "f func(context.Context, T) (U, error)"]

/-- type `mergeStream` of `stream`: one line per field / method -/
def pin_stream_type_mergeStream : List String := ["type mergeStream[T any] struct",
  "inner Stream[T]",
  "cancel func()"]

/-- type `peekable` of `stream`: one line per field / method -/
def pin_stream_type_peekable : List String := ["type peekable[T any] struct",
  "inner Stream[T]",
  "curr T",
  "has bool"]

/-- type `pipeStream` of `stream`: one line per field / method -/
def pin_stream_type_pipeStream : List String := ["type pipeStream[T any] struct",
  "c <-chan T",
  "senderErr *error",
  "senderDone <-chan struct{}",
  "streamDone chan<- struct{}"]

/-- type `runsInnerStream` of `stream`: one line per field / method -/
def pin_stream_type_runsInnerStream : List String := ["type runsInnerStream[T any] struct",
  "parent *runsStream[T]",
  "prev T"]

/-- type `runsStream` of `stream`: one line per field / method -/
def pin_stream_type_runsStream : List String := ["type runsStream[T any] struct",
  "inner Peekable[T]",
  "same func(a, b T) bool",
  "curr *runsInnerStream[T]"]

/-- type `whileStream` of `stream`: one line per field / method -/
def pin_stream_type_whileStream : List String := ["type whileStream[T any] struct",
  "inner Stream[T]",
  "f func(context.Context, T) (bool, error)",
  "item T",
  "has bool",
  "done bool"]

/-- package-level var / const declarations of `stream`, in source order -/
def pin_stream_vars : List String := ["var End = errors.New(\"end of stream\")",
  "var ErrClosedPipe = errors.New(\"closed pipe\")",
  "var ErrMoreThanOne = errors.New(\"stream had more than one item\")",
  "var ErrEmpty = errors.New(\"stream empty\")"]

/-- type `defaultRand` of `xmath/xrand`: one line per field / method -/
def pin_xmath_xrand_type_defaultRand : List String := ["type defaultRand struct"]

/-- type `randRand` of `xmath/xrand`: one line per field / method -/
def pin_xmath_xrand_type_randRand : List String := ["type randRand interface",
  "Float64 func() float64",
  "Intn func(int) int",
  "Shuffle func(int, func(int, int))"]

/-- type `sampler` of `xmath/xrand`: one line per field / method -/
def pin_xmath_xrand_type_sampler : List String := ["type sampler[R randRand] struct",
  "i int",
  "first bool",
  "w float64",
  "k int",
  "r R"]

/-- package-level var / const declarations of `xmath/xrand`, in source order -/
def pin_xmath_xrand_vars : List String := []

/-- package-level var / const declarations of `xslices`, in source order -/
def pin_xslices_vars : List String := []

end Juniper.Pinned.Comb
