-- PINNED expectations, written by `gofacts -pin` (see notes/pins.md). Committed. Re-pinning is a deliberate act of
-- whoever changed the Go code or a model, after reviewing that the model still mirrors the code: never part of a check.

namespace Juniper.Pinned.Watch

/-- `Future.Fill` in `xsync`: signature and full statement list, locals renamed positionally -/
def pin_xsync_Future_Fill : List String := ["func (r *Future[T]) Fill(p0 T)",
  "r.x = p0",
  "close(r.c)"]

/-- `Future.Wait` in `xsync`: signature and full statement list, locals renamed positionally -/
def pin_xsync_Future_Wait : List String := ["func (r *Future[T]) Wait() T",
  "<-r.c",
  "return r.x"]

/-- `Future.WaitContext` in `xsync`: signature and full statement list, locals renamed positionally -/
def pin_xsync_Future_WaitContext : List String := ["func (r *Future[T]) WaitContext(p0 context.Context) (T, error)",
  "select {",
  "case <-p0.Done():",
  "var v0 T",
  "return v0, p0.Err()",
  "case <-r.c:",
  "}",
  "return r.x, nil"]

/-- `Lazy` in `xsync`: signature and full statement list, locals renamed positionally -/
def pin_xsync_Lazy : List String := ["func Lazy[T0 any](p0 func() T0) func() T0",
  "return sync.OnceValue(p0)"]

/-- `Map.CompareAndDelete` in `xsync`: signature and full statement list, locals renamed positionally -/
def pin_xsync_Map_CompareAndDelete : List String := ["func (r *Map[K, V]) CompareAndDelete(p0 K, p1 V) (o0 bool)",
  "return r.m.CompareAndDelete(p0, p1)"]

/-- `Map.CompareAndSwap` in `xsync`: signature and full statement list, locals renamed positionally -/
def pin_xsync_Map_CompareAndSwap : List String := ["func (r *Map[K, V]) CompareAndSwap(p0 K, p1 V, p2 V) (o0 bool)",
  "return r.m.CompareAndSwap(p0, p1, p2)"]

/-- `Map.Delete` in `xsync`: signature and full statement list, locals renamed positionally -/
def pin_xsync_Map_Delete : List String := ["func (r *Map[K, V]) Delete(p0 K)",
  "r.m.Delete(p0)"]

/-- `Map.Load` in `xsync`: signature and full statement list, locals renamed positionally -/
def pin_xsync_Map_Load : List String := ["func (r *Map[K, V]) Load(p0 K) (o0 V, o1 bool)",
  "v0, o1 := r.m.Load(p0)",
  "if !o1 {",
  "var v1 V",
  "return v1, false",
  "}",
  "o0, _ = v0.(V)",
  "return o0, o1"]

/-- `Map.LoadAndDelete` in `xsync`: signature and full statement list, locals renamed positionally -/
def pin_xsync_Map_LoadAndDelete : List String := ["func (r *Map[K, V]) LoadAndDelete(p0 K) (o0 V, o1 bool)",
  "v0, v1 := r.m.LoadAndDelete(p0)",
  "if !v1 {",
  "var v2 V",
  "return v2, false",
  "}",
  "o0, _ = v0.(V)",
  "return o0, v1"]

/-- `Map.LoadOrStore` in `xsync`: signature and full statement list, locals renamed positionally -/
def pin_xsync_Map_LoadOrStore : List String := ["func (r *Map[K, V]) LoadOrStore(p0 K, p1 V) (o0 V, o1 bool)",
  "v0, o1 := r.m.LoadOrStore(p0, p1)",
  "o0, _ = v0.(V)",
  "return o0, o1"]

/-- `Map.Range` in `xsync`: signature and full statement list, locals renamed positionally -/
def pin_xsync_Map_Range : List String := ["func (r *Map[K, V]) Range(p0 func(v0 K, v1 V) bool)",
  "r.m.Range(func(v2, v3 interface{}) bool { })",
  "func#0 {",
  "v4, _ := v2.(K)",
  "v5, _ := v3.(V)",
  "return p0(v4, v5)",
  "}"]

/-- `Map.Store` in `xsync`: signature and full statement list, locals renamed positionally -/
def pin_xsync_Map_Store : List String := ["func (r *Map[K, V]) Store(p0 K, p1 V)",
  "r.m.Store(p0, p1)"]

/-- `Map.Swap` in `xsync`: signature and full statement list, locals renamed positionally -/
def pin_xsync_Map_Swap : List String := ["func (r *Map[K, V]) Swap(p0 K, p1 V) (o0 V, o1 bool)",
  "v0, o1 := r.m.Swap(p0, p1)",
  "o0, _ = v0.(V)",
  "return o0, o1"]

/-- `NewFuture` in `xsync`: signature and full statement list, locals renamed positionally -/
def pin_xsync_NewFuture : List String := ["func NewFuture[T0 any]() *Future[T0]",
  "return &Future[T0]{c: make(chan struct{})}"]

/-- `Watchable.Set` in `xsync`: signature and full statement list, locals renamed positionally -/
def pin_xsync_Watchable_Set : List String := ["func (r *Watchable[T]) Set(p0 T)",
  "v0 := &watchableInner[T]{t: p0, c: make(chan struct{})}",
  "v1 := r.p.Swap(v0)",
  "if v1 != nil {",
  "close(v1.c)",
  "}"]

/-- `Watchable.Value` in `xsync`: signature and full statement list, locals renamed positionally -/
def pin_xsync_Watchable_Value : List String := ["func (r *Watchable[T]) Value() (T, chan struct{})",
  "v0 := r.p.Load()",
  "if v0 == nil {",
  "v1 := make(chan struct{})",
  "v2 := &watchableInner[T]{c: v1}",
  "if r.p.CompareAndSwap(nil, v2) {",
  "var v3 T",
  "return v3, v1",
  "}",
  "v0 = r.p.Load()",
  "}",
  "return v0.t, v0.c"]

/-- type `ContextCond` of `xsync`: one line per field / method -/
def pin_xsync_type_ContextCond : List String := ["type ContextCond struct",
  "m sync.RWMutex",
  "ch chan struct{}",
  "L sync.Locker"]

/-- type `Future` of `xsync`: one line per field / method -/
def pin_xsync_type_Future : List String := ["type Future[T any] struct",
  "c chan struct{}",
  "x T"]

/-- type `Group` of `xsync`: one line per field / method -/
def pin_xsync_type_Group : List String := ["type Group struct",
  "ctx context.Context",
  "cancel context.CancelFunc",
  "m sync.RWMutex",
  "wg sync.WaitGroup"]

/-- type `Map` of `xsync`: one line per field / method -/
def pin_xsync_type_Map : List String := ["type Map[K comparable, V any] struct",
  "m sync.Map"]

/-- type `Pool` of `xsync`: one line per field / method -/
def pin_xsync_type_Pool : List String := ["type Pool[T any] struct",
  "p sync.Pool"]

/-- type `Watchable` of `xsync`: one line per field / method -/
def pin_xsync_type_Watchable : List String := ["type Watchable[T any] struct",
  "p atomic.Pointer[watchableInner[T]]"]

/-- type `watchableInner` of `xsync`: one line per field / method -/
def pin_xsync_type_watchableInner : List String := ["type watchableInner[T any] struct",
  "t T",
  "c chan struct{}"]

/-- package-level var / const declarations of `xsync`, in source order -/
def pin_xsync_vars : List String := []

end Juniper.Pinned.Watch
