-- PINNED expectations, written by `gofacts -pin` (see notes/pins.md). Committed. Re-pinning is a deliberate act of
-- whoever changed the Go code or a model, after reviewing that the model still mirrors the code: never part of a check.

namespace Juniper.Pinned.XTime

/-- `JitterTicker.Reset` in `xtime`: signature and full statement list, locals renamed positionally -/
def pin_xtime_JitterTicker_Reset : List String := ["func (r *JitterTicker) Reset(p0 time.Duration, p1 time.Duration)",
  "if p0 <= 0 {",
  "panic(\"non-positive interval for NewJitterTicker\")",
  "}",
  "if p1 >= p0 {",
  "panic(\"jitter greater than d\")",
  "}",
  "r.m.Lock()",
  "r.d = p0",
  "r.jitter = p1",
  "r.schedule()",
  "r.m.Unlock()"]

/-- `JitterTicker.Stop` in `xtime`: signature and full statement list, locals renamed positionally -/
def pin_xtime_JitterTicker_Stop : List String := ["func (r *JitterTicker) Stop()",
  "r.m.Lock()",
  "r.timer.Stop()",
  "r.gen++",
  "r.timer = nil",
  "r.m.Unlock()"]

/-- `JitterTicker.schedule` in `xtime`: signature and full statement list, locals renamed positionally -/
def pin_xtime_JitterTicker_schedule : List String := ["func (r *JitterTicker) schedule()",
  "if r.timer != nil {",
  "r.timer.Stop()",
  "}",
  "var v0 uint64",
  "if r.jitter <= math.MaxInt64/2 {",
  "v0 = uint64(rand.Int63n(int64(r.jitter*2) + 1))",
  "} else {",
  "for v0 = rand.Uint64(); v0 > uint64(r.jitter)*2; v0 = rand.Uint64() {",
  "}",
  "}",
  "v1 := r.d - r.jitter",
  "v2 := time.Duration(math.MaxInt64)",
  "if v0 <= uint64(math.MaxInt64-v1) {",
  "v2 = v1 + time.Duration(v0)",
  "}",
  "r.gen++",
  "v3 := r.gen",
  "r.timer = time.AfterFunc(v2, func() { })",
  "func#0 {",
  "r.m.Lock()",
  "if r.gen == v3 {",
  "select {",
  "case r.c <- time.Now():",
  "default:",
  "}",
  "r.schedule()",
  "}",
  "r.m.Unlock()",
  "}"]

/-- `NewJitterTicker` in `xtime`: signature and full statement list, locals renamed positionally -/
def pin_xtime_NewJitterTicker : List String := ["func NewJitterTicker(p0 time.Duration, p1 time.Duration) *JitterTicker",
  "if p0 <= 0 {",
  "panic(\"non-positive interval for NewJitterTicker\")",
  "}",
  "if p1 >= p0 {",
  "panic(\"jitter greater than d\")",
  "}",
  "v0 := make(chan time.Time, 1)",
  "v1 := &JitterTicker{C: v0, c: v0, d: p0, jitter: p1}",
  "v1.m.Lock()",
  "v1.schedule()",
  "v1.m.Unlock()",
  "return v1"]

/-- `SleepContext` in `xtime`: signature and full statement list, locals renamed positionally -/
def pin_xtime_SleepContext : List String := ["func SleepContext(p0 context.Context, p1 time.Duration) error",
  "if p1 <= 0 {",
  "return nil",
  "}",
  "v0, v1 := p0.Deadline()",
  "if v1 {",
  "v2 := time.Until(v0)",
  "if v2 < p1 {",
  "return DeadlineTooSoonError{remaining: v2, d: p1}",
  "}",
  "}",
  "v3 := time.NewTimer(p1)",
  "select {",
  "case <-p0.Done():",
  "v3.Stop()",
  "return p0.Err()",
  "case <-v3.C:",
  "return nil",
  "}"]

/-- type `DeadlineTooSoonError` of `xtime`: one line per field / method -/
def pin_xtime_type_DeadlineTooSoonError : List String := ["type DeadlineTooSoonError struct",
  "remaining time.Duration",
  "d time.Duration"]

/-- type `JitterTicker` of `xtime`: one line per field / method -/
def pin_xtime_type_JitterTicker : List String := ["type JitterTicker struct",
  "C <-chan time.Time",
  "c chan time.Time",
  "m sync.Mutex",
  "d time.Duration",
  "gen int",
  "jitter time.Duration",
  "timer *time.Timer"]

/-- package-level var / const declarations of `xtime`, in source order -/
def pin_xtime_vars : List String := []

end Juniper.Pinned.XTime
