/-! Static vocabulary shared by the generated fact files (`Juniper/Generated/*.lean`). -/
namespace Juniper.Facts

/-- One arm of a Go `select` statement, with the channel expression as written in the source
(gofmt-normalised, spaces removed). -/
inductive Arm where
  | recv (ch : String)
  | send (ch : String)
  | dflt
  deriving DecidableEq, Repr, BEq

/-- Same arms regardless of order (Go's `select` has no priority between ready arms). -/
def sameArms (a b : List Arm) : Bool :=
  a.all (fun x => b.contains x) && b.all (fun x => a.contains x) && a.length == b.length

end Juniper.Facts
