/-! Static vocabulary shared by the generated fact files (`Juniper/Generated/*.lean`). -/
namespace Juniper.Facts

/-- One arm of a Go `select` statement, with the channel expression as written in the source
(gofmt-normalised, spaces removed). -/
inductive Arm where
  | recv (ch : String)
  | send (ch : String)
  | dflt
  deriving DecidableEq, Repr, BEq

/-- Same arms regardless of order (Go's `select` has no priority between ready arms). -/
def sameArms (a b : List Arm) : Bool :=
  a.all (fun x => b.contains x) && b.all (fun x => a.contains x) && a.length == b.length

/-- Go's `int` / `int64` (two's complement, 64 bit): the representative of `x` modulo 2^64 in
`[-2^63, 2^63)`. Arithmetic of generated definitions that is rendered with `wrap64` wraps around
exactly as the Go code does. -/
def wrap64 (x : Int) : Int := (x + 9223372036854775808) % 18446744073709551616 - 9223372036854775808

/-- Go's `uint64`: the representative of `x` modulo 2^64 in `[0, 2^64)`. -/
def wrapU64 (x : Int) : Int := x % 18446744073709551616

def minInt64 : Int := -9223372036854775808
def maxInt64 : Int := 9223372036854775807

end Juniper.Facts
