import Juniper.Driver.Basic
import Juniper.Model.Group
/-! Driver for the xsync.Group model (C17): `driver group`. State-set conformance engine
(quiescent-trace inclusion): the set of LTS states compatible with the observations so far.

`async 0|1` (timer-channel semantics; first line of a case), `reg do|trig|per|pot <interval> <jitter>`,
`trig i`, `fret i`, `adv dt`, `pcancel`, `stop`, `saw` — environment actions, applied to every state
reachable by internal steps from the current set (the action may race with whatever is runnable);
`settle <runs begun per registration, comma separated>|<1/0 per Stop/StopAndWait call: returned>` —
`synctest.Wait()`: only quiescent states that show exactly these observables are kept.
Answer `ok <n>` or `reject …` (the set became empty). `cex` searches the model itself for a violation of
the barrier clause from the current set (Model-vs-Spec; answers `ok none…` or `cex …`). -/
namespace Juniper.Driver.C17
open Juniper.Driver Juniper.Model.Group

structure St where
  set : List GState := [gInit 0 false]

def reach (S : List GState) : List GState := internalReach 400000 S []

def fin (_s : St) (S : List GState) (why : String) : St × String :=
  let S := S.eraseDups
  ({ set := S }, if S.isEmpty then s!"reject {why}" else s!"ok {S.length}")

def kindOf (s : String) : Option Kind :=
  if s == "do" then some .doOnce else if s == "trig" then some .trigger
  else if s == "per" then some .periodic else if s == "pot" then some .pot else none

def act (s : St) (l : GLabel) (name : String) : St × String :=
  let R := reach s.set
  fin s (R.filterMap fun x => step x l) s!"{name}: not enabled in any of {R.length} states"

def parseList (s : String) : List Nat :=
  if s == "-" || s == "" then [] else (s.splitOn ",").map natOr

def showObs (x : GState) : String :=
  joinWith "," (x.threads.map fun t => toString t.runs) ++ "|" ++
  joinWith "," (x.stoppers.map fun st => if st.todo.isEmpty then "1" else "0")

def step' (s : St) : List String → St × String
  | ["async", a] => fin s [gInit 0 (a == "1")] "async"
  | ["reg", k, iv, j] =>
    match kindOf k with
    | some k => act s (.register k (intOr iv) (intOr j)) "reg"
    | none => (s, "bad-op")
  | ["trig", i] => act s (.trig (natOr i)) "trig"
  | ["fret", i] => act s (.fEnd (natOr i)) "fret"
  | ["pcancel"] => act s .parentCancel "pcancel"
  | ["stop"] => act s (.stopCall false) "stop"
  | ["saw"] => act s (.stopCall true) "saw"
  | ["adv", dt] =>
    match s.set with
    | [] => (s, "reject adv: empty set")
    | x :: _ => fin s (advanceTo 100000 (x.now + intOr dt) s.set) "adv"
  | ["settle", obs] =>
    let Q := ((reach s.set).filter isQuiescent).eraseDups
    let parts := obs.splitOn "|"
    let runs := parseList (parts.getD 0 "")
    let rets := parseList (parts.getD 1 "")
    let keep := Q.filter fun x =>
      x.threads.map (·.runs) == runs && x.stoppers.map (fun st => if st.todo.isEmpty then 1 else 0) == rets
        && !x.panicked
    fin s keep s!"settle {obs}: the model's quiescent states show {(Q.map showObs).eraseDups}"
  | ["cex"] =>
    -- Model-vs-Spec search: is a state reachable (by internal steps from the current set) in which a
    -- StopAndWait has returned although some thread holds the wait group or is past its context check?
    let R := reach s.set
    let bad := R.filter fun x => x.barrier && x.threads.any fun t =>
      t.pc != .spawnStart && t.pc != .spawnLocked && t.pc != .spawnBail && t.pc != .notSpawned && t.pc != .exited
    match bad with
    | [] => (s, s!"ok none-in-{R.length}-states")
    | x :: _ => (s, "cex barrier passed with thread pcs " ++ joinWith "," (x.threads.map fun t => reprStr t.pc))
  | _ => (s, "bad-op")

def handler : Handler := { σ := St, init := {}, step := step' }

end Juniper.Driver.C17
