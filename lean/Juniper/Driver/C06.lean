import Juniper.Driver.Basic
import Juniper.Model.XList
/-! Driver for the xlist model (C06): `driver xlist`.

Handles are creation indices. After every operation the harness asks for `state`: Len, Front, Back,
both walks (bounded by the number of nodes ever allocated + 1, so that a corrupted, cyclic list still
gives a finite, comparable line) and the `prev/next/value` of every node ever allocated.
`mark k` / `back k` save and restore the whole state in slot `k` (prefix sharing for the exhaustive
enumeration). -/
namespace Juniper.Driver.C06
open Juniper.Driver Juniper.Model.XList

structure St where
  h : Heap := {}
  saved : Array Heap := #[]

def showOptNat : Option Nat → String
  | none => "-"
  | some v => toString v

def showNats (l : List Nat) : String := joinWith "," (l.map toString)

def showNode (h : Heap) (i : Nat) : String :=
  match h.nodes.get i with
  | none => s!"{i}:?"
  | some _ => s!"{i}:{showOptNat (prevOf h i)}/{showOptNat (nextOf h i)}/{(valueOf h i).getD 0}"

def showState (h : Heap) : String :=
  let fuel := h.nextId + 1
  let fwd := walk (nextOf h) (frontOf h) fuel
  let bwd := walk (prevOf h) (backOf h) fuel
  let nodes := (List.range h.nextId).map (showNode h)
  s!"len={lenOf h} front={showOptNat (frontOf h)} back={showOptNat (backOf h)} fwd={showNats fwd} bwd={showNats bwd} nodes={joinWith ";" nodes}"

def opRes (s : St) (o : Op) : St × String :=
  let r := apply s.h o
  ({ s with h := r.h },
    if r.panicked then "panic" else match r.ret with | some i => s!"n{i}" | none => "ok")

def step (s : St) : List String → St × String
  | ["pushfront", v] => opRes s (.pushFront (intOr v))
  | ["pushback", v] => opRes s (.pushBack (intOr v))
  | ["insertbefore", v, m] => opRes s (.insertBefore (intOr v) (natOr m))
  | ["insertafter", v, m] => opRes s (.insertAfter (intOr v) (natOr m))
  | ["remove", n] => opRes s (.remove (natOr n))
  | ["movebefore", n, m] => opRes s (.moveBefore (natOr n) (natOr m))
  | ["moveafter", n, m] => opRes s (.moveAfter (natOr n) (natOr m))
  | ["movetofront", n] => opRes s (.moveToFront (natOr n))
  | ["movetoback", n] => opRes s (.moveToBack (natOr n))
  | ["clear"] => opRes s .clear
  | ["state"] => (s, showState s.h)
  | ["mark", k] =>
    let k := natOr k
    let saved := if k < s.saved.size then s.saved.set! k s.h
                 else (s.saved ++ Array.replicate (k - s.saved.size) s.h).push s.h
    ({ s with saved := saved }, "ok")
  | ["back", k] =>
    match s.saved[natOr k]? with
    | some h => ({ s with h := h }, "ok")
    | none => (s, "bad-op")
  | _ => (s, "bad-op")

def handler : Handler := { σ := St, init := {}, step := step }

end Juniper.Driver.C06
