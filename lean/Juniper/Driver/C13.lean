import Juniper.Driver.Basic
import Juniper.Driver.ParConform
import Juniper.Model.ParDo
/-! Conformance driver for the `parallel.Do` / `DoContext` model (C13): `driver pardo`.

Lines: `init do|dc <P> <n> <gmp>`, `cancel`, `end <idx> ok <v>`, `end <idx> err <k>`,
`obs <observation>`. The driver keeps the set of model states compatible with the observations so
far; the answer is `ok <number of states>` or `empty …` (the implementation did something the model
cannot do) . -/
namespace Juniper.Driver.C13
open Juniper.Driver Juniper.Driver.ParConform Juniper.Model.ParDo

structure DSt where
  cfg : Cfg := { code := dcCode, P := 1, n := 0, gmp := 1 }
  states : List St := []
  overflow : Bool := false

def sys (cfg : Cfg) : Sys St Label := { step := step cfg, internal := internalLabels }

def showErr : Err → String
  | .f k => s!"E{k}"
  | .ctxCaller => "ctxcaller"
  | .ctxLib => "ctxlib"

def showRet : Option (Option Err) → String
  | none => "-"
  | some none => "nil"
  | some (some e) => showErr e

def runningIdx (s : St) : List Nat :=
  (s.ws.filterMap (fun pc => match pc with | .inF i => some i | _ => none)).mergeSort

def showOut (o : List (Option Nat)) : String :=
  joinWith "," (o.map fun | none => "_" | some v => toString v)

/-- canonical observation of a quiescent state -/
def obsOf (s : St) : String :=
  let b := joinWith "," (s.begun.map fun b => s!"{b.idx}:{if b.cancelled then 1 else 0}")
  let r := joinWith "," ((runningIdx s).map toString)
  s!"b=[{b}] run=[{r}] ret={showRet s.ret} out=[{if s.ret == some none then showOut s.out else ""}]"

def reply (d : DSt) : DSt × String :=
  if d.overflow then (d, "overflow") else
  if d.states.isEmpty then (d, "empty") else (d, s!"ok {d.states.length}")

def act (d : DSt) (f : St → Option St) : DSt × String :=
  let (st, ok) := advance (sys d.cfg) d.states f
  reply { d with states := st, overflow := d.overflow || !ok }

def findWorker (s : St) (i : Nat) : Option Nat :=
  s.ws.findIdx? (fun pc => pc == .inF i)

def step (d : DSt) : List String → DSt × String
  | ["init", mode, p, n, g] =>
    let cfg : Cfg := { code := if mode == "do" then doCode else dcCode, P := intOr p, n := natOr n, gmp := natOr g 1 }
    let d := { d with cfg := cfg, states := [init cfg], overflow := false }
    act d some
  | ["cancel"] => act d (fun s => Model.ParDo.step d.cfg s .callerCancel)
  | ["end", i, "ok", v] =>
    act d (fun s => (findWorker s (natOr i)).bind fun w => Model.ParDo.step d.cfg s (.fEnd w (.ok (natOr v))))
  | ["end", i, "err", k] =>
    act d (fun s => (findWorker s (natOr i)).bind fun w => Model.ParDo.step d.cfg s (.fEnd w (.err (natOr k))))
  | "obs" :: rest =>
    let want := joinWith " " rest
    let keep := d.states.filter (fun s => obsOf s == want)
    if keep.isEmpty && !d.overflow then
      let have_ := dedupStrings (d.states.map obsOf)
      ({ d with states := [] }, s!"empty want<{want}> model-allows<{joinWith " | " (have_.take 6)}> ({have_.length} alternatives)")
    else reply { d with states := keep }
  | _ => (d, "bad-op")

def handler : Handler := { σ := DSt, init := {}, step := step }

end Juniper.Driver.C13
