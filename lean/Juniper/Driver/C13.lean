import Juniper.Driver.Basic
import Juniper.Driver.ParConform
import Juniper.Model.ParDo
import Juniper.Model.ParWrap
/-! Conformance driver for the `parallel.Do` / `DoContext` model and the `Map` / `MapContext` wrapper model
(C13): `driver pardo`.

Lines: `init do|dc|map|mapctx <P> <n> <gmp>`, `cancel`, `end <idx> ok <v>`, `end <idx> err <k>`,
`obs <observation>`. The driver keeps the set of model states compatible with the observations so
far; the answer is `ok <number of states>` or `empty …` (the implementation did something the model
cannot do).

`do` / `dc` run the LTS of `Model/ParDo.lean`; `map` / `mapctx` run the wrapper LTS of `Model/ParWrap.lean`
with `in = [1000, 1001, …]` (what the harness passes): the index the harness sees for a call of the user's
`f` is `in[readIdx i] - 1000`, the context state it sees is the one of the context the regenerated binder
facts hand to `f`, `out` is the slice the wrapper returns — all through the regenerated wrapper facts.

Observation: `b=[idx:cancelledAtEntry,…] run=[…] cx=<-|0|1> ret=… out=[…]`; `cx` = is the context of the
calls in progress cancelled right now (`-` when no call is in progress or the function takes no context). -/
namespace Juniper.Driver.C13
open Juniper.Driver Juniper.Driver.ParConform Juniper.Model.ParDo Juniper.Model.ParWrap

structure DSt where
  cfg : Cfg := { code := dcCode, P := 1, n := 0, gmp := 1 }
  states : List St := []
  /-- wrapper modes -/
  wcfg : Option (WCfg Nat) := none
  wstates : List (WSt Nat) := []
  overflow : Bool := false

def sys (cfg : Cfg) : Sys St Label := { step := step cfg, internal := internalLabels }
def wsys (wc : WCfg Nat) : Sys (WSt Nat) Label := { step := wstep wc, internal := fun s => internalLabels s.core }

def showErr : Err → String
  | .f k => s!"E{k}"
  | .ctxCaller => "ctxcaller"
  | .ctxLib => "ctxlib"

def showRet : Option (Option Err) → String
  | none => "-"
  | some none => "nil"
  | some (some e) => showErr e

def runningOf (ws : List Pc) : List Nat :=
  ws.filterMap (fun pc => match pc with | .inF i => some i | _ => none)

def showOut (o : List (Option Nat)) : String :=
  joinWith "," (o.map fun | none => "_" | some v => toString v)

def showCx (ctxMode : Bool) (anyRunning : Bool) (cancelled : Bool) : String :=
  if !ctxMode || !anyRunning then "-" else if cancelled then "1" else "0"

/-- canonical observation of a quiescent state of `Do` / `DoContext` -/
def obsOf (cfg : Cfg) (s : St) : String :=
  let b := joinWith "," (s.begun.map fun b => s!"{b.idx}:{if b.cancelled then 1 else 0}")
  let run := (runningOf s.ws).mergeSort
  let r := joinWith "," (run.map toString)
  s!"b=[{b}] run=[{r}] cx={showCx cfg.code.ctxMode (!run.isEmpty) (ctxCancelled s)} ret={showRet s.ret} out=[]"

/-- the index the harness sees for the callee's index `i`: the element handed to `f`, minus 1000 -/
def obsIdx (wc : WCfg Nat) (i : Nat) : Nat :=
  match getAt wc.inp (wc.w.readIdx i wc.inp.length (wc.w.alloc wc.inp.length)) with
  | some a => a - 1000
  | none => 9999

/-- canonical observation of a quiescent state of `Map` / `MapContext` -/
def wobsOf (wc : WCfg Nat) (s : WSt Nat) : String :=
  if s.panic then "panic" else
  let b := joinWith "," (s.calls.map fun c => s!"{c.arg - 1000}:{if c.cancelled then 1 else 0}")
  let run := ((runningOf s.core.ws).map (obsIdx wc)).mergeSort
  let r := joinWith "," (run.map toString)
  let ret := match s.wret with
    | none => "-"
    | some w => (match w.err with | none => "nil" | some e => showErr e)
  let out := match s.wret with
    | some ⟨some o, none⟩ => showOut o
    | some ⟨none, none⟩ => "nil"
    | _ => ""
  s!"b=[{b}] run=[{r}] cx={showCx wc.w.code.ctxMode (!run.isEmpty) (userCtxCancelled wc s)} ret={ret} out=[{out}]"

def reply (d : DSt) : DSt × String :=
  if d.overflow then (d, "overflow") else
  match d.wcfg with
  | none => if d.states.isEmpty then (d, "empty") else (d, s!"ok {d.states.length}")
  | some _ => if d.wstates.isEmpty then (d, "empty") else (d, s!"ok {d.wstates.length}")

/-- apply an environment label (chosen per state from its program counters) to every state -/
def act (d : DSt) (lab : List Pc → (Nat → Nat) → Option Label) : DSt × String :=
  match d.wcfg with
  | none =>
    let (st, ok) := advance (sys d.cfg) d.states (fun s => (lab s.ws id).bind (Model.ParDo.step d.cfg s))
    reply { d with states := st, overflow := d.overflow || !ok }
  | some wc =>
    let (st, ok) := advance (wsys wc) d.wstates (fun s => (lab s.core.ws (obsIdx wc)).bind (wstep wc s))
    reply { d with wstates := st, overflow := d.overflow || !ok }

/-- apply two environment labels released together (`ParConform.advance2`) -/
def act2 (d : DSt) (lab1 lab2 : List Pc → (Nat → Nat) → Option Label) : DSt × String :=
  match d.wcfg with
  | none =>
    let (st, ok) := advance2 (sys d.cfg) d.states
      (fun s => (lab1 s.ws id).bind (Model.ParDo.step d.cfg s)) (fun s => (lab2 s.ws id).bind (Model.ParDo.step d.cfg s))
    reply { d with states := st, overflow := d.overflow || !ok }
  | some wc =>
    let (st, ok) := advance2 (wsys wc) d.wstates
      (fun s => (lab1 s.core.ws (obsIdx wc)).bind (wstep wc s)) (fun s => (lab2 s.core.ws (obsIdx wc)).bind (wstep wc s))
    reply { d with wstates := st, overflow := d.overflow || !ok }

/-- the worker in which the call the harness names `i` is in progress -/
def findEnd (i : Nat) (r : Res) (ws : List Pc) (obs : Nat → Nat) : Option Label :=
  (ws.findIdx? (fun pc => match pc with | .inF j => obs j == i | _ => false)).map fun w => Label.fEnd w r

def step (d : DSt) : List String → DSt × String
  | ["init", mode, p, n, g] =>
    if mode == "map" || mode == "mapctx" then
      let wc : WCfg Nat := { w := if mode == "map" then mapWrapper else mapContextWrapper, P := intOr p,
                             inp := (List.range (natOr n)).map (· + 1000), gmp := natOr g 1 }
      let d := { d with wcfg := some wc, wstates := [winit wc], states := [], overflow := false }
      let (st, ok) := advance (wsys wc) d.wstates some
      reply { d with wstates := st, overflow := !ok }
    else
      let cfg : Cfg := { code := if mode == "do" then doCode else dcCode, P := intOr p, n := natOr n, gmp := natOr g 1 }
      let d := { d with cfg := cfg, states := [init cfg], wcfg := none, wstates := [], overflow := false }
      let (st, ok) := advance (sys cfg) d.states some
      reply { d with states := st, overflow := !ok }
  | ["cancel"] => act d (fun _ _ => some .callerCancel)
  | ["end", i, "ok", v] => act d (findEnd (natOr i) (.ok (natOr v)))
  | ["end", i, "err", k] => act d (findEnd (natOr i) (.err (natOr k)))
  | ["end2", i, "err", k, j, "err", l] =>
    act2 d (findEnd (natOr i) (.err (natOr k))) (findEnd (natOr j) (.err (natOr l)))
  | "obs" :: rest =>
    let want := joinWith " " rest
    match d.wcfg with
    | none =>
      let keep := d.states.filter (fun s => obsOf d.cfg s == want)
      if keep.isEmpty && !d.overflow then
        let have_ := dedupStrings (d.states.map (obsOf d.cfg))
        ({ d with states := [] }, s!"empty want<{want}> model-allows<{joinWith " | " (have_.take 6)}> ({have_.length} alternatives)")
      else reply { d with states := keep }
    | some wc =>
      let keep := d.wstates.filter (fun s => wobsOf wc s == want)
      if keep.isEmpty && !d.overflow then
        let have_ := dedupStrings (d.wstates.map (wobsOf wc))
        ({ d with wstates := [] }, s!"empty want<{want}> model-allows<{joinWith " | " (have_.take 6)}> ({have_.length} alternatives)")
      else reply { d with wstates := keep }
  | _ => (d, "bad-op")

def handler : Handler := { σ := DSt, init := {}, step := step }

end Juniper.Driver.C13
