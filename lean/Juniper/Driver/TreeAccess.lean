import Juniper.Driver.Basic
import Juniper.Driver.Tree
import Juniper.Model.BTreeAccess
/-! Driver for the access-level B-tree model (C01, concurrent clause): `driver treeacc`.

The state is a functional tree (`Model/BTree.lean`); every `acc…` command runs ONE operation of the
access-level machine (`Model/BTreeAccess.lean`) alone on the heap image `memOf t` and prints its
footprint, so that the harness can compare it with what the real code does:

* `new <map|set> <less|cmp> <nat|rev|coarse> <d>`, `put k v`, `del k` — as in `driver tree` (answer `ok`);
* `accget k` / `acchas k` → `keys=<stored keys compared, in order> val=<pos>:<slot>|- writes=<locations> ret=<value|zero|true|false>`;
* `accput k v` → the same line for the `Put` (`writes=` lists the written locations, sorted, `pos:v<slot>` /
  `pos:k<slot>` / `pos:n` / `gen` / `size`), then ` mem=ok|diff`: whether the memory the machine leaves
  holds exactly the tree the functional `put` produces; the state becomes that tree.
* `accrange lo hi n` / `accrrange lo hi n` (bounds as in `driver tree`: `u`, `i<k>`, `e<k>`) → the range reader
  `Range(lo, hi)` / `RangeReverse(lo, hi)` followed by up to `n` calls of `Next`, run alone:
  `keys=<second arguments of the comparator calls: stored keys compared by find, the key the seek landed on, the bound key
  once per in-range test> vals=<pos:slot of every value slot read> items=<k:v yielded> writes=- ret=<end|more>` and
  ` func=ok|diff`: whether the items are what the functional model's `range` / `rangeReverse` + `iterNext` yield.

`pos` is the pre-order position of the node (what the hook dump numbers nodes by). -/
namespace Juniper.Driver.TreeAccess
open Juniper.Driver Juniper.Model.BTree Juniper.Model.BTreeAccess

structure St where
  cmp : Int → Int → Int := fun a b => a - b
  t : Tree Int Int := Tree.empty
  dead : Bool := false

partial def preorder (x : Node Int Int) (acc : Array (Node Int Int)) : Array (Node Int Int) :=
  match x with
  | .mk _ _ kids => kids.foldl (fun a c => preorder c a) (acc.push x)

def posOf (nodes : Array (Node Int Int)) (id : Nat) : String :=
  match nodes.findIdx? (fun y => y.id == id) with
  | some p => toString p
  | none => "?"

def keyAt (nodes : Array (Node Int Int)) (id i : Nat) : String :=
  match nodes.find? (fun y => y.id == id) with
  | some y => match y.kvs[i]? with | some kv => toString kv.1 | none => "?"
  | none => "?"

def showLoc (nodes : Array (Node Int Int)) : Loc → String
  | .root => "root"
  | .size => "size"
  | .gen => "gen"
  | .other => "other"
  | .node id .n => s!"{posOf nodes id}:n"
  | .node id (.key i) => s!"{posOf nodes id}:k{i}"
  | .node id (.val i) => s!"{posOf nodes id}:v{i}"
  | .node id (.child i) => s!"{posOf nodes id}:c{i}"
  | .node id .parent => s!"{posOf nodes id}:p"

def showRes : PC Int Int → String
  | .done (.val (some v)) => toString v
  | .done (.val none) => "zero"
  | .done (.bool b) => if b then "true" else "false"
  | .done .unit => "ok"
  | .done .crash => "crash"
  | .done .unmodelled => "unmodelled"
  | .done (.vals _) => "vals"
  | .it .fin st => if st.left == 0 then "more" else "end"
  | _ => "diverge"

def dedup (l : List String) : List String :=
  l.foldl (fun acc s => if acc.contains s then acc else acc ++ [s]) []

def insertSorted (s : String) : List String → List String
  | [] => [s]
  | x :: xs => if s < x then s :: x :: xs else x :: insertSorted s xs

def sortStrings (l : List String) : List String := l.foldr insertSorted []

/-- the memory holds exactly the tree (on the tree's own locations) -/
def memAgrees (m : Mem Int Int) (t : Tree Int Int) : Bool :=
  m.root == some t.root.id && m.size == t.size && m.gen == (t.gen : Int) &&
  (preorder t.root #[]).all fun y =>
    m.n y.id == (y.kvs.length : Int) &&
    ((List.range y.kvs.length).all fun i =>
      m.key y.id i == (y.kvs[i]?).map (·.1) && m.val y.id i == (y.kvs[i]?).map (·.2)) &&
    ((List.range (y.kvs.length + 1)).all fun i => m.child y.id i == (y.kids[i]?).map Node.id)

/-- one goroutine alone: every state it went through, with the access performed there -/
def soloTrace (cmp : Int → Int → Int) (op : Op Int Int) :
    Nat → Mem Int Int → PC Int Int → List (PC Int Int × Option Access) → List (PC Int Int × Option Access) × Mem Int Int × PC Int Int
  | 0, m, pc, acc => (acc.reverse, m, pc)
  | fuel + 1, m, pc, acc =>
    if pc.isDone then (acc.reverse, m, pc)
    else
      let r := next cmp op m pc
      soloTrace cmp op fuel r.1 r.2 ((pc, accessOf pc) :: acc)

def footprint (s : St) (op : Op Int Int) : String × Mem Int Int :=
  let nodes := preorder s.t.root #[]
  let r := soloTrace s.cmp op 1000000 (memOf s.t) (start op) []
  -- the stored keys handed to the comparator: `searchNode` and the loop of `insertIntoLeaf`
  let keys := r.1.filterMap fun pa =>
    match pa.1 with
    | .key x i => some (keyAt nodes x i)
    | .ikey x i => some (keyAt nodes x i)
    | .it (.fkey x i) _ => some (keyAt nodes x i)
    | .it .sgen st =>
      (match op, st.k with
        | .scan _ .first _ _ _, _ => none
        | .scan _ .last _ _ _, _ => none
        | .scan _ _ _ _ _, some k => some (toString k)
        | _, _ => none)
    | .it .nGen st =>
      (match op, st.curr with
        | .scan _ _ _ (some (_, key)) _, some _ => some (toString key)
        | _, _ => none)
    | _ => none
  -- the value slot whose content is returned
  let vals := r.1.filterMap fun pa =>
    match pa.1 with
    | .run (.readVal :: _) _ rg _ => rg.curr.map fun x => s!"{posOf nodes x}:{rg.idx}"
    | .it .nVal st => st.curr.map fun x => s!"{posOf nodes x}:{st.i.toNat}"
    | _ => none
  let writes := sortStrings (dedup (r.1.filterMap fun pa =>
    match pa.2 with
    | some a => if a.write then some (showLoc nodes a.loc) else none
    | none => none))
  let j := fun (l : List String) => if l.isEmpty then "-" else joinWith "," l
  (s!"keys={j keys} val={j vals} writes={j writes} ret={showRes r.2.2}", r.2.1)

def step (s : St) (toks : List String) : St × String :=
  match toks with
  | "new" :: _ :: ctor :: ck :: d :: _ => ({ cmp := Juniper.Driver.Tree.mkCmp ctor ck (intOr d 1) }, "ok")
  | _ =>
  if s.dead then (s, "crash") else
  match toks with
  | ["put", k, v] =>
    match put s.cmp s.t (intOr k) (intOr v) with
    | some t => ({ s with t := t }, "ok")
    | none => ({ s with dead := true }, "crash")
  | ["del", k] =>
    match delete s.cmp s.t (intOr k) with
    | some t => ({ s with t := t }, "ok")
    | none => ({ s with dead := true }, "crash")
  | ["accget", k] => (s, (footprint s (.get (intOr k))).1)
  | ["acchas", k] => (s, (footprint s (.contains (intOr k))).1)
  | ["accput", k, v] =>
    let fp := footprint s (.put (intOr k) (intOr v))
    match put s.cmp s.t (intOr k) (intOr v) with
    | some t => ({ s with t := t }, fp.1 ++ (if memAgrees fp.2 t then " mem=ok" else " mem=diff"))
    | none => ({ s with dead := true }, "crash")
  | [cmd, lo, hi, n] =>
    if cmd == "accrange" || cmd == "accrrange" then
      let rev := cmd == "accrrange"
      match Juniper.Driver.Tree.parseBound lo, Juniper.Driver.Tree.parseBound hi with
      | some l, some h =>
        match (scanOf rev l h (natOr n 0) : Option (Op Int Int)) with
        | none => (s, "ret=panic")
        | some op =>
          let nodes := preorder s.t.root #[]
          let r := soloTrace s.cmp op 1000000 (memOf s.t) (start op) []
          let fp := (footprint s op).1
          let items := match r.2.2 with
            | .it .fin st => st.out
            | _ => []
          -- the functional model: `range` / `rangeReverse`, then `iterNext` up to `n` times
          let fit := if rev then rangeReverse s.cmp s.t l h else range s.cmp s.t l h
          let fitems := match fit with
            | some it => (drain s.cmp s.t (natOr n 0) it)
            | none => []
          let showI := fun (l : List (Int × Option Int)) =>
            if l.isEmpty then "-" else joinWith "," (l.map fun kv => s!"{kv.1}:{Juniper.Driver.Tree.showOptV kv.2}")
          let _ := nodes
          (s, (fp.replace "val=" "vals=").replace " ret=" s!" items={showI items} ret=" ++
            (if items == fitems then " func=ok" else " func=diff"))
      | _, _ => (s, "bad-op")
    else (s, "bad-op")
  | _ => (s, "bad-op")

def handler : Handler := { σ := St, init := {}, step := step }

end Juniper.Driver.TreeAccess
