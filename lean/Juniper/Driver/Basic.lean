/-! Line-protocol plumbing shared by all model drivers (core-only; linked into the `driver` exe). -/
namespace Juniper.Driver

/-- A model driver: one output line per input line. -/
structure Handler where
  σ : Type
  init : σ
  step : σ → List String → σ × String

def parseInt? (s : String) : Option Int := s.toInt?

def intOr (s : String) (d : Int := 0) : Int := (s.toInt?).getD d

def natOr (s : String) (d : Nat := 0) : Nat := (s.toNat?).getD d

def joinWith (sep : String) (l : List String) : String := sep.intercalate l

def showOptInt : Option Int → String
  | none => "nil"
  | some v => toString v

partial def loop (h : Handler) (inp out : IO.FS.Stream) (s : h.σ) : IO Unit := do
  let line ← inp.getLine
  if line.isEmpty then
    out.flush
    return ()
  let l := line.trimAscii.toString
  if l == "#flush" then
    out.putStrLn "#flushed"
    out.flush
    loop h inp out s
  else if l == "reset" then
    out.putStrLn "reset"
    loop h inp out h.init
  else
    let toks := (l.splitOn " ").filter (· ≠ "")
    let (s', o) := h.step s toks
    out.putStrLn o
    loop h inp out s'

def run (h : Handler) : IO Unit := do
  let inp ← IO.getStdin
  let out ← IO.getStdout
  loop h inp out h.init

end Juniper.Driver
