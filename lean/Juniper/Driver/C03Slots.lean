import Juniper.Driver.Basic
import Juniper.Model.BTreeSlotsOps
/-! Driver for the slot-level B-tree model (C03, "no retained garbage"): `driver treeslots`.

Protocol (one output line per input line; keys / values decimal ints, natural order):
* `put k v`, `del k` → `ok`, or `crash` (the model hit a nil dereference / index out of range; every
  later line answers `crash` too);
* `dump` → `size=<s> gen=<g> root=<id> pre=<id,id,…> ev=<event,…|-> | <node> | <node> …` where `pre`
  lists the live nodes in pre-order (walk over all non-nil child slots, like the hook), `ev` the
  structural events since the previous dump (`split-leaf`, `split-int`, `newroot`, `rotl-leaf`,
  `rotl-int`, `rotr-leaf`, `rotr-int`, `merge-leaf`, `merge-int`, `collapse`) and the nodes are the
  live nodes *written* since the previous dump, in pre-order:
  `<id> n=<n> p=<parent id|_> k=<15 raw key slots> v=<15 raw value slots> c=<16 raw child slots>`
  (slots comma-separated, `_` = zero value / nil);
* `full` → the same with every live node. -/
namespace Juniper.Driver.C03Slots
open Juniper.Driver Juniper.Model.BTreeSlotsOps

structure St where
  h : Heap Int Int := Heap.empty
  dead : Bool := false

def showSlot {α : Type} [ToString α] : Option α → String
  | none => "_"
  | some x => toString x

def showSlots {α : Type} [ToString α] (a : Slots α) : String := joinWith "," (a.map showSlot)

def showNode (id : Nat) (x : SNode Int Int Nat) : String :=
  s!"{id} n={x.n} p={showSlot x.parent} k={showSlots x.keys} v={showSlots x.vals} c={showSlots x.kids}"

def showHeap (h : Heap Int Int) (all : Bool) : String :=
  let pre := h.live
  let shown := pre.filter fun id => all || h.dirty.contains id
  let nodes := shown.filterMap fun id => (h.get id).map (showNode id)
  let ev := if h.events.isEmpty then "-" else joinWith "," h.events.reverse
  let head := s!"size={h.size} gen={h.gen} root={h.root} pre={joinWith "," (pre.map toString)} ev={ev}"
  joinWith " | " (head :: nodes)

def cmpInt (a b : Int) : Int := a - b

def step (s : St) (toks : List String) : St × String :=
  if s.dead then (s, "crash") else
  match toks with
  | ["put", k, v] =>
    match s.h.put cmpInt (intOr k) (intOr v) with
    | some h => ({ s with h := h }, "ok")
    | none => ({ s with dead := true }, "crash")
  | ["del", k] =>
    match s.h.delete cmpInt (intOr k) with
    | some h => ({ s with h := h }, "ok")
    | none => ({ s with dead := true }, "crash")
  | ["dump"] => ({ s with h := { s.h with dirty := [], events := [] } }, showHeap s.h false)
  | ["full"] => ({ s with h := { s.h with dirty := [], events := [] } }, showHeap s.h true)
  | _ => (s, "bad-op")

def handler : Handler := { σ := St, init := {}, step := step }

end Juniper.Driver.C03Slots
