import Juniper.Driver.Basic
import Juniper.Model.HelpersSlices
import Juniper.Model.HelpersSort
import Juniper.Model.HelpersMisc
import Juniper.Model.HelpersMore
/-! Driver for the pure-helper models (C19): `driver helpers`. Stateless: one sub-command per line.

Encodings: a list of ints is `1,2,3` (`-` = empty); a list of lists is `1,2|-|3` (`~` = no list at
all); index ranges are `lo:hi`; a predicate / class table `t` maps the element `x` to `t[x mod |t|]`;
an order is `c rev`: `key x = x / c`, `less a b = key a < key b` (reversed when `rev = 1`). -/
namespace Juniper.Driver.C19
open Juniper.Driver Juniper.Model.Helpers
open Juniper.Model.Stdlib (Sl)

def parseList (s : String) : List Int :=
  if s == "-" || s == "" then [] else (s.splitOn ",").map (fun t => intOr t)

def parseLL (s : String) : List (List Int) :=
  if s == "~" then [] else (s.splitOn "|").map parseList

def showList (l : List Int) : String :=
  if l.isEmpty then "-" else joinWith "," (l.map toString)

def parsePairs (s : String) : List (Int × Int) :=
  if s == "-" || s == "" then [] else
  (s.splitOn ",").map fun t =>
    match t.splitOn ":" with
    | [a, b] => (intOr a, intOr b)
    | _ => (0, 0)

def showPairs (l : List (Int × Int)) : String :=
  if l.isEmpty then "-" else joinWith "," (l.map fun p => s!"{p.1}:{p.2}")

def tableAt (t : List Int) (x : Int) : Int :=
  if t.isEmpty then 0 else t.getD (x % (t.length : Int)).toNat 0

def keyOf (c : Int) (x : Int) : Int := if c ≤ 0 then x else x / c

def lessOf (c rev : Int) (a b : Int) : Bool :=
  if rev == 1 then decide (keyOf c b < keyOf c a) else decide (keyOf c a < keyOf c b)

def insertSorted (x : Int) : List Int → List Int
  | [] => [x]
  | y :: ys => if x ≤ y then x :: y :: ys else y :: insertSorted x ys

def sortInts (l : List Int) : List Int := l.foldr insertSorted []

def b2s (b : Bool) : String := if b then "1" else "0"

/-- error chains: `nil` or dot-separated outer→inner: `s` stack, `w<tag>` fmt wrap, `l<id>c` /
`l<id>n` comparable / non-comparable leaf (always last). -/
def parseErr (s : String) : Option Err :=
  if s == "nil" then none else
  let parts := (s.splitOn ".").reverse
  match parts with
  | [] => none
  | leaf :: outer =>
    let id := natOr ((leaf.drop 1).dropEnd 1).toString
    let cmp := leaf.endsWith "c"
    let base := Err.leaf id cmp
    some <| outer.foldl (fun e p => if p == "s" then Err.stack e else Err.wrap (natOr (p.drop 1).toString) e) base

def showErr1 : Err → List String
  | .leaf id c => [s!"l{id}{if c then "c" else "n"}"]
  | .wrap t e => s!"w{t}" :: showErr1 e
  | .stack e => "s" :: showErr1 e

def showErr : Option Err → String
  | none => "nil"
  | some e => joinWith "." (showErr1 e)

def parseTy (s : String) : Err.Ty :=
  if s == "s" then .stackTy else if s == "w" then .wrapTy else .leafTy (natOr (s.drop 1).toString)

def parseScript (s : String) : List (Option Int × Int) :=
  if s == "-" || s == "" then [] else
  (s.splitOn ",").map fun t =>
    match t.splitOn ":" with
    | [a, b] => (if a == "inf" then none else some (intOr a), intOr b)
    | _ => (none, 0)

def showKV (l : List (Int × Int)) : String :=
  if l.isEmpty then "-" else joinWith "|" (l.map fun p => s!"{p.1}={p.2}")

def sortKV (l : List (Int × Int)) : List (Int × Int) :=
  (sortInts (l.map (·.1))).filterMap fun k => (mget l k).map (k, ·)

def retArr (r : Option (List Int × List Int)) : String :=
  match r with
  | none => "panic"
  | some (ret, arr) => s!"ret={showList ret} arr={showList arr}"

/-! ### the remaining helpers (`Model/HelpersMore.lean`); -/

/-- a slice of the caller with contents `l` and capacity `cap`; the spare capacity holds `-7` -/
def mkSl (l : List Int) (cap : Int) : Sl Int :=
  Sl.withSpare l (List.replicate (cap.toNat - l.length) (-7))

/-- result slice, caller's array afterwards, and whether the result has an array of its own (not
observable for an empty result) -/
def showSl (orig r : Sl Int) : String :=
  s!"ret={showList r.items} arr={showList (Sl.callerAfter orig r)} fresh={if r.items.isEmpty then "-" else b2s r.fresh}"

def showOSl (orig : Sl Int) : Option (Sl Int) → String
  | none => "panic"
  | some r => showSl orig r

def showOInt : Option Int → String
  | none => "panic"
  | some i => toString i

def predOf (t : List Int) (x : Int) : Bool := tableAt t x == 1
def eqOf (t : List Int) (a b : Int) : Bool := tableAt t a == tableAt t b

def runMore : List String → String
  | ["all", l, t] => b2s (all (predOf (parseList t)) (parseList l))
  | ["any", l, t] => b2s (any (Sl.ofList (parseList l)) (predOf (parseList t)))
  | ["count", l, x] => toString (count (parseList l) (intOr x))
  | ["countfunc", l, t] => toString (countFunc (predOf (parseList t)) (parseList l))
  | ["fill", l, x] => showList (fill (parseList l) (intOr x))
  | ["clear", l] => showList (clear 0 (parseList l))
  | ["group", l, t] =>
    let t := parseList t
    let g := group (tableAt t) (parseList l)
    let ks := sortInts (g.map (·.1))
    if ks.isEmpty then "-" else joinWith "|" (ks.map fun k => s!"{k}={showList ((mget g k).getD [])}")
  | ["join", ll] =>
    match join 0 (parseLL ll) with
    | none => "panic"
    | some (out, cap) => s!"out={showList out} cap={match cap with | some c => toString c | none => "?"}"
  | ["lastindex", l, x] => showOInt (lastIndex (parseList l) (intOr x))
  | ["lastindexfunc", l, t] => showOInt (lastIndexFunc (parseList l) (predOf (parseList t)))
  | ["map", l, k] =>
    match map 0 (fun x => x * intOr k + 1) (parseList l) with
    | none => "panic"
    | some out => showList out
  | ["reduce", l, init] => toString (reduce 0 (parseList l) (intOr init) (fun acc x => (acc * 3 + x) % 1000003))
  | ["repeat", x, n] =>
    match repeatN 0 (intOr x) (intOr n) with
    | none => "panic"
    | some out => showList out
  | ["clone", l, cap] => let s := mkSl (parseList l) (intOr cap); showSl s (clone s)
  | ["compact", l, cap] => let s := mkSl (parseList l) (intOr cap); showSl s (compact 0 s)
  | ["compactinplace", l, cap] => let s := mkSl (parseList l) (intOr cap); showSl s (compactInPlace 0 s)
  | ["compactfunc", l, cap, t] => let s := mkSl (parseList l) (intOr cap); showSl s (compactFunc 0 s (eqOf (parseList t)))
  | ["compactinplacefunc", l, cap, t] =>
    let s := mkSl (parseList l) (intOr cap); showSl s (compactInPlaceFunc 0 s (eqOf (parseList t)))
  | ["equal", a, b] => b2s (equal (Sl.ofList (parseList a)) (Sl.ofList (parseList b)))
  | ["equalfunc", a, b, t] => b2s (equalFunc (Sl.ofList (parseList a)) (Sl.ofList (parseList b)) (eqOf (parseList t)))
  | ["filter", l, cap, t] => let s := mkSl (parseList l) (intOr cap); showSl s (filter 0 s (predOf (parseList t)))
  | ["filterinplace", l, cap, t] => let s := mkSl (parseList l) (intOr cap); showSl s (filterInPlace 0 s (predOf (parseList t)))
  | ["grow", l, cap, n] =>
    let s := mkSl (parseList l) (intOr cap)
    match grow 0 s (intOr n) with
    | none => "panic"
    | some r => s!"ret={showList r.items} fresh={b2s r.fresh} cap={if r.fresh then s!"ge{r.cap}" else toString r.cap}"
  | ["index", l, x] => toString (index (Sl.ofList (parseList l)) (intOr x))
  | ["indexfunc", l, t] => toString (indexFunc (Sl.ofList (parseList l)) (predOf (parseList t)))
  | ["insert", l, cap, idx, vals] => let s := mkSl (parseList l) (intOr cap); showOSl s (insertAt s (intOr idx) (parseList vals))
  | ["remove", l, cap, idx, n] => let s := mkSl (parseList l) (intOr cap); showOSl s (remove 0 s (intOr idx) (intOr n))
  | ["greater", a, b] => b2s (Juniper.Gen.Helpers.greater (a == "1") (b == "1"))
  | ["lessorequal", a, b] => b2s (Juniper.Gen.Helpers.lessOrEqual (a == "1") (b == "1"))
  | ["greaterorequal", a, b] => b2s (Juniper.Gen.Helpers.greaterOrEqual (a == "1") (b == "1"))
  | ["sortequal", a, b] => b2s (Juniper.Gen.Helpers.sortEqual (a == "1") (b == "1"))
  | ["sortreverse", c, rev, a, b] => b2s (reverseOf (lessOf (intOr c) (intOr rev)) (intOr a) (intOr b))
  | ["orderedless", a, b] => b2s (orderedLess (intOr a) (intOr b))
  | ["sortslice", c, rev, l] =>
    let r := sortSlice 0 (Sl.ofList (parseList l)) (lessOf (intOr c) (intOr rev))
    s!"keys={showList (r.items.map (keyOf (intOr c)))} sorted={showList (sortInts r.items)}"
  | ["slicestable", c, rev, l] => showList (sortSliceStable 0 (Sl.ofList (parseList l)) (lessOf (intOr c) (intOr rev))).items
  | ["sliceissorted", c, rev, l] => b2s (sortSliceIsSorted 0 (Sl.ofList (parseList l)) (lessOf (intOr c) (intOr rev)))
  | ["setadd", l, x] => showList (sortInts (setAdd (parseList l) (intOr x)))
  | ["setremove", l, x] => showList (sortInts (setRemove (parseList l) (intOr x)))
  | ["setcontains", l, x] => b2s (setContains (parseList l) (intOr x))
  | ["setfromslice", l] => showList (sortInts (setFromSlice (parseList l)))
  | ["min", a, b] => toString (xmin (intOr a) (intOr b))
  | ["max", a, b] => toString (xmax (intOr a) (intOr b))
  | _ => "bad-op"

def run1 : List String → String
  | ["chunk", len, size] =>
    match chunk (intOr len) (intOr size) with
    | none => "panic"
    | some rs => showPairs rs
  | ["chunkz", len, size] =>
    -- Chunk on zero-size elements with an extreme length: the chunk lengths (few chunks: size ≥ 2^60)
    if chunkN (intOr len) (intOr size) > 64 then "huge" else
    match chunk (intOr len) (intOr size) with
    | none => "panic"
    | some rs => "lens=" ++ joinWith "," (rs.map fun r => toString (r.2 - r.1))
  | ["removeunordered", l, idx, n] => retArr (removeUnordered 0 (parseList l) (intOr idx) (intOr n))
  | ["reverse", l] =>
    match reverse (parseList l) with
    | none => "panic"
    | some a => showList a
  | ["partition", l, t] =>
    let t := parseList t
    match partition (fun x => tableAt t x == 1) (parseList l) with
    | none => "panic"
    | some (arr, i) => s!"ret={i} arr={showList arr}"
  | ["unique", l] => showList (unique (parseList l))
  | ["uniqueinplace", l] => retArr (uniqueInPlace 0 (parseList l))
  | ["runs", l, t] =>
    let t := parseList t
    match runs (fun a b => tableAt t a == tableAt t b) (parseList l) with
    | none => "panic"
    | some rs => showPairs rs
  | ["runsle", l, t] =>
    let t := parseList t
    match runs (fun a b => decide (tableAt t a ≤ tableAt t b)) (parseList l) with
    | none => "panic"
    | some rs => showPairs rs
  | ["shrink", l, cap, n] =>
    match shrink 0 (parseList l) (intOr cap) (intOr n) with
    | none => "panic"
    | some (s, c, re) => s!"s={showList s} cap={c} realloc={b2s re}"
  | ["search", l, c, rev, item] => toString (search (lessOf (intOr c) (intOr rev)) (parseList l) (intOr item))
  | ["lesscompare", a, b] => toString (Juniper.Gen.Helpers.lessCompare (a == "1") (b == "1"))
  | ["merge", c, rev, ll] =>
    let out := merge (lessOf (intOr c) (intOr rev)) popFirstMin (parseLL ll)
    s!"keys={showList (out.map (keyOf (intOr c)))} sorted={showList (sortInts out)}"
  | ["mergeslices", c, rev, outCap, ll] =>
    let (out, reuse) := mergeSlices (lessOf (intOr c) (intOr rev)) popFirstMin (max 0 (intOr outCap)) (parseLL ll)  -- -1 = nil out
    s!"keys={showList (out.map (keyOf (intOr c)))} sorted={showList (sortInts out)} reuse={b2s reuse}"
  | ["mink", c, rev, k, l] =>
    match minK 0 (lessOf (intOr c) (intOr rev)) popFirstMin (parseList l) (intOr k) with
    | none => "panic"
    | some out => s!"keys={showList (out.map (keyOf (intOr c)))}"
  | ["union", ll] => showList (sortInts (setUnion (parseLL ll)))
  | ["intersection", ll] =>
    match setIntersection (parseLL ll) with
    | none => "panic"
    | some r => showList (sortInts r)
  | ["intersects", ll] =>
    match setIntersects (parseLL ll) with
    | none => "panic"
    | some b => b2s b
  | ["difference", a, b] => showList (sortInts (setDifference (parseList a) (parseList b)))
  | ["mapreverse", ks, vs] =>
    let m := (parseList ks).zip (parseList vs)
    let r := mapReverse m
    let vals := sortInts (r.map (·.1))
    if vals.isEmpty then "-" else
    joinWith "|" (vals.map fun v => s!"{v}={showList (sortInts ((mget r v).getD []))}")
  | ["reversesingle", ks, vs] =>
    let m := (parseList ks).zip (parseList vs)
    let (r, ok) := mapReverseSingle m
    let vals := sortInts (r.map (·.1))
    let body := if vals.isEmpty then "-" else
      joinWith "|" (vals.map fun v =>
        if (m.filter (fun p => p.2 == v)).length > 1 then s!"{v}=*" else s!"{v}={(mget r v).getD 0}")
    s!"ok={b2s ok} {body}"
  | ["toindex", ks] => showKV (sortKV ((toIndex (parseList ks)).map fun p => (p.1, (p.2 : Int))))
  | ["fromkv", ks, vs] =>
    match fromKeysAndValues (parseList ks) (parseList vs) with
    | none => "panic"
    | some (m, ok) => s!"ok={b2s ok} {showKV (sortKV m)}"
  | ["abs", w, x] =>
    let w := natOr w
    match Juniper.Gen.Helpers.abs w (BitVec.ofInt w (intOr x)) with
    | none => "panic"
    | some y => toString y.toInt
  | ["clamp", x, lo, hi] => toString (Juniper.Gen.Helpers.clamp (intOr x) (intOr lo) (intOr hi))
  | ["withstack", e] => showErr (withStack (parseErr e))
  | ["wsws", e] => showErr (withStack (withStack (parseErr e)))
  | ["wsunwrap", e] =>
    match withStack (parseErr e) with
    | none => "nil"
    | some w => showErr w.unwrap
  | ["wsis", e, t] =>
    match withStack (parseErr e), parseErr t with
    | some e, some t => b2s (e.is t)
    | none, none => "1"
    | _, _ => "0"
  | ["wsas", e, t] =>
    match withStack (parseErr e) with
    | none => "nil"
    | some e => showErr (e.as (parseTy t))
  | ["unwrap", e] =>
    match parseErr e with
    | none => "nil"
    | some e => showErr e.unwrap
  | ["is", e, t] =>
    match parseErr e, parseErr t with
    | some e, some t => b2s (e.is t)
    | none, none => "1"
    | _, _ => "0"
  | ["as", e, t] =>
    match parseErr e with
    | none => "nil"
    | some e => showErr (e.as (parseTy t))
  | ["sampler", k, m, maxInt, script] =>
    showPairs (samplerRun (intOr maxInt) (natOr m) (newSamp (intOr k)) (parseScript script))
  | ["rsample", n, k, ds] =>
    match rSample (intOr n) (intOr k) (parsePairs ds) with
    | none => "panic"
    | some out => showList out
  | ["rsampleslice", n, k, ds] =>
    match rSampleSlicePos (intOr n) (intOr k) (parsePairs ds) with
    | none => "panic"
    | some out => showList out
  | ["rsampleiter", stream, n, k, ds] =>
    match rSampleIterPos (stream == "1") (intOr n) (intOr k) (parsePairs ds) with
    | none => "panic"
    | some out => showList out
  | ["shuffle", l, swaps] =>
    match applySwaps (parsePairs swaps) (parseList l) with
    | none => "panic"
    | some a => showList a
  | toks => runMore toks

def handler : Handler := { σ := Unit, init := (), step := fun s toks => (s, run1 toks) }

end Juniper.Driver.C19
