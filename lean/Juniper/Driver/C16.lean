import Juniper.Driver.Basic
import Juniper.Model.Cond
/-! Driver for the ContextCond LTS (C16): `driver cond`. State-set conformance.

Lines: `init <k>` | `<action…> = <letters> <holder|->` where the action is one of
`start i`, `release i`, `arrive i`, `signal`, `broadcast`, `cancel i`, `hunlock`, and the observation is
one status letter per waiter (I idle, A at Unlock holding the lock, B entered / not yet at the select,
P parked, R woken and waiting for the lock, N returned nil, E returned the ctx error) plus the
lock holder. Output `ok <n>` (n = model states compatible with everything observed so far) or
`EMPTY allowed=<obs>;<obs>…` (the implementation did something the model says is impossible). -/
namespace Juniper.Driver.C16
open Juniper.Driver Juniper.Model.Cond

structure St where
  ss : List State := []
  dead : Bool := false

/-- the labels by which one harness action can be realised -/
def actionLabels (s : State) : List String → List Label
  | ["start", i] => [.start (natOr i)]
  | ["release", i] => [.release (natOr i)]
  | ["arrive", i] => [.arrive (natOr i) .recv, .arrive (natOr i) .ctx, .arrive (natOr i) .park]
  | ["signal"] => .signal none :: (List.range s.ws.length).map (fun i => .signal (some i))
  | ["broadcast"] => [.broadcast]
  | ["cancel", i] => [.cancel (natOr i)]
  | ["hunlock"] => [.hunlock]
  | _ => []

def applyAction (cfg : Cfg) (ss : List State) (act : List String) : List State :=
  let next := ss.flatMap (fun s => (actionLabels s act).filterMap (step cfg s))
  match ss with
  | [] => []
  | s :: _ => quiesce cfg (s.ws.length + 1) next.eraseDups

def showObs (o : String × Option Nat) : String :=
  o.1 ++ "/" ++ (match o.2 with | none => "-" | some i => toString i)

def splitAt (toks : List String) : List String × List String :=
  (toks.takeWhile (· ≠ "="), (toks.dropWhile (· ≠ "=")).drop 1)

def step (st : St) (toks : List String) : St × String :=
  match toks with
  | ["init", k] => ({ ss := [init Cfg.gen (natOr k)] }, "ok 1")
  | ["cfg"] => (st, reprStr Cfg.gen |>.replace "\n" " ")
  | _ =>
    if st.dead then (st, "dead") else
    let (act, obs) := splitAt toks
    let next := applyAction Cfg.gen st.ss act
    match obs with
    | [letters, holder] =>
      let want : String × Option Nat := (letters, if holder == "-" then none else some (natOr holder))
      let keep := next.filter (fun s => obsOf s == want)
      if keep.isEmpty then
        ({ st with dead := true },
          "EMPTY allowed=" ++ joinWith ";" ((next.map (fun s => showObs (obsOf s))).eraseDups))
      else ({ st with ss := keep }, s!"ok {keep.length}")
    | _ => (st, "bad-op")

def handler : Handler := { σ := St, init := {}, step := step }

end Juniper.Driver.C16
