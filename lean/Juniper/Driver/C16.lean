import Juniper.Driver.Basic
import Juniper.Model.Cond
import Juniper.Model.CondFine
/-! Driver for the ContextCond LTS (C16): `driver cond`. State-set conformance.

Lines: `init <k>` | `<action…> = <letters> <holder|->` where the action is one of
`start i`, `release i`, `arrive i`, `signal`, `broadcast`, `cancel i`, `hunlock`, and the observation is
one status letter per waiter (I idle, A at Unlock holding the lock, B entered / not yet at the select,
P parked, R woken and waiting for the lock, N returned nil, E returned the ctx error) plus the
lock holder. Output `ok <n>` (n = model states compatible with everything observed so far) or
`EMPTY allowed=<obs>;<obs>…` (the implementation did something the model says is impossible).

`cex <k>`: Model-vs-Spec search in the fine-grained LTS (`Model/CondFine.lean`: `Signal` / `Broadcast`
statement by statement, as regenerated): `k` waiters, two `Signal` calls and two `Broadcast` calls in
progress, every interleaving; answers `ok none-in-<n>-states` or `cex <labels leading to a panic>`. -/
namespace Juniper.Driver.C16
open Juniper.Driver Juniper.Model.Cond

structure St where
  ss : List State := []
  dead : Bool := false

/-- the labels by which one harness action can be realised -/
def actionLabels (s : State) : List String → List Label
  | ["start", i] => [.start (natOr i)]
  | ["release", i] => [.release (natOr i)]
  | ["arrive", i] => [.arrive (natOr i) .recv, .arrive (natOr i) .ctx, .arrive (natOr i) .park]
  | ["signal"] => .signal none :: (List.range s.ws.length).map (fun i => .signal (some i))
  | ["broadcast"] => [.broadcast]
  | ["cancel", i] => [.cancel (natOr i)]
  | ["hunlock"] => [.hunlock]
  | _ => []

def applyAction (cfg : Cfg) (ss : List State) (act : List String) : List State :=
  let next := ss.flatMap (fun s => (actionLabels s act).filterMap (step cfg s))
  match ss with
  | [] => []
  | s :: _ => quiesce cfg (s.ws.length + 1) next.eraseDups

def showFLabel : FLabel → String
  | .env (.start i) => s!"start {i}"
  | .env (.release i) => s!"release {i}"
  | .env (.arrive i .recv) => s!"arrive {i} recv"
  | .env (.arrive i .ctx) => s!"arrive {i} ctx"
  | .env (.arrive i .park) => s!"arrive {i} park"
  | .env (.relock i) => s!"relock {i}"
  | .env .hunlock => "hunlock"
  | .env (.cancel i) => s!"cancel {i}"
  | .env _ => "?"
  | .call true => "call Signal"
  | .call false => "call Broadcast"
  | .callStep j none => s!"call#{j} next statement"
  | .callStep j (some i) => s!"call#{j} next statement (send handed to waiter {i})"

/-- `panicSearch` that also reports how many states were expanded -/
def panicSearchN (cfg : Cfg) : Nat → List (FState × List FLabel) → List FState → Nat → Option (List FLabel) × Nat
  | 0, _, _, n => (none, n)
  | _, [], _, n => (none, n)
  | fuel + 1, (fs, path) :: rest, seen, n =>
    if fs.panicked then (some path.reverse, n)
    else if seen.contains fs then panicSearchN cfg fuel rest seen n
    else
      let succ := (fLabelsOf fs).filterMap fun l => (fstep cfg fs l).map fun fs' => (fs', l :: path)
      panicSearchN cfg fuel (rest ++ succ) (fs :: seen) (n + 1)

def showObs (o : String × Option Nat) : String :=
  o.1 ++ "/" ++ (match o.2 with | none => "-" | some i => toString i)

def splitAt (toks : List String) : List String × List String :=
  (toks.takeWhile (· ≠ "="), (toks.dropWhile (· ≠ "=")).drop 1)

def step (st : St) (toks : List String) : St × String :=
  match toks with
  | ["init", k] => ({ ss := [init Cfg.gen (natOr k)] }, "ok 1")
  | ["cfg"] => (st, reprStr Cfg.gen |>.replace "\n" " ")
  | ["cex", k] =>
    let cfg := Cfg.gen
    let mk (ops : List Gen.Cond.Op) : CallT := { todo := ops, holdsR := false, holdsW := false, snap := none }
    let start : FState := { (finit cfg (natOr k)) with calls := [mk cfg.sigOps, mk cfg.bcOps, mk cfg.sigOps, mk cfg.bcOps] }
    match panicSearchN cfg 200000 [(start, [])] [] 0 with
    | (some path, _) => (st, "cex " ++ joinWith " ; " (path.map showFLabel))
    | (none, n) => (st, s!"ok none-in-{n}-states")
  | _ =>
    if st.dead then (st, "dead") else
    let (act, obs) := splitAt toks
    let next := applyAction Cfg.gen st.ss act
    match obs with
    | [letters, holder] =>
      let want : String × Option Nat := (letters, if holder == "-" then none else some (natOr holder))
      let keep := next.filter (fun s => obsOf s == want)
      if keep.isEmpty then
        ({ st with dead := true },
          "EMPTY allowed=" ++ joinWith ";" ((next.map (fun s => showObs (obsOf s))).eraseDups))
      else ({ st with ss := keep }, s!"ok {keep.length}")
    | _ => (st, "bad-op")

def handler : Handler := { σ := St, init := {}, step := step }

end Juniper.Driver.C16
