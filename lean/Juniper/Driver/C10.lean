import Juniper.Driver.Basic
import Juniper.Model.Pipe
/-!
Conformance driver for the Pipe LTS (C10): `driver pipe`.

Protocol (one answer per line):
* `cfg <senders> <bufferSize>`                → `ok 1`
* `act <action> | <completion>*`              → `ok <n>` (n = number of model states compatible with
  everything observed so far) or `empty allowed: {…} {…}` (the implementation did something no
  schedule of the model allows; the sets are the completion sets the model allows) or `bad-action`.
  actions: `send i v c` `try i v c` `next c` `cancel i` `cancelnext` `sclose e` `rclose` (c, e ∈ {0,1});
  completions: `s<i>=nil|ctx|closed|err|true|false`, `n=v<value>|end|err|ctx`.
* `ghost` → the ghost logs of the first compatible state (for diagnostics).

State-set engine: apply the action to every state of the set, close under internal steps up to
quiescence (no internal label enabled — this is what `synctest.Wait()` observes), keep the quiescent
states whose completed calls are exactly the observed ones.
-/
namespace Juniper.Driver.C10
open Juniper.Driver Juniper.Model.Pipe Juniper.Facts

structure St where
  set : List State := []

def internalLabels (st : State) : List Label :=
  let n := st.senders.length
  (List.range n).flatMap (fun i =>
    match st.senders[i]? with
    | none => []
    | some sd => Label.handoff i :: Label.park i :: (tableOf sd.pc).map (Label.sender i)) ++
  Label.parkRecv :: (rtableOf st.rpc).map Label.recv

def successors (st : State) : List (State × List String) :=
  (internalLabels st).filterMap fun l =>
    match step st l with
    | none => none
    | some st' => some (st', (completions st l).map showCompletion)

def insertSorted (x : String) : List String → List String
  | [] => [x]
  | y :: ys => if x ≤ y then x :: y :: ys else y :: insertSorted x ys

def sortStrs (l : List String) : List String := l.foldr insertSorted []

def addNew (seen : List (State × List String)) (xs : List (State × List String)) :
    List (State × List String) × List (State × List String) :=
  xs.foldl (fun (acc : List (State × List String) × List (State × List String)) x =>
    if acc.1.contains x then acc else (x :: acc.1, x :: acc.2)) (seen, [])

/-- All quiescent configurations reachable by internal steps, with the calls completed on the way. -/
def closure (fuel : Nat) (frontier seen quiescent : List (State × List String)) :
    List (State × List String) :=
  match fuel with
  | 0 => quiescent
  | fuel + 1 =>
    match frontier with
    | [] => quiescent
    | _ =>
      let (q, next) := frontier.foldl (fun (acc : List (State × List String) × List (State × List String)) (x : State × List String) =>
        let succ := successors x.1
        if succ.isEmpty then (x :: acc.1, acc.2)
        else (acc.1, acc.2 ++ succ.map (fun (y : State × List String) => (y.1, sortStrs (x.2 ++ y.2))))) (([] : List (State × List String)), ([] : List (State × List String)))
      let (seen', fresh) := addNew seen next
      closure fuel fresh seen' (quiescent ++ q)

def parseBool (s : String) : Bool := s == "1"

def parseAction : List String → Option Label
  | ["send", i, v, c] => some (.startSend (natOr i) (intOr v) (parseBool c))
  | ["try", i, v, c] => some (.startTry (natOr i) (intOr v) (parseBool c))
  | ["next", c] => some (.startNext (parseBool c))
  | ["cancel", i] => some (.cancelSender (natOr i))
  | ["cancelnext"] => some .cancelNext
  | ["sclose", e] => some (.closeSender (parseBool e))
  | ["rclose"] => some .closeRecv
  | _ => none

def dedupStates (l : List State) : List State :=
  l.foldl (fun acc x => if acc.contains x then acc else acc ++ [x]) []

def dedupStrs (l : List String) : List String :=
  l.foldl (fun acc x => if acc.contains x then acc else acc ++ [x]) []

def showMsgs (l : List Msg) : String := joinWith "," (l.map fun m => toString m.val)

def step (s : St) (toks : List String) : St × String :=
  match toks with
  | ["cfg", n, b] => ({ set := [init (natOr n) (natOr b)] }, "ok 1")
  | ["ghost"] =>
    match s.set with
    | [] => (s, "ghost none")
    | st :: _ => (s, s!"ghost buf={showMsgs st.buf} acked={showMsgs st.acked} ackedBC={showMsgs st.ackedBC} delivered={showMsgs st.delivered} end={st.endReported}")
  | "act" :: rest =>
    let actToks := rest.takeWhile (· ≠ "|")
    let obs := sortStrs ((rest.dropWhile (· ≠ "|")).drop 1)
    match parseAction actToks with
    | none => (s, "bad-action")
    | some l =>
      let applied := s.set.filterMap (fun st => Juniper.Model.Pipe.step st l)
      if applied.isEmpty then (s, "bad-action not-enabled") else
      let start := applied.map (fun st => (st, ([] : List String)))
      let q := closure 64 start start []
      let ok := dedupStates ((q.filter (fun x => x.2 == obs)).map (·.1))
      if ok.isEmpty then
        let allowed := dedupStrs (q.map (fun x => "{" ++ joinWith " " x.2 ++ "}"))
        ({ set := [] }, "empty allowed: " ++ joinWith " " allowed)
      else ({ set := ok }, s!"ok {ok.length}")
  | _ => (s, "bad-op")

def handler : Handler := { σ := St, init := {}, step := step }

end Juniper.Driver.C10
