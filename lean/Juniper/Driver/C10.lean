import Juniper.Driver.Basic
import Juniper.Model.Pipe
/-!
Conformance driver for the Pipe LTS (C10): `driver pipe`.

Protocol (one answer per line):
* `cfg <senders> <bufferSize>`                → `ok 1`
* `act <action> | <completion>*`              → `ok <n>` (n = number of model states compatible with
  everything observed so far) or `empty allowed: {…} {…}` (the implementation did something no
  schedule of the model allows; the sets are the completion sets the model allows) or `bad-action`.
  actions: `send i v c` `try i v c` `next c` `cancel i` `cancelnext` `sclose e` `rclose` (c, e ∈ {0,1});
  completions: `s<i>=nil|ctx|closed|err|true|false`, `n=v<value>|end|err|ctx`.
* `ghost` → the ghost logs of the first compatible state (for diagnostics).
* `outcomes <senders> <bufferSize> pre <action> ; … par <action> ; … post <action> ; …`
  → `outcomes {<completions> | <completions> …} {…} …`: the **outcome set** of a real-threads scenario —
  every result tuple some schedule of the LTS produces when the `pre` actions are issued in this order,
  then the `par` actions concurrently (any order), with internal steps of the calls interleaved anywhere
  (a call that was started need not have polled or parked when the next action comes); each `post` action
  is issued at a quiescent point after that (every earlier call has returned or waits for good). One
  outcome = the sorted completions of the pre/par phase, then, after `|`, those of each post action.
  Same `step`, same `completions` as the conformance engine.

State-set engine: apply the action to every state of the set, close under internal steps up to
quiescence (no internal label enabled — this is what `synctest.Wait()` observes), keep the quiescent
states whose completed calls are exactly the observed ones.
-/
namespace Juniper.Driver.C10
open Juniper.Driver Juniper.Model.Pipe Juniper.Facts

structure St where
  set : List State := []

def internalLabels (st : State) : List Label :=
  let n := st.senders.length
  (List.range n).flatMap (fun i =>
    match st.senders[i]? with
    | none => []
    | some sd => Label.handoff i :: Label.park i :: (tableOf sd.pc).map (Label.sender i)) ++
  Label.parkRecv :: (rtableOf st.rpc).map Label.recv

def successors (st : State) : List (State × List String) :=
  (internalLabels st).filterMap fun l =>
    match step st l with
    | none => none
    | some st' => some (st', (completions st l).map showCompletion)

def insertSorted (x : String) : List String → List String
  | [] => [x]
  | y :: ys => if x ≤ y then x :: y :: ys else y :: insertSorted x ys

def sortStrs (l : List String) : List String := l.foldr insertSorted []

def addNew (seen : List (State × List String)) (xs : List (State × List String)) :
    List (State × List String) × List (State × List String) :=
  xs.foldl (fun (acc : List (State × List String) × List (State × List String)) x =>
    if acc.1.contains x then acc else (x :: acc.1, x :: acc.2)) (seen, [])

/-- All quiescent configurations reachable by internal steps, with the calls completed on the way. -/
def closure (fuel : Nat) (frontier seen quiescent : List (State × List String)) :
    List (State × List String) :=
  match fuel with
  | 0 => quiescent
  | fuel + 1 =>
    match frontier with
    | [] => quiescent
    | _ =>
      let (q, next) := frontier.foldl (fun (acc : List (State × List String) × List (State × List String)) (x : State × List String) =>
        let succ := successors x.1
        if succ.isEmpty then (x :: acc.1, acc.2)
        else (acc.1, acc.2 ++ succ.map (fun (y : State × List String) => (y.1, sortStrs (x.2 ++ y.2))))) (([] : List (State × List String)), ([] : List (State × List String)))
      let (seen', fresh) := addNew seen next
      closure fuel fresh seen' (quiescent ++ q)

def parseBool (s : String) : Bool := s == "1"

def parseAction : List String → Option Label
  | ["send", i, v, c] => some (.startSend (natOr i) (intOr v) (parseBool c))
  | ["try", i, v, c] => some (.startTry (natOr i) (intOr v) (parseBool c))
  | ["next", c] => some (.startNext (parseBool c))
  | ["cancel", i] => some (.cancelSender (natOr i))
  | ["cancelnext"] => some .cancelNext
  | ["sclose", e] => some (.closeSender (parseBool e))
  | ["rclose"] => some .closeRecv
  | _ => none

def dedupStates (l : List State) : List State :=
  l.foldl (fun acc x => if acc.contains x then acc else acc ++ [x]) []

def dedupStrs (l : List String) : List String :=
  l.foldl (fun acc x => if acc.contains x then acc else acc ++ [x]) []

def showMsgs (l : List Msg) : String := joinWith "," (l.map fun m => toString m.val)

def step (s : St) (toks : List String) : St × String :=
  match toks with
  | ["cfg", n, b] => ({ set := [init (natOr n) (natOr b)] }, "ok 1")
  | ["ghost"] =>
    match s.set with
    | [] => (s, "ghost none")
    | st :: _ => (s, s!"ghost buf={showMsgs st.buf} acked={showMsgs st.acked} ackedBC={showMsgs st.ackedBC} delivered={showMsgs st.delivered} end={st.endReported}")
  | "act" :: rest =>
    let actToks := rest.takeWhile (· ≠ "|")
    let obs := sortStrs ((rest.dropWhile (· ≠ "|")).drop 1)
    match parseAction actToks with
    | none => (s, "bad-action")
    | some l =>
      let applied := s.set.filterMap (fun st => Juniper.Model.Pipe.step st l)
      if applied.isEmpty then (s, "bad-action not-enabled") else
      let start := applied.map (fun st => (st, ([] : List String)))
      let q := closure 64 start start []
      let ok := dedupStates ((q.filter (fun x => x.2 == obs)).map (·.1))
      if ok.isEmpty then
        let allowed := dedupStrs (q.map (fun x => "{" ++ joinWith " " x.2 ++ "}"))
        ({ set := [] }, "empty allowed: " ++ joinWith " " allowed)
      else ({ set := ok }, s!"ok {ok.length}")
  | _ => (s, "bad-op")

/-! ### Outcome sets (real-threads scenarios) -/

structure OCfg where
  st : State
  pre : List Label
  par : List Label
  post : List Label
  /-- completions of the phases so far, newest phase first; each phase sorted -/
  done : List (List String)
  deriving BEq

def OCfg.addDone (c : OCfg) (xs : List String) : List (List String) :=
  match c.done with
  | [] => [sortStrs xs]
  | d :: ds => sortStrs (d ++ xs) :: ds

def removeFirst (l : Label) : List Label → List Label
  | [] => []
  | x :: xs => if x == l then xs else x :: removeFirst l xs

/-- Successor configurations; `none` = terminal (an outcome). -/
def OCfg.succs (c : OCfg) : Option (List OCfg) :=
  let internal := (successors c.st).map fun (x : State × List String) => { c with st := x.1, done := c.addDone x.2 }
  let env : List OCfg :=
    match c.pre with
    | l :: rest =>
      (match Juniper.Model.Pipe.step c.st l with
       | some st' => [{ c with st := st', pre := rest }]
       | none => [])
    | [] =>
      if !c.par.isEmpty then
        c.par.filterMap fun l =>
          match Juniper.Model.Pipe.step c.st l with
          | some st' => some { c with st := st', par := removeFirst l c.par }
          | none => none
      else if internal.isEmpty then
        match c.post with
        | l :: rest =>
          (match Juniper.Model.Pipe.step c.st l with
           | some st' => [{ c with st := st', post := rest, done := [] :: c.done }]
           | none => [])
        | [] => []
      else []
  if internal.isEmpty && c.pre.isEmpty && c.par.isEmpty && c.post.isEmpty then none
  else some (internal ++ env)

def showOutcome (done : List (List String)) : String :=
  "{" ++ joinWith " | " (done.reverse.map (joinWith " ")) ++ "}"

def explore (fuel : Nat) (frontier seen : List OCfg) (outs : List String) : List String :=
  match fuel with
  | 0 => outs ++ ["fuel-exhausted"]
  | fuel + 1 =>
    match frontier with
    | [] => outs
    | c :: rest =>
      match c.succs with
      | none =>
        let o := showOutcome c.done
        explore fuel rest seen (if outs.contains o then outs else outs ++ [o])
      | some next =>
        let fresh := next.foldl (fun (acc : List OCfg) x => if seen.contains x || acc.contains x then acc else acc ++ [x]) []
        explore fuel (rest ++ fresh) (fresh ++ seen) outs

/-- `a ; b ; c` → the three token groups -/
def splitSemi (toks : List String) : List (List String) :=
  (toks.foldr (fun t (acc : List (List String)) =>
    if t == ";" then [] :: acc else
    match acc with
    | [] => [[t]]
    | g :: gs => (t :: g) :: gs) [[]]).filter (!·.isEmpty)

def outcomes (toks : List String) : String :=
  match toks with
  | n :: b :: "pre" :: rest =>
    let preT := rest.takeWhile (· ≠ "par")
    let rest2 := (rest.dropWhile (· ≠ "par")).drop 1
    let parT := rest2.takeWhile (· ≠ "post")
    let postT := (rest2.dropWhile (· ≠ "post")).drop 1
    let parse := fun (ts : List String) => (splitSemi ts).map parseAction
    let all := parse preT ++ parse parT ++ parse postT
    if all.any Option.isNone then "bad-action" else
    let get := fun (ts : List String) => (parse ts).filterMap id
    let c0 : OCfg := { st := init (natOr n) (natOr b), pre := get preT, par := get parT, post := get postT, done := [[]] }
    "outcomes " ++ joinWith " " (sortStrs (explore 200000 [c0] [c0] []))
  | _ => "bad-op"

def stepAll (s : St) (toks : List String) : St × String :=
  match toks with
  | "outcomes" :: rest => (s, outcomes rest)
  | _ => step s toks

def handler : Handler := { σ := St, init := {}, step := stepAll }

end Juniper.Driver.C10
