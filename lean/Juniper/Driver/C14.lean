import Juniper.Driver.Basic
import Juniper.Driver.ParConform
import Juniper.Model.ParMap
/-! Conformance drivers for the `parallel.MapStream` / `MapIterator` models (C14, C08/C09 clauses):
`driver parstream`, `driver pariter`.

Error identities are kept apart in the observation: `parent` (the caller's context error, a sentinel of the
harness), `canceled-src` / `canceled-close` / `canceled-lib` (a `context.Canceled` that the source returned
after the library cancelled its context / that `Close` caused / that the errgroup caused), `F<k>`, `S<k>`. The
harness prints a `context.Canceled` / `context.DeadlineExceeded` that `Next` returned as `canceled` /
`deadline`: no reachable state of the LTS of the code as it is shows either (the first recorded error is
always earlier), so such a trace is rejected whichever of the three it was.

`parstream` lines: `init <P> <B> <gmp> [slow] [dead]` (`dead`: the caller's context is done before `MapStream` is called), `time` (virtual time passes; not a label), `next 1|0` (consumer calls Next with a live / expired
context), `expire`, `close`, `pcancel`, `src item <v>` | `src end` | `src err <k>` (the pending source
call returns), `f <idx> ok <v>` | `f <idx> err <k>` (the pending call of f returns), `obs <observation>`.
The instrumented source of the harness returns `ctx.Err()` by itself when its context is done and its
`Close` returns at once; both are therefore internal steps here. With `init <P> <B> <gmp> slow` the
source's `Close` is gated like its `Next`: the return of `Close` is then the environment action
`src closed`, and quiescent states with the dispatcher inside `s.Close()` are observable (`src=…C`). -/
namespace Juniper.Driver.C14
open Juniper.Driver Juniper.Driver.ParConform Juniper.Model.ParMap

namespace S
open Juniper.Model.ParMap.Stream

structure DSt where
  cfg : Cfg := { code := code, P := 1, B := 1, gmp := 1 }
  states : List St := []
  overflow : Bool := false
  /-- the source's `Close` is an action of the environment (`src closed`), not an internal step -/
  slow : Bool := false

/-- error numbers standing for "the source returned its context's error": the caller's own error (the
harness cancels the context it passed to MapStream with a sentinel error, no deadline), or the library's
`context.Canceled` (`Close`, or the errgroup after a failure) -/
def srcCtxParent : Nat := 9001
def srcCtxCanceled : Nat := 9002

def srcCtxLabel (s : St) : Label :=
  match s.ctxCause with
  | some .parent => .srcRet (.err srcCtxParent)
  | _ => .srcRet (.err srcCtxCanceled)

def dstep (cfg : Cfg) (s : St) (l : Label) : Option St :=
  match l with
  | .srcRet (.err k) =>
    if k == srcCtxParent || k == srcCtxCanceled then
      (if ctxDone s && l == srcCtxLabel s then step cfg s l else none)
    else step cfg s l
  | _ => step cfg s l

def sys (cfg : Cfg) (slow : Bool := false) : Sys St Label :=
  { step := dstep cfg,
    internal := fun s => internalLabels s ++ (if slow then [srcCtxLabel s] else [.srcCloseRet, srcCtxLabel s]) }

/-- `libCtxEnd` ("the library's context ends by the library's own doing") is enabled only for code whose
context origin is not the plain cancel-only one (`Stream.ctxPlain = false`). Nothing in the harness triggers
it — it comes with the passage of (virtual) time — so it *may* happen at any moment but need not: the state
set is closed under it, while quiescence is judged without it. On such a tree the model follows the code. -/
def sysTime (cfg : Cfg) (slow : Bool := false) : Sys St Label :=
  { step := dstep cfg, internal := fun s => (sys cfg slow).internal s ++ [.libCtxEnd] }

def advanceS (cfg : Cfg) (slow : Bool) (states : List St) (act : St → Option St) : List St × Bool :=
  let next := states.filterMap act
  let (all, ok) := closure (sysTime cfg slow) next
  (all.toList.filter (quiescent (sys cfg slow)), ok)

def showErr : Err → String
  | .f k => s!"F{k}"
  | .src k => if k == srcCtxParent then "parent" else if k == srcCtxCanceled then "canceled-src" else s!"S{k}"
  | .ctxParent => "parent"
  | .ctxClose => "canceled-close"
  | .ctxLib => "canceled-lib"

def showRes : NextRes → String
  | .val k v => s!"{k}:{v}"
  | .end => "end"
  | .err e => showErr e
  | .ctxCons => "cons"

def showCons : CPc → String
  | .idle => "idle"
  | .next _ => "next"
  | .releasing _ _ => "next"
  | .nextWait => "next"
  | .closeWait => "close"
  | .closed => "closed"

def showSrcLog (l : List SrcEv) : String :=
  String.ofList (l.map fun | .nextBegin => 'N' | .nextEnd => 'n' | .closeBegin => 'C' | .closeEnd => 'c')

def runningIdx (s : St) : List Nat :=
  (s.ws.filterMap (fun pc => match pc with | .inF k => some k | _ => none)).mergeSort

def obsOf (s : St) : String :=
  let f := joinWith "," ((runningIdx s).map toString)
  let r := joinWith "," (s.results.map showRes)
  s!"f=[{f}] src={showSrcLog s.srcLog} cons={showCons s.cons} res=[{r}]"

def reply (d : DSt) : DSt × String :=
  if d.overflow then (d, "overflow") else
  if d.states.isEmpty then (d, "empty") else (d, s!"ok {d.states.length}")

def act (d : DSt) (f : St → Option St) : DSt × String :=
  let (st, ok) := advanceS d.cfg d.slow d.states f
  reply { d with states := st, overflow := d.overflow || !ok }

def findWorker (s : St) (k : Nat) : Option Nat :=
  s.ws.findIdx? (fun pc => pc == .inF k)

def step (d : DSt) : List String → DSt × String
  | ["init", p, b, g] =>
    let cfg : Cfg := { code := code, P := intOr p, B := intOr b, gmp := natOr g 1 }
    act { d with cfg := cfg, states := [init cfg], overflow := false, slow := false } some
  | ["init", p, b, g, "slow"] =>
    let cfg : Cfg := { code := code, P := intOr p, B := intOr b, gmp := natOr g 1 }
    act { d with cfg := cfg, states := [init cfg], overflow := false, slow := true } some
  -- `dead`: the context handed to `MapStream` is already done when `MapStream` is called: the environment's
  -- `parentCancel` is the first label, before any step of the dispatcher, the workers or the consumer
  | ["init", p, b, g, "dead"] =>
    let cfg : Cfg := { code := code, P := intOr p, B := intOr b, gmp := natOr g 1 }
    act { d with cfg := cfg, states := [init cfg], overflow := false, slow := false }
      (fun s => Stream.step cfg s .parentCancel)
  | ["init", p, b, g, "slow", "dead"] =>
    let cfg : Cfg := { code := code, P := intOr p, B := intOr b, gmp := natOr g 1 }
    act { d with cfg := cfg, states := [init cfg], overflow := false, slow := true }
      (fun s => Stream.step cfg s .parentCancel)
  | ["src", "closed"] => act d (fun s => Stream.step d.cfg s .srcCloseRet)
  -- virtual time passes with everything blocked: no label of the LTS of the code as it is; for code whose
  -- context can end by itself the closure below lets `libCtxEnd` happen
  | ["time"] => act d some
  | ["next", l] => act d (fun s => Stream.step d.cfg s (.nextCall (l == "1")))
  | ["expire"] =>
    -- a `Next` that is already inside `s.eg.Wait()` does not look at its context any more: its expiry
    -- is not a step of the LTS (observable only with a gated source `Close`, where that wait is quiescent)
    act d (fun s => if s.cons == .nextWait then some s else Stream.step d.cfg s .consCtxExpire)
  | ["close"] => act d (fun s => Stream.step d.cfg s .closeCall)
  | ["pcancel"] => act d (fun s => Stream.step d.cfg s .parentCancel)
  | ["src", "item", v] => act d (fun s => Stream.step d.cfg s (.srcRet (.item (natOr v))))
  | ["src", "end"] => act d (fun s => Stream.step d.cfg s (.srcRet .end))
  | ["src", "err", k] => act d (fun s => Stream.step d.cfg s (.srcRet (.err (natOr k))))
  | ["f", k, "ok", v] =>
    act d (fun s => (findWorker s (natOr k)).bind fun w => Stream.step d.cfg s (.fRet w (.ok (natOr v))))
  | ["f", k, "err", e] =>
    act d (fun s => (findWorker s (natOr k)).bind fun w => Stream.step d.cfg s (.fRet w (.err (natOr e))))
  | "obs" :: rest =>
    let want := joinWith " " rest
    let keep := d.states.filter (fun s => obsOf s == want)
    if keep.isEmpty && !d.overflow then
      let have_ := dedupStrings (d.states.map obsOf)
      ({ d with states := [] }, s!"empty want<{want}> model-allows<{joinWith " | " (have_.take 6)}> ({have_.length} alternatives)")
    else reply { d with states := keep }
  | _ => (d, "bad-op")

def handler : Handler := { σ := DSt, init := {}, step := step }
end S

namespace I
open Juniper.Model.ParMap.Iter

structure DSt where
  cfg : Cfg := { code := code, P := 1, B := 1, gmp := 1 }
  states : List St := []
  overflow : Bool := false

def sys (cfg : Cfg) : Sys St Label := { step := step cfg, internal := internalLabels }

def showRes : NextRes → String
  | .val k v => s!"{k}:{v}"
  | .end => "end"

def runningIdx (s : St) : List Nat :=
  (s.ws.filterMap (fun pc => match pc with | .inF k => some k | _ => none)).mergeSort

def obsOf (s : St) : String :=
  let f := joinWith "," ((runningIdx s).map toString)
  let r := joinWith "," (s.results.map showRes)
  let src := if s.disp == .inNext then "N" else "-"
  s!"f=[{f}] src={src}{s.srcCalls} cons={if s.cons == .next then "next" else "idle"} res=[{r}]"

def reply (d : DSt) : DSt × String :=
  if d.overflow then (d, "overflow") else
  if d.states.isEmpty then (d, "empty") else (d, s!"ok {d.states.length}")

def act (d : DSt) (f : St → Option St) : DSt × String :=
  let (st, ok) := advance (sys d.cfg) d.states f
  reply { d with states := st, overflow := d.overflow || !ok }

def findWorker (s : St) (k : Nat) : Option Nat :=
  s.ws.findIdx? (fun pc => pc == .inF k)

def step (d : DSt) : List String → DSt × String
  | ["init", p, b, g] =>
    let cfg : Cfg := { code := code, P := intOr p, B := intOr b, gmp := natOr g 1 }
    act { d with cfg := cfg, states := [init cfg], overflow := false } some
  | ["next"] => act d (fun s => Iter.step d.cfg s .nextCall)
  | ["time"] => act d some
  | ["src", "item", v] => act d (fun s => Iter.step d.cfg s (.srcRet (some (natOr v))))
  | ["src", "end"] => act d (fun s => Iter.step d.cfg s (.srcRet none))
  | ["f", k, "ok", v] =>
    act d (fun s => (findWorker s (natOr k)).bind fun w => Iter.step d.cfg s (.fRet w (natOr v)))
  | "obs" :: rest =>
    let want := joinWith " " rest
    let keep := d.states.filter (fun s => obsOf s == want)
    if keep.isEmpty && !d.overflow then
      let have_ := dedupStrings (d.states.map obsOf)
      ({ d with states := [] }, s!"empty want<{want}> model-allows<{joinWith " | " (have_.take 6)}> ({have_.length} alternatives)")
    else reply { d with states := keep }
  | _ => (d, "bad-op")

def handler : Handler := { σ := DSt, init := {}, step := step }
end I

end Juniper.Driver.C14
