import Juniper.Driver.Basic
import Juniper.Model.PQ
/-! Driver for the heap / priority-queue model (C05, heap half of C15): `driver heap`.

One `xheap.Heap` of items `(priority, id)` ordered by priority only (so that the algorithm's choice
among ties is visible), one `xheap.PriorityQueue` with `Int` keys and priorities, and any number of
iterators over each. Orders: `nat`, `rev`, `coarse` (`a/4 < b/4`), each `less`- or `cmp…`-constructed; the
compare functions come in four magnitude families (only the sign of a compare result is meaningful):
`cmp` = -1/0/+1, `cmpdiff` = difference of the order's keys, `cmpk` = ±1000, `cmpbig` = MinInt64/MaxInt64. -/
namespace Juniper.Driver.C05
open Juniper.Driver Juniper.Model
open Juniper.Model.Heap (Iter lessOfCmp lessOfLess)
open Juniper.Model.PQ (lessOfCmpP)

abbrev Item := Int × Int

def ordLess : String → Int → Int → Bool
  | "rev", a, b => decide (a > b)
  | "coarse", a, b => decide (Int.tdiv a 4 < Int.tdiv b 4)
  | _, a, b => decide (a < b)

/-- the compare function the harness hands to `NewCmp` / `NewPriorityQueueCmp` for constructor `ctor`
(`harness/heapcommon.OrdCmp`) -/
def ordCmp (o ctor : String) (a b : Int) : Int :=
  if ctor == "cmpdiff" then
    (match o with
     | "rev" => b - a
     | "coarse" => Int.tdiv a 4 - Int.tdiv b 4
     | _ => a - b)
  else
    let (neg, pos) : Int × Int :=
      if ctor == "cmpk" then (-1000, 1000)
      else if ctor == "cmpbig" then (-9223372036854775808, 9223372036854775807)
      else (-1, 1)
    if ordLess o a b then neg else if ordLess o b a then pos else 0

def isCmp (ctor : String) : Bool := ctor.startsWith "cmp"

/-- the order on priorities as the queue constructor builds it -/
def mkLessQ (ord ctor : String) : Int → Int → Bool :=
  if isCmp ctor then lessOfCmpP (ordCmp ord ctor) else ordLess ord

structure St where
  hless : Item → Item → Bool := fun a b => decide (a.1 < b.1)
  h : Heap.Heap Item := Heap.empty
  hits : Array Iter := #[]
  qless : Int → Int → Bool := fun a b => decide (a < b)
  q : PQ.PQ Int Int := { h := Heap.empty, m := [] }
  qits : Array Iter := #[]
  sh : Heap.Heap Item := Heap.empty            -- `save` / `restore` (enumeration of follow-up ops)
  sq : PQ.PQ Int Int := { h := Heap.empty, m := [] }

def parsePair (s : String) : Option (Int × Int) :=
  match s.splitOn ":" with
  | [a, b] => match a.toInt?, b.toInt? with
    | some x, some y => some (x, y)
    | _, _ => none
  | _ => none

def parsePairs (s : String) : List (Int × Int) :=
  if s == "-" then [] else (s.splitOn ",").filterMap parsePair

def showPair (p : Int × Int) : String := s!"{p.1}:{p.2}"
def showPairs (l : List (Int × Int)) : String := if l.isEmpty then "-" else joinWith "," (l.map showPair)

def showItemOpt : Option Item → String
  | some x => showPair x
  | none => "panic"

def showKeyOpt : Option Int → String
  | some k => toString k
  | none => "panic"

def obsHeap (s : St) : String :=
  s!"len={Heap.X.len s.h} peek={showItemOpt (Heap.X.peek s.h)}"

def obsKey (q : PQ.PQ Int Int) (k : Int) : String :=
  let c := if PQ.contains q k then "1" else "0"
  let p := match PQ.priority q k with
    | none => "panic"
    | some none => "0"
    | some (some p) => toString p
  s!"{k}={c}/{p}"

def obsPQ (s : St) (u : Nat) : String :=
  s!"len={PQ.len s.q} peek={showKeyOpt (PQ.peek s.q)} " ++
    joinWith " " ((List.range u).map fun (k : Nat) => obsKey s.q (Int.ofNat k))

def step (s : St) : List String → St × String
  -- xheap.Heap
  | ["hnew", ord, ctor, items] =>
    let less : Item → Item → Bool :=
      if isCmp ctor then lessOfCmp (fun a b => ordCmp ord ctor a.1 b.1)
      else lessOfLess (fun a b => ordLess ord a.1 b.1)
    let r := Heap.new less (parsePairs items)
    ({ s with hless := less, h := r.1, hits := #[] }, "ok")
  | ["push", p, id] =>
    ({ s with h := Heap.X.push s.hless s.h (intOr p, intOr id) }, "ok")
  | ["pop"] =>
    match Heap.X.pop s.hless s.h with
    | none => (s, "panic")
    | some (h', x) => ({ s with h := h' }, showPair x)
  | ["peek"] => (s, showItemOpt (Heap.X.peek s.h))
  | ["len"] => (s, toString (Heap.X.len s.h))
  | ["grow", _] => ({ s with h := Heap.X.grow s.h }, "ok")
  | ["shrink", _] => ({ s with h := Heap.X.shrink s.h }, "ok")
  | ["obs"] => (s, obsHeap s)
  | ["dump"] => (s, showPairs s.h.a)
  | ["iter"] => ({ s with hits := s.hits.push Heap.iterate }, s!"iter {s.hits.size}")
  | ["next", k] =>
    let k := natOr k
    match s.hits[k]? with
    | none => (s, "bad-op")
    | some it =>
      match Heap.X.iterNext s.h it with
      | (it', .panic) => ({ s with hits := s.hits.set! k it' }, "panic")
      | (it', .done) => ({ s with hits := s.hits.set! k it' }, "end")
      | (it', .item (some x)) => ({ s with hits := s.hits.set! k it' }, showPair x)
      | (it', .item none) => ({ s with hits := s.hits.set! k it' }, "0:0")  -- Go reads the zeroed slot
  -- xheap.PriorityQueue
  | ["qnew", ord, ctor, items] =>
    let less := mkLessQ ord ctor
    ({ s with qless := less, q := PQ.new less (parsePairs items), qits := #[] }, "ok")
  | ["update", k, p] =>
    match PQ.update s.qless s.q (intOr k) (intOr p) with
    | none => (s, "panic")
    | some q => ({ s with q := q }, "ok")
  | ["qpop"] =>
    match PQ.pop s.qless s.q with
    | none => (s, "panic")
    | some (q, k) => ({ s with q := q }, toString k)
  | ["qpeek"] => (s, showKeyOpt (PQ.peek s.q))
  | ["remove", k] =>
    match PQ.remove s.qless s.q (intOr k) with
    | none => (s, "panic")
    | some q => ({ s with q := q }, "ok")
  | ["contains", k] => (s, if PQ.contains s.q (intOr k) then "1" else "0")
  | ["priority", k] => (s, match PQ.priority s.q (intOr k) with
      | none => "panic" | some none => "0" | some (some p) => toString p)
  | ["qlen"] => (s, toString (PQ.len s.q))
  | ["qgrow", _] => ({ s with q := PQ.grow s.q }, "ok")
  | ["qobs", u] => (s, obsPQ s (natOr u))
  | ["qdump"] => (s, showPairs s.q.h.a)
  | ["qiter"] => ({ s with qits := s.qits.push Heap.iterate }, s!"iter {s.qits.size}")
  | ["qnext", k] =>
    let k := natOr k
    match s.qits[k]? with
    | none => (s, "bad-op")
    | some it =>
      match PQ.iterNext s.q it with
      | (it', .panic) => ({ s with qits := s.qits.set! k it' }, "panic")
      | (it', .done) => ({ s with qits := s.qits.set! k it' }, "end")
      | (it', .item (some x)) => ({ s with qits := s.qits.set! k it' }, toString x)
      | (it', .item none) => ({ s with qits := s.qits.set! k it' }, "0")
  | ["save"] => ({ s with sh := s.h, sq := s.q }, "ok")
  | ["restore"] => ({ s with h := s.sh, q := s.sq, hits := #[], qits := #[] }, "ok")
  | _ => (s, "bad-op")

def handler : Handler := { σ := St, init := {}, step := step }

end Juniper.Driver.C05
