import Juniper.Driver.Basic
import Juniper.Model.XTime
/-! Driver for the xtime model (C20): `driver xtime`.

`sleep d dl|- ctxAt|- res elapsed` : is the observed outcome of one `SleepContext` call (made at
instant 0, context `Done` closing at `ctxAt`) one the model allows?

Ticker lines drive a state-set engine over the JitterTicker LTS (quiescent-trace inclusion): the set
of model states compatible with the observations so far is kept; `reject` = the set became empty.
`new d j ok|panic`, `adv dt` (clock runs, virtual-time urgency), `settle` (= `synctest.Wait()`),
`poll tick T|empty`, `reset d j ok|panic`, `stop ok|panic`.

The values of the random source are enumerated completely for the small jitters of the model-checked
scripts. For arguments at the int64 boundaries (jitter up to 2^63) that is impossible; for them only
the panic outcome is compared, outside the state set: `newp d j ok|panic` (does `NewJitterTicker(d, j)`
panic in the model, for the two ends of the range of draws?) and `resetp d j ok|panic` (`Reset(d, j)`
on a freshly created `(1000, 1)` ticker). -/
namespace Juniper.Driver.C20
open Juniper.Driver Juniper.Model.XTime Juniper.Gen.XTime

structure St where
  clock : Int := 0
  set : List TState := []

def showRet : Ret → String
  | .nil => "nil" | .tooSoon => "toosoon" | .ctxErr => "ctxerr" | .other _ => "other"

def optInt (s : String) : Option Int := if s == "-" then none else s.toInt?

def reach (S : List TState) : List TState := internalReach 20000 S []

def fin (s : St) (S : List TState) (why : String) : St × String :=
  let S := (S.map canon).eraseDups
  ({ s with set := S }, if S.isEmpty then s!"reject {why}" else s!"ok {S.length}")

def wantPanic (o : String) (S : List TState) : List TState :=
  if o == "panic" then S.filter (·.lastPanic) else S.filter (fun x => !x.lastPanic)

def step (s : St) : List String → St × String
  | ["sleep", d, dl, ctxAt, res, el] =>
    let outs := sleepOutcomes (intOr d) (optInt dl) (optInt ctxAt)
    let shown := outs.map fun (r, t) => s!"{showRet r}@{t}"
    if shown.contains s!"{res}@{intOr el}" then (s, "ok") else (s, "reject allowed=" ++ joinWith "," shown)
  | ["new", d, j, o] =>
    let S := (0 :: randChoices (intOr j)).eraseDups.filterMap (create s.clock (intOr d) (intOr j))
    fin s (wantPanic o S) s!"new: model allows panic={(S.map (·.lastPanic)).eraseDups}"
  | ["newp", d, j, o] =>
    let S := (0 :: randChoices (intOr j)).eraseDups.filterMap (create 0 (intOr d) (intOr j))
    let ps := (S.map (·.lastPanic)).eraseDups
    (s, if ps == [o == "panic"] then "ok" else s!"reject newp: model allows panic={ps}")
  | ["resetp", d, j, o] =>
    let S := ((create 0 1000 1 0).toList).flatMap fun x =>
      (0 :: randChoices (intOr j)).eraseDups.filterMap fun r => tstep x (.reset (intOr d) (intOr j) r)
    let ps := (S.map (·.lastPanic)).eraseDups
    (s, if ps == [o == "panic"] then "ok" else s!"reject resetp: model allows panic={ps}")
  | ["adv", dt] =>
    let t := s.clock + intOr dt
    fin { s with clock := t } (advanceTo 100000 t s.set) "adv"
  | ["settle"] => fin s ((reach s.set).filter isQuiescent) "settle"
  | ["poll", "empty"] =>
    let R := reach s.set
    fin s (R.filter (·.chan.isEmpty)) s!"poll empty: model has chan={(R.map (·.chan)).eraseDups}"
  | ["poll", "tick", t] =>
    let R := reach s.set
    fin s (R.filterMap fun x => match x.chan with
      | y :: rest => if y = intOr t then some { x with chan := rest } else none
      | [] => none) s!"poll tick {t}: model has chan={(R.map (·.chan)).eraseDups}"
  | ["reset", d, j, o] =>
    let R := reach s.set
    let S := R.flatMap fun x => (0 :: randChoices (intOr j)).eraseDups.filterMap fun r => tstep x (.reset (intOr d) (intOr j) r)
    fin s (wantPanic o S) s!"reset: model allows panic={(S.map (·.lastPanic)).eraseDups}"
  | ["stop", o] =>
    let R := reach s.set
    let S := R.filterMap fun x => tstep x .stop
    fin s (wantPanic o S) s!"stop: model allows panic={(S.map (·.lastPanic)).eraseDups}"
  | _ => (s, "bad-op")

def handler : Handler := { σ := St, init := {}, step := step }

end Juniper.Driver.C20
