import Std.Data.HashSet
/-! State-set conformance engine for the goroutine models of `parallel` (C13, C14): closure of a set
of model states under internal steps, filtered to quiescent states (no internal step enabled), which
is what `synctest.Wait()` observes of the real code. Driver-side only (not part of any proof). -/
namespace Juniper.Driver.ParConform

structure Sys (σ Lab : Type) where
  step : σ → Lab → Option σ
  internal : σ → List Lab

variable {σ Lab : Type} [BEq σ] [Hashable σ]

/-- every state reachable from `seeds` by internal steps (including the seeds); `false` on overflow -/
partial def closure (sys : Sys σ Lab) (seeds : List σ) (limit : Nat := 400000) : Array σ × Bool :=
  let rec go (todo : List σ) (seen : Std.HashSet σ) (acc : Array σ) : Array σ × Bool :=
    match todo with
    | [] => (acc, true)
    | s :: rest =>
      if acc.size > limit then (acc, false) else
      let succ := (sys.internal s).filterMap (sys.step s)
      let (todo', seen') := succ.foldl (fun (t, sn) x => if sn.contains x then (t, sn) else (x :: t, sn.insert x)) (rest, seen)
      go todo' seen' (acc.push s)
  let seen0 := seeds.foldl (fun sn x => sn.insert x) (Std.HashSet.emptyWithCapacity 64)
  let seeds' := seeds.foldl (fun (acc, sn) x => if sn.contains x then (acc, sn) else (x :: acc, sn.insert x))
    (([] : List σ), (Std.HashSet.emptyWithCapacity 64 : Std.HashSet σ))
  go seeds'.1 seen0 #[]

def quiescent (sys : Sys σ Lab) (s : σ) : Bool := (sys.internal s).all (fun l => (sys.step s l).isNone)

/-- apply an environment action to every state, close, keep the quiescent states -/
def advance (sys : Sys σ Lab) (states : List σ) (act : σ → Option σ) : List σ × Bool :=
  let next := states.filterMap act
  let (all, ok) := closure sys next
  ((all.toList.filter (quiescent sys)), ok)

/-- two environment actions released *together* (the harness lets both go before it waits for quiescence): any
amount of internal progress may happen between them — so the model states in which both have happened but the
bookkeeping of neither has finished (two workers holding a failure at once, audit C13 F7) are on the model side of
the inclusion —, and they may take effect in either order -/
def advance2 (sys : Sys σ Lab) (states : List σ) (act1 act2 : σ → Option σ) : List σ × Bool :=
  let (m12, ok1) := closure sys (states.filterMap act1)
  let (m21, ok2) := closure sys (states.filterMap act2)
  let (all, ok3) := closure sys (m12.toList.filterMap act2 ++ m21.toList.filterMap act1)
  ((all.toList.filter (quiescent sys)), ok1 && ok2 && ok3)

def dedupStrings (l : List String) : List String :=
  l.foldl (fun acc x => if acc.contains x then acc else acc ++ [x]) []

end Juniper.Driver.ParConform
