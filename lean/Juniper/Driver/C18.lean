import Juniper.Driver.Basic
import Juniper.Model.Watch
/-! Drivers for C18: `driver tmap` (typed map over sync.Map), `driver watch` (Watchable, calls run
to completion one after the other through the LTS's micro-steps), `driver future` (state-set
conformance), `driver lazy`. -/
namespace Juniper.Driver.C18
open Juniper.Driver Juniper.Model.Watch

/-! ### typed map -/

structure MapSt where
  m : SMap Int Int := []
  vIface : Bool := false
  kIface : Bool := false

def parseAny (s : String) : Option Int := if s == "nil" then none else some (intOr s)
def showAny : Option Int → String
  | none => "nil"
  | some v => toString v
def showB (b : Bool) : String := if b then "true" else "false"

def leAny : Option Int → Option Int → Bool
  | none, _ => true
  | some _, none => false
  | some a, some b => a ≤ b

def insertSorted (p : String × Option Int) : List (String × Option Int) → List (String × Option Int)
  | [] => [p]
  | q :: rest => if leAny p.2 q.2 then p :: q :: rest else q :: insertSorted p rest

def showPV {V : Type} (sv : V → String) : Out (V × Bool) → String
  | .ok (v, b) => sv v ++ " " ++ showB b
  | .panic => "panic"

/-- the callback of `rangestop n`: its i-th invocation (counting from 1) answers `i < n`. The keys of
a map are distinct, so over the model's iteration order this is the pure function "the position of
the key among the typed keys, plus one, is below n". -/
def stopAt {K V : Type} (sk : K → Option Int) (keys : List (Option Int)) (n : Nat) (k : K) (_ : V) : Bool :=
  match keys.idxOf? (sk k) with
  | some i => decide (i + 1 < n)
  | none => false

def runMapOp {K V : Type} (kk : Kind K Int) (vk : Kind V Int) (pk : String → K) (pv : String → V)
    (sk : K → Option Int) (sv : V → String) (m : SMap Int Int) : List String → SMap Int Int × String
  | ["load", k] => let r := tLoad MapCfg.gen kk vk m (pk k); (r.1, showPV sv r.2)
  | ["store", k, v] => ((tStore kk vk m (pk k) (pv v)).1, "ok")
  | ["delete", k] => ((tDelete kk m (pk k)).1, "ok")
  | ["loadanddelete", k] => let r := tLoadAndDelete MapCfg.gen kk vk m (pk k); (r.1, showPV sv r.2)
  | ["loadorstore", k, v] => let r := tLoadOrStore MapCfg.gen kk vk m (pk k) (pv v); (r.1, showPV sv r.2)
  | ["swap", k, v] => let r := tSwap MapCfg.gen kk vk m (pk k) (pv v); (r.1, showPV sv r.2)
  | ["cas", k, o, n] =>
    let r := tCompareAndSwap kk vk m (pk k) (pv o) (pv n)
    (r.1, match r.2 with | .ok b => showB b | .panic => "panic")
  | ["cad", k, o] =>
    let r := tCompareAndDelete kk vk m (pk k) (pv o)
    (r.1, match r.2 with | .ok b => showB b | .panic => "panic")
  | ["range"] =>
    match tRange MapCfg.gen kk vk m (fun _ _ => true) with
    | .panic => (m, "panic")
    | .ok l =>
      let items := l.foldl (fun acc p => insertSorted (showAny (sk p.1) ++ ":" ++ sv p.2, sk p.1) acc) []
      (m, if items.isEmpty then "empty" else joinWith "," (items.map (·.1)))
  | ["rangestop", n] =>
    -- the number of invocations of a callback that returns false at its max(n,1)-th invocation
    match tRange MapCfg.gen kk vk m (stopAt sk (m.range.map (fun p => sk (kk.ofAny p.1))) (natOr n)) with
    | .panic => (m, "panic")
    | .ok l => (m, s!"calls={l.length}")
  | _ => (m, "bad-op")

def cInt : Kind Int Int := concrete Int 0
def iInt : Kind (Option Int) Int := iface Int

def mapStep (st : MapSt) (toks : List String) : MapSt × String :=
  match toks with
  | ["new", v, k] => ({ m := [], vIface := v == "i", kIface := k == "i" }, "ok")
  | _ =>
    let r := match st.vIface, st.kIface with
      | false, false => runMapOp cInt cInt intOr intOr some toString st.m toks
      | true, false => runMapOp cInt iInt intOr parseAny some showAny st.m toks
      | false, true => runMapOp iInt cInt parseAny intOr id toString st.m toks
      | true, true => runMapOp iInt iInt parseAny parseAny id showAny st.m toks
    ({ st with m := r.1 }, r.2)

def mapHandler : Handler := { σ := MapSt, init := {}, step := mapStep }

/-! ### Watchable -/

structure WatchSt where
  s : WState := winit [] 0
  /-- model channel ids in the order in which `Value` first returned them -/
  seen : List Nat := []
  /-- observers: the cell each one is parked on -/
  obs : List Nat := []

def wdo (s : WState) (l : WLabel) : WState := (wstep WCfg.gen s l).getD s

/-- run one `Set(v)` call to completion -/
def runSet (s : WState) (v : Int) : WState × Bool :=
  let i := s.setters.length
  let s := { s with setters := s.setters ++ [(v, .idle)] }
  let s := wdo (wdo s (.swap i)) (.close i)
  (s, match s.setters[i]? with | some (_, .done) => true | _ => false)

/-- run one `Value()` call to completion; the returned cell -/
def runValue (s : WState) : WState × Option Nat :=
  let j := s.readers.length
  let s := { s with readers := s.readers ++ [.idle] }
  let s := wdo s (.load j)
  let s := match s.readers[j]? with
    | some .sawNil =>
      let s := wdo s (.cas j)
      match s.readers[j]? with
      | some .casFailed => wdo s (.reload j)
      | _ => s
    | _ => s
  (s, match s.readers[j]? with | some (.done c _) => some c | _ => none)

def showVal : Option Int → String
  | none => "zero"
  | some v => toString v

def seenIdx (st : WatchSt) (c : Nat) : WatchSt × Nat :=
  match st.seen.idxOf? c with
  | some i => (st, i)
  | none => ({ st with seen := st.seen ++ [c] }, st.seen.length)

def showCell (st : WatchSt) (c : Nat) : WatchSt × String :=
  let (st, i) := seenIdx st c
  let cell := cellAt st.s c
  (st, s!"{showVal cell.val} k{i} {if cell.closed then "closed" else "open"}")

/-- observers whose channel was closed call `Value` again (until they park on an open one) -/
def settleObs (st : WatchSt) : Nat → WatchSt
  | 0 => st
  | fuel + 1 =>
    let (st', changed) := st.obs.zipIdx.foldl (fun (acc : WatchSt × Bool) (p : Nat × Nat) =>
      let (a, ch) := acc
      if (cellAt a.s p.1).closed then
        match runValue a.s with
        | (s', some c) =>
          let (a', _) := seenIdx { a with s := s' } c
          ({ a' with obs := a'.obs.set p.2 c }, true)
        | (s', none) => ({ a with s := s' }, ch)
      else (a, ch)) (st, false)
    if changed then settleObs st' fuel else st'

def showObs (st : WatchSt) : String :=
  "obs=" ++ joinWith "," (st.obs.map (fun c => showVal (cellAt st.s c).val))

def watchStep (st : WatchSt) (toks : List String) : WatchSt × String :=
  match toks with
  | ["set", v] =>
    let (s, ok) := runSet st.s (intOr v)
    let st := settleObs { st with s := s } 4
    (st, (if ok then "ok " else "panic ") ++ showObs st)
  | ["value"] =>
    match runValue st.s with
    | (s, some c) => showCell { st with s := s } c
    | (s, none) => ({ st with s := s }, "panic")
  | ["observe"] =>
    match runValue st.s with
    | (s, some c) =>
      let (st, o) := showCell { st with s := s } c
      ({ st with obs := st.obs ++ [c] }, o)
    | (s, none) => ({ st with s := s }, "panic")
  | ["chans"] =>
    (st, "chans " ++ joinWith "," (st.seen.map (fun c => if (cellAt st.s c).closed then "closed" else "open")))
  | _ => (st, "bad-op")

def watchHandler : Handler := { σ := WatchSt, init := {}, step := watchStep }

/-! ### Future: state-set conformance -/

structure FutSt where
  ss : List FState := []
  dead : Bool := false

def fInternal (s : FState) : List FState :=
  (List.range s.waiters.length).flatMap (fun j =>
    [FLabel.recv j, .read j, .giveUp j].filterMap (fstep FCfg.gen s))

/-- every state reachable by internal steps (including the start states) -/
def fReachInt : Nat → List FState → List FState
  | 0, ss => ss
  | fuel + 1, ss =>
    let next := (ss ++ ss.flatMap fInternal).eraseDups
    if next.length == ss.length then ss else fReachInt fuel next

def fQuiescent (s : FState) : Bool := (fInternal s).isEmpty

def showWaiter (w : FWaiter) : String :=
  match w.pc with
  | .idle => "I"
  | .blocked => "B"
  | .passed => "?"
  | .done (.val x) => "V" ++ showVal x
  | .done .ctxErr => "E"

def fObs (s : FState) (fillRes : String) : String :=
  fillRes ++ " " ++ joinWith "," (s.waiters.map showWaiter)

/-- apply one harness action; results are (state, fill result) pairs -/
def fApply (ss : List FState) : List String → List (FState × String)
  | ["call", j] => (ss.filterMap (fun s => fstep FCfg.gen s (.call (natOr j)))).map (·, "-")
  | ["cancel", j] => (ss.filterMap (fun s => fstep FCfg.gen s (.cancel (natOr j)))).map (·, "-")
  | ["fill", v] =>
    ss.flatMap (fun s =>
      let i := s.fillers.length
      let s := { s with fillers := s.fillers ++ [(intOr v, .idle)] }
      match fstep FCfg.gen s (.fill1 i) with
      | none => []
      | some s1 =>
        match s1.fillers[i]? with
        | some (_, .panicked) => [(s1, "panic")]
        | _ =>
          (fReachInt (3 * s1.waiters.length + 1) [s1]).filterMap (fun s2 =>
            match fstep FCfg.gen s2 (.fill2 i) with
            | some s3 => some (s3, match s3.fillers[i]? with | some (_, .panicked) => "panic" | _ => "ok")
            | none => none))
  | _ => []

def futStep (st : FutSt) (toks : List String) : FutSt × String :=
  match toks with
  | "init" :: flags => ({ ss := [finit [] (flags.map (· == "c"))] }, "ok 1")
  | _ =>
    if st.dead then (st, "dead") else
    let act := toks.takeWhile (· ≠ "=")
    let obs := joinWith " " ((toks.dropWhile (· ≠ "=")).drop 1)
    let next := fApply st.ss act
    let fuel := match st.ss with | s :: _ => 3 * s.waiters.length + 1 | [] => 1
    let all := next.flatMap (fun p => ((fReachInt fuel [p.1]).filter fQuiescent).map (·, p.2))
    let keep := (all.filter (fun p => fObs p.1 p.2 == obs)).map (·.1)
    if keep.isEmpty then
      ({ st with dead := true }, "EMPTY allowed=" ++ joinWith ";" ((all.map (fun p => fObs p.1 p.2)).eraseDups))
    else ({ st with ss := keep.eraseDups }, s!"ok {keep.eraseDups.length}")

def futHandler : Handler := { σ := FutSt, init := {}, step := futStep }

/-! ### Lazy

Sequential lines (`call v` / `callp v`: one call run to completion; if `f` runs now it returns `v` /
panics with `v`) answer `<v> runs=<n>` / `panic <v> runs=<n>`. Concurrent lines (gated `f`): `go` = a
new caller enters (runs `f`, parks behind the running call, or takes the stored outcome); `ret v` /
`pan v` = the running `f` returns `v` / panics with `v`, after which every parked caller wakes (the
quiescent point the harness observes). They answer the status of every caller:
`st=<c0>,<c1>,… runs=<n>` with `pend` (inside `f` or parked), `v<k>` (returned k), `p<k>` (panicked with k). -/

def showOut : LOut → String
  | .val v => s!"{v}"
  | .pan v => s!"panic {v}"

def showPc : CallPc → String
  | .done (.val v) => s!"v{v}"
  | .done (.pan v) => s!"p{v}"
  | _ => "pend"

def lazyObs (s : LState) : String :=
  s!"st={",".intercalate (s.callers.map showPc)} runs={s.runs}"

/-- the run of `f` (on the first caller found inside `f`) ends with `o`; every parked caller wakes -/
def lazyEnd (s : LState) (o : LOut) : LState :=
  match s.callers.findIdx? (· == .inF) with
  | none => s
  | some j =>
    let s := (lstep lazyOnceGen s (.finish j o)).getD s
    (List.range s.callers.length).foldl (fun s i => (lstep lazyOnceGen s (.wake i)).getD s) s

def lazyCall (s : LState) (o : LOut) : LState × String :=
  let j := s.callers.length
  let s := { s with callers := s.callers ++ [.idle] }
  let s := (lstep lazyOnceGen s (.enter j)).getD s
  let s := match s.callers[j]? with
    | some .inF => (lstep lazyOnceGen s (.finish j o)).getD s
    | _ => s
  (s, match s.callers[j]? with
    | some (.done r) => s!"{showOut r} runs={s.runs}"
    | _ => s!"stuck runs={s.runs}")

def lazyStep (s : LState) (toks : List String) : LState × String :=
  match toks with
  | ["call", fv] => lazyCall s (.val (intOr fv))
  | ["callp", fv] => lazyCall s (.pan (intOr fv))
  | "go" :: _ =>
    let j := s.callers.length
    let s := { s with callers := s.callers ++ [.idle] }
    let s := (lstep lazyOnceGen s (.enter j)).getD s
    (s, lazyObs s)
  | ["ret", fv] => let s := lazyEnd s (.val (intOr fv)); (s, lazyObs s)
  | ["pan", fv] => let s := lazyEnd s (.pan (intOr fv)); (s, lazyObs s)
  | _ => (s, "bad-op")

def lazyHandler : Handler := { σ := LState, init := linit 0, step := lazyStep }

end Juniper.Driver.C18
