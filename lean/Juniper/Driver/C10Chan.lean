import Juniper.Driver.Basic
import Juniper.Model.ChanStream
/-!
Conformance driver for the `stream.Chan` LTS: `driver chanstream`. Same protocol as `driver pipe`:
`cfg <cap>`; `act put v | …`, `act close |`, `act next c | …`, `act cancelnext | …` with completions
`n=v<value>|end|ctx`.
-/
namespace Juniper.Driver.C10Chan
open Juniper.Driver Juniper.Model.ChanStream Juniper.Facts

structure St where
  set : List State := []

/-- quiescent successors by internal steps (at most one `Next` is pending, so depth ≤ 1) -/
def settle (x : State × List String) : List (State × List String) :=
  let succ := Juniper.Gen.Pipe.chanNextArms.filterMap fun a =>
    match step x.1 (.arm a) with
    | none => none
    | some st' => some (st', x.2 ++ (match completion x.1 (.arm a) with | some r => ["n=" ++ r.token] | none => []))
  if succ.isEmpty then [x] else succ

def parseAction : List String → Option Label
  | ["put", v] => some (.put (intOr v))
  | ["close"] => some .close
  | ["next", c] => some (.startNext (c == "1"))
  | ["cancelnext"] => some .cancelNext
  | _ => none

def dedup (l : List State) : List State :=
  l.foldl (fun acc x => if acc.contains x then acc else acc ++ [x]) []

def step' (s : St) (toks : List String) : St × String :=
  match toks with
  | ["cfg", c] => ({ set := [init (natOr c)] }, "ok 1")
  | "act" :: rest =>
    let actToks := rest.takeWhile (· ≠ "|")
    let obs := (rest.dropWhile (· ≠ "|")).drop 1
    match parseAction actToks with
    | none => (s, "bad-action")
    | some l =>
      let applied := s.set.filterMap fun st =>
        match step st l with
        | none => none
        | some st' => some (st', (match completion st l with | some r => ["n=" ++ r.token] | none => []))
      if applied.isEmpty then (s, "bad-action not-enabled") else
      let q := applied.flatMap settle
      let ok := dedup ((q.filter (fun x => x.2 == obs)).map (·.1))
      if ok.isEmpty then
        ({ set := [] }, "empty allowed: " ++ joinWith " " (q.map fun x => "{" ++ joinWith " " x.2 ++ "}"))
      else ({ set := ok }, s!"ok {ok.length}")
  | _ => (s, "bad-op")

def handler : Handler := { σ := St, init := {}, step := step' }

end Juniper.Driver.C10Chan
