import Juniper.Driver.Basic
import Juniper.Model.Deque
/-! Driver for the deque model (C04, C15): `driver deque`. -/
namespace Juniper.Driver.C04
open Juniper.Driver Juniper.Model.Deque

structure St where
  d : Deque Int := zero
  its : Array Iter := #[]

def showSlots (a : List (Option Int)) : String :=
  joinWith "," (a.map fun | none => "_" | some v => toString v)

def showState (d : Deque Int) : String :=
  s!"state nil={if d.isNil then 1 else 0} cap={d.a.length} front={d.front} back={d.back} gen={d.gen} slots={showSlots d.a}"

def unitRes (s : St) : Res (Deque Int) Unit → St × String
  | .ok d () => ({ s with d := d }, "ok")
  | .panic d => ({ s with d := d }, "panic")

def valRes (s : St) : Res (Deque Int) (Option Int) → St × String
  | .ok d v => ({ s with d := d }, showOptInt v)
  | .panic d => ({ s with d := d }, "panic")

def step (s : St) : List String → St × String
  | ["pushfront", v] => unitRes s (pushFront s.d (intOr v))
  | ["pushback", v] => unitRes s (pushBack s.d (intOr v))
  | ["popfront"] => valRes s (popFront s.d)
  | ["popback"] => valRes s (popBack s.d)
  | ["front"] => valRes s (frontOf s.d)
  | ["back"] => valRes s (backOf s.d)
  | ["item", i] => valRes s (item s.d (intOr i))
  | ["set", i, v] => unitRes s (set s.d (intOr i) (intOr v))
  | ["grow", n] => unitRes s (grow s.d (intOr n))
  | ["shrink", n] => unitRes s (shrink s.d (intOr n))
  | ["len"] => (s, toString (len s.d))
  | ["state"] => (s, showState s.d)
  | ["tolist"] => (s, "list " ++ showSlots (toList s.d))
  | ["iter"] => ({ s with its := s.its.push (iterate s.d) }, s!"iter {s.its.size}")
  | ["next", k] =>
    let k := natOr k
    match s.its[k]? with
    | none => (s, "bad-op")
    | some it =>
      match iterNext s.d it with
      | .panic it' => ({ s with its := s.its.set! k it' }, "panic")
      | .ok it' none => ({ s with its := s.its.set! k it' }, "end")
      | .ok it' (some v) => ({ s with its := s.its.set! k it' }, showOptInt v)
  | _ => (s, "bad-op")

def handler : Handler := { σ := St, init := {}, step := step }

end Juniper.Driver.C04
